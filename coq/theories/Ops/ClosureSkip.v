(* C04 -- a second concrete levelled program at the rows of the generated table: ops.skip, and the
   executable view of the two concrete programs (take, skip) that the harness runs against the
   real operators (family `closure_progs` of harness/props/C04.py).

   reactivex/operators/_skip.py: `count` is captured when the operator is built (read only),
   `remaining = count` is allocated by subscribe; on_next forwards the value when remaining <= 0 and
   decrements remaining otherwise.  Stores as in [described_by]: the factory store holds the
   captured argument, the application store is empty, the subscription state is `remaining`.
   Inputs are the source's on_next values; an output is the list of notifications the handler
   sends (Some v = on_next v; skip never completes by itself).

     skip_described      prog_skip is described by the rows "ops.skip" of the generated table
     skip_resubscribe    hence subscriptions of one application that receive the same inputs emit
                         the same outputs, whatever the other subscriptions did (through the table)
     skip_iso_closed     closed form of one subscription alone: the inputs after the first `count`
     run_prog            flat encoding of a shared run, evaluated by the correspondence check *)
From Coq Require Import List String ZArith Bool Arith Lia ZifyBool.
From RxVerif Require Base.Prelude.
From RxVerif Require Import Ops.Closure Ops.ClosureFacts Ops.ClosureCompose Gen.AllocTable.
Import ListNotations.

Definition prog_skip (count : Z) : lprog unit Z (list (option Z)) store store Z :=
  mk_lprog _ _ _ _ _ _ [count]
    (fun f _ => f) (fun _ _ => [])
    (fun f _ => f) (fun _ a => a) (fun f _ => nth 0 f 0%Z)
    (fun f _ _ _ => f) (fun _ a _ _ => a)
    (fun _ _ s _ => if (s <=? 0)%Z then s else (s - 1)%Z)
    (fun _ _ s i => if (s <=? 0)%Z then [Some i] else []).

Open Scope string_scope.

Lemma skip_rows_cells :
  fcells (rows_of "ops.skip" alloc_table) = [] /\ acells (rows_of "ops.skip" alloc_table) = []
  /\ existsb (fun e => String.eqb (a_name e) "remaining" && level_leb LSub (a_alloc e))
             (rows_of "ops.skip" alloc_table) = true.
Proof. vm_compute. repeat split. Qed.

Lemma skip_rows_ok :
  forallb entry_ok_C04 (rows_of "ops.skip" alloc_table) = true
  /\ forallb (fun e => negb (a_mc e || a_hot e)) (rows_of "ops.skip" alloc_table) = true.
Proof. vm_compute. split; reflexivity. Qed.

Lemma skip_described : forall count,
  described_by unit Z (list (option Z)) Z (prog_skip count)
    (fcells (rows_of "ops.skip" alloc_table)) (acells (rows_of "ops.skip" alloc_table)).
Proof.
  intros count. destruct skip_rows_cells as [-> [-> _]].
  unfold described_by, keeps. cbn. repeat split; intros; reflexivity.
Qed.

Theorem skip_resubscribe : forall count h st t,
  exec_shared _ _ _ _ _ _ (prog_skip count) (init_shared _ _ _ _ _ _ (prog_skip count)) h = (st, t) ->
  forall j1 j2 k s1 s2,
    nth_error (s_subs _ _ _ _ st) j1 = Some (k, s1) ->
    nth_error (s_subs _ _ _ _ st) j2 = Some (k, s2) ->
    ins_of _ _ j1 t = ins_of _ _ j2 t -> outs_of _ _ j1 t = outs_of _ _ j2 t.
Proof.
  intros count. destruct skip_rows_ok as [H1 H2].
  exact (C04_rows_sound_thm _ H1 H2 _ _ _ _ (prog_skip count) (skip_described count)).
Qed.

(* two overlapping subscriptions of skip(1) applied once: each drops the first value it received *)
Lemma skip_witness :
  let h := [EApply tt; ESub 0; ERun 0 10%Z; ESub 0; ERun 1 20%Z; ERun 0 11%Z; ERun 1 21%Z; ERun 0 12%Z] in
  let t := trace_shared _ _ _ _ _ _ (prog_skip 1) h in
  outs_of _ _ 0 t = [[]; [Some 11%Z]; [Some 12%Z]]
  /\ outs_of _ _ 1 t = [[]; [Some 21%Z]].
Proof. vm_compute. split; reflexivity. Qed.

Close Scope string_scope.

(* ---- the handler of one subscription alone, in closed form --------------------------------- *)
(* the subscription state and what is emitted, from state s over the inputs [ins] *)
Fixpoint skip_run (s : Z) (ins : list Z) : list (list (option Z)) :=
  match ins with
  | [] => []
  | i :: r => (if (s <=? 0)%Z then [Some i] else []) :: skip_run (if (s <=? 0)%Z then s else (s - 1)%Z) r
  end.

Fixpoint take_run (s : Z) (ins : list Z) : list (list (option Z)) :=
  match ins with
  | [] => []
  | i :: r => (if (s >? 0)%Z then Some i :: (if (s - 1 =? 0)%Z then [None] else []) else [])
              :: take_run (if (s >? 0)%Z then (s - 1)%Z else s) r
  end.

(* the notifications of skip(s) over [ins], flattened: the inputs after the first s *)
Lemma skip_run_closed : forall ins s,
  List.concat (skip_run s ins) = map Some (RxVerif.Base.Prelude.zskip s ins).
Proof.
  induction ins as [|i r IH]; intros s; cbn [skip_run List.concat map RxVerif.Base.Prelude.zskip]; [reflexivity|].
  destruct (s <=? 0)%Z eqn:E.
  - rewrite IH. cbn [app].
    assert (Hz : forall l : list Z, RxVerif.Base.Prelude.zskip s l = l).
    { intros l. destruct l as [|x l]; cbn [RxVerif.Base.Prelude.zskip]; [reflexivity|]. rewrite E. reflexivity. }
    rewrite Hz. reflexivity.
  - cbn [app]. apply IH.
Qed.

(* the notifications of take(s), s >= 1, over [ins], flattened: the first s inputs, and the
   completion exactly when s inputs arrived *)
Lemma take_run_closed : forall ins s, (0 < s)%Z ->
  List.concat (take_run s ins) =
  map Some (RxVerif.Base.Prelude.ztake s ins) ++ (if (Z.of_nat (List.length ins) >=? s)%Z then [None] else []).
Proof.
  induction ins as [|i r IH]; intros s Hs.
  - cbn. destruct (0 >=? s)%Z eqn:E; [lia | reflexivity].
  - cbn [take_run List.concat map RxVerif.Base.Prelude.ztake List.length].
    assert (G : (s >? 0)%Z = true) by lia. rewrite G.
    assert (L : (s <=? 0)%Z = false) by lia. rewrite L.
    cbn [map app]. f_equal.
    destruct (s - 1 =? 0)%Z eqn:E1.
    + assert (s = 1%Z) by lia. subst s. cbn [app].
      assert (T : forall l, List.concat (take_run (1 - 1) l) = []).
      { induction l as [|x l IHl]; cbn [take_run List.concat]; [reflexivity|]. cbn. exact IHl. }
      rewrite T.
      assert (Z0 : RxVerif.Base.Prelude.ztake (1 - 1) r = []).
      { destruct r; cbn; reflexivity. }
      rewrite Z0. cbn [map app].
      destruct (Z.of_nat (S (List.length r)) >=? 1)%Z eqn:E2; [reflexivity | lia].
    + cbn [app]. rewrite IH by lia.
      f_equal.
      destruct (Z.of_nat (List.length r) >=? s - 1)%Z eqn:A; destruct (Z.of_nat (S (List.length r)) >=? s)%Z eqn:B;
        try reflexivity; lia.
Qed.

(* one subscription of a fresh skip(count) / take(count) alone IS that run *)
Lemma skip_iso_run : forall count ins a s,
  iso_run _ _ _ _ _ _ (prog_skip count) a s ins = skip_run s ins.
Proof. intros count ins. induction ins as [|i r IH]; intros a s; cbn [iso_run skip_run]; [reflexivity|].
  rewrite IH. reflexivity. Qed.

Lemma take_iso_run : forall count ins a s,
  iso_run _ _ _ _ _ _ (prog_take count) a s ins = take_run s ins.
Proof. intros count ins. induction ins as [|i r IH]; intros a s; cbn [iso_run take_run]; [reflexivity|].
  rewrite IH. reflexivity. Qed.

(* closed forms of what one subscription alone emits (notifications in order) *)
Theorem skip_iso_closed : forall count ins,
  List.concat (iso _ _ _ _ _ _ (prog_skip count) tt ins) = map Some (RxVerif.Base.Prelude.zskip count ins).
Proof. intros count ins. unfold iso. rewrite skip_iso_run. apply skip_run_closed. Qed.

Theorem take_iso_closed : forall count ins, (0 < count)%Z ->
  List.concat (iso _ _ _ _ _ _ (prog_take count) tt ins) =
  map Some (RxVerif.Base.Prelude.ztake count ins)
  ++ (if (Z.of_nat (List.length ins) >=? count)%Z then [None] else []).
Proof. intros count ins H. unfold iso. rewrite take_iso_run. apply take_run_closed. exact H. Qed.

(* ---- executable view for the correspondence check ---------------------------------------- *)
(* which: 0 = take, otherwise skip.  An observation (j, i, out) is flattened to
   j, i, #out, then one number per notification (0 = on_completed, v + 1 = on_next v, v >= 0). *)
Definition enc_out (o : option Z) : Z := match o with None => 0%Z | Some v => (v + 1)%Z end.
Definition enc_obs (o : nat * Z * list (option Z)) : list Z :=
  Z.of_nat (fst (fst o)) :: snd (fst o) :: Z.of_nat (List.length (snd o)) :: map enc_out (snd o).

Definition dec_event (e : Z * Z) : event unit Z :=
  if (fst e <? -99)%Z then EApply tt                                  (* apply the operator value to a new source *)
  else if (fst e <? 0)%Z then ESub (Z.to_nat (-1 - fst e))            (* -1 - k: subscribe to application k *)
  else ERun (Z.to_nat (fst e)) (snd e).                               (* j: subscription j receives snd e *)

Definition run_prog (c : Z * Z * list (Z * Z)) : list Z :=
  let '(which, count, h) := c in
  let evs := map dec_event h in
  let t := if (which =? 0)%Z then trace_shared _ _ _ _ _ _ (prog_take count) evs
           else trace_shared _ _ _ _ _ _ (prog_skip count) evs in
  List.concat (map enc_obs t).
