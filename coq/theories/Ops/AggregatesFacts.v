(* C06: aggregating operators compute the reference fold / search, with the
   documented terminations.  Derived operators are handled through the
   composition theorem (Ops/ComposeFacts.v). *)
From RxVerif Require Import Base.Prelude Base.PreludeFacts Ops.Machine Ops.MachineFacts
  Ops.ComposeFacts Ops.Elementwise Ops.ElementwiseFacts Ops.Aggregates.

Local Arguments Z.of_nat : simpl never.
Local Arguments Z.add : simpl never.

Definition term_evs {A} (t : term) : list (ev A) :=
  match t with TDone => [Done] | TErr e => [Err e] | TNever => [] end.

Lemma events_eq {A} (xs : list A) t : events xs t = map Next xs ++ term_evs t.
Proof. reflexivity. Qed.

Lemma untag_nexts {B} (l : list (nat * B)) : untag (nexts l) = map Next (map snd l).
Proof. unfold untag, nexts. rewrite !map_map. reflexivity. Qed.

Lemma untag_tterm {B} k t : untag (@tterm B k t) = term_evs t.
Proof. destruct t; reflexivity. Qed.

Lemma untag_std {B} (l : list B) k n t :
  untag (nexts (indexed k l) ++ tterm n t) = events l t.
Proof. rewrite untag_app, untag_nexts, untag_tterm, map_snd_indexed. reflexivity. Qed.

Lemma untag_cons {B} (k : nat) (e : ev B) l : untag ((k, e) :: l) = e :: untag l.
Proof. reflexivity. Qed.
Lemma untag_nil {B} : untag (@nil (nat * ev B)) = [].
Proof. reflexivity. Qed.

Section Prims.
Context {A : Type}.

(* ---- scan ---------------------------------------------------------------- *)
Fixpoint scanl {S} (f : S -> A -> S) (acc : S) (xs : list A) : list S :=
  match xs with [] => [] | x :: t => f acc x :: scanl f (f acc x) t end.

Lemma scan_seed_from {S} (f : S -> A -> S) seed (xs : list A) t acc k :
  untag (exec_from (op_scan_seed (pure2 f) seed) acc k (events xs t))
  = events (scanl f (match acc with Some a => a | None => seed end) xs) t.
Proof.
  revert acc k; induction xs as [|x r IH]; intros acc k.
  - destruct t; reflexivity.
  - rewrite events_cons, exec_from_cons. cbn -[exec_from untag].
    rewrite untag_cons, IH. reflexivity.
Qed.

Theorem scan_seed_spec {S} (f : S -> A -> S) seed (xs : list A) t :
  untag (exec (op_scan_seed (pure2 f) seed) (events xs t)) = events (scanl f seed xs) t.
Proof. unfold exec. cbn -[exec_from untag]. apply (scan_seed_from f seed xs t None). Qed.

Lemma scan_from (f : A -> A -> A) (xs : list A) t a k :
  untag (exec_from (op_scan (pure2 f)) (Some a) k (events xs t)) = events (scanl f a xs) t.
Proof.
  revert a k; induction xs as [|x r IH]; intros a k.
  - destruct t; reflexivity.
  - rewrite events_cons, exec_from_cons. cbn -[exec_from untag].
    rewrite untag_cons, IH. reflexivity.
Qed.

Theorem scan_spec (f : A -> A -> A) (xs : list A) t :
  untag (exec (op_scan (pure2 f)) (events xs t))
  = match xs with [] => events [] t | x :: r => events (x :: scanl f x r) t end.
Proof.
  unfold exec. cbn -[exec_from untag]. destruct xs as [|x r].
  - destruct t; reflexivity.
  - rewrite events_cons, exec_from_cons. cbn -[exec_from untag].
    rewrite untag_cons, (scan_from f r t x 2). reflexivity.
Qed.

(* ---- last / first / single / some / to_list --------------------------------- *)
Definition last_opt (xs : list A) (init : option A) : option A :=
  fold_left (fun _ x => Some x) xs init.

Lemma last_from default (xs : list A) t v k :
  untag (exec_from (op_last default) v k (events xs t))
  = match t with
    | TDone => match last_opt xs v, default with
               | Some x, _ => [Next x; Done]
               | None, Some d => [Next d; Done]
               | None, None => [Err EXN_NO_ELEMENTS]
               end
    | TErr e => [Err e]
    | TNever => []
    end.
Proof.
  revert v k; induction xs as [|x r IH]; intros v k.
  - destruct t; cbn; try reflexivity. destruct v, default; reflexivity.
  - rewrite events_cons, exec_from_cons. cbn -[exec_from untag]. rewrite IH. reflexivity.
Qed.

Theorem last_spec default (xs : list A) t :
  untag (exec (op_last default) (events xs t))
  = match t with
    | TDone => match last_opt xs None, default with
               | Some x, _ => [Next x; Done]
               | None, Some d => [Next d; Done]
               | None, None => [Err EXN_NO_ELEMENTS]
               end
    | TErr e => [Err e]
    | TNever => []
    end.
Proof. unfold exec. cbn -[exec_from untag]. apply last_from. Qed.

(* first: decided by the first element, whatever follows *)
Theorem first_spec default (xs : list A) t :
  exec (op_first default) (events xs t)
  = match xs with
    | x :: _ => [(1%nat, Next x); (1%nat, Done)]
    | [] => match t with
            | TDone => match default with
                       | Some d => [(1%nat, Next d); (1%nat, Done)]
                       | None => [(1%nat, Err EXN_NO_ELEMENTS)]
                       end
            | TErr e => [(1%nat, Err e)]
            | TNever => []
            end
    end.
Proof.
  unfold exec. cbn -[exec_from untag]. destruct xs as [|x r].
  - destruct t; cbn; try reflexivity. destruct default; reflexivity.
  - reflexivity.
Qed.

Theorem single_spec default (xs : list A) t :
  untag (exec (op_single default) (events xs t))
  = match xs with
    | [] => match t with
            | TDone => match default with Some d => [Next d; Done] | None => [Err EXN_NO_ELEMENTS] end
            | TErr e => [Err e]
            | TNever => []
            end
    | [x] => match t with TDone => [Next x; Done] | TErr e => [Err e] | TNever => [] end
    | _ :: _ :: _ => [Err EXN_MORE_THAN_ONE]       (* fails on the second element *)
    end.
Proof.
  unfold exec. cbn -[exec_from untag]. destruct xs as [|x [|y r]].
  - destruct t; cbn; try reflexivity. destruct default; reflexivity.
  - destruct t; reflexivity.
  - reflexivity.
Qed.

(* some: short-circuits at the first element (tag 1) *)
Theorem some_spec (xs : list A) t :
  exec op_some (events xs t)
  = match xs with
    | _ :: _ => [(1%nat, Next true); (1%nat, Done)]
    | [] => match t with
            | TDone => [(1%nat, Next false); (1%nat, Done)]
            | TErr e => [(1%nat, Err e)]
            | TNever => []
            end
    end.
Proof. unfold exec. cbn -[exec_from untag]. destruct xs; [destruct t|]; reflexivity. Qed.

Lemma to_list_from (xs : list A) t q k :
  untag (exec_from op_to_list q k (events xs t))
  = match t with TDone => [Next (q ++ xs); Done] | TErr e => [Err e] | TNever => [] end.
Proof.
  revert q k; induction xs as [|x r IH]; intros q k.
  - destruct t; cbn; rewrite ?app_nil_r; reflexivity.
  - rewrite events_cons, exec_from_cons. cbn -[exec_from untag]. rewrite IH.
    now rewrite <- app_assoc.
Qed.

Theorem to_list_spec (xs : list A) t :
  untag (exec op_to_list (events xs t))
  = match t with TDone => [Next xs; Done] | TErr e => [Err e] | TNever => [] end.
Proof. unfold exec. cbn -[exec_from untag]. apply to_list_from. Qed.
End Prims.

(* ---- derived operators ------------------------------------------------------ *)
Section Derived.
Context {A : Type}.

Lemma last_opt_scanl {S} (f : S -> A -> S) (xs : list A) acc :
  last_opt (scanl f acc xs) None = match xs with [] => None | _ => Some (fold_left f xs acc) end.
Proof.
  assert (G : forall xs acc v, xs <> [] ->
    last_opt (scanl f acc xs) v = Some (fold_left f xs acc)).
  { clear xs acc. induction xs as [|x r IH]; intros acc v Hne; [congruence|].
    cbn [scanl fold_left]. unfold last_opt in *. cbn [fold_left].
    destruct r as [|y r']; [reflexivity|]. apply IH. discriminate. }
  destruct xs as [|x r]; [reflexivity|]. apply G. discriminate.
Qed.

(* reduce with a seed = fold_left, emitted at completion *)
Theorem reduce_seed_spec {S} (f : S -> A -> S) seed (xs : list A) t :
  untag (exec (op_reduce_seed (pure2 f) seed) (events xs t))
  = match t with
    | TDone => [Next (fold_left f xs seed); Done]
    | TErr e => [Err e]
    | TNever => []
    end.
Proof.
  unfold op_reduce_seed. rewrite compose_exec, scan_seed_spec, last_spec.
  destruct t; try reflexivity.
  rewrite last_opt_scanl. destruct xs; reflexivity.
Qed.

Theorem reduce_spec (f : A -> A -> A) (xs : list A) t :
  untag (exec (op_reduce (pure2 f)) (events xs t))
  = match t with
    | TDone => match xs with
               | [] => [Err EXN_NO_ELEMENTS]
               | x :: r => [Next (fold_left f r x); Done]
               end
    | TErr e => [Err e]
    | TNever => []
    end.
Proof.
  unfold op_reduce. rewrite compose_exec, scan_spec.
  destruct xs as [|x r].
  - rewrite last_spec. destruct t; reflexivity.
  - rewrite last_spec. destruct t; try reflexivity.
    unfold last_opt. cbn [fold_left]. fold (last_opt (scanl f x r) (Some x)).
    assert (G : forall (r : list A) a v, last_opt (scanl f a r) (Some v)
                 = Some (match r with [] => v | _ => fold_left f r a end)).
    { clear. induction r as [|y r IH]; intros a v; [reflexivity|].
      cbn [scanl fold_left]. unfold last_opt in *. cbn [fold_left].
      rewrite IH. destruct r; reflexivity. }
    rewrite G. destruct r; reflexivity.
Qed.

Lemma fold_count (xs : list A) n : fold_left (fun (n : Z) (_ : A) => n + 1) xs n = n + zlen xs.
Proof.
  revert n; induction xs as [|x r IH]; intros n; unfold zlen in *; cbn [fold_left length].
  - lia.
  - rewrite IH. lia.
Qed.

Theorem count_spec (xs : list A) t :
  untag (exec op_count (events xs t))
  = match t with TDone => [Next (zlen xs); Done] | TErr e => [Err e] | TNever => [] end.
Proof.
  unfold op_count. change (fun (n : Z) (_ : A) => Ok (n + 1)) with (pure2 (fun (n : Z) (_ : A) => n + 1)).
  rewrite reduce_seed_spec. destruct t; try reflexivity. rewrite fold_count. reflexivity.
Qed.

Lemma filter_untag (p : A -> bool) (xs : list A) t :
  untag (exec (op_filter (pure p)) (events xs t)) = events (filter p xs) t.
Proof.
  rewrite filter_spec, untag_app, untag_nexts, untag_tterm. unfold events. f_equal. f_equal.
  generalize 1%nat. induction xs as [|x r IH]; intros k; cbn; [reflexivity|].
  destruct (p x); cbn; now rewrite IH.
Qed.

Theorem count_pred_spec (p : A -> bool) (xs : list A) t :
  untag (exec (op_count_pred (pure p)) (events xs t))
  = match t with TDone => [Next (zlen (filter p xs)); Done] | TErr e => [Err e] | TNever => [] end.
Proof. unfold op_count_pred. rewrite compose_exec, filter_untag. apply count_spec. Qed.

Lemma some_untag (xs : list A) t :
  untag (exec op_some (events xs t))
  = match xs with
    | _ :: _ => [Next true; Done]
    | [] => match t with TDone => [Next false; Done] | TErr e => [Err e] | TNever => [] end
    end.
Proof. rewrite some_spec. destruct xs; [destruct t|]; reflexivity. Qed.

(* contains / some(pred): decided by the first matching element *)
Theorem some_pred_spec (p : A -> bool) (xs : list A) t :
  untag (exec (op_some_pred (pure p)) (events xs t))
  = if existsb p xs then [Next true; Done]
    else match t with TDone => [Next false; Done] | TErr e => [Err e] | TNever => [] end.
Proof.
  unfold op_some_pred. rewrite compose_exec, filter_untag, some_untag.
  assert (H : existsb p xs = match filter p xs with [] => false | _ => true end).
  { induction xs as [|x r IH]; [reflexivity|]. cbn. destruct (p x); [reflexivity|exact IH]. }
  rewrite H. destruct (filter p xs); reflexivity.
Qed.

Theorem is_empty_spec (xs : list A) t :
  untag (exec op_is_empty (events xs t))
  = match xs with
    | _ :: _ => [Next false; Done]
    | [] => match t with TDone => [Next true; Done] | TErr e => [Err e] | TNever => [] end
    end.
Proof.
  unfold op_is_empty. rewrite compose_exec, some_untag.
  destruct xs as [|x r]; [destruct t|]; reflexivity.
Qed.

Theorem all_spec (p : A -> bool) (xs : list A) t :
  untag (exec (op_all (pure p)) (events xs t))
  = if forallb p xs then match t with TDone => [Next true; Done] | TErr e => [Err e] | TNever => [] end
    else [Next false; Done].
Proof.
  unfold op_all. rewrite compose_exec.
  change (fun x : A => res_negb (pure p x)) with (pure (fun x : A => negb (p x))).
  fold (op_some_pred (pure (fun x : A => negb (p x)))). rewrite some_pred_spec.
  assert (H : existsb (fun x => negb (p x)) xs = negb (forallb p xs)).
  { induction xs as [|x r IH]; [reflexivity|]. cbn. rewrite IH. destruct (p x); reflexivity. }
  rewrite H. destruct (forallb p xs); cbn [negb]; [destruct t|]; reflexivity.
Qed.
End Derived.

Theorem sum_spec (xs : list Z) t :
  untag (exec op_sum (events xs t))
  = match t with TDone => [Next (fold_left Z.add xs 0); Done] | TErr e => [Err e] | TNever => [] end.
Proof.
  unfold op_sum. change (fun a x : Z => Ok (a + x)) with (pure2 Z.add).
  apply reduce_seed_spec.
Qed.
