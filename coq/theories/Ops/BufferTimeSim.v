(* C18: buffer_with_time in the closed world of Ops/WinSim.v (exact timers; at equal instants the
   source goes first).  (a) the simulation equals a walk over the timeline that carries the edge
   counters and the open buffers, for EVERY event sequence on the source port and every horizon;
   (b) on sorted conforming timelines that terminate: buffer k is the list of the elements whose
   instant t satisfies  k*shift < t - t0 <= k*shift + span  (buffer 0: 0 <= t - t0 <= span);
   buffers are emitted in the order of k, buffer k at its closing edge t0 + k*shift + span if that
   is strictly before the source's completion, the still open ones at the completion (empty ones
   included), then Done; a failing source emits only the buffers closed before, then the error. *)
From RxVerif Require Import Base.Prelude Ops.Machine Ops.MachineFacts Ops.MultiWin Ops.MultiWinFacts
  Ops.Windows Ops.WindowCountFacts Ops.WindowFacts Ops.BufferFacts Ops.BufferCountFacts Ops.WinSim Ops.WindowTimeSim.
From RxVerif Require Ops.TimedSim.

Local Arguments Z.of_nat : simpl never.
Local Arguments Z.mul : simpl never.
Local Arguments Z.add : simpl never.
Local Arguments Z.sub : simpl never.
Local Arguments Z.min : simpl never.
Local Arguments Z.div : simpl never.
Local Arguments Multi.mem : simpl never.
Local Arguments Multi.remove : simpl never.

Section BufferTime.
Context {A : Type}.
Variables span shift t0 : Z.
Hypothesis Hspan : 0 < span.
Hypothesis Hshift : 0 < shift.
Notation MW := (x_window_time (A:=A) (B:=unit) span shift).
Notation MB := (x_buffer_time (A:=A) span shift).
Notation due := (e_due span shift).
Notation a' := (e_a' span shift).
Notation b' := (e_b' span shift).
Notation bc := (buf_cmds (A:=A) (B0:=unit)).

Definition bt_rstate (tg : nat) : rstate A := RState [0%nat] [tg] true [] [] [] false.
Definition bt_dead_rstate : rstate A := RState [] [] false [] [] [] true.

(* the open buffers after the timer fired: a shift edge opens buffer a+1, a span edge closes (and
   emits) the oldest *)
Definition bt_open1 (a b : nat) (open : list (nat * list A)) : list (nat * list A) :=
  if e_shift span shift a b then open ++ [(S a, [])] else open.
Definition bt_open' (a b : nat) (open : list (nat * list A)) : list (nat * list A) :=
  if e_span span shift a b then tl (bt_open1 a b open) else bt_open1 a b open.
Definition bt_tick_obs (a b tg : nat) (open : list (nat * list A)) : list (obs A (list A)) :=
  (if e_span span shift a b
   then match bt_open1 a b open with (_, c) :: _ => [OEmit (Next c)] | [] => [] end else [])
  ++ [OTimer (S tg) (due (a' a b) (b' a b) - due a b)].

Definition bt_dead (es : list (Z * ev A)) : list (Z * inp A * list (obs A (list A))) :=
  map (fun te => (fst te, ISrc 0%nat (snd te), [])) es.

Fixpoint bt_walk (fuel : nat) (a b tg : nat) (open : list (nat * list A)) (es : list (Z * ev A))
  : list (Z * inp A * list (obs A (list A))) :=
  match fuel with
  | O => []
  | S f =>
      let tick := (t0 + due a b, ITick tg, bt_tick_obs a b tg open)
                  :: bt_walk f (a' a b) (b' a b) (S tg) (bt_open' a b open) es in
      match es with
      | [] => tick
      | (t, e) :: rest =>
          if t <=? t0 + due a b then
            match e with
            | Next x => (t, ISrc 0%nat (Next x), [])
                        :: bt_walk f a b tg (map (fun kb => (fst kb, snd kb ++ [x])) open) rest
            | Done => (t, ISrc 0%nat Done,
                       map (fun kb => OEmit (Next (snd kb))) open ++ [OEmit Done; OUnsub 0%nat; OCancel tg])
                      :: bt_dead (firstn f rest)
            | Err z => (t, ISrc 0%nat (Err z), [OEmit (Err z); OUnsub 0%nat; OCancel tg]) :: bt_dead (firstn f rest)
            end
          else tick
      end
  end.

Ltac rs := cbn [r_live r_timers r_outer r_wsubs r_wterm r_handed r_released fst snd app apply_cmds apply_cmd
                finish is_terminal all_imm negb andb repeat].

Lemma okeys_cons_inv (open : list (nat * list A)) b len : okeys open = seq b (S len) ->
  exists c rest, open = (b, c) :: rest /\ okeys rest = seq (S b) len.
Proof.
  destruct open as [|[g c] rest]; [discriminate|]. cbn [okeys map fst seq]. intros H. injection H as -> H.
  exists c, rest. auto.
Qed.

Lemma okeys_app (p q : list (nat * list A)) : okeys (p ++ q) = okeys p ++ okeys q.
Proof. unfold okeys. apply map_app. Qed.

(* the timer fires *)
Lemma bt_tick_step s a b tg now open : wt_inv span shift s a b -> wt_ntag s = S tg ->
  okeys open = seq b (S a - b) ->
  rstep all_imm MB (BufSt s open false) (bt_rstate tg) now (ITick tg)
  = (BufSt (fst (wt_action (A:=A) (B:=unit) shift s)) (bt_open' a b open) false, bt_rstate (S tg),
     bt_tick_obs a b tg open)
  /\ okeys (bt_open' a b open) = seq (b' a b) (S (a' a b) - b' a b).
Proof.
  intros I Ht Hk. destruct (inv_flags span shift s a b I) as (Esh & Esp & Etot).
  destruct (wt_tick span shift Hspan Hshift (A:=A) (B:=unit) s a b I) as [I' Hcs]. cbn zeta in *.
  pose proof (ti_ba _ _ _ _ _ I) as Hba.
  assert (Hsp_b : e_span span shift a b = true -> (b <= a)%nat).
  { unfold e_span. intros H. apply Z.leb_le in H. nia. }
  unfold rstep, bt_rstate. cbn [r_timers]. rewrite mem_self, remove_self. cbn iota.
  unfold deliver, x_buffer_time, buffered. cbn [x_step b_inner b_open b_outer_done x_window_time].
  destruct (wt_action (A:=A) (B:=unit) shift s) as [s' cs] eqn:Ea. cbn [fst snd] in *. subst cs.
  rewrite Esh, Esp, Ht, Etot.
  fold (e_due span shift (if e_shift span shift a b then S a else a) (if e_span span shift a b then S b else b)).
  fold (e_a' span shift a b). fold (e_b' span shift a b).
  unfold bt_tick_obs, bt_open', bt_open1, e_a', e_b'.
  destruct (e_shift span shift a b) eqn:Es; destruct (e_span span shift a b) eqn:Ep.
  - specialize (Hsp_b eq_refl). destruct (S a - b)%nat as [|len] eqn:El; [lia|].
    destruct (okeys_cons_inv open b len Hk) as (c & rest & -> & Hr).
    cbn [app buf_cmds buf_get buf_del]. rewrite Nat.eqb_refl. cbn [orb andb buf_finish tl]. rs. split; [reflexivity|].
    rewrite okeys_app, Hr. cbn [okeys map fst]. change [S a] with (seq (S a) 1).
    replace (S a) with (S b + len)%nat at 1 by lia. rewrite <- seq_app. f_equal. lia.
  - cbn [app buf_cmds buf_finish]. rs. split; [reflexivity|].
    rewrite okeys_app, Hk. cbn [okeys map fst]. change [S a] with (seq (S a) 1).
    replace (S a) with (b + (S a - b))%nat at 2 by lia. rewrite <- seq_app. f_equal. lia.
  - specialize (Hsp_b eq_refl). destruct (S a - b)%nat as [|len] eqn:El; [lia|].
    destruct (okeys_cons_inv open b len Hk) as (c & rest & -> & Hr).
    cbn [app buf_cmds buf_get buf_del]. rewrite Nat.eqb_refl. cbn [orb andb buf_finish tl]. rs. split; [reflexivity|].
    rewrite Hr. f_equal. lia.
  - exfalso. unfold e_shift, e_span in *. apply Z.leb_gt in Es. apply Z.leb_gt in Ep. lia.
Qed.

(* a source element: appended to every open buffer *)
Lemma bt_next_step s a b tg now open (x : A) : wt_inv span shift s a b -> okeys open = seq b (S a - b) ->
  rstep all_imm MB (BufSt s open false) (bt_rstate tg) now (ISrc 0%nat (Next x))
  = (BufSt s (map (fun kb => (fst kb, snd kb ++ [x])) open) false, bt_rstate tg, []).
Proof.
  intros I Hk. unfold rstep, bt_rstate. cbn [r_live]. rewrite mem_self. cbn iota.
  unfold deliver, x_buffer_time, buffered. cbn [x_step b_inner b_open b_outer_done x_window_time].
  rewrite (ti_q _ _ _ _ _ I), <- Hk.
  pose proof (bc_wins_next true x open []) as H. cbn [app okeys map] in H. rewrite H by (fold (okeys open); rewrite Hk; apply seq_NoDup).
  cbn [buf_finish]. rs. reflexivity.
Qed.

(* the source completes: every open buffer is emitted (the empty ones too), in order *)
Lemma bc_wins_done_keep (open : list (nat * list A)) : NoDup (okeys open) ->
  bc true open false (wins_all (okeys open) Done) = ([], map CEmit (map snd open), Cont).
Proof.
  induction open as [|[g b] t IH]; intros Hnd; [reflexivity|].
  cbn [okeys map fst snd wins_all buf_cmds buf_get buf_del]. rewrite Nat.eqb_refl.
  cbn [andb orb]. fold (okeys t). fold (wins_all (A:=A) (B:=unit) (okeys t) Done).
  rewrite IH by (inversion Hnd; assumption). reflexivity.
Qed.

Lemma bt_done_step s a b tg now open : wt_inv span shift s a b -> okeys open = seq b (S a - b) ->
  rstep all_imm MB (BufSt s open false) (bt_rstate tg) now (ISrc 0%nat Done)
  = (BufSt s [] true, bt_dead_rstate,
     map (fun kb => OEmit (Next (snd kb))) open ++ [OEmit Done; OUnsub 0%nat; OCancel tg]).
Proof.
  intros I Hk. unfold rstep, bt_rstate. cbn [r_live]. rewrite mem_self. cbn iota.
  unfold deliver, x_buffer_time, buffered. cbn [x_step b_inner b_open b_outer_done x_window_time].
  rewrite (ti_q _ _ _ _ _ I), <- Hk, bc_wins_done_keep by (rewrite Hk; apply seq_NoDup).
  cbn [buf_finish]. rewrite apply_emits by reflexivity. rs.
  unfold end_outer, maybe_release. rs. rewrite mem_nil. cbn [andb]. rewrite app_nil_r, map_map. reflexivity.
Qed.

(* the source fails: the open buffers are lost *)
Lemma bt_err_step s a b tg now open z : wt_inv span shift s a b -> okeys open = seq b (S a - b) ->
  exists st', rstep all_imm MB (BufSt s open false) (bt_rstate tg) now (ISrc 0%nat (Err z))
  = (st', bt_dead_rstate, [OEmit (Err z); OUnsub 0%nat; OCancel tg]).
Proof.
  intros I Hk. unfold rstep, bt_rstate. cbn [r_live]. rewrite mem_self. cbn iota.
  unfold deliver, x_buffer_time, buffered. cbn [x_step b_inner b_open b_outer_done x_window_time].
  rewrite (ti_q _ _ _ _ _ I), <- Hk.
  destruct open as [|[g c] t]; cbn [okeys map fst wins_all buf_cmds buf_get]; rewrite ?Nat.eqb_refl; cbn [buf_finish]; rs;
    unfold end_outer, maybe_release; rs; rewrite mem_nil; cbn [andb app]; eexists; reflexivity.
Qed.

Lemma bt_dead_sim st : forall fuel (es : list (Z * ev A)),
  wsim all_imm MB fuel st bt_dead_rstate [] (wext_of es) = bt_dead (firstn fuel es).
Proof.
  induction fuel as [|f IH]; intros es; [reflexivity|]. rewrite wsim_S.
  destruct es as [|[t e] rest]; [reflexivity|]. cbn [wext_of map fst snd wnext_event wearliest firstn bt_dead].
  unfold rstep, bt_dead_rstate. cbn [r_live]. rewrite mem_nil. cbn iota.
  f_equal. unfold wupd. cbn [app wnew_timers flat_map filter]. apply IH.
Qed.

Lemma bt_sim : forall fuel s a b tg open (es : list (Z * ev A)), wt_inv span shift s a b -> wt_ntag s = S tg ->
  okeys open = seq b (S a - b) ->
  wsim all_imm MB fuel (BufSt s open false) (bt_rstate tg) [(tg, t0 + due a b)] (wext_of es)
  = bt_walk fuel a b tg open es.
Proof.
  induction fuel as [|f IH]; intros s a b tg open es I Ht Hk; [reflexivity|].
  assert (Tick : forall ext (es' : list (Z * ev A)), ext = wext_of es' ->
            wnext_event [(tg, t0 + due a b)] ext = Some (t0 + due a b, ITick tg, ext) ->
            wsim all_imm MB (S f) (BufSt s open false) (bt_rstate tg) [(tg, t0 + due a b)] ext
            = (t0 + due a b, ITick tg, bt_tick_obs a b tg open)
              :: bt_walk f (a' a b) (b' a b) (S tg) (bt_open' a b open) es').
  { intros ext es' -> Hn. rewrite wsim_S, Hn.
    destruct (bt_tick_step s a b tg (t0 + due a b) open I Ht Hk) as (Es & Hk').
    destruct (wt_tick_step (A:=A) (B:=unit) span shift Hspan Hshift s a b tg (t0 + due a b) I Ht) as (_ & I' & Ht').
    rewrite Es. f_equal.
    assert (Eu : wupd [(tg, t0 + due a b)] (t0 + due a b) (bt_tick_obs a b tg open) (bt_rstate (S tg))
                 = [(S tg, t0 + due (a' a b) (b' a b))]).
    { unfold wupd, bt_tick_obs, bt_rstate. cbn [r_timers].
      destruct (e_span span shift a b); [destruct (bt_open1 a b open) as [|[g c] r]|];
        cbn [app wnew_timers flat_map filter fst];
        rewrite mem_self; unfold Multi.mem; cbn [existsb]; rewrite (proj2 (Nat.eqb_neq tg (S tg))) by lia;
        cbn [orb]; f_equal; f_equal; lia. }
    rewrite Eu. apply IH; assumption. }
  destruct es as [|[t e] rest].
  - cbn [bt_walk]. apply (Tick [] []); reflexivity.
  - cbn [bt_walk]. destruct (t <=? t0 + due a b) eqn:El.
    + rewrite wsim_S. cbn [wext_of map fst snd wnext_event wearliest]. rewrite El.
      destruct e as [x|z|].
      * rewrite (bt_next_step s a b tg t open x I Hk). f_equal.
        unfold wupd, bt_rstate. cbn [r_timers app wnew_timers flat_map filter fst]. rewrite mem_self.
        apply IH; [assumption|assumption|].
        unfold okeys in *. rewrite map_map. cbn [fst]. exact Hk.
      * destruct (bt_err_step s a b tg t open z I Hk) as [st' ->]. f_equal.
        rewrite wupd_no_timers by reflexivity. apply bt_dead_sim.
      * rewrite (bt_done_step s a b tg t open I Hk). f_equal.
        rewrite wupd_no_timers by reflexivity. apply bt_dead_sim.
    + apply (Tick _ ((t, e) :: rest)); [reflexivity|]. cbn [wext_of map fst snd wnext_event wearliest]. now rewrite El.
Qed.

(* THEOREM (a): the simulation is the walk, for every event sequence and every horizon *)
Theorem buffer_time_walk fuel (es : list (Z * ev A)) :
  wsimulate all_imm MB fuel t0 (wext_of es)
  = ([OTimer 0%nat (Z.min shift span); OSub 0%nat], bt_walk fuel 0 0 0 [(0%nat, [])] es).
Proof.
  unfold wsimulate, start_obs, start_state.
  destruct (wt_start_inv span shift Hspan Hshift (A:=A) (B:=unit)) as [I0 Hc].
  assert (Hf : snd (x_start MW) = Cont) by reflexivity.
  assert (Hn : wt_ntag (fst (fst (x_start MW))) = 1%nat) by reflexivity.
  unfold x_buffer_time, buffered. cbn [x_start].
  destruct (x_start MW) as [[s0 cs] f]. cbn [fst snd] in *. subst cs f.
  cbn [buf_cmds app buf_finish fst snd].
  cbn [apply_cmds apply_cmd rstate0 r_outer r_live r_timers r_wsubs r_wterm r_handed r_released all_imm
       finish fst snd app].
  f_equal.
  assert (Eu : wupd (W:=A) (B:=list A) [] t0 [OTimer 0%nat (Z.min shift span); OSub 0%nat]
                 (RState [0%nat] [0%nat] true [] [] [] false) = [(0%nat, t0 + due 0 0)]).
  { unfold wupd. cbn [r_timers app wnew_timers flat_map filter fst]. rewrite mem_self. unfold e_due.
    repeat f_equal; lia. }
  rewrite Eu. apply (bt_sim fuel s0 0 0 0 [(0%nat, [])] es I0 Hn). reflexivity.
Qed.

(* ------------------------------------------------ (b) closed form -- *)
Notation n_open := (WindowTimeSim.n_open shift).
Notation n_closed := (WindowTimeSim.n_closed span shift).
Lemma n_open_spec tau k : (k < n_open tau)%nat <-> k = 0%nat \/ Z.of_nat k * shift < tau.
Proof. exact (WindowTimeSim.n_open_spec shift Hshift tau k). Qed.
Lemma n_closed_spec tau k : (k < n_closed tau)%nat <-> span + Z.of_nat k * shift < tau.
Proof. exact (WindowTimeSim.n_closed_spec span shift Hshift tau k). Qed.

(* buffer k: the elements whose instant lies in k's interval, in order *)
Definition bt_buffer (k : nat) (tl : list (Z * A)) : list A := map snd (wt_contents span shift t0 k tl).

(* what is emitted from the state (a, b), [pre k] being what buffer k holds already *)
Definition bt_exp (e : ev A) (T : Z) (b : nat) (pre : nat -> list A) (tl : list (Z * A)) : list (Z * ev (list A)) :=
  match e with
  | Err z => map (fun k => (t0 + (span + Z.of_nat k * shift), Next (pre k ++ bt_buffer k tl)))
                 (seq b (n_closed (T - t0) - b)) ++ [(T, Err z)]
  | _ => map (fun k => (Z.min (t0 + (span + Z.of_nat k * shift)) T, Next (pre k ++ bt_buffer k tl)))
             (seq b (n_open (T - t0) - b)) ++ [(T, Done)]
  end.

Lemma wsim_emitted_cons t (i : inp A) (o : list (obs A (list A))) l :
  wsim_emitted ((t, i, o) :: l)
  = flat_map (fun x => match x with OEmit e => [(t, e)] | _ => [] end) o ++ wsim_emitted l.
Proof. reflexivity. Qed.

Lemma wsim_emitted_dead (es : list (Z * ev A)) : wsim_emitted (bt_dead es) = [].
Proof. induction es as [|[t e] r IH]; [reflexivity|]. cbn [bt_dead map]. rewrite wsim_emitted_cons. exact IH. Qed.

Definition popen (pre : nat -> list A) (a b : nat) : list (nat * list A) := map (fun k => (k, pre k)) (seq b (S a - b)).

Lemma bt_open'_pre pre a b : (b <= S a)%nat -> (forall k, (a < k)%nat -> pre k = []) ->
  bt_open' a b (popen pre a b) = popen pre (a' a b) (b' a b)
  /\ (e_span span shift a b = true ->
      match bt_open1 a b (popen pre a b) with (_, c) :: _ => c = pre b | [] => False end).
Proof.
  intros Hba Hpre.
  assert (Hsp_b : e_span span shift a b = true -> (b <= a)%nat).
  { unfold e_span. intros H. apply Z.leb_le in H. nia. }
  assert (E1 : bt_open1 a b (popen pre a b) = popen pre (a' a b) b).
  { unfold bt_open1, popen, e_a'. destruct (e_shift span shift a b); [|reflexivity].
    replace (S (S a) - b)%nat with ((S a - b) + 1)%nat by lia. rewrite seq_app, map_app. cbn [seq map].
    replace (b + (S a - b))%nat with (S a) by lia. rewrite (Hpre (S a)) by lia. reflexivity. }
  unfold bt_open'. rewrite E1. unfold e_b'. split.
  - destruct (e_span span shift a b) eqn:Ep; [|reflexivity]. specialize (Hsp_b eq_refl).
    unfold popen. assert (Ha' : (a <= a' a b)%nat) by (unfold e_a'; destruct (e_shift span shift a b); lia).
    destruct (S (a' a b) - b)%nat as [|len] eqn:El; [lia|]. cbn [seq map tl].
    replace (S (a' a b) - S b)%nat with len by lia. reflexivity.
  - intros Ep. specialize (Hsp_b Ep). unfold popen.
    assert (Ha' : (a <= a' a b)%nat) by (unfold e_a'; destruct (e_shift span shift a b); lia).
    destruct (S (a' a b) - b)%nat as [|len] eqn:El; [lia|]. cbn [seq map]. reflexivity.
Qed.

Lemma bt_buffer_cons k t x (tl : list (Z * A)) :
  bt_buffer k ((t, x) :: tl) = (if in_win span shift k (t - t0) then [x] else []) ++ bt_buffer k tl.
Proof.
  unfold bt_buffer, wt_contents. cbn [filter fst]. destruct (in_win span shift k (t - t0)); reflexivity.
Qed.

Notation sorted_from := TimedSim.sorted_from.

Lemma bt_emitted_from tm T e : tm_ev tm = [(T, e)] -> forall fuel a b tg (tl : list (Z * A)) lb (pre : nat -> list A),
  (b <= S a)%nat -> fired span shift a b (lb - t0) -> sorted_from lb (wsrc tl tm) ->
  (forall k, (a < k)%nat -> pre k = []) ->
  (length tl + 1 + Z.to_nat (T - t0 + 1 - due a b) <= fuel)%nat ->
  wsim_emitted (bt_walk fuel a b tg (popen pre a b) (wsrc tl tm)) = bt_exp e T b pre tl.
Proof.
  intros Htm.
  assert (Het : is_terminal e = true) by (destruct tm; cbn in Htm; inversion Htm; reflexivity).
  induction fuel as [|f IH]; intros a b tg tl lb pre Hba Hfi Hso Hpre Hfu; [lia|].
  destruct (e_tick_progress span shift Hspan Hshift a b Hba) as (Hdue & Hba' & Ha' & Hb').
  destruct (bt_open'_pre pre a b Hba Hpre) as [Eop Ehd].
  assert (Hsp_b : e_span span shift a b = true -> (b <= a)%nat /\ due a b = span + Z.of_nat b * shift).
  { unfold e_span, e_due. intros H. apply Z.leb_le in H. split; [nia|lia]. }
  assert (Ha_open : forall tau, lb - t0 <= tau -> (a < n_open tau)%nat).
  { intros tau Hl. apply n_open_spec. destruct Hfi as [[->|Ha] _]; [left; reflexivity|right; lia]. }
  (* the timer fires before every remaining event *)
  assert (Tick : Forall (fun te => t0 + due a b < fst te) (wsrc tl tm) ->
            wsim_emitted ((t0 + due a b, ITick tg, bt_tick_obs a b tg (popen pre a b))
                          :: bt_walk f (a' a b) (b' a b) (S tg) (bt_open' a b (popen pre a b)) (wsrc tl tm))
            = bt_exp e T b pre tl).
  { intros Hall. rewrite wsim_emitted_cons, Eop.
    destruct (wsrc_Forall (fun t => t0 + due a b < t) tl tm Hall) as [Htl HtT]. rewrite Htm in HtT.
    inversion HtT as [|? ? HT _]; subst. cbn [fst] in HT.
    assert (Hfi' : fired span shift (a' a b) (b' a b) (Z.max lb (t0 + due a b + 1) - t0)).
    { apply fired_tick; try assumption; [|lia]. eapply fired_mono; [exact Hfi|lia]. }
    assert (Hso' : sorted_from (Z.max lb (t0 + due a b + 1)) (wsrc tl tm)).
    { apply (sorted_from_raise _ lb); [exact Hso|].
      pose proof (sorted_from_lb _ _ Hso) as Hlb. rewrite Forall_forall in *. intros te Hte.
      specialize (Hall te Hte). specialize (Hlb te Hte). cbn in *. lia. }
    assert (Hpre' : forall k, (a' a b < k)%nat -> pre k = []) by (intros k Hk; apply Hpre; lia).
    rewrite (IH (a' a b) (b' a b) (S tg) tl _ pre Hba' Hfi' Hso' Hpre') by lia.
    unfold bt_tick_obs. destruct (e_span span shift a b) eqn:Ep.
    - destruct (Hsp_b eq_refl) as [Hb_a Ed]. specialize (Ehd eq_refl).
      destruct (bt_open1 a b (popen pre a b)) as [|[g c] r]; [destruct Ehd|]. subst c.
      assert (Eb' : b' a b = S b) by (unfold e_b'; now rewrite Ep). rewrite Eb'.
      cbn [flat_map app].
      assert (Ebuf : bt_buffer b tl = []).
      { unfold bt_buffer. rewrite wt_contents_none; [reflexivity|].
        eapply Forall_impl; [|exact Htl]. cbn. intros tx Hx. unfold in_win.
        destruct (Z.leb_spec (fst tx - t0) (span + Z.of_nat b * shift)); [lia|apply andb_false_r]. }
      assert (Hlb : lb <= T).
      { pose proof (sorted_from_lb _ _ Hso) as Hl. rewrite Forall_forall in Hl. apply (Hl (T, e)).
        unfold wsrc. rewrite Htm. apply in_or_app. right. left. reflexivity. }
      unfold bt_exp. destruct e as [y|z|]; [discriminate Het| |].
      + assert (Hbc : (b < n_closed (T - t0))%nat) by (apply n_closed_spec; lia).
        replace (n_closed (T - t0) - b)%nat with (S (n_closed (T - t0) - S b)) by lia. cbn [seq map app].
        rewrite Ebuf, app_nil_r, Ed. reflexivity.
      + assert (Hbo : (b < n_open (T - t0))%nat) by (specialize (Ha_open (T - t0)); lia).
        replace (n_open (T - t0) - b)%nat with (S (n_open (T - t0) - S b)) by lia. cbn [seq map app].
        rewrite Ebuf, app_nil_r, Ed. rewrite Z.min_l by lia. reflexivity.
    - assert (Eb' : b' a b = b) by (unfold e_b'; now rewrite Ep). rewrite Eb'. reflexivity. }
  cbn [bt_walk]. destruct tl as [|[t x] rest].
  - (* the terminal *)
    unfold wsrc at 1. cbn [map app]. rewrite Htm.
    assert (HlbT : lb <= T) by (unfold wsrc in Hso; rewrite Htm in Hso; cbn in Hso; tauto).
    destruct (T <=? t0 + due a b) eqn:El.
    + apply Z.leb_le in El.
      assert (Hd1 : due a b <= (Z.of_nat a + 1) * shift) by (unfold e_due; lia).
      assert (Hd2 : due a b <= span + Z.of_nat b * shift) by (unfold e_due; lia).
      unfold bt_exp. destruct e as [y|z|]; [discriminate Het| |]; rewrite wsim_emitted_cons, wsim_emitted_dead, app_nil_r.
      * assert (E0 : (n_closed (T - t0) - b = 0)%nat).
        { assert (~ (b < n_closed (T - t0))%nat); [|lia]. rewrite n_closed_spec. lia. }
        rewrite E0. reflexivity.
      * assert (E0 : n_open (T - t0) = S a).
        { assert (~ (S a < n_open (T - t0))%nat).
          { rewrite n_open_spec. intros [H|H]; [discriminate H|]. rewrite Nat2Z.inj_succ in H. lia. }
          specialize (Ha_open (T - t0)). lia. }
        rewrite E0, flat_map_app. cbn [flat_map app]. f_equal.
        unfold popen. rewrite map_map. cbn [snd].
        assert (Efm : forall (l : list nat), flat_map (fun x0 : obs A (list A) => match x0 with OEmit e0 => [(T, e0)] | _ => [] end)
                        (map (fun k => OEmit (Next (pre k))) l) = map (fun k => (T, Next (pre k))) l).
        { induction l as [|k l IHl]; [reflexivity|]. cbn [map flat_map app]. now rewrite IHl. }
        rewrite Efm. apply map_ext_in. intros k Hk. apply in_seq in Hk.
        unfold bt_buffer, wt_contents. cbn [filter map]. rewrite app_nil_r. f_equal.
        rewrite Z.min_r; [reflexivity|]. nia.
    + apply Z.leb_gt in El. replace [(T, e)] with (wsrc (@nil (Z * A)) tm) by (unfold wsrc; now rewrite Htm).
      apply (Tick). unfold wsrc. rewrite Htm. constructor; [cbn; lia|constructor].
  - (* an element *)
    change (wsrc ((t, x) :: rest) tm) with ((t, Next x) :: wsrc rest tm) in *.
    destruct Hso as [Hlt Hso].
    destruct (t <=? t0 + due a b) eqn:El.
    + apply Z.leb_le in El. rewrite wsim_emitted_cons. cbn [flat_map app].
      assert (Hf2 : fired span shift a b (t - t0)) by (eapply fired_mono; [exact Hfi|lia]).
      pose proof (fun k => in_win_iff span shift Hspan Hshift a b (t - t0) k Hba Hf2 ltac:(lia)) as Hiff.
      set (pre1 := fun k => if in_win span shift k (t - t0) then pre k ++ [x] else pre k).
      assert (Eo : map (fun kb : nat * list A => (fst kb, snd kb ++ [x])) (popen pre a b) = popen pre1 a b).
      { unfold popen. rewrite map_map. cbn [fst snd]. apply map_ext_in. intros k Hk.
        unfold pre1. rewrite (proj1 (Hiff k) Hk). reflexivity. }
      assert (Hpre1 : forall k, (a < k)%nat -> pre1 k = []).
      { intros k Hk. unfold pre1. destruct (in_win span shift k (t - t0)) eqn:Ei; [|apply Hpre; exact Hk].
        apply (Hiff k) in Ei. apply in_seq in Ei. lia. }
      rewrite Eo, (IH a b tg rest t pre1 Hba Hf2 Hso Hpre1) by (cbn [length] in Hfu; lia).
      unfold bt_exp. destruct e as [y|z|]; [discriminate Het| |]; f_equal; apply map_ext; intros k;
        rewrite bt_buffer_cons; unfold pre1; destruct (in_win span shift k (t - t0));
        cbn [app]; rewrite <- ?app_assoc; reflexivity.
    + apply Z.leb_gt in El. apply Tick.
      pose proof (sorted_from_lb _ _ Hso) as Hlb.
      constructor; [cbn; lia|]. eapply Forall_impl; [|exact Hlb]. cbn. intros; lia.
Qed.

(* THEOREM (b): all buffers of a sorted conforming timeline that terminates *)
Theorem buffer_time_closed_form (tl : list (Z * A)) tm T e fuel : tm_ev tm = [(T, e)] ->
  sorted_from t0 (wsrc tl tm) -> (length tl + 1 + Z.to_nat (T - t0) <= fuel)%nat ->
  wsim_emitted (snd (wsimulate all_imm MB fuel t0 (wext_of (wsrc tl tm)))) = bt_exp e T 0 (fun _ => []) tl.
Proof.
  intros Htm Hso Hfu. rewrite buffer_time_walk. cbn [snd].
  change [(0%nat, @nil A)] with (popen (fun _ => @nil A) 0 0).
  apply (bt_emitted_from tm T e Htm fuel 0 0 0 tl t0 (fun _ => [])); [lia|apply fired0|exact Hso|reflexivity|].
  pose proof (e_due_pos span shift Hspan Hshift 0 0). lia.
Qed.

(* the two cases, written out *)
Corollary buffer_time_completing (tl : list (Z * A)) T fuel :
  sorted_from t0 (wsrc tl (TimedSim.TTDone T)) -> (length tl + 1 + Z.to_nat (T - t0) <= fuel)%nat ->
  wsim_emitted (snd (wsimulate all_imm MB fuel t0 (wext_of (wsrc tl (TimedSim.TTDone T)))))
  = map (fun k => (Z.min (t0 + (span + Z.of_nat k * shift)) T, Next (bt_buffer k tl))) (seq 0 (n_open (T - t0)))
    ++ [(T, Done)].
Proof.
  intros Hso Hfu. rewrite (buffer_time_closed_form tl (TimedSim.TTDone T) T Done fuel eq_refl Hso Hfu). unfold bt_exp.
  now rewrite Nat.sub_0_r.
Qed.

Corollary buffer_time_failing (tl : list (Z * A)) T z fuel :
  sorted_from t0 (wsrc tl (TimedSim.TTErr T z)) -> (length tl + 1 + Z.to_nat (T - t0) <= fuel)%nat ->
  wsim_emitted (snd (wsimulate all_imm MB fuel t0 (wext_of (wsrc tl (TimedSim.TTErr T z)))))
  = map (fun k => (t0 + (span + Z.of_nat k * shift), Next (bt_buffer k tl))) (seq 0 (n_closed (T - t0)))
    ++ [(T, Err z)].
Proof.
  intros Hso Hfu. rewrite (buffer_time_closed_form tl (TimedSim.TTErr T z) T (Err z) fuel eq_refl Hso Hfu). unfold bt_exp.
  now rewrite Nat.sub_0_r.
Qed.
End BufferTime.
