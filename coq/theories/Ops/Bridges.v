(* C41: future, callback and blocking bridges as OUTCOME models: a future is a
   one-shot cell; each model maps the sequence of things that happen at the
   bridge's boundary (in order; position k = the k-th action, 0 = inside
   subscribe()/the call itself) to what can be observed: notifications with the
   position at which they arrive, the future's final state, and the positions
   of cancel()/dispose calls made by the library. *)
From RxVerif Require Import Base.Prelude Base.CaseLib Ops.Machine.

Inductive fstate := FPending | FResult (v : Z) | FExn (e : Z) | FCancelled.

Definition CANCELLED : Z := -20.        (* harness id of CancelledError *)
Definition NO_ELEMENTS : Z := -2.       (* SequenceContainsNoElementsError *)

Definition fstate_eqb (a b : fstate) : bool :=
  match a, b with
  | FPending, FPending | FCancelled, FCancelled => true
  | FResult x, FResult y => x =? y
  | FExn x, FExn y => x =? y
  | _, _ => false
  end.

(* ---- observable/fromfuture.py ------------------------------------------------
   subscribe(): future.add_done_callback(done); return Disposable(dispose) with
   dispose = future.cancel().  done: result -> on_next; on_completed; Exception
   or CancelledError -> on_error.  The returned Disposable is disposed by the
   subscriber or by the auto-detach wrapper after the terminal notification:
   either way the library calls future.cancel() exactly once (a no-op on a
   future that is already done).  A done callback added to a future that is
   already done runs at once. *)
Inductive fact := ASetResult (v : Z) | ASetExn (e : Z) | ACancel | ADispose.

Definition settled_notes (k : nat) (fs : fstate) : list (nat * ev Z) :=
  match fs with
  | FPending => []
  | FResult v => [(k, Next v); (k, Done)]
  | FExn e => [(k, Err e)]
  | FCancelled => [(k, Err CANCELLED)]
  end.

(* state: the future, whether the subscription has stopped *)
Definition ff_step (s : fstate * bool) (k : nat) (a : fact)
  : (fstate * bool) * list (nat * ev Z) * list nat :=
  let '(fs, stopped) := s in
  let settle (fs' : fstate) :=
    match fs with
    | FPending => if stopped then ((fs', stopped), [], []) else ((fs', true), settled_notes k fs', [k])
    | _ => (s, [], [])                     (* already settled: the harness does not settle twice *)
    end in
  match a with
  | ASetResult v => settle (FResult v)
  | ASetExn e => settle (FExn e)
  | ACancel => settle FCancelled
  | ADispose =>
      if stopped then (s, [], [])
      else ((match fs with FPending => FCancelled | _ => fs end, true), [], [k])
  end.

Fixpoint ff_run (s : fstate * bool) (k : nat) (acts : list fact)
  : list (nat * ev Z) * list nat * fstate :=
  match acts with
  | [] => ([], [], fst s)
  | a :: rest =>
      let '(s', ns, cs) := ff_step s k a in
      let '(ns', cs', fin) := ff_run s' (S k) rest in
      (ns ++ ns', cs ++ cs', fin)
  end.

(* subscription to a future in state [init], then the actions *)
Definition from_future (init : fstate) (acts : list fact) : list (nat * ev Z) * list nat * fstate :=
  match init with
  | FPending => ff_run (FPending, false) 1 acts
  | _ => let '(ns, cs, fin) := ff_run (init, true) 1 acts in
         (settled_notes 0 init ++ ns, 0%nat :: cs, fin)
  end.

(* ---- operators/_tofuture.py (also Observable.__await__) and run.py --------------
   on_next keeps the last value; on_completed: result(last) or
   SequenceContainsNoElementsError; on_error: set_exception; both only `if not
   future.cancelled()`.  future.add_done_callback(lambda _: dis.dispose()): the
   source subscription is disposed when the future is done, however that came
   about.  state: (last value, future, source still subscribed). *)
Inductive tact := TSrc (e : ev Z) | TCancelFuture.

Definition tf_step (s : option Z * fstate * bool) (k : nat) (a : tact)
  : (option Z * fstate * bool) * list nat :=
  let '(last, fut, live) := s in
  match a with
  | TSrc (Next v) => if live then ((Some v, fut, live), []) else (s, [])
  | TSrc (Err e) =>
      if live then ((last, match fut with FPending => FExn e | _ => fut end, false), [k]) else (s, [])
  | TSrc Done =>
      if live then
        ((None, match fut with
                | FPending => match last with Some v => FResult v | None => FExn NO_ELEMENTS end
                | _ => fut
                end, false), [k])
      else (s, [])
  | TCancelFuture =>
      match fut with
      | FPending => ((last, FCancelled, false), if live then [k] else [])
      | _ => (s, [])
      end
  end.

Fixpoint tf_run (s : option Z * fstate * bool) (k : nat) (acts : list tact) : list nat * fstate :=
  match acts with
  | [] => ([], snd (fst s))
  | a :: rest =>
      let '(s', u) := tf_step s k a in
      let '(u', fin) := tf_run s' (S k) rest in (u ++ u', fin)
  end.

(* positions at which the source subscription is disposed, final state of the future *)
Definition to_future (acts : list tact) : list nat * fstate := tf_run (None, FPending, true) 1 acts.

(* run() / await: what the caller gets from the complete notification sequence *)
Inductive outcome := Returns (v : Z) | Raises (e : Z) | Blocks.
Definition run_outcome (ins : list (ev Z)) : outcome :=
  match snd (to_future (map TSrc ins)) with
  | FResult v => Returns v
  | FExn e => Raises e
  | FCancelled => Raises CANCELLED
  | FPending => Blocks
  end.

(* ---- observable/toasync.py, start.py ----------------------------------------------
   wrapper(args...): subject = AsyncSubject(); scheduler.schedule(action); action:
   try: result = func(args...) except Exception as ex: subject.on_error(ex) else:
   subject.on_next(result); subject.on_completed().  The action is scheduled by
   the CALL, not by a subscription (disposing does not cancel it). *)
Inductive aact := ARun | ASubscribe | AUnsubscribe.
Inductive substate := NotYet | Live | Stopped.

Definition result_notes (k : nat) (r : res Z) : list (nat * ev Z) :=
  match r with Ok v => [(k, Next v); (k, Done)] | Raise e => [(k, Err e)] end.

Definition ta_step (r : res Z) (s : bool * substate) (k : nat) (a : aact) : (bool * substate) * list (nat * ev Z) :=
  let '(ran, sub) := s in
  match a with
  | ARun => if ran then (s, [])
            else match sub with Live => ((true, Stopped), result_notes k r) | _ => ((true, sub), []) end
  | ASubscribe => match sub with
                  | NotYet => if ran then ((ran, Stopped), result_notes k r) else ((ran, Live), [])
                  | _ => (s, [])
                  end
  | AUnsubscribe => match sub with Live => ((ran, Stopped), []) | _ => (s, []) end
  end.

Fixpoint ta_run (r : res Z) (s : bool * substate) (k : nat) (acts : list aact) : list (nat * ev Z) :=
  match acts with
  | [] => []
  | a :: rest => let '(s', ns) := ta_step r s k a in ns ++ ta_run r s' (S k) rest
  end.

Definition to_async (r : res Z) (acts : list aact) : list (nat * ev Z) := ta_run r (false, NotYet) 0 acts.

(* ---- observable/fromcallback.py ------------------------------------------------------
   handler(args...): with a mapper: on_next(mapper(args)); on_completed() (mapper
   raising -> on_error); without: on_next(the single argument | None for no
   argument | the list of arguments); on_completed().  Later invocations of the
   handler are dropped by the stopped subscription. *)
Inductive bval := VOne (v : Z) | VList (l : list Z) | VNone.
Inductive mapper := MSum | MLen | MRaise (e : Z) | MRaiseOnEmpty (e : Z).

Definition bval_eqb (a b : bval) : bool :=
  match a, b with
  | VOne x, VOne y => x =? y
  | VList x, VList y => list_eqb Z.eqb x y
  | VNone, VNone => true
  | _, _ => false
  end.

Definition apply_mapper (m : mapper) (args : list Z) : res Z :=
  match m with
  | MSum => Ok (fold_right Z.add 0 args)
  | MLen => Ok (zlen args)
  | MRaise e => Raise e
  | MRaiseOnEmpty e => match args with [] => Raise e | x :: _ => Ok x end
  end.

Definition handler_notes (m : option mapper) (k : nat) (args : list Z) : list (nat * ev bval) :=
  match m with
  | Some mp => match apply_mapper mp args with
               | Ok v => [(k, Next (VOne v)); (k, Done)]
               | Raise e => [(k, Err e)]
               end
  | None => [(k, Next (match args with [] => VNone | [x] => VOne x | _ => VList args end)); (k, Done)]
  end.

(* invocations: (position, arguments); position 0 = made inside subscribe() *)
Fixpoint fc_run (m : option mapper) (stopped : bool) (invs : list (nat * list Z)) : list (nat * ev bval) :=
  match invs with
  | [] => []
  | (k, args) :: rest => if stopped then fc_run m stopped rest else handler_notes m k args ++ fc_run m true rest
  end.

Definition from_callback (m : option mapper) (invs : list (nat * list Z)) : list (nat * ev bval) :=
  fc_run m false invs.

(* ---- one case type for the correspondence ------------------------------------------------ *)
Inductive bcase :=
| BFromFuture (init : fstate) (acts : list fact)
| BToFuture (acts : list tact)
| BRun (ins : list (ev Z))
| BToAsync (r : res Z) (acts : list aact)
| BFromCallback (m : option mapper) (invs : list (nat * list Z)).

Inductive bout :=
| OFromFuture (ns : list (nat * ev Z)) (cancels : list nat) (fin : fstate)
| OToFuture (unsubs : list nat) (fin : fstate)
| ORun (o : outcome)
| OToAsync (ns : list (nat * ev Z))
| OFromCallback (ns : list (nat * ev bval)).

Definition bridge_model (c : bcase) : bout :=
  match c with
  | BFromFuture init acts => let '(ns, cs, fin) := from_future init acts in OFromFuture ns cs fin
  | BToFuture acts => let '(u, fin) := to_future acts in OToFuture u fin
  | BRun ins => ORun (run_outcome ins)
  | BToAsync r acts => OToAsync (to_async r acts)
  | BFromCallback m invs => OFromCallback (from_callback m invs)
  end.

Definition outcome_eqb (a b : outcome) : bool :=
  match a, b with
  | Returns x, Returns y => x =? y
  | Raises x, Raises y => x =? y
  | Blocks, Blocks => true
  | _, _ => false
  end.

Definition bout_eqb (a b : bout) : bool :=
  match a, b with
  | OFromFuture n1 c1 f1, OFromFuture n2 c2 f2 =>
      tagged_eqb Z.eqb n1 n2 && list_eqb Nat.eqb c1 c2 && fstate_eqb f1 f2
  | OToFuture u1 f1, OToFuture u2 f2 => list_eqb Nat.eqb u1 u2 && fstate_eqb f1 f2
  | ORun x, ORun y => outcome_eqb x y
  | OToAsync n1, OToAsync n2 => tagged_eqb Z.eqb n1 n2
  | OFromCallback n1, OFromCallback n2 => tagged_eqb bval_eqb n1 n2
  | _, _ => false
  end.
