(* C10: repeat(count) and retry(count), closed forms in the sequential environment:
   the same source (0) is subscribed again and again, its successive runs are the
   blocks of the input. *)
From RxVerif Require Import Base.Prelude Ops.Machine Ops.MachineFacts Ops.Multi Ops.MultiFacts
  Ops.RunLemmas Ops.Combinators Ops.SequentialFacts.

Local Arguments Nat.ltb : simpl never.
Local Arguments Nat.leb : simpl never.

Section Repeat.
Context {A : Type}.

Definition more (count : option nat) (used : nat) : bool :=
  match count with None => true | Some c => Nat.ltb used c end.

(* successive runs of source 0 *)
Definition runs_env (runs : list (list A * term)) : list (Z * inp A) := flat_map (block 0) runs.

(* repeat: every run's elements; a completed run is followed by the next one while the
   count allows, then completion; an error ends everything *)
Fixpoint repeat_spec (count : option nat) (used : nat) (runs : list (list A * term)) : list (ev A) :=
  match runs with
  | [] => []
  | (xs, t) :: rest =>
      map Next xs ++ match t with
                     | TDone => if more count used then repeat_spec count (S used) rest else [Done]
                     | TErr e => [Err e]
                     | TNever => repeat_spec count used rest
                     end
  end.

(* retry: a failed run is followed by the next one while the count allows, then the error
   is passed on; a completed run completes everything *)
Fixpoint retry_spec (count : option nat) (used : nat) (runs : list (list A * term)) : list (ev A) :=
  match runs with
  | [] => []
  | (xs, t) :: rest =>
      map Next xs ++ match t with
                     | TErr e => if more count used then retry_spec count (S used) rest else [Err e]
                     | TDone => [Done]
                     | TNever => retry_spec count used rest
                     end
  end.

Lemma emitted_nexts (ys : list A) k :
  emitted (map (fun p => (fst p, OEmit (Next (snd p)))) (combine (seq k (length ys)) ys)) = map Next ys.
Proof.
  revert k. unfold emitted. induction ys as [|y r IH]; intros k; [reflexivity|]. cbn. now rewrite IH.
Qed.

Lemma repeat_elems count used (ys : list A) : forall kk,
  run_from (x_repeat count) used (RState [0%nat] [] false) kk (map (fun e => (0, ISrc 0%nat e)) (map Next ys))
  = (map (fun p => (fst p, OEmit (Next (snd p)))) (combine (seq kk (length ys)) ys), RState [0%nat] [] false)
  /\ after (x_repeat count) used (RState [0%nat] [] false) (map (fun e => (0, ISrc 0%nat e)) (map Next ys))
     = (used, RState [0%nat] [] false).
Proof.
  induction ys as [|y r IH]; intros kk; [split; reflexivity|].
  cbn [map run_from after length seq combine]. unfold rstep. rs.
  destruct (IH (S kk)) as [H1 H2]. rewrite H1, H2. split; reflexivity.
Qed.

Lemma repeat_from count (runs : list (list A * term)) : forall used k,
  emitted (fst (run_from (x_repeat count) used (RState [0%nat] [] false) k (runs_env runs)))
  = repeat_spec count used runs.
Proof.
  induction runs as [|[xs t] rest IH]; intros used k; [reflexivity|].
  unfold runs_env. cbn [flat_map repeat_spec]. fold (runs_env rest).
  rewrite run_from_app. cbn [fst]. unfold block, events. cbn [fst snd]. rewrite map_app.
  destruct (repeat_elems count used xs k) as [G1 G2].
  rewrite after_app, G2. cbn [fst snd].
  rewrite run_from_app, G1, G2. cbn [fst snd].
  rewrite !emitted_app, emitted_nexts, <- app_assoc. f_equal.
  rewrite app_length, !map_length.
  destruct t as [|e|].
  - cbn [map run_from after]. unfold rstep. rs. unfold more.
    destruct (match count with None => true | Some c => Nat.ltb used c end); rs.
    + rewrite IH. reflexivity.
    + rewrite run_from_stopped by reflexivity. reflexivity.
  - cbn [map run_from after]. unfold rstep. rs.
    rewrite run_from_stopped by reflexivity. reflexivity.
  - cbn [map run_from after app fst snd]. apply IH.
Qed.

Theorem repeat_closed_form count (runs : list (list A * term)) :
  emitted (fst (run (x_repeat count) (runs_env runs)))
  = match count with Some O => [Done] | _ => repeat_spec count 1 runs end.
Proof.
  rewrite run_unfold. cbn [fst]. rewrite emitted_app.
  destruct count as [[|c]|].
  - cbn -[run_from runs_env]. rewrite run_from_stopped by reflexivity. reflexivity.
  - unfold start_state, start_obs. cbn -[run_from runs_env repeat_spec emitted]. rewrite repeat_from. reflexivity.
  - unfold start_state, start_obs. cbn -[run_from runs_env repeat_spec emitted]. rewrite repeat_from. reflexivity.
Qed.

Lemma retry_elems count used (ys : list A) : forall kk,
  run_from (x_retry count) used (RState [0%nat] [] false) kk (map (fun e => (0, ISrc 0%nat e)) (map Next ys))
  = (map (fun p => (fst p, OEmit (Next (snd p)))) (combine (seq kk (length ys)) ys), RState [0%nat] [] false)
  /\ after (x_retry count) used (RState [0%nat] [] false) (map (fun e => (0, ISrc 0%nat e)) (map Next ys))
     = (used, RState [0%nat] [] false).
Proof.
  induction ys as [|y r IH]; intros kk; [split; reflexivity|].
  cbn [map run_from after length seq combine]. unfold rstep. rs.
  destruct (IH (S kk)) as [H1 H2]. rewrite H1, H2. split; reflexivity.
Qed.

Lemma retry_from count (runs : list (list A * term)) : forall used k,
  emitted (fst (run_from (x_retry count) used (RState [0%nat] [] false) k (runs_env runs)))
  = retry_spec count used runs.
Proof.
  induction runs as [|[xs t] rest IH]; intros used k; [reflexivity|].
  unfold runs_env. cbn [flat_map retry_spec]. fold (runs_env rest).
  rewrite run_from_app. cbn [fst]. unfold block, events. cbn [fst snd]. rewrite map_app.
  destruct (retry_elems count used xs k) as [G1 G2].
  rewrite after_app, G2. cbn [fst snd].
  rewrite run_from_app, G1, G2. cbn [fst snd].
  rewrite !emitted_app, emitted_nexts, <- app_assoc. f_equal.
  rewrite app_length, !map_length.
  destruct t as [|e|].
  - cbn [map run_from after]. unfold rstep. rs.
    rewrite run_from_stopped by reflexivity. reflexivity.
  - cbn [map run_from after]. unfold rstep. rs. unfold more.
    destruct (match count with None => true | Some c => Nat.ltb used c end); rs.
    + rewrite IH. reflexivity.
    + rewrite run_from_stopped by reflexivity. reflexivity.
  - cbn [map run_from after app fst snd]. apply IH.
Qed.

Theorem retry_closed_form count (runs : list (list A * term)) :
  emitted (fst (run (x_retry count) (runs_env runs)))
  = match count with Some O => [Done] | _ => retry_spec count 1 runs end.
Proof.
  rewrite run_unfold. cbn [fst]. rewrite emitted_app.
  destruct count as [[|c]|].
  - cbn -[run_from runs_env]. rewrite run_from_stopped by reflexivity. reflexivity.
  - unfold start_state, start_obs. cbn -[run_from runs_env retry_spec emitted]. rewrite retry_from. reflexivity.
  - unfold start_state, start_obs. cbn -[run_from runs_env retry_spec emitted]. rewrite retry_from. reflexivity.
Qed.

(* repeat(n) over runs that all complete emits the concatenation of the first n runs, then completes *)
Corollary repeat_n_completing (n : nat) (runs : list (list A)) : (n <= length runs)%nat -> (0 < n)%nat ->
  repeat_spec (Some n) 1 (map (fun xs => (xs, TDone)) runs)
  = map Next (concat (firstn n runs)) ++ [Done].
Proof.
  assert (G : forall runs used, (used <= n)%nat -> (0 < used)%nat -> (n - used < length runs)%nat ->
    repeat_spec (Some n) used (map (fun xs => (xs, TDone)) runs)
    = map Next (concat (firstn (S (n - used)) runs)) ++ [Done]).
  { clear runs. induction runs as [|xs rest IH]; intros used Hu Hp Hl; [cbn in Hl; lia|].
    cbn [map repeat_spec more]. destruct (Nat.ltb_spec used n) as [Hlt|Hge].
    - rewrite IH by (cbn in Hl; lia). replace (S (n - used)) with (S (S (n - S used))) by lia.
      cbn [firstn concat]. rewrite map_app, <- app_assoc. reflexivity.
    - replace (n - used)%nat with 0%nat by lia. cbn [firstn concat]. now rewrite app_nil_r. }
  intros Hl Hp. rewrite G by lia. replace (S (n - 1)) with n by lia. reflexivity.
Qed.
End Repeat.
