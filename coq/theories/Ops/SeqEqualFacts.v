(* sequence_equal(observable): the two-queue machine of Ops/SeqEqual.v against a
   specification stated on the two HISTORIES (everything each source has
   delivered so far), for EVERY interleaved input sequence. *)
From RxVerif Require Import Base.Prelude Ops.Machine Ops.MachineFacts Ops.Multi Ops.MultiFacts
  Ops.RunLemmas Ops.SeqEqual.


Section SeqEqualFacts.
Context {A : Type}.
Variable eqb : A -> A -> bool.
Hypothesis eqb_sym : forall a b, eqb a b = eqb b a.

(* the elements present on both sides so far are pairwise equal *)
Definition agree (L R : list A) : bool := forallb (fun ab => eqb (fst ab) (snd ab)) (combine L R).

(* what two histories decide: L / R = elements delivered so far by the first / second
   source, dl / dr = that source has completed *)
Definition se_decide (L R : list A) (dl dr : bool) : option bool :=
  if negb (agree L R) then Some false
  else if dl && Nat.ltb (length L) (length R) then Some false
  else if dr && Nat.ltb (length R) (length L) then Some false
  else if dl && dr then Some true
  else None.

Definition se_answer (pos : nat) (b : bool) : list (nat * ev bool) := [(pos, Next b); (pos, Done)].

(* SPEC: after every notification of a still-subscribed source the answer is looked up
   from the histories; the first answer is emitted (with completion) at that position;
   an error of either source passes through; l0 / l1 = the source is still subscribed *)
Fixpoint se_spec (L R : list A) (l0 l1 : bool) (pos : nat) (ins : list (Z * inp A)) : list (nat * ev bool) :=
  match ins with
  | [] => []
  | (_, ISrc O e) :: t =>
      if l0 then
        match e with
        | Next x => match se_decide (L ++ [x]) R false (negb l1) with
                    | Some b => se_answer pos b
                    | None => se_spec (L ++ [x]) R l0 l1 (S pos) t
                    end
        | Err err => [(pos, Err err)]
        | Done => match se_decide L R true (negb l1) with
                  | Some b => se_answer pos b
                  | None => se_spec L R false l1 (S pos) t
                  end
        end
      else se_spec L R l0 l1 (S pos) t
  | (_, ISrc (S O) e) :: t =>
      if l1 then
        match e with
        | Next x => match se_decide L (R ++ [x]) (negb l0) false with
                    | Some b => se_answer pos b
                    | None => se_spec L (R ++ [x]) l0 l1 (S pos) t
                    end
        | Err err => [(pos, Err err)]
        | Done => match se_decide L R (negb l0) true with
                  | Some b => se_answer pos b
                  | None => se_spec L R l0 false (S pos) t
                  end
        end
      else se_spec L R l0 l1 (S pos) t
  | (_, ISrc _ _) :: t => se_spec L R l0 l1 (S pos) t
  | (_, ITick _) :: t => se_spec L R l0 l1 (S pos) t
  | (_, IDispose) :: _ => []
  end.

(* ---- list facts ------------------------------------------------------------ *)
Lemma agree_app (P1 P2 a b : list A) : length P1 = length P2 ->
  agree (P1 ++ a) (P2 ++ b) = agree P1 P2 && agree a b.
Proof.
  unfold agree. revert P2. induction P1 as [|x P1 IH]; intros [|y P2] H; try discriminate; [reflexivity|].
  cbn [app combine forallb fst snd]. rewrite IH by (cbn in H; lia). now rewrite andb_assoc.
Qed.
Lemma agree_nil_l (R : list A) : agree [] R = true.
Proof. reflexivity. Qed.
Lemma agree_nil_r (L : list A) : agree L [] = true.
Proof. unfold agree. destruct L; reflexivity. Qed.

(* ---- the invariant tying the queues to the histories ------------------------ *)
Definition se_live (l0 l1 : bool) : list nat :=
  (if l0 then [0%nat] else []) ++ (if l1 then [1%nat] else []).

Record se_inv (L R : list A) (l0 l1 : bool) (ql qr : list A) (donel doner : bool) : Prop := {
  inv_dl : donel = negb l0;
  inv_dr : doner = negb l1;
  inv_split : exists P1 P2, L = P1 ++ ql /\ R = P2 ++ qr /\ length P1 = length P2 /\ agree P1 P2 = true;
  inv_one : ql = [] \/ qr = [];
  inv_l : donel = true -> qr = [];
  inv_r : doner = true -> ql = [] }.

Notation M := (x_sequence_equal (pure2 eqb)).

Ltac term_step s r now i pos :=
  let E1 := fresh "E" in let E2 := fresh "E" in
  destruct (rstep_fin M s r now i pos) as [E1 E2];
  [reflexivity|reflexivity|cbn; discriminate|];
  rewrite E1, (run_from_stopped _ _ _ _ _ E2); reflexivity.

(* a common prefix of pairwise equal elements does not change the decision *)
Lemma ltb_add_l n a b : Nat.ltb (n + a) (n + b) = Nat.ltb a b.
Proof. destruct (Nat.ltb_spec (n + a) (n + b)), (Nat.ltb_spec a b); try reflexivity; lia. Qed.

Lemma decide_cancel (P1 P2 a b : list A) dl dr :
  length P1 = length P2 -> agree P1 P2 = true ->
  se_decide (P1 ++ a) (P2 ++ b) dl dr = se_decide a b dl dr.
Proof.
  intros Hl Ha. unfold se_decide. rewrite agree_app, Ha by exact Hl. cbn [andb].
  rewrite !app_length, Hl, !ltb_add_l. reflexivity.
Qed.
Lemma decide_r_nil (a : list A) dl dr :
  se_decide a [] dl dr = if dr && Nat.ltb 0 (length a) then Some false else if dl && dr then Some true else None.
Proof.
  unfold se_decide. rewrite agree_nil_r. cbn [negb length].
  replace (Nat.ltb (length a) 0) with false by (destruct (length a); reflexivity).
  now rewrite andb_false_r.
Qed.
Lemma decide_l_nil (b : list A) dl dr :
  se_decide [] b dl dr = if dl && Nat.ltb 0 (length b) then Some false else if dl && dr then Some true else None.
Proof.
  unfold se_decide. rewrite agree_nil_l. cbn [negb length].
  replace (Nat.ltb (length b) 0) with false by (destruct (length b); reflexivity).
  now rewrite andb_false_r.
Qed.
Lemma ltb_0_snoc (q : list A) x : Nat.ltb 0 (length (q ++ [x])) = true.
Proof. rewrite app_length. cbn [length]. destruct (Nat.ltb_spec 0 (length q + 1)); [reflexivity|lia]. Qed.

Lemma seq_equal_from (ins : list (Z * inp A)) : forall L R l0 l1 ql qr donel doner pos,
  se_inv L R l0 l1 ql qr donel doner ->
  temitted (fst (run_from M (ql, qr, donel, doner) (RState (se_live l0 l1) [] false) pos ins))
  = se_spec L R l0 l1 pos ins.
Proof.
  induction ins as [|[now i] rest IH]; intros L R l0 l1 ql qr donel doner pos Inv; [reflexivity|].
  rewrite temitted_run_cons. cbn [se_spec].
  destruct Inv as [Hdl Hdr (P1 & P2 & HL & HR & Hlen & Hag) Hone Hl Hr].
  destruct i as [k e|tag|].
  - destruct k as [|[|k2]].
    + (* the first source *)
      destruct l0.
      * cbn [negb] in Hdl. subst donel. destruct e as [x|err|].
        -- (* on_next1 *)
           destruct qr as [|v t].
           ++ rewrite app_nil_r in HR. subst R L. rewrite <- app_assoc.
              rewrite <- (app_nil_r P2) at 1. rewrite decide_cancel, decide_r_nil, ltb_0_snoc by assumption.
              cbn [andb]. rewrite andb_true_r.
              destruct l1; cbn [negb] in *; subst doner.
              ** assert (E : rstep M (ql, [], false, false) (RState (se_live true true) [] false) now (ISrc 0%nat (Next x))
                            = ((ql ++ [x], [], false, false), RState (se_live true true) [] false, [])) by reflexivity.
                 rewrite E. cbn [fst snd map temitted flat_map app].
                 apply IH. constructor; try reflexivity; try (intros; discriminate); auto.
                 exists P1, P2. rewrite app_nil_r. auto.
              ** term_step (ql, @nil A, false, true) (RState (se_live true false) [] false) now (ISrc 0%nat (Next x)) pos.
           ++ assert (ql = []) as -> by (destruct Hone as [H|H]; [exact H|discriminate]).
              rewrite app_nil_r in HL. subst L R.
              rewrite decide_cancel by assumption.
              unfold se_decide, agree. cbn [app combine forallb fst snd length negb andb].
              rewrite (eqb_sym x v), andb_true_r.
              destruct (eqb v x) eqn:Evx; cbn [negb].
              ** replace (negb l1 && Nat.ltb (S (length t)) 1) with false
                   by (rewrite andb_comm; destruct (length t); reflexivity).
                 assert (E : rstep M ([], v :: t, false, doner) (RState (se_live true l1) [] false) now (ISrc 0%nat (Next x))
                            = (([], t, false, doner), RState (se_live true l1) [] false, [])).
                 { unfold rstep. cbn -[se_live]. unfold pure2. rewrite Evx. destruct l1; reflexivity. }
                 rewrite E. cbn [fst snd map temitted flat_map app].
                 replace (P2 ++ v :: t) with ((P2 ++ [v]) ++ t) by now rewrite <- app_assoc.
                 apply IH. constructor; try reflexivity; auto; try (intros; discriminate).
                 exists (P1 ++ [x]), (P2 ++ [v]). rewrite app_nil_r. repeat split.
                 --- rewrite !app_length. cbn. lia.
                 --- rewrite agree_app, Hag by assumption. unfold agree. cbn. now rewrite (eqb_sym x v), Evx.
              ** destruct (rstep_fin M ([], v :: t, false, doner) (RState (se_live true l1) [] false) now
                             (ISrc 0%nat (Next x)) pos) as [E1 E2];
                   [reflexivity|reflexivity|cbn; unfold pure2; rewrite Evx; discriminate|].
                 rewrite E1, (run_from_stopped _ _ _ _ _ E2). cbn. unfold pure2. rewrite Evx. reflexivity.
        -- term_step (ql, qr, false, doner) (RState (se_live true l1) [] false) now (ISrc 0%nat (@Err A err)) pos.
        -- (* on_completed1 *)
           subst L R. rewrite decide_cancel by assumption.
           destruct ql as [|a ql'].
           ++ rewrite decide_l_nil. cbn [andb].
              destruct qr as [|v t].
              ** cbn [length Nat.ltb Nat.leb].
                 destruct l1; cbn [negb] in *; subst doner.
                 --- assert (E : rstep M ([], [], false, false) (RState (se_live true true) [] false) now (ISrc 0%nat Done)
                               = (([], [], true, false), RState (se_live false true) [] false, [OUnsub 0%nat])) by reflexivity.
                     rewrite E. cbn [fst snd map temitted flat_map app].
                     apply IH. constructor; try reflexivity; auto; try (intros; discriminate).
                     exists P1, P2. auto.
                 --- term_step (@nil A, @nil A, false, true) (RState (se_live true false) [] false) now (ISrc 0%nat (@Done A)) pos.
              ** cbn [length Nat.ltb Nat.leb].
                 term_step (@nil A, v :: t, false, doner) (RState (se_live true l1) [] false) now (ISrc 0%nat (@Done A)) pos.
           ++ assert (qr = []) as -> by (destruct Hone as [H|H]; [discriminate|exact H]).
              assert (doner = false) as -> by (destruct doner; [specialize (Hr eq_refl); discriminate|reflexivity]).
              rewrite decide_r_nil. destruct l1; [|discriminate]. cbn [negb andb].
              assert (E : rstep M (a :: ql', [], false, false) (RState (se_live true true) [] false) now (ISrc 0%nat Done)
                         = ((a :: ql', [], true, false), RState (se_live false true) [] false, [OUnsub 0%nat])) by reflexivity.
              rewrite E. cbn [fst snd map temitted flat_map app].
              apply IH. constructor; try reflexivity; auto; try (intros; discriminate).
              exists P1, P2. auto.
      * assert (E : rstep M (ql, qr, donel, doner) (RState (se_live false l1) [] false) now (ISrc 0%nat e)
                    = ((ql, qr, donel, doner), RState (se_live false l1) [] false, [])) by (destruct l1; reflexivity).
        rewrite E. cbn [fst snd map temitted flat_map app].
        apply IH. constructor; auto. exists P1, P2. auto.
    + (* the second source *)
      destruct l1.
      * cbn [negb] in Hdr. subst doner. destruct e as [x|err|].
        -- (* on_next2 *)
           destruct ql as [|v t].
           ++ rewrite app_nil_r in HL. subst R L. rewrite <- app_assoc.
              rewrite <- (app_nil_r P1) at 1. rewrite decide_cancel, decide_l_nil, ltb_0_snoc by assumption.
              rewrite andb_true_r, andb_false_r.
              destruct l0; cbn [negb] in *; subst donel.
              ** assert (E : rstep M ([], qr, false, false) (RState (se_live true true) [] false) now (ISrc 1%nat (Next x))
                            = (([], qr ++ [x], false, false), RState (se_live true true) [] false, [])) by reflexivity.
                 rewrite E. cbn [fst snd map temitted flat_map app].
                 apply IH. constructor; try reflexivity; try (intros; discriminate); auto.
                 exists P1, P2. rewrite app_nil_r. auto.
              ** term_step (@nil A, qr, true, false) (RState (se_live false true) [] false) now (ISrc 1%nat (Next x)) pos.
           ++ assert (qr = []) as -> by (destruct Hone as [H|H]; [discriminate|exact H]).
              rewrite app_nil_r in HR. subst L R.
              rewrite decide_cancel by assumption.
              unfold se_decide, agree. cbn [app combine forallb fst snd length negb andb].
              rewrite combine_nil. cbn [forallb]. rewrite andb_true_r.
              destruct (eqb v x) eqn:Evx; cbn [negb].
              ** replace (negb l0 && Nat.ltb (S (length t)) 1) with false
                   by (rewrite andb_comm; destruct (length t); reflexivity).
                 rewrite andb_false_r.
                 assert (E : rstep M (v :: t, [], donel, false) (RState (se_live l0 true) [] false) now (ISrc 1%nat (Next x))
                            = ((t, [], donel, false), RState (se_live l0 true) [] false, [])).
                 { unfold rstep. cbn -[se_live]. unfold pure2. rewrite Evx. destruct l0; reflexivity. }
                 rewrite E. cbn [fst snd map temitted flat_map app].
                 replace (P1 ++ v :: t) with ((P1 ++ [v]) ++ t) by now rewrite <- app_assoc.
                 apply IH. constructor; try reflexivity; auto; try (intros; discriminate).
                 exists (P1 ++ [v]), (P2 ++ [x]). rewrite app_nil_r. repeat split.
                 --- rewrite !app_length. cbn. lia.
                 --- rewrite agree_app, Hag by assumption. unfold agree. cbn. now rewrite Evx.
              ** destruct (rstep_fin M (v :: t, [], donel, false) (RState (se_live l0 true) [] false) now
                             (ISrc 1%nat (Next x)) pos) as [E1 E2];
                   [reflexivity|destruct l0; reflexivity|cbn; unfold pure2; rewrite Evx; discriminate|].
                 rewrite E1, (run_from_stopped _ _ _ _ _ E2). cbn. unfold pure2. rewrite Evx. reflexivity.
        -- destruct (rstep_fin M (ql, qr, donel, false) (RState (se_live l0 true) [] false) now
                       (ISrc 1%nat (@Err A err)) pos) as [E1 E2];
             [reflexivity|destruct l0; reflexivity|cbn; discriminate|].
           rewrite E1, (run_from_stopped _ _ _ _ _ E2). reflexivity.
        -- (* on_completed2 *)
           subst L R. rewrite decide_cancel by assumption.
           destruct qr as [|a qr'].
           ++ rewrite decide_r_nil. cbn [andb].
              destruct ql as [|v t].
              ** cbn [length Nat.ltb Nat.leb]. rewrite andb_true_r.
                 destruct l0; cbn [negb] in *; subst donel.
                 --- assert (E : rstep M ([], [], false, false) (RState (se_live true true) [] false) now (ISrc 1%nat Done)
                               = (([], [], false, true), RState (se_live true false) [] false, [OUnsub 1%nat])) by reflexivity.
                     rewrite E. cbn [fst snd map temitted flat_map app].
                     apply IH. constructor; try reflexivity; auto; try (intros; discriminate).
                     exists P1, P2. auto.
                 --- term_step (@nil A, @nil A, true, false) (RState (se_live false true) [] false) now (ISrc 1%nat (@Done A)) pos.
              ** cbn [length Nat.ltb Nat.leb].
                 destruct (rstep_fin M (v :: t, [], donel, false) (RState (se_live l0 true) [] false) now
                             (ISrc 1%nat (@Done A)) pos) as [E1 E2];
                   [reflexivity|destruct l0; reflexivity|cbn; discriminate|].
                 rewrite E1, (run_from_stopped _ _ _ _ _ E2). reflexivity.
           ++ assert (ql = []) as -> by (destruct Hone as [H|H]; [exact H|discriminate]).
              assert (donel = false) as -> by (destruct donel; [specialize (Hl eq_refl); discriminate|reflexivity]).
              rewrite decide_l_nil. destruct l0; [|discriminate]. cbn [negb andb].
              assert (E : rstep M ([], a :: qr', false, false) (RState (se_live true true) [] false) now (ISrc 1%nat Done)
                         = (([], a :: qr', false, true), RState (se_live true false) [] false, [OUnsub 1%nat])) by reflexivity.
              rewrite E. cbn [fst snd map temitted flat_map app].
              apply IH. constructor; try reflexivity; auto; try (intros; discriminate).
              exists P1, P2. auto.
      * assert (E : rstep M (ql, qr, donel, doner) (RState (se_live l0 false) [] false) now (ISrc 1%nat e)
                    = ((ql, qr, donel, doner), RState (se_live l0 false) [] false, [])) by (destruct l0; reflexivity).
        rewrite E. cbn [fst snd map temitted flat_map app].
        apply IH. constructor; auto. exists P1, P2. auto.
    + assert (E : rstep M (ql, qr, donel, doner) (RState (se_live l0 l1) [] false) now (ISrc (S (S k2)) e)
                  = ((ql, qr, donel, doner), RState (se_live l0 l1) [] false, [])) by (destruct l0, l1; reflexivity).
      rewrite E. cbn [fst snd map temitted flat_map app].
      apply IH. constructor; auto. exists P1, P2. auto.
  - assert (E : rstep M (ql, qr, donel, doner) (RState (se_live l0 l1) [] false) now (ITick tag)
                = ((ql, qr, donel, doner), RState (se_live l0 l1) [] false, [])) by reflexivity.
    rewrite E. cbn [fst snd map temitted flat_map app].
    apply IH. constructor; auto. exists P1, P2. auto.
  - unfold rstep. cbn [r_stopped x_sequence_equal x_step apply_cmds fst snd].
    rewrite run_from_stopped by reflexivity. cbn [fst]. rewrite app_nil_r.
    cbn [filter app]. apply release_temitted.
Qed.
(* for EVERY interleaving of the two sources' notifications (well-formed or not, with
   dispose, with notifications of sources that are no longer subscribed) *)
Theorem sequence_equal_refines_spec (ins : list (Z * inp A)) :
  temitted (fst (run M ins)) = se_spec [] [] true true 1 ins.
Proof.
  rewrite run_unfold. cbn [fst]. rewrite temitted_app'.
  unfold start_state, start_obs. cbn -[run_from se_spec temitted].
  change (RState [0%nat; 1%nat] [] false) with (RState (se_live true true) [] false).
  rewrite (seq_equal_from ins [] [] true true [] [] false false 1); [reflexivity|].
  constructor; try reflexivity; auto; try (intros; discriminate).
  exists [], []. auto.
Qed.

(* the answer true is given exactly when both sides are complete, equally long and pairwise equal *)
Lemma agree_length_Forall2 (L R : list A) :
  agree L R = true /\ length L = length R <-> Forall2 (fun a b => eqb a b = true) L R.
Proof.
  revert R. induction L as [|a L IH]; intros [|b R]; cbn.
  - split; [constructor|auto].
  - split; [intros [_ H]; discriminate|intros H; inversion H].
  - split; [intros [_ H]; discriminate|intros H; inversion H].
  - unfold agree in *. cbn [combine forallb fst snd]. split.
    + intros [H1 H2]. apply andb_true_iff in H1. destruct H1 as [H1 H3].
      constructor; [exact H1|]. apply IH. split; [exact H3|lia].
    + intros H. inversion H as [|? ? ? ? Hab Hrest]; subst. apply IH in Hrest. destruct Hrest as [H1 H2].
      rewrite Hab, H1. split; [reflexivity|lia].
Qed.

Theorem se_decide_true_iff (L R : list A) dl dr :
  se_decide L R dl dr = Some true
  <-> dl = true /\ dr = true /\ Forall2 (fun a b => eqb a b = true) L R.
Proof.
  rewrite <- agree_length_Forall2. unfold se_decide.
  destruct (agree L R); cbn [negb].
  - destruct dl, dr; cbn [andb];
      destruct (Nat.ltb_spec (length L) (length R)), (Nat.ltb_spec (length R) (length L));
      split; try discriminate; try (intros (? & ? & ? & ?); (discriminate || lia));
      intros _; repeat split; lia.
  - split; [discriminate|]. intros (_ & _ & H & _). discriminate.
Qed.

(* the answer false needs a reason: a differing pair, or a complete side that is shorter *)
Theorem se_decide_false_iff (L R : list A) dl dr :
  se_decide L R dl dr = Some false
  <-> agree L R = false
      \/ (dl = true /\ (length L < length R)%nat)
      \/ (dr = true /\ (length R < length L)%nat).
Proof.
  unfold se_decide. destruct (agree L R); cbn [negb].
  - destruct dl, dr; cbn [andb];
      destruct (Nat.ltb_spec (length L) (length R)), (Nat.ltb_spec (length R) (length L));
      (split; [intros HH; try discriminate;
                 first [right; left; split; [reflexivity|lia] | right; right; split; [reflexivity|lia]]
              |intros [HH|[[HH1 HH2]|[HH1 HH2]]]; first [reflexivity | discriminate | lia]]).
  - split; auto.
Qed.
End SeqEqualFacts.
