(* C41: run() as reactivex/run.py computes it -- a model of its own, independent of the
   to_future model of Ops/Bridges.v (no proofs here; Ops/BridgesFacts2.v proves it equal to
   [run_outcome] for ALL notification sequences).

   run.py:
       exception = None; latch = threading.Event(); has_result = False
       result = cast(_T, None); done = False
       on_next(value):  result = value; has_result = True
       on_error(error): exception = error; done = True; latch.set()
       on_completed():  done = True; latch.set()
       source.subscribe(on_next, on_error, on_completed, scheduler=scheduler)
       while not done: latch.wait()
       if exception is not None: raise exception
       if not has_result: raise SequenceContainsNoElementsError
       return result
   The three callbacks are wrapped by subscribe() into an AutoDetachObserver: after
   on_error / on_completed it is stopped and drops every later call ([r_stopped]).
   The also modelled `from_callback` with the mapper an ARBITRARY function is below. *)
From RxVerif Require Import Base.Prelude Base.CaseLib Ops.Machine Ops.Bridges.

(* placeholder for `cast(_T, None)`: never returned (has_result is False while it is there) *)
Definition RESULT_UNSET : Z := 0.

Record rstate := mkR {
  r_result : Z;            (* result *)
  r_has : bool;            (* has_result *)
  r_exn : option Z;        (* exception (None = Python None) *)
  r_done : bool;           (* done; the latch is set exactly when done becomes True *)
  r_stopped : bool         (* AutoDetachObserver.is_stopped of the subscription made by run() *)
}.

Definition r_init : rstate := mkR RESULT_UNSET false None false false.

Definition rm_step (s : rstate) (e : ev Z) : rstate :=
  if r_stopped s then s
  else match e with
       | Next v => mkR v true (r_exn s) (r_done s) false
       | Err x => mkR (r_result s) (r_has s) (Some x) true true
       | Done => mkR (r_result s) (r_has s) (r_exn s) true true
       end.

(* the caller, after `while not done: latch.wait()` *)
Definition rm_final (s : rstate) : outcome :=
  if negb (r_done s) then Blocks
  else match r_exn s with
       | Some x => Raises x                          (* `exception is not None` *)
       | None => if negb (r_has s) then Raises NO_ELEMENTS else Returns (r_result s)
       end.

Definition run_model (ins : list (ev Z)) : outcome := rm_final (fold_left rm_step ins r_init).

(* ---- fromcallback.py with the mapper an arbitrary function (the four [mapper] constructors
   of Ops/Bridges.v are instances, Ops/BridgesFacts2.v) ---------------------------------------- *)
Definition handler_notes_fn (m : option (list Z -> res Z)) (k : nat) (args : list Z) : list (nat * ev bval) :=
  match m with
  | Some mp => match mp args with
               | Ok v => [(k, Next (VOne v)); (k, Done)]
               | Raise e => [(k, Err e)]
               end
  | None => [(k, Next (match args with [] => VNone | [x] => VOne x | _ => VList args end)); (k, Done)]
  end.

Fixpoint fc_run_fn (m : option (list Z -> res Z)) (stopped : bool) (invs : list (nat * list Z)) : list (nat * ev bval) :=
  match invs with
  | [] => []
  | (k, args) :: rest => if stopped then fc_run_fn m stopped rest else handler_notes_fn m k args ++ fc_run_fn m true rest
  end.

Definition from_callback_fn (m : option (list Z -> res Z)) (invs : list (nat * list Z)) : list (nat * ev bval) :=
  fc_run_fn m false invs.
