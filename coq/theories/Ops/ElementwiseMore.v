(* C05, additions: direct specification of dematerialize, take_while_indexed,
   skip_while_indexed (as the code composes it), and starmap / pluck as the
   instances of map that the code builds. *)
From RxVerif Require Import Base.Prelude Base.PreludeFacts Ops.Machine Ops.MachineFacts Ops.ComposeFacts
  Ops.Elementwise Ops.ElementwiseFacts.

Section More.
Context {A : Type}.

(* ---- dematerialize: the ELEMENTS are notifications ------------------------------
   OnNext x is passed on; the first OnError / OnCompleted element ends the output
   at its own position and everything behind it is dropped; otherwise the source's
   own terminal ends it *)
Fixpoint demat_list (k : nat) (ns : list (ev A)) (t : term) : list (nat * ev A) :=
  match ns with
  | [] => tterm k t
  | Next x :: r => (k, Next x) :: demat_list (S k) r t
  | Err e :: _ => [(k, Err e)]
  | Done :: _ => [(k, Done)]
  end.

Lemma dematerialize_from (ns : list (ev A)) t : forall k,
  exec_from op_dematerialize tt k (events ns t) = demat_list k ns t.
Proof.
  induction ns as [|n r IH]; intros k.
  - destruct t; reflexivity.
  - rewrite events_cons, exec_from_cons. destruct n as [x|e|]; cbn -[exec_from].
    + now rewrite IH.
    + reflexivity.
    + reflexivity.
Qed.

Theorem dematerialize_spec (ns : list (ev A)) t :
  exec op_dematerialize (events ns t) = demat_list 1 ns t.
Proof. unfold exec. cbn -[exec_from]. apply dematerialize_from. Qed.

(* ---- take_while_indexed ---------------------------------------------------------- *)
Fixpoint takewhile_i (p : A -> nat -> bool) (i : nat) (l : list (nat * A)) : list (nat * A) :=
  match l with [] => [] | kx :: t => if p (snd kx) i then kx :: takewhile_i p (S i) t else [] end.
Fixpoint first_failing_i (p : A -> nat -> bool) (i : nat) (l : list (nat * A)) : option (nat * A) :=
  match l with [] => None | kx :: t => if p (snd kx) i then first_failing_i p (S i) t else Some kx end.

Lemma take_while_indexed_from (p : A -> nat -> bool) inclusive (xs : list A) t : forall i k,
  exec_from (op_take_while_indexed (pure2 p) inclusive) (true, i) k (events xs t)
  = nexts (takewhile_i p i (indexed k xs)) ++
    match first_failing_i p i (indexed k xs) with
    | Some (j, x) => (if inclusive then [(j, Next x)] else []) ++ [(j, Done)]
    | None => tterm (k + length xs) t
    end.
Proof.
  induction xs as [|x r IH]; intros i k.
  - term_case t.
  - step_cons. unfold pure2. destruct (p x i); cbn -[exec_from].
    + rewrite IH. now rewrite <- ?plus_n_Sm.
    + destruct inclusive; reflexivity.
Qed.

Theorem take_while_indexed_spec (p : A -> nat -> bool) inclusive (xs : list A) t :
  exec (op_take_while_indexed (pure2 p) inclusive) (events xs t)
  = nexts (takewhile_i p 0 (indexed 1 xs)) ++
    match first_failing_i p 0 (indexed 1 xs) with
    | Some (j, x) => (if inclusive then [(j, Next x)] else []) ++ [(j, Done)]
    | None => tterm (S (length xs)) t
    end.
Proof. unfold exec. cbn -[exec_from]. apply take_while_indexed_from. Qed.
End More.

(* ---- skip_while_indexed = map_indexed(pair) ; skip_while ; map(first) ------------- *)
Section SkipWhileIndexed.
Context {A : Type}.

Fixpoint dropwhile_i (p : A -> nat -> bool) (i : nat) (l : list A) : list A :=
  match l with [] => [] | x :: t => if p x i then dropwhile_i p (S i) t else l end.

Lemma untag_nexts_tterm {B} (l : list (nat * B)) k t :
  untag (nexts l ++ tterm k t) = events (map snd l) t.
Proof.
  rewrite untag_app. unfold untag, nexts, events. rewrite !map_map. cbn [fst snd].
  f_equal. destruct t; reflexivity.
Qed.

Lemma map_indexed_untag {B} (f : A -> nat -> B) (xs : list A) t :
  untag (exec (op_map_indexed (pure2 f)) (events xs t)) = events (mapi_from 0 f xs) t.
Proof. now rewrite map_indexed_spec, untag_nexts_tterm, map_snd_indexed. Qed.

Lemma map_untag' {B C} (f : B -> C) (ys : list B) t :
  untag (exec (op_map (pure f)) (events ys t)) = events (map f ys) t.
Proof. now rewrite map_spec, untag_nexts_tterm, map_snd_indexed. Qed.

Lemma dropwhile_plain {B} (q : B -> bool) (ys : list B) : forall k,
  map snd (dropwhile q (indexed k ys)) = (fix dw (l : list B) := match l with [] => [] | y :: r => if q y then dw r else l end) ys.
Proof.
  induction ys as [|y r IH]; intros k; cbn [indexed dropwhile snd]; [reflexivity|].
  destruct (q y); [apply IH|]. cbn [map snd]. now rewrite map_snd_indexed.
Qed.

Lemma dropwhile_pairs (p : A -> nat -> bool) (xs : list A) : forall i,
  map fst ((fix dw (l : list (A * nat)) := match l with [] => [] | y :: r => if p (fst y) (snd y) then dw r else l end)
             (mapi_from i (fun x j => (x, j)) xs))
  = dropwhile_i p i xs.
Proof.
  induction xs as [|x r IH]; intros i; cbn [mapi_from dropwhile_i fst snd]; [reflexivity|].
  destruct (p x i); [apply IH|]. cbn [map fst]. f_equal.
  clear. generalize (S i). induction r as [|y r IH]; intros j; cbn; [reflexivity|now rewrite IH].
Qed.

(* elements are dropped while the predicate, seeing the element and its index, holds;
   from the first failing element on everything passes (the predicate is not asked again) *)
Theorem skip_while_indexed_spec (p : A -> nat -> bool) (xs : list A) t :
  untag (exec (op_skip_while_indexed (pure2 p)) (events xs t)) = events (dropwhile_i p 0 xs) t.
Proof.
  unfold op_skip_while_indexed. rewrite !compose_exec.
  change (fun (x : A) (i : nat) => Ok (x, i)) with (pure2 (fun (x : A) (i : nat) => (x, i))).
  rewrite map_indexed_untag.
  change (fun xi : A * nat => pure2 p (fst xi) (snd xi)) with (pure (fun xi : A * nat => p (fst xi) (snd xi))).
  rewrite skip_while_spec, untag_nexts_tterm, dropwhile_plain.
  change (fun xi : A * nat => Ok (fst xi)) with (pure (fun xi : A * nat => fst xi)).
  rewrite map_untag'. now rewrite dropwhile_pairs.
Qed.
End SkipWhileIndexed.

(* ---- starmap and pluck are the maps the code builds ------------------------------
   operators/__init__.py: starmap(mapper) = map(starred), starred(values) = mapper applied to the unpacked values;
   _pluck.py: pluck(key) = map(lambda x: x[key]).  Elements: pairs / association lists. *)
Section StarPluck.
Context {A B C : Type}.

Definition op_starmap (f : A -> B -> res C) : mealy (A * B) C := op_map (fun ab => f (fst ab) (snd ab)).

Theorem starmap_spec (f : A -> B -> C) (xs : list (A * B)) t :
  exec (op_starmap (pure2 f)) (events xs t)
  = nexts (indexed 1 (map (fun ab => f (fst ab) (snd ab)) xs)) ++ tterm (S (length xs)) t.
Proof. unfold op_starmap. exact (map_spec (fun ab : A * B => f (fst ab) (snd ab)) xs t). Qed.

(* lookup in a dict rendered as an association list; a missing key raises [exn] (KeyError) *)
Definition lookup (keq : A -> A -> bool) (key : A) (exn : Z) (d : list (A * B)) : res B :=
  match find (fun kv => keq (fst kv) key) d with Some kv => Ok (snd kv) | None => Raise exn end.
Definition op_pluck (keq : A -> A -> bool) (key : A) (exn : Z) : mealy (list (A * B)) B :=
  op_map (lookup keq key exn).

(* as long as every element has the key, pluck is the list of the looked-up values *)
Theorem pluck_spec keq (key : A) exn (ds : list (list (A * B))) (vs : list B) t :
  Forall2 (fun d v => lookup keq key exn d = Ok v) ds vs ->
  untag (exec (op_pluck keq key exn) (events ds t)) = events vs t.
Proof.
  intros H. unfold op_pluck, exec. cbn -[exec_from untag].
  generalize 1%nat. induction H as [|d v ds vs Hd _ IH]; intros k.
  - destruct t; reflexivity.
  - rewrite events_cons, exec_from_cons. cbn -[exec_from untag]. rewrite Hd. cbn -[exec_from untag].
    change (untag ((k, Next v) :: ?l)) with (Next v :: untag l). f_equal. apply IH.
Qed.

(* the first element without the key ends the output with the lookup error at its position *)
Theorem pluck_missing keq (key : A) exn (ds : list (list (A * B))) (vs : list B) d rest t :
  Forall2 (fun d v => lookup keq key exn d = Ok v) ds vs -> lookup keq key exn d = Raise exn ->
  untag (exec (op_pluck keq key exn) (events (ds ++ d :: rest) t)) = map Next vs ++ [Err exn].
Proof.
  intros H Hd. unfold op_pluck, exec. cbn -[exec_from untag].
  generalize 1%nat. induction H as [|d0 v ds vs Hd0 _ IH]; intros k.
  - cbn [app]. rewrite events_cons, exec_from_cons. cbn -[exec_from untag]. rewrite Hd. reflexivity.
  - cbn [app]. rewrite events_cons, exec_from_cons. cbn -[exec_from untag]. rewrite Hd0. cbn -[exec_from untag].
    change (untag ((k, Next v) :: ?l)) with (Next v :: untag l). f_equal. apply IH.
Qed.
End StarPluck.
