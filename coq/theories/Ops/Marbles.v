(* C38 -- marble diagrams.  Executable model of
     reactivex/observable/marbles.py : parse   (and what from_marbles / hot do with its result)
   as the code is, quirks included.  No proofs here (Ops/MarblesFacts.v).

   Strings are [list ascii] (ASCII; the documented alphabet).  The value of an
   element (number parsing, then the lookup table) is a parameter [valof] of the
   parser: the theorems hold for every such function; the concrete Python
   int()/float() reading used by the correspondence is in Ops/MarbleNumbers.v. *)
From Coq Require Import List Ascii String Bool Arith.
Import ListNotations.
Open Scope char_scope.
Open Scope list_scope.

Definition str := list ascii.
Definition ch_eqb : ascii -> ascii -> bool := Ascii.eqb.
Definition newline : ascii := ascii_of_nat 10.

Fixpoint str_eqb (a b : str) : bool :=
  match a, b with
  | [], [] => true
  | x :: r, y :: s => ch_eqb x y && str_eqb r s
  | _, _ => false
  end.

(* marbles.py: string = string.replace(" ", "") *)
Definition remove_spaces (s : str) : str := filter (fun c => negb (ch_eqb c " ")) s.

(* ---- the regular expression  (\(.*?\))|(-+)|(,)|(#|\||[^-,()#\|]+)  with findall -------- *)
Inductive token :=
| TGroup (content : str)      (* ( content )   content without the parentheses *)
| TTicks (n : nat)            (* n >= 1 hyphens *)
| TComma
| TElem (s : str).            (* "#", "|" or a run of other characters *)

(* [^-,()#\|] *)
Definition elem_char (c : ascii) : bool :=
  negb (ch_eqb c "-" || ch_eqb c "," || ch_eqb c "(" || ch_eqb c ")" || ch_eqb c "#" || ch_eqb c "|").
Definition is_dash (c : ascii) : bool := ch_eqb c "-".

Fixpoint span (p : ascii -> bool) (s : str) : str * str :=
  match s with
  | [] => ([], [])
  | c :: r => if p c then let (a, b) := span p r in (c :: a, b) else ([], s)
  end.

(* .*?\)  : up to the first ")" ; "." does not match a newline *)
Fixpoint find_close (s : str) : option (str * str) :=
  match s with
  | [] => None
  | c :: r =>
    if ch_eqb c ")" then Some ([], r)
    else if ch_eqb c newline then None
    else match find_close r with Some (a, b) => Some (c :: a, b) | None => None end
  end.

(* findall: at each position the alternatives in order; a position where none
   matches -- an unmatched "(" or ")" -- is skipped WITHOUT producing a token *)
Fixpoint lex_aux (fuel : nat) (s : str) : list token :=
  match fuel with
  | O => []
  | S f =>
    match s with
    | [] => []
    | c :: r =>
      if ch_eqb c "(" then
        match find_close r with
        | Some (content, rest) => TGroup content :: lex_aux f rest
        | None => lex_aux f r
        end
      else if ch_eqb c "-" then
        let (t, rest) := span is_dash r in TTicks (S (List.length t)) :: lex_aux f rest
      else if ch_eqb c "," then TComma :: lex_aux f r
      else if ch_eqb c "#" then TElem [c] :: lex_aux f r
      else if ch_eqb c "|" then TElem [c] :: lex_aux f r
      else if ch_eqb c ")" then lex_aux f r
      else let (t, rest) := span elem_char r in TElem (c :: t) :: lex_aux f rest
    end
  end.
Definition lex (s : str) : list token := lex_aux (List.length s) s.

(* str.split(",") *)
Fixpoint split_comma (s : str) : list str :=
  match s with
  | [] => [[]]
  | c :: r =>
    let rs := split_comma r in
    if ch_eqb c "," then [] :: rs
    else match rs with h :: t => (c :: h) :: t | [] => [[c]] end
  end.

Definition is_term (e : str) : bool := str_eqb e ["#"] || str_eqb e ["|"].
Definition nonempty (e : str) : bool := match e with [] => false | _ => true end.

Inductive perr := ErrComma | ErrStopped.     (* the two ValueErrors of parse *)

Section Parse.
  Variable V : Type.
  Variable valof : str -> V.        (* lookup_.get(try_number(element), try_number(element)) *)

  Inductive notif := NNext (v : V) | NError | NCompleted.

  (* map_element *)
  Definition map_element (frame : nat) (e : str) : nat * notif :=
    if str_eqb e ["|"] then (frame, NCompleted)
    else if str_eqb e ["#"] then (frame, NError)
    else (frame, NNext (valof e)).

  (* check_stopped; None = raise ValueError("Elements cannot be declared after a # or | symbol.") *)
  Definition check (rs stopped : bool) (e : str) : option bool :=
    if rs then (if stopped then None else Some (is_term e)) else Some stopped.
  Fixpoint check_all (rs stopped : bool) (es : list str) : option bool :=
    match es with
    | [] => Some stopped
    | e :: r => match check rs stopped e with Some st => check_all rs st r | None => None end
    end.

  (* the loop over tokens.findall; frames are counted in characters; the
     timestamp of a frame is  frame * timespan + time_shift  (computed by the caller) *)
  Fixpoint parse_tokens (rs : bool) (toks : list token) (iframe : nat) (stopped : bool)
    : perr + list (nat * notif) :=
    match toks with
    | [] => inr []
    | TGroup content :: r =>
      let es := split_comma content in
      match check_all rs stopped es with
      | None => inl ErrStopped
      | Some st =>
        match parse_tokens rs r (iframe + (2 + List.length content)) st with
        | inl e => inl e
        | inr ms => inr (map (map_element iframe) (filter nonempty es) ++ ms)
        end
      end
    | TTicks n :: r => parse_tokens rs r (iframe + n) stopped
    | TComma :: _ => inl ErrComma
    | TElem e :: r =>
      match check rs stopped e with
      | None => inl ErrStopped
      | Some st =>
        match parse_tokens rs r (iframe + List.length e) st with
        | inl err => inl err
        | inr ms => inr (map_element iframe e :: ms)
        end
      end
    end.

  (* parse(string, raise_stopped=rs): (frame, notification) list or ValueError *)
  Definition parse_model (rs : bool) (s : str) : perr + list (nat * notif) :=
    parse_tokens rs (lex (remove_spaces s)) 0 false.

  (* ---- diagrams: an abstract syntax for the documented notation -------------------- *)
  Inductive item :=
  | ITicks (n : nat)             (* n hyphens *)
  | IElem (s : str)              (* a value marble, possibly several characters *)
  | IEnd                         (* | *)
  | IErr                         (* # *)
  | IGroup (es : list str).      (* (e1,e2,...) *)

  Fixpoint join_comma (es : list str) : str :=
    match es with
    | [] => []
    | [e] => e
    | e :: r => e ++ "," :: join_comma r
    end.
  Definition render_item (i : item) : str :=
    match i with
    | ITicks n => repeat "-" n
    | IElem s => s
    | IEnd => ["|"]
    | IErr => ["#"]
    | IGroup es => "(" :: join_comma es ++ [")"]
    end.
  Definition render (d : list item) : str := flat_map render_item d.

  (* well-formed: what the documentation allows to be written *)
  Definition value_char (c : ascii) : bool := elem_char c && negb (ch_eqb c " ").
  Definition group_char (c : ascii) : bool :=
    negb (ch_eqb c "," || ch_eqb c ")" || ch_eqb c newline || ch_eqb c " ").
  Definition nonempty_list (es : list str) : bool := match es with [] => false | _ => true end.
  Definition wf_item (i : item) : bool :=
    match i with
    | ITicks n => Nat.leb 1 n
    | IElem s => nonempty s && forallb value_char s
    | IEnd | IErr => true
    | IGroup es => nonempty_list es && forallb (forallb group_char) es
    end.
  (* two adjacent runs of hyphens, or two adjacent values, would read as one *)
  Definition adj_ok (i j : item) : bool :=
    match i, j with
    | ITicks _, ITicks _ => false
    | IElem _, IElem _ => false
    | _, _ => true
    end.
  Fixpoint wf (d : list item) : bool :=
    match d with
    | [] => true
    | i :: r => wf_item i && match r with [] => true | j :: _ => adj_ok i j end && wf r
    end.

  (* what a diagram means: every item starts at the index of its first character *)
  Definition msgs_of_item (start : nat) (i : item) : list (nat * notif) :=
    match i with
    | ITicks _ => []
    | IElem s => [map_element start s]
    | IEnd => [(start, NCompleted)]
    | IErr => [(start, NError)]
    | IGroup es => map (map_element start) (filter nonempty es)
    end.
  (* (items before, item) for every item *)
  Fixpoint splits (d : list item) : list (list item * item) :=
    match d with
    | [] => []
    | i :: r => ([], i) :: map (fun pi => (i :: fst pi, snd pi)) (splits r)
    end.
  Definition denote (d : list item) : list (nat * notif) :=
    flat_map (fun pi => msgs_of_item (List.length (render (fst pi))) (snd pi)) (splits d).

  (* the elements check_stopped sees, in order (empty group members included) *)
  Definition elements_of (i : item) : list str :=
    match i with
    | ITicks _ => []
    | IElem s => [s]
    | IEnd => [["|"]]
    | IErr => [["#"]]
    | IGroup es => es
    end.
  (* nothing may follow a terminal element *)
  Fixpoint stop_ok (es : list str) : bool :=
    match es with
    | [] => true
    | e :: r => if is_term e then (match r with [] => true | _ => false end) else stop_ok r
    end.

  Definition is_terminal (m : nat * notif) : bool :=
    match snd m with NNext _ => false | _ => true end.

  (* ---- delivery by a virtual-time scheduler ------------------------------------------ *)
  (* from_marbles: every message is scheduled at subscription, relative; the
     scheduler runs actions by (due time, insertion order) *)
  Fixpoint insert_stable (m : nat * notif) (l : list (nat * notif)) : list (nat * notif) :=
    match l with
    | [] => [m]
    | x :: r => if Nat.ltb (fst m) (fst x) then m :: l else x :: insert_stable m r
    end.
  Definition run_order (ms : list (nat * notif)) : list (nat * notif) :=
    fold_left (fun acc m => insert_stable m acc) ms [].
  (* an observer is detached by the first terminal notification *)
  Fixpoint upto_terminal (ms : list (nat * notif)) : list (nat * notif) :=
    match ms with
    | [] => []
    | m :: r => if is_terminal m then [m] else m :: upto_terminal r
    end.
  Definition cold_delivery (ms : list (nat * notif)) : list (nat * notif) := upto_terminal (run_order ms).
  (* hot: scheduled at creation; an observer subscribing at frame time [sub] by an
     action enqueued after the messages sees what runs strictly later *)
  Definition hot_delivery (sub : nat) (ms : list (nat * notif)) : list (nat * notif) :=
    upto_terminal (filter (fun m => Nat.ltb sub (fst m)) (run_order ms)).
End Parse.

Arguments NNext {V} v.
Arguments NError {V}.
Arguments NCompleted {V}.
