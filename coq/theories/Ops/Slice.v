(* C07: list-level semantics of the operators used by [slice_], the plan
   language the translator emits, and the specification of Python slicing. *)
From RxVerif Require Import Base.Prelude.

Section Slice.
Context {A : Type}.

(* take_last(count): keep a queue of at most [count] elements (code: append,
   then pop(0) when len > count), drained on completion. *)
Definition take_last_push (count : Z) (q : list A) (x : A) : list A :=
  let q' := q ++ [x] in if zlen q' >? count then tl q' else q'.
Definition take_last (count : Z) (l : list A) : list A :=
  fold_left (take_last_push count) l [].

(* skip_last(count): append to the queue, emit the front when len > count *)
Definition skip_last_step (count : Z) (st : list A * list A) (x : A) : list A * list A :=
  let '(q, out) := st in
  let q' := q ++ [x] in
  if zlen q' >? count then (tl q', out ++ firstn 1 q') else (q', out).
Definition skip_last (count : Z) (l : list A) : list A :=
  snd (fold_left (skip_last_step count) l ([], [])).

(* filter_indexed(lambda x, i: i % step == 0) *)
Fixpoint every_nth_from (i : Z) (step : Z) (l : list A) : list A :=
  match l with
  | [] => []
  | x :: t => if i mod step =? 0 then x :: every_nth_from (i + 1) step t
              else every_nth_from (i + 1) step t
  end.
Definition every_nth (step : Z) (l : list A) : list A := every_nth_from 0 step l.
End Slice.

(* The plan language: each constructor is one [pipeline.append(ops.X(..))] the
   translator recognises in _slice.py.  Plans run over index-tagged elements
   so that map_indexed(lambda x, i: (i, x)) / filter(ix[0] < n) / map(ix[1])
   are expressible; an untagged element carries tag 0. *)
Inductive pop :=
| PTake (n : Z) | PSkip (n : Z) | PTakeLast (n : Z) | PSkipLast (n : Z)
| PEveryNth (n : Z)
| PTagIndex            (* map_indexed(lambda x, i: (i, x)) *)
| PFilterTagLt (n : Z) (* filter(lambda ix: ix[0] < n) *)
| PUntag.              (* map(lambda ix: ix[1]) *)

Fixpoint tag_from {A} (i : Z) (l : list (Z * A)) : list (Z * A) :=
  match l with
  | [] => []
  | (_, x) :: t => (i, x) :: tag_from (i + 1) t
  end.

Definition run_pop {A} (p : pop) (l : list (Z * A)) : list (Z * A) :=
  match p with
  | PTake n => ztake n l
  | PSkip n => zskip n l
  | PTakeLast n => take_last n l
  | PSkipLast n => skip_last n l
  | PEveryNth n => every_nth n l
  | PTagIndex => tag_from 0 l
  | PFilterTagLt n => filter (fun ix => fst ix <? n) l
  | PUntag => map (fun ix => (0, snd ix)) l
  end.

Definition run_plan {A} (plan : list pop) (l : list A) : list A :=
  map snd (fold_left (fun acc p => run_pop p acc) plan (map (fun x => (0, x)) l)).

(* take(count) and skip(count) raise ArgumentOutOfRangeException for a negative
   count when the operator is built; a plan is admissible when that cannot
   happen. *)
Definition pop_ok (p : pop) : bool :=
  match p with PTake n | PSkip n => 0 <=? n | _ => true end.

(* ---- specification: Python's list slicing for step >= 1 ------------------ *)
Definition clamp_index (n : Z) (i : Z) : Z :=
  if i <? 0 then Z.max 0 (n + i) else Z.min i n.

Definition py_slice {A} (l : list A) (start stop step : option Z) : list A :=
  let n := zlen l in
  let lo := match start with None => 0 | Some s => clamp_index n s end in
  let hi := match stop with None => n | Some s => clamp_index n s end in
  let st := match step with None => 1 | Some s => s end in
  every_nth st (firstn (Z.to_nat (hi - lo)) (skipn (Z.to_nat lo) l)).

(* an independent, index-based reading of the same thing: element i is kept
   iff lo <= i < hi and (i - lo) is a multiple of step *)
Fixpoint indexed_from {A} (i : Z) (l : list A) : list (Z * A) :=
  match l with [] => [] | x :: t => (i, x) :: indexed_from (i + 1) t end.
Definition py_slice_idx {A} (l : list A) (start stop step : option Z) : list A :=
  let n := zlen l in
  let lo := match start with None => 0 | Some s => clamp_index n s end in
  let hi := match stop with None => n | Some s => clamp_index n s end in
  let st := match step with None => 1 | Some s => s end in
  map snd (filter (fun ix => (lo <=? fst ix) && (fst ix <? hi) && ((fst ix - lo) mod st =? 0))
                  (indexed_from 0 l)).

Definition maxsize : Z := 9223372036854775807.

Definition obind {X Y} (o : option X) (f : X -> option Y) : option Y :=
  match o with Some x => f x | None => None end.
