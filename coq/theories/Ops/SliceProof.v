(* The proof that the plan GENERATED from _slice.py computes Python slicing. *)
From RxVerif Require Import Base.Prelude Base.PreludeFacts Ops.Slice Ops.SliceFacts Gen.SliceGen.

Definition step_ok (step : option Z) : Prop :=
  match step with None => True | Some s => 1 <= s end.

Lemma clamp_neg n i : i < 0 -> clamp_index n i = Z.max 0 (n + i).
Proof. intros H. unfold clamp_index. destruct (Z.ltb_spec i 0); [reflexivity|lia]. Qed.
Lemma clamp_pos n i : 0 <= i -> clamp_index n i = Z.min i n.
Proof. intros H. unfold clamp_index. destruct (Z.ltb_spec i 0); [lia|reflexivity]. Qed.

(* what the step part of the plan does *)
Lemma step_tail {A} (tl : list (Z * A)) (k : Z) (plan : list pop) :
  1 <= k ->
  map snd (run_tagged (plan ++ (if k >? 1 then [PEveryNth k] else [])) tl)
  = every_nth k (map snd (run_tagged plan tl)).
Proof.
  intros Hk. unfold run_tagged. rewrite fold_left_app.
  destruct (Z.gtb_spec k 1) as [H|H]; cbn [fold_left].
  - apply pop_every_nth.
  - replace k with 1 by lia. now rewrite every_nth_1.
Qed.

Ltac zbool :=
  repeat match goal with
  | H : (_ <? _) = true |- _ => apply Z.ltb_lt in H
  | H : (_ <? _) = false |- _ => apply Z.ltb_ge in H
  | H : (_ >? _) = true |- _ => rewrite Z.gtb_ltb in H; apply Z.ltb_lt in H
  | H : (_ >? _) = false |- _ => rewrite Z.gtb_ltb in H; apply Z.ltb_ge in H
  | H : (_ >=? _) = true |- _ => rewrite Z.geb_leb in H; apply Z.leb_le in H
  | H : (_ >=? _) = false |- _ => rewrite Z.geb_leb in H; apply Z.leb_gt in H
  | H : (_ <=? _) = true |- _ => apply Z.leb_le in H
  | H : (_ <=? _) = false |- _ => apply Z.leb_gt in H
  end.

Theorem slice_plan_correct {A} (l : list A) (start stop step : option Z) :
  zlen l <= maxsize -> step_ok step ->
  exists plan, slice_plan start stop step = Some plan
            /\ forallb pop_ok plan = true
            /\ run_plan plan l = py_slice l start stop step.
Proof.
  intros Hlen Hstep.
  set (s := match start with None => 0 | Some v => v end).
  set (e := match stop with None => maxsize | Some v => v end).
  set (k := match step with None => 1 | Some v => v end).
  assert (Hk : 1 <= k) by (subst k; destruct step; cbn in Hstep; lia).
  (* the specification in terms of the defaulted values *)
  assert (Hspec : py_slice l start stop step
                  = every_nth k (firstn (Z.to_nat (clamp_index (zlen l) e - clamp_index (zlen l) s))
                                        (skipn (Z.to_nat (clamp_index (zlen l) s)) l))).
  { unfold py_slice. subst s e k. destruct start, stop, step; try reflexivity;
      rewrite ?(clamp_pos (zlen l) maxsize), ?(clamp_pos (zlen l) 0) by (unfold maxsize; lia);
      rewrite ?Z.min_r by (unfold zlen in *; lia);
      rewrite ?Z.min_l by (unfold zlen in *; lia); reflexivity. }
  rewrite Hspec. clear Hspec.
  unfold slice_plan. fold s e k. cbv zeta.
  assert (Hn : zlen l = Z.of_nat (length l)) by reflexivity.
  destruct (s <? 0) eqn:Hs0; destruct (e >? 0) eqn:He2; destruct (e >=? 0) eqn:He0; cbn [andb obind app];
    destruct (s >? 0) eqn:Hs1; destruct (e <? 0) eqn:He1;
    destruct (k <? 0) eqn:Hk0; zbool; try lia; cbn [obind app];
    match goal with
    | |- exists plan, Some ?p = Some plan /\ _ => exists p
    | |- exists plan, obind _ _ = Some plan /\ _ => idtac
    end.
  all: match goal with
    | |- exists plan, obind (if ?kk >? 1 then Some _ else Some ?p0) _ = _ /\ _ =>
        exists (p0 ++ (if kk >? 1 then [PEveryNth kk] else []));
        split; [destruct (kk >? 1); reflexivity|]
    end.
  all: split;
    [ rewrite forallb_app; match goal with |- context [?kk >? 1] => destruct (kk >? 1) end; cbn [forallb pop_ok andb];
      rewrite ?andb_true_r; repeat (apply andb_true_intro; split);
      try reflexivity; apply Z.leb_le; lia
    | rewrite run_plan_tagged, step_tail by assumption; f_equal ].
  all: rewrite ?(clamp_neg _ s) by lia; rewrite ?(clamp_neg _ e) by lia;
       rewrite ?(clamp_pos _ s) by lia; rewrite ?(clamp_pos _ e) by lia.
  (* every branch is now a segment [firstn a (skipn b l)] of the source *)
  all: first
    [ rewrite pop_tagged_tail by lia; rewrite map_length, map_snd_tag0
    | unfold run_tagged; cbn [fold_left];
      rewrite ?pop_skip_last, ?pop_take_last by lia; rewrite ?pop_skip, ?pop_take;
      rewrite ?pop_skip_last, ?pop_take_last by lia; rewrite ?pop_skip, ?pop_take;
      rewrite map_snd_tag0 ].
  all: rewrite ?firstn_length, ?skipn_length, ?skipn_firstn_comm.
  all: first [ apply seg_eq; lia | apply seg_eq_l; lia | apply seg_nil; lia ].
Qed.

(* ---- the index-based reading of Python slicing -------------------------- *)
Lemma indexed_from_filter_seg {A} (l : list A) :
  forall i lo hi st, 1 <= st -> i <= lo ->
  map snd (filter (fun ix => (lo <=? fst ix) && (fst ix <? hi) && ((fst ix - lo) mod st =? 0))
                  (indexed_from i l))
  = every_nth_from 0 st (firstn (Z.to_nat (hi - lo)) (skipn (Z.to_nat (lo - i)) l)).
Proof.
  induction l as [|x t IH]; intros i lo hi st Hst Hi.
  - cbn. rewrite skipn_nil, firstn_nil. reflexivity.
  - cbn [indexed_from filter fst].
    destruct (Z.eq_dec i lo) as [->|Hne].
    + (* reached lo: from here on a plain strided take *)
      replace (Z.to_nat (lo - lo)) with 0%nat by lia. cbn [skipn].
      clear IH Hi.
      (* generalise: position j = offset from lo *)
      assert (G : forall (t : list A) j, 0 <= j ->
        map snd (filter (fun ix => (lo <=? fst ix) && (fst ix <? hi) && ((fst ix - lo) mod st =? 0))
                        (indexed_from (lo + j) t))
        = every_nth_from j st (firstn (Z.to_nat (hi - lo - j)) t)).
      { clear x t. induction t as [|y t IHt]; intros j Hj.
        - cbn. now rewrite firstn_nil.
        - cbn [indexed_from filter fst].
          replace (lo + j - lo) with j by lia.
          destruct (Z.leb_spec lo (lo + j)) as [_|?]; [|lia]. cbn [andb].
          destruct (Z.ltb_spec (lo + j) hi) as [Hlt|Hge]; cbn [andb].
          + replace (Z.to_nat (hi - lo - j)) with (S (Z.to_nat (hi - lo - (j + 1)))) by lia.
            cbn [firstn every_nth_from].
            replace (lo + j + 1) with (lo + (j + 1)) by lia.
            destruct (j mod st =? 0); cbn [map snd]; rewrite IHt by lia; reflexivity.
          + replace (Z.to_nat (hi - lo - j)) with 0%nat by lia. cbn [firstn every_nth_from].
            replace (lo + j + 1) with (lo + (j + 1)) by lia.
            rewrite IHt by lia. replace (Z.to_nat (hi - lo - (j + 1))) with 0%nat by lia.
            reflexivity. }
      specialize (G (x :: t) 0 ltac:(lia)).
      replace (lo + 0) with lo in G by lia. replace (hi - lo - 0) with (hi - lo) in G by lia.
      exact G.
    + destruct (Z.leb_spec lo i) as [?|Hlt]; [lia|]. cbn [andb].
      replace (Z.to_nat (lo - i)) with (S (Z.to_nat (lo - (i + 1)))) by lia. cbn [skipn].
      apply IH; lia.
Qed.

Lemma clamp_index_nonneg n i : 0 <= n -> 0 <= clamp_index n i.
Proof. intros H. unfold clamp_index. destruct (Z.ltb_spec i 0); lia. Qed.

Lemma py_slice_idx_agrees {A} (l : list A) (start stop step : option Z) :
  step_ok step -> py_slice l start stop step = py_slice_idx l start stop step.
Proof.
  intros Hstep. unfold py_slice, py_slice_idx.
  set (lo := match start with Some s => clamp_index (zlen l) s | None => 0 end).
  set (hi := match stop with Some s => clamp_index (zlen l) s | None => zlen l end).
  set (st := match step with Some s => s | None => 1 end).
  assert (Hst : 1 <= st) by (subst st; destruct step; cbn in Hstep; lia).
  assert (Hlo : 0 <= lo).
  { subst lo. destruct start; [apply clamp_index_nonneg; unfold zlen; lia|lia]. }
  rewrite (indexed_from_filter_seg l 0 lo hi st Hst Hlo).
  replace (lo - 0) with lo by lia. reflexivity.
Qed.

(* ---- the integer-index form source[i] ------------------------------------ *)
(* Observable.__getitem__ (observable/observable.py): an integer key i becomes slice_(i, i + 1, 1) *)
Corollary getitem_int_correct {A} (l : list A) (i : Z) :
  zlen l <= maxsize ->
  exists plan, slice_plan (Some i) (Some (i + 1)) (Some 1) = Some plan
            /\ forallb pop_ok plan = true
            /\ run_plan plan l = py_slice l (Some i) (Some (i + 1)) (Some 1).
Proof. intros H. apply slice_plan_correct; [exact H|]. cbn. lia. Qed.

(* for a non-negative index that is the i-th element, if the source has one *)
Lemma getitem_int_nonneg {A} (l : list A) (i : Z) : 0 <= i ->
  py_slice l (Some i) (Some (i + 1)) (Some 1) = firstn 1 (skipn (Z.to_nat i) l).
Proof.
  intros Hi. unfold py_slice. rewrite every_nth_1, !clamp_pos by lia. unfold zlen.
  destruct (Z.lt_ge_cases i (Z.of_nat (length l))) as [Hlt|Hge].
  - replace (Z.min (i + 1) (Z.of_nat (length l)) - Z.min i (Z.of_nat (length l))) with 1 by lia.
    replace (Z.min i (Z.of_nat (length l))) with i by lia. reflexivity.
  - replace (Z.min (i + 1) (Z.of_nat (length l)) - Z.min i (Z.of_nat (length l))) with 0 by lia.
    rewrite (skipn_all2 l (n:=Z.to_nat i)) by lia. cbn [Z.to_nat firstn]. reflexivity.
Qed.

(* the last element cannot be had this way: source[-1] is source[-1:0], which is empty *)
Lemma getitem_int_minus_one {A} (l : list A) : py_slice l (Some (-1)) (Some 0) (Some 1) = [].
Proof.
  unfold py_slice. rewrite every_nth_1, (clamp_neg _ (-1)), (clamp_pos _ 0) by lia. unfold zlen.
  replace (Z.to_nat (Z.min 0 (Z.of_nat (length l)) - Z.max 0 (Z.of_nat (length l) + -1))) with 0%nat by lia.
  reflexivity.
Qed.
