(* C19: partition, run-level closed form (operators/_partition.py as modelled in
   Ops/Groups.v).  With a total predicate, an output that has exactly one live
   subscription while a conforming source runs receives exactly the elements of
   its side of the predicate, in order, followed by the source's terminal; an
   output subscribed later misses what the (shared, hot) source delivered
   before. *)
From RxVerif Require Import Base.Prelude Ops.Machine Ops.MultiWin Ops.MultiWinFacts Ops.Groups
  Ops.GroupFacts Ops.WindowCountFacts.

Local Arguments Multi.mem : simpl never.
Local Arguments Multi.remove : simpl never.

Section PartitionRun.
Context {A : Type}.
Variable pf : A -> bool.
Definition tpred : A -> res bool := fun x => Ok (pf x).
(* the side of the predicate output g receives: 0 = holds, 1 (and above) = does not *)
Definition side (g : nat) (x : A) : bool := goes_to (pf x) g.

Lemma pt_run_from_app (pred : A -> res bool) (a : list (Z * inp A)) : forall s k b,
  pt_run_from pred s k (a ++ b)
  = pt_run_from pred s k a ++ pt_run_from pred (pt_after pred s a) (k + length a) b.
Proof.
  induction a as [|[now i] t IH]; intros s k b; cbn [app pt_run_from pt_after length].
  - now rewrite Nat.add_0_r.
  - destruct (pt_step pred s i) as [s' o] eqn:E. cbn [fst]. rewrite IH, <- app_assoc.
    now rewrite Nat.add_succ_r.
Qed.

Lemma wobs_map_side g (x : A) (l : list nat) :
  wobs (B:=unit) g (map (fun j => OWin j (Next x)) l) = repeat (Next x) (count_of g l).
Proof.
  unfold count_of. induction l as [|j t IH]; [reflexivity|]. cbn [map wobs flat_map filter].
  fold (wobs (B:=unit) g (map (fun j => OWin j (Next x)) t)). rewrite IH.
  destruct (Nat.eqb g j); reflexivity.
Qed.

Lemma count_of_filter_side g b (l : list nat) :
  count_of g (filter (goes_to b) l) = if goes_to b g then count_of g l else 0%nat.
Proof.
  unfold count_of. induction l as [|j t IH]; [now destruct (goes_to b g)|]. cbn [filter].
  destruct (Nat.eqb_spec g j) as [E|Hne].
  - subst j. destruct (goes_to b g) eqn:Eg; cbn [filter]; [rewrite Nat.eqb_refl|]; cbn [length]; now rewrite IH.
  - destruct (goes_to b j); cbn [filter]; [destruct (Nat.eqb_spec g j); [congruence|]|]; exact IH.
Qed.

(* elements, from a connected, unstopped state: the state does not change *)
Lemma pt_elements subs g (xs : list A) : forall k rest,
  wevents g (pt_run_from tpred (PtSt subs true None) k (map (fun x => (0, ISrc 0%nat (Next x))) xs ++ rest))
  = flat_map (fun x => if side g x then repeat (Next x) (count_of g subs) else []) xs
    ++ wevents g (pt_run_from tpred (PtSt subs true None) (k + length xs) rest).
Proof.
  induction xs as [|x t IH]; intros k rest; cbn [map app length flat_map].
  - now rewrite Nat.add_0_r.
  - cbn [pt_run_from pt_step pt_conn pt_stopped pt_subs].
    rewrite (partition_deliver tpred x (pf x) eq_refl).
    rewrite wevents_app, wevents_tag, wobs_map_side, count_of_filter_side, IH, <- app_assoc.
    rewrite Nat.add_succ_r. unfold side. destruct (goes_to (pf x) g); reflexivity.
Qed.

Lemma wevents_cons g k (o : obs A unit) t : wevents g ((k, o) :: t) = wobs g [o] ++ wevents g t.
Proof. unfold wevents, wobs. cbn [flat_map snd]. now rewrite app_nil_r. Qed.

Lemma wobs_leave g subs conn : wobs g (snd (pt_leave (A:=A) subs conn)) = [].
Proof. unfold pt_leave. destruct subs; [destruct conn|]; reflexivity. Qed.

Lemma pt_terminate_wobs g (e : ev A) : forall todo subs conn,
  wobs g (snd (pt_terminate e todo subs conn)) = repeat e (count_of g todo).
Proof.
  unfold count_of. induction todo as [|j t IH]; intros subs conn; [reflexivity|]. cbn [pt_terminate].
  pose proof (wobs_leave g (remove j subs) conn) as HL.
  destruct (pt_leave (A:=A) (remove j subs) conn) as [c1 o1]. cbn [snd] in HL.
  specialize (IH (remove j subs) c1).
  destruct (pt_terminate e t (remove j subs) c1) as [[s' c'] o]. cbn [snd] in *.
  change (OWin j e :: o1 ++ o) with ([OWin (B:=unit) j e] ++ o1 ++ o).
  rewrite !wobs_app, HL, IH. cbn [wobs flat_map filter app].
  destruct (Nat.eqb g j); reflexivity.
Qed.

(* the source's terminal, from a connected, unstopped state *)
Lemma pt_terminal subs g (e : ev A) k : is_terminal e = true ->
  wevents g (pt_run_from tpred (PtSt subs true None) k [(0, ISrc 0%nat e)]) = repeat e (count_of g subs).
Proof.
  intros He. cbn [pt_run_from pt_step pt_conn pt_stopped pt_subs].
  destruct e as [x|z|]; [discriminate| |];
    match goal with |- context [pt_terminate ?e subs subs true] =>
      pose proof (pt_terminate_wobs g e subs subs true) as HT;
      destruct (pt_terminate e subs subs true) as [[s' c'] o] end;
    cbn [snd] in HT; rewrite app_nil_r, wevents_tag, wobs_app, HT;
    destruct c'; cbn; now rewrite app_nil_r.
Qed.

(* closed form from the state "connected, not stopped, observers [subs]":
   an output with exactly one live subscription *)
Theorem partition_from_connected subs g k (xs : list A) tm : count_of g subs = 1%nat ->
  wevents g (pt_run_from tpred (PtSt subs true None) k (src_events xs tm))
  = map Next (filter (side g) xs) ++ term_ev tm.
Proof.
  intros Hc. unfold src_events. rewrite pt_elements, Hc. f_equal.
  - induction xs as [|x t IH]; [reflexivity|]. cbn [flat_map filter]. rewrite IH.
    destruct (side g x); reflexivity.
  - destruct tm as [|z|]; cbn [term_ev map]; [| |reflexivity]; rewrite pt_terminal, Hc; reflexivity.
Qed.

(* no subscription of g: g sees nothing at all *)
Theorem partition_unsubscribed_silent subs g k (xs : list A) tm : count_of g subs = 0%nat ->
  wevents g (pt_run_from tpred (PtSt subs true None) k (src_events xs tm)) = [].
Proof.
  intros Hc. unfold src_events. rewrite pt_elements, Hc.
  assert (E : flat_map (fun x : A => if side g x then repeat (Next x) 0 else []) xs = []).
  { induction xs as [|x t IH]; [reflexivity|]. cbn [flat_map]. rewrite IH. now destruct (side g x). }
  rewrite E. destruct tm as [|z|]; cbn [term_ev map app]; [| |reflexivity]; rewrite pt_terminal, Hc; reflexivity.
Qed.

(* both outputs subscribed before the source emits *)
Theorem partition_closed_form (xs : list A) tm :
  let tr := pt_run tpred ((0, ISubWin 0%nat) :: (0, ISubWin 1%nat) :: src_events xs tm) in
  wevents 0 tr = map Next (filter pf xs) ++ term_ev tm
  /\ wevents 1 tr = map Next (filter (fun x => negb (pf x)) xs) ++ term_ev tm.
Proof.
  cbn zeta. unfold pt_run. cbn [pt_run_from pt_step pt_subs pt_conn pt_stopped andb negb app map].
  rewrite !wevents_cons. cbn [wobs flat_map app].
  split; rewrite partition_from_connected by reflexivity; reflexivity.
Qed.

(* the source is shared and hot: output 1 subscribed after a prefix of the
   source misses that prefix; output 0 sees everything *)
Theorem partition_late_subscriber (xs1 xs2 : list A) tm :
  let tr := pt_run tpred ((0, ISubWin 0%nat) :: src_events xs1 TNever
                          ++ (0, ISubWin 1%nat) :: src_events xs2 tm) in
  wevents 0 tr = map Next (filter pf (xs1 ++ xs2)) ++ term_ev tm
  /\ wevents 1 tr = map Next (filter (fun x => negb (pf x)) xs2) ++ term_ev tm.
Proof.
  cbn zeta. unfold pt_run. cbn [pt_run_from pt_step pt_subs pt_conn pt_stopped andb negb app map].
  unfold src_events at 1 3. cbn [term_ev map]. rewrite !app_nil_r.
  rewrite !wevents_cons. cbn [wobs flat_map app].
  rewrite !pt_elements.
  cbn [pt_run_from pt_step pt_subs pt_conn pt_stopped andb negb app map].
  rewrite !partition_from_connected by reflexivity.
  split.
  - rewrite filter_app, map_app, <- app_assoc. f_equal.
    induction xs1 as [|x t IH]; [reflexivity|]. cbn [flat_map filter]. rewrite IH.
    unfold side. cbn [goes_to]. destruct (pf x); reflexivity.
  - assert (E : flat_map (fun x : A => if side 1 x then repeat (Next x) (count_of 1 [0%nat]) else []) xs1 = []).
    { induction xs1 as [|x t IH]; [reflexivity|]. cbn [flat_map]. rewrite IH. now destruct (side 1 x). }
    rewrite E. reflexivity.
Qed.
End PartitionRun.
