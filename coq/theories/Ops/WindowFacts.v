(* C18: facts about the window machines of Ops/Windows.v, for EVERY state (hence
   every input history):
   - routing: a source element goes to exactly the windows open when it arrives,
     in opening order; the source's terminal ends exactly the open windows with
     its kind and ends the outer sequence (window_toggle: the outer follows the
     openings);
   - rules: when each machine opens and closes windows (count: closed form in
     Ops/WindowCountFacts.v; time: the timer chain visits the edges k*shift
     and k*shift + span in order; time-or-count; boundaries; closing selector;
     toggle);
   - buffers: the list emitted when a window completes is the content of that
     window. *)
From RxVerif Require Import Base.Prelude Ops.Machine Ops.MultiWin Ops.MultiWinFacts Ops.Windows.

Local Arguments Z.of_nat : simpl never.
Local Arguments Z.mul : simpl never.
Local Arguments Z.add : simpl never.
Local Arguments Z.sub : simpl never.

Section Routing.
Context {A B : Type}.

Definition cwin_nexts (cs : list (cmd A B)) : list (nat * A) :=
  flat_map (fun c => match c with CWin g (Next x) => [(g, x)] | _ => [] end) cs.

Lemma cwin_nexts_app a b : cwin_nexts (a ++ b) = cwin_nexts a ++ cwin_nexts b.
Proof. unfold cwin_nexts. apply flat_map_app. Qed.

Lemma cwin_nexts_all q (x : A) : cwin_nexts (wins_all q (Next x)) = map (fun g => (g, x)) q.
Proof. induction q as [|g t IH]; [reflexivity|]. cbn. f_equal. exact IH. Qed.

(* [routes m open f]: in every state s of m,
   an element x of the source (port 0) is sent to exactly the windows [open s], in order;
   the source's completion completes exactly [open s] and leaves with f;
   the source's error e errors exactly [open s] and fails the outer with e *)
Definition routes (m : machine A A B) (open : x_state m -> list nat) (f : fin) : Prop :=
  forall s now,
    (forall x, cwin_nexts (snd (fst (x_step m s now (ISrc 0%nat (Next x))))) = map (fun g => (g, x)) (open s))
    /\ (snd (fst (x_step m s now (ISrc 0%nat Done))) = wins_all (open s) Done
        /\ snd (x_step m s now (ISrc 0%nat Done)) = f)
    /\ (forall e, snd (fst (x_step m s now (ISrc 0%nat (Err e)))) = wins_all (open s) (Err e)
                  /\ snd (x_step m s now (ISrc 0%nat (Err e))) = Fail e).

Theorem window_count_routes count skip : routes (x_window_count count skip) wc_q Complete.
Proof.
  intros s now. repeat split; cbn [x_step x_window_count].
  intros x. unfold wc_on_next.
  destruct ((0 <=? wc_n s - count + 1) && ((wc_n s - count + 1) mod skip =? 0)).
  - destruct (wc_q s) as [|g t] eqn:Eq; destruct ((wc_n s + 1) mod skip =? 0); cbn [fst snd];
      rewrite ?cwin_nexts_app, cwin_nexts_all, ?app_nil_r; reflexivity.
  - destruct ((wc_n s + 1) mod skip =? 0); cbn [fst snd];
      rewrite ?cwin_nexts_app, cwin_nexts_all, ?app_nil_r; reflexivity.
Qed.

Theorem window_time_routes span shift : routes (x_window_time span shift) wt_q Complete.
Proof.
  intros s now. repeat split; cbn [x_step x_window_time fst snd]. intros x. apply cwin_nexts_all.
Qed.

Theorem window_time_or_count_routes span count :
  routes (x_window_time_or_count span count) (fun s => [wtc_cur s]) Complete.
Proof.
  intros s now. repeat split; cbn [x_step x_window_time_or_count fst snd].
  intros x. destruct (wtc_n s + 1 =? count); [|reflexivity].
  unfold wtc_roll, wtc_create_timer. destruct (wtc_ttag s); reflexivity.
Qed.

Theorem window_boundaries_routes : routes x_window_boundaries (fun s => [fst s]) Complete.
Proof. intros [cur next] now. repeat split. Qed.

Theorem window_when_routes mapper : routes (x_window_when mapper) (fun s => [ww_cur s]) Complete.
Proof. intros s now. repeat split. Qed.

(* window_toggle: the source's completion completes the open windows; the
   outer sequence goes on (it follows the openings) *)
Theorem window_toggle_routes mapper : routes (x_window_toggle mapper) wg_windows Cont.
Proof.
  intros s now. repeat split; cbn [x_step x_window_toggle fst snd]. intros x. apply cwin_nexts_all.
Qed.
End Routing.

(* ------------------------------------------------- window_with_time rules -- *)
Section TimeChain.
Context {A B : Type}.
Variables span shift : Z.
Hypothesis Hspan : 0 < span.
Hypothesis Hshift : 0 < shift.

(* after [a] shift edges and [b] span edges have fired: the pending timer is due at
   (subscription time +) min((a+1)*shift, span + b*shift); windows b..a are open *)
Record wt_inv (s : wt_st) (a b : nat) : Prop := {
  ti_span : wt_is_span s = (span + Z.of_nat b * shift <=? (Z.of_nat a + 1) * shift);
  ti_shift : wt_is_shift s = ((Z.of_nat a + 1) * shift <=? span + Z.of_nat b * shift);
  ti_total : wt_total s = Z.min ((Z.of_nat a + 1) * shift) (span + Z.of_nat b * shift);
  ti_nshift : wt_nshift s = (Z.of_nat a + 1) * shift + (if wt_is_shift s then shift else 0);
  ti_nspan : wt_nspan s = span + Z.of_nat b * shift + (if wt_is_span s then shift else 0);
  ti_q : wt_q s = seq b (S a - b);
  ti_next : wt_next s = S a;
  ti_ba : (b <= S a)%nat }.

Lemma wt_start_inv :
  wt_inv (fst (fst (x_start (x_window_time (A:=A) (B:=B) span shift)))) 0 0
  /\ snd (fst (x_start (x_window_time (A:=A) (B:=B) span shift)))
     = [CHand 0%nat 0; CTimer 0%nat (Z.min shift span); CSub 0%nat].
Proof.
  cbn [x_start x_window_time wt_create_timer fst snd wt_nspan wt_nshift wt_total wt_q wt_next wt_ntag app].
  split.
  - constructor; cbn [wt_is_span wt_is_shift wt_total wt_nshift wt_nspan wt_q wt_next]; try reflexivity.
    + f_equal; lia.
    + f_equal; lia.
    + destruct (span <=? shift) eqn:E; [apply Z.leb_le in E|apply Z.leb_gt in E]; lia.
    + destruct (shift <=? span); lia.
    + destruct (span <=? shift); lia.
    + lia.
  - assert (E : Z.max 0 ((if span <=? shift then span else shift) - 0) = Z.min shift span)
      by (destruct (span <=? shift) eqn:E; [apply Z.leb_le in E|apply Z.leb_gt in E]; lia).
    rewrite E. reflexivity.
Qed.

(* one timer firing: opens window a+1 iff the shift edge (a+1)*shift is due,
   closes window b iff the span edge span + b*shift is due (both when they
   coincide: open first, then close the OLDEST), and schedules the next edge *)
Ltac zfin :=
  rewrite ?Nat2Z.inj_succ;
  repeat match goal with |- context [if ?c then _ else _] => destruct c eqn:?E end;
  repeat match goal with
         | H : (_ <=? _) = true |- _ => apply Z.leb_le in H
         | H : (_ <=? _) = false |- _ => apply Z.leb_gt in H
         end;
  try lia.

Theorem wt_tick s a b : wt_inv s a b ->
  let a' := if wt_is_shift s then S a else a in
  let b' := if wt_is_span s then S b else b in
  wt_inv (fst (wt_action (A:=A) (B:=B) shift s)) a' b'
  /\ snd (wt_action (A:=A) (B:=B) shift s)
     = (if wt_is_shift s then [CHand (S a) 0] else []) ++ (if wt_is_span s then [CWin b Done] else [])
       ++ [CTimer (wt_ntag s) (Z.min ((Z.of_nat a' + 1) * shift) (span + Z.of_nat b' * shift) - wt_total s)].
Proof.
  intros [Hsp Hsh Htot Hns Hnp Hq Hnx Hba]. cbn zeta. unfold wt_action. rewrite Hq, Hnx.
  destruct (wt_is_shift s) eqn:Esh; destruct (wt_is_span s) eqn:Esp;
    symmetry in Hsp, Hsh;
    try (apply Z.leb_le in Hsp); try (apply Z.leb_gt in Hsp);
    try (apply Z.leb_le in Hsh); try (apply Z.leb_gt in Hsh).
  - (* both: open a+1, close b *)
    assert (Hb : (b <= a)%nat) by nia.
    destruct (S a - b)%nat as [|len] eqn:El; [lia|]. cbn [seq app].
    unfold wt_create_timer. cbn [wt_nspan wt_nshift wt_total wt_q wt_next wt_ntag fst snd].
    rewrite Hns, Hnp, Htot. split.
    + constructor; cbn [wt_is_span wt_is_shift wt_total wt_nshift wt_nspan wt_q wt_next]; try reflexivity.
      * rewrite !Nat2Z.inj_succ. f_equal; lia.
      * rewrite !Nat2Z.inj_succ. f_equal; lia.
      * zfin.
      * zfin.
      * zfin.
      * replace (S (S a) - S b)%nat with (len + 1)%nat by lia. rewrite seq_app. cbn [seq].
        replace (S b + len)%nat with (S a) by lia. reflexivity.
      * lia.
    + cbn [app]. f_equal. f_equal. f_equal. f_equal. zfin.
  - (* shift only *)
    unfold wt_create_timer. cbn [wt_nspan wt_nshift wt_total wt_q wt_next wt_ntag fst snd app].
    rewrite Hns, Hnp, Htot. split.
    + constructor; cbn [wt_is_span wt_is_shift wt_total wt_nshift wt_nspan wt_q wt_next]; try reflexivity.
      * rewrite !Nat2Z.inj_succ. f_equal; lia.
      * rewrite !Nat2Z.inj_succ. f_equal; lia.
      * zfin.
      * zfin.
      * zfin.
      * replace (S (S a) - b)%nat with ((S a - b) + 1)%nat by lia. rewrite seq_app. cbn [seq].
        replace (b + (S a - b))%nat with (S a) by lia. reflexivity.
      * lia.
    + cbn [app]. f_equal. f_equal. f_equal. zfin.
  - (* span only: close b *)
    assert (Hb : (b <= a)%nat) by nia.
    destruct (S a - b)%nat as [|len] eqn:El; [lia|]. cbn [seq app].
    unfold wt_create_timer. cbn [wt_nspan wt_nshift wt_total wt_q wt_next wt_ntag fst snd].
    rewrite Hns, Hnp, Htot.
    split.
    + constructor; cbn [wt_is_span wt_is_shift wt_total wt_nshift wt_nspan wt_q wt_next]; try reflexivity.
      * rewrite !Nat2Z.inj_succ. f_equal; lia.
      * rewrite !Nat2Z.inj_succ. f_equal; lia.
      * zfin.
      * zfin.
      * zfin.
      * replace (S a - S b)%nat with len by lia. reflexivity.
      * lia.
    + cbn [app]. f_equal. f_equal. f_equal. zfin.
  - (* neither: impossible *) lia.
Qed.

(* the chain invariant holds in every reachable state, whatever the inputs *)
Theorem wt_always (imm : nat -> bool) (ins : list (Z * inp A)) :
  exists a b, wt_inv (fst (after imm (x_window_time (A:=A) (B:=B) span shift)
                              (fst (start_state imm (x_window_time (A:=A) (B:=B) span shift)))
                              (snd (start_state imm (x_window_time (A:=A) (B:=B) span shift))) ins)) a b.
Proof.
  apply (after_state_inv imm (x_window_time (A:=A) (B:=B) span shift) (fun s => exists a b, wt_inv s a b)).
  - intros s now i [a [b I]]. destruct i as [k [x|e|]|tag| | |]; cbn [x_step x_window_time fst]; eauto.
    destruct (wt_tick s a b I) as [I' _]. cbn zeta in I'.
    destruct (wt_action (A:=A) (B:=B) shift s) as [s' cs]. cbn [fst] in *. eauto.
  - exists 0%nat, 0%nat. unfold start_state.
    destruct wt_start_inv as [I _].
    destruct (x_start (x_window_time (A:=A) (B:=B) span shift)) as [[s0 cs] f]. exact I.
Qed.

(* no q.pop(0) on an empty queue *)
Theorem wt_pop_safe s a b : wt_inv s a b -> wt_is_span s = true ->
  (if wt_is_shift s then wt_q s ++ [wt_next s] else wt_q s) <> [].
Proof.
  intros [Hsp Hsh Htot Hns Hnp Hq Hnx Hba] E. rewrite E in Hsp. symmetry in Hsp. apply Z.leb_le in Hsp.
  assert (Hb : (b <= a)%nat) by nia. rewrite Hq.
  destruct (S a - b)%nat eqn:El; [lia|]. destruct (wt_is_shift s); discriminate.
Qed.
End TimeChain.

(* ------------------------------------------- window_with_time_or_count rules -- *)
Section TimeOrCount.
Context {A B : Type}.
Variables span count : Z.
Hypothesis Hcount : 0 < count.
Notation M := (x_window_time_or_count (A:=A) (B:=B) span count).

(* n counts the elements of the current window; the pending timer always belongs to
   the current window (create_timer is called with the new id whenever window_id changes) *)
Definition wtc_inv (s : wtc_st) : Prop :=
  0 <= wtc_n s < count /\ wtc_tid s = wtc_wid s /\ wtc_next s = S (wtc_cur s).

Lemma wtc_roll_spec s : wtc_inv s ->
  wtc_inv (fst (wtc_roll (A:=A) (B:=B) span s))
  /\ snd (wtc_roll (A:=A) (B:=B) span s)
     = [CWin (wtc_cur s) Done; CHand (S (wtc_cur s)) 0]
       ++ match wtc_ttag s with Some t => [CCancel t] | None => [] end ++ [CTimer (wtc_ntag s) (Z.max 0 span)]
  /\ wtc_cur (fst (wtc_roll (A:=A) (B:=B) span s)) = S (wtc_cur s).
Proof.
  intros (Hn & Ht & Hx). unfold wtc_roll, wtc_create_timer, wtc_inv. cbn [fst snd wtc_n wtc_tid wtc_wid wtc_next wtc_cur].
  rewrite Hx. repeat split; try lia.
Qed.

(* every delivered timer closes the current window and opens the next *)
Theorem wtc_tick s now tag : wtc_inv s ->
  snd (fst (x_step M s now (ITick tag))) = snd (wtc_roll (A:=A) (B:=B) span s)
  /\ wtc_inv (fst (fst (x_step M s now (ITick tag)))).
Proof.
  intros I. pose proof I as (Hn & Ht & Hx). cbn [x_step x_window_time_or_count].
  rewrite Ht, Z.eqb_refl. destruct (wtc_roll_spec s I) as (I' & _ & _).
  destruct (wtc_roll (A:=A) (B:=B) span s) as [s' c]. cbn [fst snd] in *. auto.
Qed.

(* an element goes to the current window; the count-th one closes it *)
Theorem wtc_next_elem s now k (x : A) : wtc_inv s ->
  wtc_inv (fst (fst (x_step M s now (ISrc k (Next x)))))
  /\ snd (fst (x_step M s now (ISrc k (Next x))))
     = CWin (wtc_cur s) (Next x) :: (if wtc_n s + 1 =? count then snd (wtc_roll (A:=A) (B:=B) span s) else [])
  /\ wtc_n (fst (fst (x_step M s now (ISrc k (Next x))))) = (if wtc_n s + 1 =? count then 0 else wtc_n s + 1).
Proof.
  intros I. pose proof I as (Hn & Ht & Hx). cbn [x_step x_window_time_or_count].
  destruct (wtc_n s + 1 =? count) eqn:E.
  - destruct (wtc_roll_spec s I) as (I' & _ & _). unfold wtc_roll, wtc_create_timer in *.
    cbn [fst snd wtc_n] in *. auto.
  - apply Z.eqb_neq in E. unfold wtc_inv. cbn [fst snd wtc_n wtc_tid wtc_wid wtc_next wtc_cur].
    repeat split; auto; lia.
Qed.

Theorem wtc_always (imm : nat -> bool) (ins : list (Z * inp A)) :
  wtc_inv (fst (after imm M (fst (start_state imm M)) (snd (start_state imm M)) ins)).
Proof.
  apply (after_state_inv imm M wtc_inv).
  - intros s now i I. destruct i as [k [x|e|]|tag| | |]; try exact I.
    + apply wtc_next_elem. exact I.
    + apply wtc_tick. exact I.
  - unfold wtc_inv. cbn. repeat split; lia.
Qed.
End TimeOrCount.

(* ------------------------------------ boundaries / closing selector / toggle -- *)
Section Rules.
Context {A B : Type}.

(* window(boundaries): a boundary element closes the current window and opens the next *)
Theorem window_boundary_rule cur next now k (v : A) :
  x_step (x_window_boundaries (A:=A) (B:=B)) (cur, next) now (ISrc (S k) (Next v))
  = ((next, S next), [CWin cur Done; CHand next 0], Cont).
Proof. reflexivity. Qed.

(* window_when: the first notification (element or completion) of the current closing
   observable closes the window, opens the next and calls the closing mapper again
   (guarded: only if the underlying disposable has not been released meanwhile) *)
Theorem window_when_rule mapper s now k (e : ev A) : (forall z, e <> Err z) ->
  exists c f,
    x_step (x_window_when (A:=A) (B:=B) mapper) s now (ISrc (S k) e)
    = (fst (fst (ww_arm (A:=A) (B:=B) true mapper (WwSt (ww_next s) (S (ww_next s)) (ww_calls s) (ww_closing s)))),
       [CWin (ww_cur s) Done; CHand (ww_next s) 0; CUnsub (S k)] ++ c, f)
    /\ f = snd (ww_arm (A:=A) (B:=B) true mapper (WwSt (ww_next s) (S (ww_next s)) (ww_calls s) (ww_closing s))).
Proof.
  intros He. cbn [x_step x_window_when].
  destruct (ww_arm (A:=A) (B:=B) true mapper (WwSt (ww_next s) (S (ww_next s)) (ww_calls s) (ww_closing s))) as [[s' c] f] eqn:E.
  destruct e as [x|z|]; [| exfalso; eapply He; reflexivity |]; cbn [fst snd]; eauto.
Qed.

(* ... when that call returns: the new closing observable is subscribed behind
   `if d.is_disposed: return` ([CSubLive]: nothing once the runner has released) *)
Theorem window_when_rule_ok mapper s now k (e : ev A) u : (forall z', e <> Err z') ->
  mapper (ww_calls s) = Ok u ->
  snd (fst (x_step (x_window_when (A:=A) (B:=B) mapper) s now (ISrc (S k) e)))
  = [CWin (ww_cur s) Done; CHand (ww_next s) 0; CUnsub (S k); CSubLive (S (ww_calls s))]
  /\ snd (x_step (x_window_when (A:=A) (B:=B) mapper) s now (ISrc (S k) e)) = Cont.
Proof.
  intros He H. cbn [x_step x_window_when]. unfold ww_arm. cbn [ww_calls ww_cur]. rewrite H.
  destruct e as [x|z'|]; [| exfalso; eapply He; reflexivity |]; split; reflexivity.
Qed.

(* a raising closing mapper ends the outer sequence with that error ... *)
Theorem window_when_mapper_raises gd mapper s e :
  mapper (ww_calls s) = Raise e -> snd (ww_arm (A:=A) (B:=B) gd mapper s) = Fail e.
Proof. intros H. unfold ww_arm. rewrite H. reflexivity. Qed.

(* ... after the current window got it: nothing else is commanded (no new closing subscription) *)
Theorem window_when_mapper_raises_window gd mapper s e :
  mapper (ww_calls s) = Raise e -> snd (fst (ww_arm (A:=A) (B:=B) gd mapper s)) = [CWin (ww_cur s) (Err e)].
Proof. intros H. unfold ww_arm. rewrite H. reflexivity. Qed.

(* the whole handler of a firing closing observable when the next mapper call raises: the window
   just handed ([ww_next s]) is the one that gets the error, before the outer *)
Theorem window_when_rule_raises mapper s now k (e : ev A) z : (forall z', e <> Err z') ->
  mapper (ww_calls s) = Raise z ->
  snd (fst (x_step (x_window_when (A:=A) (B:=B) mapper) s now (ISrc (S k) e)))
  = [CWin (ww_cur s) Done; CHand (ww_next s) 0; CUnsub (S k); CWin (ww_next s) (Err z)]
  /\ snd (x_step (x_window_when (A:=A) (B:=B) mapper) s now (ISrc (S k) e)) = Fail z.
Proof.
  intros He H. cbn [x_step x_window_when]. unfold ww_arm. cbn [ww_calls ww_cur]. rewrite H.
  destruct e as [x|z'|]; [| exfalso; eapply He; reflexivity |]; split; reflexivity.
Qed.

(* inside subscribe(): window 0 is handed, the source subscribed, then the first mapper call *)
Theorem window_when_start mapper :
  snd (fst (x_start (x_window_when (A:=A) (B:=B) mapper)))
  = [CHand 0%nat 0; CSub 0%nat]
    ++ match mapper 0%nat with Ok _ => [CSub 1%nat] | Raise z => [CWin 0%nat (Err z)] end
  /\ snd (x_start (x_window_when (A:=A) (B:=B) mapper))
     = match mapper 0%nat with Ok _ => Cont | Raise z => Fail z end.
Proof. cbn [x_start x_window_when]. unfold ww_arm. cbn [ww_calls ww_cur]. destruct (mapper 0%nat); split; reflexivity. Qed.

(* window_toggle: an opening opens a new window (and subscribes its closing observable) *)
Theorem window_toggle_open_rule mapper s now (v : A) :
  mapper (wg_calls s) = Ok tt ->
  x_step (x_window_toggle (A:=A) (B:=B) mapper) s now (ISrc 1%nat (Next v))
  = (WgSt (wg_open s ++ [(wg_next s, (2 + wg_calls s)%nat)]) (S (wg_next s)) (S (wg_calls s)),
     [CHand (wg_next s) 0; CSub (2 + wg_calls s)%nat], Cont).
Proof. intros H. cbn [x_step x_window_toggle]. rewrite H. reflexivity. Qed.

(* ... the first notification of window g's closing observable closes exactly g *)
Theorem window_toggle_close_rule mapper s now k (e : ev A) g :
  (forall z, e <> Err z) -> wg_find (S (S k)) (wg_open s) = Some g ->
  snd (fst (x_step (x_window_toggle (A:=A) (B:=B) mapper) s now (ISrc (S (S k)) e))) = [CWin g Done; CUnsub (S (S k))]
  /\ wg_open (fst (fst (x_step (x_window_toggle (A:=A) (B:=B) mapper) s now (ISrc (S (S k)) e))))
     = filter (fun gc => negb (Nat.eqb (S (S k)) (snd gc))) (wg_open s).
Proof.
  intros He Hf. cbn [x_step x_window_toggle].
  destruct e as [x|z|]; [| exfalso; eapply He; reflexivity |]; rewrite Hf; split; reflexivity.
Qed.

(* ... any error (source, openings, a closing observable, a raising closing mapper)
   reaches every open window and the outer *)
Theorem window_toggle_error_fanout mapper s now k z :
  x_step (x_window_toggle (A:=A) (B:=B) mapper) s now (ISrc k (Err z))
  = (s, wins_all (wg_windows s) (Err z), Fail z).
Proof. destruct k as [|[|k]]; reflexivity. Qed.
End Rules.


(* ------------------ none of the window machines unsubscribes the main source -- *)
Section NeverUnsub.
Context {A B : Type}.

Lemma no_unsub_wins k q (e : ev A) : existsb (is_unsub (W:=A) (B:=B) k) (wins_all q e) = false.
Proof. induction q; auto. Qed.

Lemma existsb_app_false {X} (f : X -> bool) a b : existsb f a = false -> existsb f b = false -> existsb f (a ++ b) = false.
Proof. intros Ha Hb. now rewrite existsb_app, Ha, Hb. Qed.

Theorem window_count_never_unsubs count skip k : never_unsubs (x_window_count (A:=A) (B:=B) count skip) k.
Proof.
  intros s now i. destruct i as [j [x|z|]|tag| | |]; cbn [x_step x_window_count fst snd]; try reflexivity;
    try apply no_unsub_wins.
  unfold wc_on_next.
  destruct ((0 <=? wc_n s - count + 1) && ((wc_n s - count + 1) mod skip =? 0));
    [destruct (wc_q s)|]; destruct ((wc_n s + 1) mod skip =? 0); cbn [fst snd];
    repeat (apply existsb_app_false; try apply no_unsub_wins; try reflexivity).
Qed.

Theorem window_time_never_unsubs span shift k : never_unsubs (x_window_time (A:=A) (B:=B) span shift) k.
Proof.
  intros s now i. destruct i as [j [x|z|]|tag| | |]; cbn [x_step x_window_time fst snd]; try reflexivity;
    try apply no_unsub_wins.
  unfold wt_action, wt_create_timer.
  destruct (wt_is_shift s), (wt_is_span s); cbn [fst snd]; try destruct (wt_q s); try reflexivity;
    cbn; try destruct (l ++ _); reflexivity.
Qed.

Theorem window_time_or_count_never_unsubs span count k :
  never_unsubs (x_window_time_or_count (A:=A) (B:=B) span count) k.
Proof.
  intros s now i. unfold wtc_roll, wtc_create_timer.
  destruct i as [j [x|z|]|tag| | |]; cbn [x_step x_window_time_or_count fst snd]; try reflexivity.
  - destruct (wtc_n s + 1 =? count); [|reflexivity]. unfold wtc_roll, wtc_create_timer. destruct (wtc_ttag s); reflexivity.
  - destruct (wtc_tid s =? wtc_wid s); [|reflexivity]. unfold wtc_roll, wtc_create_timer. destruct (wtc_ttag s); reflexivity.
Qed.

Theorem window_boundaries_never_unsubs k : never_unsubs (x_window_boundaries (A:=A) (B:=B)) k.
Proof. intros [cur next] now i. destruct i as [[|j] [x|z|]|tag| | |]; reflexivity. Qed.

(* closing selector / toggle: only closing observables (sources >= 1 resp. >= 2) are unsubscribed *)
Theorem window_when_never_unsubs_source mapper : never_unsubs (x_window_when (A:=A) (B:=B) mapper) 0%nat.
Proof.
  intros s now i. destruct i as [[|j] [x|z|]|tag| | |]; cbn [x_step x_window_when fst snd]; try reflexivity;
    unfold ww_arm; cbn [ww_calls]; destruct (mapper (ww_calls s)); reflexivity.
Qed.

Theorem window_toggle_never_unsubs_source mapper :
  never_unsubs (x_window_toggle (A:=A) (B:=B) mapper) 0%nat.
Proof.
  intros s now i. destruct i as [[|[|j]] [x|z|]|tag| | |]; cbn [x_step x_window_toggle fst snd]; try reflexivity;
    try apply no_unsub_wins.
  - destruct (mapper (wg_calls s)); cbn [fst snd existsb is_unsub]; [reflexivity|]. apply no_unsub_wins.
  - destruct (wg_find (S (S j)) (wg_open s)); reflexivity.
  - destruct (wg_find (S (S j)) (wg_open s)); reflexivity.
Qed.

Theorem window_machines_keep_source :
  (forall count skip k, never_unsubs (x_window_count (A:=A) (B:=B) count skip) k)
  /\ (forall span shift k, never_unsubs (x_window_time (A:=A) (B:=B) span shift) k)
  /\ (forall span count k, never_unsubs (x_window_time_or_count (A:=A) (B:=B) span count) k)
  /\ (forall k, never_unsubs (x_window_boundaries (A:=A) (B:=B)) k)
  /\ (forall mapper, never_unsubs (x_window_when (A:=A) (B:=B) mapper) 0%nat)
  /\ (forall mapper, never_unsubs (x_window_toggle (A:=A) (B:=B) mapper) 0%nat).
Proof.
  exact (conj window_count_never_unsubs (conj window_time_never_unsubs
    (conj window_time_or_count_never_unsubs (conj window_boundaries_never_unsubs
    (conj window_when_never_unsubs_source window_toggle_never_unsubs_source))))).
Qed.
End NeverUnsub.
