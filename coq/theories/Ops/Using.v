(* C40: using / finally_action / do_action and its variants as machines of the
   multi-source runner (Ops/Multi.v).  Source 0 is the (inner) source
   observable.  User-visible side effects are [CEffect n] commands with the
   codes below: the K2 driver logs the same numbers through env.effect(n) from
   the spy resource / spy callbacks it hands to the operators. *)
From RxVerif Require Import Base.Prelude Ops.Machine Ops.Multi.

Definition E_CREATED : Z := 1.          (* resource_factory returned a resource *)
Definition E_RELEASED : Z := 2.         (* resource.dispose() ran *)
Definition E_FINALLY : Z := 3.          (* finally_action / do_finally action ran *)
Definition E_SUBSCRIBE : Z := 4.        (* do_on_subscribe callback *)
Definition E_ON_DISPOSE : Z := 5.       (* do_on_dispose callback *)
Definition E_TERMINATE : Z := 6.        (* do_on_terminate callback *)
Definition E_AFTER_TERMINATE : Z := 7.  (* do_after_terminate callback *)
Definition E_DO_DONE : Z := 8.          (* do_action on_completed callback *)
Definition e_do_next (x : Z) : Z := 100 + x.     (* do_action on_next callback, with its argument *)
Definition e_do_err (e : Z) : Z := 200 + e.      (* do_action on_error callback *)
Definition e_after_next (x : Z) : Z := 300 + x.  (* do_after_next callback *)

Definition pass {S : Type} (s : S) (i : inp Z) : S * list (cmd Z) * fin :=
  match i with
  | ISrc _ (Next x) => (s, [CEmit x], Cont)
  | ISrc _ (Err e) => (s, [], Fail e)
  | ISrc _ Done => (s, [], Complete)
  | _ => (s, [], Cont)
  end.

(* the identity operator: subscribe source 0 and mirror it *)
Definition x_id : machine Z Z := Machine (tt, [CSub 0%nat], Cont) (fun s _ i => pass s i).

(* ---- observable/using.py ---------------------------------------------------
   subscribe(): disp = Disposable(); try: resource = resource_factory(); if
   resource is not None: disp = resource; source = observable_factory(resource)
   except Exception: observer.on_error(exception); return disp.  Otherwise
   CompositeDisposable(source.subscribe(observer, scheduler=scheduler), disp).
   The composite is disposed by the subscriber's auto-detaching wrapper at the
   terminal notification, or by the subscriber: that is when the resource's
   dispose() runs.
   rf: Ok true = a disposable resource, Ok false = None; state: (resource held,
   exception waiting for the throw timer). *)
Definition released (has : bool) : list (cmd Z) := if has then [CEffect E_RELEASED] else [].
Definition created (has : bool) : list (cmd Z) := if has then [CEffect E_CREATED] else [].

(* since /repo's fix of using (a factory's exception is handed to the observer inside subscribe(), as defer
   does, instead of being subscribed as throw() on the subscribe-time scheduler) the failure no longer depends on
   [sched]: the parameter and the [pend] component of the state are kept so that the machine's type and the
   correspondence cases stay as they were *)
Definition using_throw (sched has : bool) (e : Z) : (bool * option Z) * list (cmd Z) * fin :=
  ((has, None), created has ++ released has, Fail e).

Definition x_using (rf : res bool) (obf : res unit) (sched : bool) : machine Z Z :=
  Machine
    (match rf with
     | Raise e => using_throw sched false e
     | Ok has => match obf with
                 | Raise e => using_throw sched has e
                 | Ok _ => ((has, None), created has ++ [CSub 0%nat], Cont)
                 end
     end)
    (fun '(has, pend) _ i =>
       match i with
       | ISrc _ (Next x) => ((has, pend), [CEmit x], Cont)
       | ISrc _ (Err e) => ((has, pend), released has, Fail e)
       | ISrc _ Done => ((has, pend), released has, Complete)
       | ITick _ => match pend with
                    | Some e => ((has, pend), released has, Fail e)
                    | None => ((has, pend), [], Cont)
                    end
       | IDispose => ((has, pend), released has, Cont)
       end).

(* ---- operators/_finallyaction.py ------------------------------------------
   returns Disposable(dispose) with dispose = subscription.dispose(); action().
   Disposable runs its action at most once; it is disposed by the auto-detach
   wrapper at the terminal notification or by the subscriber. *)
Definition x_finally_action : machine Z Z :=
  Machine (tt, [CSub 0%nat], Cont)
    (fun s _ i =>
       match i with
       | ISrc _ (Next x) => (s, [CEmit x], Cont)
       | ISrc _ (Err e) => (s, [CEffect E_FINALLY], Fail e)
       | ISrc _ Done => (s, [CEffect E_FINALLY], Complete)
       | ITick _ => (s, [], Cont)
       | IDispose => (s, [CEffect E_FINALLY], Cont)
       end).

(* ---- operators/_do.py: do_finally -----------------------------------------
   was_invoked flag shared by the terminal handlers and the OnDispose member of
   the returned CompositeDisposable.  At a terminal notification BOTH guarded
   calls are reached: observer.on_completed() makes the auto-detach wrapper
   dispose the composite (OnDispose.dispose), then the handler's own guarded
   call follows (the other way round when the source terminates inside
   subscribe(); same result).  [guarded] is one `if not was_invoked[0]:
   was_invoked[0] = True; finally_action()`. *)
Definition guarded (flag : bool) : bool * list (cmd Z) :=
  if flag then (flag, []) else (true, [CEffect E_FINALLY]).

Definition twice (flag : bool) : bool * list (cmd Z) :=
  let '(f1, c1) := guarded flag in let '(f2, c2) := guarded f1 in (f2, c1 ++ c2).

Definition x_do_finally : machine Z Z :=
  Machine (false, [CSub 0%nat], Cont)
    (fun flag _ i =>
       match i with
       | ISrc _ (Next x) => (flag, [CEmit x], Cont)
       | ISrc _ (Err e) => (fst (twice flag), snd (twice flag), Fail e)
       | ISrc _ Done => (fst (twice flag), snd (twice flag), Complete)
       | ITick _ => (flag, [], Cont)
       | IDispose => (fst (guarded flag), snd (guarded flag), Cont)
       end).

(* the same with the guards removed (what the flag is for): used only for the
   [_needs_guard] lemma *)
Definition x_do_finally_unguarded : machine Z Z :=
  Machine (false, [CSub 0%nat], Cont)
    (fun flag _ i =>
       match i with
       | ISrc _ (Next x) => (flag, [CEmit x], Cont)
       | ISrc _ (Err e) => (flag, [CEffect E_FINALLY; CEffect E_FINALLY], Fail e)
       | ISrc _ Done => (flag, [CEffect E_FINALLY; CEffect E_FINALLY], Complete)
       | ITick _ => (flag, [], Cont)
       | IDispose => (flag, [CEffect E_FINALLY], Cont)
       end).

(* ---- operators/_do.py: do_action_ (also do_(observer)) ---------------------
   _on_next: if not on_next: observer.on_next(x) else: try: on_next(x) except
   Exception as e: observer.on_error(e); observer.on_next(x) -- the on_next
   after an on_error is dropped by the stopped downstream wrapper.  Likewise
   _on_error (the callback's exception REPLACES the source's) and
   _on_completed. *)
Definition x_do_action (fn : option (Z -> res unit)) (fe : option (Z -> res unit))
  (fd : option (res unit)) : machine Z Z :=
  Machine (tt, [CSub 0%nat], Cont)
    (fun s _ i =>
       match i with
       | ISrc _ (Next x) =>
           match fn with
           | None => (s, [CEmit x], Cont)
           | Some f => match f x with
                       | Ok _ => (s, [CEffect (e_do_next x); CEmit x], Cont)
                       | Raise e => (s, [CEffect (e_do_next x)], Fail e)
                       end
           end
       | ISrc _ (Err e) =>
           match fe with
           | None => (s, [], Fail e)
           | Some f => match f e with
                       | Ok _ => (s, [CEffect (e_do_err e)], Fail e)
                       | Raise e' => (s, [CEffect (e_do_err e)], Fail e')
                       end
           end
       | ISrc _ Done =>
           match fd with
           | None => (s, [], Complete)
           | Some (Ok _) => (s, [CEffect E_DO_DONE], Complete)
           | Some (Raise e) => (s, [CEffect E_DO_DONE], Fail e)
           end
       | _ => (s, [], Cont)
       end).

(* do_after_next: try: observer.on_next(value); after_next(value) except
   Exception as e: observer.on_error(e) *)
Definition x_do_after_next (f : Z -> res unit) : machine Z Z :=
  Machine (tt, [CSub 0%nat], Cont)
    (fun s _ i =>
       match i with
       | ISrc _ (Next x) => (s, [CEmit x; CEffect (e_after_next x)],
                             match f x with Ok _ => Cont | Raise e => Fail e end)
       | _ => pass s i
       end).

(* do_on_subscribe: on_subscribe() before source.subscribe(...); an exception
   leaves subscribe() and is routed to on_error by Observable.subscribe *)
Definition x_do_on_subscribe (f : res unit) : machine Z Z :=
  Machine (match f with
           | Ok _ => (tt, [CEffect E_SUBSCRIBE; CSub 0%nat], Cont)
           | Raise e => (tt, [CEffect E_SUBSCRIBE], Fail e)
           end)
    (fun s _ i => pass s i).

(* do_on_dispose: CompositeDisposable(OnDispose(), subscription) *)
Definition x_do_on_dispose : machine Z Z :=
  Machine (tt, [CSub 0%nat], Cont)
    (fun s _ i =>
       match i with
       | ISrc _ (Next x) => (s, [CEmit x], Cont)
       | ISrc _ (Err e) => (s, [CEffect E_ON_DISPOSE], Fail e)
       | ISrc _ Done => (s, [CEffect E_ON_DISPOSE], Complete)
       | ITick _ => (s, [], Cont)
       | IDispose => (s, [CEffect E_ON_DISPOSE], Cont)
       end).

(* do_on_terminate: try: on_terminate() except Exception as err:
   observer.on_error(err) else: observer.on_completed() / on_error(exception) *)
Definition x_do_on_terminate (f : res unit) : machine Z Z :=
  Machine (tt, [CSub 0%nat], Cont)
    (fun s _ i =>
       match i with
       | ISrc _ (Next x) => (s, [CEmit x], Cont)
       | ISrc _ (Err e) => (s, [CEffect E_TERMINATE], match f with Ok _ => Fail e | Raise e' => Fail e' end)
       | ISrc _ Done => (s, [CEffect E_TERMINATE], match f with Ok _ => Complete | Raise e' => Fail e' end)
       | _ => (s, [], Cont)
       end).

(* do_after_terminate: observer.on_completed(); try: after_terminate() except
   Exception as err: observer.on_error(err) -- dropped: already stopped *)
Definition x_do_after_terminate (f : res unit) : machine Z Z :=
  Machine (tt, [CSub 0%nat], Cont)
    (fun s _ i =>
       match i with
       | ISrc _ (Next x) => (s, [CEmit x], Cont)
       | ISrc _ (Err e) => (s, [CEffect E_AFTER_TERMINATE], Fail e)
       | ISrc _ Done => (s, [CEffect E_AFTER_TERMINATE], Complete)
       | _ => (s, [], Cont)
       end).

(* ---- a source that already notifies INSIDE its subscribe() -----------------
   [with_pre m pre]: source 0 delivers the notifications [pre] synchronously
   while the operator subscribes to it (Observable.create-style or
   ImmediateScheduler sources); they go through the same handlers.  After a
   terminal one the source's own auto-detach wrapper drops the rest.  When the
   OPERATOR terminates on a non-terminal notification (a raising callback),
   the source cannot be unsubscribed yet -- its subscribe() has not returned
   -- and keeps delivering: the handlers still run (their side effects are
   visible) but everything they send downstream is dropped ([feed_dead]). *)
Section Pre.
Context {A B : Type} (m : machine A B).

Definition only_effects (cs : list (cmd B)) : list (cmd B) :=
  filter (fun c => match c with CEffect _ => true | _ => false end) cs.

Fixpoint feed_dead (s : x_state m) (pre : list (ev A)) : x_state m * list (cmd B) :=
  match pre with
  | [] => (s, [])
  | e :: t =>
      let '(s', cs, _) := x_step m s 0 (ISrc 0%nat e) in
      if is_terminal e then (s', only_effects cs)
      else let '(s'', cs') := feed_dead s' t in (s'', only_effects cs ++ cs')
  end.

Fixpoint feed_pre (s : x_state m) (pre : list (ev A)) : x_state m * list (cmd B) * fin :=
  match pre with
  | [] => (s, [], Cont)
  | e :: t =>
      let '(s', cs, f) := x_step m s 0 (ISrc 0%nat e) in
      match f with
      | Cont => if is_terminal e then (s', cs ++ [CUnsub 0%nat], Cont)
                else let '(s'', cs', f') := feed_pre s' t in (s'', cs ++ cs', f')
      | _ => if is_terminal e then (s', cs, f)
             else let '(s'', cs') := feed_dead s' t in (s'', cs ++ cs', f)
      end
  end.

Definition subscribes0 (cs : list (cmd B)) : bool :=
  existsb (fun c => match c with CSub O => true | _ => false end) cs.

Definition with_pre (pre : list (ev A)) : machine A B :=
  Machine
    (let '(s0, cs0, f0) := x_start m in
     if live f0 && subscribes0 cs0
     then let '(s1, cs1, f1) := feed_pre s0 pre in (s1, cs0 ++ cs1, f1)
     else (s0, cs0, f0))
    (x_step m).
End Pre.
