(* C12: "at most the outer and the latest inner are subscribed" as a statement about
   the runner state reached by [run] after EVERY input sequence (corollary of
   switch_reachable_shape + "a stopped runner has released everything"). *)
From RxVerif Require Import Base.Prelude Ops.Machine Ops.MachineFacts Ops.Multi Ops.MultiFacts
  Ops.RunLemmas Ops.Combinators Ops.MergeFacts Ops.SwitchInvFacts.

Section SwitchLive.
Context {A : Type}.

(* the id of the latest inner the operator has received so far (0 = none yet) *)
Definition sw_latest_after (mapper : A -> nat -> res unit) (ins : list (Z * inp A)) : nat :=
  fst (fst (fst (after (x_switch_map mapper) (fst (start_state (x_switch_map mapper)))
                       (snd (start_state (x_switch_map mapper))) ins))).

Lemma switch_run_rinv mapper (ins : list (Z * inp A)) : rinv (snd (run (x_switch_map mapper) ins)).
Proof.
  rewrite run_unfold. cbn [snd]. apply run_from_rinv.
  unfold rinv, start_state. cbn. discriminate.
Qed.

Theorem switch_run_at_most_outer_and_latest mapper (ins : list (Z * inp A)) :
  (length (r_live (snd (run (x_switch_map mapper) ins))) <= 2)%nat
  /\ NoDup (r_live (snd (run (x_switch_map mapper) ins)))
  /\ forall k, In k (r_live (snd (run (x_switch_map mapper) ins))) ->
       k = 0%nat \/ (k = sw_latest_after mapper ins /\ k <> 0%nat).
Proof.
  pose proof (switch_reachable_shape mapper ins) as H.
  pose proof (switch_run_rinv mapper ins) as Hr.
  unfold sw_latest_after.
  set (rf := snd (run (x_switch_map mapper) ins)) in *.
  destruct H as [Hs|(ol & latest & has & Es & Er & Hl & _)].
  - rewrite (Hr Hs). cbn. split; [lia|]. split; [constructor|]. intros k [].
  - rewrite Es, Er. cbn [fst r_live]. unfold switch_live.
    destruct ol, has; cbn [app length In]; (split; [lia|]); split.
    + constructor; [|constructor; [intros []|constructor]].
      intros [E|[]]. apply Hl; auto.
    + intros k [<-|[<-|[]]]; [left; reflexivity|right; split; auto].
    + constructor; [intros []|constructor].
    + intros k [<-|[]]. left; reflexivity.
    + constructor; [intros []|constructor].
    + intros k [<-|[]]. right; split; auto.
    + constructor.
    + intros k [].
Qed.
End SwitchLive.
