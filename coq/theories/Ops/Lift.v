(* Single-source Mealy operators are machines of the multi-source runner; the
   runner's emissions are exactly [exec]'s.  So the generic C01/C02/C03 runner
   theorems cover every operator of the C05/C06 catalogues too. *)
From RxVerif Require Import Base.Prelude Ops.Machine Ops.MachineFacts Ops.Multi Ops.MultiFacts.

Section Lift.
Context {A B : Type} (m : mealy A B).

Definition lift : machine A B :=
  Machine (m_init m,
           map CEmit (fst (m_pre m)) ++ (if live (snd (m_pre m)) then [CSub 0%nat] else []),
           snd (m_pre m))
    (fun s _ i =>
       match i with
       | ISrc _ (Next x) => (fst (fst (m_next m s x)), map CEmit (snd (fst (m_next m s x))), snd (m_next m s x))
       | ISrc _ (Err e) => (s, map CEmit (fst (m_err m s e)), snd (m_err m s e))
       | ISrc _ Done => (s, map CEmit (fst (m_done m s)), snd (m_done m s))
       | _ => (s, [], Cont)
       end).

Definition feed0 (ins : list (ev A)) : list (Z * inp A) := map (fun e => (0, ISrc 0%nat e)) ins.

Lemma apply_emits (outs : list B) (r : rstate) :
  apply_cmds r (map CEmit outs) = (r, map (fun b => OEmit (Next b)) outs).
Proof.
  induction outs as [|b t IH]; [reflexivity|]. cbn [map apply_cmds]. rewrite IH. reflexivity.
Qed.

Lemma temitted_app (a b : list (nat * obs B)) : temitted (a ++ b) = temitted a ++ temitted b.
Proof. unfold temitted. apply flat_map_app. Qed.

Lemma temitted_emits k (outs : list B) :
  temitted (map (fun x => (k, x)) (map (fun b => OEmit (Next b)) outs)) = map (fun b => (k, Next b)) outs.
Proof. unfold temitted. induction outs as [|b t IH]; [reflexivity|]. cbn. now rewrite IH. Qed.

Lemma temitted_finish k (r : rstate) f :
  temitted (map (fun x => (k, x)) (snd (@finish B r f)))
  = match f with Cont => [] | Complete => [(k, Done)] | Fail e => [(k, Err e)] end.
Proof.
  destruct f; cbn [finish]; [reflexivity| |]; unfold release; cbn [snd map temitted flat_map fst];
    f_equal; rewrite map_app, !map_map; cbn;
    (assert (H : forall (f : nat -> obs B) l, (forall x, match f x with OEmit _ => False | _ => True end) ->
       flat_map (fun x : nat * obs B => match snd x with OEmit e => [(fst x, e)] | _ => [] end)
                (map (fun x => (k, f x)) l) = [])
     by (intros g l Hg; induction l as [|y t IH]; [reflexivity|]; cbn; specialize (Hg y);
         destruct (g y); try contradiction; exact IH));
    rewrite flat_map_app, (H OUnsub), (H OCancel); auto.
Qed.

Lemma lift_dead ins : forall s k ts st,
  fst (run_from lift s (RState [] ts st) k (feed0 ins)) = [].
Proof.
  induction ins as [|e rest IH]; intros s k ts st; [reflexivity|].
  cbn [feed0 map run_from]. unfold rstep. destruct st; cbn [r_stopped r_live mem existsb].
  - specialize (IH s (S k) ts true). fold (feed0 rest).
    destruct (run_from lift s (RState [] ts true) (S k) (feed0 rest)) as [tr rf].
    cbn [fst] in *. subst tr. reflexivity.
  - specialize (IH s (S k) ts false). fold (feed0 rest).
    destruct (run_from lift s (RState [] ts false) (S k) (feed0 rest)) as [tr rf].
    cbn [fst] in *. subst tr. reflexivity.
Qed.

Lemma lift_from ins : forall s k,
  temitted (fst (run_from lift s (RState [0%nat] [] false) k (feed0 ins))) = exec_from m s k ins.
Proof.
  induction ins as [|e rest IH]; intros s k; [reflexivity|].
  cbn [feed0 map run_from]. unfold rstep. cbn [r_stopped r_live mem existsb Nat.eqb orb].
  destruct e as [x|e|].
  - cbn [lift x_step exec_from]. destruct (m_next m s x) as [[s' outs] f]. cbn [fst snd].
    rewrite apply_emits. cbn [is_terminal andb].
    pose proof (temitted_finish k (RState [0%nat] [] false) f) as HF.
    fold (feed0 rest).
    destruct (finish (RState [0%nat] [] false) f) as [r3 o3] eqn:Hfin. cbn [fst snd] in *.
    destruct f.
    + cbn in Hfin. injection Hfin as <- <-.
      specialize (IH s' (S k)).
      destruct (run_from lift s' (RState [0%nat] [] false) (S k) (feed0 rest)) as [tr rf]. cbn [fst] in *.
      rewrite !app_nil_r, temitted_app, temitted_emits, IH. unfold emit. cbn [live]. now rewrite app_nil_r.
    + assert (Hr3 : r3 = RState [] [] true) by (cbn in Hfin; unfold release in Hfin; now injection Hfin as <- _).
      subst r3. pose proof (lift_dead rest s' (S k) [] true) as HD.
      destruct (run_from lift s' (RState [] [] true) (S k) (feed0 rest)) as [tr rf]. cbn [fst] in *. subst tr.
      rewrite app_nil_r, !map_app, !temitted_app, temitted_emits, HF. cbn [map temitted flat_map snd app].
      unfold emit. cbn [live]. now rewrite app_nil_r.
    + assert (Hr3 : r3 = RState [] [] true) by (cbn in Hfin; unfold release in Hfin; now injection Hfin as <- _).
      subst r3. pose proof (lift_dead rest s' (S k) [] true) as HD.
      destruct (run_from lift s' (RState [] [] true) (S k) (feed0 rest)) as [tr rf]. cbn [fst] in *. subst tr.
      rewrite app_nil_r, !map_app, !temitted_app, temitted_emits, HF. cbn [map temitted flat_map snd app].
      unfold emit. cbn [live]. now rewrite app_nil_r.
  - cbn [lift x_step exec_from]. destruct (m_err m s e) as [outs f]. cbn [fst snd].
    rewrite apply_emits. cbn [is_terminal andb r_live r_timers r_stopped mem existsb Nat.eqb orb remove].
    pose proof (temitted_finish k (RState [] [] false) f) as HF.
    fold (feed0 rest).
    destruct (finish (RState [] [] false) f) as [r3 o3] eqn:Hfin. cbn [fst snd] in *.
    assert (Hr3 : r_live r3 = []) by (destruct f; cbn in Hfin; injection Hfin as <- _; reflexivity).
    destruct r3 as [lv ts st]. cbn in Hr3. subst lv.
    pose proof (lift_dead rest s (S k) ts st) as HD.
    destruct (run_from lift s (RState [] ts st) (S k) (feed0 rest)) as [tr rf]. cbn [fst] in *. subst tr.
    rewrite ?app_nil_r, ?map_app, ?temitted_app, ?temitted_emits, ?HF. cbn [map temitted flat_map snd app].
    unfold emit. rewrite ?app_nil_r. reflexivity.
  - cbn [lift x_step exec_from]. destruct (m_done m s) as [outs f]. cbn [fst snd].
    rewrite apply_emits. cbn [is_terminal andb r_live r_timers r_stopped mem existsb Nat.eqb orb remove].
    pose proof (temitted_finish k (RState [] [] false) f) as HF.
    fold (feed0 rest).
    destruct (finish (RState [] [] false) f) as [r3 o3] eqn:Hfin. cbn [fst snd] in *.
    assert (Hr3 : r_live r3 = []) by (destruct f; cbn in Hfin; injection Hfin as <- _; reflexivity).
    destruct r3 as [lv ts st]. cbn in Hr3. subst lv.
    pose proof (lift_dead rest s (S k) ts st) as HD.
    destruct (run_from lift s (RState [] ts st) (S k) (feed0 rest)) as [tr rf]. cbn [fst] in *. subst tr.
    rewrite ?app_nil_r, !map_app, !temitted_app, temitted_emits, HF. cbn [map temitted flat_map snd app].
    unfold emit. rewrite ?app_nil_r. reflexivity.
Qed.

Lemma apply_emits_then (outs : list B) (cs : list (cmd B)) (r : rstate) :
  apply_cmds r (map CEmit outs ++ cs)
  = (fst (apply_cmds r cs), map (fun b => OEmit (Next b)) outs ++ snd (apply_cmds r cs)).
Proof.
  induction outs as [|b t IH]; cbn [map app apply_cmds].
  - destruct (apply_cmds r cs); reflexivity.
  - rewrite IH. reflexivity.
Qed.

(* the runner on a lifted operator emits exactly what [exec] says *)
Theorem lift_exec ins : temitted (fst (run lift (feed0 ins))) = exec m ins.
Proof.
  unfold run, exec. cbn [lift x_start]. destruct (m_pre m) as [outs f]. cbn [fst snd].
  rewrite apply_emits_then.
  destruct f; cbn [live apply_cmds fst snd app r_live r_timers r_stopped finish].
  - pose proof (lift_from ins (m_init m) 1) as H.
    destruct (run_from lift (m_init m) (RState [0%nat] [] false) 1 (feed0 ins)) as [tr rf]. cbn [fst] in *.
    rewrite !app_nil_r, temitted_app, map_app, temitted_app, temitted_emits, H.
    unfold emit. cbn. now rewrite app_nil_r.
  - unfold release. cbn [fst snd r_live r_timers sort_nat fold_right map app].
    pose proof (lift_dead ins (m_init m) 1 [] true) as HD.
    destruct (run_from lift (m_init m) (RState [] [] true) 1 (feed0 ins)) as [tr rf]. cbn [fst] in *. subst tr.
    rewrite !app_nil_r, map_app, temitted_app, temitted_emits. unfold emit. reflexivity.
  - unfold release. cbn [fst snd r_live r_timers sort_nat fold_right map app].
    pose proof (lift_dead ins (m_init m) 1 [] true) as HD.
    destruct (run_from lift (m_init m) (RState [] [] true) 1 (feed0 ins)) as [tr rf]. cbn [fst] in *. subst tr.
    rewrite !app_nil_r, map_app, temitted_app, temitted_emits. unfold emit. reflexivity.
Qed.
End Lift.
