(* C18: buffer_toggle at run level.  Over ALL interleavings of the notifications of the source
   (port 0), of the openings (port 1) and of the closing observables the closing mapper makes
   (port 2+g for the observable made for buffer g), what the subscriber of [x_buffer_toggle]
   (Ops/Windows.v: flat_map(to_list) over window_toggle) receives equals a walk whose state is: is
   the source / are the openings still listened to, and the list [bcls] of the buffers whose closing
   observable is still subscribed, each with its content while it is open (opening order):
     - a source element is appended to every open buffer;
     - an element of the openings opens a new, empty buffer g and subscribes a NEW closing
       observable (port 2+g) made by the g-th call of the mapper; if that call raises, the result
       fails with that error;
     - the first notification of buffer g's closing observable, an element or its completion,
       emits buffer g (empty or not);
     - the source's completion emits every open buffer, in opening order;
     - the result completes when the openings have completed and no buffer is open;
     - an error on any subscribed port fails the result; the open buffers are lost. *)
From RxVerif Require Import Base.Prelude Ops.Machine Ops.MachineFacts Ops.MultiWin Ops.MultiWinFacts
  Ops.Windows Ops.WindowCountFacts Ops.WindowCountRun Ops.WindowFacts Ops.BufferFacts Ops.BufferCountFacts
  Ops.WinSim Ops.WindowWhenRun Ops.WindowToggleRun.

Local Arguments Multi.mem : simpl never.
Local Arguments Multi.remove : simpl never.
Local Arguments Multi.sort_nat : simpl never.

Section BufferToggle.
Context {A : Type}.
Variable mapper : nat -> res unit.
Notation MW := (x_window_toggle (A:=A) (B:=unit) mapper).
Notation MB := (x_buffer_toggle (A:=A) mapper).
Notation tin := (Z * nat * ev A)%type.
Notation bcl := (list (nat * option (list A))).
Notation bc := (buf_cmds (A:=A) (B0:=unit)).

(* ---- the closing subscriptions, with the content of the buffers that are open ---- *)
Definition is_some {X} (o : option X) : bool := match o with Some _ => true | None => false end.
Definition flags (b : bcl) : list (nat * bool) := map (fun c => (fst c, is_some (snd c))) b.
Definition bo_open (b : bcl) : list (nat * list A) :=
  flat_map (fun c => match snd c with Some l => [(fst c, l)] | None => [] end) b.
Fixpoint bo_find (j : nat) (b : bcl) : option (option (list A)) :=
  match b with [] => None | (i, o) :: t => if Nat.eqb j i then Some o else bo_find j t end.
Fixpoint bo_del (j : nat) (b : bcl) : bcl :=
  match b with [] => [] | (i, o) :: t => if Nat.eqb j i then t else (i, o) :: bo_del j t end.
Definition bo_close (b : bcl) : bcl := map (fun c => (fst c, None)) b.
Definition bo_push (x : A) (b : bcl) : bcl := map (fun c => (fst c, option_map (fun l => l ++ [x]) (snd c))) b.

Lemma flags_keys b : map fst (flags b) = map fst b.
Proof. unfold flags. rewrite map_map. reflexivity. Qed.
Lemma flags_del j b : flags (bo_del j b) = cl_del j (flags b).
Proof.
  induction b as [|[i o] t IH]; [reflexivity|]. cbn [bo_del flags map fst snd cl_del].
  destruct (Nat.eqb j i); [reflexivity|]. cbn [map fst snd]. f_equal. exact IH.
Qed.
Lemma flags_close b : flags (bo_close b) = cl_close (flags b).
Proof. unfold flags, bo_close, cl_close. rewrite !map_map. reflexivity. Qed.
Lemma flags_push x b : flags (bo_push x b) = flags b.
Proof.
  unfold flags, bo_push. rewrite map_map. apply map_ext. intros [i [l|]]; reflexivity.
Qed.
Lemma flags_snoc b g l : flags (b ++ [(g, Some l)]) = flags b ++ [(g, true)].
Proof. unfold flags. rewrite map_app. reflexivity. Qed.
Lemma flags_find j b : cl_find j (flags b) = option_map is_some (bo_find j b).
Proof.
  induction b as [|[i o] t IH]; [reflexivity|]. cbn [flags map fst snd cl_find bo_find].
  destruct (Nat.eqb j i); [reflexivity|exact IH].
Qed.
Lemma okeys_bo_open b : okeys (bo_open b) = cl_ws (flags b).
Proof.
  induction b as [|[i [l|]] t IH]; [reflexivity| |]; cbn [bo_open flat_map snd fst app flags map is_some];
    unfold cl_ws, okeys in *; cbn [filter snd map fst]; fold (bo_open t); fold (flags t); [f_equal|]; exact IH.
Qed.
Lemma bo_open_close b : bo_open (bo_close b) = [].
Proof. induction b as [|[i o] t IH]; [reflexivity|exact IH]. Qed.
Lemma bo_open_push x b : bo_open (bo_push x b) = map (fun kb => (fst kb, snd kb ++ [x])) (bo_open b).
Proof.
  induction b as [|[i [l|]] t IH]; [reflexivity| |]; cbn [bo_push map fst snd option_map bo_open flat_map app];
    fold (bo_push x t); fold (bo_open (bo_push x t)); fold (bo_open t); [cbn [map fst snd]; f_equal|]; exact IH.
Qed.
Lemma bo_open_snoc b g : bo_open (b ++ [(g, Some [])]) = bo_open b ++ [(g, [])].
Proof. unfold bo_open. rewrite flat_map_app. reflexivity. Qed.

Lemma buf_get_open j b : NoDup (map fst b) ->
  buf_get j (bo_open b) = match bo_find j b with Some (Some l) => Some l | _ => None end.
Proof.
  induction b as [|[i o] t IH]; [reflexivity|]. cbn [map fst]. intros H. inversion H as [|? ? Hn Hd]; subst.
  cbn [bo_find]. destruct (Nat.eqb_spec j i) as [->|Hne].
  - destruct o as [l|]; cbn [bo_open flat_map snd fst app]; fold (bo_open t).
    + cbn [buf_get]. now rewrite Nat.eqb_refl.
    + (* i is not a key of t *)
      assert (E : forall t', ~ In i (map fst t') -> buf_get (A:=A) i (bo_open t') = None).
      { induction t' as [|[i' [l'|]] t' IHt]; intros Hni; [reflexivity| |];
          cbn [bo_open flat_map snd fst app]; fold (bo_open t'); cbn [map fst] in Hni.
        - cbn [buf_get]. destruct (Nat.eqb_spec i i') as [->|]; [exfalso; apply Hni; left; reflexivity|].
          apply IHt. intros Hi. apply Hni. right. exact Hi.
        - apply IHt. intros Hi. apply Hni. right. exact Hi. }
      apply E, Hn.
  - destruct o as [l|]; cbn [bo_open flat_map snd fst app]; fold (bo_open t); [|apply IH; exact Hd].
    cbn [buf_get]. destruct (Nat.eqb_spec j i); [contradiction|]. apply IH. exact Hd.
Qed.

Lemma buf_del_open j b : NoDup (map fst b) -> buf_del j (bo_open b) = bo_open (bo_del j b).
Proof.
  induction b as [|[i o] t IH]; [reflexivity|]. cbn [map fst]. intros H. inversion H as [|? ? Hn Hd]; subst.
  cbn [bo_del]. destruct (Nat.eqb_spec j i) as [->|Hne].
  - destruct o as [l|]; cbn [bo_open flat_map snd fst app]; fold (bo_open t).
    + cbn [buf_del]. now rewrite Nat.eqb_refl.
    + assert (E : forall t', ~ In i (map fst t') -> buf_del (A:=A) i (bo_open t') = bo_open t').
      { induction t' as [|[i' [l'|]] t' IHt]; intros Hni; [reflexivity| |];
          cbn [bo_open flat_map snd fst app]; fold (bo_open t'); cbn [map fst] in Hni.
        - cbn [buf_del]. destruct (Nat.eqb_spec i i') as [->|]; [exfalso; apply Hni; left; reflexivity|].
          f_equal. apply IHt. intros Hi. apply Hni. right. exact Hi.
        - apply IHt. intros Hi. apply Hni. right. exact Hi. }
      apply E, Hn.
  - destruct o as [l|]; cbn [bo_open flat_map snd fst app]; fold (bo_open t); fold (bo_open (bo_del j t)); [|apply IH; exact Hd].
    cbn [buf_del]. destruct (Nat.eqb_spec j i); [contradiction|]. f_equal. apply IH. exact Hd.
Qed.

(* ---- flat_map(to_list) on `for s in windows: s.on_xxx` ---- *)
Lemma buf_next_all keep od x (open : list (nat * list A)) : forall head,
  NoDup (okeys head ++ okeys open) ->
  bc keep (head ++ open) od (wins_all (okeys open) (Next x))
  = (head ++ map (fun kb => (fst kb, snd kb ++ [x])) open, [], Cont).
Proof.
  induction open as [|[g b] t IH]; intros head Hnd; [reflexivity|].
  cbn [okeys map fst wins_all buf_cmds].
  assert (Hg : ~ In g (okeys head)).
  { intros Hin. apply NoDup_remove_2 in Hnd. apply Hnd. apply in_or_app. left. exact Hin. }
  rewrite buf_add_skip by exact Hg.
  change (head ++ (g, b ++ [x]) :: t) with (head ++ [(g, b ++ [x])] ++ t). rewrite app_assoc.
  fold (okeys t). fold (wins_all (B:=unit) (okeys t) (Next x)). rewrite IH.
  - cbn [map fst snd]. now rewrite <- app_assoc.
  - unfold okeys in *. rewrite map_app. cbn [map fst]. rewrite <- app_assoc. exact Hnd.
Qed.

Lemma buf_done_all od (open : list (nat * list A)) : NoDup (okeys open) ->
  bc true open od (wins_all (okeys open) Done)
  = ([], map CEmit (map snd open), if od && negb (match open with [] => true | _ => false end) then Complete else Cont).
Proof.
  induction open as [|[g b] t IH]; intros Hnd; [now rewrite Bool.andb_false_r|].
  cbn [okeys map fst snd wins_all buf_cmds buf_get buf_del]. rewrite Nat.eqb_refl.
  cbn [orb negb]. rewrite Bool.andb_true_r. fold (okeys t). fold (wins_all (A:=A) (B:=unit) (okeys t) Done).
  inversion Hnd as [|? ? Hn Hd]; subst.
  destruct od; cbn [andb].
  - destruct t as [|[g' b'] t'].
    + reflexivity.
    + rewrite IH by exact Hd. cbn [negb andb app]. reflexivity.
  - rewrite IH by exact Hd. cbn [andb app]. reflexivity.
Qed.

Lemma buf_err_all od z (open : list (nat * list A)) :
  snd (fst (bc true open od (wins_all (okeys open) (Err z)))) = []
  /\ snd (bc true open od (wins_all (okeys open) (Err z))) = match open with [] => Cont | _ => Fail z end.
Proof. destruct open as [|[g b] t]; cbn; [auto|]. rewrite Nat.eqb_refl. cbn. auto. Qed.

(* ---- the walk ---- *)
Fixpoint bg_walk (l0 l1 : bool) (b : bcl) (g pos : nat) (ins : list tin) : list (nat * obs A (list A)) :=
  match ins with
  | [] => []
  | (_, k, e) :: rest =>
      match k with
      | O =>
          if l0 then
            match e with
            | Next x => bg_walk l0 l1 (bo_push x b) g (S pos) rest
            | Err z => [(pos, OEmit (Err z))]
            | Done => map (fun kb => (pos, OEmit (Next (snd kb)))) (bo_open b)
                      ++ (if l1 then bg_walk false l1 (bo_close b) g (S pos) rest else [(pos, OEmit Done)])
            end
          else bg_walk l0 l1 b g (S pos) rest
      | S O =>
          if l1 then
            match e with
            | Next _ =>
                match mapper g with
                | Ok _ => bg_walk l0 l1 (b ++ [(g, Some [])]) (S g) (S pos) rest
                | Raise z => [(pos, OEmit (Err z))]
                end
            | Err z => [(pos, OEmit (Err z))]
            | Done => match bo_open b with [] => [(pos, OEmit Done)] | _ :: _ => bg_walk l0 false b g (S pos) rest end
            end
          else bg_walk l0 l1 b g (S pos) rest
      | S (S j) =>
          match bo_find j b with
          | None => bg_walk l0 l1 b g (S pos) rest
          | Some o =>
              match e with
              | Err z => [(pos, OEmit (Err z))]
              | _ =>
                  match o with
                  | Some c =>
                      (pos, OEmit (Next c))
                      :: (if negb l1 && match bo_open (bo_del j b) with [] => true | _ => false end
                          then [(pos, OEmit Done)]
                          else bg_walk l0 l1 (bo_del j b) g (S pos) rest)
                  | None => bg_walk l0 l1 (bo_del j b) g (S pos) rest
                  end
              end
          end
      end
  end.

(* ---- states ---- *)
Definition bg_rstate (l0 l1 : bool) (b : bcl) : rstate A := RState (tg_live l0 l1 (flags b)) [] true [] [] [] false.
Definition bg_mstate (l1 : bool) (b : bcl) (g : nat) : buf_st (A:=A) wg_st :=
  BufSt (tg_mstate (flags b) g) (bo_open b) (negb l1).

Record bg_inv (l1 : bool) (b : bcl) (g : nat) : Prop := {
  bv_nodup : NoDup (map fst b);
  bv_lt : forall j, In j (map fst b) -> (j < g)%nat;
  bv_alive : l1 = false -> bo_open b <> [] }.

Definition bg_next (res : buf_st (A:=A) wg_st * rstate A * list (obs A (list A))) (vis : list (obs A (list A)))
  (nxt : option (bool * bool * bcl * nat)) : Prop :=
  filter is_vis (snd res) = vis /\
  match nxt with
  | None => r_live (snd (fst res)) = []
  | Some (l0', l1', b', g') =>
      fst (fst res) = bg_mstate l1' b' g' /\ snd (fst res) = bg_rstate l0' l1' b' /\ bg_inv l1' b' g'
  end.

Definition bdetach (i : inp A) (r2 : rstate A) : rstate A * list (obs A (list A)) :=
  match i with
  | ISrc k e => if is_terminal e && mem k (r_live r2)
                then (RState (remove k (r_live r2)) (r_timers r2) (r_outer r2) (r_wsubs r2) (r_wterm r2)
                             (r_handed r2) (r_released r2), [OUnsub k])
                else (r2, [])
  | _ => (r2, [])
  end.

(* one delivered input: the window machine's commands through flat_map(to_list), then the runner *)
Lemma bdeliver_eq l1 b g (r : rstate A) now i :
  let xs := x_step MW (tg_mstate (flags b) g) now i in
  let bcs := bc true (bo_open b) (negb l1) (snd (fst xs)) in
  let bf := buf_finish (fst (fst bcs)) (negb l1) (snd bcs) (snd xs) in
  let ac := apply_cmds (B:=list A) all_imm r (snd (fst bcs)) in
  let fi := finish (B:=list A) (fst ac) (snd bf) in
  let dt := bdetach i (fst fi) in
  deliver all_imm MB (bg_mstate l1 b g) r now i
  = (BufSt (fst (fst xs)) (fst (fst bcs)) (fst bf), fst dt, snd ac ++ snd fi ++ snd dt).
Proof.
  cbn zeta. unfold deliver, bdetach, x_buffer_toggle, buffered, bg_mstate.
  cbn [x_step b_inner b_open b_outer_done].
  destruct (x_step MW (tg_mstate (flags b) g) now i) as [[s' cs] f]. cbn [fst snd].
  destruct (bc true (bo_open b) (negb l1) cs) as [[open out] f1]. cbn [fst snd].
  destruct (buf_finish open (negb l1) f1 f) as [od f2]. cbn [fst snd].
  destruct (apply_cmds all_imm r out) as [r1 o1]. cbn [fst snd]. destruct (finish r1 f2) as [r2 o2]. cbn [fst snd].
  destruct i as [k e| | | |]; try reflexivity. destruct (is_terminal e && mem k (r_live r2)); reflexivity.
Qed.

Lemma bdetach_dead i (r2 : rstate A) : r_live r2 = [] -> bdetach i r2 = (r2, []).
Proof. intros H. unfold bdetach. destruct i; try reflexivity. rewrite H, mem_nil', Bool.andb_false_r. reflexivity. Qed.

(* the result terminates: everything is released *)
Lemma bg_finish_end l0 l1 b (f : fin) : f <> Cont ->
  r_live (fst (finish (B:=list A) (bg_rstate l0 l1 b) f)) = []
  /\ filter is_vis (snd (finish (B:=list A) (bg_rstate l0 l1 b) f))
     = [OEmit (match f with Fail z => Err z | _ => Done end)].
Proof.
  intros Hf. unfold bg_rstate. destruct f as [| |z]; [contradiction| |]; cbn [finish r_outer]; unfold end_outer, maybe_release;
    cbn [r_outer r_released r_wsubs r_live r_timers r_wterm r_handed negb andb fst snd filter is_vis];
    rewrite vis_release; auto.
Qed.

Ltac rs := cbn [r_live r_timers r_outer r_wsubs r_wterm r_handed r_released fst snd app apply_cmds apply_cmd
                finish is_terminal all_imm negb andb orb repeat filter].

Lemma bg_flags_nodup l1 b g : bg_inv l1 b g -> NoDup (map fst (flags b)).
Proof. intros I. rewrite flags_keys. apply (bv_nodup _ _ _ I). Qed.

Lemma bg_step_skip l0 l1 b g t k e : bg_inv l1 b g -> mem k (tg_live l0 l1 (flags b)) = false ->
  bg_next (rstep all_imm MB (bg_mstate l1 b g) (bg_rstate l0 l1 b) t (ISrc k e)) [] (Some (l0, l1, b, g)).
Proof. intros I Hm. unfold rstep. cbn [bg_rstate r_live]. rewrite Hm. split; [reflexivity|]. auto. Qed.

(* a source element *)
Lemma bg_step_src_next l1 b g t x : bg_inv l1 b g ->
  bg_next (rstep all_imm MB (bg_mstate l1 b g) (bg_rstate true l1 b) t (ISrc 0%nat (Next x))) []
          (Some (true, l1, bo_push x b, g)).
Proof.
  intros I. unfold rstep. cbn [bg_rstate r_live]. rewrite tg_live_mem0. fold (bg_rstate true l1 b).
  pose proof (bdeliver_eq l1 b g (bg_rstate true l1 b) t (ISrc 0%nat (Next x))) as E. cbn zeta in E. rewrite E. clear E.
  cbn [x_step x_window_toggle fst snd]. rewrite wg_windows_ms, <- okeys_bo_open.
  pose proof (buf_next_all true (negb l1) x (bo_open b) []) as Hb. cbn [app okeys map] in Hb. fold (okeys (bo_open b)) in Hb.
  rewrite Hb by (rewrite okeys_bo_open; apply cl_ws_nodup, (bg_flags_nodup l1 b g I)). clear Hb.
  cbn [fst snd buf_finish apply_cmds finish bdetach is_terminal andb app]. split; [reflexivity|].
  cbn [fst snd]. repeat split.
  - unfold bg_mstate. now rewrite flags_push, bo_open_push.
  - unfold bg_rstate. now rewrite flags_push.
  - unfold bo_push. rewrite map_map. cbn [fst]. apply (bv_nodup _ _ _ I).
  - unfold bo_push. rewrite map_map. cbn [fst]. apply (bv_lt _ _ _ I).
  - intros Hl. rewrite bo_open_push. pose proof (bv_alive _ _ _ I Hl) as Hne.
    destruct (bo_open b); [contradiction|discriminate].
Qed.

Lemma filter_vis_emits {X} (f : X -> list A) (l : list X) :
  filter is_vis (map (fun c => @OEmit A (list A) (Next (f c))) l) = map (fun c => OEmit (Next (f c))) l.
Proof. induction l as [|c t IH]; [reflexivity|]. cbn [map filter is_vis]. now rewrite IH. Qed.

(* the source completes: every open buffer is emitted *)
Lemma bg_step_src_done l1 b g t : bg_inv l1 b g ->
  bg_next (rstep all_imm MB (bg_mstate l1 b g) (bg_rstate true l1 b) t (ISrc 0%nat Done))
          (map (fun kb => OEmit (Next (snd kb))) (bo_open b) ++ (if l1 then [] else [OEmit Done]))
          (if l1 then Some (false, l1, bo_close b, g) else None).
Proof.
  intros I. unfold rstep. cbn [bg_rstate r_live]. rewrite tg_live_mem0. fold (bg_rstate true l1 b).
  pose proof (bdeliver_eq l1 b g (bg_rstate true l1 b) t (ISrc 0%nat Done)) as E. cbn zeta in E. rewrite E. clear E.
  cbn [x_step x_window_toggle fst snd wg_next wg_calls tg_mstate]. fold (tg_mstate (flags b) g).
  rewrite wg_windows_ms, <- okeys_bo_open.
  rewrite buf_done_all by (rewrite okeys_bo_open; apply cl_ws_nodup, (bg_flags_nodup l1 b g I)).
  cbn [fst snd]. rewrite (apply_emits (bg_rstate true l1 b) (map snd (bo_open b)) eq_refl). cbn [fst snd].
  rewrite map_map.
  destruct l1; cbn [negb andb].
  - cbn [buf_finish fst snd finish]. unfold bdetach, bg_rstate. cbn [is_terminal andb r_live]. rewrite tg_live_mem0. cbn [fst snd].
    split; [cbn [fst snd]; rewrite !filter_app; cbn [filter is_vis]; rewrite !app_nil_r;
            apply filter_vis_emits|].
    cbn [fst snd r_timers r_outer r_wsubs r_wterm r_handed r_released]. repeat split.
    + unfold bg_mstate. rewrite flags_close, bo_open_close. unfold tg_mstate. rewrite cl_ws_close. reflexivity.
    + unfold bg_rstate. rewrite tg_live_remove0, flags_close, tg_live_close. reflexivity.
    + unfold bo_close. rewrite map_map. cbn [fst]. apply (bv_nodup _ _ _ I).
    + unfold bo_close. rewrite map_map. cbn [fst]. apply (bv_lt _ _ _ I).
    + discriminate.
  - pose proof (bv_alive _ _ _ I eq_refl) as Hne. destruct (bo_open b) as [|kb t'] eqn:Eo; [contradiction|].
    cbn [negb buf_finish fst snd].
    destruct (bg_finish_end true false b Complete ltac:(discriminate)) as [D V].
    rewrite (bdetach_dead _ _ D). cbn [fst snd]. split; [|exact D].
    cbn [snd]. rewrite app_nil_r, filter_app, V. f_equal. apply filter_vis_emits.
Qed.

(* an error on a subscribed port fails the result *)
Lemma bg_step_err l0 l1 b g t k z : bg_inv l1 b g -> mem k (tg_live l0 l1 (flags b)) = true ->
  bg_next (rstep all_imm MB (bg_mstate l1 b g) (bg_rstate l0 l1 b) t (ISrc k (Err z))) [OEmit (Err z)] None.
Proof.
  intros I Hm. unfold rstep. cbn [bg_rstate r_live]. rewrite Hm. fold (bg_rstate l0 l1 b).
  pose proof (bdeliver_eq l1 b g (bg_rstate l0 l1 b) t (ISrc k (Err z))) as E. cbn zeta in E. rewrite E. clear E.
  rewrite (window_toggle_error_fanout (A:=A) (B:=unit) mapper (tg_mstate (flags b) g) t k z). cbn [fst snd].
  rewrite wg_windows_ms, <- okeys_bo_open.
  destruct (buf_err_all (negb l1) z (bo_open b)) as [Ho Hf]. rewrite Ho.
  assert (Ef : snd (buf_finish (fst (fst (bc true (bo_open b) (negb l1) (wins_all (okeys (bo_open b)) (Err z))))) (negb l1)
                      (snd (bc true (bo_open b) (negb l1) (wins_all (okeys (bo_open b)) (Err z)))) (Fail z)) = Fail z).
  { rewrite Hf. destruct (bo_open b); reflexivity. }
  rewrite Ef. cbn [apply_cmds fst snd app].
  destruct (bg_finish_end l0 l1 b (Fail z) ltac:(discriminate)) as [D V].
  rewrite (bdetach_dead _ _ D). cbn [fst snd]. rewrite app_nil_r. split; [exact V|exact D].
Qed.

Lemma okeys_app' (p q : list (nat * list A)) : okeys (p ++ q) = okeys p ++ okeys q.
Proof. unfold okeys. apply map_app. Qed.

Lemma bg_inv_open b g : bg_inv true b g -> bg_inv true (b ++ [(g, Some [])]) (S g).
Proof.
  intros I. constructor.
  - rewrite map_app. cbn [map fst]. apply NoDup_app_snoc; [apply (bv_nodup _ _ _ I)|].
    intros Hi. pose proof (bv_lt _ _ _ I g Hi). lia.
  - intros j Hj. rewrite map_app in Hj. apply in_app_or in Hj. destruct Hj as [Hj|[Hj|[]]]; [|cbn in Hj; lia].
    pose proof (bv_lt _ _ _ I j Hj). lia.
  - discriminate.
Qed.

(* the openings emit: a new buffer, a new closing observable *)
Lemma bg_step_open_ok l0 b g t v u : bg_inv true b g -> mapper g = Ok u ->
  bg_next (rstep all_imm MB (bg_mstate true b g) (bg_rstate l0 true b) t (ISrc 1%nat (Next v))) []
          (Some (l0, true, b ++ [(g, Some [])], S g)).
Proof.
  intros I Hm. unfold rstep. cbn [bg_rstate r_live]. rewrite tg_live_mem1. fold (bg_rstate l0 true b).
  pose proof (bdeliver_eq true b g (bg_rstate l0 true b) t (ISrc 1%nat (Next v))) as E. cbn zeta in E. rewrite E. clear E.
  cbn [x_step x_window_toggle fst snd wg_next wg_calls wg_open tg_mstate]. rewrite Hm. cbn [fst snd].
  cbn [buf_cmds buf_finish fst snd negb]. unfold bg_rstate. rs. unfold bdetach. rs.
  split; [reflexivity|]. cbn [fst snd]. split; [|split; [|apply bg_inv_open; exact I]].
  - unfold bg_mstate, tg_mstate. rewrite flags_snoc, cl_ws_app, map_app, bo_open_snoc. reflexivity.
  - change (2 + g)%nat with (S (S g)). rewrite tg_live_snoc with (b := true), <- (flags_snoc b g []). reflexivity.
Qed.

(* ... the closing mapper raises: the result fails *)
Lemma bg_step_open_raise l0 b g t v z : bg_inv true b g -> mapper g = Raise z ->
  bg_next (rstep all_imm MB (bg_mstate true b g) (bg_rstate l0 true b) t (ISrc 1%nat (Next v))) [OEmit (Err z)] None.
Proof.
  intros I Hm. unfold rstep. cbn [bg_rstate r_live]. rewrite tg_live_mem1. fold (bg_rstate l0 true b).
  pose proof (bdeliver_eq true b g (bg_rstate l0 true b) t (ISrc 1%nat (Next v))) as E. cbn zeta in E. rewrite E. clear E.
  cbn [x_step x_window_toggle fst snd wg_next wg_calls wg_open tg_mstate]. rewrite Hm. cbn [fst snd].
  assert (Ew : wg_windows (WgSt (map (fun j => (j, S (S j))) (cl_ws (flags b)) ++ [(g, 0%nat)]) (S g) (S g))
               = okeys (bo_open b ++ [(g, [])])).
  { unfold wg_windows. cbn [wg_open]. rewrite map_app, map_map. cbn [map fst]. rewrite map_id, okeys_app', okeys_bo_open. reflexivity. }
  rewrite Ew. cbn [buf_cmds negb].
  destruct (buf_err_all false z (bo_open b ++ [(g, [])])) as [Ho Hf].
  destruct (bc true (bo_open b ++ [(g, [])]) false (wins_all (okeys (bo_open b ++ [(g, [])])) (Err z))) as [[o out] f1].
  cbn [fst snd] in *. subst out.
  assert (Ef1 : f1 = Fail z) by (rewrite Hf; destruct (bo_open b); reflexivity). clear Hf. subst f1.
  cbn [buf_finish fst snd apply_cmds app].
  destruct (bg_finish_end l0 true b (Fail z) ltac:(discriminate)) as [D V].
  rewrite (bdetach_dead _ _ D). cbn [fst snd]. rewrite app_nil_r. split; [exact V|exact D].
Qed.

(* the openings complete: the result completes once no buffer is open *)
Lemma bg_step_open_done l0 b g t : bg_inv true b g ->
  bg_next (rstep all_imm MB (bg_mstate true b g) (bg_rstate l0 true b) t (ISrc 1%nat Done))
          (match bo_open b with [] => [OEmit Done] | _ :: _ => [] end)
          (match bo_open b with [] => None | _ :: _ => Some (l0, false, b, g) end).
Proof.
  intros I. unfold rstep. cbn [bg_rstate r_live]. rewrite tg_live_mem1. fold (bg_rstate l0 true b).
  pose proof (bdeliver_eq true b g (bg_rstate l0 true b) t (ISrc 1%nat Done)) as E. cbn zeta in E. rewrite E. clear E.
  cbn [x_step x_window_toggle fst snd buf_cmds buf_finish negb apply_cmds app].
  destruct (bo_open b) as [|kb t'] eqn:Eo.
  - destruct (bg_finish_end l0 true b Complete ltac:(discriminate)) as [D V].
    rewrite (bdetach_dead _ _ D). cbn [fst snd]. rewrite app_nil_r. split; [exact V|exact D].
  - cbn [finish fst snd]. unfold bdetach, bg_rstate. cbn [is_terminal andb r_live]. rewrite tg_live_mem1. cbn [fst snd].
    split; [reflexivity|]. cbn [fst snd r_timers r_outer r_wsubs r_wterm r_handed r_released]. repeat split.
    + unfold bg_mstate. rewrite Eo. reflexivity.
    + apply (bv_nodup _ _ _ I).
    + apply (bv_lt _ _ _ I).
    + intros _. rewrite Eo. discriminate.
Qed.

(* the window machine at a closing observable's first notification *)
Lemma tgx_close_open cls g t j (e : ev A) : NoDup (map fst cls) -> cl_find j cls = Some true -> (forall z, e <> Err z) ->
  x_step MW (tg_mstate cls g) t (ISrc (S (S j)) e) = (tg_mstate (cl_del j cls) g, [CWin j Done; CUnsub (S (S j))], Cont).
Proof.
  intros Hnd Hf He.
  assert (Hin : In j (cl_ws cls)) by (apply cl_ws_in, (cl_find_some j true cls Hnd), Hf).
  assert (Efd : wg_find (S (S j)) (wg_open (tg_mstate cls g)) = Some j).
  { unfold tg_mstate. cbn [wg_open]. rewrite wg_find_ws, (proj2 (mem_In j (cl_ws cls)) Hin). reflexivity. }
  assert (Est : WgSt (filter (fun gc => negb (Nat.eqb (S (S j)) (snd gc))) (wg_open (tg_mstate cls g)))
                     (wg_next (tg_mstate cls g)) (wg_calls (tg_mstate cls g)) = tg_mstate (cl_del j cls) g).
  { unfold tg_mstate. cbn [wg_open wg_next wg_calls]. rewrite filter_map_close, <- cl_ws_del by exact Hnd. reflexivity. }
  destruct e as [x|z|]; [|exfalso; exact (He z eq_refl)|]; cbn [x_step x_window_toggle]; rewrite Efd, Est; reflexivity.
Qed.

Lemma tgx_close_orphan cls g t j (e : ev A) : NoDup (map fst cls) -> cl_find j cls = Some false -> (forall z, e <> Err z) ->
  x_step MW (tg_mstate cls g) t (ISrc (S (S j)) e) = (tg_mstate cls g, [CUnsub (S (S j))], Cont)
  /\ cl_ws (cl_del j cls) = cl_ws cls.
Proof.
  intros Hnd Hf He.
  assert (Hnin : ~ In j (cl_ws cls)).
  { intros Hin. apply cl_ws_in, (cl_find_some j true cls Hnd) in Hin. congruence. }
  split; [|rewrite cl_ws_del by exact Hnd; apply filter_notin, Hnin].
  assert (Efd : wg_find (S (S j)) (wg_open (tg_mstate cls g)) = None).
  { unfold tg_mstate. cbn [wg_open]. rewrite wg_find_ws.
    destruct (mem j (cl_ws cls)) eqn:Em; [apply mem_In in Em; contradiction|reflexivity]. }
  destruct e as [x|z|]; [|exfalso; exact (He z eq_refl)|]; cbn [x_step x_window_toggle]; rewrite Efd; reflexivity.
Qed.

Lemma bo_find_key j b o : bo_find j b = Some o -> In j (map fst b).
Proof.
  induction b as [|[i o'] t IH]; [discriminate|]. cbn [bo_find map fst].
  destruct (Nat.eqb_spec j i) as [->|]; [left; reflexivity|]. intros H. right. auto.
Qed.
Lemma bo_del_keys_incl j b i : In i (map fst (bo_del j b)) -> In i (map fst b).
Proof. rewrite <- !flags_keys, flags_del. apply cl_del_keys_incl. Qed.
Lemma bo_del_nodup j b : NoDup (map fst b) -> NoDup (map fst (bo_del j b)).
Proof. rewrite <- !flags_keys, flags_del. apply cl_del_nodup. Qed.
Lemma bo_open_del_orphan j b : bo_find j b = Some None -> bo_open (bo_del j b) = bo_open b.
Proof.
  induction b as [|[i o] t IH]; [discriminate|]. cbn [bo_find bo_del].
  destruct (Nat.eqb j i).
  - intros [= ->]. reflexivity.
  - intros H. destruct o as [l|]; cbn [bo_open flat_map snd fst app]; fold (bo_open t); fold (bo_open (bo_del j t));
      now rewrite IH.
Qed.

(* the closing observable of an open buffer fires: that buffer is emitted *)
Lemma bg_step_close_open l0 l1 b g t j e c : bg_inv l1 b g -> bo_find j b = Some (Some c) -> (forall z, e <> Err z) ->
  bg_next (rstep all_imm MB (bg_mstate l1 b g) (bg_rstate l0 l1 b) t (ISrc (S (S j)) e))
          (OEmit (Next c) :: (if negb l1 && match bo_open (bo_del j b) with [] => true | _ => false end then [OEmit Done] else []))
          (if negb l1 && match bo_open (bo_del j b) with [] => true | _ => false end then None
           else Some (l0, l1, bo_del j b, g)).
Proof.
  intros I Hf He. pose proof (bv_nodup _ _ _ I) as Hnd. pose proof (bg_flags_nodup l1 b g I) as Hnf.
  assert (Hcf : cl_find j (flags b) = Some true) by (rewrite flags_find, Hf; reflexivity).
  unfold rstep. cbn [bg_rstate r_live]. rewrite tg_live_memS, Hcf. fold (bg_rstate l0 l1 b).
  pose proof (bdeliver_eq l1 b g (bg_rstate l0 l1 b) t (ISrc (S (S j)) e)) as E. cbn zeta in E. rewrite E. clear E.
  rewrite (tgx_close_open (flags b) g t j e Hnf Hcf He). cbn [fst snd buf_cmds].
  rewrite (buf_get_open j b Hnd), Hf, (buf_del_open j b Hnd). cbn [orb].
  destruct (negb l1 && match bo_open (bo_del j b) with [] => true | _ => false end) eqn:Erel.
  - cbn [fst snd buf_finish].
    change [@CEmit A (list A) c] with (map (@CEmit A (list A)) [c]).
    rewrite (apply_emits (bg_rstate l0 l1 b) [c] eq_refl). cbn [fst snd map].
    destruct (bg_finish_end l0 l1 b Complete ltac:(discriminate)) as [D V].
    rewrite (bdetach_dead _ _ D). cbn [fst snd]. rewrite app_nil_r. split; [|exact D].
    cbn [snd app filter is_vis]. rewrite V. reflexivity.
  - cbn [fst snd buf_finish app]. unfold bg_rstate. rs. rewrite tg_live_memS, Hcf. rs.
    unfold bdetach. cbn [r_live]. rewrite tg_live_removeS, tg_live_memS, (cl_find_del_self j (flags b) Hnf), Bool.andb_false_r.
    cbn [fst snd]. split; [reflexivity|]. cbn [fst snd]. repeat split.
    + unfold bg_mstate. rewrite flags_del. reflexivity.
    + unfold bg_rstate. rewrite flags_del. reflexivity.
    + apply bo_del_nodup, Hnd.
    + intros i Hi. apply (bv_lt _ _ _ I). eapply bo_del_keys_incl; eauto.
    + intros ->. cbn [negb andb] in Erel. destruct (bo_open (bo_del j b)); [discriminate Erel|discriminate].
Qed.

(* ... of a buffer the source's completion emitted before: the subscription goes, nothing else *)
Lemma bg_step_close_orphan l0 l1 b g t j e : bg_inv l1 b g -> bo_find j b = Some None -> (forall z, e <> Err z) ->
  bg_next (rstep all_imm MB (bg_mstate l1 b g) (bg_rstate l0 l1 b) t (ISrc (S (S j)) e)) []
          (Some (l0, l1, bo_del j b, g)).
Proof.
  intros I Hf He. pose proof (bv_nodup _ _ _ I) as Hnd. pose proof (bg_flags_nodup l1 b g I) as Hnf.
  assert (Hcf : cl_find j (flags b) = Some false) by (rewrite flags_find, Hf; reflexivity).
  destruct (tgx_close_orphan (flags b) g t j e Hnf Hcf He) as [Ex Ews].
  unfold rstep. cbn [bg_rstate r_live]. rewrite tg_live_memS, Hcf. fold (bg_rstate l0 l1 b).
  pose proof (bdeliver_eq l1 b g (bg_rstate l0 l1 b) t (ISrc (S (S j)) e)) as E. cbn zeta in E. rewrite E. clear E.
  rewrite Ex. cbn [fst snd buf_cmds buf_finish app]. unfold bg_rstate. rs. rewrite tg_live_memS, Hcf. rs.
  unfold bdetach. cbn [r_live]. rewrite tg_live_removeS, tg_live_memS, (cl_find_del_self j (flags b) Hnf), Bool.andb_false_r.
  cbn [fst snd]. split; [reflexivity|]. cbn [fst snd]. repeat split.
  - unfold bg_mstate, tg_mstate. rewrite flags_del, Ews, (bo_open_del_orphan j b Hf). reflexivity.
  - unfold bg_rstate. rewrite flags_del. reflexivity.
  - apply bo_del_nodup, Hnd.
  - intros i Hi. apply (bv_lt _ _ _ I). eapply bo_del_keys_incl; eauto.
  - rewrite (bo_open_del_orphan j b Hf). apply (bv_alive _ _ _ I).
Qed.

Lemma bg_run_from : forall (ins : list tin) l0 l1 b g pos, bg_inv l1 b g ->
  visible (fst (run_from all_imm MB (bg_mstate l1 b g) (bg_rstate l0 l1 b) pos (wports ins)))
  = bg_walk l0 l1 b g pos ins.
Proof.
  induction ins as [|[[t k] e] rest IH]; intros l0 l1 b g pos I; [reflexivity|].
  rewrite wports_cons, run_from_cons. cbn [fst].
  assert (Use : forall vis nxt,
            bg_next (rstep all_imm MB (bg_mstate l1 b g) (bg_rstate l0 l1 b) t (ISrc k e)) vis nxt ->
            visible (map (fun x => (pos, x)) (snd (rstep all_imm MB (bg_mstate l1 b g) (bg_rstate l0 l1 b) t (ISrc k e)))
                     ++ fst (run_from all_imm MB (fst (fst (rstep all_imm MB (bg_mstate l1 b g) (bg_rstate l0 l1 b) t (ISrc k e))))
                                      (snd (fst (rstep all_imm MB (bg_mstate l1 b g) (bg_rstate l0 l1 b) t (ISrc k e))))
                                      (S pos) (wports rest)))
            = map (fun x => (pos, x)) vis
              ++ match nxt with
                 | None => []
                 | Some (l0', l1', b', g') => bg_walk l0' l1' b' g' (S pos) rest
                 end).
  { intros vis nxt Hn0.
    remember (rstep all_imm MB (bg_mstate l1 b g) (bg_rstate l0 l1 b) t (ISrc k e)) as res eqn:Er. clear Er.
    destruct res as [[s' r'] o]. destruct Hn0 as [Hv Hn]. cbn [fst snd] in *.
    rewrite visible_app, visible_tag, Hv. f_equal.
    destruct nxt as [[[[l0' l1'] b'] g']|].
    - destruct Hn as (-> & -> & I'). apply IH. exact I'.
    - rewrite run_from_deaf by exact Hn. reflexivity. }
  cbn [bg_walk]. destruct k as [|[|j]].
  - destruct l0.
    2: { rewrite (Use [] _ (bg_step_skip false l1 b g t 0 e I (tg_live_mem0 false l1 (flags b)))). reflexivity. }
    destruct e as [x|z|].
    + rewrite (Use _ _ (bg_step_src_next l1 b g t x I)). reflexivity.
    + rewrite (Use _ _ (bg_step_err true l1 b g t 0 z I (tg_live_mem0 true l1 (flags b)))). reflexivity.
    + rewrite (Use _ _ (bg_step_src_done l1 b g t I)), map_app, map_map. destruct l1; cbn [map app]; rewrite ?app_nil_r; reflexivity.
  - destruct l1.
    2: { rewrite (Use [] _ (bg_step_skip l0 false b g t 1 e I (tg_live_mem1 l0 false (flags b)))). reflexivity. }
    destruct e as [v|z|].
    + destruct (mapper g) as [u|z] eqn:Em.
      * rewrite (Use _ _ (bg_step_open_ok l0 b g t v u I Em)). reflexivity.
      * rewrite (Use _ _ (bg_step_open_raise l0 b g t v z I Em)). reflexivity.
    + rewrite (Use _ _ (bg_step_err l0 true b g t 1 z I (tg_live_mem1 l0 true (flags b)))). reflexivity.
    + rewrite (Use _ _ (bg_step_open_done l0 b g t I)). destruct (bo_open b); reflexivity.
  - destruct (bo_find j b) as [o|] eqn:Ef.
    2: { assert (Hm : mem (S (S j)) (tg_live l0 l1 (flags b)) = false) by (rewrite tg_live_memS, flags_find, Ef; reflexivity).
         rewrite (Use [] _ (bg_step_skip l0 l1 b g t (S (S j)) e I Hm)). reflexivity. }
    assert (Hm : mem (S (S j)) (tg_live l0 l1 (flags b)) = true) by (rewrite tg_live_memS, flags_find, Ef; reflexivity).
    assert (Fire : (forall z, e <> Err z) ->
       visible (map (fun x => (pos, x)) (snd (rstep all_imm MB (bg_mstate l1 b g) (bg_rstate l0 l1 b) t (ISrc (S (S j)) e)))
                ++ fst (run_from all_imm MB (fst (fst (rstep all_imm MB (bg_mstate l1 b g) (bg_rstate l0 l1 b) t (ISrc (S (S j)) e))))
                                 (snd (fst (rstep all_imm MB (bg_mstate l1 b g) (bg_rstate l0 l1 b) t (ISrc (S (S j)) e))))
                                 (S pos) (wports rest)))
       = match o with
         | Some c => (pos, OEmit (Next c))
                     :: (if negb l1 && match bo_open (bo_del j b) with [] => true | _ => false end
                         then [(pos, OEmit Done)] else bg_walk l0 l1 (bo_del j b) g (S pos) rest)
         | None => bg_walk l0 l1 (bo_del j b) g (S pos) rest
         end).
    { intros He. destruct o as [c|].
      - rewrite (Use _ _ (bg_step_close_open l0 l1 b g t j e c I Ef He)). cbn [map app].
        destruct (negb l1 && match bo_open (bo_del j b) with [] => true | _ => false end); reflexivity.
      - rewrite (Use _ _ (bg_step_close_orphan l0 l1 b g t j e I Ef He)). reflexivity. }
    destruct e as [x|z|].
    + apply Fire. discriminate.
    + rewrite (Use _ _ (bg_step_err l0 l1 b g t (S (S j)) z I Hm)). reflexivity.
    + apply Fire. discriminate.
Qed.

(* THEOREM: what the subscriber receives, for every interleaving of the ports *)
Theorem buffer_toggle_run (ins : list tin) :
  visible (fst (run all_imm MB (wports ins))) = bg_walk true true [] 0 1 ins.
Proof.
  rewrite run_unfold. cbn [fst]. rewrite visible_app.
  assert (Es : start_state all_imm MB = (bg_mstate true [] 0, bg_rstate true true [])) by reflexivity.
  assert (Eo : start_obs all_imm MB = [OSub 1%nat; OSub 0%nat]) by reflexivity.
  rewrite Es, Eo. cbn [fst snd map visible filter is_vis app].
  apply bg_run_from. constructor; cbn; try (intros; contradiction); try constructor; try discriminate.
Qed.
End BufferToggle.
