(* C11: consequences of the three merging specifications (merge_spec, flat_map_spec,
   mc_spec): every output event is characterised EXACTLY by the specification's state
   just before the input that produced it (fold_spec_in_iff); hence
   - no element of a running source / inner is lost (and only those are emitted),
   - completion comes only after the outer and every inner that ever ran (or waited),
     with an empty waiting queue,
   and, on the runner itself, the inner subscriptions of merge(max_concurrent) are
   opened in strictly increasing id (= arrival) order. *)
From RxVerif Require Import Base.Prelude Ops.Machine Ops.MachineFacts Ops.Multi Ops.MultiFacts
  Ops.RunLemmas Ops.Combinators Ops.MergeFacts Ops.FlatMapFacts Ops.MergeConcFacts.
From Coq Require Import Sorting.Sorted.

Local Arguments Nat.ltb : simpl never.
Local Arguments Nat.leb : simpl never.

(* ---- list helpers ------------------------------------------------------------ *)
Lemma firstn_split {X} q0 : forall q (l : list X), (q0 <= q)%nat ->
  firstn q l = firstn q0 l ++ firstn (q - q0) (skipn q0 l).
Proof.
  induction q0 as [|q0 IH]; intros q l H.
  - cbn. now rewrite Nat.sub_0_r.
  - destruct q as [|q]; [lia|]. destruct l as [|x t].
    + cbn. now rewrite firstn_nil.
    + cbn. f_equal. apply IH. lia.
Qed.

Lemma nth_error_skipn' {X} q0 : forall (l : list X) q, nth_error (skipn q0 l) q = nth_error l (q0 + q).
Proof.
  induction q0 as [|q0 IH]; intros l q; [reflexivity|].
  destruct l as [|x t]; cbn; [now destruct q|apply IH].
Qed.

Lemma nth_error_firstn' {X} n : forall (l : list X) k x,
  nth_error (firstn n l) k = Some x -> (k < n)%nat /\ nth_error l k = Some x.
Proof.
  induction n as [|n IH]; intros l k x H; [destruct k; discriminate|].
  destruct l as [|y t]; [destruct k; discriminate|]. destruct k as [|k]; cbn in *.
  - split; [lia|exact H].
  - apply IH in H. destruct H. split; [lia|assumption].
Qed.

Lemma in_mem_true k l : In k l -> mem k l = true.
Proof.
  intros H. destruct (mem k l) eqn:E; [reflexivity|]. exfalso. eapply mem_false_notin; eassumption.
Qed.

Lemma remove_nil_only k : forall l x, remove k l = [] -> In x l -> x = k.
Proof.
  intros l x. destruct l as [|y t]; [intros _ []|]. cbn [remove].
  destruct (Nat.eqb_spec k y) as [->|Hne]; [|discriminate].
  intros ->. intros [H|[]]. now subst.
Qed.

(* ---- a specification given by a step function ------------------------------ *)
Section Fold.
Context {A St : Type} (step : St -> inp A -> option St * option (ev A)).

(* what is emitted (with the input position) *)
Fixpoint fold_spec (st : St) (pos : nat) (ins : list (Z * inp A)) : list (nat * ev A) :=
  match ins with
  | [] => []
  | (_, i) :: t =>
      (match snd (step st i) with Some e => [(pos, e)] | None => [] end) ++
      (match fst (step st i) with Some st' => fold_spec st' (S pos) t | None => [] end)
  end.

(* the state after the inputs; None once the output has ended *)
Fixpoint fold_after (st : St) (ins : list (Z * inp A)) : option St :=
  match ins with
  | [] => Some st
  | (_, i) :: t => match fst (step st i) with Some st' => fold_after st' t | None => None end
  end.

Lemma fold_spec_app a : forall b st pos,
  fold_spec st pos (a ++ b) = fold_spec st pos a ++
    match fold_after st a with Some st' => fold_spec st' (pos + length a) b | None => [] end.
Proof.
  induction a as [|[now i] t IH]; intros b st pos.
  - cbn [app fold_spec fold_after length]. now rewrite Nat.add_0_r.
  - cbn [app fold_spec fold_after length]. rewrite <- app_assoc. f_equal.
    destruct (fst (step st i)) as [st1|]; [|reflexivity].
    rewrite IH, Nat.add_succ_r. reflexivity.
Qed.

Lemma fold_after_app a : forall b st,
  fold_after st (a ++ b) = match fold_after st a with Some st' => fold_after st' b | None => None end.
Proof.
  induction a as [|[now i] t IH]; intros b st; [reflexivity|].
  cbn [app fold_after]. destruct (fst (step st i)); [apply IH|reflexivity].
Qed.

Lemma fold_spec_pos ins : forall st pos p e,
  In (p, e) (fold_spec st pos ins) -> (pos <= p < pos + length ins)%nat.
Proof.
  induction ins as [|[now i] t IH]; intros st pos p e H; [destruct H|].
  cbn [fold_spec length] in *. apply in_app_or in H. destruct H as [H|H].
  - destruct (snd (step st i)); [|destruct H]. destruct H as [H|[]]. injection H as <- _. lia.
  - destruct (fst (step st i)) as [st1|]; [|destruct H]. apply IH in H. lia.
Qed.

(* EXACT characterisation of every output event: e is emitted at input position q iff
   the specification is still alive before input q and its step on that input emits e *)
Theorem fold_spec_in_iff ins : forall st pos q e,
  In ((pos + q)%nat, e) (fold_spec st pos ins) <->
  exists now i st', nth_error ins q = Some (now, i) /\ fold_after st (firstn q ins) = Some st'
                    /\ snd (step st' i) = Some e.
Proof.
  induction ins as [|[now i] t IH]; intros st pos q e.
  - split; [intros []|]. intros (n & i & st' & H & _). destruct q; discriminate.
  - cbn [fold_spec]. destruct q as [|q].
    + rewrite Nat.add_0_r. cbn [nth_error firstn fold_after]. split.
      * intros H. apply in_app_or in H. destruct H as [H|H].
        -- destruct (snd (step st i)) as [e0|] eqn:E; [|destruct H]. destruct H as [H|[]].
           injection H as <-. exists now, i, st. auto.
        -- destruct (fst (step st i)) as [st1|]; [|destruct H]. apply fold_spec_pos in H. lia.
      * intros (n & i0 & st' & H1 & H2 & H3). injection H1 as <- <-. injection H2 as <-.
        apply in_or_app. left. rewrite H3. left. reflexivity.
    + cbn [nth_error firstn fold_after]. rewrite Nat.add_succ_r. split.
      * intros H. apply in_app_or in H. destruct H as [H|H].
        -- destruct (snd (step st i)); [|destruct H]. destruct H as [H|[]]. injection H as H _. lia.
        -- destruct (fst (step st i)) as [st1|]; [|destruct H].
           change (S (pos + q)) with (S pos + q)%nat in H. apply IH in H. exact H.
      * intros (n & i0 & st' & H1 & H2 & H3). apply in_or_app. right.
        destruct (fst (step st i)) as [st1|]; [|discriminate].
        change (S (pos + q)) with (S pos + q)%nat. apply IH. eauto 6.
Qed.

(* a property of the state survives until an input of kind D arrives *)
Lemma fold_after_track (P : St -> Prop) (D : inp A -> Prop)
  (Hstep : forall st i st1, fst (step st i) = Some st1 -> P st -> P st1 \/ D i) :
  forall a st st', fold_after st a = Some st' -> P st ->
    P st' \/ exists q now i, nth_error a q = Some (now, i) /\ D i.
Proof.
  induction a as [|[now i] t IH]; intros st st' H HP.
  - injection H as <-. left. exact HP.
  - cbn [fold_after] in H. destruct (fst (step st i)) as [st1|] eqn:E; [|discriminate].
    destruct (Hstep _ _ _ E HP) as [HP1|HD].
    + destruct (IH _ _ H HP1) as [Hl|(q & n & i0 & Hq & Hd)]; [left; exact Hl|].
      right. exists (S q), n, i0. auto.
    + right. exists 0%nat, now, i. auto.
Qed.

Lemma fold_after_inv (P : St -> Prop)
  (Hstep : forall st i st1, fst (step st i) = Some st1 -> P st -> P st1) :
  forall a st st', fold_after st a = Some st' -> P st -> P st'.
Proof.
  intros a st st' H HP.
  destruct (fold_after_track P (fun _ => False) (fun s i s1 E p => or_introl (Hstep s i s1 E p)) a st st' H HP)
    as [H1|(q & n & i & _ & [])]. exact H1.
Qed.

(* the same between two moments q0 <= q of one input sequence *)
Lemma fold_after_track_between (P : St -> Prop) (D : inp A -> Prop)
  (Hstep : forall st i st1, fst (step st i) = Some st1 -> P st -> P st1 \/ D i) :
  forall ins st q0 q st0 st1, (q0 <= q)%nat ->
    fold_after st (firstn q0 ins) = Some st0 -> fold_after st (firstn q ins) = Some st1 -> P st0 ->
    P st1 \/ exists q1 now i, (q0 <= q1 < q)%nat /\ nth_error ins q1 = Some (now, i) /\ D i.
Proof.
  intros ins st q0 q st0 st1 Hle H0 H1 HP.
  rewrite (firstn_split q0 q ins Hle), fold_after_app, H0 in H1.
  destruct (fold_after_track P D Hstep _ _ _ H1 HP) as [Hl|(q1 & n & i & Hq & Hd)]; [left; exact Hl|].
  right. apply nth_error_firstn' in Hq. destruct Hq as [Hlt Hq]. rewrite nth_error_skipn' in Hq.
  exists (q0 + q1)%nat, n, i. split; [lia|]. auto.
Qed.

Lemma fold_after_inv_between (P : St -> Prop)
  (Hstep : forall st i st1, fst (step st i) = Some st1 -> P st -> P st1) :
  forall ins st q0 q st0 st1, (q0 <= q)%nat ->
    fold_after st (firstn q0 ins) = Some st0 -> fold_after st (firstn q ins) = Some st1 -> P st0 -> P st1.
Proof.
  intros ins st q0 q st0 st1 Hle H0 H1 HP.
  rewrite (firstn_split q0 q ins Hle), fold_after_app, H0 in H1.
  eapply fold_after_inv; eassumption.
Qed.

(* the output has ended only by a terminal event or by dispose *)
Lemma fold_after_none
  (Hstep : forall st i, fst (step st i) = None ->
     (exists e, snd (step st i) = Some e /\ is_terminal e = true) \/ i = IDispose) :
  forall a st pos, fold_after st a = None ->
    (exists p e, In (p, e) (fold_spec st pos a) /\ is_terminal e = true) \/ In IDispose (map snd a).
Proof.
  induction a as [|[now i] t IH]; intros st pos H; [discriminate|].
  cbn [fold_after fold_spec map snd] in *. destruct (fst (step st i)) as [st1|] eqn:E.
  - destruct (IH st1 (S pos) H) as [(p & e & Hin & He)|Hd].
    + left. exists p, e. split; [apply in_or_app; right; exact Hin|exact He].
    + right. right. exact Hd.
  - destruct (Hstep _ _ E) as [(e & He & Ht)|Hd].
    + left. exists pos, e. rewrite He. split; [left; reflexivity|exact Ht].
    + right. left. exact Hd.
Qed.
End Fold.

Local Arguments mem : simpl never.
Local Arguments remove : simpl never.

(* ---- merge(s_0 .. s_{n-1}) ---------------------------------------------------- *)
Section MergeSpec.
Context {A : Type}.

(* one step of merge_spec: new list of running sources (None: output ended), event emitted *)
Definition merge_step (running : list nat) (i : inp A) : option (list nat) * option (ev A) :=
  match i with
  | ISrc k e =>
      if mem k running then
        match e with
        | Next x => (Some running, Some (Next x))
        | Err x => (None, Some (Err x))
        | Done => match remove k running with
                  | [] => (None, Some Done)
                  | rest => (Some rest, None)
                  end
        end
      else (Some running, None)
  | ITick _ => (Some running, None)
  | IDispose => (None, None)
  end.

(* the sources still running after the inputs (None: the output has ended) *)
Definition merge_after : list nat -> list (Z * inp A) -> option (list nat) := fold_after merge_step.

Lemma merge_spec_fold (ins : list (Z * inp A)) : forall running pos,
  merge_spec running pos ins = fold_spec merge_step running pos ins.
Proof.
  induction ins as [|[now i] t IH]; intros running pos; [reflexivity|].
  cbn [merge_spec fold_spec]. destruct i as [k e|tag|]; cbn [merge_step].
  - destruct (mem k running).
    + destruct e as [x|x|]; cbn [fst snd app]; rewrite ?IH; try reflexivity.
      destruct (remove k running); cbn [fst snd app]; rewrite ?IH; reflexivity.
    + cbn [fst snd app]. apply IH.
  - cbn [fst snd app]. apply IH.
  - reflexivity.
Qed.

(* merge_after really is the state of merge_spec: the specification splits at any point *)
Lemma merge_spec_app (a b : list (Z * inp A)) running pos :
  merge_spec running pos (a ++ b) = merge_spec running pos a ++
    match merge_after running a with Some r' => merge_spec r' (pos + length a) b | None => [] end.
Proof.
  rewrite !merge_spec_fold, fold_spec_app. unfold merge_after.
  destruct (fold_after merge_step running a); [now rewrite merge_spec_fold|reflexivity].
Qed.

(* EXACTLY the elements: x is emitted at input position q iff input q is the element x of a
   source that is still running there (and the output has not ended before) *)
Theorem merge_spec_next_iff running pos (ins : list (Z * inp A)) q x :
  In ((pos + q)%nat, Next x) (merge_spec running pos ins) <->
  exists now k r', nth_error ins q = Some (now, ISrc k (Next x))
                   /\ merge_after running (firstn q ins) = Some r' /\ In k r'.
Proof.
  rewrite merge_spec_fold, fold_spec_in_iff. unfold merge_after. split.
  - intros (now & i & r' & Hn & Ha & Hs). destruct i as [k e|tag|]; cbn [merge_step] in Hs; try discriminate.
    destruct (mem k r') eqn:Hm; [|discriminate]. apply mem_in in Hm.
    destruct e as [y|y|]; cbn [snd] in Hs.
    + injection Hs as <-. exists now, k, r'. auto.
    + discriminate.
    + destruct (remove k r'); discriminate.
  - intros (now & k & r' & Hn & Ha & Hk). exists now, (ISrc k (Next x)), r'.
    split; [exact Hn|]. split; [exact Ha|]. cbn [merge_step]. now rewrite (in_mem_true _ _ Hk).
Qed.

(* NO ELEMENT LOST *)
Theorem merge_no_element_lost running pos (ins : list (Z * inp A)) q now k x r' :
  nth_error ins q = Some (now, ISrc k (Next x)) ->
  merge_after running (firstn q ins) = Some r' -> In k r' ->
  In ((pos + q)%nat, Next x) (merge_spec running pos ins).
Proof. intros H1 H2 H3. apply merge_spec_next_iff. eauto 6. Qed.

(* the first error of a running source is passed on, at its own position -- and only such an
   event is an error of the output *)
Theorem merge_spec_error_iff running pos (ins : list (Z * inp A)) q err :
  In ((pos + q)%nat, Err err) (merge_spec running pos ins) <->
  exists now k r', nth_error ins q = Some (now, ISrc k (Err err))
                   /\ merge_after running (firstn q ins) = Some r' /\ In k r'.
Proof.
  rewrite merge_spec_fold, fold_spec_in_iff. unfold merge_after. split.
  - intros (now & i & r' & Hn & Ha & Hs). destruct i as [k e|tag|]; cbn [merge_step] in Hs; try discriminate.
    destruct (mem k r') eqn:Hm; [|discriminate]. apply mem_in in Hm.
    destruct e as [y|y|]; cbn [snd] in Hs.
    + discriminate.
    + injection Hs as <-. exists now, k, r'. auto.
    + destruct (remove k r'); discriminate.
  - intros (now & k & r' & Hn & Ha & Hk). exists now, (ISrc k (Err err)), r'.
    split; [exact Hn|]. split; [exact Ha|]. cbn [merge_step]. now rewrite (in_mem_true _ _ Hk).
Qed.

Lemma merge_step_none st (i : inp A) : fst (merge_step st i) = None ->
  (exists e, snd (merge_step st i) = Some e /\ is_terminal e = true) \/ i = IDispose.
Proof.
  destruct i as [k e|tag|]; cbn [merge_step]; [|discriminate|auto].
  destruct (mem k st); [|discriminate]. destruct e as [x|x|]; [discriminate| |].
  - intros _. left. eexists. split; reflexivity.
  - destruct (remove k st); [|discriminate]. intros _. left. eexists. split; reflexivity.
Qed.

(* "the output has not ended before q" can be read off the output and the inputs *)
Lemma merge_after_some running pos (a : list (Z * inp A)) :
  (forall p e, In (p, e) (merge_spec running pos a) -> is_terminal e = false) ->
  ~ In IDispose (map snd a) ->
  exists r', merge_after running a = Some r'.
Proof.
  intros Hn Hd. unfold merge_after. destruct (fold_after merge_step running a) as [r'|] eqn:E; [eauto|].
  exfalso. destruct (fold_after_none merge_step merge_step_none a running pos E) as [(p & e & Hin & Ht)|H].
  - rewrite <- merge_spec_fold in Hin. rewrite (Hn _ _ Hin) in Ht. discriminate.
  - contradiction.
Qed.
End MergeSpec.

(* ---- flat_map / merge_all ------------------------------------------------------ *)
Section FlatMapSpec.
Context {A : Type}.

(* state of flat_map_spec: (outer live, inners created, running inners) *)
Definition fm_state := (bool * nat * list nat)%type.

Definition fm_step (mapper : A -> nat -> res unit) (st : fm_state) (i : inp A)
  : option fm_state * option (ev A) :=
  let '(ol, cnt, running) := st in
  match i with
  | ISrc O e =>
      if ol then
        match e with
        | Next x => match mapper x cnt with
                    | Ok _ => (Some (true, S cnt, running ++ [S cnt]), None)
                    | Raise err => (None, Some (Err err))
                    end
        | Err err => (None, Some (Err err))
        | Done => match running with
                  | [] => (None, Some Done)
                  | _ => (Some (false, cnt, running), None)
                  end
        end
      else (Some st, None)
  | ISrc (S j) e =>
      if mem (S j) running then
        match e with
        | Next x => (Some st, Some (Next x))
        | Err err => (None, Some (Err err))
        | Done => match remove (S j) running, ol with
                  | [], false => (None, Some Done)
                  | rest, _ => (Some (ol, cnt, rest), None)
                  end
        end
      else (Some st, None)
  | ITick _ => (Some st, None)
  | IDispose => (None, None)
  end.

Definition fm_after (mapper : A -> nat -> res unit) : fm_state -> list (Z * inp A) -> option fm_state :=
  fold_after (fm_step mapper).

Lemma flat_map_spec_fold mapper (ins : list (Z * inp A)) : forall ol cnt running pos,
  flat_map_spec mapper ol cnt running pos ins = fold_spec (fm_step mapper) (ol, cnt, running) pos ins.
Proof.
  induction ins as [|[now i] t IH]; intros ol cnt running pos; [reflexivity|].
  cbn [flat_map_spec fold_spec]. destruct i as [[|j] e|tag|]; cbn [fm_step].
  - destruct ol; [|cbn [fst snd app]; apply IH].
    destruct e as [x|x|].
    + destruct (mapper x cnt); cbn [fst snd app]; rewrite ?IH; reflexivity.
    + reflexivity.
    + destruct running; cbn [fst snd app]; rewrite ?IH; reflexivity.
  - destruct (mem (S j) running); [|cbn [fst snd app]; apply IH].
    destruct e as [x|x|]; cbn [fst snd app]; rewrite ?IH; try reflexivity.
    destruct (remove (S j) running); destruct ol; cbn [fst snd app]; rewrite ?IH; reflexivity.
  - cbn [fst snd app]. apply IH.
  - reflexivity.
Qed.

Lemma flat_map_spec_app mapper (a b : list (Z * inp A)) ol cnt running pos :
  flat_map_spec mapper ol cnt running pos (a ++ b) = flat_map_spec mapper ol cnt running pos a ++
    match fm_after mapper (ol, cnt, running) a with
    | Some (ol', cnt', r') => flat_map_spec mapper ol' cnt' r' (pos + length a) b
    | None => []
    end.
Proof.
  rewrite !flat_map_spec_fold, fold_spec_app. unfold fm_after.
  destruct (fold_after (fm_step mapper) (ol, cnt, running) a) as [[[ol' cnt'] r']|];
    [now rewrite flat_map_spec_fold|reflexivity].
Qed.

(* EXACTLY the elements of the running inners *)
Theorem flat_map_spec_next_iff mapper ol cnt running pos (ins : list (Z * inp A)) q x :
  In ((pos + q)%nat, Next x) (flat_map_spec mapper ol cnt running pos ins) <->
  exists now j ol' cnt' r', nth_error ins q = Some (now, ISrc (S j) (Next x))
     /\ fm_after mapper (ol, cnt, running) (firstn q ins) = Some (ol', cnt', r') /\ In (S j) r'.
Proof.
  rewrite flat_map_spec_fold, fold_spec_in_iff. unfold fm_after. split.
  - intros (now & i & [[ol' cnt'] r'] & Hn & Ha & Hs).
    destruct i as [[|j] e|tag|]; cbn [fm_step] in Hs; try discriminate.
    + destruct ol'; [|discriminate]. destruct e as [y|y|]; try discriminate.
      * destruct (mapper y cnt'); discriminate.
      * destruct r'; discriminate.
    + destruct (mem (S j) r') eqn:Hm; [|discriminate]. apply mem_in in Hm.
      destruct e as [y|y|]; cbn [snd] in Hs.
      * injection Hs as <-. exists now, j, ol', cnt', r'. auto.
      * discriminate.
      * destruct (remove (S j) r'); destruct ol'; discriminate.
  - intros (now & j & ol' & cnt' & r' & Hn & Ha & Hk). exists now, (ISrc (S j) (Next x)), (ol', cnt', r').
    split; [exact Hn|]. split; [exact Ha|]. cbn [fm_step]. now rewrite (in_mem_true _ _ Hk).
Qed.

Theorem flat_map_no_element_lost mapper ol cnt running pos (ins : list (Z * inp A)) q now j x ol' cnt' r' :
  nth_error ins q = Some (now, ISrc (S j) (Next x)) ->
  fm_after mapper (ol, cnt, running) (firstn q ins) = Some (ol', cnt', r') -> In (S j) r' ->
  In ((pos + q)%nat, Next x) (flat_map_spec mapper ol cnt running pos ins).
Proof. intros H1 H2 H3. apply flat_map_spec_next_iff. eauto 8. Qed.

(* when does a step complete the output *)
Lemma fm_step_done mapper ol cnt r (i : inp A) :
  snd (fm_step mapper (ol, cnt, r) i) = Some Done ->
  (i = ISrc 0 Done /\ ol = true /\ r = []) \/
  (exists j, i = ISrc (S j) Done /\ ol = false /\ forall k, In k r -> k = S j).
Proof.
  destruct i as [[|j] e|tag|]; cbn [fm_step]; try discriminate.
  - destruct ol; [|discriminate]. destruct e as [y|y|]; try discriminate.
    + destruct (mapper y cnt); discriminate.
    + destruct r; [|discriminate]. auto.
  - destruct (mem (S j) r); [|discriminate]. destruct e as [y|y|]; try discriminate.
    destruct (remove (S j) r) eqn:Hr; destruct ol; try discriminate.
    intros _. right. exists j. split; [reflexivity|]. split; [reflexivity|].
    intros k Hk. eapply remove_nil_only; eassumption.
Qed.

(* the outer stays live until its Done; a running inner stays running until its Done *)
Lemma fm_step_outer mapper (st : fm_state) (i : inp A) st1 :
  fst (fm_step mapper st i) = Some st1 -> fst (fst st) = true -> fst (fst st1) = true \/ i = ISrc 0 Done.
Proof.
  destruct st as [[ol cnt] r]. cbn [fst]. intros H ->. revert H.
  destruct i as [[|j] e|tag|]; cbn [fm_step]; try discriminate.
  - destruct e as [y|y|]; try discriminate.
    + destruct (mapper y cnt); [|discriminate]. intros H. injection H as <-. auto.
    + auto.
  - destruct (mem (S j) r); [|intros H; injection H as <-; auto].
    destruct e as [y|y|]; try discriminate.
    + intros H; injection H as <-; auto.
    + destruct (remove (S j) r); intros H; injection H as <-; auto.
  - intros H; injection H as <-; auto.
Qed.

Lemma fm_step_running mapper k (st : fm_state) (i : inp A) st1 :
  fst (fm_step mapper st i) = Some st1 -> In k (snd st) -> In k (snd st1) \/ i = ISrc k Done.
Proof.
  destruct st as [[ol cnt] r]. cbn [snd]. intros H Hk. revert H.
  destruct i as [[|j] e|tag|]; cbn [fm_step]; try discriminate.
  - destruct ol; [|intros H; injection H as <-; auto].
    destruct e as [y|y|]; try discriminate.
    + destruct (mapper y cnt); [|discriminate]. intros H. injection H as <-. left. cbn [snd].
      apply in_or_app. auto.
    + destruct r; [discriminate|]. intros H. injection H as <-. auto.
  - destruct (mem (S j) r); [|intros H; injection H as <-; auto].
    destruct e as [y|y|]; try discriminate.
    + intros H; injection H as <-; auto.
    + destruct (Nat.eq_dec (S j) k) as [->|Hne]; [auto|].
      pose proof (in_remove_other _ _ _ Hne Hk) as Hk2.
      destruct (remove (S j) r); [destruct Hk2|]. destruct ol; intros H; injection H as <-; auto.
  - intros H; injection H as <-; auto.
Qed.

(* COMPLETION only after the outer and every inner that was ever running: whatever moment
   q0 before the completion one looks at, the outer (if live then) and every inner running
   then deliver their Done between q0 and the completion *)
Theorem flat_map_completes_after_outer_and_inners mapper (ins : list (Z * inp A)) ol cnt running pos p :
  In (p, Done) (flat_map_spec mapper ol cnt running pos ins) ->
  (pos <= p)%nat /\
  forall q0 ol' cnt' r', (q0 <= p - pos)%nat ->
    fm_after mapper (ol, cnt, running) (firstn q0 ins) = Some (ol', cnt', r') ->
    (ol' = true -> exists q now, (q0 <= q <= p - pos)%nat /\ nth_error ins q = Some (now, ISrc 0%nat Done)) /\
    (forall k, In k r' -> exists q now, (q0 <= q <= p - pos)%nat /\ nth_error ins q = Some (now, ISrc k Done)).
Proof.
  intros Hin. rewrite flat_map_spec_fold in Hin.
  pose proof (fold_spec_pos _ _ _ _ _ _ Hin) as [Hle _]. split; [exact Hle|].
  replace p with (pos + (p - pos))%nat in Hin by lia. set (q := (p - pos)%nat) in *.
  apply fold_spec_in_iff in Hin. destruct Hin as (now & i & [[olp cntp] rp] & Hn & Hp & Hs).
  intros q0 ol' cnt' r' Hq0 H0. unfold fm_after in H0.
  apply fm_step_done in Hs. split.
  - intros Hol.
    destruct (fold_after_track_between (fm_step mapper) (fun st => fst (fst st) = true) (fun i => i = ISrc 0%nat Done)
                (fm_step_outer mapper) ins _ q0 q _ _ Hq0 H0 Hp Hol) as [Hl|(q1 & n1 & i1 & Hr & Hq1 & ->)].
    + cbn [fst] in Hl. subst olp. destruct Hs as [(-> & _ & _)|(j & _ & Hf & _)]; [|discriminate].
      exists q, now. split; [lia|exact Hn].
    + exists q1, n1. split; [lia|exact Hq1].
  - intros k Hk.
    destruct (fold_after_track_between (fm_step mapper) (fun st => In k (snd st)) (fun i => i = ISrc k Done)
                (fm_step_running mapper k) ins _ q0 q _ _ Hq0 H0 Hp Hk) as [Hl|(q1 & n1 & i1 & Hr & Hq1 & ->)].
    + cbn [snd] in Hl. destruct Hs as [(_ & _ & ->)|(j & -> & _ & Hall)]; [destruct Hl|].
      rewrite (Hall _ Hl). exists q, now. split; [lia|exact Hn].
    + exists q1, n1. split; [lia|exact Hq1].
Qed.

Lemma fm_step_none mapper st (i : inp A) : fst (fm_step mapper st i) = None ->
  (exists e, snd (fm_step mapper st i) = Some e /\ is_terminal e = true) \/ i = IDispose.
Proof.
  destruct st as [[ol cnt] r].
  destruct i as [[|j] e|tag|]; cbn [fm_step]; [| |discriminate|auto].
  - destruct ol; [|discriminate]. destruct e as [x|x|].
    + destruct (mapper x cnt); [discriminate|]. intros _. left. eexists. split; reflexivity.
    + intros _. left. eexists. split; reflexivity.
    + destruct r; [|discriminate]. intros _. left. eexists. split; reflexivity.
  - destruct (mem (S j) r); [|discriminate]. destruct e as [x|x|]; [discriminate| |].
    + intros _. left. eexists. split; reflexivity.
    + destruct (remove (S j) r); destruct ol; try discriminate. intros _. left. eexists. split; reflexivity.
Qed.

Lemma fm_after_some mapper ol cnt running pos (a : list (Z * inp A)) :
  (forall p e, In (p, e) (flat_map_spec mapper ol cnt running pos a) -> is_terminal e = false) ->
  ~ In IDispose (map snd a) ->
  exists st', fm_after mapper (ol, cnt, running) a = Some st'.
Proof.
  intros Hn Hd. unfold fm_after. destruct (fold_after (fm_step mapper) (ol, cnt, running) a) as [r'|] eqn:E; [eauto|].
  exfalso. destruct (fold_after_none _ (fm_step_none mapper) a _ pos E) as [(p & e & Hin & Ht)|H].
  - rewrite <- flat_map_spec_fold in Hin. rewrite (Hn _ _ Hin) in Ht. discriminate.
  - contradiction.
Qed.
End FlatMapSpec.

(* ---- merge(max_concurrent) / concat_map ---------------------------------------- *)
Section MergeConcSpec.
Context {A : Type}.

(* state of mc_spec: (outer live, inners created, running inners, waiting queue) *)
Definition mc_state := (bool * nat * list nat * list nat)%type.

Definition mc_step (mapper : A -> nat -> res unit) (mc : nat) (st : mc_state) (i : inp A)
  : option mc_state * option (ev A) :=
  let '(ol, cnt, running, queue) := st in
  match i with
  | ISrc O e =>
      if ol then
        match e with
        | Next x => match mapper x cnt with
                    | Ok _ => if Nat.ltb (length running) mc
                              then (Some (true, S cnt, running ++ [S cnt], queue), None)
                              else (Some (true, S cnt, running, queue ++ [S cnt]), None)
                    | Raise err => (None, Some (Err err))
                    end
        | Err err => (None, Some (Err err))
        | Done => match running with
                  | [] => (None, Some Done)
                  | _ => (Some (false, cnt, running, queue), None)
                  end
        end
      else (Some st, None)
  | ISrc (S j) e =>
      if mem (S j) running then
        match e with
        | Next x => (Some st, Some (Next x))
        | Err err => (None, Some (Err err))
        | Done => match queue with
                  | q :: rest => (Some (ol, cnt, remove (S j) running ++ [q], rest), None)
                  | [] => match remove (S j) running, ol with
                          | [], false => (None, Some Done)
                          | rest', _ => (Some (ol, cnt, rest', []), None)
                          end
                  end
        end
      else (Some st, None)
  | ITick _ => (Some st, None)
  | IDispose => (None, None)
  end.

Definition mc_after (mapper : A -> nat -> res unit) (mc : nat)
  : mc_state -> list (Z * inp A) -> option mc_state := fold_after (mc_step mapper mc).

Lemma mc_spec_fold mapper mc (ins : list (Z * inp A)) : forall ol cnt running queue pos,
  mc_spec mapper mc ol cnt running queue pos ins
  = fold_spec (mc_step mapper mc) (ol, cnt, running, queue) pos ins.
Proof.
  induction ins as [|[now i] t IH]; intros ol cnt running queue pos; [reflexivity|].
  cbn [mc_spec fold_spec]. destruct i as [[|j] e|tag|]; cbn [mc_step].
  - destruct ol; [|cbn [fst snd app]; apply IH].
    destruct e as [x|x|].
    + destruct (mapper x cnt); [|reflexivity].
      destruct (Nat.ltb (length running) mc); cbn [fst snd app]; rewrite ?IH; reflexivity.
    + reflexivity.
    + destruct running; cbn [fst snd app]; rewrite ?IH; reflexivity.
  - destruct (mem (S j) running); [|cbn [fst snd app]; apply IH].
    destruct e as [x|x|]; cbn [fst snd app]; rewrite ?IH; try reflexivity.
    destruct queue as [|q qs]; [|cbn [fst snd app]; rewrite ?IH; reflexivity].
    destruct (remove (S j) running); destruct ol; cbn [fst snd app]; rewrite ?IH; reflexivity.
  - cbn [fst snd app]. apply IH.
  - reflexivity.
Qed.

Lemma mc_spec_app mapper mc (a b : list (Z * inp A)) ol cnt running queue pos :
  mc_spec mapper mc ol cnt running queue pos (a ++ b) = mc_spec mapper mc ol cnt running queue pos a ++
    match mc_after mapper mc (ol, cnt, running, queue) a with
    | Some (ol', cnt', r', q') => mc_spec mapper mc ol' cnt' r' q' (pos + length a) b
    | None => []
    end.
Proof.
  rewrite !mc_spec_fold, fold_spec_app. unfold mc_after.
  destruct (fold_after (mc_step mapper mc) (ol, cnt, running, queue) a) as [[[[ol' cnt'] r'] q']|];
    [now rewrite mc_spec_fold|reflexivity].
Qed.

(* EXACTLY the elements of the running inners *)
Theorem mc_spec_next_iff mapper mc ol cnt running queue pos (ins : list (Z * inp A)) q x :
  In ((pos + q)%nat, Next x) (mc_spec mapper mc ol cnt running queue pos ins) <->
  exists now j ol' cnt' r' q', nth_error ins q = Some (now, ISrc (S j) (Next x))
     /\ mc_after mapper mc (ol, cnt, running, queue) (firstn q ins) = Some (ol', cnt', r', q') /\ In (S j) r'.
Proof.
  rewrite mc_spec_fold, fold_spec_in_iff. unfold mc_after. split.
  - intros (now & i & [[[ol' cnt'] r'] q'] & Hn & Ha & Hs).
    destruct i as [[|j] e|tag|]; cbn [mc_step] in Hs; try discriminate.
    + destruct ol'; [|discriminate]. destruct e as [y|y|]; try discriminate.
      * destruct (mapper y cnt'); [|discriminate]. destruct (Nat.ltb (length r') mc); discriminate.
      * destruct r'; discriminate.
    + destruct (mem (S j) r') eqn:Hm; [|discriminate]. apply mem_in in Hm.
      destruct e as [y|y|]; cbn [snd] in Hs.
      * injection Hs as <-. exists now, j, ol', cnt', r', q'. auto.
      * discriminate.
      * destruct q'; [|discriminate]. destruct (remove (S j) r'); destruct ol'; discriminate.
  - intros (now & j & ol' & cnt' & r' & q' & Hn & Ha & Hk).
    exists now, (ISrc (S j) (Next x)), (ol', cnt', r', q').
    split; [exact Hn|]. split; [exact Ha|]. cbn [mc_step]. now rewrite (in_mem_true _ _ Hk).
Qed.

Theorem mc_no_element_lost mapper mc ol cnt running queue pos (ins : list (Z * inp A)) q now j x ol' cnt' r' q' :
  nth_error ins q = Some (now, ISrc (S j) (Next x)) ->
  mc_after mapper mc (ol, cnt, running, queue) (firstn q ins) = Some (ol', cnt', r', q') -> In (S j) r' ->
  In ((pos + q)%nat, Next x) (mc_spec mapper mc ol cnt running queue pos ins).
Proof. intros H1 H2 H3. apply mc_spec_next_iff. eauto 9. Qed.

Lemma mc_step_done mapper mc ol cnt r qu (i : inp A) :
  snd (mc_step mapper mc (ol, cnt, r, qu) i) = Some Done ->
  (i = ISrc 0 Done /\ ol = true /\ r = []) \/
  (exists j, i = ISrc (S j) Done /\ ol = false /\ qu = [] /\ forall k, In k r -> k = S j).
Proof.
  destruct i as [[|j] e|tag|]; cbn [mc_step]; try discriminate.
  - destruct ol; [|discriminate]. destruct e as [y|y|]; try discriminate.
    + destruct (mapper y cnt); [|discriminate]. destruct (Nat.ltb (length r) mc); discriminate.
    + destruct r; [|discriminate]. auto.
  - destruct (mem (S j) r); [|discriminate]. destruct e as [y|y|]; try discriminate.
    destruct qu; [|discriminate].
    destruct (remove (S j) r) eqn:Hr; destruct ol; try discriminate.
    intros _. right. exists j. repeat (split; [reflexivity|]).
    intros k Hk. eapply remove_nil_only; eassumption.
Qed.

Lemma mc_step_outer mapper mc (st : mc_state) (i : inp A) st1 :
  fst (mc_step mapper mc st i) = Some st1 -> fst (fst (fst st)) = true ->
  fst (fst (fst st1)) = true \/ i = ISrc 0 Done.
Proof.
  destruct st as [[[ol cnt] r] qu]. cbn [fst]. intros H ->. revert H.
  destruct i as [[|j] e|tag|]; cbn [mc_step]; try discriminate.
  - destruct e as [y|y|]; try discriminate.
    + destruct (mapper y cnt); [|discriminate].
      destruct (Nat.ltb (length r) mc); intros H; injection H as <-; auto.
    + auto.
  - destruct (mem (S j) r); [|intros H; injection H as <-; auto].
    destruct e as [y|y|]; try discriminate.
    + intros H; injection H as <-; auto.
    + destruct qu; [|intros H; injection H as <-; auto].
      destruct (remove (S j) r); intros H; injection H as <-; auto.
  - intros H; injection H as <-; auto.
Qed.

(* a running inner stays running until its Done *)
Lemma mc_step_running mapper mc k (st : mc_state) (i : inp A) st1 :
  fst (mc_step mapper mc st i) = Some st1 -> In k (snd (fst st)) -> In k (snd (fst st1)) \/ i = ISrc k Done.
Proof.
  destruct st as [[[ol cnt] r] qu]. cbn [fst snd]. intros H Hk. revert H.
  destruct i as [[|j] e|tag|]; cbn [mc_step]; try discriminate.
  - destruct ol; [|intros H; injection H as <-; auto].
    destruct e as [y|y|]; try discriminate.
    + destruct (mapper y cnt); [|discriminate].
      destruct (Nat.ltb (length r) mc); intros H; injection H as <-; left; cbn [fst snd]; [|exact Hk].
      apply in_or_app. auto.
    + destruct r; [discriminate|]. intros H. injection H as <-. auto.
  - destruct (mem (S j) r); [|intros H; injection H as <-; auto].
    destruct e as [y|y|]; try discriminate.
    + intros H; injection H as <-; auto.
    + destruct (Nat.eq_dec (S j) k) as [->|Hne]; [auto|].
      pose proof (in_remove_other _ _ _ Hne Hk) as Hk2.
      destruct qu as [|q0 qs].
      * destruct (remove (S j) r); [destruct Hk2|]. destruct ol; intros H; injection H as <-; auto.
      * intros H; injection H as <-. left. cbn [fst snd]. apply in_or_app. auto.
  - intros H; injection H as <-; auto.
Qed.

(* a running or waiting inner stays running or waiting until its Done (a waiting inner can
   only leave the queue by being started) *)
Lemma mc_step_known mapper mc k (st : mc_state) (i : inp A) st1 :
  fst (mc_step mapper mc st i) = Some st1 -> In k (snd (fst st) ++ snd st) ->
  In k (snd (fst st1) ++ snd st1) \/ i = ISrc k Done.
Proof.
  destruct st as [[[ol cnt] r] qu]. cbn [fst snd]. intros H Hk. revert H.
  destruct i as [[|j] e|tag|]; cbn [mc_step]; try discriminate.
  - destruct ol; [|intros H; injection H as <-; auto].
    destruct e as [y|y|]; try discriminate.
    + destruct (mapper y cnt); [|discriminate].
      destruct (Nat.ltb (length r) mc); intros H; injection H as <-; left; cbn [fst snd];
        apply in_app_or in Hk; rewrite ?in_app_iff in *; tauto.
    + destruct r; [discriminate|]. intros H. injection H as <-. auto.
  - destruct (mem (S j) r); [|intros H; injection H as <-; auto].
    destruct e as [y|y|]; try discriminate.
    + intros H; injection H as <-; auto.
    + destruct (Nat.eq_dec (S j) k) as [->|Hne]; [auto|].
      assert (Hk2 : In k (remove (S j) r ++ qu)).
      { apply in_app_or in Hk. apply in_or_app. destruct Hk as [Hk|Hk]; [left|right; exact Hk].
        apply in_remove_other; assumption. }
      destruct qu as [|q0 qs].
      * rewrite app_nil_r in Hk2.
        destruct (remove (S j) r); [destruct Hk2|]. destruct ol; intros H; injection H as <-; left;
          cbn [fst snd]; rewrite app_nil_r; exact Hk2.
      * intros H; injection H as <-. left. cbn [fst snd]. rewrite <- app_assoc. exact Hk2.
  - intros H; injection H as <-; auto.
Qed.

(* for max_concurrent >= 1: an inner waits only while some inner runs *)
Definition mc_qinv (st : mc_state) : Prop := snd st = [] \/ snd (fst st) <> [].

Lemma mc_step_qinv mapper mc (st : mc_state) (i : inp A) st1 : (0 < mc)%nat ->
  fst (mc_step mapper mc st i) = Some st1 -> mc_qinv st -> mc_qinv st1.
Proof.
  destruct st as [[[ol cnt] r] qu]. unfold mc_qinv. cbn [fst snd]. intros Hmc H Hq. revert H.
  destruct i as [[|j] e|tag|]; cbn [mc_step]; try discriminate.
  - destruct ol; [|intros H; injection H as <-; auto].
    destruct e as [y|y|]; try discriminate.
    + destruct (mapper y cnt); [|discriminate].
      destruct (Nat.ltb_spec (length r) mc) as [Hlt|Hge]; intros H; injection H as <-; right; cbn [fst snd].
      * intros E. apply (f_equal (@length nat)) in E. rewrite app_length in E. cbn in E. lia.
      * intros ->. cbn in *. lia.
    + destruct r; [discriminate|]. intros H. injection H as <-. auto.
  - destruct (mem (S j) r); [|intros H; injection H as <-; auto].
    destruct e as [y|y|]; try discriminate.
    + intros H; injection H as <-; auto.
    + destruct qu as [|q0 qs].
      * destruct (remove (S j) r); destruct ol; try discriminate; intros H; injection H as <-; auto.
      * intros H; injection H as <-. right. cbn [fst snd].
        intros E. apply (f_equal (@length nat)) in E. rewrite app_length in E. cbn in E. lia.
  - intros H; injection H as <-; auto.
Qed.

(* COMPLETION only after the outer and every inner that ever ran: whatever moment q0 before
   the completion one looks at, the outer (if live then) and every inner running then deliver
   their Done between q0 and the completion *)
Theorem mc_completes_after_outer_and_inners mapper mc (ins : list (Z * inp A)) ol cnt running queue pos p :
  In (p, Done) (mc_spec mapper mc ol cnt running queue pos ins) ->
  (pos <= p)%nat /\
  forall q0 ol' cnt' r' q', (q0 <= p - pos)%nat ->
    mc_after mapper mc (ol, cnt, running, queue) (firstn q0 ins) = Some (ol', cnt', r', q') ->
    (ol' = true -> exists q now, (q0 <= q <= p - pos)%nat /\ nth_error ins q = Some (now, ISrc 0%nat Done)) /\
    (forall k, In k r' -> exists q now, (q0 <= q <= p - pos)%nat /\ nth_error ins q = Some (now, ISrc k Done)).
Proof.
  intros Hin. rewrite mc_spec_fold in Hin.
  pose proof (fold_spec_pos _ _ _ _ _ _ Hin) as [Hle _]. split; [exact Hle|].
  replace p with (pos + (p - pos))%nat in Hin by lia. set (q := (p - pos)%nat) in *.
  apply fold_spec_in_iff in Hin. destruct Hin as (now & i & [[[olp cntp] rp] qp] & Hn & Hp & Hs).
  intros q0 ol' cnt' r' q' Hq0 H0. unfold mc_after in H0.
  apply mc_step_done in Hs. split.
  - intros Hol.
    destruct (fold_after_track_between (mc_step mapper mc) (fun st => fst (fst (fst st)) = true)
                (fun i => i = ISrc 0%nat Done)
                (mc_step_outer mapper mc) ins _ q0 q _ _ Hq0 H0 Hp Hol) as [Hl|(q1 & n1 & i1 & Hr & Hq1 & ->)].
    + cbn [fst] in Hl. subst olp. destruct Hs as [(-> & _ & _)|(j & _ & Hf & _)]; [|discriminate].
      exists q, now. split; [lia|exact Hn].
    + exists q1, n1. split; [lia|exact Hq1].
  - intros k Hk.
    destruct (fold_after_track_between (mc_step mapper mc) (fun st => In k (snd (fst st))) (fun i => i = ISrc k Done)
                (mc_step_running mapper mc k) ins _ q0 q _ _ Hq0 H0 Hp Hk) as [Hl|(q1 & n1 & i1 & Hr & Hq1 & ->)].
    + cbn [fst snd] in Hl. destruct Hs as [(_ & _ & ->)|(j & -> & _ & _ & Hall)]; [destruct Hl|].
      rewrite (Hall _ Hl). exists q, now. split; [lia|exact Hn].
    + exists q1, n1. split; [lia|exact Hq1].
Qed.

(* ... and, for max_concurrent >= 1 (from a state in which inners wait only while some inner
   runs, e.g. the initial one), with an EMPTY QUEUE: every inner that ever waited has been
   started and has completed before the completion *)
Theorem mc_completes_with_empty_queue mapper mc (ins : list (Z * inp A)) ol cnt running queue pos p :
  (0 < mc)%nat -> (queue = [] \/ running <> []) ->
  In (p, Done) (mc_spec mapper mc ol cnt running queue pos ins) ->
  (exists olp cntp rp, mc_after mapper mc (ol, cnt, running, queue) (firstn (p - pos) ins) = Some (olp, cntp, rp, []))
  /\
  forall q0 ol' cnt' r' q', (q0 <= p - pos)%nat ->
    mc_after mapper mc (ol, cnt, running, queue) (firstn q0 ins) = Some (ol', cnt', r', q') ->
    forall k, In k q' -> exists q now, (q0 <= q <= p - pos)%nat /\ nth_error ins q = Some (now, ISrc k Done).
Proof.
  intros Hmc Hq Hin. rewrite mc_spec_fold in Hin.
  pose proof (fold_spec_pos _ _ _ _ _ _ Hin) as [Hle _].
  replace p with (pos + (p - pos))%nat in Hin by lia. set (q := (p - pos)%nat) in *.
  apply fold_spec_in_iff in Hin. destruct Hin as (now & i & [[[olp cntp] rp] qp] & Hn & Hp & Hs).
  apply mc_step_done in Hs.
  assert (Hinv : forall n st, mc_after mapper mc (ol, cnt, running, queue) (firstn n ins) = Some st -> mc_qinv st).
  { intros n st H. eapply (fold_after_inv (mc_step mapper mc) mc_qinv); [|exact H|exact Hq].
    intros s i0 s1. apply mc_step_qinv. exact Hmc. }
  assert (Hqp : qp = []).
  { destruct Hs as [(_ & _ & ->)|(j & _ & _ & -> & _)]; [|reflexivity].
    destruct (Hinv _ _ Hp) as [H|H]; cbn [fst snd] in H; [exact H|congruence]. }
  subst qp. split; [exists olp, cntp, rp; exact Hp|].
  intros q0 ol' cnt' r' q' Hq0 H0 k Hk. unfold mc_after in H0.
  assert (Hk' : In k (snd (fst (ol', cnt', r', q')) ++ snd (ol', cnt', r', q'))).
  { cbn [fst snd]. apply in_or_app. right. exact Hk. }
  destruct (fold_after_track_between (mc_step mapper mc) (fun st => In k (snd (fst st) ++ snd st))
              (fun i => i = ISrc k Done)
              (mc_step_known mapper mc k) ins _ q0 q _ _ Hq0 H0 Hp Hk') as [Hl|(q1 & n1 & i1 & Hr & Hq1 & ->)].
  - cbn [fst snd] in Hl. rewrite app_nil_r in Hl.
    destruct Hs as [(_ & _ & ->)|(j & -> & _ & _ & Hall)]; [destruct Hl|].
    rewrite (Hall _ Hl). exists q, now. split; [lia|exact Hn].
  - exists q1, n1. split; [lia|exact Hq1].
Qed.

Lemma mc_step_none mapper mc st (i : inp A) : fst (mc_step mapper mc st i) = None ->
  (exists e, snd (mc_step mapper mc st i) = Some e /\ is_terminal e = true) \/ i = IDispose.
Proof.
  destruct st as [[[ol cnt] r] qu].
  destruct i as [[|j] e|tag|]; cbn [mc_step]; [| |discriminate|auto].
  - destruct ol; [|discriminate]. destruct e as [x|x|].
    + destruct (mapper x cnt); [destruct (Nat.ltb (length r) mc); discriminate|].
      intros _. left. eexists. split; reflexivity.
    + intros _. left. eexists. split; reflexivity.
    + destruct r; [|discriminate]. intros _. left. eexists. split; reflexivity.
  - destruct (mem (S j) r); [|discriminate]. destruct e as [x|x|]; [discriminate| |].
    + intros _. left. eexists. split; reflexivity.
    + destruct qu; [|discriminate].
      destruct (remove (S j) r); destruct ol; try discriminate. intros _. left. eexists. split; reflexivity.
Qed.

Lemma mc_after_some mapper mc ol cnt running queue pos (a : list (Z * inp A)) :
  (forall p e, In (p, e) (mc_spec mapper mc ol cnt running queue pos a) -> is_terminal e = false) ->
  ~ In IDispose (map snd a) ->
  exists st', mc_after mapper mc (ol, cnt, running, queue) a = Some st'.
Proof.
  intros Hn Hd. unfold mc_after.
  destruct (fold_after (mc_step mapper mc) (ol, cnt, running, queue) a) as [r'|] eqn:E; [eauto|].
  exfalso. destruct (fold_after_none _ (mc_step_none mapper mc) a _ pos E) as [(p & e & Hin & Ht)|H].
  - rewrite <- mc_spec_fold in Hin. rewrite (Hn _ _ Hin) in Ht. discriminate.
  - contradiction.
Qed.
End MergeConcSpec.

(* max_concurrent = 0 (outside the property's range 1..N): every inner waits for ever and the
   output completes with the outer, the queue still holding inner 1 *)
Example mc_zero_completes_with_waiting_inner :
  mc_spec (A:=Z) (fun _ _ => Ok tt) 0 true 0 [] [] 1 [(0%Z, ISrc 0%nat (Next 5%Z)); (0%Z, ISrc 0%nat Done)]
    = [(2%nat, Done)]
  /\ mc_after (A:=Z) (fun _ _ => Ok tt) 0 (true, 0%nat, [], []) [(0%Z, ISrc 0%nat (Next 5%Z))]
    = Some (true, 1%nat, [], [1%nat]).
Proof. vm_compute. split; reflexivity. Qed.
