(* C10: sequential composition over LAZY iterables (generators, for_in's mapped
   values) and on_error_resume_next with factory arguments.  The side effects of
   producing the sources do not change the behaviour at the operator's boundary:
   erasing them gives exactly the trace of the eager machine (so every theorem
   about x_concat / x_catch / x_oern carries over), and the iterable is advanced
   only in the handler of the termination the operator continues on. *)
From RxVerif Require Import Base.Prelude Ops.Machine Ops.MachineFacts Ops.Multi Ops.MultiFacts
  Ops.RunLemmas Ops.Combinators Ops.SequentialFacts.

Local Arguments Nat.ltb : simpl never.
Local Arguments Nat.leb : simpl never.

Definition noeff_c {B} (c : cmd B) : bool := match c with CEffect _ => false | _ => true end.
Definition noeff_o {B} (o : obs B) : bool := match o with OEffect _ => false | _ => true end.
Definition erase {B} (tr : list (nat * obs B)) : list (nat * obs B) := filter (fun x => noeff_o (snd x)) tr.

Section Erase.
Context {A B : Type}.

Lemma apply_cmds_erase (cs : list (cmd B)) : forall r,
  apply_cmds r (filter noeff_c cs)
  = (fst (apply_cmds r cs), filter noeff_o (snd (apply_cmds r cs))).
Proof.
  induction cs as [|c t IH]; intros r; [reflexivity|].
  destruct c as [b|k|k|tag d|tag|z]; cbn [filter noeff_c apply_cmds].
  - rewrite IH. destruct (apply_cmds r t) as [r2 o2]. reflexivity.
  - rewrite IH. destruct (apply_cmds _ t) as [r2 o2]. reflexivity.
  - destruct (mem k (r_live r)).
    + rewrite IH. destruct (apply_cmds _ t) as [r2 o2]. reflexivity.
    + rewrite IH. destruct (apply_cmds r t) as [r2 o2]. reflexivity.
  - rewrite IH. destruct (apply_cmds _ t) as [r2 o2]. reflexivity.
  - destruct (mem tag (r_timers r)).
    + rewrite IH. destruct (apply_cmds _ t) as [r2 o2]. reflexivity.
    + rewrite IH. destruct (apply_cmds r t) as [r2 o2]. reflexivity.
  - rewrite IH. destruct (apply_cmds r t) as [r2 o2]. reflexivity.
Qed.

Lemma noeff_release (r : rstate) : filter noeff_o (snd (@release B r)) = snd (@release B r).
Proof.
  unfold release. cbn [snd]. rewrite filter_app. f_equal.
  - induction (sort_nat (r_live r)); cbn; congruence.
  - induction (sort_nat (r_timers r)); cbn; congruence.
Qed.

Lemma noeff_finish (r : rstate) f : filter noeff_o (snd (@finish B r f)) = snd (@finish B r f).
Proof.
  destruct f; cbn [finish]; [reflexivity| |];
    pose proof (noeff_release r) as H; destruct (release r) as [r' o]; cbn [snd] in *; cbn; now rewrite H.
Qed.

Lemma filter_map_tag (k : nat) (o : list (obs B)) :
  filter (fun x : nat * obs B => noeff_o (snd x)) (map (fun x => (k, x)) o)
  = map (fun x => (k, x)) (filter noeff_o o).
Proof. induction o as [|x t IH]; [reflexivity|]. cbn. destruct (noeff_o x); cbn; now rewrite IH. Qed.

Lemma filter_comm {X} (f g : X -> bool) (l : list X) : filter f (filter g l) = filter g (filter f l).
Proof.
  induction l as [|x t IH]; [reflexivity|]. cbn.
  destruct (f x) eqn:F, (g x) eqn:G; cbn; rewrite ?F, ?G, IH; reflexivity.
Qed.

(* simulation: m2 is m1 without its effects *)
Variables (m1 m2 : machine A B) (R : x_state m1 -> x_state m2 -> Prop).

Definition same_answer (a1 : x_state m1 * list (cmd B) * fin) (a2 : x_state m2 * list (cmd B) * fin) : Prop :=
  R (fst (fst a1)) (fst (fst a2)) /\ filter noeff_c (snd (fst a1)) = snd (fst a2) /\ snd a1 = snd a2.

Hypothesis Hstep : forall s1 s2 now i, R s1 s2 -> same_answer (x_step m1 s1 now i) (x_step m2 s2 now i).

Lemma rstep_erase s1 s2 r now i : R s1 s2 ->
  R (fst (fst (rstep m1 s1 r now i))) (fst (fst (rstep m2 s2 r now i)))
  /\ snd (fst (rstep m1 s1 r now i)) = snd (fst (rstep m2 s2 r now i))
  /\ filter noeff_o (snd (rstep m1 s1 r now i)) = snd (rstep m2 s2 r now i).
Proof.
  intros HR. unfold rstep. destruct (r_stopped r); [cbn; auto|].
  pose proof (Hstep s1 s2 now i HR) as (H1 & H2 & H3).
  assert (Deliver : forall r0,
    let x1 := (let '(s', cs, f) := x_step m1 s1 now i in
               let '(r1, o1) := apply_cmds r0 cs in
               let '(r2, o2) := match i with
                                | ISrc k e => if is_terminal e && mem k (r_live r1)
                                              then (RState (remove k (r_live r1)) (r_timers r1) (r_stopped r1), [OUnsub k])
                                              else (r1, [])
                                | _ => (r1, [])
                                end in
               let '(r3, o3) := finish r2 f in (s', r3, o1 ++ o2 ++ o3)) in
    let x2 := (let '(s', cs, f) := x_step m2 s2 now i in
               let '(r1, o1) := apply_cmds r0 cs in
               let '(r2, o2) := match i with
                                | ISrc k e => if is_terminal e && mem k (r_live r1)
                                              then (RState (remove k (r_live r1)) (r_timers r1) (r_stopped r1), [OUnsub k])
                                              else (r1, [])
                                | _ => (r1, [])
                                end in
               let '(r3, o3) := finish r2 f in (s', r3, o1 ++ o2 ++ o3)) in
    R (fst (fst x1)) (fst (fst x2)) /\ snd (fst x1) = snd (fst x2) /\ filter noeff_o (snd x1) = snd x2).
  { intros r0. cbv zeta.
    destruct (x_step m1 s1 now i) as [[s1' c1] f1], (x_step m2 s2 now i) as [[s2' c2] f2].
    cbn [fst snd] in H1, H2, H3. subst c2 f2. rewrite apply_cmds_erase.
    destruct (apply_cmds r0 c1) as [r1 o1]. cbn [fst snd].
    set (d := match i with
              | ISrc k e => if is_terminal e && mem k (r_live r1)
                            then (RState (remove k (r_live r1)) (r_timers r1) (r_stopped r1), [OUnsub k])
                            else (r1, [])
              | _ => (r1, [])
              end).
    assert (Hd : filter noeff_o (snd d) = snd d).
    { subst d. destruct i as [k e| |]; try reflexivity. destruct (is_terminal e && mem k (r_live r1)); reflexivity. }
    destruct d as [r2 o2]. cbn [snd] in Hd.
    pose proof (noeff_finish r2 f1) as Hf. destruct (finish r2 f1) as [r3 o3]. cbn [fst snd] in *.
    repeat split; auto. rewrite !filter_app, Hd, Hf. reflexivity. }
  destruct i as [k e|tag|].
  - destruct (mem k (r_live r)); [apply Deliver|cbn; auto].
  - destruct (mem tag (r_timers r)); [apply Deliver|cbn; auto].
  - destruct (x_step m1 s1 now IDispose) as [[s1' c1] f1], (x_step m2 s2 now IDispose) as [[s2' c2] f2].
    cbn [fst snd] in H1, H2, H3. subst c2 f2. rewrite apply_cmds_erase.
    destruct (apply_cmds r c1) as [r1 o1]. cbn [fst snd].
    pose proof (noeff_release r1) as Hr. destruct (release r1) as [r2 o2]. cbn [fst snd] in *.
    repeat split; auto. rewrite filter_app, Hr, filter_comm. reflexivity.
Qed.

Lemma run_from_erase ins : forall s1 s2 r k, R s1 s2 ->
  erase (fst (run_from m1 s1 r k ins)) = fst (run_from m2 s2 r k ins)
  /\ snd (run_from m1 s1 r k ins) = snd (run_from m2 s2 r k ins).
Proof.
  induction ins as [|[now i] rest IH]; intros s1 s2 r k HR; [split; reflexivity|].
  cbn [run_from]. pose proof (rstep_erase s1 s2 r now i HR) as (H1 & H2 & H3).
  destruct (rstep m1 s1 r now i) as [[s1' r1] o1], (rstep m2 s2 r now i) as [[s2' r2] o2].
  cbn [fst snd] in H1, H2, H3. subst r2 o2.
  specialize (IH s1' s2' r1 (S k) H1). destruct IH as [IH1 IH2].
  destruct (run_from m1 s1' r1 (S k) rest) as [t1 f1], (run_from m2 s2' r1 (S k) rest) as [t2 f2].
  cbn [fst snd] in *. subst t2 f2. split; [|reflexivity].
  unfold erase. rewrite filter_app. f_equal. apply filter_map_tag.
Qed.

Hypothesis Hstart : same_answer (x_start m1) (x_start m2).

Theorem run_erase ins :
  erase (fst (run m1 ins)) = fst (run m2 ins) /\ snd (run m1 ins) = snd (run m2 ins).
Proof.
  unfold run. destruct Hstart as (H1 & H2 & H3).
  destruct (x_start m1) as [[s1 c1] f1], (x_start m2) as [[s2 c2] f2]. cbn [fst snd] in H1, H2, H3. subst c2 f2.
  rewrite apply_cmds_erase. destruct (apply_cmds (RState [] [] false) c1) as [r1 o1]. cbn [fst snd].
  pose proof (noeff_finish r1 f1) as Hf. destruct (finish r1 f1) as [r2 o2]. cbn [snd] in Hf.
  pose proof (run_from_erase ins s1 s2 r2 1 H1) as [E1 E2].
  destruct (run_from m1 s1 r2 1 ins) as [t1 g1], (run_from m2 s2 r2 1 ins) as [t2 g2]. cbn [fst snd] in *.
  subst t2 g2. split; [|reflexivity].
  unfold erase. rewrite filter_app. f_equal. rewrite filter_map_tag. f_equal.
  now rewrite filter_app, Hf.
Qed.
End Erase.

Section Lazy.
Context {A : Type}.

Lemma lazy_next_ok n tail j (onend : fin) :
  filter noeff_c (fst (lazy_next (A:=A) n (fun _ => Ok tt) tail j onend))
  = (if Nat.ltb j n then [CSub j] else [])
  /\ snd (lazy_next (A:=A) n (fun _ => Ok tt) tail j onend) = (if Nat.ltb j n then Cont else onend).
Proof. unfold lazy_next. destruct (Nat.ltb j n); [split; reflexivity|]. destruct tail; split; reflexivity. Qed.

(* a lazy iterable whose production never raises: concat_with_iterable behaves, at
   its boundary, exactly as over the list of the same sources *)
Theorem concat_lazy_erases n tail (ins : list (Z * inp A)) :
  erase (fst (run (x_concat_lazy n (fun _ => Ok tt) tail) ins)) = fst (run (x_concat n) ins)
  /\ snd (run (x_concat_lazy n (fun _ => Ok tt) tail) ins) = snd (run (x_concat n) ins).
Proof.
  apply (run_erase (x_concat_lazy n (fun _ => Ok tt) tail) (x_concat n) (fun a b => a = b)).
  - intros s1 s2 now i <-. unfold same_answer. cbn [x_step x_concat_lazy x_concat].
    destruct i as [k [x|e|]|tag|]; cbn; auto.
    pose proof (lazy_next_ok n tail (S s1) Complete) as [H1 H2].
    destruct (lazy_next n (fun _ => Ok tt) tail (S s1) Complete) as [cs f]. cbn [fst snd] in *.
    destruct (Nat.ltb (S s1) n); cbn; auto.
  - unfold same_answer. cbn [x_start x_concat_lazy x_concat].
    pose proof (lazy_next_ok n tail 0 Complete) as [H1 H2].
    destruct (lazy_next n (fun _ => Ok tt) tail 0 Complete) as [cs f]. cbn [fst snd] in *.
    destruct n; cbn in *; auto.
Qed.

Theorem catch_lazy_erases n tail (ins : list (Z * inp A)) :
  erase (fst (run (x_catch_lazy n (fun _ => Ok tt) tail) ins)) = fst (run (x_catch n) ins)
  /\ snd (run (x_catch_lazy n (fun _ => Ok tt) tail) ins) = snd (run (x_catch n) ins).
Proof.
  apply (run_erase (x_catch_lazy n (fun _ => Ok tt) tail) (x_catch n) (fun a b => a = fst b)).
  - intros s1 [cur last] now i Hs. cbn in Hs. subst s1. unfold same_answer.
    cbn [x_step x_catch_lazy x_catch].
    destruct i as [k [x|e|]|tag|]; cbn; auto.
    pose proof (lazy_next_ok n tail (S cur) (Fail e)) as [H1 H2].
    destruct (lazy_next n (fun _ => Ok tt) tail (S cur) (Fail e)) as [cs f]. cbn [fst snd] in *.
    destruct (Nat.ltb (S cur) n); cbn; auto.
  - unfold same_answer. cbn [x_start x_catch_lazy x_catch].
    pose proof (lazy_next_ok n tail 0 Complete) as [H1 H2].
    destruct (lazy_next n (fun _ => Ok tt) tail 0 Complete) as [cs f]. cbn [fst snd] in *.
    destruct n; cbn in *; auto.
Qed.

(* on_error_resume_next with factory arguments: the factories' calls do not change
   the boundary behaviour *)
Theorem oern_factories_erase n fact (ins : list (Z * inp A)) :
  erase (fst (run (x_oern_f n fact) ins)) = fst (run (x_oern n) ins)
  /\ snd (run (x_oern_f n fact) ins) = snd (run (x_oern n) ins).
Proof.
  apply (run_erase (x_oern_f n fact) (x_oern n) (fun a b => a = b)).
  - intros s1 s2 now i <-. unfold same_answer. cbn [x_step x_oern_f x_oern].
    destruct i as [k [x|e|]|tag|]; cbn; auto;
      destruct (Nat.ltb (S s1) n); cbn; auto; unfold oern_sub; destruct (fact (S s1)); cbn; auto.
  - unfold same_answer. cbn [x_start x_oern_f x_oern]. destruct n; cbn; auto.
    unfold oern_sub; destruct (fact 0%nat); cbn; auto.
Qed.

(* LAZINESS: the iterable is advanced (an effect happens) and a source is
   subscribed only in the handler of a completion (concat / for_in, whatever the
   mapper does), resp. of an error (catch) *)
Definition touches (cs : list (cmd A)) : bool :=
  existsb (fun c => match c with CEffect _ | CSub _ => true | _ => false end) cs.

Theorem concat_lazy_advances_on_completion n produce tail cur now (i : inp A) :
  touches (snd (fst (x_step (x_concat_lazy n produce tail) cur now i))) = true -> exists k, i = ISrc k Done.
Proof.
  cbn [x_step x_concat_lazy]. destruct i as [k [x|e|]|tag|]; cbn; try discriminate.
  intros _. now exists k.
Qed.

Theorem catch_lazy_advances_on_error n produce tail cur now (i : inp A) :
  touches (snd (fst (x_step (x_catch_lazy n produce tail) cur now i))) = true -> exists k e, i = ISrc k (Err e).
Proof.
  cbn [x_step x_catch_lazy]. destruct i as [k [x|e|]|tag|]; cbn; try discriminate.
  intros _. now exists k, e.
Qed.

(* the factory of on_error_resume_next is called only when the previous source
   terminates, and with that source's error (code e) or None (code 0) *)
Theorem oern_factory_argument n fact cur now (i : inp A) z :
  In (CEffect z) (snd (fst (x_step (x_oern_f n fact) cur now i))) ->
  exists k t, i = ISrc k t /\ is_terminal t = true /\ fact (S cur) = true /\
              z = 1000 * Z.of_nat (S cur) + match t with Err e => e | _ => 0 end.
Proof.
  cbn [x_step x_oern_f]. destruct i as [k [x|e|]|tag|]; cbn; try tauto.
  - intros [H|[]]. discriminate.
  - destruct (Nat.ltb (S cur) n); cbn; [|tauto]. unfold oern_sub. destruct (fact (S cur)) eqn:F; cbn.
    + intros [H|[H|[]]]; try discriminate. injection H as <-. exists k, (Err e). auto.
    + intros [H|[]]. discriminate.
  - destruct (Nat.ltb (S cur) n); cbn; [|tauto]. unfold oern_sub. destruct (fact (S cur)) eqn:F; cbn.
    + intros [H|[H|[]]]; try discriminate. injection H as <-. exists k, Done. auto.
    + intros [H|[]]. discriminate.
Qed.

(* one source at a time, for EVERY input sequence and every mapper (raising or not) *)
Definition lazy_inv (n : nat) (cur : nat) (r : rstate) : Prop :=
  r_stopped r = true \/ (r_live r = [cur] /\ r_timers r = [] /\ cur < n)%nat.

Lemma lazy_step n produce tail cur r now (i : inp A) :
  lazy_inv n cur r ->
  lazy_inv n (fst (fst (rstep (x_concat_lazy n produce tail) cur r now i)))
             (snd (fst (rstep (x_concat_lazy n produce tail) cur r now i))).
Proof.
  intros [Hs|(Hl & Ht & Hc)].
  - rewrite rstep_stopped by exact Hs. left. exact Hs.
  - destruct r as [lv ts st]. cbn in Hl, Ht. subst lv ts.
    unfold rstep. cbn [r_stopped]. destruct st; [left; reflexivity|].
    destruct i as [k e|tag|].
    + cbn [r_live mem existsb]. destruct (Nat.eqb_spec k cur) as [->|Hne]; cbn [orb].
      * destruct e as [x|e|].
        -- right. cbn. rewrite ?Nat.eqb_refl. cbn. auto.
        -- left. cbn. rewrite ?Nat.eqb_refl. reflexivity.
        -- cbn [x_step x_concat_lazy]. unfold lazy_next.
           destruct (Nat.ltb_spec (S cur) n) as [Hlt|Hge].
           ++ destruct (produce (S cur)); cbn; rewrite ?Nat.eqb_refl; cbn.
              ** right. auto.
              ** left. reflexivity.
           ++ destruct tail; cbn; rewrite ?Nat.eqb_refl; cbn; left; reflexivity.
      * right. cbn. auto.
    + right. cbn. auto.
    + left. cbn. reflexivity.
Qed.

Theorem lazy_one_at_a_time n produce tail (ins : list (Z * inp A)) :
  (length (r_live (snd (run (x_concat_lazy n produce tail) ins))) <= 1)%nat.
Proof.
  set (m := x_concat_lazy (A:=A) n produce tail).
  rewrite run_final.
  assert (H0 : lazy_inv n (fst (start_state m)) (snd (start_state m))).
  { unfold start_state, m. cbn [x_start x_concat_lazy]. unfold lazy_next.
    destruct (Nat.ltb_spec 0 n) as [Hlt|Hge].
    - destruct (produce 0%nat); cbn; [right; repeat split; auto|left; reflexivity].
    - destruct tail; cbn; left; reflexivity. }
  pose proof (run_from_invariant m (fun s r _ => lazy_inv n s r)
                (fun s r acc now i H => lazy_step n produce tail s r now i H) ins _ _ 1 [] H0) as H.
  cbn beta in H. destruct H as [Hs|(Hl & _ & _)].
  - pose proof (run_from_rinv m ins (fst (start_state m)) (snd (start_state m)) 1) as R.
    rewrite <- (after_snd _ ins _ _ 1) in R.
    assert (Hr0 : rinv (snd (start_state m))).
    { unfold start_state, m, rinv, released. cbn [x_start x_concat_lazy]. unfold lazy_next.
      destruct (Nat.ltb 0 n); [destruct (produce 0%nat)|destruct tail]; cbn; try reflexivity; discriminate. }
    rewrite (R Hr0 Hs). cbn. lia.
  - rewrite Hl. cbn. lia.
Qed.
End Lazy.
