(* C10-C13: sequential composition, merging, switching and multi-source
   combinators as machines (Ops/Multi.v), following the code of the files
   named above each definition.  Sources are numbered from 0 in the order the
   harness creates them; "dynamic" inner observables (flat_map, merge_all,
   switch_latest, concat_map) are numbered 1, 2, ... in the order the outer
   source produces them. *)
From RxVerif Require Import Base.Prelude Ops.Machine Ops.Multi.

Definition nth_set {X} (n : nat) (x : X) (l : list X) : list X :=
  firstn n l ++ match skipn n l with [] => [] | _ :: t => x :: t end.

Section Comb.
Context {A : Type}.

(* ------------------------------------------------------------------ C10 -- *)
(* observable/concat.py: concat_with_iterable_ over n sources 0..n-1, with the
   CurrentThreadScheduler trampoline (no scheduler passed): the next source is
   subscribed inside the previous one's on_completed. *)
Definition x_concat (n : nat) : machine A A :=
  Machine (match n with O => (0%nat, [], Complete) | S _ => (0%nat, [CSub 0%nat], Cont) end)
    (fun cur _ i =>
       match i with
       | ISrc k (Next x) => (cur, [CEmit x], Cont)
       | ISrc k (Err e) => (cur, [], Fail e)
       | ISrc k Done => if Nat.ltb (S cur) n then (S cur, [CSub (S cur)], Cont)
                        else (S cur, [], Complete)
       | _ => (cur, [], Cont)
       end).

(* observable/catch.py: catch_with_iterable_ over n sources; state = (current,
   last exception) *)
Definition x_catch (n : nat) : machine A A :=
  Machine (match n with O => ((0%nat, None), [], Complete) | S _ => ((0%nat, None), [CSub 0%nat], Cont) end)
    (fun '(cur, last) _ i =>
       match i with
       | ISrc k (Next x) => ((cur, last), [CEmit x], Cont)
       | ISrc k Done => ((cur, last), [], Complete)
       | ISrc k (Err e) => if Nat.ltb (S cur) n then ((S cur, Some e), [CSub (S cur)], Cont)
                           else ((S cur, Some e), [], Fail e)
       | _ => ((cur, last), [], Cont)
       end).

(* operators/_retry.py: retry(count) = catch_with_iterable(source repeated count
   times): the SAME source 0 is subscribed again; count = None: forever *)
Definition x_retry (count : option nat) : machine A A :=
  Machine (match count with Some O => (0%nat, [], Complete) | _ => (1%nat, [CSub 0%nat], Cont) end)
    (fun used _ i =>
       match i with
       | ISrc _ (Next x) => (used, [CEmit x], Cont)
       | ISrc _ Done => (used, [], Complete)
       | ISrc _ (Err e) =>
           if match count with None => true | Some c => Nat.ltb used c end
           then (S used, [CSub 0%nat], Cont) else (used, [], Fail e)
       | _ => (used, [], Cont)
       end).

(* operators/_repeat.py: repeat(count) = defer(concat_with_iterable(source x count)) *)
Definition x_repeat (count : option nat) : machine A A :=
  Machine (match count with Some O => (0%nat, [], Complete) | _ => (1%nat, [CSub 0%nat], Cont) end)
    (fun used _ i =>
       match i with
       | ISrc _ (Next x) => (used, [CEmit x], Cont)
       | ISrc _ (Err e) => (used, [], Fail e)
       | ISrc _ Done =>
           if match count with None => true | Some c => Nat.ltb used c end
           then (S used, [CSub 0%nat], Cont) else (used, [], Complete)
       | _ => (used, [], Cont)
       end).

(* observable/onerrorresumenext.py over n plain observables: continue on
   completion AND on error; completes after the last *)
Definition x_oern (n : nat) : machine A A :=
  Machine (match n with O => (0%nat, [], Complete) | S _ => (0%nat, [CSub 0%nat], Cont) end)
    (fun cur _ i =>
       match i with
       | ISrc k (Next x) => (cur, [CEmit x], Cont)
       | ISrc k _ => if Nat.ltb (S cur) n then (S cur, [CSub (S cur)], Cont)
                     else (S cur, [], Complete)
       | _ => (cur, [], Cont)
       end).

(* operators/_whiledo.py: while_do(condition): concat of source 0 repeated while
   the condition (evaluated before each subscription; j-th evaluation) holds *)
Definition x_while_do (cond : nat -> res bool) : machine A A :=
  Machine (match cond 0%nat with
           | Ok true => (1%nat, [CSub 0%nat], Cont)
           | Ok false => (1%nat, [], Complete)
           | Raise e => (1%nat, [], Fail e)
           end)
    (fun j _ i =>
       match i with
       | ISrc _ (Next x) => (j, [CEmit x], Cont)
       | ISrc _ (Err e) => (j, [], Fail e)
       | ISrc _ Done => match cond j with
                        | Ok true => (S j, [CSub 0%nat], Cont)
                        | Ok false => (S j, [], Complete)
                        | Raise e => (S j, [], Fail e)
                        end
       | _ => (j, [], Cont)
       end).

(* operators/_dowhile.py: source.concat(source.while_do(condition)) *)
Definition x_do_while (cond : nat -> res bool) : machine A A :=
  Machine (0%nat, [CSub 0%nat], Cont)
    (fun j _ i =>
       match i with
       | ISrc _ (Next x) => (j, [CEmit x], Cont)
       | ISrc _ (Err e) => (j, [], Fail e)
       | ISrc _ Done => match cond j with
                        | Ok true => (S j, [CSub 0%nat], Cont)
                        | Ok false => (S j, [], Complete)
                        | Raise e => (S j, [], Fail e)
                        end
       | _ => (j, [], Cont)
       end).

(* operators/_catch.py: catch(handler function): on error call handler (may
   raise); its result is inner source 1 mirrored completely *)
Definition x_catch_handler (handler : Z -> res unit) : machine A A :=
  Machine (false, [CSub 0%nat], Cont)
    (fun switched _ i =>
       match i with
       | ISrc _ (Next x) => (switched, [CEmit x], Cont)
       | ISrc _ Done => (switched, [], Complete)
       | ISrc k (Err e) =>
           if switched then (switched, [], Fail e)
           else match handler e with
                | Ok _ => (true, [CSub 1%nat], Cont)
                | Raise e' => (switched, [], Fail e')
                end
       | _ => (switched, [], Cont)
       end).

(* ------------------------------------------------------------------ C11 -- *)
(* observable/merge.py: merge(sources...) = from_iterable(sources).merge_all():
   all n sources are subscribed inside subscribe() *)
Definition x_merge (n : nat) : machine A A :=
  Machine (match n with
           | O => ([], [], Complete)
           | _ => (seq 0 n, map CSub (seq 0 n), Cont)
           end)
    (fun active _ i =>
       match i with
       | ISrc k (Next x) => (active, [CEmit x], Cont)
       | ISrc k (Err e) => (active, [], Fail e)
       | ISrc k Done =>
           let active' := remove k active in
           (active', [CUnsub k], match active' with [] => Complete | _ => Cont end)
       | _ => (active, [], Cont)
       end).

(* operators/_flatmap.py + _merge.py: flat_map(mapper) = map_indexed(projection)
   ; merge_all().  mapper result: Ok = a fresh inner observable, Raise = raises.
   state: (number of inners created, live inners, outer stopped) *)
Definition x_flat_map (mapper : A -> nat -> res unit) : machine A A :=
  Machine ((0%nat, [] : list nat, false), [CSub 0%nat], Cont)
    (fun '(cnt, active, stopped) _ i =>
       match i with
       | ISrc O (Next x) =>
           match mapper x cnt with
           | Ok _ => ((S cnt, active ++ [S cnt], stopped), [CSub (S cnt)], Cont)
           | Raise e => ((cnt, active, stopped), [], Fail e)
           end
       | ISrc O (Err e) => ((cnt, active, stopped), [], Fail e)
       | ISrc O Done => ((cnt, active, true), [],
                         match active with [] => Complete | _ => Cont end)
       | ISrc k (Next x) => ((cnt, active, stopped), [CEmit x], Cont)
       | ISrc k (Err e) => ((cnt, active, stopped), [], Fail e)
       | ISrc k Done =>
           let active' := remove k active in
           ((cnt, active', stopped), [CUnsub k],
            if stopped then match active' with [] => Complete | _ => Cont end else Cont)
       | _ => ((cnt, active, stopped), [], Cont)
       end).

(* operators/_merge.py: merge_(max_concurrent = mc) after map(project): also
   concat_map (mc = 1).  state: (inners created, active count, queue, stopped) *)
Definition x_merge_concurrent (mc : nat) (mapper : A -> nat -> res unit) : machine A A :=
  Machine ((0%nat, 0%nat, [] : list nat, false), [CSub 0%nat], Cont)
    (fun '(cnt, active, queue, stopped) _ i =>
       match i with
       | ISrc O (Next x) =>
           match mapper x cnt with
           | Raise e => ((cnt, active, queue, stopped), [], Fail e)
           | Ok _ =>
               if Nat.ltb active mc
               then ((S cnt, S active, queue, stopped), [CSub (S cnt)], Cont)
               else ((S cnt, active, queue ++ [S cnt], stopped), [], Cont)
           end
       | ISrc O (Err e) => ((cnt, active, queue, stopped), [], Fail e)
       | ISrc O Done => ((cnt, active, queue, true), [],
                         match active with O => Complete | _ => Cont end)
       | ISrc k (Next x) => ((cnt, active, queue, stopped), [CEmit x], Cont)
       | ISrc k (Err e) => ((cnt, active, queue, stopped), [], Fail e)
       | ISrc k Done =>
           match queue with
           | q :: rest => ((cnt, active, rest, stopped), [CUnsub k; CSub q], Cont)
           | [] => ((cnt, pred active, queue, stopped), [CUnsub k],
                    if stopped && Nat.eqb (pred active) 0 then Complete else Cont)
           end
       | _ => ((cnt, active, queue, stopped), [], Cont)
       end).

(* ------------------------------------------------------------------ C12 -- *)
(* operators/_switchlatest.py after map(project): switch_map / flat_map_latest.
   state: (inners created = id of the latest, has_latest, outer stopped) *)
Definition x_switch_map (mapper : A -> nat -> res unit) : machine A A :=
  Machine ((0%nat, false, false), [CSub 0%nat], Cont)
    (fun '(latest, has_latest, stopped) _ i =>
       match i with
       | ISrc O (Next x) =>
           match mapper x latest with
           | Raise e => ((latest, has_latest, stopped), [], Fail e)
           | Ok _ => ((S latest, true, stopped),
                     (match latest with O => [] | _ => [CUnsub latest] end) ++ [CSub (S latest)], Cont)
           end
       | ISrc O (Err e) => ((latest, has_latest, stopped), [], Fail e)
       | ISrc O Done => ((latest, has_latest, true), [], if has_latest then Cont else Complete)
       | ISrc k (Next x) => ((latest, has_latest, stopped),
                             if Nat.eqb k latest then [CEmit x] else [], Cont)
       | ISrc k (Err e) => ((latest, has_latest, stopped), [],
                            if Nat.eqb k latest then Fail e else Cont)
       | ISrc k Done =>
           if Nat.eqb k latest
           then ((latest, false, stopped), [], if stopped then Complete else Cont)
           else ((latest, has_latest, stopped), [], Cont)
       | _ => ((latest, has_latest, stopped), [], Cont)
       end).
End Comb.

(* ------------------------------------------------------------------ C13 -- *)
Section Comb13.
Context {A : Type}.

Definition all_nonempty (qs : list (list A)) : bool := forallb (fun q => negb (Nat.eqb (length q) 0)) qs.

(* observable/zip.py over n sources; state: queues, is_completed flags *)
Definition x_zip (n : nat) : machine A (list A) :=
  Machine ((repeat ([] : list A) n, repeat false n), map CSub (seq 0 n), Cont)
    (fun '(queues, done) _ i =>
       match i with
       | ISrc k (Next x) =>
           let queues1 := nth_set k (nth k queues [] ++ [x]) queues in
           if all_nonempty queues1 then
             let tuple := map (fun q => match q with [] => x | v :: _ => v end) queues1 in
             let queues2 := map (@tl A) queues1 in
             ((queues2, done), [CEmit tuple],
              if existsb (fun qd => Nat.eqb (length (fst qd)) 0 && snd qd) (combine queues2 done)
              then Complete else Cont)
           else ((queues1, done), [], Cont)
       | ISrc k (Err e) => ((queues, done), [], Fail e)
       | ISrc k Done =>
           ((queues, nth_set k true done), [],
            if Nat.eqb (length (nth k queues [])) 0 then Complete else Cont)
       | _ => ((queues, done), [], Cont)
       end).

(* observable/combinelatest.py over n >= 1 sources; state: values, has_value_all, is_done *)
Definition x_combine_latest (n : nat) : machine A (list A) :=
  Machine ((repeat (None : option A) n, false, repeat false n), map CSub (seq 0 n), Cont)
    (fun '(values, hva, done) _ i =>
       match i with
       | ISrc k (Next x) =>
           let values1 := nth_set k (Some x) values in
           let hva1 := hva || forallb (fun v => match v with Some _ => true | None => false end) values1 in
           if hva1 then
             ((values1, hva1, done),
              [CEmit (flat_map (fun v => match v with Some y => [y] | None => [] end) values1)], Cont)
           else
             (* all OTHER sources done: nothing can ever be emitted *)
             ((values1, hva1, done), [],
              if forallb (fun jd => Nat.eqb (fst jd) k || snd jd) (combine (seq 0 n) done)
              then Complete else Cont)
       | ISrc k (Err e) => ((values, hva, done), [], Fail e)
       | ISrc k Done =>
           let done1 := nth_set k true done in
           ((values, hva, done1), [], if forallb (fun d => d) done1 then Complete else Cont)
       | _ => ((values, hva, done), [], Cont)
       end).

(* observable/withlatestfrom.py: parent = source 0, children 1..n (subscribed
   first); child completion is ignored *)
Definition x_with_latest_from (n : nat) : machine A (list A) :=
  Machine (repeat (None : option A) n, map CSub (seq 1 n) ++ [CSub 0%nat], Cont)
    (fun values _ i =>
       match i with
       | ISrc O (Next x) =>
           (values,
            if forallb (fun v => match v with Some _ => true | None => false end) values
            then [CEmit (x :: flat_map (fun v => match v with Some y => [y] | None => [] end) values)]
            else [], Cont)
       | ISrc O Done => (values, [], Complete)
       | ISrc (S j) (Next x) => (nth_set j (Some x) values, [], Cont)
       | ISrc (S j) Done => (values, [], Cont)
       | ISrc _ (Err e) => (values, [], Fail e)
       | _ => (values, [], Cont)
       end).

(* observable/forkjoin.py *)
Definition x_fork_join (n : nat) : machine A (list A) :=
  Machine ((repeat (None : option A) n, repeat false n), map CSub (seq 0 n), Cont)
    (fun '(values, done) _ i =>
       match i with
       | ISrc k (Next x) => ((nth_set k (Some x) values, done), [], Cont)
       | ISrc k (Err e) => ((values, done), [], Fail e)
       | ISrc k Done =>
           let done1 := nth_set k true done in
           match nth k values None with
           | None => ((values, done1), [], Complete)
           | Some _ =>
               if forallb (fun d => d) done1
               then ((values, done1),
                     [CEmit (flat_map (fun v => match v with Some y => [y] | None => [] end) values)],
                     Complete)
               else ((values, done1), [], Cont)
           end
       | _ => ((values, done), [], Cont)
       end).
End Comb13.

(* operators/_amb.py / observable/amb.py over n sources: the first source to
   notify is mirrored, the others are unsubscribed at that moment *)
Definition x_amb {A} (n : nat) : machine A A :=
  Machine ((None : option nat), map CSub (rev (seq 0 n)), Cont)
    (fun choice _ i =>
       match i with
       | ISrc k e =>
           let losers := match choice with
                         | None => map CUnsub (filter (fun j => negb (Nat.eqb j k)) (seq 0 n))
                         | Some _ => []
                         end in
           let chosen := match choice with None => k | Some c => c end in
           if Nat.eqb chosen k then
             match e with
             | Next x => (Some chosen, losers ++ [CEmit x], Cont)
             | Err x => (Some chosen, losers, Fail x)
             | Done => (Some chosen, losers, Complete)
             end
           else (choice, [], Cont)
       | _ => (choice, [], Cont)
       end).

(* ------------------------------------------------------------- gates ----- *)
(* operators/_takeuntil.py: source 0 and the other observable 1 are subscribed in
   that order; the first element of the other one completes the output, its
   completion is ignored, its error is passed on *)
Definition x_take_until {A} : machine A A :=
  Machine (tt, [CSub 0%nat; CSub 1%nat], Cont)
    (fun s _ i =>
       match i with
       | ISrc O (Next x) => (s, [CEmit x], Cont)
       | ISrc O (Err e) => (s, [], Fail e)
       | ISrc O Done => (s, [], Complete)
       | ISrc (S _) (Next _) => (s, [], Complete)
       | ISrc (S _) (Err e) => (s, [], Fail e)
       | ISrc (S _) Done => (s, [], Cont)
       | _ => (s, [], Cont)
       end).

(* operators/_skipuntil.py: state is_open; the other observable (1) opens the gate
   with its first element and is unsubscribed at once; a source completing while
   the gate is closed completes nothing *)
Definition x_skip_until {A} : machine A A :=
  Machine (false, [CSub 0%nat; CSub 1%nat], Cont)
    (fun is_open _ i =>
       match i with
       | ISrc O (Next x) => (is_open, if is_open then [CEmit x] else [], Cont)
       | ISrc O (Err e) => (is_open, [], Fail e)
       | ISrc O Done => (is_open, [], if is_open then Complete else Cont)
       | ISrc (S _) (Next _) => (true, [CUnsub 1%nat], Cont)
       | ISrc (S _) (Err e) => (is_open, [], Fail e)
       | ISrc (S _) Done => (is_open, [CUnsub 1%nat], Cont)
       | _ => (is_open, [], Cont)
       end).

(* ------------------------------------------- C10: lazy iterables, factories -- *)
Section CombLazy.
Context {A : Type}.

(* The iterable handed to concat_with_iterable / catch_with_iterable may be LAZY
   (a generator; for_in = defer(concat_with_iterable(map(mapper, values)))): the
   operator calls next() on it once at subscription and once in the handler of
   every termination it continues on -- never ahead of time.  The production of
   source j is made observable as effect j ([produce j] = Raise e: that call
   raises after logging, which the operators pass on as on_error); with [tail] the
   iterable also logs effect n when it is asked for a source and has none left.
   Sources are numbered in the order they are produced. *)
Definition lazy_next (n : nat) (produce : nat -> res unit) (tail : bool) (j : nat) (onend : fin)
  : list (cmd A) * fin :=
  if Nat.ltb j n then
    match produce j with
    | Ok _ => ([CEffect (Z.of_nat j); CSub j], Cont)
    | Raise e => ([CEffect (Z.of_nat j)], Fail e)
    end
  else (if tail then [CEffect (Z.of_nat n)] else [], onend).

(* observable/concat.py: concat_with_iterable_ over a lazy iterable of n sources;
   reactivex/__init__.py: for_in *)
Definition x_concat_lazy (n : nat) (produce : nat -> res unit) (tail : bool) : machine A A :=
  Machine (let '(cs, f) := lazy_next n produce tail 0%nat Complete in (0%nat, cs, f))
    (fun cur _ i =>
       match i with
       | ISrc k (Next x) => (cur, [CEmit x], Cont)
       | ISrc k (Err e) => (cur, [], Fail e)
       | ISrc k Done => let '(cs, f) := lazy_next n produce tail (S cur) Complete in (S cur, cs, f)
       | _ => (cur, [], Cont)
       end).

(* observable/catch.py: catch_with_iterable_ over a lazy iterable of n sources *)
Definition x_catch_lazy (n : nat) (produce : nat -> res unit) (tail : bool) : machine A A :=
  Machine (let '(cs, f) := lazy_next n produce tail 0%nat Complete in (0%nat, cs, f))
    (fun cur _ i =>
       match i with
       | ISrc k (Next x) => (cur, [CEmit x], Cont)
       | ISrc k Done => (cur, [], Complete)
       | ISrc k (Err e) => let '(cs, f) := lazy_next n produce tail (S cur) (Fail e) in (S cur, cs, f)
       | _ => (cur, [], Cont)
       end).

(* observable/onerrorresumenext.py with FACTORY arguments: source k is given as a
   function (is_factory k) called -- only when its turn comes -- with the error
   the previous source ended with, or None (after a completion, and for the first
   source).  The call is made observable as effect 1000 * k + e (e = the error
   code, 0 for None; the harness uses codes 1..999). *)
Definition oern_sub (is_factory : nat -> bool) (k : nat) (prev : option Z) : list (cmd A) :=
  (if is_factory k
   then [CEffect (1000 * Z.of_nat k + match prev with Some e => e | None => 0 end)]
   else []) ++ [CSub k].

Definition x_oern_f (n : nat) (is_factory : nat -> bool) : machine A A :=
  Machine (match n with
           | O => (0%nat, [], Complete)
           | S _ => (0%nat, oern_sub is_factory 0%nat None, Cont)
           end)
    (fun cur _ i =>
       match i with
       | ISrc k (Next x) => (cur, [CEmit x], Cont)
       | ISrc k t =>
           if Nat.ltb (S cur) n
           then (S cur, oern_sub is_factory (S cur) (match t with Err e => Some e | _ => None end), Cont)
           else (S cur, [], Complete)
       | _ => (cur, [], Cont)
       end).
End CombLazy.
