(* C19: partition_indexed (operators/_partition.py: partition_indexed_) as a small
   model of its own, following Ops/Groups.v (partition): published =
   source.pipe(publish(), ref_count()); outputs
   [published.pipe(filter_indexed(predicate_indexed)),
    published.pipe(filter_indexed(not_predicate_indexed))].

   operators/_filter.py filter_indexed_: every SUBSCRIPTION of an output has a
   counter of its own (`count = 0` inside subscribe); on_next evaluates
   `predicate_indexed(value, count)`; a raising predicate errors that subscriber
   (which detaches it) and leaves the counter alone; otherwise `count += 1` and
   the element is forwarded iff the verdict is truthy.

   [pti_subs]: the published subject's observers in subscription order, each with
   the counter of its filter_indexed subscription: (output id, count).  As in
   Ops/Groups.v there is no outer subscription: ISubWin g / IUnsubWin g are the
   subscriber's actions on output g (one subscription of an output at a time),
   the source is 0. *)
From RxVerif Require Import Base.Prelude Ops.Machine Ops.MultiWin.

Section PartitionIndexed.
Context {A : Type}.

Record pti_st := PtiSt { pti_subs : list (nat * nat); pti_conn : bool; pti_stopped : option (ev A) }.

Definition pti_outs (l : list (nat * nat)) : list nat := map fst l.

(* output 0: predicate_indexed(x, i); output 1: not predicate_indexed(x, i) *)
Definition pti_pred (pred : A -> nat -> res bool) (g c : nat) (x : A) : res bool :=
  match g with
  | O => pred x c
  | _ => match pred x c with Ok b => Ok (negb b) | Raise e => Raise e end
  end.

Fixpoint pti_remove (g : nat) (l : list (nat * nat)) : list (nat * nat) :=
  match l with [] => [] | (j, c) :: t => if Nat.eqb g j then t else (j, c) :: pti_remove g t end.

(* ref_count's dispose: count -= 1; `if not count and connectable_subscription: ...dispose()` *)
Definition pti_leave (subs : list (nat * nat)) (conn : bool) : bool * list (obs A unit) :=
  match subs with
  | [] => if conn then (false, [OUnsub 0%nat]) else (false, [])
  | _ => (conn, [])
  end.

(* Subject._on_next_core over a COPY of the observers ([todo] = the part of the copy still to
   be served, [kept] = the observers already served that stay, with their new counters): each
   filter_indexed evaluates the predicate at ITS counter; a raising predicate errors and
   detaches that subscriber (the observers left then are kept ++ the rest of the copy) *)
Fixpoint pti_deliver (pred : A -> nat -> res bool) (x : A) (kept todo : list (nat * nat)) (conn : bool)
  : list (nat * nat) * bool * list (obs A unit) :=
  match todo with
  | [] => (kept, conn, [])
  | (g, c) :: t =>
      match pti_pred pred g c x with
      | Ok b =>
          let '(s', c', o) := pti_deliver pred x (kept ++ [(g, S c)]) t conn in
          (s', c', if b then OWin g (Next x) :: o else o)
      | Raise e =>
          let '(conn1, o1) := pti_leave (kept ++ t) conn in
          let '(s', c', o) := pti_deliver pred x kept t conn1 in
          (s', c', OWin g (Err e) :: o1 ++ o)
      end
  end.

(* the subject's terminal: every observer gets it and detaches, in order *)
Fixpoint pti_terminate (e : ev A) (todo : list (nat * nat)) (conn : bool) : bool * list (obs A unit) :=
  match todo with
  | [] => (conn, [])
  | (g, _) :: t =>
      let '(conn1, o1) := pti_leave t conn in
      let '(c', o) := pti_terminate e t conn1 in
      (c', OWin g e :: o1 ++ o)
  end.

Definition pti_step (pred : A -> nat -> res bool) (s : pti_st) (i : inp A) : pti_st * list (obs A unit) :=
  match i with
  | ISubWin g =>
      (* ref_count.subscribe: count += 1; subject.subscribe(observer); connect if count == 1;
         filter_indexed.subscribe: a fresh counter *)
      let first := match pti_subs s with [] => true | _ => false end in
      match pti_stopped s with
      | Some t =>
          if first && negb (pti_conn s)
          then (s, [OWin g t; OSub 0%nat; OUnsub 0%nat])
          else (s, [OWin g t])
      | None =>
          if first && negb (pti_conn s)
          then (PtiSt (pti_subs s ++ [(g, 0%nat)]) true None, [OSub 0%nat])
          else (PtiSt (pti_subs s ++ [(g, 0%nat)]) (pti_conn s) None, [])
      end
  | IUnsubWin g =>
      if mem g (pti_outs (pti_subs s))
      then let subs1 := pti_remove g (pti_subs s) in
           let '(conn1, o) := pti_leave subs1 (pti_conn s) in
           (PtiSt subs1 conn1 (pti_stopped s), o)
      else (s, [])
  | ISrc O e =>
      if pti_conn s then
        match pti_stopped s with
        | Some _ => (s, [])
        | None =>
            match e with
            | Next x =>
                let '(subs1, conn1, o) := pti_deliver pred x [] (pti_subs s) (pti_conn s) in
                (PtiSt subs1 conn1 None, o)
            | _ =>
                let '(conn1, o) := pti_terminate e (pti_subs s) (pti_conn s) in
                (PtiSt [] false (Some e), o ++ (if conn1 then [OUnsub 0%nat] else []))
            end
        end
      else (s, [])
  | _ => (s, [])
  end.

Fixpoint pti_run_from (pred : A -> nat -> res bool) (s : pti_st) (k : nat) (ins : list (Z * inp A))
  : list (nat * obs A unit) :=
  match ins with
  | [] => []
  | (_, i) :: rest =>
      let '(s', o) := pti_step pred s i in
      map (fun x => (k, x)) o ++ pti_run_from pred s' (S k) rest
  end.

Definition pti_run (pred : A -> nat -> res bool) (ins : list (Z * inp A)) : list (nat * obs A unit) :=
  pti_run_from pred (PtiSt [] false None) 1 ins.

Fixpoint pti_after (pred : A -> nat -> res bool) (s : pti_st) (ins : list (Z * inp A)) : pti_st :=
  match ins with [] => s | (_, i) :: rest => pti_after pred (fst (pti_step pred s i)) rest end.
End PartitionIndexed.
