(* C44 -- connections, and factory cells that are written but only read through a normalisation.

   Ops/Closure.v has three kinds of events (apply, subscribe, one handler run).  The property text
   also interleaves CONNECTIONS: `connect()` acts on an application (a connectable observable)
   without a subscription.  This file extends the model, without touching Ops/Closure.v:

     aprog     a levelled program [ap_base] plus the code of an action on an application:
               [act_f] / [act_a] -- it may read and write factory- and application-level cells
     aevent    AEv e (an event of Ops/Closure.v, same semantics) | AAct k x (action x on application k)
     exec_shared_act / exec_fresh_act
               the two semantics of Ops/Closure.v extended by the action; on histories without
               actions they ARE the old ones (lemmas act_conservative).

   The simulation is proved once, up to a normalisation [norm : F -> F] of the factory state:
     writes_upto   every write to F (apply, subscribe, handler, action) leaves [norm f] unchanged
     reads_upto    all other code reads F only through [norm]
   [act_upto_generic]: then shared = fresh in EVERY history.  Corollaries:
     act_generic           norm = identity: the generic theorem of C44 with connections (audit P2)
     benign_generic        the model of Ops/Closure.v, any norm (audit P3, generalised: norm need
                           not be idempotent and any code may write F as long as norm is kept)
     benign_normalisation  the audit's form: subscribe REPLACES the factory cell by its idempotent
                           normalisation (skip_last_with_time_: duration = to_timedelta(duration))
   and the witnesses: a factory-level `connection` cell written by connect distinguishes shared
   from fresh; a normalised factory cell read RAW distinguishes them too (the hypothesis
   reads_upto is needed). *)
From Coq Require Import List String ZArith Bool Arith Lia.
From RxVerif Require Import Ops.Closure Ops.ClosureFacts.
Import ListNotations.

Lemma Forall_upd : forall (X : Type) (P : X -> Prop) (l : list X) k x,
  Forall P l -> P x -> Forall P (upd l k x).
Proof.
  induction l as [|y r IH]; intros k x Hl Hx; destruct k; cbn; auto.
  - inversion Hl; subst. constructor; auto.
  - inversion Hl; subst. constructor; auto.
Qed.

Lemma Forall_nth_error : forall (X : Type) (P : X -> Prop) (l : list X) k x,
  Forall P l -> nth_error l k = Some x -> P x.
Proof.
  intros X P l k x Hl E. rewrite Forall_forall in Hl. apply Hl. eapply nth_error_In; eauto.
Qed.

Section ActModel.
  Variables Src In Act Out F A S : Type.

  Record aprog := mk_aprog {
    ap_base : lprog Src In Out F A S;
    act_f : F -> A -> Act -> F;           (* connect(): writes to factory-level cells *)
    act_a : F -> A -> Act -> A }.         (*            ... and to application-level cells *)

  Inductive aevent :=
  | AEv (e : event Src In)                (* apply / subscribe / handler run, as in Ops/Closure.v *)
  | AAct (k : nat) (x : Act).             (* action x (a connection) on application k *)

  Variable q : aprog.
  Local Notation p := (ap_base q).
  Local Notation sstate' := (sstate Src F A S).
  Local Notation fstate' := (fstate Src F A S).
  Local Notation obs' := (obs In Out).

  Definition step_shared_act (st : sstate') (e : aevent) : sstate' * list obs' :=
    match e with
    | AEv e => step_shared _ _ _ _ _ _ p st e
    | AAct k x =>
        match nth_error (s_apps _ _ _ _ st) k with
        | Some (src, a) =>
            (mk_ss _ _ _ _ (act_f q (s_f _ _ _ _ st) a x)
                   (upd (s_apps _ _ _ _ st) k (src, act_a q (s_f _ _ _ _ st) a x))
                   (s_subs _ _ _ _ st), [])
        | None => (st, [])
        end
    end.

  Fixpoint exec_shared_act (st : sstate') (h : list aevent) : sstate' * list obs' :=
    match h with
    | [] => (st, [])
    | e :: r => let '(st1, o) := step_shared_act st e in
                let '(st2, t) := exec_shared_act st1 r in (st2, o ++ t)
    end.
  Definition trace_shared_act (h : list aevent) : list obs' :=
    snd (exec_shared_act (init_shared _ _ _ _ _ _ p) h).

  Definition step_fresh_act (st : fstate') (e : aevent) : fstate' * list obs' :=
    match e with
    | AEv e => step_fresh _ _ _ _ _ _ p st e
    | AAct k x =>
        match nth_error (f_apps _ _ _ _ st) k with
        | Some (src, f, a) =>
            (mk_fs _ _ _ _ (upd (f_apps _ _ _ _ st) k (src, act_f q f a x, act_a q f a x))
                   (f_subs _ _ _ _ st), [])
        | None => (st, [])
        end
    end.

  Fixpoint exec_fresh_act (st : fstate') (h : list aevent) : fstate' * list obs' :=
    match h with
    | [] => (st, [])
    | e :: r => let '(st1, o) := step_fresh_act st e in
                let '(st2, t) := exec_fresh_act st1 r in (st2, o ++ t)
    end.
  Definition trace_fresh_act (h : list aevent) : list obs' :=
    snd (exec_fresh_act (init_fresh _ _ _ _) h).

  (* ---- conservative extension: without actions nothing changed -------------------------- *)
  Lemma act_conservative_shared : forall h st,
    exec_shared_act st (map AEv h) = exec_shared _ _ _ _ _ _ p st h.
  Proof.
    induction h as [|e r IH]; intros; cbn [map exec_shared_act exec_shared step_shared_act]; [reflexivity|].
    destruct (step_shared _ _ _ _ _ _ p st e) as [st1 o]. rewrite IH. reflexivity.
  Qed.

  Lemma act_conservative_fresh : forall h st,
    exec_fresh_act st (map AEv h) = exec_fresh _ _ _ _ _ _ p st h.
  Proof.
    induction h as [|e r IH]; intros; cbn [map exec_fresh_act exec_fresh step_fresh_act]; [reflexivity|].
    destruct (step_fresh _ _ _ _ _ _ p st e) as [st1 o]. rewrite IH. reflexivity.
  Qed.

  Theorem act_conservative : forall h,
    trace_shared_act (map AEv h) = trace_shared _ _ _ _ _ _ p h
    /\ trace_fresh_act (map AEv h) = trace_fresh _ _ _ _ _ _ p h.
  Proof.
    intros. unfold trace_shared_act, trace_fresh_act, trace_shared, trace_fresh.
    rewrite act_conservative_shared, act_conservative_fresh. split; reflexivity.
  Qed.

  (* ---- the frame conditions, up to a normalisation of the factory state ------------------- *)
  Variable norm : F -> F.

  Definition writes_upto : Prop :=
    (forall f src, norm (app_f _ _ _ _ _ _ p f src) = norm f)
    /\ (forall f a, norm (sub_f _ _ _ _ _ _ p f a) = norm f)
    /\ (forall f a s i, norm (run_f _ _ _ _ _ _ p f a s i) = norm f)
    /\ (forall f a x, norm (act_f q f a x) = norm f).

  Definition reads_upto : Prop :=
    (forall f src, app_a _ _ _ _ _ _ p f src = app_a _ _ _ _ _ _ p (norm f) src)
    /\ (forall f a, sub_a _ _ _ _ _ _ p f a = sub_a _ _ _ _ _ _ p (norm f) a)
    /\ (forall f a, sub_s _ _ _ _ _ _ p f a = sub_s _ _ _ _ _ _ p (norm f) a)
    /\ (forall f a s i, run_a _ _ _ _ _ _ p f a s i = run_a _ _ _ _ _ _ p (norm f) a s i)
    /\ (forall f a s i, run_s _ _ _ _ _ _ p f a s i = run_s _ _ _ _ _ _ p (norm f) a s i)
    /\ (forall f a s i, run_o _ _ _ _ _ _ p f a s i = run_o _ _ _ _ _ _ p (norm f) a s i)
    /\ (forall f a x, act_a q f a x = act_a q (norm f) a x).

  Local Notation new_f' := (new_f _ _ _ _ _ _ p).
  Definition erase (x : Src * F * A) : Src * A := (fst (fst x), snd x).
  Definition fok (x : Src * F * A) : Prop := norm (snd (fst x)) = norm new_f'.

  Definition simu (st : sstate') (ft : fstate') : Prop :=
    norm (s_f _ _ _ _ st) = norm new_f'
    /\ map erase (f_apps _ _ _ _ ft) = s_apps _ _ _ _ st
    /\ Forall fok (f_apps _ _ _ _ ft)
    /\ f_subs _ _ _ _ ft = s_subs _ _ _ _ st.

  Lemma step_simu : writes_upto -> reads_upto -> forall st ft e, simu st ft ->
    simu (fst (step_shared_act st e)) (fst (step_fresh_act ft e))
    /\ snd (step_shared_act st e) = snd (step_fresh_act ft e).
  Proof.
    intros [Wa [Ws [Wr Wx]]] [Ra [Rsa [Rss [Rra [Rrs [Rro Rx]]]]]]
           [f apps subs] [fapps fsubs] e [Hf [Ha [Hok Hs]]]; cbn in *; subst apps subs.
    destruct e as [[src | k | j i] | k x]; cbn.
    - (* apply *)
      split; [|reflexivity]. repeat split; cbn.
      + rewrite Wa. exact Hf.
      + rewrite map_app. cbn. unfold erase at 2. cbn. rewrite (Ra f), Hf, <- (Ra new_f'). reflexivity.
      + apply Forall_app. split; [exact Hok|]. constructor; [|constructor]. unfold fok. cbn. apply Wa.
    - (* subscribe *)
      rewrite nth_error_map. destruct (nth_error fapps k) as [[[src f'] a]|] eqn:E; cbn.
      + pose proof (Forall_nth_error _ _ _ _ _ Hok E) as Hk. unfold fok in Hk. cbn in Hk.
        split; [|reflexivity]. repeat split; cbn.
        * rewrite Ws. exact Hf.
        * rewrite map_upd. unfold erase at 1. cbn.
          rewrite (Rsa f), Hf, <- Hk, <- (Rsa f'). reflexivity.
        * apply Forall_upd; [exact Hok|]. unfold fok. cbn. rewrite Ws. exact Hk.
        * rewrite (Rss f), Hf, <- Hk, <- (Rss f'). reflexivity.
      + split; [|reflexivity]. repeat split; auto.
    - (* one handler run *)
      destruct (nth_error fsubs j) as [[k s]|] eqn:Ej; cbn.
      + rewrite nth_error_map. destruct (nth_error fapps k) as [[[src f'] a]|] eqn:E; cbn.
        * pose proof (Forall_nth_error _ _ _ _ _ Hok E) as Hk. unfold fok in Hk. cbn in Hk.
          split.
          -- repeat split; cbn.
             ++ rewrite Wr. exact Hf.
             ++ rewrite map_upd. unfold erase at 1. cbn.
                rewrite (Rra f), Hf, <- Hk, <- (Rra f'). reflexivity.
             ++ apply Forall_upd; [exact Hok|]. unfold fok. cbn. rewrite Wr. exact Hk.
             ++ rewrite (Rrs f), Hf, <- Hk, <- (Rrs f'). reflexivity.
          -- rewrite (Rro f), Hf, <- Hk, <- (Rro f'). reflexivity.
        * split; [|reflexivity]. repeat split; auto.
      + split; [|reflexivity]. repeat split; auto.
    - (* action on an application *)
      rewrite nth_error_map. destruct (nth_error fapps k) as [[[src f'] a]|] eqn:E; cbn.
      + pose proof (Forall_nth_error _ _ _ _ _ Hok E) as Hk. unfold fok in Hk. cbn in Hk.
        split; [|reflexivity]. repeat split; cbn.
        * rewrite Wx. exact Hf.
        * rewrite map_upd. unfold erase at 1. cbn.
          rewrite (Rx f), Hf, <- Hk, <- (Rx f'). reflexivity.
        * apply Forall_upd; [exact Hok|]. unfold fok. cbn. rewrite Wx. exact Hk.
      + split; [|reflexivity]. repeat split; auto.
  Qed.

  Lemma exec_simu : writes_upto -> reads_upto -> forall h st ft, simu st ft ->
    snd (exec_shared_act st h) = snd (exec_fresh_act ft h).
  Proof.
    intros HW HR. induction h as [|e r IH]; intros st ft Hs; cbn [exec_shared_act exec_fresh_act]; auto.
    destruct (step_simu HW HR st ft e Hs) as [Hs' Ho].
    destruct (step_shared_act st e) as [st1 o] eqn:E1. destruct (step_fresh_act ft e) as [ft1 o'] eqn:E2.
    cbn in *. subst o'. specialize (IH st1 ft1 Hs').
    destruct (exec_shared_act st1 r) as [st2 t]. destruct (exec_fresh_act ft1 r) as [ft2 t'].
    cbn in *. congruence.
  Qed.

  Theorem act_upto_generic : writes_upto -> reads_upto ->
    forall h, trace_shared_act h = trace_fresh_act h.
  Proof.
    intros HW HR h. unfold trace_shared_act, trace_fresh_act. apply exec_simu; auto.
    repeat split; cbn; auto.
  Qed.
End ActModel.

Arguments AEv {Src In Act}.
Arguments AAct {Src In Act}.

(* ---- P2: the generic theorem of C44 with connections --------------------------------------- *)
Section ActGeneric.
  Variables Src In Act Out F A S : Type.
  Variable q : aprog Src In Act Out F A S.

  (* no code below the factory, the action included, writes a factory-level cell *)
  Definition frame_F_act : Prop :=
    frame_F _ _ _ _ _ _ (ap_base _ _ _ _ _ _ _ q) /\ (forall f a x, act_f _ _ _ _ _ _ _ q f a x = f).

  Theorem act_generic : frame_F_act ->
    forall h, trace_shared_act _ _ _ _ _ _ _ q h = trace_fresh_act _ _ _ _ _ _ _ q h.
  Proof.
    intros [[Fa [Fs Fr]] Fx]. apply (act_upto_generic _ _ _ _ _ _ _ q (fun f => f)).
    - repeat split; intros; auto.
    - repeat split; intros; reflexivity.
  Qed.
End ActGeneric.

Theorem act_generic_thm :
  forall (Src In Act Out F A S : Type) (q : aprog Src In Act Out F A S),
    frame_F _ _ _ _ _ _ (ap_base _ _ _ _ _ _ _ q) ->
    (forall f a x, act_f _ _ _ _ _ _ _ q f a x = f) ->
    forall h, trace_shared_act _ _ _ _ _ _ _ q h = trace_fresh_act _ _ _ _ _ _ _ q h.
Proof. intros Src In Act Out F A S q H1 H2. exact (act_generic _ _ _ _ _ _ _ q (conj H1 H2)). Qed.

(* ---- P3: benign normalisation, in the model of Ops/Closure.v -------------------------------- *)
Section Benign.
  Variables Src In Out F A S : Type.
  Variable p : lprog Src In Out F A S.
  Variable norm : F -> F.

  (* the program with an action that does nothing (the action type is empty anyway) *)
  Definition no_act : aprog Src In Empty_set Out F A S :=
    mk_aprog _ _ _ _ _ _ _ p (fun f _ _ => f) (fun _ a _ => a).

  (* every write to F leaves its normal form unchanged *)
  Definition frame_F_upto : Prop :=
    (forall f src, norm (app_f _ _ _ _ _ _ p f src) = norm f)
    /\ (forall f a, norm (sub_f _ _ _ _ _ _ p f a) = norm f)
    /\ (forall f a s i, norm (run_f _ _ _ _ _ _ p f a s i) = norm f).

  (* all other code reads F only through norm *)
  Definition reads_F_through : Prop :=
    (forall f src, app_a _ _ _ _ _ _ p f src = app_a _ _ _ _ _ _ p (norm f) src)
    /\ (forall f a, sub_a _ _ _ _ _ _ p f a = sub_a _ _ _ _ _ _ p (norm f) a)
    /\ (forall f a, sub_s _ _ _ _ _ _ p f a = sub_s _ _ _ _ _ _ p (norm f) a)
    /\ (forall f a s i, run_a _ _ _ _ _ _ p f a s i = run_a _ _ _ _ _ _ p (norm f) a s i)
    /\ (forall f a s i, run_s _ _ _ _ _ _ p f a s i = run_s _ _ _ _ _ _ p (norm f) a s i)
    /\ (forall f a s i, run_o _ _ _ _ _ _ p f a s i = run_o _ _ _ _ _ _ p (norm f) a s i).

  Theorem benign_generic : frame_F_upto -> reads_F_through ->
    forall h, trace_shared _ _ _ _ _ _ p h = trace_fresh _ _ _ _ _ _ p h.
  Proof.
    intros [Wa [Ws Wr]] [Ra [Rsa [Rss [Rra [Rrs Rro]]]]] h.
    destruct (act_conservative _ _ _ _ _ _ _ no_act h) as [H1 H2]. cbn [no_act ap_base] in H1, H2.
    rewrite <- H1, <- H2.
    apply (act_upto_generic _ _ _ _ _ _ _ no_act norm).
    - repeat split; intros; cbn; auto.
    - repeat split; intros; cbn; auto.
  Qed.

  (* the audit's form: subscribe replaces the factory state by its (idempotent) normalisation,
     apply and the handlers leave it alone *)
  Theorem benign_normalisation :
    (forall f, norm (norm f) = norm f) ->
    (forall f src, app_f _ _ _ _ _ _ p f src = f) ->
    (forall f a, sub_f _ _ _ _ _ _ p f a = norm f) ->
    (forall f a s i, run_f _ _ _ _ _ _ p f a s i = f) ->
    reads_F_through ->
    forall h, trace_shared _ _ _ _ _ _ p h = trace_fresh _ _ _ _ _ _ p h.
  Proof.
    intros Hn Fa Fs Fr HR. apply benign_generic; [|exact HR].
    repeat split; intros; rewrite ?Fa, ?Fs, ?Fr, ?Hn; reflexivity.
  Qed.
End Benign.

(* frame_F is the special case norm = identity: C44_generic is an instance of benign_generic *)
Lemma frame_F_is_upto_id : forall Src In Out F A S (p : lprog Src In Out F A S),
  frame_F _ _ _ _ _ _ p -> frame_F_upto _ _ _ _ _ _ p (fun f => f) /\ reads_F_through _ _ _ _ _ _ p (fun f => f).
Proof.
  intros Src In Out F A S p [Fa [Fs Fr]]. split; repeat split; intros; auto.
Qed.

(* ---- witnesses ------------------------------------------------------------------------------ *)
(* ConnectableObservable / ref_count as repaired: the connection flag is an APPLICATION-level
   cell written by connect(); a factory-level argument (5) is read by the output.  Handler runs
   deliver only while connected. *)
Definition prog_connect_app : aprog unit Z unit (option Z) Z bool unit :=
  mk_aprog _ _ _ _ _ _ _
    (mk_lprog _ _ _ _ _ _ 5%Z
       (fun f _ => f) (fun _ _ => false)
       (fun f _ => f) (fun _ a => a) (fun _ _ => tt)
       (fun f _ _ _ => f) (fun _ a _ _ => a) (fun _ _ s _ => s)
       (fun f a _ i => if a then Some (f + i)%Z else None))
    (fun f _ _ => f) (fun _ _ _ => true).

Lemma connect_app_frame : frame_F_act _ _ _ _ _ _ _ prog_connect_app.
Proof. repeat split. Qed.

Lemma connect_app_trace :
  trace_shared_act _ _ _ _ _ _ _ prog_connect_app
    [AEv (EApply tt); AEv (EApply tt); AEv (ESub 0); AEv (ESub 1); AEv (ERun 0 1%Z);
     AAct 0 tt; AEv (ERun 0 2%Z); AEv (ERun 1 3%Z); AAct 1 tt; AEv (ERun 1 4%Z)]
  = [(0, 1%Z, None); (0, 2%Z, Some 7%Z); (1, 3%Z, None); (1, 4%Z, Some 9%Z)].
Proof. vm_compute. reflexivity. Qed.

Lemma connect_app_witness :
  frame_F _ _ _ _ _ _ (ap_base _ _ _ _ _ _ _ prog_connect_app)
  /\ (forall f a x, act_f _ _ _ _ _ _ _ prog_connect_app f a x = f)
  /\ trace_shared_act _ _ _ _ _ _ _ prog_connect_app
       [AEv (EApply tt); AEv (EApply tt); AEv (ESub 0); AEv (ESub 1); AEv (ERun 0 1%Z);
        AAct 0 tt; AEv (ERun 0 2%Z); AEv (ERun 1 3%Z); AAct 1 tt; AEv (ERun 1 4%Z)]
     = [(0, 1%Z, None); (0, 2%Z, Some 7%Z); (1, 3%Z, None); (1, 4%Z, Some 9%Z)].
Proof. split; [exact (proj1 connect_app_frame) | split; [exact (proj2 connect_app_frame) | exact connect_app_trace]]. Qed.

(* the same connection flag kept in the FACTORY closure (the shape of ref_count_'s former
   `connection`): connecting the first application connects, in the shared semantics, the second
   too -- it delivers although it was never connected *)
Definition prog_connect_factory : aprog unit Z unit (option Z) bool unit unit :=
  mk_aprog _ _ _ _ _ _ _
    (mk_lprog _ _ _ _ _ _ false
       (fun f _ => f) (fun _ _ => tt)
       (fun f _ => f) (fun _ a => a) (fun _ _ => tt)
       (fun f _ _ _ => f) (fun _ a _ _ => a) (fun _ _ s _ => s)
       (fun f _ _ i => if f then Some i else None))
    (fun _ _ _ => true) (fun _ a _ => a).

Lemma connect_factory_refuted :
  let h := [AEv (EApply tt); AEv (EApply tt); AEv (ESub 0); AEv (ESub 1); AAct 0 tt;
            AEv (ERun 0 1%Z); AEv (ERun 1 2%Z)] in
  frame_F _ _ _ _ _ _ (ap_base _ _ _ _ _ _ _ prog_connect_factory)
  /\ trace_shared_act _ _ _ _ _ _ _ prog_connect_factory h = [(0, 1%Z, Some 1%Z); (1, 2%Z, Some 2%Z)]
  /\ trace_fresh_act _ _ _ _ _ _ _ prog_connect_factory h = [(0, 1%Z, Some 1%Z); (1, 2%Z, None)].
Proof. split; [repeat split | vm_compute; split; reflexivity]. Qed.

(* skip_last_with_time_: `duration` is a factory-level cell, subscribe overwrites it with its
   normalisation (to_timedelta, idempotent; here Z.abs) and the handlers read it -- normalised.
   frame_F fails (subscribe writes F), the benign theorem applies. *)
Definition prog_norm_duration : lprog unit Z Z Z unit unit :=
  mk_lprog _ _ _ _ _ _ (-3)%Z
    (fun f _ => f) (fun _ _ => tt)
    (fun f _ => Z.abs f) (fun _ a => a) (fun _ _ => tt)
    (fun f _ _ _ => f) (fun _ a _ _ => a) (fun _ _ s _ => s) (fun f _ _ i => (Z.abs f + i)%Z).

Lemma norm_duration_hyps :
  (forall f, Z.abs (Z.abs f) = Z.abs f)
  /\ (forall f src, app_f _ _ _ _ _ _ prog_norm_duration f src = f)
  /\ (forall f a, sub_f _ _ _ _ _ _ prog_norm_duration f a = Z.abs f)
  /\ (forall f a s i, run_f _ _ _ _ _ _ prog_norm_duration f a s i = f)
  /\ reads_F_through _ _ _ _ _ _ prog_norm_duration Z.abs.
Proof.
  split; [intros; apply Z.abs_involutive|]. repeat split; intros; cbn; rewrite ?Z.abs_involutive; reflexivity.
Qed.

Lemma norm_duration_not_frame_F : ~ frame_F _ _ _ _ _ _ prog_norm_duration.
Proof. intros [_ [H _]]. specialize (H (-3)%Z tt). cbn in H. discriminate. Qed.

Lemma norm_duration_trace :
  trace_shared _ _ _ _ _ _ prog_norm_duration [EApply tt; EApply tt; ESub 0; ERun 0 1%Z; ESub 1; ERun 1 2%Z]
  = [(0, 1%Z, 4%Z); (1, 2%Z, 5%Z)].
Proof. vm_compute. reflexivity. Qed.

Lemma norm_duration_witness :
  ~ frame_F _ _ _ _ _ _ prog_norm_duration
  /\ trace_shared _ _ _ _ _ _ prog_norm_duration [EApply tt; EApply tt; ESub 0; ERun 0 1%Z; ESub 1; ERun 1 2%Z]
     = [(0, 1%Z, 4%Z); (1, 2%Z, 5%Z)].
Proof. split; [exact norm_duration_not_frame_F | exact norm_duration_trace]. Qed.

(* the same written cell read RAW by subscribe (before it is normalised): the first subscription
   anywhere changes what a later subscription of ANOTHER application captures -- the hypothesis
   reads_F_through cannot be dropped *)
Definition prog_raw_duration : lprog unit Z Z Z unit Z :=
  mk_lprog _ _ _ _ _ _ (-3)%Z
    (fun f _ => f) (fun _ _ => tt)
    (fun f _ => Z.abs f) (fun _ a => a) (fun f _ => f)
    (fun f _ _ _ => f) (fun _ a _ _ => a) (fun _ _ s _ => s) (fun _ _ s i => (s + i)%Z).

Lemma raw_duration_refuted :
  let h := [EApply tt; EApply tt; ESub 0; ESub 1; ERun 1 0%Z] in
  frame_F_upto _ _ _ _ _ _ prog_raw_duration Z.abs
  /\ trace_shared _ _ _ _ _ _ prog_raw_duration h = [(1, 0%Z, 3%Z)]
  /\ trace_fresh _ _ _ _ _ _ prog_raw_duration h = [(1, 0%Z, (-3)%Z)].
Proof.
  split; [|vm_compute; split; reflexivity].
  repeat split; intros; cbn; rewrite ?Z.abs_involutive; reflexivity.
Qed.
