(* C15-C17: time-shifting, rate-limiting and time-window operators as machines
   (Ops/Multi.v), following the code of the files named above each definition,
   AS IT IS (flags, comparisons and their strictness included).

   Time is integer milliseconds ([Z]).  A timer the operator schedules is a
   command [CTimer tag delay]; tags are numbered 0,1,2,... in scheduling order
   (each machine keeps the counter), exactly as the proxy scheduler of
   harness/k2m.py numbers them.  Schedulers clamp a negative delay to zero
   (the proxy logs max(ms, 0)); [clamp] below.  An absolute due time [due]
   scheduled at clock reading [now] is the relative delay [due - now], clamped.

   Sources: 0 = the main source; further observables (delay observables,
   throttle observables, sampler, fallback, timeout observables) are numbered
   in creation order, as in Ops/Combinators.v.

   Library observables the operators build internally and subscribe with the
   scheduler (reactivex.timer, interval, empty, throw) are part of the machine:
   timer(d) = one scheduled action that emits and completes; interval(p) =
   schedule_periodic = an action re-scheduling itself with delay p after each
   run; empty()/throw(e) subscribed with a scheduler = one zero-delay action. *)
From RxVerif Require Import Base.Prelude Ops.Machine Ops.Multi.

Definition clamp (d : Z) : Z := Z.max 0 d.

(* relative or absolute time argument (typing.AbsoluteOrRelativeTime) *)
Inductive tspec := Rel (d : Z) | Abs (due : Z).
Definition tdelay (t : tspec) (now : Z) : Z :=
  match t with Rel d => d | Abs due => due - now end.

(* the error reactivex.throw(Exception("Timeout")) delivers (harness/k2.py: LIB_ERRORS) *)
Definition TIMEOUT_ERR : Z := -12.

Fixpoint lookup {X} (k : nat) (l : list (nat * X)) : option X :=
  match l with [] => None | (j, x) :: t => if Nat.eqb k j then Some x else lookup k t end.
Fixpoint remove_key {X} (k : nat) (l : list (nat * X)) : list (nat * X) :=
  match l with [] => [] | (j, x) :: t => if Nat.eqb k j then t else (j, x) :: remove_key k t end.

Section Timed.
Context {A : Type}.

(* ------------------------------------------------------------------ C15 -- *)
(* operators/_delay.py: observable_delay_timespan.  source.pipe(materialize(),
   timestamp()) feeds on_next with (now, notification); state = the closure
   variables queue / active / running / exception, plus the tag counter.
   duetime_ = [d] (for a datetime: due - now at subscription: [x_delay_at]). *)
Record delay_st := DelaySt {
  dl_queue : list (Z * ev A);     (* Timestamp(value = notification, timestamp = due) *)
  dl_active : bool; dl_running : bool; dl_exc : option Z; dl_ntag : nat }.

(* the `while True` loop of action(): pop and deliver (accept) every queued
   notification whose timestamp <= now.  Returns (emitted elements, completed?,
   rest of the queue).  `if result:` tests a Notification object (always
   truthy).  After OnCompleted was accepted the observer is stopped: later
   pops are still made but deliver nothing. *)
Fixpoint delay_drain (now : Z) (q : list (Z * ev A)) (stopped : bool)
  : list A * fin * list (Z * ev A) :=
  match q with
  | (ts, n) :: rest =>
      if ts <=? now then
        match n with
        | Next x =>
            let '(o, f, q') := delay_drain now rest stopped in
            (if stopped then o else x :: o, f, q')
        | Done =>
            let '(o, f, q') := delay_drain now rest true in
            (o, if stopped then f else Complete, q')
        | Err e =>   (* an OnError is only ever queued together with exception != None: action returns first *)
            let '(o, f, q') := delay_drain now rest true in
            (o, if stopped then f else Fail e, q')
        end
      else ([], Cont, q)
  | [] => ([], Cont, [])
  end.

Definition x_delay (d : Z) : machine A A :=
  Machine (DelaySt [] false false None 0, [CSub 0%nat], Cont)
    (fun s now i =>
       match i with
       | ISrc _ (Err e) =>
           (* del queue[:]; queue.append(notification); exception = ...; should_run = not running *)
           let s1 := DelaySt [(now, Err e)] (dl_active s) (dl_running s) (Some e) (dl_ntag s) in
           if negb (dl_running s) then (s1, [], Fail e) else (s1, [], Cont)
       | ISrc _ n =>
           let s1 := DelaySt (dl_queue s ++ [(now + d, n)]) true (dl_running s) (dl_exc s) (dl_ntag s) in
           if negb (dl_active s) then
             match dl_exc s with
             | Some e => (s1, [], Fail e)
             | None => (DelaySt (dl_queue s1) true (dl_running s) None (S (dl_ntag s)),
                        [CTimer (dl_ntag s) (clamp d)], Cont)
             end
           else (s1, [], Cont)
       | ITick _ =>
           match dl_exc s with
           | Some _ => (s, [], Cont)                            (* if exception: return *)
           | None =>
               let '(o, f, q') := delay_drain now (dl_queue s) false in
               match q' with
               | (ts, _) :: _ =>                                 (* should_continue *)
                   (DelaySt q' (dl_active s) false None (S (dl_ntag s)),
                    map CEmit o ++ [CTimer (dl_ntag s) (clamp (ts - now))], f)
               | [] => (DelaySt [] false false None (dl_ntag s), map CEmit o, f)
               end
           end
       | IDispose => (s, [], Cont)
       end).

(* duetime a datetime: duetime_ = to_datetime(duetime) - now, at subscription time t0 *)
Definition x_delay_at (t : tspec) (t0 : Z) : machine A A := x_delay (tdelay t t0).

(* operators/_delaysubscription.py = delay_with_mapper(timer(duetime), lambda _: empty())
   with the library's timer and empty (both subscribed with the scheduler):
   timer -> one action at [clamp (tdelay t t0)] calling start(); every element
   gets an empty() whose completion is a zero-delay scheduled action.
   state: at_end, delays = pending (tag of the empty()'s action, element), tag counter *)
Record dsub_st := DSubSt { ds_at_end : bool; ds_delays : list (nat * A); ds_ntag : nat }.

Definition x_delay_subscription (t : tspec) (t0 : Z) : machine A A :=
  Machine (DSubSt false [] 1, [CTimer 0%nat (clamp (tdelay t t0))], Cont)
    (fun s now i =>
       match i with
       | ITick O => (s, [CSub 0%nat], Cont)                        (* lambda _: start() *)
       | ITick tag =>
           match lookup tag (ds_delays s) with
           | Some x =>                                             (* on_completed of the delay observable *)
               let dl := remove_key tag (ds_delays s) in
               (DSubSt (ds_at_end s) dl (ds_ntag s), [CEmit x],
                if ds_at_end s && Nat.eqb (length dl) 0 then Complete else Cont)
           | None => (s, [], Cont)
           end
       | ISrc _ (Next x) =>
           (DSubSt (ds_at_end s) (ds_delays s ++ [(ds_ntag s, x)]) (S (ds_ntag s)),
            [CTimer (ds_ntag s) 0], Cont)
       | ISrc _ (Err e) => (s, [], Fail e)
       | ISrc _ Done =>
           (DSubSt true (ds_delays s) (ds_ntag s), [CUnsub 0%nat],
            if Nat.eqb (length (ds_delays s)) 0 then Complete else Cont)
       | IDispose => (s, [], Cont)
       end).

(* operators/_delaywithmapper.py.  [has_sub]: a subscription_delay observable
   (source 1) was given; delay observables made by the mapper are numbered
   base, base+1, ... (base = 2 with a subscription delay, else 1).  The mapper
   is a function of the element and its invocation index: Ok = a fresh
   observable, Raise = raises.
   state: delay observables created, at_end, delays = pending (source, element) *)
Record dwm_st := DwmSt { dw_cnt : nat; dw_at_end : bool; dw_delays : list (nat * A) }.

Definition x_delay_with_mapper (has_sub : bool) (mapper : A -> nat -> res unit) : machine A A :=
  let base := if has_sub then 2%nat else 1%nat in
  Machine (DwmSt 0 false [], [CSub (if has_sub then 1%nat else 0%nat)], Cont)
    (fun s now i =>
       match i with
       | ISrc O (Next x) =>
           match mapper x (dw_cnt s) with
           | Raise e => (s, [], Fail e)
           | Ok _ =>
               let k := (base + dw_cnt s)%nat in
               (DwmSt (S (dw_cnt s)) (dw_at_end s) (dw_delays s ++ [(k, x)]), [CSub k], Cont)
           end
       | ISrc O (Err e) => (s, [], Fail e)
       | ISrc O Done =>
           (DwmSt (dw_cnt s) true (dw_delays s), [CUnsub 0%nat],
            if Nat.eqb (length (dw_delays s)) 0 then Complete else Cont)
       | ISrc k e =>
           if has_sub && Nat.eqb k 1 then
             match e with
             | Next _ => (s, [CSub 0%nat; CUnsub 1%nat], Cont)    (* lambda _: start() *)
             | Done => (s, [CSub 0%nat], Cont)                    (* on_completed = start *)
             | Err x => (s, [], Fail x)
             end
           else
             match e with
             | Err x => (s, [], Fail x)
             | _ =>                                               (* first on_next OR on_completed *)
                 match lookup k (dw_delays s) with
                 | Some x =>
                     let dl := remove_key k (dw_delays s) in
                     (DwmSt (dw_cnt s) (dw_at_end s) dl, [CEmit x; CUnsub k],
                      if dw_at_end s && Nat.eqb (length dl) 0 then Complete else Cont)
                 | None => (s, [], Cont)
                 end
             end
       | _ => (s, [], Cont)
       end).
End Timed.

(* operators/_timestamp.py: defer(map(lambda v: Timestamp(v, scheduler.now))) *)
Definition x_timestamp {A} : machine A (A * Z) :=
  Machine (tt, [CSub 0%nat], Cont)
    (fun s now i =>
       match i with
       | ISrc _ (Next x) => (s, [CEmit (x, now)], Cont)
       | ISrc _ (Err e) => (s, [], Fail e)
       | ISrc _ Done => (s, [], Complete)
       | _ => (s, [], Cont)
       end).

(* operators/_timeinterval.py: last = scheduler.now at subscription (t0) *)
Definition x_time_interval {A} (t0 : Z) : machine A (A * Z) :=
  Machine (t0, [CSub 0%nat], Cont)
    (fun last now i =>
       match i with
       | ISrc _ (Next x) => (now, [CEmit (x, now - last)], Cont)
       | ISrc _ (Err e) => (last, [], Fail e)
       | ISrc _ Done => (last, [], Complete)
       | _ => (last, [], Cont)
       end).

Section Timed16.
Context {A : Type}.

(* ------------------------------------------------------------------ C16 -- *)
(* operators/_debounce.py: debounce_.  state: has_value, value, _id, the
   (tag, current_id) of every action scheduled, tag counter.
   on_next: cancelable.disposable = d disposes the previous timer, then the new
   action is scheduled. *)
Record deb_st := DebSt {
  db_has : bool; db_value : option A; db_id : nat; db_timers : list (nat * nat); db_ntag : nat }.

Definition emit_opt {B} (v : option B) : list (cmd B) :=
  match v with Some x => [CEmit x] | None => [] end.
Definition cancel_prev {B} (ntag : nat) : list (cmd B) :=
  match ntag with O => [] | S p => [CCancel p] end.

Definition x_debounce (d : Z) : machine A A :=
  Machine (DebSt false None 0 [] 0, [CSub 0%nat], Cont)
    (fun s now i =>
       match i with
       | ISrc _ (Next x) =>
           let id := S (db_id s) in
           (DebSt true (Some x) id ((db_ntag s, id) :: db_timers s) (S (db_ntag s)),
            cancel_prev (db_ntag s) ++ [CTimer (db_ntag s) (clamp d)], Cont)
       | ISrc _ (Err e) =>
           (DebSt false (db_value s) (S (db_id s)) (db_timers s) (db_ntag s),
            cancel_prev (db_ntag s), Fail e)
       | ISrc _ Done =>
           (DebSt false (db_value s) (S (db_id s)) (db_timers s) (db_ntag s),
            cancel_prev (db_ntag s) ++ (if db_has s then emit_opt (db_value s) else []), Complete)
       | ITick tag =>
           (* if has_value[0] and _id[0] == current_id: on_next(value[0]);  has_value[0] = False *)
           (DebSt false (db_value s) (db_id s) (db_timers s) (db_ntag s),
            match lookup tag (db_timers s) with
            | Some cid => if db_has s && Nat.eqb (db_id s) cid then emit_opt (db_value s) else []
            | None => []
            end, Cont)
       | IDispose => (s, [], Cont)
       end).

(* operators/_debounce.py: throttle_with_mapper_.  Throttle observables made by
   the mapper are sources 1, 2, ...; state: has_value, value, _id, the
   current_id of every throttle subscription, number created. *)
Record thm_st := ThmSt {
  tm_has : bool; tm_value : option A; tm_id : nat; tm_subs : list (nat * nat); tm_cnt : nat }.

Definition unsub_prev {B} (cnt : nat) : list (cmd B) :=
  match cnt with O => [] | S _ => [CUnsub cnt] end.

Definition x_throttle_with_mapper (mapper : A -> nat -> res unit) : machine A A :=
  Machine (ThmSt false None 0 [] 0, [CSub 0%nat], Cont)
    (fun s now i =>
       match i with
       | ISrc O (Next x) =>
           match mapper x (tm_cnt s) with
           | Raise e => (s, [], Fail e)
           | Ok _ =>
               let id := S (tm_id s) in
               let k := S (tm_cnt s) in
               (ThmSt true (Some x) id ((k, id) :: tm_subs s) k,
                unsub_prev (tm_cnt s) ++ [CSub k], Cont)
           end
       | ISrc O (Err e) =>
           (ThmSt false (tm_value s) (S (tm_id s)) (tm_subs s) (tm_cnt s), unsub_prev (tm_cnt s), Fail e)
       | ISrc O Done =>
           (ThmSt false (tm_value s) (S (tm_id s)) (tm_subs s) (tm_cnt s),
            unsub_prev (tm_cnt s) ++ (if tm_has s then emit_opt (tm_value s) else []), Complete)
       | ISrc k (Err e) => (s, [], Fail e)
       | ISrc k _ =>                                           (* throttle fires: on_next or on_completed *)
           (ThmSt false (tm_value s) (tm_id s) (tm_subs s) (tm_cnt s),
            match lookup k (tm_subs s) with
            | Some cid => if tm_has s && Nat.eqb (tm_id s) cid then emit_opt (tm_value s) else []
            | None => []
            end ++ [CUnsub k], Cont)
       | _ => (s, [], Cont)
       end).

(* operators/_throttlefirst.py: last_on_next; `not last_on_next` tests a
   datetime (always truthy) or None; emits iff now - last_on_next >= duration *)
Definition x_throttle_first (w : Z) : machine A A :=
  Machine ((None : option Z), [CSub 0%nat], Cont)
    (fun last now i =>
       match i with
       | ISrc _ (Next x) =>
           if match last with None => true | Some l => w <=? now - l end
           then (Some now, [CEmit x], Cont) else (last, [], Cont)
       | ISrc _ (Err e) => (last, [], Fail e)
       | ISrc _ Done => (last, [], Complete)
       | _ => (last, [], Cont)
       end).

(* operators/_sample.py: sample_observable(source, sampler): source 0 is
   subscribed first, then the sampler (source 1).  sample_subscribe runs on the
   sampler's on_next AND on_completed. *)
Record smp_st := SmpSt { sm_at_end : bool; sm_has : bool; sm_value : option A; sm_ntag : nat }.

Definition sample_tick (s : smp_st) : smp_st * list (cmd A) * fin :=
  (SmpSt (sm_at_end s) false (sm_value s) (sm_ntag s),
   (if sm_has s then emit_opt (sm_value s) else []),
   if sm_at_end s then Complete else Cont).

Definition sample_source (s : smp_st) (e : ev A) : smp_st * list (cmd A) * fin :=
  match e with
  | Next x => (SmpSt (sm_at_end s) true (Some x) (sm_ntag s), [], Cont)
  | Err x => (s, [], Fail x)
  | Done => (SmpSt true (sm_has s) (sm_value s) (sm_ntag s), [], Cont)
  end.

Definition x_sample_observable : machine A A :=
  Machine (SmpSt false false None 0, [CSub 0%nat; CSub 1%nat], Cont)
    (fun s now i =>
       match i with
       | ISrc O e => sample_source s e
       | ISrc _ (Err x) => (s, [], Fail x)
       | ISrc _ _ => sample_tick s
       | _ => (s, [], Cont)
       end).

(* sample(period): sampler = interval(period) = schedule_periodic: the periodic
   action runs sample_subscribe and THEN re-schedules itself with delay
   [period] (scheduler/periodicscheduler.py) -- also when the sampling just
   completed the sequence (the new timer is then cancelled by the release). *)
Definition x_sample_time (p : Z) : machine A A :=
  Machine (SmpSt false false None 1, [CSub 0%nat; CTimer 0%nat (clamp p)], Cont)
    (fun s now i =>
       match i with
       | ISrc _ e => sample_source s e
       | ITick _ =>
           let '(s1, o, f) := sample_tick s in
           (SmpSt (sm_at_end s1) (sm_has s1) (sm_value s1) (S (sm_ntag s)),
            o ++ [CTimer (sm_ntag s) (clamp p)], f)
       | IDispose => (s, [], Cont)
       end).

(* ------------------------------------------------------------------ C17 -- *)
(* operators/_takewithtime.py and _takeuntilwithtime.py: the timer is scheduled
   first, then the source is subscribed (observer passed through) *)
Definition x_take_until_with_time (t : tspec) (t0 : Z) : machine A A :=
  Machine (tt, [CTimer 0%nat (clamp (tdelay t t0)); CSub 0%nat], Cont)
    (fun s now i =>
       match i with
       | ISrc _ (Next x) => (s, [CEmit x], Cont)
       | ISrc _ (Err e) => (s, [], Fail e)
       | ISrc _ Done => (s, [], Complete)
       | ITick _ => (s, [], Complete)
       | IDispose => (s, [], Cont)
       end).
Definition x_take_with_time (d : Z) : machine A A := x_take_until_with_time (Rel d) 0.

(* operators/_skipwithtime.py (timer first) and _skipuntilwithtime.py (source
   first): open[0] set by the timer *)
Definition x_skip_until_with_time (timer_first : bool) (t : tspec) (t0 : Z) : machine A A :=
  Machine (false,
           if timer_first then [CTimer 0%nat (clamp (tdelay t t0)); CSub 0%nat]
           else [CSub 0%nat; CTimer 0%nat (clamp (tdelay t t0))], Cont)
    (fun open now i =>
       match i with
       | ISrc _ (Next x) => (open, if open then [CEmit x] else [], Cont)
       | ISrc _ (Err e) => (open, [], Fail e)
       | ISrc _ Done => (open, [], Complete)
       | ITick _ => (true, [], Cont)
       | IDispose => (open, [], Cont)
       end).
Definition x_skip_with_time (d : Z) : machine A A := x_skip_until_with_time true (Rel d) 0.

(* operators/_takelastwithtime.py.  on_next trims the queue head while
   now - interval >= duration; on_completed emits the queued elements with
   now - interval < duration (the same rule; before the fix
   proposed_fixes/C17-take-last-with-time-boundary.diff it was <=, see
   [x_take_last_with_time_orig]) *)
Fixpoint trim_head (now d : Z) (q : list (Z * A)) : list (Z * A) :=
  match q with
  | (t, x) :: rest => if d <=? now - t then trim_head now d rest else q
  | [] => []
  end.

Definition x_take_last_with_time_gen (keep : Z -> Z -> bool) (d : Z) : machine A A :=
  Machine (([] : list (Z * A)), [CSub 0%nat], Cont)
    (fun q now i =>
       match i with
       | ISrc _ (Next x) => (trim_head now d (q ++ [(now, x)]), [], Cont)
       | ISrc _ (Err e) => (q, [], Fail e)
       | ISrc _ Done =>
           ([], map (fun tx => CEmit (snd tx)) (filter (fun tx => keep (now - fst tx) d) q), Complete)
       | _ => (q, [], Cont)
       end).
Definition x_take_last_with_time : Z -> machine A A := x_take_last_with_time_gen Z.ltb.
Definition x_take_last_with_time_orig : Z -> machine A A := x_take_last_with_time_gen Z.leb.

(* operators/_skiplastwithtime.py: the same `>=` loop in on_next and on_completed *)
Fixpoint pop_aged (now d : Z) (q : list (Z * A)) : list A * list (Z * A) :=
  match q with
  | (t, x) :: rest =>
      if d <=? now - t then let '(o, q') := pop_aged now d rest in (x :: o, q') else ([], q)
  | [] => ([], [])
  end.

Definition x_skip_last_with_time (d : Z) : machine A A :=
  Machine (([] : list (Z * A)), [CSub 0%nat], Cont)
    (fun q now i =>
       match i with
       | ISrc _ (Next x) =>
           let '(o, q') := pop_aged now d (q ++ [(now, x)]) in (q', map CEmit o, Cont)
       | ISrc _ (Err e) => (q, [], Fail e)
       | ISrc _ Done => let '(o, q') := pop_aged now d q in (q', map CEmit o, Complete)
       | _ => (q, [], Cont)
       end).

(* operators/_timeout.py.  [other]: true = a fallback observable (source 1) was
   given; false = throw(Exception("Timeout")) subscribed with the scheduler
   (one zero-delay action).  state: switched, _id, (tag, my_id) of every timer,
   tag of throw's action, tag counter. *)
Record to_st := ToSt {
  to_switched : bool; to_id : nat; to_timers : list (nat * nat); to_throw : option nat; to_ntag : nat }.

Definition x_timeout (t : tspec) (other : bool) (t0 : Z) : machine A A :=
  Machine (ToSt false 0 [(0%nat, 0%nat)] None 1,
           [CTimer 0%nat (clamp (tdelay t t0)); CSub 0%nat], Cont)
    (fun s now i =>
       match i with
       | ISrc O e =>
           if negb (to_switched s) then
             match e with
             | Next x =>
                 let id := S (to_id s) in
                 (ToSt false id ((to_ntag s, id) :: to_timers s) (to_throw s) (S (to_ntag s)),
                  [CEmit x; CTimer (to_ntag s) (clamp (tdelay t now))] ++ cancel_prev (to_ntag s), Cont)
             | Err x => (ToSt false (S (to_id s)) (to_timers s) (to_throw s) (to_ntag s), [], Fail x)
             | Done => (ToSt false (S (to_id s)) (to_timers s) (to_throw s) (to_ntag s), [], Complete)
             end
           else (s, [], Cont)
       | ISrc _ e =>                                             (* the fallback, passed the observer itself *)
           match e with
           | Next x => (s, [CEmit x], Cont)
           | Err x => (s, [], Fail x)
           | Done => (s, [], Complete)
           end
       | ITick tag =>
           if match to_throw s with Some th => Nat.eqb tag th | None => false end
           then (s, [], Fail TIMEOUT_ERR)
           else
             match lookup tag (to_timers s) with
             | Some my_id =>
                 let wins := Nat.eqb (to_id s) my_id in          (* switched[0] = _id[0] == my_id *)
                 if wins then
                   if other
                   then (ToSt true (to_id s) (to_timers s) (to_throw s) (to_ntag s),
                         [CSub 1%nat; CUnsub 0%nat], Cont)
                   else (ToSt true (to_id s) (to_timers s) (Some (to_ntag s)) (S (to_ntag s)),
                         [CTimer (to_ntag s) 0; CUnsub 0%nat], Cont)
                 else (ToSt false (to_id s) (to_timers s) (to_throw s) (to_ntag s), [], Cont)
             | None => (s, [], Cont)
             end
       | IDispose => (s, [], Cont)
       end).

(* operators/_timeoutwithmapper.py.  Sources: 0 main, 1 first_timeout (if
   [has_first], else never()), 2 other (if [has_other], else throw), timeout
   observables made by the mapper 3, 4, ...  ([mapper] = None: never()).
   `switched` is never assigned, so observer_wins() is always true.
   state: _id, (source, my_id) of every timeout subscription, number created,
   current timeout source, tag of throw's action *)
Record twm_st := TwmSt {
  tw_id : nat; tw_timers : list (nat * nat); tw_cnt : nat; tw_cur : option nat; tw_throw : option nat }.

Definition unsub_cur {B} (c : option nat) : list (cmd B) :=
  match c with Some k => [CUnsub k] | None => [] end.

Definition x_timeout_with_mapper (has_first has_other : bool) (mapper : option (A -> nat -> res unit))
  : machine A A :=
  Machine (TwmSt 0 (if has_first then [(1%nat, 0%nat)] else []) 0 (if has_first then Some 1%nat else None) None,
           (if has_first then [CSub 1%nat] else []) ++ [CSub 0%nat], Cont)
    (fun s now i =>
       match i with
       | ISrc O (Next x) =>
           let id := S (tw_id s) in
           match mapper with
           | None =>                                             (* set_timer(never()) *)
               (TwmSt id (tw_timers s) (tw_cnt s) None (tw_throw s), CEmit x :: unsub_cur (tw_cur s), Cont)
           | Some f =>
               match f x (tw_cnt s) with
               | Raise e => (TwmSt id (tw_timers s) (tw_cnt s) (tw_cur s) (tw_throw s), [CEmit x], Fail e)
               | Ok _ =>
                   let k := (3 + tw_cnt s)%nat in
                   (TwmSt id ((k, id) :: tw_timers s) (S (tw_cnt s)) (Some k) (tw_throw s),
                    CEmit x :: unsub_cur (tw_cur s) ++ [CSub k], Cont)
               end
           end
       | ISrc O (Err e) => (TwmSt (S (tw_id s)) (tw_timers s) (tw_cnt s) (tw_cur s) (tw_throw s), [], Fail e)
       | ISrc O Done => (TwmSt (S (tw_id s)) (tw_timers s) (tw_cnt s) (tw_cur s) (tw_throw s), [], Complete)
       | ISrc (S (S O)) e =>                                             (* other_, passed the observer itself *)
           match e with
           | Next x => (s, [CEmit x], Cont)
           | Err x => (s, [], Fail x)
           | Done => (s, [], Complete)
           end
       | ISrc k e =>
           let wins := match lookup k (tw_timers s) with Some my => Nat.eqb (tw_id s) my | None => false end in
           match e with
           | Next _ =>
               if wins then
                 if has_other then (s, [CSub 2%nat; CUnsub 0%nat; CUnsub k], Cont)
                 else (TwmSt (tw_id s) (tw_timers s) (tw_cnt s) (tw_cur s) (Some 0%nat),
                       [CTimer 0%nat 0; CUnsub 0%nat; CUnsub k], Cont)
               else (s, [CUnsub k], Cont)
           | Err x => if wins then (s, [], Fail x) else (s, [], Cont)
           | Done =>
               if wins then
                 if has_other then (s, [CSub 2%nat; CUnsub 0%nat], Cont)
                 else (s, [], Fail TIMEOUT_ERR)   (* other_.subscribe(observer): no scheduler -> immediate *)
               else (s, [], Cont)
           end
       | ITick _ => (s, [], Fail TIMEOUT_ERR)
       | IDispose => (s, [], Cont)
       end).
End Timed16.
