(* Proof tools for the runner: invariants along a run (over states and the
   accumulated observable trace), splitting runs, counting. *)
From RxVerif Require Import Base.Prelude Ops.Machine Ops.Multi.

Section Tools.
Context {A B : Type} (m : machine A B).

(* states after a run *)
Fixpoint after (s : x_state m) (r : rstate) (l : list (Z * inp A)) : x_state m * rstate :=
  match l with
  | [] => (s, r)
  | (now, i) :: t => let '(s', r', _) := rstep m s r now i in after s' r' t
  end.

Lemma run_from_app ins1 : forall ins2 s r k,
  run_from m s r k (ins1 ++ ins2)
  = (fst (run_from m s r k ins1)
     ++ fst (run_from m (fst (after s r ins1)) (snd (after s r ins1)) (k + length ins1) ins2),
     snd (run_from m (fst (after s r ins1)) (snd (after s r ins1)) (k + length ins1) ins2)).
Proof.
  induction ins1 as [|[now i] rest IH]; intros ins2 s r k.
  - cbn. rewrite Nat.add_0_r. destruct (run_from m s r k ins2); reflexivity.
  - cbn [app run_from length after]. destruct (rstep m s r now i) as [[s' r'] o].
    rewrite IH. destruct (run_from m s' r' (S k) rest) as [tr1 r1]. cbn [fst snd].
    rewrite <- plus_n_Sm. cbn [Nat.add].
    destruct (run_from m (fst (after s' r' rest)) (snd (after s' r' rest)) (S (k + length rest)) ins2) as [tr2 rf].
    cbn [fst snd]. now rewrite app_assoc.
Qed.

Lemma after_app l1 : forall l2 s r,
  after s r (l1 ++ l2) = after (fst (after s r l1)) (snd (after s r l1)) l2.
Proof.
  induction l1 as [|[now i] t IH]; intros l2 s r; [reflexivity|].
  cbn [app after]. destruct (rstep m s r now i) as [[s' r'] o]. apply IH.
Qed.

Lemma after_snd ins : forall s r k, snd (after s r ins) = snd (run_from m s r k ins).
Proof.
  induction ins as [|[now i] rest IH]; intros s r k; [reflexivity|].
  cbn [after run_from]. destruct (rstep m s r now i) as [[s' r'] o].
  rewrite (IH s' r' (S k)). destruct (run_from m s' r' (S k) rest). reflexivity.
Qed.

(* invariant over (operator state, runner state, observations so far) *)
Lemma run_from_invariant (I : x_state m -> rstate -> list (obs B) -> Prop)
  (Hstep : forall s r acc now i, I s r acc ->
     I (fst (fst (rstep m s r now i))) (snd (fst (rstep m s r now i))) (acc ++ snd (rstep m s r now i))) :
  forall ins s r k acc, I s r acc ->
    I (fst (after s r ins)) (snd (after s r ins)) (acc ++ map snd (fst (run_from m s r k ins))).
Proof.
  induction ins as [|[now i] rest IH]; intros s r k acc H.
  - cbn. now rewrite app_nil_r.
  - cbn [after run_from]. specialize (Hstep s r acc now i H).
    destruct (rstep m s r now i) as [[s' r'] o]. cbn [fst snd] in Hstep.
    specialize (IH s' r' (S k) (acc ++ o) Hstep).
    destruct (run_from m s' r' (S k) rest) as [tr rf]. cbn [fst snd] in *.
    rewrite map_app, map_map. cbn [snd]. rewrite map_id, app_assoc. exact IH.
Qed.

(* the runner state right after subscribe() *)
Definition start_state : x_state m * rstate :=
  let '(s0, cs, f) := x_start m in
  (s0, fst (finish (B:=B) (fst (apply_cmds (RState [] [] false) cs)) f)).
Definition start_obs : list (obs B) :=
  let '(s0, cs, f) := x_start m in
  snd (apply_cmds (RState [] [] false) cs) ++ snd (finish (B:=B) (fst (apply_cmds (RState [] [] false) cs)) f).

Lemma run_unfold ins :
  run m ins = (map (fun x => (0%nat, x)) start_obs ++ fst (run_from m (fst start_state) (snd start_state) 1 ins),
               snd (run_from m (fst start_state) (snd start_state) 1 ins)).
Proof.
  unfold run, start_state, start_obs. destruct (x_start m) as [[s0 cs] f].
  destruct (apply_cmds (RState [] [] false) cs) as [r1 o1]. cbn [fst snd].
  destruct (finish r1 f) as [r2 o2]. cbn [fst snd].
  destruct (run_from m s0 r2 1 ins) as [tr rf]. reflexivity.
Qed.

Lemma run_final ins : snd (run m ins) = snd (after (fst start_state) (snd start_state) ins).
Proof. rewrite run_unfold. cbn [snd]. now rewrite <- (after_snd ins _ _ 1). Qed.

Definition count_subs (os : list (obs B)) : nat :=
  length (filter (fun o => match o with OSub _ => true | _ => false end) os).

Lemma count_subs_app a b : count_subs (a ++ b) = (count_subs a + count_subs b)%nat.
Proof. unfold count_subs. now rewrite filter_app, app_length. Qed.
End Tools.

Section Count.
Context {A B : Type} (m : machine A B).

Definition count_csub (cs : list (cmd B)) : nat :=
  length (filter (fun c => match c with CSub _ => true | _ => false end) cs).

Lemma apply_cmds_subs (cs : list (cmd B)) : forall r,
  count_subs (snd (apply_cmds r cs)) = count_csub cs.
Proof.
  induction cs as [|c t IH]; intros r; [reflexivity|]. cbn [apply_cmds].
  destruct c; cbn;
    try (destruct (mem _ _));
    match goal with |- context [apply_cmds ?r' t] => specialize (IH r'); destruct (apply_cmds r' t) end;
    cbn [snd] in *; unfold count_subs, count_csub in *; cbn; rewrite ?IH; reflexivity.
Qed.

Lemma release_subs (r : rstate) : count_subs (snd (@release B r)) = 0%nat.
Proof.
  unfold release. cbn [snd]. rewrite count_subs_app.
  assert (H1 : forall l, count_subs (map (@OUnsub B) l) = 0%nat) by (induction l; auto).
  assert (H2 : forall l, count_subs (map (@OCancel B) l) = 0%nat) by (induction l; auto).
  now rewrite H1, H2.
Qed.

Lemma finish_subs (r : rstate) f : count_subs (snd (@finish B r f)) = 0%nat.
Proof.
  destruct f; cbn [finish]; [reflexivity| |];
    pose proof (release_subs r) as H; destruct (release r) as [r' o]; cbn [snd] in *;
    unfold count_subs in *; cbn; exact H.
Qed.

(* either the input was dropped, or the handler ran: new state and the number
   of subscribe events are the handler's *)
Lemma rstep_cases s r now i :
  rstep m s r now i = (s, r, [])
  \/ (fst (fst (rstep m s r now i)) = fst (fst (x_step m s now i))
      /\ count_subs (snd (rstep m s r now i)) = count_csub (snd (fst (x_step m s now i)))).
Proof.
  unfold rstep. destruct (r_stopped r); [left; reflexivity|].
  assert (D : forall r0,
    fst (fst (let '(s', cs, f) := x_step m s now i in
              let '(r1, o1) := apply_cmds r0 cs in
              let '(r2, o2) := match i with
                               | ISrc k e => if is_terminal e && mem k (r_live r1)
                                             then (RState (remove k (r_live r1)) (r_timers r1) (r_stopped r1), [OUnsub k])
                                             else (r1, [])
                               | _ => (r1, [])
                               end in
              let '(r3, o3) := finish r2 f in (s', r3, o1 ++ o2 ++ o3)))
    = fst (fst (x_step m s now i))
    /\ count_subs (snd (let '(s', cs, f) := x_step m s now i in
              let '(r1, o1) := apply_cmds r0 cs in
              let '(r2, o2) := match i with
                               | ISrc k e => if is_terminal e && mem k (r_live r1)
                                             then (RState (remove k (r_live r1)) (r_timers r1) (r_stopped r1), [OUnsub k])
                                             else (r1, [])
                               | _ => (r1, [])
                               end in
              let '(r3, o3) := finish r2 f in (s', r3, o1 ++ o2 ++ o3)))
      = count_csub (snd (fst (x_step m s now i)))).
  { intros r0. destruct (x_step m s now i) as [[s' cs] f]. cbn [fst snd].
    pose proof (apply_cmds_subs cs r0) as H1. destruct (apply_cmds r0 cs) as [r1 o1]. cbn [snd] in H1.
    set (X := match i with
              | ISrc k e => if is_terminal e && mem k (r_live r1)
                            then (RState (remove k (r_live r1)) (r_timers r1) (r_stopped r1), [OUnsub k])
                            else (r1, [])
              | _ => (r1, [])
              end).
    assert (HX : count_subs (snd X) = 0%nat).
    { subst X. destruct i as [k e| |]; try reflexivity.
      destruct (is_terminal e && mem k (r_live r1)); reflexivity. }
    destruct X as [r2 o2]. cbn [snd] in HX.
    pose proof (finish_subs r2 f) as H3. destruct (finish r2 f) as [r3 o3]. cbn [fst snd] in *.
    split; [reflexivity|]. rewrite !count_subs_app. lia. }
  destruct i as [k e|tag|].
  - destruct (mem k (r_live r)); [right; apply D|left; reflexivity].
  - destruct (mem tag (r_timers r)); [right; apply D|left; reflexivity].
  - right. destruct (x_step m s now IDispose) as [[s' cs] f]. cbn [fst snd].
    pose proof (apply_cmds_subs cs r) as H1. destruct (apply_cmds r cs) as [r1 o1]. cbn [snd] in H1.
    pose proof (release_subs r1) as H2. unfold release in *. cbn [fst snd] in *.
    split; [reflexivity|]. rewrite count_subs_app, H2.
    assert (F : forall o : list (obs B),
      count_subs (filter (fun o => match o with OEmit _ => false | _ => true end) o) = count_subs o).
    { induction o as [|x t IH]; [reflexivity|]. destruct x; unfold count_subs in *; cbn; rewrite ?IH; reflexivity. }
    rewrite F. lia.
Qed.

(* machine-level counting invariant lifted to runs: if J relates the handler
   state to a bound on the subscriptions made so far *)
Lemma subs_bounded (J : x_state m -> nat -> Prop)
  (Hstep : forall s n now i, J s n -> J (fst (fst (x_step m s now i))) (n + count_csub (snd (fst (x_step m s now i))))%nat) :
  forall ins s r k acc, J s (count_subs acc) ->
    J (fst (after m s r ins)) (count_subs (acc ++ map snd (fst (run_from m s r k ins)))).
Proof.
  intros ins s r k acc H.
  apply (run_from_invariant m (fun s _ acc => J s (count_subs acc))); [|exact H].
  clear - Hstep. intros s r acc now i H.
  destruct (rstep_cases s r now i) as [E|[E1 E2]].
  - rewrite E. cbn [fst snd]. now rewrite app_nil_r.
  - rewrite E1, count_subs_app, E2. apply Hstep. exact H.
Qed.
End Count.

Section Cons.
Context {A B : Type} (m : machine A B).

Lemma temitted_app' (a b : list (nat * obs B)) : temitted (a ++ b) = temitted a ++ temitted b.
Proof. unfold temitted. apply flat_map_app. Qed.

(* one input: what it emits, then the rest from the new states *)
Lemma temitted_run_cons s r k now i rest :
  temitted (fst (run_from m s r k ((now, i) :: rest)))
  = temitted (map (fun x => (k, x)) (snd (rstep m s r now i)))
    ++ temitted (fst (run_from m (fst (fst (rstep m s r now i))) (snd (fst (rstep m s r now i))) (S k) rest)).
Proof.
  cbn [run_from]. destruct (rstep m s r now i) as [[s' r'] o]. cbn [fst snd].
  destruct (run_from m s' r' (S k) rest) as [tr rf]. cbn [fst]. apply temitted_app'.
Qed.
End Cons.

Section Fin.
Context {A B : Type} (m : machine A B).

Definition cemits (cs : list (cmd B)) : list B :=
  flat_map (fun c => match c with CEmit b => [b] | _ => [] end) cs.

Definition delivered (r : rstate) (i : inp A) : bool :=
  match i with
  | ISrc k _ => mem k (r_live r)
  | ITick t => mem t (r_timers r)
  | IDispose => false
  end.

Lemma apply_cmds_temitted (k : nat) (cs : list (cmd B)) : forall r,
  temitted (map (fun x => (k, x)) (snd (apply_cmds r cs))) = map (fun b => (k, Next b)) (cemits cs).
Proof.
  unfold temitted, cemits.
  induction cs as [|c t IH]; intros r; [reflexivity|]. cbn [apply_cmds].
  destruct c; cbn;
    try (destruct (mem _ _));
    match goal with |- context [apply_cmds ?r' t] => specialize (IH r'); destruct (apply_cmds r' t) end;
    cbn [snd] in *; cbn; rewrite ?IH; reflexivity.
Qed.

Lemma temitted_noemit (k : nat) (o : list (obs B)) :
  (forall x, In x o -> match x with OEmit _ => False | _ => True end) ->
  temitted (map (fun x => (k, x)) o) = [].
Proof.
  induction o as [|x t IH]; intros H; [reflexivity|].
  cbn. pose proof (H x (or_introl eq_refl)) as Hx. destruct x; try contradiction;
    apply IH; intros y Hy; apply H; right; exact Hy.
Qed.

Lemma release_temitted (k : nat) (r : rstate) : temitted (map (fun x => (k, x)) (snd (@release B r))) = [].
Proof.
  apply temitted_noemit. unfold release. cbn [snd]. intros x Hx.
  apply in_app_or in Hx. destruct Hx as [Hx|Hx]; apply in_map_iff in Hx; destruct Hx as [j [<- _]]; exact I.
Qed.

(* a delivered input whose handler ends the subscription *)
Lemma rstep_fin s r now i k :
  r_stopped r = false -> delivered r i = true ->
  snd (x_step m s now i) <> Cont ->
  temitted (map (fun x => (k, x)) (snd (rstep m s r now i)))
  = map (fun b => (k, Next b)) (cemits (snd (fst (x_step m s now i))))
    ++ match snd (x_step m s now i) with Cont => [] | Complete => [(k, Done)] | Fail e => [(k, Err e)] end
  /\ r_stopped (snd (fst (rstep m s r now i))) = true.
Proof.
  intros Hst Hd Hf. unfold rstep. rewrite Hst.
  assert (D : forall r0,
    temitted (map (fun x => (k, x))
      (snd (let '(s', cs, f) := x_step m s now i in
            let '(r1, o1) := apply_cmds r0 cs in
            let '(r2, o2) := match i with
                             | ISrc k e => if is_terminal e && mem k (r_live r1)
                                           then (RState (remove k (r_live r1)) (r_timers r1) (r_stopped r1), [OUnsub k])
                                           else (r1, [])
                             | _ => (r1, [])
                             end in
            let '(r3, o3) := finish r2 f in (s', r3, o1 ++ o2 ++ o3))))
    = map (fun b => (k, Next b)) (cemits (snd (fst (x_step m s now i))))
      ++ match snd (x_step m s now i) with Cont => [] | Complete => [(k, Done)] | Fail e => [(k, Err e)] end
    /\ r_stopped (snd (fst (let '(s', cs, f) := x_step m s now i in
            let '(r1, o1) := apply_cmds r0 cs in
            let '(r2, o2) := match i with
                             | ISrc k e => if is_terminal e && mem k (r_live r1)
                                           then (RState (remove k (r_live r1)) (r_timers r1) (r_stopped r1), [OUnsub k])
                                           else (r1, [])
                             | _ => (r1, [])
                             end in
            let '(r3, o3) := finish r2 f in (s', r3, o1 ++ o2 ++ o3)))) = true).
  { intros r0. destruct (x_step m s now i) as [[s' cs] f]. cbn [fst snd] in *.
    pose proof (apply_cmds_temitted k cs r0) as H1. destruct (apply_cmds r0 cs) as [r1 o1]. cbn [snd] in H1.
    set (X := match i with
              | ISrc k e => if is_terminal e && mem k (r_live r1)
                            then (RState (remove k (r_live r1)) (r_timers r1) (r_stopped r1), [OUnsub k])
                            else (r1, [])
              | _ => (r1, [])
              end).
    assert (HX : temitted (map (fun x => (k, x)) (snd X)) = []).
    { subst X. destruct i as [j e| |]; try reflexivity.
      destruct (is_terminal e && mem j (r_live r1)); reflexivity. }
    destruct X as [r2 o2]. cbn [snd] in HX.
    destruct f; [congruence| |]; cbn [finish]; pose proof (release_temitted k r2) as HR;
      unfold release in *; cbn [fst snd] in *;
      rewrite !map_app, !temitted_app', H1, HX; cbn [map app];
      (split; [|reflexivity]); f_equal; cbn [temitted flat_map snd fst app] in *;
      change (flat_map _ (map (fun x : obs B => (k, x)) ?l)) with (temitted (map (fun x : obs B => (k, x)) l));
      now rewrite HR. }
  destruct i as [j e|tag|]; cbn [delivered] in Hd.
  - rewrite Hd. apply D.
  - rewrite Hd. apply D.
  - discriminate.
Qed.
End Fin.
