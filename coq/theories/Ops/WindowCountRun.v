(* C18: window_with_count -- closed form of the WHOLE trace of a conforming run (every window
   subscribed when handed), for ALL count >= 1, skip >= 1, every finite source and termination.
   [window_count_index] / [window_count_hands] (Ops/WindowCountFacts.v) give each window's
   content and the handed windows; here the complete, position-tagged trace is given: what the
   runner observes at input position n+1 (the element with index n) is a function of n alone --
   the element goes to the windows lo(n) .. nx(n)-1 in opening order, then window lo(n) completes
   iff n = lo(n)*skip + count - 1, then window nx(n) is handed iff n+1 = nx(n)*skip -- and the
   source's terminal goes to the windows open at that point, in order, then to the outer
   subscriber, after which the source subscription is released.  Readings: at which position a
   window receives which notification. *)
From RxVerif Require Import Base.Prelude Ops.Machine Ops.MachineFacts Ops.MultiWin Ops.MultiWinFacts
  Ops.Windows Ops.WindowCountFacts.

Local Arguments Z.of_nat : simpl never.
Local Arguments Z.mul : simpl never.
Local Arguments Z.add : simpl never.
Local Arguments Z.sub : simpl never.
Local Arguments Z.modulo : simpl never.
Local Arguments Z.div : simpl never.
Local Arguments Multi.mem : simpl never.
Local Arguments Multi.remove : simpl never.

Section CountRun.
Context {A B : Type}.
Variables count skip : Z.
Hypothesis Hcount : 0 < count.
Hypothesis Hskip : 0 < skip.
Notation M := (x_window_count (A:=A) (B:=B) count skip).
Notation inv := (wc_inv count skip).

(* windows completed before the element with index n arrives = #{k | k*skip + count <= n} *)
Definition wc_lo (n : Z) : nat := Z.to_nat (if n <? count then 0 else (n - count) / skip + 1).
(* windows handed before the element with index n arrives = #{k | k*skip <= n} *)
Definition wc_nx (n : Z) : nat := (Z.to_nat (n / skip) + 1)%nat.

Lemma wc_inv_closed s n lo nx : inv s n lo nx -> lo = wc_lo n /\ nx = wc_nx n.
Proof.
  intros [Hn Hn0 Hnx Hq Hnx1 H1 H2 H3 H4]. unfold wc_lo, wc_nx. split.
  - destruct (Z.ltb_spec n count) as [Hlt|Hge].
    + destruct H4 as [->|H4]; [reflexivity|]. nia.
    + destruct H4 as [->|H4]; [lia|].
      assert (E : (n - count) / skip = Z.of_nat lo - 1).
      { symmetry. apply Z.div_unique with (r := n - count - (Z.of_nat lo - 1) * skip); lia. }
      rewrite E. lia.
  - assert (E : n / skip = Z.of_nat nx - 1).
    { symmetry. apply Z.div_unique with (r := n - (Z.of_nat nx - 1) * skip); lia. }
    rewrite E. lia.
Qed.

Lemma wc_lo_spec n k : 0 <= n -> ((k < wc_lo n)%nat <-> Z.of_nat k * skip + count <= n).
Proof.
  intros Hn. unfold wc_lo. destruct (Z.ltb_spec n count) as [Hlt|Hge].
  - cbn. split; [lia|nia].
  - assert (H0 : 0 <= (n - count) / skip) by (apply Z.div_pos; lia).
    split.
    + intros H. assert (H1 : Z.of_nat k <= (n - count) / skip) by lia.
      destruct (Z.le_gt_cases (Z.of_nat k * skip + count) n) as [|Hgt]; [assumption|exfalso].
      assert ((n - count) / skip < Z.of_nat k) by (apply Z.div_lt_upper_bound; nia). lia.
    + intros H. assert (Z.of_nat k <= (n - count) / skip) by (apply Z.div_le_lower_bound; nia). lia.
Qed.

Lemma wc_nx_spec n k : 0 <= n -> ((k < wc_nx n)%nat <-> Z.of_nat k * skip <= n).
Proof.
  intros Hn. unfold wc_nx. assert (H0 : 0 <= n / skip) by (apply Z.div_pos; lia). split.
  - intros H. assert (H1 : Z.of_nat k <= n / skip) by lia.
    destruct (Z.le_gt_cases (Z.of_nat k * skip) n) as [|Hgt]; [assumption|exfalso].
    assert (n / skip < Z.of_nat k) by (apply Z.div_lt_upper_bound; nia). lia.
  - intros H. assert (Z.of_nat k <= n / skip) by (apply Z.div_le_lower_bound; nia). lia.
Qed.

(* the windows open when the element with index n arrives are lo(n) .. nx(n)-1 *)
Lemma wc_open_range n k : 0 <= n ->
  (In k (seq (wc_lo n) (wc_nx n - wc_lo n)) <-> wopen count skip k n = true).
Proof.
  intros Hn. rewrite in_seq. unfold wopen. rewrite andb_true_iff, Z.leb_le, Z.ltb_lt.
  pose proof (wc_lo_spec n k Hn) as Hl. pose proof (wc_nx_spec n k Hn) as Hx. split.
  - intros [Ha Hb]. split; [apply Hx; lia|]. destruct (Z.lt_ge_cases n (Z.of_nat k * skip + count)); [assumption|].
    assert (k < wc_lo n)%nat by (apply Hl; lia). lia.
  - intros [Ha Hb]. assert (k < wc_nx n)%nat by (apply Hx; exact Ha).
    assert (~ (k < wc_lo n)%nat) by (rewrite Hl; lia). lia.
Qed.

(* what the runner observes while the element with index n is delivered *)
Definition wc_elem_obs (n : Z) (x : A) : list (obs A B) :=
  map (fun g => OWin g (Next x)) (seq (wc_lo n) (wc_nx n - wc_lo n))
  ++ (if n =? Z.of_nat (wc_lo n) * skip + count - 1 then [OWin (wc_lo n) Done] else [])
  ++ (if n + 1 =? Z.of_nat (wc_nx n) * skip then [OHand (wc_nx n) 0] else []).

(* ... and while the source's terminal is delivered after n elements *)
Definition wc_term_obs (n : Z) (e : ev A) : list (obs A B) :=
  map (fun g => OWin g e) (seq (wc_lo n) (wc_nx n - wc_lo n))
  ++ [OEmit (match e with Err z => Err z | _ => Done end); OUnsub 0%nat].

Fixpoint wc_trace_from (n : Z) (pos : nat) (ys : list A) (tm : term) : list (nat * obs A B) :=
  match ys with
  | [] => flat_map (fun e => map (fun o => (pos, o)) (wc_term_obs n e)) (term_ev tm)
  | y :: t => map (fun o => (pos, o)) (wc_elem_obs n y) ++ wc_trace_from (n + 1) (S pos) t tm
  end.

(* ---- the terminal step, completely ---- *)
Lemma count_of_notin g (l : list nat) : ~ In g l -> count_of g l = 0%nat.
Proof.
  unfold count_of. induction l as [|x t IH]; intros H; [reflexivity|]. cbn [filter].
  destruct (Nat.eqb_spec g x) as [->|Hne]; [exfalso; apply H; left; reflexivity|].
  apply IH. intros Hi. apply H. right. exact Hi.
Qed.
Lemma filter_notin g (l : list nat) : ~ In g l -> filter (fun j => negb (Nat.eqb g j)) l = l.
Proof.
  induction l as [|x t IH]; intros H; [reflexivity|]. cbn [filter].
  destruct (Nat.eqb_spec g x) as [->|Hne]; [exfalso; apply H; left; reflexivity|].
  cbn [negb]. f_equal. apply IH. intros Hi. apply H. right. exact Hi.
Qed.

Lemma wins_term_all (e : ev A) : is_terminal e = true -> forall q, NoDup q -> forall lv tm wt hd,
  (forall g, In g q -> wterm_of g wt = None) ->
  apply_cmds (B:=B) all_imm (RState lv tm true q wt hd false) (map (fun g => CWin g e) q)
  = (RState lv tm true [] (wt ++ map (fun g => (g, e)) q) hd false, map (fun g => OWin g e) q).
Proof.
  intros He. induction 1 as [|g t Hg Ht IH]; intros lv tm wt hd Hw.
  - cbn [map apply_cmds]. now rewrite app_nil_r.
  - cbn [map apply_cmds apply_cmd r_wterm r_wsubs r_live r_timers r_outer r_handed r_released].
    rewrite (Hw g (or_introl eq_refl)), He.
    assert (Ec : count_of g (g :: t) = 1%nat).
    { unfold count_of. cbn [filter]. rewrite Nat.eqb_refl. cbn [length]. f_equal. apply (count_of_notin g t Hg). }
    rewrite Ec. cbn [filter]. rewrite Nat.eqb_refl. cbn [negb]. rewrite (filter_notin g t Hg).
    unfold maybe_release. cbn [r_outer negb andb repeat app].
    rewrite IH.
    + cbn [map]. rewrite <- app_assoc. reflexivity.
    + intros j Hj. rewrite wterm_of_app, (Hw j (or_intror Hj)). cbn [wterm_of].
      destruct (Nat.eqb_spec j g) as [->|]; [contradiction|reflexivity].
Qed.

Lemma wc_term_step_full s n lo nx (e : ev A) now : inv s n lo nx -> is_terminal e = true ->
  snd (rstep all_imm M s (wc_rstate lo nx) now (ISrc 0%nat e))
  = map (fun g => OWin g e) (seq lo (nx - lo)) ++ [OEmit (match e with Err z => Err z | _ => Done end); OUnsub 0%nat].
Proof.
  intros I He. unfold rstep, wc_rstate. cbn [r_live]. change (mem 0%nat [0%nat]) with true. cbn iota.
  unfold deliver.
  assert (Hw : forall g, In g (seq lo (nx - lo)) -> wterm_of (W:=A) g (map (fun k => (k, Done)) (seq 0 lo)) = None).
  { intros g Hg. apply in_seq in Hg. rewrite wterm_done_seq. destruct (Nat.ltb_spec g lo); [lia|reflexivity]. }
  destruct e as [x|z|]; [discriminate| |]; cbn [x_step x_window_count]; rewrite (wi_q _ _ _ _ _ _ I); unfold wins_all;
    rewrite (wins_term_all _ He _ (seq_NoDup _ _) _ _ _ _ Hw);
    cbn [finish r_outer end_outer maybe_release r_live r_timers r_wsubs r_wterm r_handed r_released negb andb fst snd
         is_terminal];
    change (mem 0%nat []) with false; cbn [andb snd app]; rewrite app_nil_r; reflexivity.
Qed.

Lemma wc_trace_run_from tm (ys : list A) : forall s n lo nx pos, inv s n lo nx ->
  fst (run_from all_imm M s (wc_rstate lo nx) pos (src_events ys tm)) = wc_trace_from n pos ys tm.
Proof.
  induction ys as [|y t IH]; intros s n lo nx pos I; destruct (wc_inv_closed s n lo nx I) as [El Ex].
  - unfold src_events. cbn [map app wc_trace_from]. destruct tm as [|z|]; cbn [term_ev map flat_map]; [| |reflexivity];
      rewrite run_from_cons; cbn [run_from fst]; rewrite !app_nil_r;
      [rewrite (wc_term_step_full s n lo nx Done 0 I eq_refl)|rewrite (wc_term_step_full s n lo nx (Err z) 0 I eq_refl)];
      unfold wc_term_obs; rewrite <- El, <- Ex; reflexivity.
  - unfold src_events. cbn [map app]. fold (src_events t tm). rewrite run_from_cons.
    rewrite (wc_step count skip Hcount Hskip s n lo nx y 0 I). cbn [fst snd].
    destruct (wc_on_next_spec count skip Hcount Hskip (B:=B) s n lo nx y I) as (I' & _ & _). cbn zeta in I'.
    rewrite (IH _ _ _ _ _ I'). cbn [wc_trace_from]. unfold wc_elem_obs. rewrite <- El, <- Ex. reflexivity.
Qed.

(* THEOREM: the whole trace *)
Theorem window_count_trace (xs : list A) (tm : term) :
  fst (run all_imm M (src_events xs tm))
  = [(0%nat, OHand 0%nat 0); (0%nat, OSub 0%nat)] ++ wc_trace_from 0 1 xs tm.
Proof.
  rewrite run_unfold. cbn [fst].
  assert (Es : start_state all_imm M = (WcSt 0 [0%nat] 1, wc_rstate 0 1)) by reflexivity.
  assert (Eo : start_obs all_imm M = [OHand 0%nat 0; OSub 0%nat]) by reflexivity.
  rewrite Es, Eo. cbn [fst snd map]. f_equal.
  apply (wc_trace_run_from tm xs _ 0 0%nat 1%nat 1%nat (wc_inv0 count skip Hcount Hskip)).
Qed.

(* ---- readings ---- *)
Lemma zlen_nn {X} (l : list X) : 0 <= zlen l.
Proof. unfold zlen. lia. Qed.
Ltac tcase tm He := destruct tm; cbn in He; [destruct He as [<-|[]]|destruct He as [<-|[]]|destruct He].
Lemma in_wc_trace_from p o tm (ys : list A) : forall n pos, 0 <= n ->
  In (p, o) (wc_trace_from n pos ys tm) <->
  (exists i y, nth_error ys i = Some y /\ p = (pos + i)%nat /\ In o (wc_elem_obs (n + Z.of_nat i) y))
  \/ (exists e, In e (term_ev tm) /\ p = (pos + length ys)%nat /\ In o (wc_term_obs (n + zlen ys) e)).
Proof.
  induction ys as [|y t IH]; intros n pos Hn.
  - cbn [wc_trace_from]. rewrite in_flat_map. unfold zlen. cbn [length]. rewrite Nat.add_0_r, Z.add_0_r. split.
    + intros (e & He & Hi). apply in_map_iff in Hi. destruct Hi as (o' & E & Ho). injection E as <- <-.
      right. exists e. auto.
    + intros [(i & y & Hnth & _)|(e & He & -> & Ho)]; [destruct i; discriminate Hnth|].
      exists e. split; [exact He|]. apply in_map_iff. exists o. auto.
  - cbn [wc_trace_from]. rewrite in_app_iff, (IH (n + 1) (S pos)) by lia. split.
    + intros [Hi|[(i & y' & Hnth & -> & Ho)|(e & He & -> & Ho)]].
      * apply in_map_iff in Hi. destruct Hi as (o' & E & Ho). injection E as <- <-.
        left. exists 0%nat, y. rewrite Nat.add_0_r, Z.add_0_r. auto.
      * left. exists (S i), y'. cbn [nth_error]. replace (n + Z.of_nat (S i)) with (n + 1 + Z.of_nat i) by lia.
        repeat split; [exact Hnth|lia|exact Ho].
      * right. exists e. unfold zlen in *. cbn [length].
        replace (n + Z.of_nat (S (length t))) with (n + 1 + Z.of_nat (length t)) by lia.
        repeat split; [exact He|lia|exact Ho].
    + intros [(i & y' & Hnth & -> & Ho)|(e & He & -> & Ho)].
      * destruct i as [|i].
        -- cbn [nth_error] in Hnth. injection Hnth as <-. left. apply in_map_iff. exists o.
           rewrite Nat.add_0_r, Z.add_0_r in *. auto.
        -- right. left. exists i, y'. cbn [nth_error] in Hnth.
           replace (n + Z.of_nat (S i)) with (n + 1 + Z.of_nat i) in Ho by lia.
           repeat split; [exact Hnth|lia|exact Ho].
      * right. right. exists e. unfold zlen in *. cbn [length] in *.
        replace (n + Z.of_nat (S (length t))) with (n + 1 + Z.of_nat (length t)) in Ho by lia.
        repeat split; [exact He|lia|exact Ho].
Qed.

Lemma in_win_map (e e' : ev A) k (q : list nat) :
  In (@OWin A B k e') (map (fun g => OWin g e) q) <-> e' = e /\ In k q.
Proof.
  rewrite in_map_iff. split.
  - intros (j & E & Hj). injection E as <- <-. auto.
  - intros [-> Hk]. exists k. auto.
Qed.

(* window k receives the element x at position p  iff  x is the element with index p-1 and
   k*skip <= p-1 < k*skip + count *)
Theorem window_count_next_at (xs : list A) tm k p x :
  In (p, OWin k (Next x)) (fst (run all_imm M (src_events xs tm)))
  <-> exists n, p = S n /\ nth_error xs n = Some x /\ wopen count skip k (Z.of_nat n) = true.
Proof.
  rewrite window_count_trace, in_app_iff, (in_wc_trace_from _ _ tm xs 0 1) by lia. split.
  - intros [[H|[H|[]]]|[(i & y & Hnth & -> & Ho)|(e & He & -> & Ho)]]; try discriminate H.
    + unfold wc_elem_obs in Ho. rewrite !in_app_iff in Ho. destruct Ho as [Ho|[Ho|Ho]].
      * apply in_win_map in Ho. destruct Ho as [E Hk]. injection E as ->.
        exists i. rewrite Z.add_0_l in Hk. apply wc_open_range in Hk; [|lia]. auto.
      * destruct (_ =? _); [destruct Ho as [Ho|[]]; discriminate Ho|destruct Ho].
      * destruct (_ =? _); [destruct Ho as [Ho|[]]; discriminate Ho|destruct Ho].
    + unfold wc_term_obs in Ho. rewrite in_app_iff in Ho. destruct Ho as [Ho|[Ho|[Ho|[]]]]; try discriminate Ho.
      apply in_win_map in Ho. destruct Ho as [E _]. tcase tm He; discriminate E.
  - intros (n & -> & Hnth & Hk). right. left. exists n, x. repeat split; [exact Hnth|].
    unfold wc_elem_obs. rewrite in_app_iff. left. apply in_win_map. split; [reflexivity|].
    rewrite Z.add_0_l. apply wc_open_range; [lia|exact Hk].
Qed.

(* window k completes at position p  iff  p-1 = k*skip + count - 1 is the index of an element (right
   after its last element, in the same on_next call), or the source completes at p while k is open *)
Theorem window_count_done_at (xs : list A) tm k p :
  In (p, OWin k Done) (fst (run all_imm M (src_events xs tm)))
  <-> (Z.of_nat p = Z.of_nat k * skip + count /\ Z.of_nat p <= zlen xs)
      \/ (tm = TDone /\ p = S (length xs) /\ wopen count skip k (zlen xs) = true).
Proof.
  pose proof (zlen_nn xs) as Hx0.
  rewrite window_count_trace, in_app_iff, (in_wc_trace_from _ _ tm xs 0 1) by lia. split.
  - intros [[H|[H|[]]]|[(i & y & Hnth & -> & Ho)|(e & He & -> & Ho)]]; try discriminate H.
    + left. unfold wc_elem_obs in Ho. rewrite !in_app_iff in Ho. destruct Ho as [Ho|[Ho|Ho]].
      * apply in_win_map in Ho. destruct Ho as [E _]. discriminate E.
      * rewrite Z.add_0_l in Ho.
        destruct (Z.eqb_spec (Z.of_nat i) (Z.of_nat (wc_lo (Z.of_nat i)) * skip + count - 1)) as [E|]; [|destruct Ho].
        destruct Ho as [Ho|[]]. injection Ho as <-.
        assert (i < length xs)%nat by (apply nth_error_Some; congruence). unfold zlen. lia.
      * destruct (_ =? _); [destruct Ho as [Ho|[]]; discriminate Ho|destruct Ho].
    + right. unfold wc_term_obs in Ho. rewrite in_app_iff in Ho. destruct Ho as [Ho|[Ho|[Ho|[]]]]; try discriminate Ho.
      apply in_win_map in Ho. destruct Ho as [E Hk]. rewrite Z.add_0_l in Hk. apply wc_open_range in Hk; [|lia].
      tcase tm He; try discriminate E. auto.
  - intros [[Hp Hle]|(-> & -> & Hk)]; right.
    + left. assert (Hp1 : (1 <= p)%nat) by nia.
      destruct (nth_error xs (p - 1)) as [y|] eqn:Hnth.
      2: { apply nth_error_None in Hnth. unfold zlen in Hle. lia. }
      exists (p - 1)%nat, y. repeat split; [exact Hnth|lia|].
      unfold wc_elem_obs. rewrite !in_app_iff. right. left. rewrite Z.add_0_l.
      set (n := Z.of_nat (p - 1)).
      assert (Hn : n = Z.of_nat k * skip + count - 1) by (subst n; lia).
      assert (El : wc_lo n = k).
      { assert (~ (k < wc_lo n)%nat) by (rewrite wc_lo_spec by lia; lia).
        destruct (Nat.eq_dec k 0) as [->|Hk0]; [lia|].
        assert ((k - 1 < wc_lo n)%nat) by (apply wc_lo_spec; nia). lia. }
      rewrite El. destruct (Z.eqb_spec n (Z.of_nat k * skip + count - 1)); [left; reflexivity|contradiction].
    + right. exists Done. repeat split; [left; reflexivity|].
      unfold wc_term_obs. rewrite in_app_iff. left. apply in_win_map. split; [reflexivity|].
      rewrite Z.add_0_l. apply wc_open_range; [lia|exact Hk].
Qed.

(* the source's error reaches exactly the windows open when it arrives ... *)
Theorem window_count_error_at (xs : list A) tm k p z :
  In (p, OWin k (Err z)) (fst (run all_imm M (src_events xs tm)))
  <-> tm = TErr z /\ p = S (length xs) /\ wopen count skip k (zlen xs) = true.
Proof.
  pose proof (zlen_nn xs) as Hx0.
  rewrite window_count_trace, in_app_iff, (in_wc_trace_from _ _ tm xs 0 1) by lia. split.
  - intros [[H|[H|[]]]|[(i & y & Hnth & -> & Ho)|(e & He & -> & Ho)]]; try discriminate H.
    + unfold wc_elem_obs in Ho. rewrite !in_app_iff in Ho. destruct Ho as [Ho|[Ho|Ho]].
      * apply in_win_map in Ho. destruct Ho as [E _]. discriminate E.
      * destruct (_ =? _); [destruct Ho as [Ho|[]]; discriminate Ho|destruct Ho].
      * destruct (_ =? _); [destruct Ho as [Ho|[]]; discriminate Ho|destruct Ho].
    + unfold wc_term_obs in Ho. rewrite in_app_iff in Ho. destruct Ho as [Ho|[Ho|[Ho|[]]]]; try discriminate Ho.
      apply in_win_map in Ho. destruct Ho as [E Hk]. rewrite Z.add_0_l in Hk. apply wc_open_range in Hk; [|lia].
      tcase tm He; try discriminate E. injection E as ->. auto.
  - intros (-> & -> & Hk). right. right. exists (Err z). repeat split; [left; reflexivity|].
    unfold wc_term_obs. rewrite in_app_iff. left. apply in_win_map. split; [reflexivity|].
    rewrite Z.add_0_l. apply wc_open_range; [lia|exact Hk].
Qed.

(* ... and the outer subscriber, which sees nothing but the handed windows and then the source's terminal *)
Theorem window_count_outer_at (xs : list A) tm p e :
  In (p, OEmit e) (fst (run all_imm M (src_events xs tm))) <-> p = S (length xs) /\ In e (term_ev tm).
Proof.
  pose proof (zlen_nn xs) as Hx0.
  rewrite window_count_trace, in_app_iff, (in_wc_trace_from _ _ tm xs 0 1) by lia. split.
  - intros [[H|[H|[]]]|[(i & y & Hnth & -> & Ho)|(e' & He & -> & Ho)]]; try discriminate H.
    + unfold wc_elem_obs in Ho. rewrite !in_app_iff in Ho. destruct Ho as [Ho|[Ho|Ho]].
      * apply in_map_iff in Ho. destruct Ho as (j & E & _). discriminate E.
      * destruct (_ =? _); [destruct Ho as [Ho|[]]; discriminate Ho|destruct Ho].
      * destruct (_ =? _); [destruct Ho as [Ho|[]]; discriminate Ho|destruct Ho].
    + unfold wc_term_obs in Ho. rewrite in_app_iff in Ho. destruct Ho as [Ho|[Ho|[Ho|[]]]]; try discriminate Ho.
      * apply in_map_iff in Ho. destruct Ho as (j & E & _). discriminate E.
      * injection Ho as <-. split; [reflexivity|].
        tcase tm He; cbn; left; reflexivity.
  - intros (-> & He). right. right. unfold wc_term_obs.
    destruct tm as [|z|]; cbn in He; [destruct He as [<-|[]]|destruct He as [<-|[]]|destruct He].
    + exists Done. repeat split; [left; reflexivity|]. rewrite in_app_iff. right. left. reflexivity.
    + exists (Err z). repeat split; [left; reflexivity|]. rewrite in_app_iff. right. left. reflexivity.
Qed.

(* window k (k >= 1) is handed at position k*skip, inside the on_next of the element with index
   k*skip - 1 (window 0: inside subscribe) *)
Theorem window_count_hand_at (xs : list A) tm k key p :
  In (p, OHand k key) (fst (run all_imm M (src_events xs tm)))
  <-> key = 0 /\ Z.of_nat p = Z.of_nat k * skip /\ Z.of_nat p <= zlen xs.
Proof.
  pose proof (zlen_nn xs) as Hx0.
  rewrite window_count_trace, in_app_iff, (in_wc_trace_from _ _ tm xs 0 1) by lia. split.
  - intros [[H|[H|[]]]|[(i & y & Hnth & -> & Ho)|(e' & He & -> & Ho)]]; try discriminate H.
    + injection H as <- <- <-. repeat split; lia.
    + unfold wc_elem_obs in Ho. rewrite !in_app_iff in Ho. destruct Ho as [Ho|[Ho|Ho]].
      * apply in_map_iff in Ho. destruct Ho as (j & E & _). discriminate E.
      * destruct (_ =? _); [destruct Ho as [Ho|[]]; discriminate Ho|destruct Ho].
      * rewrite Z.add_0_l in Ho.
        destruct (Z.eqb_spec (Z.of_nat i + 1) (Z.of_nat (wc_nx (Z.of_nat i)) * skip)) as [E|]; [|destruct Ho].
        destruct Ho as [Ho|[]]. injection Ho as <- <-.
        assert (i < length xs)%nat by (apply nth_error_Some; congruence). unfold zlen. repeat split; lia.
    + unfold wc_term_obs in Ho. rewrite in_app_iff in Ho. destruct Ho as [Ho|[Ho|[Ho|[]]]]; try discriminate Ho.
      apply in_map_iff in Ho. destruct Ho as (j & E & _). discriminate E.
  - intros (-> & Hp & Hle). destruct (Nat.eq_dec p 0) as [->|Hp0].
    + left. assert (k = 0%nat) by nia. subst k. left. reflexivity.
    + right. left. destruct (nth_error xs (p - 1)) as [y|] eqn:Hnth.
      2: { apply nth_error_None in Hnth. unfold zlen in Hle. lia. }
      exists (p - 1)%nat, y. repeat split; [exact Hnth|lia|].
      unfold wc_elem_obs. rewrite !in_app_iff. right. right. rewrite Z.add_0_l.
      set (n := Z.of_nat (p - 1)). assert (Hn : n + 1 = Z.of_nat k * skip) by (subst n; lia).
      assert (Ex : wc_nx n = k).
      { assert (~ (k < wc_nx n)%nat) by (rewrite wc_nx_spec by lia; lia).
        assert (k <> 0%nat) by nia.
        assert ((k - 1 < wc_nx n)%nat) by (apply wc_nx_spec; nia). lia. }
      rewrite Ex. destruct (Z.eqb_spec (n + 1) (Z.of_nat k * skip)); [left; reflexivity|contradiction].
Qed.
End CountRun.
