(* C02/C03 at the level of the OBSERVABLE TRACE (what is compared with the
   implementation): subscriptions opened and closed balance out -- the set of
   source subscriptions still open after a trace is exactly the runner's live
   set, which is empty after a terminal notification or a dispose. *)
From Coq Require Import Permutation.
From RxVerif Require Import Base.Prelude Ops.Machine Ops.Multi Ops.MultiFacts.

Section Track.
Context {B : Type}.

Definition track (l : list nat) (o : obs B) : list nat :=
  match o with OSub k => l ++ [k] | OUnsub k => remove k l | _ => l end.
Definition open_after (l : list nat) (os : list (obs B)) : list nat := fold_left track os l.

Lemma open_after_app l a b : open_after l (a ++ b) = open_after (open_after l a) b.
Proof. unfold open_after. apply fold_left_app. Qed.

Lemma mem_true_in k l : mem k l = true -> In k l.
Proof.
  unfold mem. intros H. apply existsb_exists in H. destruct H as [x [Hx He]].
  apply Nat.eqb_eq in He. now subst.
Qed.

Lemma remove_perm k l : In k l -> Permutation l (k :: remove k l).
Proof.
  induction l as [|j t IH]; intros H; [destruct H|].
  cbn [remove]. destruct (Nat.eqb_spec k j) as [->|Hne]; [reflexivity|].
  destruct H as [H|H]; [congruence|].
  rewrite (IH H) at 1. apply perm_swap.
Qed.

Lemma remove_all ks : forall l, Permutation ks l ->
  open_after l (map (@OUnsub B) ks) = [].
Proof.
  induction ks as [|k ks IH]; intros l HP.
  - apply Permutation_nil in HP. now subst.
  - cbn [map open_after fold_left track]. apply IH.
    assert (Hin : In k l) by (eapply Permutation_in; [exact HP|left; reflexivity]).
    pose proof (remove_perm k l Hin) as H2.
    apply Permutation_cons_inv with (a := k). now rewrite HP.
Qed.

Lemma insert_sorted_perm k l : Permutation (insert_sorted k l) (k :: l).
Proof.
  induction l as [|j t IH]; [reflexivity|]. cbn [insert_sorted].
  destruct (Nat.leb k j); [reflexivity|]. rewrite IH. apply perm_swap.
Qed.

Lemma sort_nat_perm l : Permutation (sort_nat l) l.
Proof.
  induction l as [|k t IH]; [reflexivity|]. cbn [sort_nat fold_right].
  fold (sort_nat t). rewrite insert_sorted_perm. now constructor.
Qed.

Lemma open_after_cancels l ts : open_after l (map (@OCancel B) ts) = l.
Proof. revert l; induction ts as [|t r IH]; intros l; [reflexivity|]. cbn. apply IH. Qed.

Lemma release_track (r : rstate) :
  open_after (r_live r) (snd (@release B r)) = r_live (fst (@release B r)).
Proof.
  unfold release. cbn [fst snd r_live]. rewrite open_after_app.
  rewrite (remove_all (sort_nat (r_live r)) (r_live r) (sort_nat_perm _)).
  apply open_after_cancels.
Qed.

Lemma apply_cmds_track (cs : list (cmd B)) : forall r,
  open_after (r_live r) (snd (apply_cmds r cs)) = r_live (fst (apply_cmds r cs)).
Proof.
  induction cs as [|c t IH]; intros r; [reflexivity|]. cbn [apply_cmds].
  destruct c; cbn.
  - specialize (IH r). destruct (apply_cmds r t). cbn [fst snd] in *. exact IH.
  - match goal with |- context [apply_cmds ?r' t] => specialize (IH r'); destruct (apply_cmds r' t) end.
    cbn [fst snd r_live] in *. exact IH.
  - destruct (mem k (r_live r));
    match goal with |- context [apply_cmds ?r' t] => specialize (IH r'); destruct (apply_cmds r' t) end;
    cbn [fst snd r_live app] in *; exact IH.
  - match goal with |- context [apply_cmds ?r' t] => specialize (IH r'); destruct (apply_cmds r' t) end.
    cbn [fst snd r_live] in *. exact IH.
  - destruct (mem tag (r_timers r));
    match goal with |- context [apply_cmds ?r' t] => specialize (IH r'); destruct (apply_cmds r' t) end;
    cbn [fst snd r_live app] in *; exact IH.
  - specialize (IH r). destruct (apply_cmds r t). cbn [fst snd] in *. exact IH.
Qed.

Lemma finish_track (r : rstate) f :
  open_after (r_live r) (snd (@finish B r f)) = r_live (fst (@finish B r f)).
Proof.
  destruct f; cbn [finish]; [reflexivity| |];
    pose proof (release_track r) as H; destruct (release r) as [r' o]; cbn [fst snd] in *;
    cbn [open_after fold_left track]; exact H.
Qed.

Lemma filter_noemit_track l (o : list (obs B)) :
  open_after l (filter (fun o => match o with OEmit _ => false | _ => true end) o) = open_after l o.
Proof.
  revert l; induction o as [|x t IH]; intros l; [reflexivity|].
  destruct x; cbn; apply IH.
Qed.
End Track.

Section Run.
Context {A B : Type} (m : machine A B).

Lemma rstep_track s r now i :
  open_after (r_live r) (snd (rstep m s r now i)) = r_live (snd (fst (rstep m s r now i))).
Proof.
  unfold rstep. destruct (r_stopped r); [reflexivity|].
  assert (D : forall r0, r_live r0 = r_live r ->
    open_after (r_live r)
      (snd (let '(s', cs, f) := x_step m s now i in
            let '(r1, o1) := apply_cmds r0 cs in
            let '(r2, o2) := match i with
                             | ISrc k e => if is_terminal e && mem k (r_live r1)
                                           then (RState (remove k (r_live r1)) (r_timers r1) (r_stopped r1), [OUnsub k])
                                           else (r1, [])
                             | _ => (r1, [])
                             end in
            let '(r3, o3) := finish r2 f in (s', r3, o1 ++ o2 ++ o3)))
    = r_live (snd (fst (let '(s', cs, f) := x_step m s now i in
            let '(r1, o1) := apply_cmds r0 cs in
            let '(r2, o2) := match i with
                             | ISrc k e => if is_terminal e && mem k (r_live r1)
                                           then (RState (remove k (r_live r1)) (r_timers r1) (r_stopped r1), [OUnsub k])
                                           else (r1, [])
                             | _ => (r1, [])
                             end in
            let '(r3, o3) := finish r2 f in (s', r3, o1 ++ o2 ++ o3))))).
  { intros r0 H0. destruct (x_step m s now i) as [[s' cs] f].
    pose proof (apply_cmds_track cs r0) as H1. rewrite H0 in H1.
    destruct (apply_cmds r0 cs) as [r1 o1]. cbn [fst snd] in *.
    set (X := match i with
              | ISrc k e => if is_terminal e && mem k (r_live r1)
                            then (RState (remove k (r_live r1)) (r_timers r1) (r_stopped r1), [OUnsub k])
                            else (r1, [])
              | _ => (r1, [])
              end).
    assert (HX : open_after (r_live r1) (snd X) = r_live (fst X)).
    { subst X. destruct i as [k e| |]; try reflexivity.
      destruct (is_terminal e && mem k (r_live r1)); reflexivity. }
    destruct X as [r2 o2]. cbn [fst snd] in HX.
    pose proof (@finish_track B r2 f) as H3. destruct (finish r2 f) as [r3 o3]. cbn [fst snd] in *.
    rewrite !open_after_app, H1, HX. exact H3. }
  destruct i as [k e|tag|].
  - destruct (mem k (r_live r)); [apply D; reflexivity|reflexivity].
  - destruct (mem tag (r_timers r)); [apply D; reflexivity|reflexivity].
  - destruct (x_step m s now IDispose) as [[s' cs] f].
    pose proof (apply_cmds_track cs r) as H1. destruct (apply_cmds r cs) as [r1 o1]. cbn [fst snd] in *.
    pose proof (@release_track B r1) as H2. unfold release in *. cbn [fst snd] in *.
    rewrite open_after_app, filter_noemit_track, H1. exact H2.
Qed.

Lemma run_from_track ins : forall s r k,
  open_after (r_live r) (map snd (fst (run_from m s r k ins))) = r_live (snd (run_from m s r k ins)).
Proof.
  induction ins as [|[now i] rest IH]; intros s r k; [reflexivity|].
  cbn [run_from]. pose proof (rstep_track s r now i) as H1.
  destruct (rstep m s r now i) as [[s' r'] o]. cbn [fst snd] in H1.
  specialize (IH s' r' (S k)). destruct (run_from m s' r' (S k) rest) as [tr rf]. cbn [fst snd] in *.
  rewrite map_app, map_map. cbn [snd]. rewrite map_id, open_after_app, H1. exact IH.
Qed.

(* the subscriptions left open by the observable trace of a whole run are the
   runner's live set *)
Theorem run_track ins :
  open_after [] (map snd (fst (run m ins))) = r_live (snd (run m ins)).
Proof.
  unfold run. destruct (x_start m) as [[s0 cs] f].
  pose proof (apply_cmds_track cs (RState [] [] false)) as H1.
  destruct (apply_cmds (RState [] [] false) cs) as [r1 o1]. cbn [fst snd r_live] in H1.
  pose proof (@finish_track B r1 f) as H2. destruct (finish r1 f) as [r2 o2]. cbn [fst snd] in H2.
  pose proof (run_from_track ins s0 r2 1) as H3.
  destruct (run_from m s0 r2 1 ins) as [tr rf]. cbn [fst snd] in *.
  rewrite map_app, map_map. cbn [snd]. rewrite map_id, !open_after_app, H1, H2. exact H3.
Qed.

(* C02: after the subscriber received a terminal notification, no source
   subscription opened by the operator is still open *)
Theorem terminated_run_is_balanced ins :
  ended (emitted (fst (run m ins))) = true ->
  open_after [] (map snd (fst (run m ins))) = [].
Proof.
  intros H. rewrite run_track. destruct (run_good m ins) as [_ G]. now rewrite (G H).
Qed.
End Run.
