(* C16/C17, part 2: operators with ONE live timer at a time, in the closed world
   of Ops/TimedSim.v (timers fire exactly at their due time; at equal instants
   source notifications go first): take_with_time / take_until_with_time,
   skip_with_time / skip_until_with_time, timeout, debounce.

   Each operator gets (a) the simulation theorem: the timed emissions equal a
   specification function that walks the timeline with the current due time,
   for ALL event sequences on port 0 (non-conforming ones included), and (b)
   closed forms on conforming sorted timelines. *)
From RxVerif Require Import Base.Prelude Ops.Machine Ops.Multi Ops.MultiFacts Ops.Timed Ops.TimedSim
  Ops.TimedFacts.

Lemma eqb_succ_r n : Nat.eqb n (S n) = false.
Proof. apply Nat.eqb_neq. lia. Qed.
Lemma eqb_succ_l n : Nat.eqb (S n) n = false.
Proof. apply Nat.eqb_neq. lia. Qed.

Ltac nat_eqb := rewrite ?Nat.eqb_refl, ?eqb_succ_r, ?eqb_succ_l.

(* the prefix of an event list up to and including the first terminal *)
Fixpoint upto_term {A} (es : list (Z * ev A)) : list (Z * ev A) :=
  match es with
  | [] => []
  | (t, Next x) :: rest => (t, Next x) :: upto_term rest
  | (t, e) :: _ => [(t, e)]
  end.
Definition has_term {A} (es : list (Z * ev A)) : bool := existsb (fun te => is_terminal (snd te)) es.

(* ------------------------------------------------------------------ C17 -- *)
Section TakeUntil.
Context {A : Type}.

(* [D] = the instant the timer is due.  Notifications up to AND AT D pass (at
   the instant D the source goes first); then completion at D. *)
Fixpoint take_spec (D : Z) (es : list (Z * ev A)) : list (Z * ev A) :=
  match es with
  | [] => [(D, Done)]
  | (t, e) :: rest =>
      if t <=? D then match e with Next x => (t, Next x) :: take_spec D rest | _ => [(t, e)] end
      else [(D, Done)]
  end.

Lemma take_sim ts t0 D : forall es fuel, (length es + 1 <= fuel)%nat ->
  sim_emits (sim (x_take_until_with_time ts t0) fuel tt (RState [0%nat] [0%nat] false) [(0%nat, D)] (ext_of es))
  = take_spec D es.
Proof.
  induction es as [|[t e] rest IH]; intros fuel Hf.
  - destruct fuel as [|f]; [cbn in Hf; lia|]. rewrite ext_of_nil. sim_step.
    rewrite sim_stopped by reflexivity. reflexivity.
  - destruct fuel as [|f]; [cbn in Hf; lia|]. cbn [length] in Hf. cbn [take_spec].
    rewrite sim_S, ext_of_cons. cbn [next_event earliest fst snd].
    destruct e as [x|e|]; destruct (t <=? D) eqn:E; unfold rstep; sim_fin;
      try (rewrite sim_stopped by reflexivity; reflexivity).
    f_equal. apply IH. lia.
Qed.

(* due instant of the timer scheduled at subscription *)
Definition due_at (ts : tspec) (t0 : Z) : Z := t0 + clamp (tdelay ts t0).

Theorem take_until_with_time_spec ts t0 (es : list (Z * ev A)) :
  timed_emits t0 (simulate (x_take_until_with_time ts t0) t0 (ext_of es)) = take_spec (due_at ts t0) es.
Proof.
  unfold simulate, simulate_fuel, timed_emits.
  cbn [x_start x_take_until_with_time apply_cmds finish fst snd app emits flat_map map].
  cbn [upd new_timers flat_map app filter fst r_timers mem existsb Nat.eqb orb].
  apply take_sim. rewrite ext_of_length. lia.
Qed.

Theorem take_with_time_spec d t0 (es : list (Z * ev A)) :
  timed_emits t0 (simulate (x_take_until_with_time (Rel d) t0) t0 (ext_of es)) = take_spec (t0 + clamp d) es.
Proof. exact (take_until_with_time_spec (Rel d) t0 es). Qed.

(* closed form on a time-sorted event list: the events up to the boundary,
   then the completion unless the source terminated by then *)
Lemma take_spec_sorted D : forall es : list (Z * ev A), tsorted es ->
  take_spec D es =
  let k := filter (fun te => fst te <=? D) es in
  upto_term k ++ (if has_term k then [] else [(D, Done)]).
Proof.
  induction es as [|[t e] rest IH]; intros Hs; [reflexivity|].
  cbn [take_spec filter fst]. destruct Hs as [Hall Hs]. destruct (t <=? D) eqn:E.
  - destruct e as [x|e|]; [|reflexivity|reflexivity].
    cbn [upto_term has_term existsb snd is_terminal orb]. rewrite IH by exact Hs. reflexivity.
  - rewrite filter_none; [reflexivity|].
    eapply Forall_impl; [|exact Hall]. intros te Hte. cbn beta in *. destruct (fst te <=? D) eqn:E2; [lia|reflexivity].
Qed.
End TakeUntil.

Section SkipUntil.
Context {A : Type}.

(* gate closed: notifications up to and AT the due instant D are dropped (the
   source goes first at D), terminals always pass; then the gate is open *)
Fixpoint skip_spec (D : Z) (es : list (Z * ev A)) : list (Z * ev A) :=
  match es with
  | [] => []
  | (t, e) :: rest =>
      if t <=? D then match e with Next x => skip_spec D rest | _ => [(t, e)] end
      else upto_term es
  end.

Lemma skip_open_sim b ts t0 : forall (es : list (Z * ev A)) fuel, (length es <= fuel)%nat ->
  sim_emits (sim (x_skip_until_with_time b ts t0) fuel true R0 [] (ext_of es)) = upto_term es.
Proof.
  induction es as [|[t e] rest IH]; intros fuel Hf.
  - now rewrite ext_of_nil, sim_nil.
  - destruct fuel as [|f]; [cbn in Hf; lia|]. cbn [length] in Hf.
    destruct e as [x|e|]; sim_step; try (rewrite sim_stopped by reflexivity; reflexivity).
    f_equal. apply IH. lia.
Qed.

(* time-sorted events (the gate, once open, stays open) *)
Lemma skip_sim b ts t0 D : forall es fuel, (length es + 1 <= fuel)%nat -> tsorted es ->
  sim_emits (sim (x_skip_until_with_time b ts t0) fuel false (RState [0%nat] [0%nat] false) [(0%nat, D)] (ext_of es))
  = skip_spec D es.
Proof.
  induction es as [|[t e] rest IH]; intros fuel Hf Hs.
  - destruct fuel as [|f]; [cbn in Hf; lia|]. rewrite ext_of_nil. sim_step. now rewrite sim_nil.
  - destruct fuel as [|f]; [cbn in Hf; lia|]. cbn [length] in Hf. cbn [skip_spec].
    rewrite sim_S, ext_of_cons. cbn [next_event earliest fst snd]. destruct Hs as [Hall Hs].
    destruct (t <=? D) eqn:E.
    + destruct e as [x|e|]; unfold rstep; sim_fin; try (rewrite sim_stopped by reflexivity; reflexivity).
      apply IH; [lia|exact Hs].
    + unfold rstep. sim_fin. rewrite <- ext_of_cons. apply (skip_open_sim b ts t0 ((t, e) :: rest)). cbn [length]. lia.
Qed.

Theorem skip_until_with_time_spec b ts t0 (es : list (Z * ev A)) : tsorted es ->
  timed_emits t0 (simulate (x_skip_until_with_time b ts t0) t0 (ext_of es)) = skip_spec (due_at ts t0) es.
Proof.
  intros Hs. unfold simulate, simulate_fuel, timed_emits.
  destruct b; cbn [x_start x_skip_until_with_time apply_cmds finish fst snd app emits flat_map map];
    cbn [upd new_timers flat_map app filter fst r_timers mem existsb Nat.eqb orb];
    (apply skip_sim; [rewrite ext_of_length; lia|exact Hs]).
Qed.

(* closed form: the events strictly after the boundary, and the terminal in any case *)
Lemma skip_spec_sorted D : forall es : list (Z * ev A), tsorted es ->
  skip_spec D es = upto_term (filter (fun te => is_terminal (snd te) || (D <? fst te)) es).
Proof.
  induction es as [|[t e] rest IH]; intros Hs; [reflexivity|].
  cbn [skip_spec]. destruct Hs as [Hall Hs]. destruct (t <=? D) eqn:E.
  - cbn [filter fst snd]. destruct e as [x|e|]; cbn [is_terminal orb]; [|reflexivity|reflexivity].
    destruct (D <? t) eqn:E2; [lia|]. apply IH, Hs.
  - rewrite filter_all; [reflexivity|]. constructor.
    + cbn [fst snd]. destruct (D <? t) eqn:E2; [apply orb_true_r|lia].
    + eapply Forall_impl; [|exact Hall]. intros te Hte. cbn beta in *. destruct (D <? fst te) eqn:E2; [apply orb_true_r|lia].
Qed.

Theorem skip_until_with_time_closed b ts t0 (es : list (Z * ev A)) : tsorted es ->
  timed_emits t0 (simulate (x_skip_until_with_time b ts t0) t0 (ext_of es))
  = upto_term (filter (fun te => is_terminal (snd te) || (due_at ts t0 <? fst te)) es).
Proof. intros Hs. rewrite (skip_until_with_time_spec b ts t0 es Hs). exact (skip_spec_sorted (due_at ts t0) es Hs). Qed.
End SkipUntil.

Section Timeout.
Context {A : Type}.

(* [due] = instant at which the running timer fires; an element arriving up to
   and AT that instant re-arms it for [t + clamp (tdelay ts t)] (relative d: t + d;
   absolute D: D again); a terminal up to and at it ends the sequence -- the
   timer never acts after the source terminated *)
Fixpoint timeout_spec (ts : tspec) (due : Z) (es : list (Z * ev A)) : list (Z * ev A) * option Z :=
  match es with
  | [] => ([], Some due)
  | (t, e) :: rest =>
      if t <=? due then
        match e with
        | Next x => let '(o, sw) := timeout_spec ts (t + clamp (tdelay ts t)) rest in ((t, Next x) :: o, sw)
        | _ => ([(t, e)], None)
        end
      else ([], Some due)
  end.

(* without a fallback: throw(Exception("Timeout")) subscribed with the scheduler *)
Definition timeout_out (r : list (Z * ev A) * option Z) : list (Z * ev A) :=
  fst r ++ match snd r with Some due => [(due, Err TIMEOUT_ERR)] | None => [] end.

Definition to_inv (s : to_st) (tg : nat) : Prop :=
  to_switched s = false /\ to_throw s = None /\ to_ntag s = S tg
  /\ exists rest, to_timers s = (tg, to_id s) :: rest.

Lemma timeout_sim ts t0 : forall es fuel s tg due, (2 * length es + 2 <= fuel)%nat -> to_inv s tg ->
  sim_emits (sim (x_timeout ts false t0) fuel s (RState [0%nat] [tg] false) [(tg, due)] (ext_of es))
  = timeout_out (timeout_spec ts due es).
Proof.
  induction es as [|[t e] rest IH]; intros fuel s tg due Hf (Hsw & Hth & Hn & tms & Htm).
  - destruct fuel as [|f]; [cbn in Hf; lia|]. rewrite ext_of_nil.
    rewrite sim_S. cbn [next_event earliest]. unfold rstep. cbn. nat_eqb. cbn.
    rewrite Hth, Htm. cbn. nat_eqb. cbn. rewrite Hn. sim_fin. nat_eqb. cbn.
    destruct f as [|f]; [cbn in Hf; lia|].
    rewrite sim_S. cbn [next_event earliest]. unfold rstep. cbn. nat_eqb. cbn. nat_eqb. sim_fin.
    rewrite sim_stopped by reflexivity. unfold timeout_out. cbn. now rewrite Z.add_0_r.
  - destruct fuel as [|f]; [cbn in Hf; lia|]. cbn [length] in Hf. cbn [timeout_spec].
    rewrite sim_S, ext_of_cons. cbn [next_event earliest fst snd].
    destruct (t <=? due) eqn:E.
    + destruct e as [x|e|]; unfold rstep; cbn; rewrite Hsw; cbn.
      * rewrite Hn. cbn. nat_eqb. cbn. nat_eqb. sim_fin.
        rewrite IH.
        -- destruct (timeout_spec ts (t + clamp (tdelay ts t)) rest) as [o sw]. reflexivity.
        -- lia.
        -- repeat split; cbn; try assumption; try reflexivity. eexists; reflexivity.
      * sim_fin. rewrite sim_stopped by reflexivity. reflexivity.
      * sim_fin. rewrite sim_stopped by reflexivity. reflexivity.
    + unfold rstep. cbn. nat_eqb. cbn.
      rewrite Hth, Htm. cbn. nat_eqb. cbn. rewrite Hn. sim_fin. nat_eqb. cbn.
      destruct f as [|f]; [cbn in Hf; lia|].
      rewrite sim_S. cbn [next_event earliest fst snd]. rewrite Z.add_0_r, E.
      unfold rstep. cbn. nat_eqb. cbn. nat_eqb. sim_fin.
      rewrite sim_stopped by reflexivity. reflexivity.
Qed.

Theorem timeout_spec_no_fallback ts t0 (es : list (Z * ev A)) :
  timed_emits t0 (simulate (x_timeout ts false t0) t0 (ext_of es))
  = timeout_out (timeout_spec ts (due_at ts t0) es).
Proof.
  unfold simulate, simulate_fuel, timed_emits.
  cbn [x_start x_timeout apply_cmds finish fst snd app emits flat_map map].
  cbn [upd new_timers flat_map app filter fst r_timers mem existsb Nat.eqb orb].
  apply timeout_sim; [rewrite ext_of_length; lia|].
  repeat split; cbn; try reflexivity. eexists; reflexivity.
Qed.

(* with a fallback (source 1): at the switch instant the fallback is subscribed
   and the source unsubscribed.  Stated for timelines of the main source only:
   [sim_subs] lists the (instant, source) of every subscription made. *)
Definition sim_subs {B} (l : list (Z * inp A * list (obs B))) : list (Z * nat) :=
  flat_map (fun x => flat_map (fun o => match o with OSub k => [(fst (fst x), k)] | _ => [] end) (snd x)) l.
Definition sim_unsubs {B} (l : list (Z * inp A * list (obs B))) : list (Z * nat) :=
  flat_map (fun x => flat_map (fun o => match o with OUnsub k => [(fst (fst x), k)] | _ => [] end) (snd x)) l.

Arguments sim_subs : simpl never.

Lemma sim_subs_cons {B} t i (o : list (obs B)) l :
  sim_subs ((t, i, o) :: l) = flat_map (fun o => match o with OSub k => [(t, k)] | _ => [] end) o ++ sim_subs l.
Proof. reflexivity. Qed.

Lemma sim_subs_stopped {B} (m : machine A B) fuel : forall s r p ext, r_stopped r = true ->
  sim_subs (sim m fuel s r p ext) = [].
Proof.
  induction fuel as [|f IH]; intros s r p ext H; [reflexivity|].
  rewrite sim_S. destruct (next_event p ext) as [[[t i] ext']|]; [|reflexivity].
  rewrite rstep_stopped by exact H. rewrite sim_subs_cons. cbn. now apply IH.
Qed.

(* after the switch nothing of the main source is observed any more (it is unsubscribed) *)
Lemma timeout_switched_sim ts t0 : forall (es : list (Z * ev A)) fuel s,
  sim_emits (sim (x_timeout ts true t0) fuel s (RState [1%nat] [] false) [] (ext_of es)) = []
  /\ sim_subs (sim (x_timeout ts true t0) fuel s (RState [1%nat] [] false) [] (ext_of es)) = [].
Proof.
  induction es as [|[t e] rest IH]; intros fuel s.
  - rewrite ext_of_nil, sim_nil. split; reflexivity.
  - destruct fuel as [|f]; [split; reflexivity|].
    rewrite sim_S, ext_of_cons. cbn [next_event earliest fst snd]. unfold rstep. cbn.
    rewrite sim_emits_cons, sim_subs_cons. cbn. apply IH.
Qed.


Lemma timeout_fallback_sim ts t0 : forall es fuel s tg due, (2 * length es + 2 <= fuel)%nat -> to_inv s tg ->
  sim_emits (sim (x_timeout ts true t0) fuel s (RState [0%nat] [tg] false) [(tg, due)] (ext_of es))
  = fst (timeout_spec ts due es)
  /\ sim_subs (sim (x_timeout ts true t0) fuel s (RState [0%nat] [tg] false) [(tg, due)] (ext_of es))
  = match snd (timeout_spec ts due es) with Some d => [(d, 1%nat)] | None => [] end.
Proof.
  induction es as [|[t e] rest IH]; intros fuel s tg due Hf (Hsw & Hth & Hn & tms & Htm).
  - destruct fuel as [|f]; [cbn in Hf; lia|]. rewrite ext_of_nil.
    rewrite sim_S. cbn [next_event earliest]. unfold rstep. cbn. nat_eqb. cbn.
    rewrite Hth, Htm. cbn. nat_eqb. cbn. rewrite sim_emits_cons, sim_subs_cons. cbn. rewrite sim_nil. split; reflexivity.
  - destruct fuel as [|f]; [cbn in Hf; lia|]. cbn [length] in Hf. cbn [timeout_spec].
    rewrite sim_S, ext_of_cons. cbn [next_event earliest fst snd].
    destruct (t <=? due) eqn:E.
    + destruct e as [x|e|]; unfold rstep; cbn; rewrite Hsw; cbn.
      * rewrite Hn. cbn. nat_eqb. cbn. nat_eqb. rewrite sim_emits_cons, sim_subs_cons. cbn.
        destruct (IH f (ToSt false (S (to_id s)) ((S tg, S (to_id s)) :: to_timers s) (to_throw s) (S (S tg)))
                     (S tg) (t + clamp (tdelay ts t))) as [IH1 IH2].
        -- lia.
        -- repeat split; cbn; try assumption; try reflexivity. eexists; reflexivity.
        -- rewrite IH1, IH2. destruct (timeout_spec ts (t + clamp (tdelay ts t)) rest) as [o sw]. split; reflexivity.
      * rewrite sim_emits_cons, sim_subs_cons. cbn.
        rewrite sim_stopped, sim_subs_stopped by reflexivity. split; reflexivity.
      * rewrite sim_emits_cons, sim_subs_cons. cbn.
        rewrite sim_stopped, sim_subs_stopped by reflexivity. split; reflexivity.
    + unfold rstep. cbn. nat_eqb. cbn.
      rewrite Hth, Htm. cbn. nat_eqb. cbn. rewrite sim_emits_cons, sim_subs_cons. cbn.
      rewrite <- ext_of_cons.
      destruct (timeout_switched_sim ts t0 ((t, e) :: rest) f (ToSt true (to_id s) ((tg, to_id s) :: tms) None (to_ntag s))) as [H1 H2].
      rewrite H1, H2. split; reflexivity.
Qed.

Theorem timeout_spec_fallback ts t0 (es : list (Z * ev A)) :
  sim_emits (snd (simulate (x_timeout ts true t0) t0 (ext_of es))) = fst (timeout_spec ts (due_at ts t0) es)
  /\ sim_subs (snd (simulate (x_timeout ts true t0) t0 (ext_of es)))
     = match snd (timeout_spec ts (due_at ts t0) es) with Some d => [(d, 1%nat)] | None => [] end.
Proof.
  unfold simulate, simulate_fuel.
  cbn [x_start x_timeout apply_cmds finish fst snd app emits flat_map map].
  cbn [upd new_timers flat_map app filter fst r_timers mem existsb Nat.eqb orb].
  apply timeout_fallback_sim; [rewrite ext_of_length; lia|].
  repeat split; cbn; try reflexivity. eexists; reflexivity.
Qed.

(* closed form for a relative due time d >= 0 on a conforming timeline: the
   switch happens at the first instant [last + d] (last = subscription or the
   latest element) that is strictly before the next notification *)
Fixpoint first_gap (d last : Z) (tl : list (Z * A)) (tm : tterm) : option Z :=
  match tl with
  | [] => match tm with
          | TTDone t | TTErr t _ => if t <=? last + d then None else Some (last + d)
          | TTNever => Some (last + d)
          end
  | (t, _) :: rest => if t <=? last + d then first_gap d t rest tm else Some (last + d)
  end.

Lemma timeout_spec_switch d : forall (tl : list (Z * A)) tm last, 0 <= d ->
  snd (timeout_spec (Rel d) (last + d) (tevents tl tm)) = first_gap d last tl tm.
Proof.
  induction tl as [|[t x] rest IH]; intros tm last Hd.
  - destruct tm as [t|t e|]; cbn; try reflexivity; destruct (t <=? last + d); reflexivity.
  - rewrite tevents_cons. cbn [timeout_spec first_gap]. destruct (t <=? last + d) eqn:E; [|reflexivity].
    specialize (IH tm t Hd). cbn [tdelay]. unfold clamp. rewrite Z.max_r by lia.
    destruct (timeout_spec (Rel d) (t + d) (tevents rest tm)) as [o sw]. exact IH.
Qed.
End Timeout.

(* ------------------------------------------------------------------ C16 -- *)
Section Debounce.
Context {A : Type}.

(* [pend] = the pending element with the instant its timer is due.  A
   notification up to and AT the due instant comes first: a newer element
   replaces the pending one, completion flushes it, an error drops it. *)
Fixpoint deb_spec (dd : Z) (pend : option (Z * A)) (es : list (Z * ev A)) : list (Z * ev A) :=
  match es with
  | [] => match pend with Some (due, v) => [(due, Next v)] | None => [] end
  | (t, e) :: rest =>
      let fired := match pend with Some (due, v) => negb (t <=? due) | None => false end in
      (match pend with Some (due, v) => if fired then [(due, Next v)] else [] | None => [] end) ++
      match e with
      | Next x => deb_spec dd (Some (t + dd, x)) rest
      | Done => (match pend with Some (_, v) => if fired then [] else [(t, Next v)] | None => [] end) ++ [(t, Done)]
      | Err c => [(t, Err c)]
      end
  end.

Inductive deb_inv : deb_st -> rstate -> pend -> option (Z * A) -> Prop :=
| DI_none s : db_has s = false -> deb_inv s R0 [] None
| DI_some v id tg tms due :
    deb_inv (DebSt true (Some v) id ((tg, id) :: tms) (S tg)) (RState [0%nat] [tg] false) [(tg, due)] (Some (due, v)).

Lemma deb_sim d : forall es fuel s r p pend, (2 * length es + 1 <= fuel)%nat -> deb_inv s r p pend ->
  sim_emits (sim (x_debounce d) fuel s r p (ext_of es)) = deb_spec (clamp d) pend es.
Proof.
  induction es as [|[t e] rest IH]; intros fuel s r p pend Hf Hinv.
  - destruct fuel as [|f]; [cbn in Hf; lia|]. rewrite ext_of_nil. destruct Hinv as [s Hh|v id tg tms due].
    + reflexivity.
    + rewrite sim_S. cbn [next_event earliest]. unfold rstep. cbn. nat_eqb. cbn. nat_eqb. sim_fin.
      now rewrite sim_nil.
  - assert (StepNone : forall f s, (2 * length rest + 2 <= f)%nat -> db_has s = false ->
              sim_emits (sim (x_debounce d) f s R0 [] ((t, ISrc 0%nat e) :: ext_of rest))
              = match e with
                | Next x => deb_spec (clamp d) (Some (t + clamp d, x)) rest
                | Done => [(t, Done)]
                | Err c => [(t, Err c)]
                end).
    { intros f s0 Hf0 Hh. destruct f as [|f]; [lia|].
      rewrite sim_S. cbn [next_event earliest fst snd]. unfold rstep.
      destruct e as [x|c|]; cbn.
      - destruct (db_ntag s0) as [|n] eqn:En; cbn; nat_eqb; sim_fin; (rewrite IH with (pend := Some (t + clamp d, x)); [reflexivity|lia|constructor]).
      - destruct (db_ntag s0) as [|n] eqn:En; cbn; sim_fin; rewrite sim_stopped by reflexivity; reflexivity.
      - rewrite Hh. destruct (db_ntag s0) as [|n] eqn:En; cbn; sim_fin; rewrite sim_stopped by reflexivity; reflexivity. }
    cbn [length] in Hf. rewrite ext_of_cons. cbn [deb_spec].
    destruct Hinv as [s Hh|v id tg tms due].
    + cbn [app]. rewrite StepNone; [|lia|exact Hh]. destruct e; reflexivity.
    + destruct fuel as [|f]; [lia|].
      rewrite sim_S. cbn [next_event earliest fst snd].
      destruct (t <=? due) eqn:E; cbn [negb app].
      * unfold rstep. destruct e as [x|c|]; cbn; nat_eqb; cbn; nat_eqb; sim_fin.
        -- rewrite IH with (pend := Some (t + clamp d, x)); [reflexivity|lia|constructor].
        -- rewrite sim_stopped by reflexivity. reflexivity.
        -- rewrite sim_stopped by reflexivity. reflexivity.
      * unfold rstep. cbn. nat_eqb. cbn. nat_eqb. sim_fin. f_equal.
        rewrite StepNone; [|lia|reflexivity]. destruct e; reflexivity.
Qed.

Theorem debounce_sim_spec d t0 (es : list (Z * ev A)) :
  timed_emits t0 (simulate (x_debounce d) t0 (ext_of es)) = deb_spec (clamp d) None es.
Proof.
  unfold simulate, simulate_fuel, timed_emits.
  cbn [x_start x_debounce apply_cmds finish fst snd app emits flat_map map].
  change (upd [] t0 [OSub 0%nat] (RState [0%nat] [] false)) with (@nil (nat * Z)).
  apply deb_sim; [rewrite ext_of_length; lia|constructor; reflexivity].
Qed.

(* closed form on a conforming time-sorted timeline, due time dd >= 0: each
   element is decided by the instant of the NEXT notification alone *)
Fixpoint deb_out (dd : Z) (tl : list (Z * A)) (tm : tterm) : list (Z * ev A) :=
  match tl with
  | [] => term_ev tm
  | (t, x) :: rest =>
      match rest with
      | (t', _) :: _ => if t' <=? t + dd then [] else [(t + dd, Next x)]
      | [] =>
          match tm with
          | TTDone T => [(Z.min (t + dd) T, Next x)]           (* its timer, or the flush on completion *)
          | TTErr T _ => if T <=? t + dd then [] else [(t + dd, Next x)]
          | TTNever => [(t + dd, Next x)]
          end
      end ++ deb_out dd rest tm
  end.

Lemma deb_spec_closed dd : forall (tl : list (Z * A)) tm t x,
  deb_spec dd (Some (t + dd, x)) (tevents tl tm) = deb_out dd ((t, x) :: tl) tm.
Proof.
  induction tl as [|[t' x'] rest IH]; intros tm t x.
  - destruct tm as [T|T c|]; cbn [tevents map app deb_spec deb_out term_ev].
    + destruct (T <=? t + dd) eqn:E; cbn [negb app].
      * rewrite Z.min_r by lia. reflexivity.
      * rewrite Z.min_l by lia. reflexivity.
    + destruct (T <=? t + dd) eqn:E; reflexivity.
    + reflexivity.
  - rewrite tevents_cons. cbn [deb_spec]. rewrite IH. cbn [deb_out].
    destruct (t' <=? t + dd); reflexivity.
Qed.

Theorem debounce_spec d t0 (tl : list (Z * A)) tm :
  timed_emits t0 (simulate (x_debounce d) t0 (ext_of (tevents tl tm))) = deb_out (clamp d) tl tm.
Proof.
  rewrite debounce_sim_spec. destruct tl as [|[t x] rest].
  - destruct tm; reflexivity.
  - rewrite tevents_cons. cbn [deb_spec app]. apply deb_spec_closed.
Qed.
End Debounce.
