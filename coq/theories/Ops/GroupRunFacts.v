(* C19: group_by -- run-level closed form ("dict of lists by key") for total key
   and element functions, every finite source and every termination, every
   group subscribed when it is handed:
     groups are handed in the order in which their keys first occur;
     group j (key k_j) receives exactly the mapped elements whose key is k_j,
     in arrival order, then the source's terminal. *)
From RxVerif Require Import Base.Prelude Ops.Machine Ops.MultiWin Ops.MultiWinFacts Ops.Windows
  Ops.WindowCountFacts Ops.Groups Ops.GroupFacts.

Local Arguments Z.of_nat : simpl never.

Section GroupRun.
Context {A W B : Type}.
Variables (kf : A -> Z) (ef : A -> W).
Notation M := (x_group_by (B:=B) (fun x => Ok (kf x)) (fun x => Ok (ef x))).

(* keys in first-occurrence order, not counting those already seen *)
Fixpoint new_keys (seen : list Z) (ys : list A) : list Z :=
  match ys with
  | [] => []
  | y :: t => if existsb (Z.eqb (kf y)) seen then new_keys seen t
              else kf y :: new_keys (seen ++ [kf y]) t
  end.
Definition distinct_keys (xs : list A) : list Z := new_keys [] xs.

(* writers table: group g (= its position) <-> key *)
Definition gb_aligned (ws : list (Z * nat * nat)) (n : nat) : Prop :=
  gb_groups ws = seq 0 n /\ NoDup (gb_keys ws).

Lemma gb_aligned_len ws n : gb_aligned ws n -> length ws = n.
Proof. intros [H _]. unfold gb_groups in H. apply (f_equal (@length nat)) in H. now rewrite map_length, seq_length in H. Qed.

Lemma gb_lookup_nth ws : forall n0 k g, gb_groups ws = seq n0 (length ws) -> NoDup (gb_keys ws) ->
  (gb_lookup k ws = Some g <-> (n0 <= g)%nat /\ nth_error (gb_keys ws) (g - n0) = Some k).
Proof.
  induction ws as [|[[j g0] c] t IH]; intros n0 k g Hg Hnd.
  - cbn. split; [discriminate|]. intros [_ H]. destruct (g - n0)%nat; discriminate.
  - cbn [gb_groups map fst snd length seq] in Hg. injection Hg as -> Hg. fold (gb_groups t) in Hg.
    cbn [gb_keys map fst] in Hnd. inversion Hnd as [|? ? Hj Ht]; subst. fold (gb_keys t) in *.
    cbn [gb_lookup gb_keys map fst]. fold (gb_keys t).
    destruct (Z.eqb_spec j k) as [->|Hne].
    + split.
      * intros [= <-]. split; [lia|]. rewrite Nat.sub_diag. reflexivity.
      * intros [Hle Hn]. destruct (g - n0)%nat as [|d] eqn:Ed.
        -- f_equal. lia.
        -- cbn in Hn. apply nth_error_In in Hn. contradiction.
    + rewrite (IH (S n0) k g Hg Ht). split.
      * intros [Hle Hn]. split; [lia|]. replace (g - n0)%nat with (S (g - S n0)) by lia. exact Hn.
      * intros [Hle Hn]. destruct (g - n0)%nat as [|d] eqn:Ed.
        -- cbn in Hn. congruence.
        -- cbn in Hn. split; [lia|]. replace (g - S n0)%nat with d by lia. exact Hn.
Qed.

Lemma gb_lookup_aligned ws n k g : gb_aligned ws n ->
  (gb_lookup k ws = Some g <-> nth_error (gb_keys ws) g = Some k).
Proof.
  intros Ha. pose proof (gb_aligned_len ws n Ha) as Hl. destruct Ha as [Hg Hnd].
  rewrite (gb_lookup_nth ws 0 k g); [|rewrite Hl; exact Hg|exact Hnd].
  rewrite Nat.sub_0_r. split; [intros [_ H]; exact H|intros H; split; [lia|exact H]].
Qed.

Lemma gb_lookup_none_existsb k ws : gb_lookup k ws = None <-> existsb (Z.eqb k) (gb_keys ws) = false.
Proof.
  split.
  - intros H0. pose proof (proj1 (gb_lookup_none k ws) H0) as H.
    destruct (existsb (Z.eqb k) (gb_keys ws)) eqn:E; [|reflexivity].
    apply existsb_exists in E. destruct E as [y [Hy He]]. apply Z.eqb_eq in He. subst. contradiction.
  - intros H. apply (proj2 (gb_lookup_none k ws)). intros Hin.
    assert (E : existsb (Z.eqb k) (gb_keys ws) = true).
    { apply existsb_exists. exists k. split; [exact Hin|apply Z.eqb_refl]. }
    congruence.
Qed.

Lemma gb_aligned_snoc ws n k : gb_aligned ws n -> gb_lookup k ws = None -> gb_aligned (ws ++ [(k, n, 0%nat)]) (S n).
Proof.
  intros [Hg Hnd] Hl. split.
  - unfold gb_groups in *. rewrite map_app, Hg, seq_S. reflexivity.
  - unfold gb_keys in *. rewrite map_app. cbn [map fst]. apply NoDup_app_snoc; [exact Hnd|].
    apply gb_lookup_none. exact Hl.
Qed.

(* ---- the pure specification and its closed form ---- *)
Fixpoint gb_events (ws : list (Z * nat * nat)) (n j : nat) (ys : list A) (tm : term) : list (ev W) :=
  match ys with
  | [] => if (j <? n)%nat then term_ev tm else []
  | y :: t =>
      match gb_lookup (kf y) ws with
      | Some g => (if Nat.eqb j g then [Next (ef y)] else []) ++ gb_events ws n j t tm
      | None => (if Nat.eqb j n then [Next (ef y)] else []) ++ gb_events (ws ++ [(kf y, n, 0%nat)]) (S n) j t tm
      end
  end.

Lemma new_keys_nodup ys : forall seen, NoDup seen -> NoDup (seen ++ new_keys seen ys).
Proof.
  induction ys as [|y t IH]; intros seen Hs; cbn [new_keys]; [now rewrite app_nil_r|].
  destruct (existsb (Z.eqb (kf y)) seen) eqn:E; [apply IH; exact Hs|].
  replace (seen ++ kf y :: new_keys (seen ++ [kf y]) t) with ((seen ++ [kf y]) ++ new_keys (seen ++ [kf y]) t)
    by (rewrite <- app_assoc; reflexivity).
  apply IH. apply NoDup_app_snoc; [exact Hs|].
  intros Hin. assert (E2 : existsb (Z.eqb (kf y)) seen = true).
  { apply existsb_exists. exists (kf y). split; [exact Hin|apply Z.eqb_refl]. }
  congruence.
Qed.

Lemma gb_events_closed tm (ys : list A) : forall ws n j, gb_aligned ws n ->
  gb_events ws n j ys tm
  = match nth_error (gb_keys ws ++ new_keys (gb_keys ws) ys) j with
    | Some k => map Next (map ef (filter (fun y => kf y =? k) ys)) ++ term_ev tm
    | None => []
    end.
Proof.
  induction ys as [|y t IH]; intros ws n j Ha.
  - cbn [gb_events new_keys filter map app]. rewrite app_nil_r.
    pose proof (gb_aligned_len ws n Ha) as Hl.
    destruct (Nat.ltb_spec j n).
    + destruct (nth_error (gb_keys ws) j) eqn:E; [reflexivity|].
      apply nth_error_None in E. unfold gb_keys in E. rewrite map_length in E. lia.
    + destruct (nth_error (gb_keys ws) j) eqn:E; [|reflexivity].
      assert (j < length (gb_keys ws))%nat by (apply nth_error_Some; congruence).
      unfold gb_keys in *. rewrite map_length in *. lia.
  - cbn [gb_events new_keys].
    pose proof (new_keys_nodup (y :: t) (gb_keys ws) (proj2 Ha)) as Hnd. cbn [new_keys] in Hnd.
    destruct (gb_lookup (kf y) ws) as [g|] eqn:El.
    + (* existing group *)
      assert (Ex : existsb (Z.eqb (kf y)) (gb_keys ws) = true).
      { destruct (existsb (Z.eqb (kf y)) (gb_keys ws)) eqn:E; [reflexivity|].
        apply gb_lookup_none_existsb in E. congruence. }
      rewrite Ex in *. rewrite (IH ws n j Ha).
      apply (gb_lookup_aligned ws n (kf y) g Ha) in El.
      destruct (nth_error (gb_keys ws ++ new_keys (gb_keys ws) t) j) as [kj|] eqn:Ej.
      * cbn [filter]. destruct (Z.eqb_spec (kf y) kj) as [Hk|Hk].
        -- (* same key: j = g *)
           assert (j = g).
           { apply (proj1 (NoDup_nth_error _) Hnd).
             - apply nth_error_Some. congruence.
             - rewrite Ej, nth_error_app1 by (apply nth_error_Some; congruence). rewrite El, Hk. reflexivity. }
           subst j. rewrite Nat.eqb_refl. reflexivity.
        -- destruct (Nat.eqb_spec j g) as [->|Hne]; [|reflexivity].
           rewrite nth_error_app1 in Ej by (apply nth_error_Some; congruence). congruence.
      * destruct (Nat.eqb_spec j g) as [->|Hne]; [|reflexivity].
        rewrite nth_error_app1 in Ej by (apply nth_error_Some; congruence). congruence.
    + (* new group n *)
      assert (Ex : existsb (Z.eqb (kf y)) (gb_keys ws) = false) by (apply gb_lookup_none_existsb; exact El).
      rewrite Ex in *.
      pose proof (gb_aligned_snoc ws n (kf y) Ha El) as Ha'.
      rewrite (IH _ _ j Ha').
      assert (Ek : gb_keys (ws ++ [(kf y, n, 0%nat)]) = gb_keys ws ++ [kf y])
        by (unfold gb_keys; rewrite map_app; reflexivity).
      rewrite Ek, <- app_assoc. cbn [app].
      pose proof (gb_aligned_len ws n Ha) as Hl.
      assert (Hn : nth_error (gb_keys ws ++ kf y :: new_keys (gb_keys ws ++ [kf y]) t) n = Some (kf y)).
      { rewrite nth_error_app2 by (unfold gb_keys; rewrite map_length; lia).
        unfold gb_keys. rewrite map_length, Hl, Nat.sub_diag. reflexivity. }
      destruct (nth_error (gb_keys ws ++ kf y :: new_keys (gb_keys ws ++ [kf y]) t) j) as [kj|] eqn:Ej.
      * cbn [filter]. destruct (Z.eqb_spec (kf y) kj) as [Hk|Hk].
        -- assert (j = n).
           { apply (proj1 (NoDup_nth_error _) Hnd).
             - apply nth_error_Some. congruence.
             - rewrite Ej, Hn, Hk. reflexivity. }
           subst j. rewrite Nat.eqb_refl. reflexivity.
        -- destruct (Nat.eqb_spec j n) as [->|Hne]; [congruence|reflexivity].
      * destruct (Nat.eqb_spec j n) as [->|Hne]; [congruence|reflexivity].
Qed.

(* ---- refinement: the runner's trace on a conforming source ---- *)
Definition gb_rstate (n : nat) : rstate W := RState [0%nat] [] true (seq 0 n) [] (seq 0 n) false.

Ltac rs := cbn [r_live r_timers r_outer r_wsubs r_wterm r_handed r_released fst snd app apply_cmds apply_cmd
                finish is_terminal all_imm negb andb repeat wterm_of].

Lemma gb_step ws n (y : A) now : gb_aligned ws n ->
  rstep all_imm M (GbSt ws n n) (gb_rstate n) now (ISrc 0%nat (Next y))
  = match gb_lookup (kf y) ws with
    | Some g => (GbSt ws n n, gb_rstate n, [OWin g (Next (ef y))])
    | None => (GbSt (ws ++ [(kf y, n, 0%nat)]) (S n) (S n), gb_rstate (S n), [OHand n (kf y); OWin n (Next (ef y))])
    end.
Proof.
  intros Ha. unfold rstep, gb_rstate. cbn [r_live]. change (mem 0%nat [0%nat]) with true. cbn iota.
  unfold deliver. cbn [x_step x_group_by x_group_by_until]. unfold gb_on_next. cbn [gb_writers gb_next gb_calls].
  destruct (gb_lookup (kf y) ws) as [g|] eqn:El.
  - assert (Hg : (g < n)%nat).
    { apply (gb_lookup_aligned ws n (kf y) g Ha) in El.
      assert (g < length (gb_keys ws))%nat by (apply nth_error_Some; congruence).
      unfold gb_keys in *. rewrite map_length, (gb_aligned_len ws n Ha) in *. lia. }
    rs. rewrite count_of_seq. destruct (Nat.leb_spec 0 g), (Nat.ltb_spec g (0 + n)); try lia. rs. reflexivity.
  - rs. unfold sub_win. rs.
    assert (Em : mem n (seq 0 n ++ [n]) = true).
    { change [n] with (seq (0 + n) 1). rewrite <- seq_app, mem_seq.
      destruct (Nat.leb_spec 0 n), (Nat.ltb_spec n (0 + (n + 1))); try lia; reflexivity. }
    rewrite Em. rs.
    assert (Ec : count_of n (seq 0 n ++ [n]) = 1%nat).
    { change [n] with (seq (0 + n) 1). rewrite <- seq_app, count_of_seq.
      destruct (Nat.leb_spec 0 n), (Nat.ltb_spec n (0 + (n + 1))); try lia; reflexivity. }
    rewrite Ec. rs. rewrite <- seq_S. reflexivity.
Qed.

Lemma gb_term_step ws n (e : ev A) now j : gb_aligned ws n -> is_terminal e = true ->
  wobs j (snd (rstep all_imm M (GbSt ws n n) (gb_rstate n) now (ISrc 0%nat e)))
  = if (j <? n)%nat then [match e with Err z => Err z | _ => Done end] else [].
Proof.
  intros Ha He. unfold rstep, gb_rstate. cbn [r_live]. change (mem 0%nat [0%nat]) with true. cbn iota.
  unfold deliver.
  set (e' := match e with Err z => @Err W z | _ => Done end).
  assert (He' : is_terminal e' = true) by (destruct e; [discriminate| |]; reflexivity).
  assert (Ex : exists f, x_step M (GbSt ws n n) now (ISrc 0%nat e) = (GbSt ws n n, gb_all ws e', f)).
  { destruct e; [discriminate| |]; cbn [x_step x_group_by x_group_by_until]; eauto. }
  destruct Ex as [f Ex]. rewrite Ex. unfold gb_all. rewrite (proj1 Ha).
  match goal with |- context [apply_cmds all_imm ?r0 (map ?ff ?q)] =>
    destruct (apply_cmds_wins_term (B:=B) all_imm j e' q He' (seq_NoDup _ _) r0 eq_refl) as [H1 H2] end.
  { intros g Hg. apply in_seq in Hg. cbn [r_wterm r_wsubs wterm_of]. rewrite count_of_seq.
    destruct (Nat.leb_spec 0 g), (Nat.ltb_spec g (0 + n)); try lia. auto. }
  match goal with |- context [apply_cmds all_imm ?r0 ?cs] => destruct (apply_cmds all_imm r0 cs) as [r1 o1] end.
  cbn [fst snd] in *.
  pose proof (wobs_finish (B:=B) j r1 f) as Hf. destruct (finish r1 f) as [r2 o2]. cbn [snd] in Hf.
  rewrite mem_seq in H1.
  destruct (is_terminal e && mem 0%nat (r_live r2)); cbn [fst snd]; rewrite !wobs_app, H1, Hf;
    cbn [wobs flat_map app]; rewrite ?app_nil_r;
    destruct (Nat.leb_spec 0 j), (Nat.ltb_spec j (0 + n)), (Nat.ltb_spec j n); try lia; reflexivity.
Qed.

Lemma gb_run_from tm j (ys : list A) : forall ws n pos, gb_aligned ws n ->
  wevents j (fst (run_from all_imm M (GbSt ws n n) (gb_rstate n) pos (src_events ys tm))) = gb_events ws n j ys tm.
Proof.
  induction ys as [|y t IH]; intros ws n pos Ha.
  - unfold src_events. cbn [map app gb_events]. destruct tm as [|z|]; cbn [term_ev map].
    + rewrite run_from_cons. cbn [run_from fst]. rewrite app_nil_r, wevents_tag.
      apply (gb_term_step ws n Done 0 j Ha eq_refl).
    + rewrite run_from_cons. cbn [run_from fst]. rewrite app_nil_r, wevents_tag.
      apply (gb_term_step ws n (Err z) 0 j Ha eq_refl).
    + cbn [run_from fst wevents flat_map]. destruct (j <? n)%nat; reflexivity.
  - unfold src_events. cbn [map app]. fold (src_events t tm). rewrite run_from_cons, (gb_step ws n y 0 Ha).
    cbn [gb_events]. destruct (gb_lookup (kf y) ws) as [g|] eqn:El; cbn [fst snd].
    + rewrite wevents_app, wevents_tag, (IH ws n _ Ha). cbn [wobs flat_map app]. rewrite app_nil_r. reflexivity.
    + rewrite wevents_app, wevents_tag, (IH _ _ _ (gb_aligned_snoc ws n (kf y) Ha El)).
      cbn [wobs flat_map app]. rewrite app_nil_r. reflexivity.
Qed.

(* THEOREM (C19, group_by as a dict of lists): group j is the group of the j-th distinct key (first
   occurrence order); it receives exactly the mapped elements with that key, in arrival order, and
   then the source's terminal *)
Theorem group_by_closed_form (xs : list A) (tm : term) (j : nat) :
  wevents j (fst (run all_imm M (src_events xs tm)))
  = match nth_error (distinct_keys xs) j with
    | Some k => map Next (map ef (filter (fun y => kf y =? k) xs)) ++ term_ev tm
    | None => []
    end.
Proof.
  rewrite run_unfold. cbn [fst]. rewrite wevents_app.
  assert (Es : start_state all_imm M = (GbSt [] 0 0, gb_rstate 0)) by reflexivity.
  assert (Eo : start_obs all_imm M = [OSub 0%nat]) by reflexivity.
  rewrite Es, Eo. cbn [fst snd].
  assert (Ha : gb_aligned [] 0) by (split; [reflexivity|constructor]).
  rewrite (gb_run_from tm j xs [] 0%nat 1%nat Ha), (gb_events_closed tm xs [] 0%nat j Ha). reflexivity.
Qed.

(* the groups are handed in first-occurrence order of their keys, numbered 0, 1, 2, ... *)
Lemma gb_term_hands ws n (e : ev A) now : is_terminal e = true ->
  hobs (snd (rstep all_imm M (GbSt ws n n) (gb_rstate n) now (ISrc 0%nat e))) = [].
Proof.
  intros He. unfold rstep, gb_rstate. cbn [r_live]. change (mem 0%nat [0%nat]) with true. cbn iota.
  unfold deliver.
  assert (Ex : exists f e', x_step M (GbSt ws n n) now (ISrc 0%nat e) = (GbSt ws n n, gb_all ws e', f)).
  { destruct e; [discriminate| |]; cbn [x_step x_group_by x_group_by_until]; eauto. }
  destruct Ex as [f [e' Ex]]. rewrite Ex. unfold gb_all.
  match goal with |- context [apply_cmds all_imm ?r0 (map ?ff ?q)] =>
    pose proof (hobs_wins (B:=B) all_imm e' q r0) as H1; destruct (apply_cmds all_imm r0 (map ff q)) as [r1 o1] end.
  cbn [fst snd] in *.
  pose proof (hobs_finish (B:=B) r1 f) as Hf. destruct (finish r1 f) as [r2 o2]. cbn [snd] in Hf.
  destruct (is_terminal e && mem 0%nat (r_live r2)); cbn [fst snd]; rewrite !hobs_app, H1, Hf; reflexivity.
Qed.

Lemma gb_hands_from tm (ys : list A) : forall ws n pos, gb_aligned ws n ->
  hands (fst (run_from all_imm M (GbSt ws n n) (gb_rstate n) pos (src_events ys tm)))
  = combine (seq n (length (new_keys (gb_keys ws) ys))) (new_keys (gb_keys ws) ys).
Proof.
  induction ys as [|y t IH]; intros ws n pos Ha.
  - unfold src_events. cbn [map app new_keys length seq combine].
    destruct tm as [|z|]; cbn [term_ev map]; [| |reflexivity];
      rewrite run_from_cons; cbn [run_from fst]; rewrite app_nil_r, hands_tag, gb_term_hands; reflexivity.
  - unfold src_events. cbn [map app]. fold (src_events t tm). rewrite run_from_cons, (gb_step ws n y 0 Ha).
    cbn [new_keys]. destruct (gb_lookup (kf y) ws) as [g|] eqn:El; cbn [fst snd].
    + assert (Ex : existsb (Z.eqb (kf y)) (gb_keys ws) = true).
      { destruct (existsb (Z.eqb (kf y)) (gb_keys ws)) eqn:E; [reflexivity|].
        apply gb_lookup_none_existsb in E. congruence. }
      rewrite Ex, hands_app, hands_tag, (IH ws n _ Ha). reflexivity.
    + assert (Ex : existsb (Z.eqb (kf y)) (gb_keys ws) = false) by (apply gb_lookup_none_existsb; exact El).
      rewrite Ex, hands_app, hands_tag, (IH _ _ _ (gb_aligned_snoc ws n (kf y) Ha El)).
      assert (Ek : gb_keys (ws ++ [(kf y, n, 0%nat)]) = gb_keys ws ++ [kf y])
        by (unfold gb_keys; rewrite map_app; reflexivity).
      rewrite Ek. reflexivity.
Qed.

Theorem group_by_hands (xs : list A) (tm : term) :
  hands (fst (run all_imm M (src_events xs tm)))
  = combine (seq 0 (length (distinct_keys xs))) (distinct_keys xs).
Proof.
  rewrite run_unfold. cbn [fst]. rewrite hands_app.
  assert (Es : start_state all_imm M = (GbSt [] 0 0, gb_rstate 0)) by reflexivity.
  assert (Eo : start_obs all_imm M = [OSub 0%nat]) by reflexivity.
  rewrite Es, Eo. cbn [fst snd].
  assert (Ha : gb_aligned [] 0) by (split; [reflexivity|constructor]).
  rewrite (gb_hands_from tm xs [] 0%nat 1%nat Ha). reflexivity.
Qed.
End GroupRun.
