(* C10: one source at a time for every sequential operator (generic runner
   invariant), exact subscription count of repeat(n), closed forms of while_do /
   do_while in the sequential environment. *)
From RxVerif Require Import Base.Prelude Ops.Machine Ops.MachineFacts Ops.Multi Ops.MultiFacts
  Ops.RunLemmas Ops.Combinators Ops.SequentialFacts Ops.RepeatFacts.

Local Arguments Nat.ltb : simpl never.
Local Arguments Nat.leb : simpl never.

(* ---- at most one source subscribed after every input ---------------------- *)
Section OneAtATime.
Context {A B : Type} (m : machine A B).

(* what a handler of a sequential operator answers: nothing, one element, or --
   only in the handler of a source's terminal notification -- ONE subscription *)
Definition seq_cmds (i : inp A) (cs : list (cmd B)) : Prop :=
  cs = [] \/ (exists b, cs = [CEmit b]) \/
  (exists k e j, i = ISrc k e /\ is_terminal e = true /\ cs = [CSub j]).

Definition sequential : Prop :=
  (forall s now i, seq_cmds i (snd (fst (x_step m s now i)))) /\
  (snd (fst (x_start m)) = [] \/ exists j, snd (fst (x_start m)) = [CSub j]).

Lemma remove_length k l : (length (remove k l) <= length l)%nat.
Proof.
  induction l as [|j t IH]; [cbn; lia|]. cbn [remove]. destruct (Nat.eqb k j); cbn [length]; lia.
Qed.

Lemma finish_live (r : rstate) f : (length (r_live (fst (@finish B r f))) <= length (r_live r))%nat.
Proof. destruct f; cbn; lia. Qed.

Lemma seq_step (Hseq : sequential) s r now i :
  (length (r_live r) <= 1)%nat ->
  (length (r_live (snd (fst (rstep m s r now i)))) <= 1)%nat.
Proof.
  intros Hl. destruct Hseq as [Hstep _]. specialize (Hstep s now i).
  unfold rstep. destruct (r_stopped r) eqn:Hst; [exact Hl|].
  destruct i as [k e|tag|].
  - destruct (mem k (r_live r)) eqn:Hm; [|exact Hl].
    destruct (x_step m s now (ISrc k e)) as [[s' cs] f]. cbn [fst snd] in Hstep.
    destruct Hstep as [->|[[b ->]|(k0 & e0 & j & Heq & Ht & ->)]].
    + cbn [apply_cmds]. rewrite Hm.
      destruct (is_terminal e); cbn [andb].
      * pose proof (finish_live (RState (remove k (r_live r)) (r_timers r) (r_stopped r)) f) as F.
        destruct (finish _ f) as [r3 o3]. cbn [fst snd r_live] in *.
        pose proof (remove_length k (r_live r)). lia.
      * pose proof (finish_live r f) as F. destruct (finish r f) as [r3 o3]. cbn [fst snd] in *. lia.
    + cbn [apply_cmds]. rewrite Hm.
      destruct (is_terminal e); cbn [andb].
      * pose proof (finish_live (RState (remove k (r_live r)) (r_timers r) (r_stopped r)) f) as F.
        destruct (finish _ f) as [r3 o3]. cbn [fst snd r_live] in *.
        pose proof (remove_length k (r_live r)). lia.
      * pose proof (finish_live r f) as F. destruct (finish r f) as [r3 o3]. cbn [fst snd] in *. lia.
    + injection Heq as <- <-. cbn [apply_cmds r_live]. rewrite Ht. cbn [andb].
      (* the live list is [k]: k is subscribed and at most one source is *)
      destruct (r_live r) as [|k1 [|k2 t]] eqn:Hlv; [discriminate Hm| |cbn in Hl; lia].
      unfold mem in Hm. cbn [existsb] in Hm. rewrite Bool.orb_false_r in Hm.
      apply Nat.eqb_eq in Hm. subst k1.
      cbn [app mem existsb remove]. rewrite Nat.eqb_refl. cbn [orb r_live r_timers r_stopped].
      pose proof (finish_live (RState [j] (r_timers r) (r_stopped r)) f) as F.
      destruct (finish _ f) as [r3 o3]. cbn [fst snd r_live length] in *. lia.
  - destruct (mem tag (r_timers r)); [|exact Hl].
    destruct (x_step m s now (ITick tag)) as [[s' cs] f]. cbn [fst snd] in Hstep.
    destruct Hstep as [->|[[b ->]|(k0 & e0 & j & Heq & _)]]; [| |discriminate Heq];
      cbn [apply_cmds];
      match goal with |- context [finish ?r0 f] =>
        pose proof (finish_live r0 f) as F; destruct (finish r0 f) as [r3 o3] end;
      cbn [fst snd r_live] in *; lia.
  - destruct (x_step m s now IDispose) as [[s' cs] f].
    destruct (apply_cmds r cs) as [r1 o1]. unfold release. cbn [fst snd r_live length]. lia.
Qed.

(* at every moment between two inputs of every run at most one source is subscribed *)
Theorem sequential_one_at_a_time (Hseq : sequential) (ins : list (Z * inp A)) :
  (length (r_live (snd (run m ins))) <= 1)%nat.
Proof.
  rewrite run_final.
  apply (run_from_invariant m (fun _ r _ => (length (r_live r) <= 1)%nat)
           (fun s r acc now i H => seq_step Hseq s r now i H) ins _ _ 1 []).
  destruct Hseq as [_ H0]. unfold start_state.
  destruct (x_start m) as [[s0 cs] f]. cbn [fst snd] in *.
  destruct H0 as [->|[j ->]]; cbn [apply_cmds fst];
    match goal with |- context [finish ?r0 f] => pose proof (finish_live r0 f) as F end;
    cbn [r_live app length] in F; cbn [r_live app]; lia.
Qed.
End OneAtATime.

Section Instances.
Context {A : Type}.

Ltac seq_tac :=
  match goal with
  | |- seq_cmds _ [] => left; reflexivity
  | |- seq_cmds _ [CEmit ?x] => right; left; exists x; reflexivity
  | |- seq_cmds (ISrc ?k ?e) [CSub ?j] => right; right; exists k, e, j; repeat split; reflexivity
  end.

Lemma catch_sequential n : sequential (x_catch (A:=A) n).
Proof.
  split.
  - intros [cur last] now [k [x|e|]|tag|]; cbn; try seq_tac.
    destruct (Nat.ltb (S cur) n); cbn; seq_tac.
  - destruct n; cbn; [left; reflexivity|right; eexists; reflexivity].
Qed.

Lemma oern_sequential n : sequential (x_oern (A:=A) n).
Proof.
  split.
  - intros cur now [k [x|e|]|tag|]; cbn; try seq_tac;
      destruct (Nat.ltb (S cur) n); cbn; seq_tac.
  - destruct n; cbn; [left; reflexivity|right; eexists; reflexivity].
Qed.

Lemma retry_sequential c : sequential (x_retry (A:=A) c).
Proof.
  split.
  - intros used now [k [x|e|]|tag|]; cbn; try seq_tac.
    destruct (match c with None => true | Some c0 => Nat.ltb used c0 end); cbn; seq_tac.
  - destruct c as [[|c]|]; cbn; [left; reflexivity|right; eexists; reflexivity|right; eexists; reflexivity].
Qed.

Lemma repeat_sequential c : sequential (x_repeat (A:=A) c).
Proof.
  split.
  - intros used now [k [x|e|]|tag|]; cbn; try seq_tac.
    destruct (match c with None => true | Some c0 => Nat.ltb used c0 end); cbn; seq_tac.
  - destruct c as [[|c]|]; cbn; [left; reflexivity|right; eexists; reflexivity|right; eexists; reflexivity].
Qed.

Lemma while_do_sequential cond : sequential (x_while_do (A:=A) cond).
Proof.
  split.
  - intros j now [k [x|e|]|tag|]; cbn; try seq_tac.
    destruct (cond j) as [[|]|e]; cbn; seq_tac.
  - cbn. destruct (cond 0%nat) as [[|]|e]; cbn;
      [right; eexists; reflexivity|left; reflexivity|left; reflexivity].
Qed.

Lemma do_while_sequential cond : sequential (x_do_while (A:=A) cond).
Proof.
  split.
  - intros j now [k [x|e|]|tag|]; cbn; try seq_tac.
    destruct (cond j) as [[|]|e]; cbn; seq_tac.
  - cbn. right; eexists; reflexivity.
Qed.

Lemma catch_handler_sequential h : sequential (x_catch_handler (A:=A) h).
Proof.
  split.
  - intros sw now [k [x|e|]|tag|]; cbn; try seq_tac.
    destruct sw; cbn; [seq_tac|]. destruct (h e) as [u|e']; cbn; seq_tac.
  - cbn. right; eexists; reflexivity.
Qed.

Lemma concat_sequential n : sequential (x_concat (A:=A) n).
Proof.
  split.
  - intros cur now [k [x|e|]|tag|]; cbn; try seq_tac.
    destruct (Nat.ltb (S cur) n); cbn; seq_tac.
  - destruct n; cbn; [left; reflexivity|right; eexists; reflexivity].
Qed.

Theorem all_one_source_at_a_time :
  (forall n (ins : list (Z * inp A)), (length (r_live (snd (run (x_catch n) ins))) <= 1)%nat) /\
  (forall n (ins : list (Z * inp A)), (length (r_live (snd (run (x_oern n) ins))) <= 1)%nat) /\
  (forall c (ins : list (Z * inp A)), (length (r_live (snd (run (x_retry c) ins))) <= 1)%nat) /\
  (forall c (ins : list (Z * inp A)), (length (r_live (snd (run (x_repeat c) ins))) <= 1)%nat) /\
  (forall cond (ins : list (Z * inp A)), (length (r_live (snd (run (x_while_do cond) ins))) <= 1)%nat) /\
  (forall cond (ins : list (Z * inp A)), (length (r_live (snd (run (x_do_while cond) ins))) <= 1)%nat) /\
  (forall h (ins : list (Z * inp A)), (length (r_live (snd (run (x_catch_handler h) ins))) <= 1)%nat).
Proof.
  repeat split; intros.
  - apply sequential_one_at_a_time, catch_sequential.
  - apply sequential_one_at_a_time, oern_sequential.
  - apply sequential_one_at_a_time, retry_sequential.
  - apply sequential_one_at_a_time, repeat_sequential.
  - apply sequential_one_at_a_time, while_do_sequential.
  - apply sequential_one_at_a_time, do_while_sequential.
  - apply sequential_one_at_a_time, catch_handler_sequential.
Qed.
End Instances.

(* ---- repeat(n): the exact number of subscriptions over completing runs ------ *)
Definition csubs {B} (tr : list (nat * obs B)) : nat := count_subs (map snd tr).
Arguments csubs : simpl never.

Lemma csubs_app {B} (a b : list (nat * obs B)) : csubs (a ++ b) = (csubs a + csubs b)%nat.
Proof. unfold csubs. now rewrite map_app, count_subs_app. Qed.

Lemma csubs_nexts {A} (ys : list A) k :
  csubs (map (fun p => (fst p, OEmit (Next (snd p)))) (combine (seq k (length ys)) ys)) = 0%nat.
Proof.
  revert k. unfold csubs, count_subs. induction ys as [|y r IH]; intros k; [reflexivity|]. cbn. apply IH.
Qed.

Lemma csubs_cons_sub {B} k j (tr : list (nat * obs B)) : csubs ((k, OSub j) :: tr) = S (csubs tr).
Proof. reflexivity. Qed.
Lemma csubs_cons_unsub {B} k j (tr : list (nat * obs B)) : csubs ((k, OUnsub j) :: tr) = csubs tr.
Proof. reflexivity. Qed.
Lemma csubs_cons_emit {B} k e (tr : list (nat * obs B)) : csubs ((k, OEmit e) :: tr) = csubs tr.
Proof. reflexivity. Qed.

Section RepeatCount.
Context {A : Type}.

Definition completing (runs : list (list A)) : list (list A * term) := map (fun xs => (xs, TDone)) runs.

Lemma repeat_count_from n (runs : list (list A)) : forall (used k : nat),
  csubs (fst (run_from (x_repeat (Some n)) used (RState [0%nat] [] false) k (runs_env (completing runs))))
  = Nat.min (n - used) (length runs).
Proof.
  induction runs as [|xs rest IH]; intros used k; [cbn [length]; rewrite Nat.min_0_r; reflexivity|].
  unfold runs_env, completing. cbn [map flat_map]. fold (completing rest). fold (runs_env (completing rest)).
  rewrite run_from_app. cbn [fst]. unfold block, events. cbn [fst snd]. rewrite map_app.
  destruct (repeat_elems (Some n) used xs k) as [G1 G2].
  rewrite after_app, G2. cbn [fst snd].
  rewrite run_from_app, G1, G2. cbn [fst snd].
  rewrite !csubs_app, csubs_nexts.
  rewrite app_length, !map_length.
  cbn [map run_from after]. unfold rstep. rs.
  destruct (Nat.ltb_spec used n) as [Hlt|Hge]; rs.
  - rewrite csubs_cons_sub, csubs_cons_unsub, IH. cbn [length]. change (csubs (@nil (nat * obs A))) with 0%nat. lia.
  - rewrite run_from_stopped by reflexivity. cbn [length fst].
    rewrite csubs_cons_unsub, csubs_cons_emit. change (csubs (@nil (nat * obs A))) with 0%nat. lia.
Qed.

(* repeat(n) over runs that all complete: one subscription at subscribe(), one more at
   each completion while the count allows -- min n (1 + number of completed runs) *)
Theorem repeat_subscription_count (n : nat) (runs : list (list A)) :
  count_subs (map snd (fst (run (x_repeat (Some n)) (runs_env (completing runs)))))
  = Nat.min n (S (length runs)).
Proof.
  rewrite trace_subs_run, count_subs_app.
  destruct n as [|c].
  - unfold start_state, start_obs. cbn -[run_from runs_env].
    rewrite run_from_stopped by reflexivity. reflexivity.
  - unfold start_state, start_obs. cbn -[run_from runs_env count_subs Nat.min].
    pose proof (repeat_count_from (S c) runs 1 1) as H. unfold csubs in H. rewrite H.
    cbn [count_subs filter length]. lia.
Qed.

Corollary repeat_subscribes_exactly_n (n : nat) (runs : list (list A)) :
  (0 < n)%nat -> (n <= length runs)%nat ->
  count_subs (map snd (fst (run (x_repeat (Some n)) (runs_env (map (fun xs => (xs, TDone)) runs))))) = n.
Proof.
  intros _ Hl. pose proof (repeat_subscription_count n runs) as H. unfold completing in H. rewrite H. lia.
Qed.
End RepeatCount.

(* ---- while_do / do_while: closed forms in the sequential environment -------- *)
Section While.
Context {A : Type}.

(* successive runs of source 0; j = number of condition evaluations made so far:
   every run's elements; a completed run is followed by the j-th evaluation of the
   condition: true = the next run, false = completion, raising = that error; an
   error of the source ends everything *)
Fixpoint while_spec (cond : nat -> res bool) (j : nat) (runs : list (list A * term)) : list (ev A) :=
  match runs with
  | [] => []
  | (xs, t) :: rest =>
      map Next xs ++ match t with
                     | TDone => match cond j with
                                | Ok true => while_spec cond (S j) rest
                                | Ok false => [Done]
                                | Raise e => [Err e]
                                end
                     | TErr e => [Err e]
                     | TNever => while_spec cond j rest
                     end
  end.

Lemma while_elems cond j (ys : list A) : forall kk,
  run_from (x_while_do cond) j (RState [0%nat] [] false) kk (map (fun e => (0, ISrc 0%nat e)) (map Next ys))
  = (map (fun p => (fst p, OEmit (Next (snd p)))) (combine (seq kk (length ys)) ys), RState [0%nat] [] false)
  /\ after (x_while_do cond) j (RState [0%nat] [] false) (map (fun e => (0, ISrc 0%nat e)) (map Next ys))
     = (j, RState [0%nat] [] false).
Proof.
  induction ys as [|y r IH]; intros kk; [split; reflexivity|].
  cbn [map run_from after length seq combine]. unfold rstep. rs.
  destruct (IH (S kk)) as [H1 H2]. rewrite H1, H2. split; reflexivity.
Qed.

Lemma while_from cond (runs : list (list A * term)) : forall j k,
  emitted (fst (run_from (x_while_do cond) j (RState [0%nat] [] false) k (runs_env runs)))
  = while_spec cond j runs.
Proof.
  induction runs as [|[xs t] rest IH]; intros j k; [reflexivity|].
  unfold runs_env. cbn [flat_map while_spec]. fold (runs_env rest).
  rewrite run_from_app. cbn [fst]. unfold block, events. cbn [fst snd]. rewrite map_app.
  destruct (while_elems cond j xs k) as [G1 G2].
  rewrite after_app, G2. cbn [fst snd].
  rewrite run_from_app, G1, G2. cbn [fst snd].
  rewrite !emitted_app, emitted_nexts, <- app_assoc. f_equal.
  rewrite app_length, !map_length.
  destruct t as [|e|].
  - cbn [map run_from after]. unfold rstep. rs.
    destruct (cond j) as [[|]|e]; rs.
    + rewrite IH. reflexivity.
    + rewrite run_from_stopped by reflexivity. reflexivity.
    + rewrite run_from_stopped by reflexivity. reflexivity.
  - cbn [map run_from after]. unfold rstep. rs.
    rewrite run_from_stopped by reflexivity. reflexivity.
  - cbn [map run_from after app fst snd]. apply IH.
Qed.

(* while_do: the condition is evaluated first (evaluation 0) *)
Theorem while_do_closed_form cond (runs : list (list A * term)) :
  emitted (fst (run (x_while_do cond) (runs_env runs)))
  = match cond 0%nat with
    | Ok true => while_spec cond 1%nat runs
    | Ok false => [Done]
    | Raise e => [Err e]
    end.
Proof.
  rewrite run_unfold. cbn [fst]. rewrite emitted_app.
  unfold start_state, start_obs. cbn [x_while_do x_start].
  destruct (cond 0%nat) as [[|]|e].
  - cbn -[run_from runs_env while_spec emitted x_while_do]. rewrite while_from. reflexivity.
  - cbn -[run_from runs_env]. rewrite run_from_stopped by reflexivity. reflexivity.
  - cbn -[run_from runs_env]. rewrite run_from_stopped by reflexivity. reflexivity.
Qed.

(* do_while: the source runs once before the first evaluation *)
Theorem do_while_closed_form cond (runs : list (list A * term)) :
  emitted (fst (run (x_do_while cond) (runs_env runs))) = while_spec cond 0%nat runs.
Proof.
  rewrite run_unfold. cbn [fst]. rewrite emitted_app.
  unfold start_state, start_obs. cbn -[run_from runs_env while_spec emitted].
  exact (while_from cond runs 0%nat 1%nat).
Qed.

(* the condition holds at evaluations j..n-1 and fails at evaluation n, all runs complete:
   exactly the next n-j+1 runs, then completion *)
Lemma while_n_completing cond (n : nat) (runs : list (list A)) : forall j : nat,
  (j <= n)%nat -> (forall k, (j <= k < n)%nat -> cond k = Ok true) -> cond n = Ok false ->
  (n - j < length runs)%nat ->
  while_spec cond j (map (fun xs => (xs, TDone)) runs)
  = map Next (concat (firstn (S (n - j)) runs)) ++ [Done].
Proof.
  induction runs as [|xs rest IH]; intros j Hj Ht Hf Hl; [cbn in Hl; lia|].
  cbn [map while_spec]. destruct (Nat.eq_dec j n) as [->|Hne].
  - rewrite Hf. replace (n - n)%nat with 0%nat by lia. cbn [firstn concat]. now rewrite app_nil_r.
  - rewrite (Ht j) by lia. rewrite (IH (S j)); [|lia|intros k Hk; apply Ht; lia|exact Hf|cbn in Hl; lia].
    replace (S (n - j)) with (S (S (n - S j))) by lia.
    cbn [firstn concat]. rewrite map_app, <- app_assoc. reflexivity.
Qed.

(* do_while whose condition holds n times and then fails, over completing runs: exactly
   the first n+1 runs, then completion; while_do: exactly the first n runs *)
Corollary do_while_n_completing cond (n : nat) (runs : list (list A)) :
  (forall k, (k < n)%nat -> cond k = Ok true) -> cond n = Ok false -> (n < length runs)%nat ->
  emitted (fst (run (x_do_while cond) (runs_env (map (fun xs => (xs, TDone)) runs))))
  = map Next (concat (firstn (S n) runs)) ++ [Done].
Proof.
  intros Ht Hf Hl. rewrite do_while_closed_form.
  rewrite (while_n_completing cond n runs 0%nat); [|lia|intros k Hk; apply Ht; lia|exact Hf|lia].
  now rewrite Nat.sub_0_r.
Qed.

Corollary while_do_n_completing cond (n : nat) (runs : list (list A)) :
  (forall k, (k < n)%nat -> cond k = Ok true) -> cond n = Ok false -> (n <= length runs)%nat ->
  emitted (fst (run (x_while_do cond) (runs_env (map (fun xs => (xs, TDone)) runs))))
  = map Next (concat (firstn n runs)) ++ [Done].
Proof.
  intros Ht Hf Hl. rewrite while_do_closed_form.
  destruct n as [|n'].
  - rewrite Hf. reflexivity.
  - rewrite (Ht 0%nat) by lia.
    rewrite (while_n_completing cond (S n') runs 1%nat); [|lia|intros k Hk; apply Ht; lia|exact Hf|lia].
    replace (S (S n' - 1)) with (S n') by lia. reflexivity.
Qed.
End While.
