(* C16: the property-level reading of sample(sampler): every element emitted is the LATEST source
   element not yet sampled at the tick that emits it.  Stated on the specification [smp_spec]
   (which the machine is proved equal to for every interleaving: sample_observable_spec) and then
   on the machine itself. *)
From RxVerif Require Import Base.Prelude Ops.Machine Ops.Multi Ops.MultiFacts Ops.Timed Ops.TimedSim
  Ops.TimedFacts Ops.TimedWindowFacts Ops.TimedSubFacts.

Section SampleReading.
Context {A : Type}.
Notation tin := (Z * nat * ev A)%type.

(* the notifications the operator listens to: every port up to and including its first terminal
   notification (the library's auto-detach), ports other than 0 (source) and 1 (sampler) ignored.
   A conforming two-port timeline is its own [heard]. *)
Fixpoint heard (l0 l1 : bool) (ins : list tin) : list tin :=
  match ins with
  | [] => []
  | (t, O, e) :: rest => if l0 then (t, O, e) :: heard (negb (is_terminal e)) l1 rest else heard l0 l1 rest
  | (t, S O, e) :: rest => if l1 then (t, 1%nat, e) :: heard l0 (negb (is_terminal e)) rest else heard l0 l1 rest
  | _ :: rest => heard l0 l1 rest
  end.

(* no source element / no sampler notification in a stretch of the timeline *)
Definition no_src_next (l : list tin) : Prop := forall t x, ~ In (t, 0%nat, Next x) l.
Definition no_sampler (l : list tin) : Prop := forall t e, ~ In (t, 1%nat, e) l.
Definition is_tick (e : ev A) : Prop := match e with Err _ => False | _ => True end.

Lemma no_src_next_cons i l : (forall t x, i <> (t, 0%nat, Next x)) -> no_src_next l -> no_src_next (i :: l).
Proof. intros H1 H2 t x [E|E]; [exact (H1 t x E)|exact (H2 t x E)]. Qed.
Lemma no_sampler_cons i l : (forall t e, i <> (t, 1%nat, e)) -> no_sampler l -> no_sampler (i :: l).
Proof. intros H1 H2 t e [E|E]; [exact (H1 t e E)|exact (H2 t e E)]. Qed.

(* where an emitted element comes from *)
Definition from_pending (x : A) (t : Z) (h : list tin) : Prop :=
  exists pre e rest, h = pre ++ (t, 1%nat, e) :: rest /\ is_tick e /\ no_src_next pre /\ no_sampler pre.
Definition from_element (x : A) (t : Z) (h : list tin) : Prop :=
  exists pre tx mid e rest,
    h = pre ++ (tx, 0%nat, Next x) :: mid ++ (t, 1%nat, e) :: rest /\ is_tick e /\ no_src_next mid /\ no_sampler mid.

Lemma from_pending_cons i x t h : (forall t' y, i <> (t', 0%nat, Next y)) -> (forall t' e, i <> (t', 1%nat, e)) ->
  from_pending x t h -> from_pending x t (i :: h).
Proof.
  intros H1 H2 (pre & e & rest & E & He & Hn & Hs). exists (i :: pre), e, rest. rewrite E.
  repeat split; [exact He|apply no_src_next_cons; assumption|apply no_sampler_cons; assumption].
Qed.
Lemma from_element_cons i x t h : from_element x t h -> from_element x t (i :: h).
Proof.
  intros (pre & tx & mid & e & rest & E & He & Hn & Hs). exists (i :: pre), tx, mid, e, rest. rewrite E.
  repeat split; assumption.
Qed.

Lemma smp_in_next : forall (ins : list tin) l0 l1 ae pend t x,
  In (t, Next x) (smp_spec l0 l1 ae pend ins) ->
  (pend = Some x /\ from_pending x t (heard l0 l1 ins)) \/ from_element x t (heard l0 l1 ins).
Proof.
  induction ins as [|[[t' k] e'] rest IH]; intros l0 l1 ae pend t x Hin; [destruct Hin|].
  cbn [smp_spec heard] in *. destruct k as [|[|k]].
  - destruct l0; [|exact (IH _ _ _ _ _ _ Hin)].
    destruct e' as [y|c|]; cbn [is_terminal negb].
    + destruct (IH _ _ _ _ _ _ Hin) as [[Ep (pre & e & rest' & E & He & Hn & Hs)]|Hr].
      * right. injection Ep as ->. exists [], t', pre, e, rest'. rewrite E. repeat split; assumption.
      * right. apply from_element_cons, Hr.
    + destruct Hin as [Hin|[]]. discriminate Hin.
    + destruct (IH _ _ _ _ _ _ Hin) as [[Ep Hl]|Hr].
      * left. split; [exact Ep|]. apply from_pending_cons; [discriminate|discriminate|exact Hl].
      * right. apply from_element_cons, Hr.
  - destruct l1; [|exact (IH _ _ _ _ _ _ Hin)].
    assert (Htick : is_tick e' ->
      In (t, Next x) (match pend with Some v => [(t', Next v)] | None => [] end ++
                      (if ae then [(t', Done)]
                       else smp_spec l0 (match e' with Done => false | _ => true end) ae None rest)) ->
      (pend = Some x /\ from_pending x t ((t', 1%nat, e') :: heard l0 (negb (is_terminal e')) rest)) \/
      from_element x t ((t', 1%nat, e') :: heard l0 (negb (is_terminal e')) rest)).
    { intros He H. apply in_app_or in H. destruct H as [H|H].
      - destruct pend as [v|]; [|destruct H]. destruct H as [H|[]]. injection H as -> ->.
        left. split; [reflexivity|]. exists [], e', (heard l0 (negb (is_terminal e')) rest).
        repeat split; [exact He|intros ? ? []|intros ? ? []].
      - destruct ae; [destruct H as [H|[]]; discriminate H|].
        assert (Ef : (match e' with Done => false | _ => true end) = negb (is_terminal e'))
          by (destruct e'; [reflexivity|destruct He|reflexivity]).
        rewrite Ef in H. destruct (IH _ _ _ _ _ _ H) as [[Ep _]|Hr]; [discriminate Ep|].
        right. apply from_element_cons, Hr. }
    destruct e' as [y|c|].
    + apply Htick; [exact I|exact Hin].
    + destruct Hin as [Hin|[]]. discriminate Hin.
    + apply Htick; [exact I|exact Hin].
  - exact (IH _ _ _ _ _ _ Hin).
Qed.

(* sample(sampler) emits, at a sampler tick at time t, the latest source element not sampled
   yet: the element x emitted at t was delivered by the source at some tx, the tick (the
   sampler's on_next or on_completed) is at t, and between the two the source delivered no other
   element and the sampler did not notify (x had not been sampled, and is the latest) *)
Theorem sample_emits_latest_unsampled : forall (ins : list tin) t x,
  In (t, Next x) (smp_spec true true false None ins) ->
  exists pre tx mid e rest,
    heard true true ins = pre ++ (tx, 0%nat, Next x) :: mid ++ (t, 1%nat, e) :: rest /\
    is_tick e /\ no_src_next mid /\ no_sampler mid.
Proof.
  intros ins t x Hin. destruct (smp_in_next ins true true false None t x Hin) as [[E _]|H]; [discriminate E|exact H].
Qed.

(* the same about the machine, for every interleaving of the two ports *)
Theorem sample_machine_emits_latest_unsampled : forall t0 (ins : list tin) t x,
  In (t, Next x) (timed_emits t0 (simulate x_sample_observable t0 (ext2_of ins))) ->
  exists pre tx mid e rest,
    heard true true ins = pre ++ (tx, 0%nat, Next x) :: mid ++ (t, 1%nat, e) :: rest /\
    is_tick e /\ no_src_next mid /\ no_sampler mid.
Proof. intros t0 ins t x. rewrite (sample_observable_spec t0 ins). apply sample_emits_latest_unsampled. Qed.

(* [heard] changes nothing on a timeline in which no port notifies after its terminal
   notification and only ports 0 and 1 occur *)
Definition port_conforming (ins : list tin) : Prop :=
  forall pre t k e rest, ins = pre ++ (t, k, e) :: rest ->
    (k = 0 \/ k = 1)%nat /\ (is_terminal e = true -> forall t' e', ~ In (t', k, e') rest).

Lemma heard_conforming_gen : forall (ins : list tin) l0 l1,
  (forall pre t k e rest, ins = pre ++ (t, k, e) :: rest ->
     (k = 0 \/ k = 1)%nat /\ (is_terminal e = true -> forall t' e', ~ In (t', k, e') rest)) ->
  (l0 = false -> forall t e, ~ In (t, 0%nat, e) ins) -> (l1 = false -> forall t e, ~ In (t, 1%nat, e) ins) ->
  heard l0 l1 ins = ins.
Proof.
  induction ins as [|[[t k] e] rest IH]; intros l0 l1 Hc H0 H1; [reflexivity|].
  destruct (Hc [] t k e rest eq_refl) as [Hk Ht].
  assert (Hc' : forall pre t k e rest0, rest = pre ++ (t, k, e) :: rest0 ->
     (k = 0 \/ k = 1)%nat /\ (is_terminal e = true -> forall t' e', ~ In (t', k, e') rest0)).
  { intros pre t1 k1 e1 r1 E. apply (Hc ((t, k, e) :: pre) t1 k1 e1 r1). rewrite E. reflexivity. }
  cbn [heard]. destruct Hk as [-> | ->].
  - destruct l0; [|exfalso; apply (H0 eq_refl t e); left; reflexivity].
    f_equal. apply IH; [exact Hc'| |].
    + intros Hn t1 e1. apply Ht. destruct (is_terminal e); [reflexivity|discriminate Hn].
    + intros Hn t1 e1 Hi. apply (H1 Hn t1 e1). right. exact Hi.
  - destruct l1; [|exfalso; apply (H1 eq_refl t e); left; reflexivity].
    f_equal. apply IH; [exact Hc'| |].
    + intros Hn t1 e1 Hi. apply (H0 Hn t1 e1). right. exact Hi.
    + intros Hn t1 e1. apply Ht. destruct (is_terminal e); [reflexivity|discriminate Hn].
Qed.

Lemma heard_conforming (ins : list tin) : port_conforming ins -> heard true true ins = ins.
Proof. intros H. apply heard_conforming_gen; [exact H|discriminate|discriminate]. Qed.

Corollary sample_emits_latest_unsampled_conforming : forall t0 (ins : list tin) t x,
  port_conforming ins ->
  In (t, Next x) (timed_emits t0 (simulate x_sample_observable t0 (ext2_of ins))) ->
  exists pre tx mid e rest,
    ins = pre ++ (tx, 0%nat, Next x) :: mid ++ (t, 1%nat, e) :: rest /\
    is_tick e /\ no_src_next mid /\ no_sampler mid.
Proof.
  intros t0 ins t x Hc Hin.
  pose proof (sample_machine_emits_latest_unsampled t0 ins t x Hin) as H.
  rewrite (heard_conforming ins Hc) in H. exact H.
Qed.

Corollary sample_emits_latest_unsampled_own : forall t0 (ins : list tin) t x,
  heard true true ins = ins ->
  In (t, Next x) (timed_emits t0 (simulate x_sample_observable t0 (ext2_of ins))) ->
  exists pre tx mid e rest,
    ins = pre ++ (tx, 0%nat, Next x) :: mid ++ (t, 1%nat, e) :: rest /\
    is_tick e /\ no_src_next mid /\ no_sampler mid.
Proof.
  intros t0 ins t x Hc Hin.
  pose proof (sample_machine_emits_latest_unsampled t0 ins t x Hin) as H.
  rewrite Hc in H. exact H.
Qed.
End SampleReading.
