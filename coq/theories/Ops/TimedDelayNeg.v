(* C15: delay(d) with d <= 0 (a negative relative delay, or a datetime due time that is already
   past at subscription).  operators/_delay.py stamps the queued notification with now + d but
   the scheduler clamps the negative delay of the drain action to zero, so the action runs at
   the instant the first queued notification arrived (after the source notifications of that
   instant) and finds everything queued due.  Hence: in the closed world of Ops/TimedSim.v the
   machine [x_delay d], d <= 0, is indistinguishable from [x_delay 0] -- for EVERY event
   sequence of the source (no sortedness, no conformance hypothesis). *)
From RxVerif Require Import Base.Prelude Ops.Machine Ops.Multi Ops.MultiFacts Ops.Timed Ops.TimedSim
  Ops.TimedFacts Ops.TimedWindowFacts Ops.TimedDelayFacts.

Section DelayNeg.
Context {A : Type}.
Local Notation qent := (Z * ev A)%type.

Definition shiftq (d : Z) (q : list qent) : list qent := map (fun n => (fst n + d, snd n)) q.

Lemma drain_all now : forall (q : list qent) stopped, Forall (fun n => fst n <= now) q ->
  snd (delay_drain now q stopped) = [].
Proof.
  induction q as [|[ts n] q IH]; intros stopped H; [reflexivity|].
  inversion H as [|? ? Hts Hq]; subst. cbn [fst] in Hts. cbn [delay_drain].
  assert (E : (ts <=? now) = true) by lia. rewrite E.
  destruct n as [x|c|].
  - specialize (IH stopped Hq). destruct (delay_drain now q stopped) as [[o f] q']. exact IH.
  - specialize (IH true Hq). destruct (delay_drain now q true) as [[o f] q']. exact IH.
  - specialize (IH true Hq). destruct (delay_drain now q true) as [[o f] q']. exact IH.
Qed.

Lemma drain_shift now d : d <= 0 -> forall (q : list qent) stopped, Forall (fun n => fst n <= now) q ->
  fst (delay_drain now (shiftq d q) stopped) = fst (delay_drain now q stopped).
Proof.
  intros Hd. induction q as [|[ts n] q IH]; intros stopped H; [reflexivity|].
  inversion H as [|? ? Hts Hq]; subst. cbn [fst] in Hts. cbn [shiftq map fst snd delay_drain]. fold (shiftq d q).
  assert (E : (ts <=? now) = true) by lia. assert (E' : (ts + d <=? now) = true) by lia. rewrite E, E'.
  destruct n as [x|c|].
  - specialize (IH stopped Hq). destruct (delay_drain now q stopped) as [[o f] q'].
    destruct (delay_drain now (shiftq d q) stopped) as [[o2 f2] q2]. cbn [fst] in *. injection IH as -> ->. reflexivity.
  - specialize (IH true Hq). destruct (delay_drain now q true) as [[o f] q'].
    destruct (delay_drain now (shiftq d q) true) as [[o2 f2] q2]. cbn [fst] in *. injection IH as -> ->. reflexivity.
  - specialize (IH true Hq). destruct (delay_drain now q true) as [[o f] q'].
    destruct (delay_drain now (shiftq d q) true) as [[o2 f2] q2]. cbn [fst] in *. injection IH as -> ->. reflexivity.
Qed.

Lemma shiftq_le now d (q : list qent) : d <= 0 -> Forall (fun n => fst n <= now) q -> Forall (fun n => fst n <= now) (shiftq d q).
Proof.
  intros Hd H. unfold shiftq. rewrite Forall_map. eapply Forall_impl; [|exact H]. intros n Hn. cbn in *. lia.
Qed.

(* the two machines side by side: same runner state, same pending timer; the queues differ by
   the stamp only, and everything queued is due when the pending timer fires *)
Inductive drel (d : Z) : @delay_st A -> @delay_st A -> rstate -> pend -> Prop :=
| DR_stopped s0 sd r p : r_stopped r = true -> drel d s0 sd r p
| DR_idle n lv : drel d (DelaySt [] false false None n) (DelaySt [] false false None n) (RState lv [] false) []
| DR_busy q0 tg lv T : Forall (fun n => fst n <= T) q0 ->
    drel d (DelaySt q0 true false None (S tg)) (DelaySt (shiftq d q0) true false None (S tg))
         (RState lv [tg] false) [(tg, T)].

Lemma mem_self k : mem k [k] = true.
Proof. unfold mem. cbn. now rewrite Nat.eqb_refl. Qed.

Lemma delay_neg_tick d q0 tg lv T : d <= 0 -> Forall (fun n : qent => fst n <= T) q0 ->
  exists s0' sd' r' o,
    rstep (x_delay 0) (DelaySt q0 true false None (S tg)) (RState lv [tg] false) T (ITick tg) = (s0', r', o)
    /\ rstep (x_delay d) (DelaySt (shiftq d q0) true false None (S tg)) (RState lv [tg] false) T (ITick tg) = (sd', r', o)
    /\ drel d s0' sd' r' (upd [(tg, T)] T o r').
Proof.
  intros Hd Hq. unfold rstep. cbn [r_stopped r_timers r_live]. rewrite mem_self.
  cbn [x_step x_delay dl_exc dl_queue dl_ntag dl_active].
  pose proof (drain_all T q0 false Hq) as H0. pose proof (drain_all T (shiftq d q0) false (shiftq_le T d q0 Hd Hq)) as H1.
  pose proof (drain_shift T d Hd q0 false Hq) as H2.
  destruct (delay_drain T q0 false) as [[o f] q']. destruct (delay_drain T (shiftq d q0) false) as [[o2 f2] q2].
  cbn [fst snd] in *. subst q' q2. injection H2 as -> ->.
  rewrite apply_cmds_emit_list. cbn [remove]. rewrite Nat.eqb_refl.
  destruct f as [| |c]; cbn [finish release r_live r_timers r_stopped].
  - eexists _, _, _, _. split; [reflexivity|]. split; [reflexivity|].
    unfold upd. cbn [r_timers mem existsb]. rewrite filter_false. apply DR_idle.
  - eexists _, _, _, _. split; [reflexivity|]. split; [reflexivity|]. apply DR_stopped. reflexivity.
  - eexists _, _, _, _. split; [reflexivity|]. split; [reflexivity|]. apply DR_stopped. reflexivity.
Qed.

Lemma delay_neg_sim d : d <= 0 -> forall fuel (es : list (Z * ev A)) s0 sd r p, drel d s0 sd r p ->
  sim (x_delay d) fuel sd r p (ext_of es) = sim (x_delay 0) fuel s0 r p (ext_of es).
Proof.
  intros Hd. induction fuel as [|f IH]; intros es s0 sd r p Hr; [reflexivity|].
  rewrite !sim_S. inversion Hr as [s0' sd' r' p' Hst|n lv|q0 tg lv T Hq]; subst.
  - destruct (next_event p (ext_of es)) as [[[t i] ext']|] eqn:En; [|reflexivity].
    rewrite !rstep_stopped by exact Hst. f_equal.
    assert (Hx : exists es', ext' = ext_of es').
    { destruct es as [|[t1 e1] rest].
      - rewrite ext_of_nil in En. exists []. cbn in En. destruct (earliest p) as [[tg due]|]; [|discriminate]. injection En as _ _ <-. reflexivity.
      - rewrite ext_of_cons in En. cbn [next_event] in En. destruct (earliest p) as [[tg due]|].
        + destruct (t1 <=? due); injection En as _ _ <-; [exists rest|exists ((t1, e1) :: rest)]; reflexivity.
        + injection En as _ _ <-. exists rest. reflexivity. }
    destruct Hx as [es' ->]. apply IH. apply DR_stopped. exact Hst.
  - destruct es as [|[t e] rest]; [reflexivity|]. rewrite ext_of_cons. cbn [next_event earliest].
    unfold rstep. cbn [r_stopped r_live]. destruct (mem 0 lv) eqn:Hm.
    2: { f_equal. apply IH. cbn. apply DR_idle. }
    assert (Hc : clamp d = 0) by (unfold clamp; lia).
    destruct e as [x|c|].
    + cbn. rewrite Hc. nat_eqb. cbn [orb]. f_equal.
      replace (t + d) with (t + 0 + d) by lia.
      apply (IH rest _ _ _ _ (DR_busy d [(t + 0, Next x)] n lv (t + 0) ltac:(repeat constructor; cbn; lia))).
    + cbn -[mem]. rewrite Hm. cbn -[mem]. f_equal. apply IH. apply DR_stopped. reflexivity.
    + cbn -[mem]. rewrite Hm, Hc. cbn -[mem]. rewrite mem_self. f_equal.
      replace (t + d) with (t + 0 + d) by lia.
      apply (IH rest _ _ _ _ (DR_busy d [(t + 0, Done)] n (remove 0 lv) (t + 0) ltac:(repeat constructor; cbn; lia))).
  - destruct (delay_neg_tick d q0 tg lv T Hd Hq) as (s0' & sd' & r' & o & E0 & Ed & Hrel).
    destruct es as [|[t e] rest].
    + rewrite ext_of_nil. cbn [next_event earliest]. rewrite E0, Ed. f_equal.
      rewrite <- ext_of_nil. apply IH. exact Hrel.
    + rewrite ext_of_cons. cbn [next_event earliest]. destruct (t <=? T) eqn:E.
      2: { rewrite E0, Ed. f_equal. rewrite <- ext_of_cons. apply IH. exact Hrel. }
      clear E0 Ed Hrel. unfold rstep. cbn [r_stopped r_live]. destruct (mem 0 lv) eqn:Hm.
      2: { f_equal. unfold upd. cbn -[mem]. rewrite mem_self. apply IH. apply DR_busy. exact Hq. }
      assert (Hq' : forall n, Forall (fun m : qent => fst m <= T) (q0 ++ [(t + 0, n)])).
      { intros n. apply Forall_app. split; [exact Hq|repeat constructor; cbn; lia]. }
      assert (Hsh : forall n, shiftq d q0 ++ [(t + d, n)] = shiftq d (q0 ++ [(t + 0, n)])).
      { intros n. unfold shiftq. rewrite map_app. cbn [map fst snd]. repeat f_equal. lia. }
      destruct e as [x|c|].
      * cbn -[mem]. rewrite mem_self. f_equal. rewrite Hsh. apply IH. apply DR_busy. apply Hq'.
      * cbn -[mem]. rewrite Hm. cbn -[mem]. f_equal. apply IH. apply DR_stopped. reflexivity.
      * cbn -[mem]. rewrite Hm. cbn -[mem]. rewrite mem_self. f_equal. rewrite Hsh. apply IH. apply DR_busy. apply Hq'.
Qed.

(* the whole simulation -- inputs delivered, everything the runner observed -- is the same *)
Theorem delay_nonpositive_is_zero d t0 (es : list (Z * ev A)) : d <= 0 ->
  simulate (x_delay d) t0 (ext_of es) = simulate (x_delay 0) t0 (ext_of es).
Proof.
  intros Hd. unfold simulate, simulate_fuel.
  cbn [x_start x_delay apply_cmds finish fst snd app]. f_equal.
  apply delay_neg_sim; [exact Hd|]. cbn. apply DR_idle.
Qed.

Corollary delay_nonpositive_walk d t0 (es : list (Z * ev A)) :
  d <= 0 -> tsorted es -> Forall (fun e => t0 <= fst e) es ->
  timed_emits t0 (simulate (x_delay d) t0 (ext_of es)) = dspec 0 [] es.
Proof. intros Hd Hs Hlo. rewrite delay_nonpositive_is_zero by exact Hd. apply delay_sim_spec; [lia|exact Hs|exact Hlo]. Qed.

(* closed form: a non-positive delay delivers every element and the completion at the instant
   they arrive (bursts in order); an error at once, dropping the elements of its own instant *)
Corollary delay_nonpositive_spec d t0 (tl : list (Z * A)) tm :
  d <= 0 -> tsorted (tevents tl tm) -> Forall (fun e => t0 <= fst e) (tevents tl tm) ->
  timed_emits t0 (simulate (x_delay d) t0 (ext_of (tevents tl tm))) = delay_out 0 tl tm.
Proof. intros Hd Hs Hlo. rewrite delay_nonpositive_is_zero by exact Hd. apply delay_spec; [lia|exact Hs|exact Hlo]. Qed.

(* a datetime due time that is not in the future at subscription *)
Corollary delay_at_past_spec ts t0 (tl : list (Z * A)) tm :
  tdelay ts t0 <= 0 -> tsorted (tevents tl tm) -> Forall (fun e => t0 <= fst e) (tevents tl tm) ->
  timed_emits t0 (simulate (x_delay_at ts t0) t0 (ext_of (tevents tl tm))) = delay_out 0 tl tm.
Proof. exact (delay_nonpositive_spec (tdelay ts t0) t0 tl tm). Qed.
End DelayNeg.
