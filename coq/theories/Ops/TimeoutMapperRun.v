(* C17: timeout_with_mapper at run level.  Over ALL interleavings of the notifications of the
   source (port 0), of the first timeout observable (port 1 when [has_first]), of the fallback
   (port 2 when [has_other]) and of the timeout observables the mapper makes (port 3 + j for the
   j-th element the mapper accepted), the closed world [simulate] of the machine
   [x_timeout_with_mapper] (Ops/Timed.v, operators/_timeoutwithmapper.py) equals the walk
   [twm_spec]; property-level readings of the walk follow. *)
From RxVerif Require Import Base.Prelude Ops.Machine Ops.Multi Ops.MultiFacts Ops.Timed Ops.TimedSim
  Ops.TimedFacts Ops.TimedSubFacts Ops.SimPortSteps Ops.TimedWindowFacts Ops.TimedWindowFacts2.

Section TimeoutMapperRun.
Context {A : Type}.
Notation tin := (Z * nat * ev A)%type.
Context (has_first has_other : bool) (mapper : option (A -> nat -> res unit)).

(* [cur]: the port of the timeout observable set by the latest set_timer() (None: never()) *)
Definition is_cur (k : nat) (cur : option nat) : bool :=
  match cur with Some c => Nat.eqb k c | None => false end.

(* the CURRENT timeout observable notifies at t: an error is passed on; an on_next or an
   on_completed switches -- from there on exactly the fallback's notifications up to its first
   terminal, or the Timeout error at once when there is no fallback *)
Definition twm_switch (t : Z) (e : ev A) (rest : list tin) : list (Z * ev A) :=
  match e with
  | Err c => [(t, Err c)]
  | _ => if has_other then upto_term (port 2 rest) else [(t, Err TIMEOUT_ERR)]
  end.

(* [cnt]: elements the mapper accepted so far *)
Fixpoint twm_spec (cnt : nat) (cur : option nat) (ins : list tin) : list (Z * ev A) :=
  match ins with
  | [] => []
  | (t, O, e) :: rest =>
      match e with
      | Next x =>
          (t, Next x) ::
          match mapper with
          | None => twm_spec cnt None rest
          | Some f =>
              match f x cnt with
              | Raise c => [(t, Err c)]
              | Ok _ => twm_spec (S cnt) (Some (3 + cnt)%nat) rest
              end
          end
      | _ => [(t, e)]
      end
  | (t, k, e) :: rest =>
      if is_cur k cur then twm_switch t e rest      (* the current timeout observable *)
      else twm_spec cnt cur rest                    (* a stale one, the fallback before the switch, an unknown port *)
  end.

Definition twm_out (ins : list tin) : list (Z * ev A) :=
  twm_spec 0 (if has_first then Some 1%nat else None) ins.

Local Notation M := (x_timeout_with_mapper has_first has_other mapper).

(* ---- after the switch: the fallback is mirrored ---- *)
Lemma twm_fallback_sim : forall (ins : list tin) fuel (s : twm_st), (length ins <= fuel)%nat ->
  sim_emits (sim M fuel s (RState [2%nat] [] false) [] (ext2_of ins)) = upto_term (port 2 ins).
Proof.
  induction ins as [|[[t k] e] rest IH]; intros fuel s Hf.
  - now rewrite ext2_of_nil, sim_nil.
  - destruct fuel as [|f]; [cbn in Hf; lia|]. cbn [length] in Hf.
    rewrite ext2_of_cons, port_cons.
    destruct (Nat.eqb k 2) eqn:Ek.
    + apply Nat.eqb_eq in Ek. subst k. cbn [app upto_term].
      destruct e as [x|c|].
      * etransitivity; [eapply sim_port_cont; [reflexivity|cbn; reflexivity|cbn; reflexivity|reflexivity]|].
        cbn [emits flat_map map app]. f_equal. unfold detach. cbn [is_terminal andb].
        apply IH. lia.
      * etransitivity; [eapply sim_port_end; [reflexivity|cbn; reflexivity|discriminate|cbn; reflexivity]|]. reflexivity.
      * etransitivity; [eapply sim_port_end; [reflexivity|cbn; reflexivity|discriminate|cbn; reflexivity]|]. reflexivity.
    + cbn [app]. rewrite sim_port_dead.
      * apply IH. lia.
      * unfold mem. cbn [existsb]. rewrite Ek. reflexivity.
Qed.

(* ---- no fallback, the current timeout observable sent an on_next: throw(Timeout) was
   subscribed with the scheduler, its zero-delay action is pending and nothing is subscribed ---- *)
Lemma twm_throw_sim t : forall (ins : list tin) fuel (s : twm_st), (length ins < fuel)%nat ->
  sim_emits (sim M fuel s (RState [] [0%nat] false) [(0%nat, t)] (ext2_of ins)) = [(t, Err TIMEOUT_ERR)].
Proof.
  induction ins as [|[[t' k] e] rest IH]; intros fuel s Hf.
  - destruct fuel as [|f]; [cbn in Hf; lia|].
    rewrite ext2_of_nil, sim_S. cbn [next_event earliest]. unfold rstep. cbn.
    rewrite sim_emits_cons. cbn [emits flat_map map app]. rewrite sim_stopped by reflexivity. reflexivity.
  - destruct fuel as [|f]; [cbn in Hf; lia|]. cbn [length] in Hf.
    rewrite ext2_of_cons, sim_S. cbn [next_event earliest].
    destruct (t' <=? t) eqn:El.
    + unfold rstep. cbn [r_stopped r_live mem existsb].
      rewrite sim_emits_cons. cbn [emits flat_map map app].
      replace (upd [(0%nat, t)] t' [] (RState [] [0%nat] false)) with [(0%nat, t)] by reflexivity.
      apply IH. lia.
    + unfold rstep. cbn.
      rewrite sim_emits_cons. cbn [emits flat_map map app]. rewrite sim_stopped by reflexivity. reflexivity.
Qed.

(* ---- before the switch ---- *)
Definition twm_live (cur : option nat) : list nat :=
  match cur with
  | None => [0%nat]
  | Some k => if Nat.eqb k 1 then [1%nat; 0%nat] else [0%nat; k]
  end.

Definition cur_ok (id : nat) (timers : list (nat * nat)) (cnt : nat) (cur : option nat) : Prop :=
  match cur with
  | None => True
  | Some k => lookup k timers = Some id /\ (k = 1%nat \/ exists j, (j < cnt)%nat /\ k = (3 + j)%nat)
  end.

Lemma apply_cmds_app {B} (r : rstate) (c1 c2 : list (cmd B)) :
  apply_cmds r (c1 ++ c2)
  = let '(r1, o1) := apply_cmds r c1 in let '(r2, o2) := apply_cmds r1 c2 in (r2, o1 ++ o2).
Proof.
  revert r. induction c1 as [|c c1 IH]; intros r.
  - cbn [app apply_cmds]. destruct (apply_cmds r c2). reflexivity.
  - cbn [app apply_cmds].
    destruct (match c with
              | CEmit b => (r, [OEmit (Next b)])
              | CSub k => (RState (r_live r ++ [k]) (r_timers r) (r_stopped r), [OSub k])
              | CUnsub k => if mem k (r_live r) then (RState (remove k (r_live r)) (r_timers r) (r_stopped r), [OUnsub k]) else (r, [])
              | CTimer tag d => (RState (r_live r) (r_timers r ++ [tag]) (r_stopped r), [OTimer tag d])
              | CCancel tag => if mem tag (r_timers r) then (RState (r_live r) (remove tag (r_timers r)) (r_stopped r), [OCancel tag]) else (r, [])
              | CEffect n => (r, [OEffect n])
              end) as [r1 o1].
    rewrite IH. destruct (apply_cmds r1 c1) as [r2 o2]. destruct (apply_cmds r2 c2) as [r3 o3].
    now rewrite app_assoc.
Qed.

(* unsubscribing the current timeout observable leaves the source *)
Lemma twm_unsub_cur id timers cnt cur : cur_ok id timers cnt cur ->
  exists o, apply_cmds (RState (twm_live cur) [] false) (@unsub_cur A cur) = (RState [0%nat] [] false, o)
            /\ emits o = [].
Proof.
  intros Hok. destruct cur as [c|]; [|exists []; split; reflexivity].
  destruct Hok as [_ [->|[j [_ ->]]]].
  - exists [OUnsub 1%nat]. split; reflexivity.
  - exists [OUnsub (3 + j)%nat]. cbn. rewrite Nat.eqb_refl. split; reflexivity.
Qed.

Lemma twm_live_dead k cur : is_cur (S k) cur = false -> mem (S k) (twm_live cur) = false.
Proof.
  destruct cur as [c|]; [|reflexivity]. cbn [is_cur twm_live]. intros H.
  destruct (Nat.eqb c 1) eqn:E1.
  - apply Nat.eqb_eq in E1. subst c. unfold mem. cbn [existsb]. rewrite H. reflexivity.
  - unfold mem. cbn [existsb]. rewrite H. reflexivity.
Qed.

Lemma twm_sim : forall (ins : list tin) fuel id timers cnt cur th, (length ins < fuel)%nat ->
  cur_ok id timers cnt cur ->
  sim_emits (sim M fuel (TwmSt id timers cnt cur th) (RState (twm_live cur) [] false) [] (ext2_of ins))
  = twm_spec cnt cur ins.
Proof.
  induction ins as [|[[t k] e] rest IH]; intros fuel id timers cnt cur th Hf Hok.
  - now rewrite ext2_of_nil, sim_nil.
  - destruct fuel as [|f]; [cbn in Hf; lia|]. cbn [length] in Hf.
    rewrite ext2_of_cons. cbn [twm_spec].
    destruct k as [|k].
    + (* the source *)
      assert (Hm : mem 0 (twm_live cur) = true).
      { destruct cur as [c|]; [|reflexivity]. cbn [twm_live]. destruct (Nat.eqb c 1); reflexivity. }
      destruct e as [x|c|].
      * (* on_next: forwarded, set_timer *)
        destruct (twm_unsub_cur id timers cnt cur Hok) as [ou [Hun Heu]].
        destruct mapper as [fm|] eqn:Emap.
        -- destruct (fm x cnt) as [u|c] eqn:Em.
           ++ assert (Hcmd : apply_cmds (RState (twm_live cur) [] false) (CEmit x :: @unsub_cur A cur ++ [CSub (3 + cnt)%nat])
                             = (RState (twm_live (Some (3 + cnt)%nat)) [] false, OEmit (Next x) :: ou ++ [OSub (3 + cnt)%nat])).
              { cbn [apply_cmds]. rewrite apply_cmds_app, Hun. reflexivity. }
              etransitivity; [eapply sim_port_cont; [exact Hm|cbn; rewrite Em; reflexivity|exact Hcmd|reflexivity]|].
              assert (He : emits (OEmit (Next x) :: ou ++ [@OSub A (3 + cnt)%nat]) = [Next x]).
              { change (emits (OEmit (Next x) :: ou ++ [@OSub A (3 + cnt)%nat])) with (Next x :: emits (ou ++ [@OSub A (3 + cnt)%nat])).
                rewrite emits_app, Heu. reflexivity. }
              rewrite He. cbn [map app]. f_equal.
              unfold detach. cbn [is_terminal andb].
              apply IH; [lia|]. cbn [cur_ok lookup]. rewrite Nat.eqb_refl. split; [reflexivity|].
              right. exists cnt. split; [lia|reflexivity].
           ++ etransitivity; [eapply sim_port_end; [exact Hm|cbn; rewrite Em; reflexivity|discriminate|cbn; reflexivity]|].
              reflexivity.
        -- assert (Hcmd : apply_cmds (RState (twm_live cur) [] false) (CEmit x :: @unsub_cur A cur)
                          = (RState (twm_live None) [] false, OEmit (Next x) :: ou)).
           { cbn [apply_cmds]. rewrite Hun. reflexivity. }
           etransitivity; [eapply sim_port_cont; [exact Hm|cbn; reflexivity|exact Hcmd|reflexivity]|].
           change (emits (OEmit (Next x) :: ou)) with (Next x :: emits ou). rewrite Heu.
           cbn [map app]. f_equal. unfold detach. cbn [is_terminal andb].
           apply IH; [lia|exact I].
      * etransitivity; [eapply sim_port_end; [exact Hm|cbn; reflexivity|discriminate|cbn; reflexivity]|]. reflexivity.
      * etransitivity; [eapply sim_port_end; [exact Hm|cbn; reflexivity|discriminate|cbn; reflexivity]|]. reflexivity.
    + destruct (is_cur (S k) cur) eqn:Ec.
      2: { rewrite sim_port_dead by (apply twm_live_dead; exact Ec). apply IH; [lia|exact Hok]. }
      destruct cur as [c|]; [|discriminate Ec]. cbn [is_cur] in Ec. apply Nat.eqb_eq in Ec. subst c.
      destruct Hok as [Hl Hk]. unfold twm_switch.
      assert (Hm : mem (S k) (twm_live (Some (S k))) = true).
      { destruct Hk as [Hk|[j [_ Hk]]]; injection Hk as ->; cbn; rewrite ?Nat.eqb_refl; reflexivity. }
      (* the handler of the current timeout observable *)
      assert (Hstep : forall ho, has_other = ho -> x_step M (TwmSt id timers cnt (Some (S k)) th) t (ISrc (S k) e)
                = match e with
                  | Next _ => if ho then (TwmSt id timers cnt (Some (S k)) th, [CSub 2%nat; CUnsub 0%nat; CUnsub (S k)], Cont)
                              else (TwmSt id timers cnt (Some (S k)) (Some 0%nat), [CTimer 0%nat 0; CUnsub 0%nat; CUnsub (S k)], Cont)
                  | Err c => (TwmSt id timers cnt (Some (S k)) th, [], Fail c)
                  | Done => if ho then (TwmSt id timers cnt (Some (S k)) th, [CSub 2%nat; CUnsub 0%nat], Cont)
                            else (TwmSt id timers cnt (Some (S k)) th, [], Fail TIMEOUT_ERR)
                  end).
      { intros ho <-. destruct Hk as [Hk|[j [_ Hk]]].
        - injection Hk as ->. cbn. rewrite Hl, Nat.eqb_refl. destruct e; reflexivity.
        - injection Hk as ->. cbn. cbn in Hl. rewrite Hl, Nat.eqb_refl. destruct e; reflexivity. }
      assert (Hsw : apply_cmds (RState (twm_live (Some (S k))) [] false) [@CSub A 2%nat; CUnsub 0%nat; CUnsub (S k)]
                    = (RState [2%nat] [] false, [OSub 2%nat; OUnsub 0%nat; OUnsub (S k)])).
      { destruct Hk as [Hk|[j [_ Hk]]]; injection Hk as ->; cbn; rewrite ?Nat.eqb_refl; reflexivity. }
      assert (Hsw2 : apply_cmds (RState (twm_live (Some (S k))) [] false) [@CSub A 2%nat; CUnsub 0%nat]
                    = (RState (remove 0 (twm_live (Some (S k))) ++ [2%nat]) [] false, [OSub 2%nat; OUnsub 0%nat])
                      /\ remove (S k) (remove 0 (twm_live (Some (S k))) ++ [2%nat]) = [2%nat]
                      /\ mem (S k) (remove 0 (twm_live (Some (S k))) ++ [2%nat]) = true).
      { destruct Hk as [Hk|[j [_ Hk]]]; injection Hk as ->; cbn; rewrite ?Nat.eqb_refl; repeat split; reflexivity. }
      assert (Eo : has_other = true \/ has_other = false) by (destruct has_other; auto).
      destruct e as [y|c|].
      * destruct Eo as [Eo|Eo]; specialize (Hstep _ Eo); cbn iota in Hstep.
        -- replace (if has_other then upto_term (port 2 rest) else [(t, Err TIMEOUT_ERR)]) with (upto_term (port 2 rest))
             by (rewrite Eo; reflexivity).
           etransitivity; [eapply sim_port_cont; [exact Hm|exact Hstep|exact Hsw|reflexivity]|].
           cbn [emits flat_map map app]. unfold detach. cbn [is_terminal andb].
           apply twm_fallback_sim. lia.
        -- replace (if has_other then upto_term (port 2 rest) else [(t, Err TIMEOUT_ERR)]) with [(t, @Err A TIMEOUT_ERR)]
             by (rewrite Eo; reflexivity).
           rewrite sim_S. cbn [next_event earliest]. unfold rstep. cbn [r_stopped r_live]. rewrite Hm, Hstep.
           assert (Hth : apply_cmds (RState (twm_live (Some (S k))) [] false) [@CTimer A 0%nat 0; CUnsub 0%nat; CUnsub (S k)]
                         = (RState [] [0%nat] false, [OTimer 0%nat 0; OUnsub 0%nat; OUnsub (S k)])).
           { destruct Hk as [Hk|[j [_ Hk]]]; injection Hk as ->; cbn; rewrite ?Nat.eqb_refl; reflexivity. }
           rewrite Hth. cbn [is_terminal andb finish app].
           rewrite sim_emits_cons. cbn [emits flat_map map app].
           replace (upd [] t [OTimer 0%nat 0; @OUnsub A 0%nat; OUnsub (S k)] (RState [] [0%nat] false)) with [(0%nat, t)]
             by (unfold upd; cbn; rewrite Z.add_0_r; reflexivity).
           apply twm_throw_sim. lia.
      * etransitivity; [eapply sim_port_end; [exact Hm|exact (Hstep _ eq_refl)|discriminate|cbn; reflexivity]|]. reflexivity.
      * destruct Eo as [Eo|Eo]; specialize (Hstep _ Eo); cbn iota in Hstep.
        -- replace (if has_other then upto_term (port 2 rest) else [(t, Err TIMEOUT_ERR)]) with (upto_term (port 2 rest))
             by (rewrite Eo; reflexivity).
           destruct Hsw2 as [Hsw2 [Hrem Hmem]].
           etransitivity; [eapply sim_port_cont; [exact Hm|exact Hstep|exact Hsw2|reflexivity]|].
           cbn [emits flat_map map app]. unfold detach. cbn [is_terminal andb r_live r_timers r_stopped].
           rewrite Hmem, Hrem. apply twm_fallback_sim. lia.
        -- replace (if has_other then upto_term (port 2 rest) else [(t, Err TIMEOUT_ERR)]) with [(t, @Err A TIMEOUT_ERR)]
             by (rewrite Eo; reflexivity).
           etransitivity; [eapply sim_port_end; [exact Hm|exact Hstep|discriminate|cbn; reflexivity]|]. reflexivity.
Qed.

Theorem timeout_with_mapper_walk t0 (ins : list tin) :
  timed_emits t0 (simulate M t0 (ext2_of ins)) = twm_out ins.
Proof.
  unfold simulate, simulate_fuel, timed_emits, twm_out.
  assert (Hlen : (length ins < 3 * length (ext2_of ins) + 4)%nat) by (unfold ext2_of; rewrite map_length; lia).
  cbn [x_start x_timeout_with_mapper].
  assert (Hst : exists o, apply_cmds (RState [] [] false) ((if has_first then [@CSub A 1%nat] else []) ++ [CSub 0%nat])
                          = (RState (twm_live (if has_first then Some 1%nat else None)) [] false, o) /\ emits o = []).
  { destruct has_first; eexists; split; reflexivity. }
  destruct Hst as [o [Hst Ho]]. rewrite Hst.
  cbn [finish fst snd]. rewrite app_nil_r, Ho. cbn [map app].
  rewrite upd_no_timers_r by reflexivity.
  apply twm_sim; [exact Hlen|]. destruct has_first; cbn; [split; [reflexivity|left; reflexivity]|exact I].
Qed.

(* ---- property-level readings of the walk ---- *)
Definition tport (i : tin) : nat := snd (fst i).
Definition tnote (i : tin) : Z * ev A := (fst (fst i), snd i).

(* notifications of ports other than the source and the current timeout observable -- stale
   timeout observables, the fallback before the switch -- change nothing *)
Lemma twm_skip : forall (mid : list tin) cnt cur tail,
  Forall (fun i => tport i <> 0%nat /\ is_cur (tport i) cur = false) mid ->
  twm_spec cnt cur (mid ++ tail) = twm_spec cnt cur tail.
Proof.
  induction mid as [|[[t k] e] mid IH]; intros cnt cur tail H; [reflexivity|].
  inversion H as [|? ? [H0 Hc] Hr]; subst. cbn [tport fst snd] in H0, Hc.
  cbn [app twm_spec]. destruct k as [|k]; [contradiction|]. rewrite Hc. apply IH, Hr.
Qed.

(* the first timeout observable: whichever of its on_next / on_completed comes before the
   first notification of the source switches at that instant; its error is passed on *)
Theorem twm_first_timeout (mid rest : list tin) t e : has_first = true ->
  Forall (fun i => tport i <> 0%nat /\ tport i <> 1%nat) mid ->
  twm_out (mid ++ (t, 1%nat, e) :: rest) = twm_switch t e rest.
Proof.
  intros Hf Hmid. unfold twm_out. rewrite Hf. rewrite twm_skip.
  - reflexivity.
  - eapply Forall_impl; [|exact Hmid]. intros i [H0 H1]. split; [exact H0|].
    cbn [is_cur]. apply Nat.eqb_neq. exact H1.
Qed.

Definition mapper_accepts (f : A -> nat -> res unit) : Prop := forall y i, exists u, f y i = Ok u.
Definition src_next (i : tin) : Prop := tport i = 0%nat /\ exists y, snd i = Next y.

Lemma twm_src_prefix f : mapper = Some f -> mapper_accepts f ->
  forall (pre : list tin) cnt cur tx x tail, Forall src_next pre ->
  twm_spec cnt cur (pre ++ (tx, 0%nat, Next x) :: tail)
  = map tnote pre ++ (tx, Next x) :: twm_spec (S (cnt + length pre)) (Some (3 + (cnt + length pre))%nat) tail.
Proof.
  intros Hm Hacc. induction pre as [|[[t k] e] pre IH]; intros cnt cur tx x tail H.
  - cbn [app map length twm_spec]. rewrite Hm. destruct (Hacc x cnt) as [u ->]. rewrite Nat.add_0_r. reflexivity.
  - inversion H as [|? ? [H0 [y Hy]] Hr]; subst. cbn [tport fst snd] in H0, Hy. subst k e.
    cbn [app map length twm_spec tnote fst snd]. rewrite Hm. destruct (Hacc y cnt) as [u ->].
    rewrite (IH (S cnt) _ tx x tail Hr). replace (S cnt + length pre)%nat with (cnt + S (length pre))%nat by lia.
    reflexivity.
Qed.

(* the timeout observable the mapper made for an element: after elements pre ++ [x] of the
   source (the mapper accepting all of them), whatever the stale timeout observables (ports 1,
   3 .. 2 + |pre|), the fallback or unknown ports send in between, the first notification of
   port 3 + |pre| -- the observable made for x -- switches at that instant (its error is
   passed on); everything forwarded before is exactly the source's elements at their instants *)
Theorem twm_element_timeout f (pre mid rest : list tin) tx x t e : mapper = Some f -> mapper_accepts f ->
  Forall src_next pre ->
  Forall (fun i => tport i <> 0%nat /\ tport i <> (3 + length pre)%nat) mid ->
  twm_out (pre ++ (tx, 0%nat, Next x) :: mid ++ (t, (3 + length pre)%nat, e) :: rest)
  = map tnote pre ++ (tx, Next x) :: twm_switch t e rest.
Proof.
  intros Hm Hacc Hpre Hmid. unfold twm_out. rewrite (twm_src_prefix f Hm Hacc pre 0 _ tx x _ Hpre).
  f_equal. f_equal. cbn [Nat.add]. rewrite twm_skip.
  - cbn [twm_spec Nat.add is_cur]. rewrite Nat.eqb_refl. reflexivity.
  - eapply Forall_impl; [|exact Hmid]. intros i [H0 H1]. split; [exact H0|].
    cbn [is_cur]. apply Nat.eqb_neq. exact H1.
Qed.

(* no timeout observable ever notifies (only the source and the fallback do): the operator
   forwards the source's notifications up to its first terminal and nothing else *)
Definition mapper_ok : Prop := match mapper with None => True | Some f => mapper_accepts f end.

Lemma twm_quiet : mapper_ok -> forall (ins : list tin) cnt cur,
  Forall (fun i => tport i = 0%nat \/ tport i = 2%nat) ins -> is_cur 2 cur = false ->
  twm_spec cnt cur ins = upto_term (port 0 ins).
Proof.
  intros Hok. induction ins as [|[[t k] e] rest IH]; intros cnt cur H Hc; [reflexivity|].
  inversion H as [|? ? Hk Hr]; subst. cbn [tport fst snd] in Hk. rewrite port_cons. cbn [twm_spec].
  destruct Hk as [->| ->].
  - cbn [Nat.eqb app upto_term]. destruct e as [x|c|]; [|reflexivity|reflexivity]. f_equal.
    unfold mapper_ok in Hok. destruct mapper as [f|].
    + destruct (Hok x cnt) as [u ->]. apply IH; [exact Hr|reflexivity].
    + apply IH; [exact Hr|reflexivity].
  - rewrite Hc. cbn [Nat.eqb app]. apply IH; assumption.
Qed.

Theorem twm_no_timeout (ins : list tin) : mapper_ok ->
  Forall (fun i => tport i = 0%nat \/ tport i = 2%nat) ins ->
  twm_out ins = upto_term (port 0 ins).
Proof. intros Hok H. apply twm_quiet; [exact Hok|exact H|]. destruct has_first; reflexivity. Qed.
End TimeoutMapperRun.

(* the equations of the walk *)
Lemma twm_spec_unfold {A} hf ho (mapper : option (A -> nat -> res unit)) cnt cur t k e rest :
  twm_out hf ho mapper = twm_spec ho mapper 0 (if hf then Some 1%nat else None)
  /\ twm_spec ho mapper cnt cur [] = []
  /\ twm_spec ho mapper cnt cur ((t, k, e) :: rest)
     = match k with
       | O => match e with
              | Next x => (t, Next x) ::
                          match mapper with
                          | None => twm_spec ho mapper cnt None rest
                          | Some f => match f x cnt with
                                      | Raise c => [(t, Err c)]
                                      | Ok _ => twm_spec ho mapper (S cnt) (Some (3 + cnt)%nat) rest
                                      end
                          end
              | _ => [(t, e)]
              end
       | S _ => if is_cur k cur
                then match e with
                     | Err c => [(t, Err c)]
                     | _ => if ho then upto_term (port 2 rest) else [(t, Err TIMEOUT_ERR)]
                     end
                else twm_spec ho mapper cnt cur rest
       end.
Proof. split; [reflexivity|]. split; [reflexivity|]. destruct k; reflexivity. Qed.

(* ---- the readings on the machine ---- *)
Section OnMachine.
Context {A : Type}.
Notation tin := (Z * nat * ev A)%type.

Theorem timeout_with_mapper_first_timeout ho (mapper : option (A -> nat -> res unit)) t0 (mid rest : list tin) t e :
  Forall (fun i => tport i <> 0%nat /\ tport i <> 1%nat) mid ->
  timed_emits t0 (simulate (x_timeout_with_mapper true ho mapper) t0 (ext2_of (mid ++ (t, 1%nat, e) :: rest)))
  = twm_switch ho t e rest.
Proof. intros H. rewrite timeout_with_mapper_walk. apply twm_first_timeout; [reflexivity|exact H]. Qed.

Theorem timeout_with_mapper_element_timeout hf ho (f : A -> nat -> res unit) t0 (pre mid rest : list tin) tx x t e :
  mapper_accepts f -> Forall src_next pre ->
  Forall (fun i => tport i <> 0%nat /\ tport i <> (3 + length pre)%nat) mid ->
  timed_emits t0 (simulate (x_timeout_with_mapper hf ho (Some f)) t0
      (ext2_of (pre ++ (tx, 0%nat, Next x) :: mid ++ (t, (3 + length pre)%nat, e) :: rest)))
  = map tnote pre ++ (tx, Next x) :: twm_switch ho t e rest.
Proof. intros Ha Hp Hm. rewrite timeout_with_mapper_walk. apply (twm_element_timeout hf ho (Some f) f); auto. Qed.

Theorem timeout_with_mapper_no_timeout hf ho (mapper : option (A -> nat -> res unit)) t0 (ins : list tin) :
  mapper_ok mapper -> Forall (fun i => tport i = 0%nat \/ tport i = 2%nat) ins ->
  timed_emits t0 (simulate (x_timeout_with_mapper hf ho mapper) t0 (ext2_of ins)) = upto_term (port 0 ins).
Proof. intros Ho H. rewrite timeout_with_mapper_walk. apply twm_no_timeout; assumption. Qed.
End OnMachine.
