(* C06 / C05 with the positions: the short-circuiting aggregates emit at the element that decides them.
   Derived operators are handled through the TAGGED composition theorem (Ops/ComposeTagged.v): the
   reaction of the second stage carries the position of the first stage's notification that caused it. *)
From RxVerif Require Import Base.Prelude Ops.Machine Ops.MachineFacts Ops.ComposeFacts Ops.ComposeTagged
  Ops.Elementwise Ops.ElementwiseFacts Ops.ElementwiseMore Ops.Aggregates Ops.AggregatesFacts
  Ops.AggregatesMore.

Local Arguments Z.of_nat : simpl never.

(* ---- generic: second stages fed by a first stage that emits "elements, then the terminal" ----------- *)
Section Generic.
Context {B C : Type}.

(* when stage 1 forwards element j at position j (a pass-through shape), the tagged run IS the run *)
Lemma exec_tagged_from_std (m : mealy B C) (ys : list B) t : forall s k,
  exec_tagged_from m s (nexts (indexed k ys) ++ tterm (k + length ys) t) = exec_from m s k (events ys t).
Proof.
  induction ys as [|y r IH]; intros s k.
  - cbn [indexed nexts map app length]. rewrite Nat.add_0_r. destruct t; reflexivity.
  - cbn [indexed nexts map app length fst snd]. rewrite events_cons. cbn [exec_tagged_from exec_from].
    destruct (m_next m s y) as [[s' o] f]. destruct (live f); [|reflexivity]. f_equal.
    rewrite <- plus_n_Sm. apply (IH s' (S k)).
Qed.

Lemma exec_tagged_std (m : mealy B C) (ys : list B) t :
  exec_tagged m (nexts (indexed 1 ys) ++ tterm (S (length ys)) t) = exec m (events ys t).
Proof.
  unfold exec_tagged, exec. destruct (m_pre m) as [o f]. destruct (live f); [|reflexivity]. f_equal.
  apply (exec_tagged_from_std m ys t (m_init m) 1).
Qed.

(* map as a second stage: positions are kept *)
Lemma exec_tagged_map (f : B -> C) (l : list (nat * B)) n t :
  exec_tagged (op_map (pure f)) (nexts l ++ tterm n t)
  = nexts (map (fun kx => (fst kx, f (snd kx))) l) ++ tterm n t.
Proof.
  unfold exec_tagged. cbn [op_map m_pre m_init emit live map app].
  induction l as [|[k x] r IH]; cbn [nexts map app fst snd].
  - destruct t; reflexivity.
  - cbn [exec_tagged_from op_map m_next pure emit live map app]. f_equal. exact IH.
Qed.
End Generic.

Section Decide.
Context {A : Type}.

Definition at_end {X} (n : nat) (t : term) (v : X) : list (nat * ev X) :=
  match t with TDone => [(n, Next v); (n, Done)] | TErr e => [(n, Err e)] | TNever => [] end.

(* some / first as second stages: decided by the first notification they see *)
Lemma exec_tagged_some (l : list (nat * A)) n t :
  exec_tagged op_some (nexts l ++ tterm n t)
  = match l with (j, _) :: _ => [(j, Next true); (j, Done)] | [] => at_end n t false end.
Proof. destruct l as [|[j x] r]; [destruct t|]; reflexivity. Qed.

Lemma exec_tagged_first default (l : list (nat * A)) n t :
  exec_tagged (op_first default) (nexts l ++ tterm n t)
  = match l with
    | (j, x) :: _ => [(j, Next x); (j, Done)]
    | [] => match t with
            | TDone => match default with Some d => [(n, Next d); (n, Done)] | None => [(n, Err EXN_NO_ELEMENTS)] end
            | TErr e => [(n, Err e)]
            | TNever => []
            end
    end.
Proof. destruct l as [|[j x] r]; [destruct t; [destruct default| |]|]; reflexivity. Qed.

Lemma find_filter {X} (q : X -> bool) (l : list X) :
  find q l = match filter q l with [] => None | y :: _ => Some y end.
Proof. induction l as [|x r IH]; [reflexivity|]. cbn [find filter]. destruct (q x); [reflexivity|exact IH]. Qed.

Lemma first_failing_find (p : A -> bool) (l : list (nat * A)) :
  first_failing p l = find (fun kx => negb (p (snd kx))) l.
Proof. induction l as [|x r IH]; [reflexivity|]. cbn [first_failing find]. destruct (p (snd x)); [exact IH|reflexivity]. Qed.

(* some(predicate): true at the first element satisfying it, otherwise false at completion *)
Theorem some_pred_tagged (p : A -> bool) (xs : list A) t :
  exec (op_some_pred (pure p)) (events xs t)
  = match find (fun kx => p (snd kx)) (indexed 1 xs) with
    | Some (j, _) => [(j, Next true); (j, Done)]
    | None => at_end (S (length xs)) t false
    end.
Proof.
  unfold op_some_pred. rewrite compose_exec_tagged, filter_spec, exec_tagged_some, find_filter.
  destruct (filter (fun kx => p (snd kx)) (indexed 1 xs)) as [|[j x] r]; reflexivity.
Qed.

(* contains(v, comparer): true at the first element equal to v *)
Theorem contains_tagged (eqb : A -> A -> bool) (v : A) (xs : list A) t :
  exec (op_contains (pure2 eqb) v) (events xs t)
  = match find (fun kx => eqb (snd kx) v) (indexed 1 xs) with
    | Some (j, _) => [(j, Next true); (j, Done)]
    | None => at_end (S (length xs)) t false
    end.
Proof.
  unfold op_contains.
  change (fun x : A => pure2 eqb x v) with (pure (fun x : A => eqb x v)).
  fold (op_some_pred (pure (fun x : A => eqb x v))). apply some_pred_tagged.
Qed.

(* all(predicate): false at the first element FAILING it, otherwise true at completion *)
Theorem all_tagged (p : A -> bool) (xs : list A) t :
  exec (op_all (pure p)) (events xs t)
  = match first_failing p (indexed 1 xs) with
    | Some (j, _) => [(j, Next false); (j, Done)]
    | None => at_end (S (length xs)) t true
    end.
Proof.
  unfold op_all. rewrite compose_exec_tagged.
  change (fun x : A => res_negb (pure p x)) with (pure (fun x : A => negb (p x))).
  fold (op_some_pred (pure (fun x : A => negb (p x)))). rewrite some_pred_tagged, first_failing_find.
  change (fun b : bool => Ok (negb b)) with (pure negb).
  destruct (find (fun kx : nat * A => negb (p (snd kx))) (indexed 1 xs)) as [[j x]|].
  - apply (exec_tagged_map negb [(j, true)] j TDone).
  - destruct t as [|e|].
    + apply (exec_tagged_map negb [(S (length xs), false)] (S (length xs)) TDone).
    + apply (exec_tagged_map negb [] (S (length xs)) (TErr e)).
    + reflexivity.
Qed.

(* is_empty: false at the FIRST element, true at completion of an empty source *)
Theorem is_empty_tagged (xs : list A) t :
  exec op_is_empty (events xs t)
  = match xs with
    | _ :: _ => [(1%nat, Next false); (1%nat, Done)]
    | [] => at_end 1 t true
    end.
Proof.
  unfold op_is_empty. rewrite compose_exec_tagged, some_spec.
  change (fun b : bool => Ok (negb b)) with (pure negb).
  destruct xs as [|x r].
  - destruct t as [|e|].
    + apply (exec_tagged_map negb [(1%nat, false)] 1 TDone).
    + apply (exec_tagged_map negb [] 1 (TErr e)).
    + reflexivity.
  - apply (exec_tagged_map negb [(1%nat, true)] 1 TDone).
Qed.

(* single: fails when the SECOND element arrives (position 2), nothing after it *)
Theorem single_tagged default (xs : list A) t :
  exec (op_single default) (events xs t)
  = match xs with
    | [] => match t with
            | TDone => match default with Some d => [(1%nat, Next d); (1%nat, Done)]
                                        | None => [(1%nat, Err EXN_NO_ELEMENTS)] end
            | TErr e => [(1%nat, Err e)]
            | TNever => []
            end
    | [x] => at_end 2 t x
    | _ :: _ :: _ => [(2%nat, Err EXN_MORE_THAN_ONE)]
    end.
Proof.
  destruct xs as [|x [|y r]].
  - destruct t; [destruct default| |]; reflexivity.
  - destruct t; reflexivity.
  - reflexivity.
Qed.

(* first(predicate) / first_or_default(predicate): the first element satisfying it, at its position *)
Theorem first_pred_tagged (p : A -> bool) default (xs : list A) t :
  exec (op_first_pred (pure p) default) (events xs t)
  = match find (fun kx => p (snd kx)) (indexed 1 xs) with
    | Some (j, x) => [(j, Next x); (j, Done)]
    | None => match t with
              | TDone => match default with
                         | Some d => [(S (length xs), Next d); (S (length xs), Done)]
                         | None => [(S (length xs), Err EXN_NO_ELEMENTS)]
                         end
              | TErr e => [(S (length xs), Err e)]
              | TNever => []
              end
    end.
Proof.
  unfold op_first_pred. rewrite compose_exec_tagged, filter_spec, exec_tagged_first, find_filter.
  destruct (filter (fun kx => p (snd kx)) (indexed 1 xs)) as [|[j x] r]; reflexivity.
Qed.

(* sequence_equal(iterable): false at the first mismatching or surplus element *)
Fixpoint se_mismatch_at (eqb : A -> A -> bool) (qr xs : list A) (k : nat) : option nat :=
  match xs with
  | [] => None
  | x :: r => match qr with
              | v :: q => if eqb v x then se_mismatch_at eqb q r (S k) else Some k
              | [] => Some k
              end
  end.

Lemma sequence_equal_from_tagged eqb (second xs : list A) t : forall qr k,
  exec_from (op_sequence_equal_iter (pure2 eqb) second) qr k (events xs t)
  = match se_mismatch_at eqb qr xs k with
    | Some j => [(j, Next false); (j, Done)]
    | None => at_end (k + length xs) t (match se_run eqb qr xs with Some [] => true | _ => false end)
    end.
Proof.
  induction xs as [|x r IH]; intros qr k.
  - cbn [se_mismatch_at se_run length]. rewrite Nat.add_0_r. destruct t, qr; reflexivity.
  - rewrite events_cons, exec_from_cons. cbn -[exec_from].
    destruct qr as [|v q]; [reflexivity|]. unfold pure2. cbn [se_mismatch_at se_run length].
    destruct (eqb v x); [|reflexivity].
    cbn -[exec_from]. fold (pure2 eqb). rewrite IH, <- plus_n_Sm. reflexivity.
Qed.

Theorem sequence_equal_iter_tagged eqb (second xs : list A) t :
  exec (op_sequence_equal_iter (pure2 eqb) second) (events xs t)
  = match se_mismatch_at eqb second xs 1 with
    | Some j => [(j, Next false); (j, Done)]
    | None => at_end (S (length xs)) t (match se_run eqb second xs with Some [] => true | _ => false end)
    end.
Proof. unfold exec. cbn -[exec_from]. apply sequence_equal_from_tagged. Qed.
End Decide.

(* ---- skip_while_indexed with the positions (C05) ---------------------------------------------------- *)
Section SkipWhileIndexedTagged.
Context {A : Type}.

Fixpoint dropwhile_it (p : A -> nat -> bool) (i : nat) (l : list (nat * A)) : list (nat * A) :=
  match l with [] => [] | kx :: t => if p (snd kx) i then dropwhile_it p (S i) t else l end.

Lemma dropwhile_it_pairs (p : A -> nat -> bool) (xs : list A) : forall i k,
  map (fun kx : nat * (A * nat) => (fst kx, fst (snd kx)))
      (dropwhile (fun xi : A * nat => p (fst xi) (snd xi)) (indexed k (mapi_from i (fun x j => (x, j)) xs)))
  = dropwhile_it p i (indexed k xs).
Proof.
  induction xs as [|x r IH]; intros i k; cbn [mapi_from indexed dropwhile dropwhile_it fst snd]; [reflexivity|].
  destruct (p x i); [apply IH|]. cbn [map fst snd]. f_equal.
  clear. generalize (S i) (S k). induction r as [|y r IH]; intros j k0; cbn; [reflexivity|now rewrite IH].
Qed.

Lemma mapi_from_length {B} (f : A -> nat -> B) (xs : list A) : forall i, length (mapi_from i f xs) = length xs.
Proof. induction xs as [|x r IH]; intros i; cbn; [reflexivity|now rewrite IH]. Qed.

(* every surviving element is emitted at its own position; the terminal at the source's *)
Theorem skip_while_indexed_tagged (p : A -> nat -> bool) (xs : list A) t :
  exec (op_skip_while_indexed (pure2 p)) (events xs t)
  = nexts (dropwhile_it p 0 (indexed 1 xs)) ++ tterm (S (length xs)) t.
Proof.
  unfold op_skip_while_indexed. rewrite !compose_exec_tagged.
  change (fun (x : A) (i : nat) => Ok (x, i)) with (pure2 (fun (x : A) (i : nat) => (x, i))).
  rewrite map_indexed_spec.
  rewrite <- (mapi_from_length (fun (x : A) (i : nat) => (x, i)) xs 0), exec_tagged_std.
  change (fun xi : A * nat => pure2 p (fst xi) (snd xi)) with (pure (fun xi : A * nat => p (fst xi) (snd xi))).
  rewrite skip_while_spec.
  change (fun xi : A * nat => Ok (fst xi)) with (pure (fun xi : A * nat => fst xi)).
  rewrite exec_tagged_map, dropwhile_it_pairs, mapi_from_length. reflexivity.
Qed.
End SkipWhileIndexedTagged.

(* ---- to_dict (C06) ------------------------------------------------------------------------------------ *)
Section ToDict.
Context {A K V : Type}.

(* { key(x): elem(x) for x in xs } built by successive d[key(x)] = elem(x) *)
Definition to_dict_list (keq : K -> K -> bool) (key : A -> K) (el : A -> V) (xs : list A) : list (K * V) :=
  fold_left (fun d x => dict_set keq d (key x) (el x)) xs [].

Lemma to_dict_from keq (key : A -> K) (el : A -> V) (xs : list A) t : forall d k,
  exec_from (op_to_dict keq (pure key) (pure el)) d k (events xs t)
  = at_end (k + length xs) t (fold_left (fun d x => dict_set keq d (key x) (el x)) xs d).
Proof.
  induction xs as [|x r IH]; intros d k.
  - cbn [length fold_left]. rewrite Nat.add_0_r. destruct t; reflexivity.
  - rewrite events_cons, exec_from_cons. cbn -[exec_from]. rewrite IH, <- plus_n_Sm. reflexivity.
Qed.

(* nothing before the source completes; then the dictionary once, and completion; an error passes *)
Theorem to_dict_tagged keq (key : A -> K) (el : A -> V) (xs : list A) t :
  exec (op_to_dict keq (pure key) (pure el)) (events xs t)
  = at_end (S (length xs)) t (to_dict_list keq key el xs).
Proof. unfold exec. cbn -[exec_from]. apply to_dict_from. Qed.

Theorem to_dict_spec keq (key : A -> K) (el : A -> V) (xs : list A) t :
  untag (exec (op_to_dict keq (pure key) (pure el)) (events xs t))
  = match t with
    | TDone => [Next (to_dict_list keq key el xs); Done]
    | TErr e => [Err e]
    | TNever => []
    end.
Proof. rewrite to_dict_tagged. destruct t; reflexivity. Qed.

(* what the dictionary holds: looking a key up gives the value of the LAST element with that key *)
Fixpoint dict_get (keq : K -> K -> bool) (d : list (K * V)) (q : K) : option V :=
  match d with
  | [] => None
  | (k', v') :: t => if keq k' q then Some v' else dict_get keq t q
  end.

Section Equiv.
Context (keq : K -> K -> bool)
        (keq_sym : forall a b, keq a b = keq b a)
        (keq_trans : forall a b c, keq a b = true -> keq b c = true -> keq a c = true).

Lemma dict_get_set (d : list (K * V)) k v q :
  dict_get keq (dict_set keq d k v) q = if keq k q then Some v else dict_get keq d q.
Proof.
  induction d as [|[k' v'] t IH]; cbn [dict_set dict_get]; [reflexivity|].
  destruct (keq k' k) eqn:Hk; cbn [dict_get].
  - assert (Heq : keq k' q = keq k q).
    { destruct (keq k q) eqn:H1.
      - exact (keq_trans _ _ _ Hk H1).
      - destruct (keq k' q) eqn:H2; [|reflexivity].
        rewrite keq_sym in Hk. rewrite <- H1. symmetry. exact (keq_trans _ _ _ Hk H2). }
    rewrite Heq. destruct (keq k q); reflexivity.
  - rewrite IH. destruct (keq k' q) eqn:H2; [|reflexivity].
    destruct (keq k q) eqn:H1; [|reflexivity].
    rewrite keq_sym in H1. rewrite (keq_trans _ _ _ H2 H1) in Hk. discriminate.
Qed.

Lemma find_app_ {X} (f : X -> bool) (l1 l2 : list X) :
  find f (l1 ++ l2) = match find f l1 with Some y => Some y | None => find f l2 end.
Proof. induction l1 as [|x r IH]; [reflexivity|]. cbn [app find]. destruct (f x); [reflexivity|exact IH]. Qed.

Lemma dict_get_fold (key : A -> K) (el : A -> V) (xs : list A) q : forall d,
  dict_get keq (fold_left (fun d x => dict_set keq d (key x) (el x)) xs d) q
  = match find (fun x => keq (key x) q) (rev xs) with
    | Some x => Some (el x)
    | None => dict_get keq d q
    end.
Proof.
  induction xs as [|x r IH]; intros d; [reflexivity|].
  cbn [fold_left rev]. rewrite IH, find_app_, dict_get_set.
  destruct (find (fun x0 => keq (key x0) q) (rev r)); [reflexivity|].
  cbn [find]. destruct (keq (key x) q); reflexivity.
Qed.

Theorem to_dict_lookup (key : A -> K) (el : A -> V) (xs : list A) q :
  dict_get keq (to_dict_list keq key el xs) q
  = option_map el (find (fun x => keq (key x) q) (rev xs)).
Proof.
  unfold to_dict_list. rewrite dict_get_fold.
  destruct (find (fun x => keq (key x) q) (rev xs)); reflexivity.
Qed.
End Equiv.
End ToDict.

(* ---- take_last_buffer with any termination (C05) ---------------------------------------------------- *)
Section TakeLastBuffer.
Context {A : Type}.

Lemma take_last_buffer_from c (xs : list A) t : forall q k,
  exec_from (op_take_last_buffer c) q k (events xs t)
  = at_end (k + length xs) t (fold_left (Slice.take_last_push c) xs q).
Proof.
  induction xs as [|x r IH]; intros q k.
  - cbn [length fold_left]. rewrite Nat.add_0_r. destruct t; reflexivity.
  - rewrite events_cons, exec_from_cons. cbn -[exec_from]. rewrite IH, <- plus_n_Sm. reflexivity.
Qed.

(* a failing source: the buffered elements are dropped, the error passes at its own position *)
Theorem take_last_buffer_error c (xs : list A) e :
  exec (op_take_last_buffer c) (events xs (TErr e)) = [(S (length xs), Err e)].
Proof. unfold exec. cbn -[exec_from]. now rewrite take_last_buffer_from. Qed.

(* all terminations at once *)
Theorem take_last_buffer_any c (xs : list A) t : 0 <= c ->
  exec (op_take_last_buffer c) (events xs t)
  = at_end (S (length xs)) t (skipn (length xs - Z.to_nat c) xs).
Proof.
  intros Hc. unfold exec. cbn -[exec_from]. rewrite take_last_buffer_from.
  change (fold_left (Slice.take_last_push c) xs []) with (Slice.take_last c xs).
  now rewrite SliceFacts.take_last_spec.
Qed.
End TakeLastBuffer.
