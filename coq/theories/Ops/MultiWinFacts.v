(* Generic facts about the window/group runner (Ops/MultiWin.v), for EVERY
   machine, EVERY subscription policy and EVERY input sequence:
   - the ref-count invariant: the underlying disposable is released exactly when
     the outer subscription has ended and no subscription of a handed
     observable is live; a released runner holds no source subscription and no
     timer (C02 clause for groups/windows);
   - release is the ONLY way the runner takes a source subscription away from
     a machine: while the outer subscription or a window subscriber is live,
     a source the machine does not unsubscribe itself stays subscribed until
     it terminates (C03 exception clause);
   - the outer is silent once it ended; ending and releasing are permanent;
   - a window notification reaches exactly the live subscriptions of that
     window, a window without live subscription is silent. *)
From RxVerif Require Import Base.Prelude Ops.Machine Ops.MultiWin.

Local Arguments Multi.mem : simpl never.
Local Arguments Multi.remove : simpl never.
Local Arguments Multi.sort_nat : simpl never.

Section Facts.
Context {A W B : Type}.

(* ------------------------------------------------------------ invariant -- *)
Definition rinv1 (r : rstate W) : Prop :=
  r_released r = true -> r_live r = [] /\ r_timers r = [] /\ r_outer r = false /\ r_wsubs r = [].
Definition rinv2 (r : rstate W) : Prop :=
  r_outer r = false -> r_wsubs r = [] -> r_released r = true.
Definition rinv (r : rstate W) : Prop := rinv1 r /\ rinv2 r.

Lemma rinv0 : rinv (@rstate0 W).
Proof. split; intros H; cbn in *; discriminate. Qed.

Lemma maybe_release_inv (r : rstate W) : rinv1 r -> rinv (fst (@maybe_release W B r)).
Proof.
  intros H1. unfold maybe_release.
  destruct r as [lv tm ou ws wt hd rl]. cbn [r_outer r_released r_wsubs r_live r_timers r_wterm r_handed].
  destruct ou, rl, ws; cbn [negb andb fst]; split; intros Ha; cbn in *; try discriminate; auto.
  all: try (intros Hb; discriminate).
  all: try (destruct (H1 eq_refl) as (? & ? & ? & ?); discriminate).
Qed.

Lemma sub_win_inv (r : rstate W) g : rinv r -> rinv (fst (@sub_win W B r g)).
Proof.
  intros [H1 H2]. unfold sub_win. destruct (wterm_of g (r_wterm r)); [split; assumption|].
  destruct (mem g (r_handed r) && negb (r_released r)) eqn:E; [|split; assumption].
  apply andb_true_iff in E. destruct E as [_ E]. apply negb_true_iff in E.
  destruct r as [lv tm ou ws wt hd rl]. cbn in *. subst rl. split; intros Ha; cbn in *; try discriminate.
  intros Hb. destruct ws; discriminate.
Qed.

Context (imm : nat -> bool).

Lemma apply_cmd_inv (r : rstate W) (c : cmd W B) : rinv r -> rinv (fst (apply_cmd imm r c)).
Proof.
  intros Hr. pose proof Hr as [H1 H2]. destruct c; cbn [apply_cmd].
  - destruct (r_outer r); exact Hr.
  - destruct r as [lv tm ou ws wt hd rl]. cbn [r_outer r_live r_timers r_wsubs r_wterm r_handed r_released].
    destruct ou; [|exact Hr].
    assert (Hr1 : rinv (RState lv tm true ws wt (hd ++ [g]) rl)).
    { split; intros Ha; cbn in *; auto. }
    destruct (imm g); [|cbn [fst]; exact Hr1].
    pose proof (sub_win_inv _ g Hr1) as Hs.
    destruct (sub_win _ g) as [r2 o]. cbn [fst] in *. exact Hs.
  - destruct (wterm_of g (r_wterm r)); [exact Hr|].
    destruct (is_terminal e); [|exact Hr].
    match goal with |- context [maybe_release ?r1] =>
      pose proof (maybe_release_inv r1) as Hm; destruct (maybe_release r1) as [r2 o2] end.
    cbn [fst] in *. apply Hm.
    destruct r as [lv tm ou ws wt hd rl]. unfold rinv1 in *. cbn in *. intros Ha.
    destruct (H1 Ha) as (-> & -> & -> & ->). auto.
  - destruct (r_released r) eqn:E; [exact Hr|].
    destruct r; cbn in *. subst. split; intros Ha; cbn in *; [discriminate|auto].
  - destruct (mem k (r_live r)); [|exact Hr].
    destruct r as [lv tm ou ws wt hd rl]; unfold rinv1, rinv2 in *; cbn in *. split; intros Ha; cbn in *; auto.
    destruct (H1 Ha) as (-> & -> & -> & ->). auto.
  - destruct (r_released r) eqn:E; [exact Hr|].
    destruct r; cbn in *. subst. split; intros Ha; cbn in *; [discriminate|auto].
  - destruct (mem tag (r_timers r)); [|exact Hr].
    destruct r as [lv tm ou ws wt hd rl]; unfold rinv1, rinv2 in *; cbn in *. split; intros Ha; cbn in *; auto.
    destruct (H1 Ha) as (-> & -> & -> & ->). auto.
  - exact Hr.
  - destruct (r_released r) eqn:E; [exact Hr|].
    destruct r; cbn in *. subst. split; intros Ha; cbn in *; [discriminate|auto].
Qed.

Lemma apply_cmds_inv (cs : list (cmd W B)) : forall r, rinv r -> rinv (fst (apply_cmds imm r cs)).
Proof.
  induction cs as [|c t IH]; intros r Hr; [exact Hr|]. cbn [apply_cmds].
  pose proof (apply_cmd_inv r c Hr) as H1. destruct (apply_cmd imm r c) as [r1 o1]. cbn [fst] in H1.
  specialize (IH r1 H1). destruct (apply_cmds imm r1 t) as [r2 o2]. exact IH.
Qed.

Lemma end_outer_inv (r : rstate W) : rinv r -> rinv (fst (@end_outer W B r)).
Proof.
  intros [H1 H2]. unfold end_outer. apply maybe_release_inv.
  destruct r as [lv tm ou ws wt hd rl]. unfold rinv1 in *. cbn in *. intros Ha.
  destruct (H1 Ha) as (-> & -> & -> & ->). auto.
Qed.

Lemma finish_inv (r : rstate W) f : rinv r -> rinv (fst (@finish W B r f)).
Proof.
  intros Hr. destruct f; cbn [finish]; [exact Hr| |];
    (destruct (r_outer r); [|exact Hr]);
    pose proof (end_outer_inv r Hr) as He; destruct (end_outer r) as [r' o]; exact He.
Qed.

Context (m : machine A W B).

Lemma deliver_inv s (r : rstate W) now i : rinv r -> rinv (snd (fst (deliver imm m s r now i))).
Proof.
  intros Hr. unfold deliver. destruct (x_step m s now i) as [[s' cs] f].
  pose proof (apply_cmds_inv cs r Hr) as H1. destruct (apply_cmds imm r cs) as [r1 o1]. cbn [fst] in H1.
  pose proof (finish_inv r1 f H1) as H2. destruct (finish r1 f) as [r2 o2]. cbn [fst] in H2.
  destruct i as [k e|tag| | |]; cbn [fst snd]; try exact H2.
  destruct (is_terminal e && mem k (r_live r2)) eqn:E; cbn [fst snd]; [|exact H2].
  apply andb_true_iff in E. destruct E as [_ E].
  destruct H2 as [Ha Hb]. destruct r2 as [lv tm ou ws wt hd rl]. unfold rinv1, rinv2 in *.
  split; intros Hc; cbn in *; auto.
  destruct (Ha Hc) as (-> & -> & -> & ->). discriminate.
Qed.

Lemma rstep_inv s (r : rstate W) now i : rinv r -> rinv (snd (fst (rstep imm m s r now i))).
Proof.
  intros Hr. pose proof Hr as [H1 H2]. destruct i as [k e|tag| |g|g]; cbn [rstep].
  - destruct (mem k (r_live r)); [apply deliver_inv; exact Hr|exact Hr].
  - destruct (mem tag (r_timers r)) eqn:E; [|exact Hr]. apply deliver_inv.
    destruct r as [lv tm ou ws wt hd rl]. unfold rinv1, rinv2 in *. split; intros Ha; cbn in *; auto.
    destruct (H1 Ha) as (-> & -> & -> & ->). discriminate.
  - destruct (r_outer r); [|exact Hr].
    pose proof (end_outer_inv r Hr) as He. destruct (end_outer r) as [r' o]. exact He.
  - pose proof (sub_win_inv r g Hr) as Hs. destruct (sub_win r g) as [r' o]. exact Hs.
  - destruct (mem g (r_wsubs r)) eqn:E; [|exact Hr].
    match goal with |- context [maybe_release ?r1] =>
      pose proof (maybe_release_inv r1) as Hm; destruct (maybe_release r1) as [r2 o2] end.
    cbn [fst snd] in *. apply Hm.
    destruct r as [lv tm ou ws wt hd rl]. unfold rinv1 in *. cbn in *. intros Ha.
    destruct (H1 Ha) as (-> & -> & -> & ->). discriminate.
Qed.

Lemma after_inv ins : forall s (r : rstate W), rinv r -> rinv (snd (after imm m s r ins)).
Proof.
  induction ins as [|[now i] rest IH]; intros s r Hr; [exact Hr|]. cbn [after].
  pose proof (rstep_inv s r now i Hr) as H1. destruct (rstep imm m s r now i) as [[s' r'] o].
  apply IH. exact H1.
Qed.

Lemma after_snd ins : forall s (r : rstate W) k,
  snd (after imm m s r ins) = snd (run_from imm m s r k ins).
Proof.
  induction ins as [|[now i] rest IH]; intros s r k; [reflexivity|]. cbn [after run_from].
  destruct (rstep imm m s r now i) as [[s' r'] o]. rewrite (IH s' r' (S k)).
  destruct (run_from imm m s' r' (S k) rest). reflexivity.
Qed.

Lemma start_inv : rinv (snd (start_state imm m)).
Proof.
  unfold start_state. destruct (x_start m) as [[s0 cs] f]. cbn [snd].
  apply finish_inv, apply_cmds_inv, rinv0.
Qed.

Lemma run_final ins :
  snd (run imm m ins) = snd (after imm m (fst (start_state imm m)) (snd (start_state imm m)) ins).
Proof.
  unfold run. rewrite (after_snd ins _ _ 1).
  destruct (run_from imm m (fst (start_state imm m)) (snd (start_state imm m)) 1 ins). reflexivity.
Qed.

(* the invariant holds after every run *)
Theorem run_inv ins : rinv (snd (run imm m ins)).
Proof. rewrite run_final. apply after_inv, start_inv. Qed.

(* C02 clause: once the outer subscription has ended AND no subscription of a
   handed window/group is live, no source subscription and no timer is left *)
Theorem run_all_ended_released ins :
  r_outer (snd (run imm m ins)) = false -> r_wsubs (snd (run imm m ins)) = [] ->
  r_live (snd (run imm m ins)) = [] /\ r_timers (snd (run imm m ins)) = [].
Proof.
  intros Ho Hw. destruct (run_inv ins) as [H1 H2].
  destruct (H1 (H2 Ho Hw)) as (Ha & Hb & _). split; assumption.
Qed.

(* and conversely the runner has released ONLY in that situation *)
Theorem run_released_only_when_all_ended ins :
  r_released (snd (run imm m ins)) = true ->
  r_outer (snd (run imm m ins)) = false /\ r_wsubs (snd (run imm m ins)) = [].
Proof. intros H. destruct (run_inv ins) as [H1 _]. destruct (H1 H) as (_ & _ & Ha & Hb). split; assumption. Qed.

(* ------------------------------------------ ending / releasing is permanent -- *)
Lemma maybe_release_mono (r : rstate W) :
  (r_released r = true -> r_released (fst (@maybe_release W B r)) = true)
  /\ (r_outer r = false -> r_outer (fst (@maybe_release W B r)) = false).
Proof.
  unfold maybe_release. destruct r as [lv tm ou ws wt hd rl]. cbn.
  destruct ou, rl, ws; cbn; auto.
Qed.

Lemma sub_win_mono (r : rstate W) g :
  r_released (fst (@sub_win W B r g)) = r_released r /\ r_outer (fst (@sub_win W B r g)) = r_outer r
  /\ r_live (fst (@sub_win W B r g)) = r_live r /\ r_timers (fst (@sub_win W B r g)) = r_timers r.
Proof.
  unfold sub_win. destruct (wterm_of g (r_wterm r)); [auto|].
  destruct (mem g (r_handed r) && negb (r_released r)); auto.
Qed.

Ltac mono_fin := cbn [fst]; split; intros; auto; try congruence.

Lemma apply_cmd_mono (r : rstate W) (c : cmd W B) :
  (r_released r = true -> r_released (fst (apply_cmd imm r c)) = true)
  /\ (r_outer r = false -> r_outer (fst (apply_cmd imm r c)) = false).
Proof.
  destruct c; cbn [apply_cmd].
  - destruct (r_outer r) eqn:Eo; mono_fin.
  - destruct (r_outer r) eqn:Eo; [|mono_fin]. split; [|congruence].
    destruct (imm g); [|cbn; auto].
    match goal with |- context [sub_win ?r1 g] =>
      destruct (sub_win_mono r1 g) as (Ha & _); destruct (sub_win r1 g) as [r2 o] end.
    cbn [fst] in *. cbn in Ha. rewrite Ha. auto.
  - destruct (wterm_of g (r_wterm r)); [mono_fin|].
    destruct (is_terminal e); [|mono_fin].
    match goal with |- context [maybe_release ?r1] =>
      destruct (maybe_release_mono r1) as [Ha Hb]; destruct (maybe_release r1) as [r2 o2] end.
    cbn [fst] in *. destruct r; cbn in *. split; auto.
  - destruct (r_released r) eqn:E; [mono_fin|]. destruct r; cbn in *. split; auto.
  - destruct (mem k (r_live r)); [|mono_fin]. destruct r; cbn in *. split; auto.
  - destruct (r_released r) eqn:E; [mono_fin|]. destruct r; cbn in *. split; auto.
  - destruct (mem tag (r_timers r)); [|mono_fin]. destruct r; cbn in *. split; auto.
  - mono_fin.
  - destruct (r_released r) eqn:E; [mono_fin|]. destruct r; cbn in *. split; auto.
Qed.

Lemma apply_cmds_mono (cs : list (cmd W B)) : forall r,
  (r_released r = true -> r_released (fst (apply_cmds imm r cs)) = true)
  /\ (r_outer r = false -> r_outer (fst (apply_cmds imm r cs)) = false).
Proof.
  induction cs as [|c t IH]; intros r; [auto|]. cbn [apply_cmds].
  destruct (apply_cmd_mono r c) as [Ha Hb]. destruct (apply_cmd imm r c) as [r1 o1]. cbn [fst] in *.
  destruct (IH r1) as [Hc Hd]. destruct (apply_cmds imm r1 t) as [r2 o2]. cbn [fst] in *. auto.
Qed.

Lemma end_outer_mono (r : rstate W) :
  (r_released r = true -> r_released (fst (@end_outer W B r)) = true)
  /\ r_outer (fst (@end_outer W B r)) = false.
Proof.
  unfold end_outer.
  match goal with |- context [maybe_release ?r1] => destruct (maybe_release_mono r1) as [Ha Hb] end.
  destruct r; cbn in *. auto.
Qed.

Lemma finish_mono (r : rstate W) f :
  (r_released r = true -> r_released (fst (@finish W B r f)) = true)
  /\ (r_outer r = false -> r_outer (fst (@finish W B r f)) = false).
Proof.
  destruct f; cbn [finish]; [auto| |];
    (destruct (r_outer r) eqn:E; [|auto]);
    destruct (end_outer_mono r) as [Ha Hb]; destruct (end_outer r) as [r' o]; cbn [fst] in *;
    (split; [exact Ha|discriminate]).
Qed.

Lemma deliver_mono s (r : rstate W) now i :
  (r_released r = true -> r_released (snd (fst (deliver imm m s r now i))) = true)
  /\ (r_outer r = false -> r_outer (snd (fst (deliver imm m s r now i))) = false).
Proof.
  unfold deliver. destruct (x_step m s now i) as [[s' cs] f].
  destruct (apply_cmds_mono cs r) as [Ha Hb]. destruct (apply_cmds imm r cs) as [r1 o1]. cbn [fst] in *.
  destruct (finish_mono r1 f) as [Hc Hd]. destruct (finish r1 f) as [r2 o2]. cbn [fst] in *.
  destruct i as [k e|tag| | |]; cbn [fst snd]; auto.
  all: try (destruct (is_terminal e && mem k (r_live r2)); cbn [fst snd]; auto; destruct r2; cbn in *; auto).
Qed.

Lemma rstep_mono s (r : rstate W) now i :
  (r_released r = true -> r_released (snd (fst (rstep imm m s r now i))) = true)
  /\ (r_outer r = false -> r_outer (snd (fst (rstep imm m s r now i))) = false).
Proof.
  destruct i as [k e|tag| |g|g]; cbn [rstep].
  - destruct (mem k (r_live r)); [apply deliver_mono|auto].
  - destruct (mem tag (r_timers r)); [|auto].
    match goal with |- context [deliver imm m s ?r1 now ?i] => destruct (deliver_mono s r1 now i) as [Ha Hb] end.
    destruct r; cbn in *. auto.
  - destruct (r_outer r) eqn:E; [|auto].
    destruct (end_outer_mono r) as [Ha Hb]. destruct (end_outer r) as [r' o]. cbn [fst snd] in *. auto.
  - destruct (sub_win_mono r g) as (Ha & Hb & _). destruct (sub_win r g) as [r' o]. cbn [fst snd] in *.
    rewrite Ha, Hb. auto.
  - destruct (mem g (r_wsubs r)); [|auto].
    match goal with |- context [maybe_release ?r1] =>
      destruct (maybe_release_mono r1) as [Ha Hb]; destruct (maybe_release r1) as [r2 o2] end.
    cbn [fst snd] in *. destruct r; cbn in *. auto.
Qed.

Lemma after_mono ins : forall s (r : rstate W),
  (r_released r = true -> r_released (snd (after imm m s r ins)) = true)
  /\ (r_outer r = false -> r_outer (snd (after imm m s r ins)) = false).
Proof.
  induction ins as [|[now i] rest IH]; intros s r; [auto|]. cbn [after].
  destruct (rstep_mono s r now i) as [Ha Hb]. destruct (rstep imm m s r now i) as [[s' r'] o]. cbn [fst snd] in *.
  destruct (IH s' r') as [Hc Hd]. auto.
Qed.

(* -------------------------------- C03: the outer is silent once it ended -- *)
Definition outer_obs (o : obs W B) : bool := match o with OEmit _ | OHand _ _ => true | _ => false end.
Definition outer_silent (o : list (obs W B)) : Prop := forall x, In x o -> outer_obs x = false.

Lemma outer_silent_app a b : outer_silent a -> outer_silent b -> outer_silent (a ++ b).
Proof. intros Ha Hb x Hx. apply in_app_or in Hx. destruct Hx; auto. Qed.
Lemma outer_silent_nil : outer_silent [].
Proof. intros x []. Qed.

Lemma release_obs_silent (l1 l2 : list nat) : outer_silent (map (@OUnsub W B) l1 ++ map (@OCancel W B) l2).
Proof.
  intros x Hx. apply in_app_or in Hx. destruct Hx as [Hx|Hx]; apply in_map_iff in Hx; destruct Hx as [j [<- _]]; reflexivity.
Qed.

Lemma maybe_release_silent (r : rstate W) : outer_silent (snd (@maybe_release W B r)).
Proof.
  unfold maybe_release.
  destruct (negb (r_outer r) && negb (r_released r) && match r_wsubs r with [] => true | _ => false end);
    cbn [snd]; [apply release_obs_silent|apply outer_silent_nil].
Qed.

Lemma sub_win_silent (r : rstate W) g : outer_silent (snd (@sub_win W B r g)).
Proof.
  unfold sub_win. destruct (wterm_of g (r_wterm r)); cbn [snd].
  - intros x [<-|[]]. reflexivity.
  - destruct (mem g (r_handed r) && negb (r_released r)); apply outer_silent_nil.
Qed.

Lemma repeat_silent g (e : ev W) n : outer_silent (repeat (@OWin W B g e) n).
Proof. intros x Hx. apply repeat_spec in Hx. now subst. Qed.

Lemma apply_cmd_silent (r : rstate W) (c : cmd W B) :
  r_outer r = false -> outer_silent (snd (apply_cmd imm r c)).
Proof.
  intros Ho. destruct c; cbn [apply_cmd]; rewrite ?Ho; cbn [snd]; try apply outer_silent_nil.
  - destruct (wterm_of g (r_wterm r)); [apply outer_silent_nil|].
    destruct (is_terminal e); [|apply repeat_silent].
    match goal with |- context [maybe_release ?r1] =>
      pose proof (maybe_release_silent r1) as Hm; destruct (maybe_release r1) as [r2 o2] end.
    cbn [snd] in *. apply outer_silent_app; [apply repeat_silent|exact Hm].
  - destruct (r_released r); cbn [snd]; intros x Hx; cbn in Hx; intuition (subst; reflexivity).
  - destruct (mem k (r_live r)); cbn [snd]; intros x Hx; cbn in Hx; intuition (subst; reflexivity).
  - destruct (r_released r); cbn [snd]; intros x Hx; cbn in Hx; intuition (subst; reflexivity).
  - destruct (mem tag (r_timers r)); cbn [snd]; intros x Hx; cbn in Hx; intuition (subst; reflexivity).
  - intros x [<-|[]]. reflexivity.
  - destruct (r_released r); cbn [snd]; intros x Hx; cbn in Hx; intuition (subst; reflexivity).
Qed.

Lemma apply_cmds_silent (cs : list (cmd W B)) : forall r,
  r_outer r = false -> outer_silent (snd (apply_cmds imm r cs)).
Proof.
  induction cs as [|c t IH]; intros r Ho; [apply outer_silent_nil|]. cbn [apply_cmds].
  pose proof (apply_cmd_silent r c Ho) as H1. destruct (apply_cmd_mono r c) as [_ H2].
  destruct (apply_cmd imm r c) as [r1 o1]. cbn [fst snd] in *.
  specialize (IH r1 (H2 Ho)). destruct (apply_cmds imm r1 t) as [r2 o2]. cbn [snd] in *.
  apply outer_silent_app; assumption.
Qed.

Lemma rstep_silent s (r : rstate W) now i :
  r_outer r = false -> outer_silent (snd (rstep imm m s r now i)).
Proof.
  intros Ho.
  assert (D : forall r0, r_outer r0 = false -> outer_silent (snd (deliver imm m s r0 now i))).
  { intros r0 H0. unfold deliver. destruct (x_step m s now i) as [[s' cs] f].
    pose proof (apply_cmds_silent cs r0 H0) as H1. destruct (apply_cmds_mono cs r0) as [_ H2].
    destruct (apply_cmds imm r0 cs) as [r1 o1]. cbn [fst snd] in *. specialize (H2 H0).
    assert (Hf : finish (B:=B) r1 f = (r1, [])) by (destruct f; cbn [finish]; rewrite ?H2; reflexivity).
    rewrite Hf.
    destruct i as [k e|tag| | |]; cbn [snd]; rewrite ?app_nil_r; try exact H1.
    destruct (is_terminal e && mem k (r_live r1)); cbn [snd]; rewrite ?app_nil_r; [|exact H1].
    apply outer_silent_app; [exact H1|]. intros x [<-|[]]. reflexivity. }
  destruct i as [k e|tag| |g|g]; cbn [rstep].
  - destruct (mem k (r_live r)); [apply D; exact Ho|apply outer_silent_nil].
  - destruct (mem tag (r_timers r)); [apply D; destruct r; exact Ho|apply outer_silent_nil].
  - rewrite Ho. apply outer_silent_nil.
  - pose proof (sub_win_silent r g) as Hs. destruct (sub_win r g) as [r' o]. exact Hs.
  - destruct (mem g (r_wsubs r)); [|apply outer_silent_nil].
    match goal with |- context [maybe_release ?r1] =>
      pose proof (maybe_release_silent r1) as Hm; destruct (maybe_release r1) as [r2 o2] end. exact Hm.
Qed.

(* after the outer subscription ended (its terminal, or the subscriber's
   dispose) nothing is observed on the outer any more, whatever comes *)
Theorem run_from_outer_silent ins : forall s (r : rstate W) k,
  r_outer r = false -> forall x, In x (fst (run_from imm m s r k ins)) -> outer_obs (snd x) = false.
Proof.
  induction ins as [|[now i] rest IH]; intros s r k Ho x Hx; [destruct Hx|]. cbn [run_from] in Hx.
  pose proof (rstep_silent s r now i Ho) as H1. destruct (rstep_mono s r now i) as [_ H2].
  destruct (rstep imm m s r now i) as [[s' r'] o]. cbn [fst snd] in *.
  specialize (IH s' r' (S k) (H2 Ho)). destruct (run_from imm m s' r' (S k) rest) as [tr rf]. cbn [fst] in *.
  apply in_app_or in Hx. destruct Hx as [Hx|Hx]; [|apply IH; exact Hx].
  apply in_map_iff in Hx. destruct Hx as [y [<- Hy]]. apply H1. exact Hy.
Qed.

(* the subscriber's dispose ends the outer at once *)
Lemma rstep_dispose_ends s (r : rstate W) now :
  r_outer (snd (fst (rstep imm m s r now IDispose))) = false.
Proof.
  cbn [rstep]. destruct (r_outer r) eqn:E; [|exact E].
  destruct (end_outer_mono r) as [_ Hb]. destruct (end_outer r) as [r' o]. exact Hb.
Qed.

(* --------------------- C03 exception: release is the only way a source goes -- *)
Lemma mem_app_l k l j : mem k l = true -> mem k (l ++ [j]) = true.
Proof. unfold Multi.mem. intros H. rewrite existsb_app, H. reflexivity. Qed.

Lemma remove_cons k j (t : list nat) : remove k (j :: t) = if Nat.eqb k j then t else j :: remove k t.
Proof. reflexivity. Qed.

Lemma mem_remove_other k j l : j <> k -> mem k l = true -> mem k (remove j l) = true.
Proof.
  intros Hne. unfold Multi.mem. induction l as [|x t IH]; intros H; [discriminate|].
  rewrite remove_cons. destruct (Nat.eqb_spec j x) as [->|Hx].
  - cbn [existsb] in H. destruct (Nat.eqb_spec k x) as [->|]; [congruence|exact H].
  - cbn [existsb] in *. destruct (Nat.eqb k x); [reflexivity|]. apply IH. exact H.
Qed.

Definition is_unsub (k : nat) (c : cmd W B) : bool :=
  match c with CUnsub j => Nat.eqb j k | _ => false end.

Lemma apply_cmd_keeps k (r : rstate W) (c : cmd W B) :
  mem k (r_live r) = true -> is_unsub k c = false ->
  r_released (fst (apply_cmd imm r c)) = false ->
  mem k (r_live (fst (apply_cmd imm r c))) = true.
Proof.
  intros Hk Hc. destruct c; cbn [apply_cmd].
  - destruct (r_outer r); auto.
  - destruct (r_outer r); [|auto]. destruct (imm g); [|auto].
    match goal with |- context [sub_win ?r1 g] =>
      destruct (sub_win_mono r1 g) as (_ & _ & Ha & _); destruct (sub_win r1 g) as [r2 o] end.
    cbn [fst] in *. cbn in Ha. intros _. rewrite Ha. exact Hk.
  - destruct (wterm_of g (r_wterm r)); [auto|]. destruct (is_terminal e); [|auto].
    unfold maybe_release. cbn [r_outer r_released r_wsubs r_live r_timers r_wterm r_handed].
    destruct (negb (r_outer r) && negb (r_released r) &&
              match filter (fun j => negb (Nat.eqb g j)) (r_wsubs r) with [] => true | _ => false end);
      cbn [fst r_released r_live]; [discriminate|auto].
  - destruct (r_released r); [auto|]. cbn [fst r_live]. intros _. apply mem_app_l. exact Hk.
  - cbn [is_unsub] in Hc. apply Nat.eqb_neq in Hc.
    destruct (mem k0 (r_live r)); [|auto]. cbn [fst r_live]. intros _. apply mem_remove_other; assumption.
  - destruct (r_released r); auto.
  - destruct (mem tag (r_timers r)); auto.
  - auto.
  - destruct (r_released r); [auto|]. cbn [fst r_live]. intros _. apply mem_app_l. exact Hk.
Qed.

Lemma apply_cmds_keeps k (cs : list (cmd W B)) : forall r,
  mem k (r_live r) = true -> existsb (is_unsub k) cs = false ->
  r_released (fst (apply_cmds imm r cs)) = false ->
  mem k (r_live (fst (apply_cmds imm r cs))) = true.
Proof.
  induction cs as [|c t IH]; intros r Hk Hc Hrel; [exact Hk|]. cbn [apply_cmds] in *.
  cbn [existsb] in Hc. apply orb_false_iff in Hc. destruct Hc as [Hc1 Hc2].
  pose proof (apply_cmd_keeps k r c Hk Hc1) as H1.
  destruct (apply_cmd imm r c) as [r1 o1]. cbn [fst] in *.
  pose proof (proj1 (apply_cmds_mono t r1)) as Hm.
  specialize (IH r1). destruct (apply_cmds imm r1 t) as [r2 o2]. cbn [fst] in *.
  destruct (r_released r1) eqn:E; [rewrite Hm in Hrel by reflexivity; discriminate|].
  apply IH; auto.
Qed.

Lemma finish_keeps k (r : rstate W) f :
  mem k (r_live r) = true -> r_released (fst (@finish W B r f)) = false ->
  mem k (r_live (fst (@finish W B r f))) = true.
Proof.
  intros Hk. destruct f; cbn [finish]; [auto| |];
    (destruct (r_outer r); [|auto]); unfold end_outer, maybe_release;
    cbn [r_outer r_released r_wsubs r_live r_timers r_wterm r_handed negb andb];
    destruct (negb (r_released r) && match r_wsubs r with [] => true | _ => false end);
    cbn [fst r_released r_live]; try discriminate; auto.
Qed.

(* one boundary input: a subscribed source the step does not unsubscribe, and
   that is not terminating itself, is still subscribed afterwards UNLESS the
   runner released everything (outer ended and no window subscriber live) *)
Theorem rstep_keeps_source k s (r : rstate W) now i :
  mem k (r_live r) = true ->
  existsb (is_unsub k) (snd (fst (x_step m s now i))) = false ->
  (forall e, i = ISrc k e -> is_terminal e = false) ->
  r_released (snd (fst (rstep imm m s r now i))) = false ->
  mem k (r_live (snd (fst (rstep imm m s r now i)))) = true.
Proof.
  intros Hk Hc Hi.
  assert (D : forall r0, mem k (r_live r0) = true ->
     r_released (snd (fst (deliver imm m s r0 now i))) = false ->
     mem k (r_live (snd (fst (deliver imm m s r0 now i)))) = true).
  { intros r0 H0. unfold deliver. destruct (x_step m s now i) as [[s' cs] f]. cbn [fst snd] in Hc.
    pose proof (apply_cmds_keeps k cs r0 H0 Hc) as H1.
    destruct (apply_cmds imm r0 cs) as [r1 o1]. cbn [fst] in *.
    pose proof (finish_keeps k r1 f) as H2. pose proof (proj1 (finish_mono r1 f)) as Hm.
    destruct (finish r1 f) as [r2 o2]. cbn [fst] in *.
    destruct i as [j e|tag| | |]; cbn [fst snd]; intros Hrel;
      try (apply H2; [apply H1|exact Hrel];
           destruct (r_released r1) eqn:E; [rewrite Hm in Hrel by reflexivity; discriminate|reflexivity]).
    destruct (is_terminal e && mem j (r_live r2)) eqn:Et; cbn [fst snd r_released r_live] in *.
    - assert (Hr2 : mem k (r_live r2) = true).
      { apply H2; [apply H1|exact Hrel].
        destruct (r_released r1) eqn:E; [rewrite Hm in Hrel by reflexivity; discriminate|reflexivity]. }
      apply andb_true_iff in Et. destruct Et as [Et _].
      destruct (Nat.eq_dec j k) as [->|Hne]; [rewrite (Hi e eq_refl) in Et; discriminate|].
      apply mem_remove_other; assumption.
    - apply H2; [apply H1|exact Hrel].
      destruct (r_released r1) eqn:E; [rewrite Hm in Hrel by reflexivity; discriminate|reflexivity]. }
  destruct i as [j e|tag| |g|g]; cbn [rstep].
  - destruct (mem j (r_live r)); [apply D; exact Hk|auto].
  - destruct (mem tag (r_timers r)); [|auto]. apply D. destruct r; exact Hk.
  - destruct (r_outer r); [|auto]. unfold end_outer, maybe_release.
    cbn [r_outer r_released r_wsubs r_live r_timers r_wterm r_handed negb andb].
    destruct (negb (r_released r) && match r_wsubs r with [] => true | _ => false end);
      cbn [fst snd r_released r_live]; [discriminate|auto].
  - destruct (sub_win_mono r g) as (_ & _ & Ha & _). destruct (sub_win r g) as [r' o]. cbn [fst snd] in *.
    intros _. rewrite Ha. exact Hk.
  - destruct (mem g (r_wsubs r)); [|auto]. unfold maybe_release.
    cbn [r_outer r_released r_wsubs r_live r_timers r_wterm r_handed].
    destruct (negb (r_outer r) && negb (r_released r) && match remove g (r_wsubs r) with [] => true | _ => false end);
      cbn [fst snd r_released r_live]; [discriminate|auto].
Qed.

(* a machine that never unsubscribes source k itself *)
Definition never_unsubs (k : nat) : Prop :=
  forall s now i, existsb (is_unsub k) (snd (fst (x_step m s now i))) = false.

(* whole runs: while the outer subscription or some window/group subscriber is
   live (= not released), source k stays subscribed until it terminates *)
Theorem source_stays_subscribed k (ins : list (Z * inp A)) : forall s (r : rstate W),
  never_unsubs k -> mem k (r_live r) = true ->
  (forall now e, In (now, ISrc k e) ins -> is_terminal e = false) ->
  r_released (snd (after imm m s r ins)) = false ->
  mem k (r_live (snd (after imm m s r ins))) = true.
Proof.
  induction ins as [|[now i] rest IH]; intros s r Hn Hk Hi Hrel; [exact Hk|]. cbn [after] in *.
  pose proof (rstep_keeps_source k s r now i Hk (Hn s now i)) as H1.
  destruct (rstep imm m s r now i) as [[s' r'] o]. cbn [fst snd] in *.
  destruct (after_mono rest s' r') as [Hm _].
  apply IH; auto.
  - apply H1.
    + intros e ->. apply (Hi now e). left. reflexivity.
    + destruct (r_released r') eqn:E; [rewrite Hm in Hrel by reflexivity; discriminate|reflexivity].
  - intros n e Hin. apply (Hi n e). right. exact Hin.
Qed.

(* ---------------------------------- delivery on a window / group subject -- *)
Definition wobs (g : nat) (o : list (obs W B)) : list (ev W) :=
  flat_map (fun x => match x with OWin j e => if Nat.eqb g j then [e] else [] | _ => [] end) o.

Lemma wobs_app g a b : wobs g (a ++ b) = wobs g a ++ wobs g b.
Proof. unfold wobs. apply flat_map_app. Qed.

Lemma wobs_repeat_same g (e : ev W) n : wobs g (repeat (OWin g e) n) = repeat e n.
Proof. induction n as [|n IH]; [reflexivity|]. cbn. rewrite Nat.eqb_refl. cbn. f_equal. exact IH. Qed.
Lemma wobs_repeat_other g j (e : ev W) n : g <> j -> wobs g (repeat (OWin j e) n) = [].
Proof.
  intros Hne. induction n as [|n IH]; [reflexivity|]. cbn.
  destruct (Nat.eqb_spec g j); [congruence|]. exact IH.
Qed.

Lemma wobs_release g (r : rstate W) : wobs g (snd (@maybe_release W B r)) = [].
Proof.
  unfold maybe_release.
  destruct (negb (r_outer r) && negb (r_released r) && match r_wsubs r with [] => true | _ => false end);
    cbn [snd]; [|reflexivity].
  rewrite wobs_app.
  assert (H1 : forall l, wobs g (map (@OUnsub W B) l) = []) by (induction l; auto).
  assert (H2 : forall l, wobs g (map (@OCancel W B) l) = []) by (induction l; auto).
  now rewrite H1, H2.
Qed.

(* subject_g.on_xxx reaches exactly the live subscriptions of g -- once each --
   and nobody else; a terminated subject is silent *)
Theorem win_cmd_delivery (r : rstate W) g e j :
  wobs j (snd (apply_cmd imm r (CWin g e)))
  = if Nat.eqb j g
    then match wterm_of g (r_wterm r) with
         | Some _ => []
         | None => repeat e (count_of g (r_wsubs r))
         end
    else [].
Proof.
  cbn [apply_cmd]. destruct (wterm_of g (r_wterm r)).
  - cbn. destruct (Nat.eqb j g); reflexivity.
  - destruct (is_terminal e).
    + match goal with |- context [maybe_release ?r1] =>
        pose proof (wobs_release j r1) as Hm; destruct (maybe_release r1) as [r2 o2] end.
      cbn [snd] in *. rewrite wobs_app, Hm, app_nil_r.
      destruct (Nat.eqb_spec j g) as [->|Hne]; [apply wobs_repeat_same|apply wobs_repeat_other; exact Hne].
    + cbn [snd]. destruct (Nat.eqb_spec j g) as [->|Hne]; [apply wobs_repeat_same|apply wobs_repeat_other; exact Hne].
Qed.

(* ------------------------------------------------------------- unfolding -- *)
Lemma apply_cmds_app (a b : list (cmd W B)) : forall r,
  apply_cmds imm r (a ++ b)
  = (fst (apply_cmds imm (fst (apply_cmds imm r a)) b),
     snd (apply_cmds imm r a) ++ snd (apply_cmds imm (fst (apply_cmds imm r a)) b)).
Proof.
  induction a as [|c t IH]; intros r.
  - cbn. destruct (apply_cmds imm r b); reflexivity.
  - cbn [app apply_cmds]. destruct (apply_cmd imm r c) as [r1 o1]. rewrite IH.
    destruct (apply_cmds imm r1 t) as [r2 o2]. cbn [fst snd].
    destruct (apply_cmds imm r2 b) as [r3 o3]. cbn [fst snd]. now rewrite app_assoc.
Qed.

(* `for s in queue: s.on_next(x)` when every window of the queue is live and
   has exactly one subscriber *)
Lemma apply_cmds_wins_next (q : list nat) (x : W) (r : rstate W) :
  (forall g, In g q -> wterm_of g (r_wterm r) = None /\ count_of g (r_wsubs r) = 1%nat) ->
  apply_cmds (B:=B) imm r (map (fun g => CWin g (Next x)) q) = (r, map (fun g => OWin g (Next x)) q).
Proof.
  induction q as [|g t IH]; intros H; [reflexivity|]. cbn [map apply_cmds apply_cmd].
  destruct (H g (or_introl eq_refl)) as [H1 H2]. rewrite H1, H2. cbn [is_terminal repeat].
  rewrite IH by (intros j Hj; apply H; right; exact Hj). reflexivity.
Qed.

Lemma wterm_of_app g (l1 l2 : list (nat * ev W)) :
  wterm_of g (l1 ++ l2) = match wterm_of g l1 with Some e => Some e | None => wterm_of g l2 end.
Proof. induction l1 as [|[j e] t IH]; [reflexivity|]. cbn. destruct (Nat.eqb g j); auto. Qed.

Lemma count_of_filter_other g j (l : list nat) : g <> j ->
  count_of g (filter (fun x => negb (Nat.eqb j x)) l) = count_of g l.
Proof.
  intros Hne. unfold count_of. induction l as [|x t IH]; [reflexivity|]. cbn [filter].
  destruct (Nat.eqb_spec j x) as [->|Hx]; cbn [negb filter].
  - destruct (Nat.eqb_spec g x); [congruence|exact IH].
  - destruct (Nat.eqb g x); cbn [length]; rewrite IH; reflexivity.
Qed.

Lemma wobs_map_win k (q : list nat) (e : ev W) : NoDup q ->
  wobs k (map (fun g => @OWin W B g e) q) = if mem k q then [e] else [].
Proof.
  unfold Multi.mem. induction 1 as [|g t Hg Ht IH]; [reflexivity|]. cbn [map wobs flat_map existsb].
  fold (wobs k (map (fun g => @OWin W B g e) t)). rewrite IH.
  destruct (Nat.eqb_spec k g) as [->|Hne]; cbn [orb app]; [|reflexivity].
  assert (E : existsb (Nat.eqb g) t = false).
  { destruct (existsb (Nat.eqb g) t) eqn:Ex; [|reflexivity]. apply existsb_exists in Ex.
    destruct Ex as [y [Hy Hy2]]. apply Nat.eqb_eq in Hy2. subst y. contradiction. }
  rewrite E. reflexivity.
Qed.

(* `for s in queue: s.on_completed()/on_error(e)` while the outer is live: every
   window of the queue, having one subscriber each, sees the terminal once *)
Lemma apply_cmds_wins_term k (e : ev W) (q : list nat) : is_terminal e = true -> NoDup q -> forall r : rstate W,
  r_outer r = true ->
  (forall g, In g q -> wterm_of g (r_wterm r) = None /\ count_of g (r_wsubs r) = 1%nat) ->
  wobs k (snd (apply_cmds (B:=B) imm r (map (fun g => CWin g e) q))) = (if mem k q then [e] else [])
  /\ r_outer (fst (apply_cmds (B:=B) imm r (map (fun g => CWin g e) q))) = true.
Proof.
  intros He. induction 1 as [|g t Hg Ht IH]; intros r Ho H; [split; [reflexivity|exact Ho]|].
  cbn [map apply_cmds apply_cmd]. destruct (H g (or_introl eq_refl)) as [H1 H2]. rewrite H1, H2, He.
  unfold maybe_release. cbn [r_outer]. rewrite Ho. cbn [negb andb repeat app].
  match goal with |- context [apply_cmds imm ?r1 _] => specialize (IH r1) end.
  destruct IH as [IH1 IH2]; [reflexivity| |].
  { intros j Hj. destruct (H j (or_intror Hj)) as [Ha Hb]. cbn [r_wterm r_wsubs].
    assert (Hne : j <> g) by (intros ->; contradiction).
    rewrite wterm_of_app, Ha. cbn [wterm_of]. destruct (Nat.eqb_spec j g); [congruence|].
    rewrite count_of_filter_other by exact Hne. auto. }
  match goal with |- context [apply_cmds imm ?r1 ?cs] => destruct (apply_cmds imm r1 cs) as [r2 o2] end.
  cbn [fst snd] in *. split; [|exact IH2].
  cbn [wobs flat_map app]. fold (wobs k o2). rewrite IH1. unfold Multi.mem. cbn [existsb].
  destruct (Nat.eqb_spec k g) as [->|Hne]; cbn [orb app]; [|reflexivity].
  assert (E : existsb (Nat.eqb g) t = false).
  { destruct (existsb (Nat.eqb g) t) eqn:Ex; [|reflexivity]. apply existsb_exists in Ex.
    destruct Ex as [y [Hy Hy2]]. apply Nat.eqb_eq in Hy2. subst y. contradiction. }
  rewrite E. reflexivity.
Qed.

Lemma wobs_finish g (r : rstate W) f : wobs g (snd (@finish W B r f)) = [].
Proof.
  destruct f; cbn [finish]; [reflexivity| |]; (destruct (r_outer r); [|reflexivity]);
    unfold end_outer;
    match goal with |- context [maybe_release ?r1] =>
      pose proof (wobs_release g r1) as Hm; destruct (maybe_release r1) as [r2 o2] end;
    cbn [snd wobs flat_map app] in *; exact Hm.
Qed.

(* hands in an observation list *)
Definition hobs (o : list (obs W B)) : list (nat * Z) :=
  flat_map (fun x => match x with OHand g key => [(g, key)] | _ => [] end) o.
Lemma hobs_app a b : hobs (a ++ b) = hobs a ++ hobs b.
Proof. unfold hobs. apply flat_map_app. Qed.
Lemma hobs_repeat g (e : ev W) n : hobs (repeat (OWin g e) n) = [].
Proof. induction n; auto. Qed.
Lemma hobs_release (r : rstate W) : hobs (snd (@maybe_release W B r)) = [].
Proof.
  unfold maybe_release.
  destruct (negb (r_outer r) && negb (r_released r) && match r_wsubs r with [] => true | _ => false end);
    cbn [snd]; [|reflexivity].
  rewrite hobs_app.
  assert (H1 : forall l, hobs (map (@OUnsub W B) l) = []) by (induction l; auto).
  assert (H2 : forall l, hobs (map (@OCancel W B) l) = []) by (induction l; auto).
  now rewrite H1, H2.
Qed.
Lemma hobs_wins (e : ev W) (q : list nat) : forall r : rstate W,
  hobs (snd (apply_cmds (B:=B) imm r (map (fun g => CWin g e) q))) = [].
Proof.
  induction q as [|g t IH]; intros r; [reflexivity|]. cbn [map apply_cmds apply_cmd].
  destruct (wterm_of g (r_wterm r)).
  - specialize (IH r). destruct (apply_cmds imm r _) as [r2 o2]. exact IH.
  - destruct (is_terminal e).
    + match goal with |- context [maybe_release ?r1] =>
        pose proof (hobs_release r1) as Hm; destruct (maybe_release r1) as [r2 o2] end.
      specialize (IH r2). destruct (apply_cmds imm r2 _) as [r3 o3]. cbn [snd] in *.
      now rewrite !hobs_app, hobs_repeat, Hm, IH.
    + specialize (IH r). destruct (apply_cmds imm r _) as [r3 o3]. cbn [snd] in *.
      now rewrite hobs_app, hobs_repeat, IH.
Qed.
Lemma hobs_finish (r : rstate W) f : hobs (snd (@finish W B r f)) = [].
Proof.
  destruct f; cbn [finish]; [reflexivity| |]; (destruct (r_outer r); [|reflexivity]);
    unfold end_outer;
    match goal with |- context [maybe_release ?r1] =>
      pose proof (hobs_release r1) as Hm; destruct (maybe_release r1) as [r2 o2] end;
    cbn [snd hobs flat_map app] in *; exact Hm.
Qed.

(* the operator state after a boundary input: unchanged, or the handler's *)
Lemma rstep_state s (r : rstate W) now i :
  fst (fst (rstep imm m s r now i)) = s \/ fst (fst (rstep imm m s r now i)) = fst (fst (x_step m s now i)).
Proof.
  assert (D : forall r0, fst (fst (deliver imm m s r0 now i)) = fst (fst (x_step m s now i))).
  { intros r0. unfold deliver. destruct (x_step m s now i) as [[s' cs] f].
    destruct (apply_cmds imm r0 cs) as [r1 o1]. destruct (finish r1 f) as [r2 o2].
    destruct i as [k e| | | |]; try reflexivity.
    destruct (is_terminal e && mem k (r_live r2)); reflexivity. }
  destruct i as [k e|tag| |g|g]; cbn [rstep].
  - destruct (mem k (r_live r)); [right; apply D|left; reflexivity].
  - destruct (mem tag (r_timers r)); [right; apply D|left; reflexivity].
  - destruct (r_outer r); [destruct (end_outer r)|]; left; reflexivity.
  - destruct (sub_win r g). left. reflexivity.
  - destruct (mem g (r_wsubs r)); [destruct (maybe_release _)|]; left; reflexivity.
Qed.

(* an invariant of the handlers is an invariant of every run *)
Theorem after_state_inv (P : x_state m -> Prop) :
  (forall s now i, P s -> P (fst (fst (x_step m s now i)))) ->
  forall ins s (r : rstate W), P s -> P (fst (after imm m s r ins)).
Proof.
  intros Hstep. induction ins as [|[now i] rest IH]; intros s r Hs; [exact Hs|]. cbn [after].
  pose proof (rstep_state s r now i) as Hc. destruct (rstep imm m s r now i) as [[s' r'] o]. cbn [fst] in Hc.
  apply IH. destruct Hc as [->| ->]; [exact Hs|apply Hstep; exact Hs].
Qed.

Lemma run_from_cons s (r : rstate W) k now i rest :
  run_from imm m s r k ((now, i) :: rest)
  = (map (fun x => (k, x)) (snd (rstep imm m s r now i))
     ++ fst (run_from imm m (fst (fst (rstep imm m s r now i))) (snd (fst (rstep imm m s r now i))) (S k) rest),
     snd (run_from imm m (fst (fst (rstep imm m s r now i))) (snd (fst (rstep imm m s r now i))) (S k) rest)).
Proof.
  cbn [run_from]. destruct (rstep imm m s r now i) as [[s' r'] o]. cbn [fst snd].
  destruct (run_from imm m s' r' (S k) rest). reflexivity.
Qed.

Lemma run_unfold ins :
  run imm m ins
  = (map (fun x => (0%nat, x)) (start_obs imm m)
     ++ fst (run_from imm m (fst (start_state imm m)) (snd (start_state imm m)) 1 ins),
     snd (run_from imm m (fst (start_state imm m)) (snd (start_state imm m)) 1 ins)).
Proof. unfold run. destruct (run_from imm m _ _ 1 ins). reflexivity. Qed.
End Facts.

Lemma wevents_app {W B} g (a b : list (nat * obs W B)) : wevents g (a ++ b) = wevents g a ++ wevents g b.
Proof. unfold wevents. apply flat_map_app. Qed.

Lemma wevents_tag {W B} g k (o : list (obs W B)) : wevents g (map (fun x => (k, x)) o) = wobs g o.
Proof.
  unfold wevents, wobs. induction o as [|x t IH]; [reflexivity|]. cbn [map flat_map snd]. now rewrite IH.
Qed.

Lemma hands_app {W B} (a b : list (nat * obs W B)) : hands (a ++ b) = hands a ++ hands b.
Proof. unfold hands. apply flat_map_app. Qed.

Lemma hands_tag {W B} k (o : list (obs W B)) : hands (map (fun x => (k, x)) o) = hobs o.
Proof.
  unfold hands, hobs. induction o as [|x t IH]; [reflexivity|]. cbn [map flat_map snd]. now rewrite IH.
Qed.
