(* C13: the pairing rule of zip as a statement about [run] over the FULL input alphabet:
   the i-th tuple emitted consists of the i-th element of every source, where the elements
   of a source are those it delivered while subscribed (before its own completion). *)
From RxVerif Require Import Base.Prelude Ops.Machine Ops.MachineFacts Ops.Multi Ops.MultiFacts
  Ops.RunLemmas Ops.Combinators Ops.MergeFacts Ops.CombineFacts Ops.ZipSpecFacts.

Local Arguments Nat.ltb : simpl never.
Local Arguments Nat.leb : simpl never.

Definition tuples {B} (l : list (nat * ev B)) : list B :=
  flat_map (fun pe => match snd pe with Next b => [b] | _ => [] end) l.

Section ZipPair.
Context {A : Type}.

(* what each source delivers while it is subscribed: elements of one of the n sources up
   to that source's own termination, up to the subscriber's dispose *)
Fixpoint zip_hists (n : nat) (hists : list (list A)) (done : list bool) (ins : list (Z * inp A))
  : list (list A) :=
  match ins with
  | [] => hists
  | (_, ISrc k e) :: t =>
      if Nat.ltb k n && negb (nth k done true) then
        match e with
        | Next x => zip_hists n (nth_set k (nth k hists [] ++ [x]) hists) done t
        | _ => zip_hists n hists (nth_set k true done) t
        end
      else zip_hists n hists done t
  | (_, ITick _) :: t => zip_hists n hists done t
  | (_, IDispose) :: _ => hists
  end.

Lemma nth_nth_set_cases {X} j k (v d : X) l : (k < length l)%nat ->
  nth j (nth_set k v l) d = if Nat.eqb j k then v else nth j l d.
Proof.
  intros Hk. destruct (Nat.eqb_spec j k) as [->|Hne].
  - now apply nth_nth_set_same.
  - now apply nth_nth_set_other.
Qed.

(* histories only grow, at the end *)
Lemma zip_hists_extends n (ins : list (Z * inp A)) : forall hists done j,
  length hists = n ->
  exists ext, nth j (zip_hists n hists done ins) [] = nth j hists [] ++ ext.
Proof.
  induction ins as [|[now i] rest IH]; intros hists done j Hlen.
  - exists []. cbn. now rewrite app_nil_r.
  - cbn [zip_hists]. destruct i as [k e|tag|].
    + destruct (Nat.ltb k n && negb (nth k done true)) eqn:Hacc; [|apply IH; exact Hlen].
      apply andb_true_iff in Hacc. destruct Hacc as [Hk _]. apply Nat.ltb_lt in Hk.
      destruct e as [x|err|]; try (apply IH; exact Hlen).
      destruct (IH (nth_set k (nth k hists [] ++ [x]) hists) done j) as [ext Hext].
      { rewrite nth_set_length; lia. }
      rewrite Hext, nth_nth_set_cases by lia.
      destruct (Nat.eqb_spec j k) as [->|Hne].
      * exists (x :: ext). now rewrite <- app_assoc.
      * exists ext. reflexivity.
    + apply IH. exact Hlen.
    + exists []. now rewrite app_nil_r.
Qed.

Lemma zip_spec_pairing n (ins : list (Z * inp A)) : forall hists done c pos i tup,
  length hists = n ->
  nth_error (tuples (zip_spec n hists done c pos ins)) i = Some tup ->
  length tup = n /\
  forall k d, (k < n)%nat ->
    (c + i < length (nth k (zip_hists n hists done ins) []))%nat
    /\ nth k tup d = nth (c + i) (nth k (zip_hists n hists done ins) []) d.
Proof.
  induction ins as [|[now inp0] rest IH]; intros hists done c pos i tup Hlen Hnth.
  - destruct i; discriminate.
  - cbn [zip_spec zip_hists] in *. destruct inp0 as [k e|tag|].
    + destruct (Nat.ltb k n && negb (nth k done true)) eqn:Hacc; [|eapply IH; eassumption].
      pose proof Hacc as Hacc'. apply andb_true_iff in Hacc'. destruct Hacc' as [Hk _]. apply Nat.ltb_lt in Hk.
      destruct e as [x|err|].
      * set (hists1 := nth_set k (nth k hists [] ++ [x]) hists) in *.
        assert (Hlen1 : length hists1 = n) by (subst hists1; rewrite nth_set_length; lia).
        destruct (forallb (fun h => Nat.ltb c (length h)) hists1) eqn:Hfull; [|eapply IH; eassumption].
        cbn [tuples flat_map snd app] in Hnth. fold (@tuples (list A)) in Hnth.
        destruct i as [|i'].
        -- cbn [nth_error] in Hnth. injection Hnth as <-.
           split; [now rewrite map_length|]. intros j d Hj.
           destruct (zip_hists_extends n rest hists1 done j Hlen1) as [ext Hext].
           assert (Hc : (c < length (nth j hists1 []))%nat).
           { rewrite forallb_forall in Hfull. apply Nat.ltb_lt. apply Hfull. apply nth_In. lia. }
           rewrite Hext, Nat.add_0_r, app_length. split; [lia|].
           rewrite app_nth1 by exact Hc.
           rewrite (nth_indep _ d (nth c (@nil A) x)) by (rewrite map_length; lia).
           rewrite (map_nth (fun h => nth c h x) hists1 [] j).
           apply nth_indep. exact Hc.
        -- cbn [nth_error] in Hnth.
           destruct (existsb (fun hd : list A * bool => Nat.leb (length (fst hd)) (S c) && snd hd)
                             (combine hists1 done)).
           ++ destruct i'; discriminate.
           ++ replace (c + S i')%nat with (S c + i')%nat by lia. eapply IH; eassumption.
      * destruct i; discriminate.
      * destruct (Nat.leb (length (nth k hists [])) c); [destruct i; discriminate|].
        eapply IH; eassumption.
    + eapply IH; eassumption.
    + destruct i; discriminate.
Qed.

(* RUN-LEVEL pairing, every number of sources, EVERY input sequence: the i-th tuple the
   subscriber receives has one component per source, component k being the i-th element source
   k delivered (which exists) *)
Theorem zip_run_pairing n (ins : list (Z * inp A)) i tup :
  nth_error (tuples (temitted (fst (run (x_zip n) ins)))) i = Some tup ->
  length tup = n /\
  forall k d, (k < n)%nat ->
    (i < length (nth k (zip_hists n (repeat [] n) (repeat false n) ins) []))%nat
    /\ nth k tup d = nth i (nth k (zip_hists n (repeat [] n) (repeat false n) ins) []) d.
Proof.
  rewrite zip_refines_spec. intros H.
  exact (zip_spec_pairing n ins (repeat [] n) (repeat false n) 0 1 i tup (repeat_length _ _) H).
Qed.
End ZipPair.
