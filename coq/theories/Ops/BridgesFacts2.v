(* C41: more theorems about the bridge models, for all action sequences:
   - to_async / start: the result IS delivered whenever the call has run and a subscription is
     there (in either order), and never otherwise;
   - run(): the model written from run.py (Ops/BridgesRun.v) agrees with [run_outcome] (the
     to_future based description) on ALL notification sequences, conforming or not;
   - from_callback with an arbitrary mapper function. *)
From RxVerif Require Import Base.Prelude Base.CaseLib Ops.Machine Ops.MachineFacts Ops.Bridges Ops.BridgesFacts Ops.BridgesRun.

Local Open Scope nat_scope.

(* ---- to_async / start ------------------------------------------------------------------ *)
Definition is_run (a : aact) : bool := match a with ARun => true | _ => false end.

Lemma is_run_In l : existsb is_run l = true <-> In ARun l.
Proof.
  rewrite existsb_exists. split.
  - intros [x [I E]]. destruct x; try discriminate. exact I.
  - intros I. exists ARun. split; [exact I|reflexivity].
Qed.

(* before the subscription: only the call's action can happen (unsubscribing nothing is a no-op) *)
Lemma ta_run_notyet r a1 : forall ran k rest, ~ In ASubscribe a1 ->
  ta_run r (ran, NotYet) k (a1 ++ rest) = ta_run r (ran || existsb is_run a1, NotYet) (k + length a1) rest.
Proof.
  induction a1 as [|a t IH]; intros ran k rest Hs.
  - cbn. now rewrite orb_false_r, Nat.add_0_r.
  - cbn [app ta_run length existsb]. replace (k + S (length t)) with (S k + length t) by lia.
    assert (Hs' : ~ In ASubscribe t) by (intros C; apply Hs; right; exact C).
    destruct a.
    + cbn [ta_step is_run]. destruct ran; cbn [app orb]; rewrite IH by exact Hs'; reflexivity.
    + exfalso. apply Hs. left. reflexivity.
    + cbn [ta_step app is_run orb]. apply IH. exact Hs'.
Qed.

(* while subscribed and the call has not run: further subscribe calls are no-ops *)
Lemma ta_run_live r a2 : forall k rest, ~ In ARun a2 -> ~ In AUnsubscribe a2 ->
  ta_run r (false, Live) k (a2 ++ rest) = ta_run r (false, Live) (k + length a2) rest.
Proof.
  induction a2 as [|a t IH]; intros k rest H1 H2.
  - cbn. now rewrite Nat.add_0_r.
  - cbn [app ta_run length]. replace (k + S (length t)) with (S k + length t) by lia.
    destruct a.
    + exfalso. apply H1. left. reflexivity.
    + cbn [ta_step app]. apply IH; intros C; [apply H1|apply H2]; right; exact C.
    + exfalso. apply H2. left. reflexivity.
Qed.

(* the call ran before the (first) subscription: the subscriber gets the result during subscribe() *)
Theorem to_async_delivers_late_subscriber r a1 rest : In ARun a1 -> ~ In ASubscribe a1 ->
  to_async r (a1 ++ ASubscribe :: rest) = result_notes (length a1) r.
Proof.
  intros Hr Hs. unfold to_async. rewrite ta_run_notyet by exact Hs.
  apply is_run_In in Hr. rewrite Hr.
  cbn [orb ta_run ta_step Nat.add]. now rewrite ta_run_stopped, app_nil_r.
Qed.

(* the subscription is there and has not been disposed when the call runs: the subscriber gets
   the result at that moment *)
Theorem to_async_delivers_live_subscriber r a1 a2 rest :
  ~ In ARun a1 -> ~ In ASubscribe a1 -> ~ In ARun a2 -> ~ In AUnsubscribe a2 ->
  to_async r (a1 ++ ASubscribe :: a2 ++ ARun :: rest) = result_notes (length a1 + S (length a2)) r.
Proof.
  intros H1 H2 H3 H4. unfold to_async. rewrite ta_run_notyet by exact H2.
  destruct (existsb is_run a1) eqn:Ex; [exfalso; apply H1; apply is_run_In; exact Ex|].
  cbn [orb ta_run ta_step Nat.add app]. rewrite ta_run_live by assumption.
  cbn [ta_run ta_step]. rewrite ta_run_stopped, app_nil_r. f_equal. lia.
Qed.

(* ... and disposed before the call runs: nothing, whatever follows *)
Theorem to_async_unsubscribed_before_run_general r a1 a2 rest :
  ~ In ARun a1 -> ~ In ASubscribe a1 -> ~ In ARun a2 -> ~ In AUnsubscribe a2 ->
  to_async r (a1 ++ ASubscribe :: a2 ++ AUnsubscribe :: rest) = [].
Proof.
  intros H1 H2 H3 H4. unfold to_async. rewrite ta_run_notyet by exact H2.
  destruct (existsb is_run a1) eqn:Ex; [exfalso; apply H1; apply is_run_In; exact Ex|].
  cbn [orb ta_run ta_step Nat.add app]. rewrite ta_run_live by assumption.
  cbn [ta_run ta_step app]. apply ta_run_stopped.
Qed.

(* no delivery without the call having run, none without a subscription *)
Theorem to_async_never_run r acts : ~ In ARun acts -> to_async r acts = [].
Proof.
  unfold to_async. generalize 0 at 1. generalize NotYet.
  induction acts as [|a t IH]; intros sub k H; [reflexivity|].
  cbn [ta_run]. assert (H' : ~ In ARun t) by (intros C; apply H; right; exact C).
  destruct a.
  - exfalso. apply H. left. reflexivity.
  - cbn [ta_step]. destruct sub; cbn [app]; apply IH; exact H'.
  - cbn [ta_step]. destruct sub; cbn [app]; apply IH; exact H'.
Qed.

Theorem to_async_never_subscribed r acts : ~ In ASubscribe acts -> to_async r acts = [].
Proof.
  unfold to_async. generalize 0 at 1. generalize false.
  induction acts as [|a t IH]; intros ran k H; [reflexivity|].
  cbn [ta_run]. assert (H' : ~ In ASubscribe t) by (intros C; apply H; right; exact C).
  destruct a.
  - cbn [ta_step]. destruct ran; cbn [app]; apply IH; exact H'.
  - exfalso. apply H. left. reflexivity.
  - cbn [ta_step app]. apply IH; exact H'.
Qed.

(* ---- run(): the run.py model against the to_future description ----------------------------- *)
Definition outcome_of (f : fstate) : outcome :=
  match f with
  | FResult v => Returns v
  | FExn e => Raises e
  | FCancelled => Raises CANCELLED
  | FPending => Blocks
  end.

(* the two machines in lock step *)
Definition rel (s : option Z * fstate * bool) (rs : rstate) : Prop :=
  let '(last, fut, live) := s in
  if live then
    fut = FPending /\ r_stopped rs = false /\ r_done rs = false /\ r_exn rs = None
    /\ last = (if r_has rs then Some (r_result rs) else None)
  else r_stopped rs = true /\ outcome_of fut = rm_final rs.

Lemma rel_init : rel (None, FPending, true) r_init.
Proof. cbn. repeat split. Qed.

Lemma rm_fold_stopped ins : forall rs, r_stopped rs = true -> fold_left rm_step ins rs = rs.
Proof.
  induction ins as [|e t IH]; intros rs H; [reflexivity|].
  cbn [fold_left]. unfold rm_step at 2. rewrite H. apply IH. exact H.
Qed.

Lemma run_models_agree_from ins : forall s k rs, rel s rs ->
  outcome_of (snd (tf_run s k (map TSrc ins))) = rm_final (fold_left rm_step ins rs).
Proof.
  induction ins as [|e t IH]; intros [[last fut] live] k rs R.
  - cbn [map tf_run snd fst fold_left]. cbn [rel] in R. destruct live.
    + destruct R as [-> [_ [D _]]]. unfold rm_final. rewrite D. reflexivity.
    + destruct R as [_ R]. exact R.
  - destruct live.
    + cbn [rel] in R. destruct R as [-> [St [D [X L]]]].
      cbn [map tf_run fold_left]. unfold rm_step at 2. rewrite St.
      destruct e as [v|x|].
      * cbn [tf_step].
        specialize (IH (Some v, FPending, true) (S k) (mkR v true (r_exn rs) (r_done rs) false)).
        destruct (tf_run (Some v, FPending, true) (S k) (map TSrc t)) as [u' fin] eqn:E.
        cbn [snd] in *. apply IH. cbn. repeat split; assumption.
      * cbn [tf_step]. rewrite tf_run_dead. cbn [snd app].
        rewrite rm_fold_stopped by reflexivity. unfold rm_final. cbn. reflexivity.
      * cbn [tf_step]. rewrite tf_run_dead. cbn [snd app].
        rewrite rm_fold_stopped by reflexivity. unfold rm_final. cbn [r_done r_exn r_has r_result negb].
        rewrite X. subst last. destruct (r_has rs); reflexivity.
    + cbn [rel] in R. destruct R as [St R].
      rewrite tf_run_dead. cbn [snd]. rewrite rm_fold_stopped by exact St. exact R.
Qed.

(* run() as run.py computes it = the outcome of the to_future description, ALL sequences
   (no grammar assumed: elements after a terminal notification, several terminals, none) *)
Theorem run_model_is_run_outcome ins : run_model ins = run_outcome ins.
Proof.
  unfold run_model, run_outcome, to_future.
  rewrite <- (run_models_agree_from ins (None, FPending, true) 1 r_init rel_init).
  reflexivity.
Qed.

(* hence the closed form, stated on the run.py model *)
Theorem run_model_spec xs t junk : t <> TNever ->
  run_model (events xs t ++ junk)
  = match t with
    | TDone => match last_opt xs None with Some v => Returns v | None => Raises NO_ELEMENTS end
    | TErr e => Raises e
    | TNever => Blocks
    end.
Proof. intros H. rewrite run_model_is_run_outcome. apply run_spec. exact H. Qed.

Theorem run_model_blocks xs : run_model (events xs TNever) = Blocks.
Proof. rewrite run_model_is_run_outcome. apply run_blocks. Qed.

(* ---- from_callback, arbitrary mapper -------------------------------------------------------- *)
Lemma fc_run_fn_stopped m invs : fc_run_fn m true invs = [].
Proof. induction invs as [|[k a] t IH]; [reflexivity|exact IH]. Qed.

Theorem from_callback_fn_first_invocation m k args rest :
  from_callback_fn m ((k, args) :: rest) = handler_notes_fn m k args.
Proof. unfold from_callback_fn. cbn [fc_run_fn]. now rewrite fc_run_fn_stopped, app_nil_r. Qed.

Theorem from_callback_fn_no_mapper k args rest :
  from_callback_fn None ((k, args) :: rest) = [(k, Next (arguments_value args)); (k, Done)].
Proof. rewrite from_callback_fn_first_invocation. reflexivity. Qed.

Theorem from_callback_fn_mapper (mp : list Z -> res Z) k args rest v : mp args = Ok v ->
  from_callback_fn (Some mp) ((k, args) :: rest) = [(k, Next (VOne v)); (k, Done)].
Proof. intros E. rewrite from_callback_fn_first_invocation. cbn [handler_notes_fn]. now rewrite E. Qed.

Theorem from_callback_fn_mapper_raises (mp : list Z -> res Z) k args rest e : mp args = Raise e ->
  from_callback_fn (Some mp) ((k, args) :: rest) = [(k, Err e)].
Proof. intros E. rewrite from_callback_fn_first_invocation. cbn [handler_notes_fn]. now rewrite E. Qed.

(* the model the correspondence evaluates is the instance at the four concrete mappers *)
Theorem from_callback_is_instance m invs :
  from_callback m invs = from_callback_fn (option_map apply_mapper m) invs.
Proof.
  unfold from_callback, from_callback_fn. generalize false.
  induction invs as [|[k a] t IH]; intros st; [reflexivity|].
  cbn [fc_run fc_run_fn]. destruct st; [apply IH|]. rewrite IH. f_equal.
  destruct m; reflexivity.
Qed.
