(* C04 -- pipelines of levelled programs (Ops/Closure.v).

   [lcompose g p1 p2] is the levelled program of `source.pipe(op1, op2)`: the operator value is the
   pair of the two operator values, its application-level state the pair of the two applications'
   states, its subscription state the pair of the two subscriptions' states; one handler run of
   the pipeline on input i runs p1's handler on i and hands what p1 emits to p2's handler (p2's
   input type is p1's output type).  Code of p1 cannot reach a cell of p2 and vice versa (the two
   closure towers are disjoint), so the order of the two halves inside one level is irrelevant.
   [Src] is the model's opaque description of the source: p2 is applied to the description
   [g src] of the observable that p1 produced from [src].

     lcompose_frames     both stages respect the F- and A-frames  ->  so does the pipeline
     lcompose_iso        what a subscription of the pipeline emits alone is p2's isolated run on
                         p1's isolated run (so lcompose really is sequential composition)
     chain / chain_prog  finite pipelines, element types changing from stage to stage (a
                         type-indexed list folded with lcompose; the empty pipeline is the identity)
     pipeline            the same for a plain list of stages with one element type (fold_right)
     *_resubscribe       the generic re-subscription theorems of Ops/ClosureFacts.v applied to any
                         finite pipeline of frame-respecting stages
     take program        a concrete program for ops.take that satisfies [described_by] at the rows
                         of "ops.take" of the generated table. *)
From Coq Require Import List String ZArith Bool Arith Lia.
From RxVerif Require Import Ops.Closure Ops.ClosureFacts Gen.AllocTable.
Import ListNotations.

(* ---- 1. two stages ------------------------------------------------------------------- *)
Section Compose.
  Variables Src1 Src2 In Mid Out F1 A1 S1 F2 A2 S2 : Type.
  Variable g : Src1 -> Src2.
  Variable p1 : lprog Src1 In Mid F1 A1 S1.
  Variable p2 : lprog Src2 Mid Out F2 A2 S2.

  Local Notation o1 := (fun (f : F1 * F2) (a : A1 * A2) (s : S1 * S2) (i : In) =>
                          run_o _ _ _ _ _ _ p1 (fst f) (fst a) (fst s) i).

  Definition lcompose : lprog Src1 In Out (F1 * F2) (A1 * A2) (S1 * S2) :=
    mk_lprog _ _ _ _ _ _
      (new_f _ _ _ _ _ _ p1, new_f _ _ _ _ _ _ p2)
      (fun f src => (app_f _ _ _ _ _ _ p1 (fst f) src, app_f _ _ _ _ _ _ p2 (snd f) (g src)))
      (fun f src => (app_a _ _ _ _ _ _ p1 (fst f) src, app_a _ _ _ _ _ _ p2 (snd f) (g src)))
      (fun f a => (sub_f _ _ _ _ _ _ p1 (fst f) (fst a), sub_f _ _ _ _ _ _ p2 (snd f) (snd a)))
      (fun f a => (sub_a _ _ _ _ _ _ p1 (fst f) (fst a), sub_a _ _ _ _ _ _ p2 (snd f) (snd a)))
      (fun f a => (sub_s _ _ _ _ _ _ p1 (fst f) (fst a), sub_s _ _ _ _ _ _ p2 (snd f) (snd a)))
      (fun f a s i => (run_f _ _ _ _ _ _ p1 (fst f) (fst a) (fst s) i,
                       run_f _ _ _ _ _ _ p2 (snd f) (snd a) (snd s) (o1 f a s i)))
      (fun f a s i => (run_a _ _ _ _ _ _ p1 (fst f) (fst a) (fst s) i,
                       run_a _ _ _ _ _ _ p2 (snd f) (snd a) (snd s) (o1 f a s i)))
      (fun f a s i => (run_s _ _ _ _ _ _ p1 (fst f) (fst a) (fst s) i,
                       run_s _ _ _ _ _ _ p2 (snd f) (snd a) (snd s) (o1 f a s i)))
      (fun f a s i => run_o _ _ _ _ _ _ p2 (snd f) (snd a) (snd s) (o1 f a s i)).

  Theorem lcompose_frames :
    frame_F _ _ _ _ _ _ p1 -> frame_A _ _ _ _ _ _ p1 ->
    frame_F _ _ _ _ _ _ p2 -> frame_A _ _ _ _ _ _ p2 ->
    frame_F _ _ _ _ _ _ lcompose /\ frame_A _ _ _ _ _ _ lcompose.
  Proof.
    intros [Fa1 [Fs1 Fr1]] [As1 Ar1] [Fa2 [Fs2 Fr2]] [As2 Ar2].
    split; [split; [|split]|split].
    - intros [f1 f2] src. cbn. rewrite Fa1, Fa2. reflexivity.
    - intros [f1 f2] [a1 a2]. cbn. rewrite Fs1, Fs2. reflexivity.
    - intros [f1 f2] [a1 a2] [s1 s2] i. cbn. rewrite Fr1, Fr2. reflexivity.
    - intros [f1 f2] [a1 a2]. cbn. rewrite As1, As2. reflexivity.
    - intros [f1 f2] [a1 a2] [s1 s2] i. cbn. rewrite Ar1, Ar2. reflexivity.
  Qed.

  (* sequential composition: alone, the pipeline emits p2's isolated run on p1's isolated run *)
  Lemma lcompose_iso_run : forall ins a1 a2 s1 s2,
    iso_run _ _ _ _ _ _ lcompose (a1, a2) (s1, s2) ins =
    iso_run _ _ _ _ _ _ p2 a2 s2 (iso_run _ _ _ _ _ _ p1 a1 s1 ins).
  Proof.
    induction ins as [|i r IH]; intros; [reflexivity|].
    cbn [iso_run]. cbn [lcompose new_f run_o run_s fst snd]. f_equal. apply IH.
  Qed.

  Theorem lcompose_iso : forall src ins,
    iso _ _ _ _ _ _ lcompose src ins =
    iso _ _ _ _ _ _ p2 (g src) (iso _ _ _ _ _ _ p1 src ins).
  Proof. intros. unfold iso, a0. cbn [lcompose new_f app_a sub_s fst snd]. apply lcompose_iso_run. Qed.
End Compose.

Arguments lcompose {Src1 Src2 In Mid Out F1 A1 S1 F2 A2 S2}.

(* ---- 2. finite pipelines --------------------------------------------------------------- *)
(* the empty pipeline: no state, every input is emitted unchanged *)
Definition lid (Src X : Type) : lprog Src X X unit unit unit :=
  mk_lprog _ _ _ _ _ _ tt
    (fun f _ => f) (fun _ _ => tt)
    (fun f _ => f) (fun _ a => a) (fun _ _ => tt)
    (fun f _ _ _ => f) (fun _ a _ _ => a) (fun _ _ s _ => s) (fun _ _ _ i => i).

Lemma lid_frames : forall Src X, frame_F _ _ _ _ _ _ (lid Src X) /\ frame_A _ _ _ _ _ _ (lid Src X).
Proof. repeat split. Qed.

Lemma lid_iso : forall Src X src ins, iso _ _ _ _ _ _ (lid Src X) src ins = ins.
Proof.
  intros. unfold iso. generalize (a0 _ _ _ _ _ _ (lid Src X) src), (sub_s _ _ _ _ _ _ (lid Src X) (new_f _ _ _ _ _ _ (lid Src X)) (a0 _ _ _ _ _ _ (lid Src X) src)).
  induction ins as [|i r IH]; intros; cbn; [reflexivity|]. f_equal. apply IH.
Qed.

Section Chain.
  Variable Src : Type.

  (* a pipeline from element type X to element type Z: stages with their own state types *)
  Inductive chain : Type -> Type -> Type :=
  | CNil : forall X, chain X X
  | CCons : forall X Y Z F A S0, lprog Src X Y F A S0 -> chain Y Z -> chain X Z.

  Fixpoint chF {X Z} (c : chain X Z) : Type :=
    match c with CNil _ => unit | CCons _ _ _ F _ _ _ r => (F * chF r)%type end.
  Fixpoint chA {X Z} (c : chain X Z) : Type :=
    match c with CNil _ => unit | CCons _ _ _ _ A _ _ r => (A * chA r)%type end.
  Fixpoint chS {X Z} (c : chain X Z) : Type :=
    match c with CNil _ => unit | CCons _ _ _ _ _ S0 _ r => (S0 * chS r)%type end.

  (* the pipeline's program: lcompose folded over the stages (source description passed along) *)
  Fixpoint chain_prog {X Z} (c : chain X Z) : lprog Src X Z (chF c) (chA c) (chS c) :=
    match c with
    | CNil X => lid Src X
    | CCons _ _ _ _ _ _ p r => lcompose (fun s => s) p (chain_prog r)
    end.

  (* every stage respects both frames *)
  Fixpoint chain_frames {X Z} (c : chain X Z) : Prop :=
    match c with
    | CNil _ => True
    | CCons _ _ _ _ _ _ p r => frame_F _ _ _ _ _ _ p /\ frame_A _ _ _ _ _ _ p /\ chain_frames r
    end.

  (* the stages run one after the other, each alone *)
  Fixpoint chain_iso {X Z} (c : chain X Z) (src : Src) : list X -> list Z :=
    match c with
    | CNil _ => fun ins => ins
    | CCons _ _ _ _ _ _ p r => fun ins => chain_iso r src (iso _ _ _ _ _ _ p src ins)
    end.

  Theorem chain_prog_frames : forall X Z (c : chain X Z), chain_frames c ->
    frame_F _ _ _ _ _ _ (chain_prog c) /\ frame_A _ _ _ _ _ _ (chain_prog c).
  Proof.
    induction c as [X | X Y Z F A S0 p r IH]; cbn [chain_frames chain_prog].
    - intros _. apply lid_frames.
    - intros [HF [HA Hr]]. destruct (IH Hr) as [HF2 HA2]. apply lcompose_frames; assumption.
  Qed.

  Theorem chain_prog_iso : forall X Z (c : chain X Z) src ins,
    iso _ _ _ _ _ _ (chain_prog c) src ins = chain_iso c src ins.
  Proof.
    induction c as [X | X Y Z F A S0 p r IH]; intros; cbn [chain_iso chain_prog].
    - apply lid_iso.
    - etransitivity; [apply (lcompose_iso _ _ _ _ _ _ _ _ _ _ _ (fun s => s) p (chain_prog r))|]. apply IH.
  Qed.

  (* the generic re-subscription theorems at any finite pipeline of frame-respecting stages *)
  Theorem chain_generic : forall X Z (c : chain X Z), chain_frames c ->
    forall h st t,
      exec_shared _ _ _ _ _ _ (chain_prog c) (init_shared _ _ _ _ _ _ (chain_prog c)) h = (st, t) ->
    forall j k s, nth_error (s_subs _ _ _ _ st) j = Some (k, s) ->
      exists src a, nth_error (s_apps _ _ _ _ st) k = Some (src, a)
                 /\ outs_of X Z j t = chain_iso c src (ins_of X Z j t).
  Proof.
    intros X Z c Hc h st t E j k s Hj. destruct (chain_prog_frames _ _ c Hc) as [HF HA].
    destruct (C04_generic_thm _ _ _ _ _ _ _ HF HA h st t E j k s Hj) as [src [a [H1 H2]]].
    exists src, a. split; [exact H1|]. rewrite H2. apply chain_prog_iso.
  Qed.

  Theorem chain_resubscribe : forall X Z (c : chain X Z), chain_frames c ->
    forall h st t,
      exec_shared _ _ _ _ _ _ (chain_prog c) (init_shared _ _ _ _ _ _ (chain_prog c)) h = (st, t) ->
    forall j1 j2 k s1 s2,
      nth_error (s_subs _ _ _ _ st) j1 = Some (k, s1) ->
      nth_error (s_subs _ _ _ _ st) j2 = Some (k, s2) ->
      ins_of X Z j1 t = ins_of X Z j2 t -> outs_of X Z j1 t = outs_of X Z j2 t.
  Proof.
    intros X Z c Hc. destruct (chain_prog_frames _ _ c Hc) as [HF HA].
    apply C04_resubscribe_thm; assumption.
  Qed.
End Chain.

Arguments CNil {Src}.
Arguments CCons {Src X Y Z F A S0}.

(* ---- 3. the same for a plain list of stages with one element type: fold_right of lcompose ---- *)
Section Pipeline.
  Variables Src X : Type.

  (* an operator program packaged with its three state types *)
  Record stage := mk_stage {
    st_F : Type; st_A : Type; st_S : Type;
    st_prog : lprog Src X X st_F st_A st_S }.

  Definition stage_id : stage := mk_stage unit unit unit (lid Src X).
  Definition stage_compose (a b : stage) : stage :=
    mk_stage _ _ _ (lcompose (fun s => s) (st_prog a) (st_prog b)).
  Definition pipeline (l : list stage) : stage := fold_right stage_compose stage_id l.

  Definition stage_frames (a : stage) : Prop :=
    frame_F _ _ _ _ _ _ (st_prog a) /\ frame_A _ _ _ _ _ _ (st_prog a).

  Definition pipeline_iso (l : list stage) (src : Src) (ins : list X) : list X :=
    fold_left (fun xs a => iso _ _ _ _ _ _ (st_prog a) src xs) l ins.

  Theorem pipeline_frames : forall l, Forall stage_frames l -> stage_frames (pipeline l).
  Proof.
    induction 1 as [|a l [HF HA] _ [HF2 HA2]]; cbn [pipeline fold_right].
    - apply lid_frames.
    - apply lcompose_frames; assumption.
  Qed.

  Theorem pipeline_prog_iso : forall l src ins,
    iso _ _ _ _ _ _ (st_prog (pipeline l)) src ins = pipeline_iso l src ins.
  Proof.
    induction l as [|a l IH]; intros; cbn [pipeline fold_right pipeline_iso fold_left].
    - apply lid_iso.
    - etransitivity; [apply (lcompose_iso _ _ _ _ _ _ _ _ _ _ _ (fun s => s) (st_prog a) (st_prog (pipeline l)))|].
      apply IH.
  Qed.

  Theorem pipeline_generic : forall l, Forall stage_frames l ->
    forall h st t,
      exec_shared _ _ _ _ _ _ (st_prog (pipeline l)) (init_shared _ _ _ _ _ _ (st_prog (pipeline l))) h = (st, t) ->
    forall j k s, nth_error (s_subs _ _ _ _ st) j = Some (k, s) ->
      exists src a, nth_error (s_apps _ _ _ _ st) k = Some (src, a)
                 /\ outs_of X X j t = pipeline_iso l src (ins_of X X j t).
  Proof.
    intros l Hl h st t E j k s Hj. destruct (pipeline_frames l Hl) as [HF HA].
    destruct (C04_generic_thm _ _ _ _ _ _ _ HF HA h st t E j k s Hj) as [src [a [H1 H2]]].
    exists src, a. split; [exact H1|]. rewrite H2. apply pipeline_prog_iso.
  Qed.

  Theorem pipeline_resubscribe : forall l, Forall stage_frames l ->
    forall h st t,
      exec_shared _ _ _ _ _ _ (st_prog (pipeline l)) (init_shared _ _ _ _ _ _ (st_prog (pipeline l))) h = (st, t) ->
    forall j1 j2 k s1 s2,
      nth_error (s_subs _ _ _ _ st) j1 = Some (k, s1) ->
      nth_error (s_subs _ _ _ _ st) j2 = Some (k, s2) ->
      ins_of X X j1 t = ins_of X X j2 t -> outs_of X X j1 t = outs_of X X j2 t.
  Proof.
    intros l Hl. destruct (pipeline_frames l Hl) as [HF HA].
    apply C04_resubscribe_thm; assumption.
  Qed.
End Pipeline.

Arguments mk_stage {Src X}.
Arguments st_prog {Src X}.
Arguments pipeline {Src X}.
Arguments pipeline_iso {Src X}.
Arguments stage_frames {Src X}.

(* ---- 4. a concrete program at the rows of ops.take ---------------------------------------
   reactivex/operators/_take.py: `count` is captured when the operator is built (read only),
   `remaining = count` is allocated by subscribe and decremented by on_next; on_next forwards the
   value while remaining > 0 and completes when it reaches 0.  Stores as in [described_by]: the
   factory store holds the captured argument, the application store is empty, the subscription
   state is `remaining`.  Inputs are the source's on_next values; an output is the list of
   notifications the handler sends (Some v = on_next v, None = on_completed). *)
Definition prog_take (count : Z) : lprog unit Z (list (option Z)) store store Z :=
  mk_lprog _ _ _ _ _ _ [count]
    (fun f _ => f) (fun _ _ => [])
    (fun f _ => f) (fun _ a => a) (fun f _ => nth 0 f 0%Z)
    (fun f _ _ _ => f) (fun _ a _ _ => a)
    (fun _ _ s _ => if (s >? 0)%Z then (s - 1)%Z else s)
    (fun _ _ s i => if (s >? 0)%Z then Some i :: (if (s - 1 =? 0)%Z then [None] else []) else []).

Open Scope string_scope.

Lemma take_rows_cells :
  fcells (rows_of "ops.take" alloc_table) = [] /\ acells (rows_of "ops.take" alloc_table) = []
  /\ existsb (fun e => String.eqb (a_name e) "remaining" && level_leb LSub (a_alloc e))
             (rows_of "ops.take" alloc_table) = true.
Proof. vm_compute. repeat split. Qed.

Lemma take_rows_ok :
  forallb entry_ok_C04 (rows_of "ops.take" alloc_table) = true
  /\ forallb (fun e => negb (a_mc e || a_hot e)) (rows_of "ops.take" alloc_table) = true.
Proof. vm_compute. split; reflexivity. Qed.

Lemma take_described : forall count,
  described_by unit Z (list (option Z)) Z (prog_take count)
    (fcells (rows_of "ops.take" alloc_table)) (acells (rows_of "ops.take" alloc_table)).
Proof.
  intros count. destruct take_rows_cells as [-> [-> _]].
  unfold described_by, keeps. cbn. repeat split; intros; reflexivity.
Qed.

(* hence the re-subscription theorem holds for it, through the table *)
Theorem take_resubscribe : forall count h st t,
  exec_shared _ _ _ _ _ _ (prog_take count) (init_shared _ _ _ _ _ _ (prog_take count)) h = (st, t) ->
  forall j1 j2 k s1 s2,
    nth_error (s_subs _ _ _ _ st) j1 = Some (k, s1) ->
    nth_error (s_subs _ _ _ _ st) j2 = Some (k, s2) ->
    ins_of _ _ j1 t = ins_of _ _ j2 t -> outs_of _ _ j1 t = outs_of _ _ j2 t.
Proof.
  intros count. destruct take_rows_ok as [H1 H2].
  exact (C04_rows_sound_thm _ H1 H2 _ _ _ _ (prog_take count) (take_described count)).
Qed.

(* a run with two overlapping subscriptions of take(2) applied once: each emits the first two values
   it received and completes, whatever the other did *)
Lemma take_witness :
  let h := [EApply tt; ESub 0; ERun 0 10%Z; ESub 0; ERun 1 20%Z; ERun 0 11%Z; ERun 0 12%Z; ERun 1 21%Z; ERun 1 22%Z] in
  let t := trace_shared _ _ _ _ _ _ (prog_take 2) h in
  outs_of _ _ 0 t = [[Some 10%Z]; [Some 11%Z; None]; []]
  /\ outs_of _ _ 1 t = [[Some 20%Z]; [Some 21%Z; None]; []].
Proof. vm_compute. split; reflexivity. Qed.

(* ---- 5. witnesses for the pipeline theorems ------------------------------------------------ *)
(* map_indexed as repaired (the index is per-subscription state): emits value + index *)
Definition prog_add_index : lprog unit Z Z unit unit Z :=
  mk_lprog _ _ _ _ _ _ tt
    (fun f _ => f) (fun _ _ => tt)
    (fun f _ => f) (fun _ a => a) (fun _ _ => 0%Z)
    (fun f _ _ _ => f) (fun _ a _ _ => a) (fun _ _ s _ => (s + 1)%Z) (fun _ _ s i => (i + s)%Z).
(* scan(+): emits the running sum *)
Definition prog_running_sum : lprog unit Z Z unit unit Z :=
  mk_lprog _ _ _ _ _ _ tt
    (fun f _ => f) (fun _ _ => tt)
    (fun f _ => f) (fun _ a => a) (fun _ _ => 0%Z)
    (fun f _ _ _ => f) (fun _ a _ _ => a) (fun _ _ s i => (s + i)%Z) (fun _ _ s i => (s + i)%Z).
(* counts the notifications it has been handed so far *)
Definition prog_count_notifications : lprog unit (list (option Z)) nat unit unit nat :=
  mk_lprog _ _ _ _ _ _ tt
    (fun f _ => f) (fun _ _ => tt)
    (fun f _ => f) (fun _ a => a) (fun _ _ => 0)
    (fun f _ _ _ => f) (fun _ a _ _ => a)
    (fun _ _ s i => s + List.length i) (fun _ _ s i => s + List.length i).

Definition stages3 : list (stage unit Z) :=
  [mk_stage _ _ _ prog_add_index; mk_stage _ _ _ prog_running_sum; mk_stage _ _ _ prog_add_index].

Lemma stages3_frames : Forall stage_frames stages3.
Proof. repeat constructor. Qed.

(* two overlapping subscriptions of the three-stage pipeline, different inputs: each emits its own
   isolated run *)
Lemma stages3_witness :
  let h := [EApply tt; ESub 0; ERun 0 5%Z; ESub 0; ERun 1 5%Z; ERun 0 7%Z; ERun 1 1%Z; ERun 0 1%Z] in
  let t := trace_shared _ _ _ _ _ _ (st_prog (pipeline stages3)) h in
  outs_of _ _ 0 t = [5%Z; 14%Z; 18%Z] /\ outs_of _ _ 1 t = [5%Z; 8%Z]
  /\ pipeline_iso stages3 tt [5%Z; 7%Z; 1%Z] = [5%Z; 14%Z; 18%Z].
Proof. vm_compute. repeat split. Qed.

(* a pipeline whose element type changes: take(2), then the notification counter *)
Definition chain_take_count : chain unit Z nat :=
  CCons (prog_take 2) (CCons prog_count_notifications (CNil nat)).

Lemma chain_take_count_frames : chain_frames unit chain_take_count.
Proof.
  cbn [chain_frames chain_take_count]. repeat split.
Qed.

Lemma chain_take_count_witness :
  let h := [EApply tt; ESub 0; ERun 0 10%Z; ESub 0; ERun 0 11%Z; ERun 1 20%Z; ERun 0 12%Z] in
  let t := trace_shared _ _ _ _ _ _ (chain_prog unit chain_take_count) h in
  outs_of _ _ 0 t = [1; 3; 3] /\ outs_of _ _ 1 t = [1].
Proof. vm_compute. split; reflexivity. Qed.
