(* Generic facts about Mealy operators: the notification grammar for ARBITRARY
   (also non-conforming) inputs, and unfolding lemmas for well-behaved sources. *)
From RxVerif Require Import Base.Prelude Ops.Machine.

Fixpoint indexed {A} (k : nat) (xs : list A) : list (nat * A) :=
  match xs with [] => [] | x :: t => (k, x) :: indexed (S k) t end.
Definition nexts {B} (l : list (nat * B)) : list (nat * ev B) :=
  map (fun p => (fst p, Next (snd p))) l.
Definition tterm {B} (k : nat) (t : term) : list (nat * ev B) :=
  match t with TDone => [(k, Done)] | TErr e => [(k, Err e)] | TNever => [] end.
Definition pure {A B} (f : A -> B) : A -> res B := fun x => Ok (f x).
Definition pure2 {A I B} (f : A -> I -> B) : A -> I -> res B := fun x i => Ok (f x i).

Lemma indexed_length {A} (xs : list A) k : length (indexed k xs) = length xs.
Proof. revert k; induction xs as [|x t IH]; intros k; cbn; [reflexivity|now rewrite IH]. Qed.

Lemma indexed_app {A} (xs ys : list A) k :
  indexed k (xs ++ ys) = indexed k xs ++ indexed (k + length xs) ys.
Proof.
  revert k; induction xs as [|x t IH]; intros k; cbn [app indexed length].
  - now rewrite Nat.add_0_r.
  - rewrite IH. now rewrite Nat.add_succ_comm.
Qed.

Lemma map_snd_indexed {A} (xs : list A) k : map snd (indexed k xs) = xs.
Proof. revert k; induction xs as [|x t IH]; intros k; cbn; [reflexivity|now rewrite IH]. Qed.

Lemma nexts_app {B} (a b : list (nat * B)) : nexts (a ++ b) = nexts a ++ nexts b.
Proof. unfold nexts. apply map_app. Qed.

(* ---- grammar --------------------------------------------------------------- *)
Lemma wellformed_nexts_app {B} (outs : list B) (k : nat) (rest : list (ev B)) :
  wellformed (map snd (map (fun b => (k, Next b)) outs) ++ rest) = wellformed rest.
Proof. induction outs as [|b t IH]; cbn; [reflexivity|exact IH]. Qed.

Lemma untag_app {B} (a b : list (nat * ev B)) : untag (a ++ b) = untag a ++ untag b.
Proof. unfold untag. apply map_app. Qed.

Lemma emit_wf {B} k (outs : list B) f (rest : list (nat * ev B)) :
  (live f = false -> rest = []) -> wellformed (untag rest) = true ->
  wellformed (untag (emit k outs f ++ rest)) = true.
Proof.
  intros Hf Hr. unfold emit. rewrite <- app_assoc, untag_app. unfold untag at 1.
  rewrite wellformed_nexts_app.
  destruct f; cbn.
  - exact Hr.
  - rewrite (Hf eq_refl). reflexivity.
  - rewrite (Hf eq_refl). reflexivity.
Qed.

Theorem exec_from_wellformed {A B} (m : mealy A B) :
  forall ins s k, wellformed (untag (exec_from m s k ins)) = true.
Proof.
  induction ins as [|i rest IH]; intros s k; cbn [exec_from].
  - reflexivity.
  - destruct i as [x|e|].
    + destruct (m_next m s x) as [[s' outs] f].
      apply emit_wf.
      * intros Hf. now rewrite Hf.
      * destruct (live f); [apply IH|reflexivity].
    + destruct (m_err m s e) as [outs f].
      rewrite <- (app_nil_r (emit k outs f)). apply emit_wf; auto.
    + destruct (m_done m s) as [outs f].
      rewrite <- (app_nil_r (emit k outs f)). apply emit_wf; auto.
Qed.

(* every Mealy operator emits Next* (Err|Done)? whatever its source does *)
Theorem exec_wellformed {A B} (m : mealy A B) (ins : list (ev A)) :
  wellformed (untag (exec m ins)) = true.
Proof.
  unfold exec. destruct (m_pre m) as [outs f].
  apply emit_wf.
  - intros Hf. now rewrite Hf.
  - destruct (live f); [apply exec_from_wellformed|reflexivity].
Qed.

(* nothing is emitted after the source's terminal: inputs behind it are dropped *)
Theorem exec_from_ignores_after_terminal {A B} (m : mealy A B) :
  forall xs s k (t : ev A) junk, is_terminal t = true ->
  exec_from m s k (map Next xs ++ t :: junk) = exec_from m s k (map Next xs ++ [t]).
Proof.
  induction xs as [|x r IH]; intros s k t junk Ht; cbn [map app exec_from].
  - destruct t; [discriminate|reflexivity|reflexivity].
  - destruct (m_next m s x) as [[s' outs] f]. destruct (live f); [|reflexivity].
    now rewrite IH.
Qed.

(* ---- unfolding for a well-behaved source -------------------------------- *)
Lemma exec_from_cons {A B} (m : mealy A B) s k x rest :
  exec_from m s k (Next x :: rest) =
  let '(s', outs, f) := m_next m s x in
  emit k outs f ++ (if live f then exec_from m s' (S k) rest else []).
Proof. reflexivity. Qed.

Lemma events_cons {A} (x : A) xs t : events (x :: xs) t = Next x :: events xs t.
Proof. reflexivity. Qed.

Lemma events_nil {A} t : @events A [] t = match t with TDone => [Done] | TErr e => [Err e] | TNever => [] end.
Proof. reflexivity. Qed.

Lemma emit_cont {B} k (outs : list B) : emit k outs Cont = map (fun b => (k, Next b)) outs.
Proof. unfold emit. now rewrite app_nil_r. Qed.
