(* C11: (d) concat_map (= merge(max_concurrent = 1) after map) emits the ORDERED
   concatenation of its inner sequences, (e) the first error wins for flat_map and
   merge(max_concurrent).

   (d) Two statements.
   - concat_map_ordered (general, every mapper, EVERY schedule): for every input sequence
     during which the output has not ended and in which every inner notification arrives
     while that inner is subscribed ("cold" inners: an inner produces only while subscribed),
     the elements emitted are exactly  elements of inner 1 ++ elements of inner 2 ++ ...
     ++ elements of inner cnt  (cnt = inners created), whatever the interleaving with the
     outer source's notifications.
   - concat_map_closed_form (one concrete environment, terminal included): the outer
     delivers all its elements and completes, then the inners run one after the other:
     the output is concat_spec of the inners -- the same closed form as concat (C10).
   (e) flat_map_spec_error_iff / mc_spec_error_iff: an error is emitted at input position
     q iff the output has not ended before q and input q is the error of the live outer, a
     raising mapper call on an element of the live outer, or the error of a running inner. *)
From RxVerif Require Import Base.Prelude Ops.Machine Ops.MachineFacts Ops.Multi Ops.MultiFacts
  Ops.RunLemmas Ops.Combinators Ops.SequentialFacts Ops.MergeFacts Ops.FlatMapFacts Ops.MergeConcFacts
  Ops.MergeSpecFacts.

Local Arguments Nat.ltb : simpl never.
Local Arguments Nat.leb : simpl never.

(* ---- (e) first error wins ------------------------------------------------------ *)
Section Errors.
Context {A : Type}.

Definition error_source (mapper : A -> nat -> res unit) (ol : bool) (cnt : nat) (running : list nat)
  (i : inp A) (err : Z) : Prop :=
  (ol = true /\ i = ISrc 0%nat (Err err))
  \/ (ol = true /\ exists x, i = ISrc 0%nat (Next x) /\ mapper x cnt = Raise err)
  \/ (exists j, i = ISrc (S j) (Err err) /\ In (S j) running).

Lemma fm_step_err_iff mapper ol cnt r (i : inp A) err :
  snd (fm_step mapper (ol, cnt, r) i) = Some (Err err) <-> error_source mapper ol cnt r i err.
Proof.
  unfold error_source. split.
  - destruct i as [[|j] e|tag|]; cbn [fm_step]; try discriminate.
    + destruct ol; [|discriminate]. destruct e as [y|y|].
      * destruct (mapper y cnt) as [u|e'] eqn:Hm; [discriminate|]. cbn [snd]. intros H. injection H as ->.
        right. left. split; [reflexivity|]. exists y. auto.
      * cbn [snd]. intros H. injection H as ->. left. auto.
      * destruct r; discriminate.
    + destruct (mem (S j) r) eqn:Hm; [|discriminate]. destruct e as [y|y|].
      * discriminate.
      * cbn [snd]. intros H. injection H as ->. right. right. exists j. split; [reflexivity|]. now apply mem_in.
      * destruct (remove (S j) r); destruct ol; discriminate.
  - intros [(-> & ->)|[(-> & x & -> & Hm)|(j & -> & Hj)]]; cbn [fm_step].
    + reflexivity.
    + now rewrite Hm.
    + now rewrite (in_mem_true _ _ Hj).
Qed.

Lemma mc_step_err_iff mapper mc ol cnt r qu (i : inp A) err :
  snd (mc_step mapper mc (ol, cnt, r, qu) i) = Some (Err err) <-> error_source mapper ol cnt r i err.
Proof.
  unfold error_source. split.
  - destruct i as [[|j] e|tag|]; cbn [mc_step]; try discriminate.
    + destruct ol; [|discriminate]. destruct e as [y|y|].
      * destruct (mapper y cnt) as [u|e'] eqn:Hm.
        -- destruct (Nat.ltb (length r) mc); discriminate.
        -- cbn [snd]. intros H. injection H as ->. right. left. split; [reflexivity|]. exists y. auto.
      * cbn [snd]. intros H. injection H as ->. left. auto.
      * destruct r; discriminate.
    + destruct (mem (S j) r) eqn:Hm; [|discriminate]. destruct e as [y|y|].
      * discriminate.
      * cbn [snd]. intros H. injection H as ->. right. right. exists j. split; [reflexivity|]. now apply mem_in.
      * destruct qu; [|discriminate]. destruct (remove (S j) r); destruct ol; discriminate.
  - intros [(-> & ->)|[(-> & x & -> & Hm)|(j & -> & Hj)]]; cbn [mc_step].
    + reflexivity.
    + now rewrite Hm.
    + now rewrite (in_mem_true _ _ Hj).
Qed.

(* flat_map: an error is emitted at input position q iff the output has not ended before q
   (the state exists) and input q is: the error of the still-live outer, an element of the
   still-live outer on which the mapper raises, or the error of a running inner *)
Theorem flat_map_spec_error_iff mapper ol cnt running pos (ins : list (Z * inp A)) q err :
  In ((pos + q)%nat, Err err) (flat_map_spec mapper ol cnt running pos ins) <->
  exists now i ol' cnt' r', nth_error ins q = Some (now, i)
     /\ fm_after mapper (ol, cnt, running) (firstn q ins) = Some (ol', cnt', r')
     /\ error_source mapper ol' cnt' r' i err.
Proof.
  rewrite flat_map_spec_fold, fold_spec_in_iff. unfold fm_after. split.
  - intros (now & i & [[ol' cnt'] r'] & Hn & Ha & Hs). apply fm_step_err_iff in Hs.
    exists now, i, ol', cnt', r'. auto.
  - intros (now & i & ol' & cnt' & r' & Hn & Ha & Hs). apply fm_step_err_iff in Hs.
    exists now, i, (ol', cnt', r'). auto.
Qed.

Theorem mc_spec_error_iff mapper mc ol cnt running queue pos (ins : list (Z * inp A)) q err :
  In ((pos + q)%nat, Err err) (mc_spec mapper mc ol cnt running queue pos ins) <->
  exists now i ol' cnt' r' q', nth_error ins q = Some (now, i)
     /\ mc_after mapper mc (ol, cnt, running, queue) (firstn q ins) = Some (ol', cnt', r', q')
     /\ error_source mapper ol' cnt' r' i err.
Proof.
  rewrite mc_spec_fold, fold_spec_in_iff. unfold mc_after. split.
  - intros (now & i & [[[ol' cnt'] r'] q'] & Hn & Ha & Hs). apply mc_step_err_iff in Hs.
    exists now, i, ol', cnt', r', q'. auto.
  - intros (now & i & ol' & cnt' & r' & q' & Hn & Ha & Hs).
    exists now, i, (ol', cnt', r', q'). split; [exact Hn|]. split; [exact Ha|]. apply mc_step_err_iff. exact Hs.
Qed.

(* the same on the runs of the machines (trace position q+1 = input q) *)
Theorem flat_map_run_error_iff mapper (ins : list (Z * inp A)) q err :
  In (S q, Err err) (temitted (fst (run (x_flat_map mapper) ins))) <->
  exists now i ol' cnt' r', nth_error ins q = Some (now, i)
     /\ fm_after mapper (true, 0%nat, []) (firstn q ins) = Some (ol', cnt', r')
     /\ error_source mapper ol' cnt' r' i err.
Proof. rewrite flat_map_refines_spec. exact (flat_map_spec_error_iff mapper true 0 [] 1 ins q err). Qed.

Theorem merge_concurrent_run_error_iff mc mapper (ins : list (Z * inp A)) q err :
  In (S q, Err err) (temitted (fst (run (x_merge_concurrent mc mapper) ins))) <->
  exists now i ol' cnt' r' q', nth_error ins q = Some (now, i)
     /\ mc_after mapper mc (true, 0%nat, [], []) (firstn q ins) = Some (ol', cnt', r', q')
     /\ error_source mapper ol' cnt' r' i err.
Proof. rewrite merge_concurrent_refines_spec. exact (mc_spec_error_iff mapper mc true 0 [] [] 1 ins q err). Qed.

(* an error ends the specification: it is the LAST event, nothing follows it (for any
   step-function specification whose error steps end the output) *)
Lemma fold_spec_error_last {St} (step : St -> inp A -> option St * option (ev A))
  (Hend : forall st i err, snd (step st i) = Some (Err err) -> fst (step st i) = None)
  (ins : list (Z * inp A)) : forall st pos p err,
  In (p, Err err) (fold_spec step st pos ins) ->
  exists pre, fold_spec step st pos ins = pre ++ [(p, Err err)].
Proof.
  induction ins as [|[now i] t IH]; intros st pos p err H; [destruct H|].
  cbn [fold_spec] in *. apply in_app_or in H. destruct H as [H|H].
  - destruct (snd (step st i)) as [e0|] eqn:E; [|destruct H]. destruct H as [H|[]]. injection H as -> ->.
    rewrite (Hend _ _ _ E). exists []. reflexivity.
  - destruct (fst (step st i)) as [st1|]; [|destruct H].
    destruct (IH _ _ _ _ H) as (pre & ->). eexists. rewrite app_assoc. reflexivity.
Qed.

Theorem flat_map_error_is_last mapper ol cnt running pos (ins : list (Z * inp A)) p err :
  In (p, Err err) (flat_map_spec mapper ol cnt running pos ins) ->
  exists pre, flat_map_spec mapper ol cnt running pos ins = pre ++ [(p, Err err)].
Proof.
  rewrite flat_map_spec_fold. apply fold_spec_error_last.
  intros [[ol' cnt'] r'] i e H. apply fm_step_err_iff in H.
  destruct H as [(-> & ->)|[(-> & x & -> & Hm)|(j & -> & Hj)]]; cbn [fm_step].
  - reflexivity.
  - now rewrite Hm.
  - now rewrite (in_mem_true _ _ Hj).
Qed.

Theorem mc_error_is_last mapper mc ol cnt running queue pos (ins : list (Z * inp A)) p err :
  In (p, Err err) (mc_spec mapper mc ol cnt running queue pos ins) ->
  exists pre, mc_spec mapper mc ol cnt running queue pos ins = pre ++ [(p, Err err)].
Proof.
  rewrite mc_spec_fold. apply fold_spec_error_last.
  intros [[[ol' cnt'] r'] q'] i e H. apply mc_step_err_iff in H.
  destruct H as [(-> & ->)|[(-> & x & -> & Hm)|(j & -> & Hj)]]; cbn [mc_step].
  - reflexivity.
  - now rewrite Hm.
  - now rewrite (in_mem_true _ _ Hj).
Qed.
End Errors.

(* ---- (d) concat_map: the ordered concatenation ---------------------------------- *)
Section ConcatMap.
Context {A : Type}.

(* the elements inner j delivers in the input sequence, in order *)
Definition head_elems (j : nat) (i : inp A) : list A :=
  match i with ISrc k (Next x) => if Nat.eqb k j then [x] else [] | _ => [] end.
Definition inner_elems (j : nat) (ins : list (Z * inp A)) : list A :=
  flat_map (fun ni => head_elems j (snd ni)) ins.

(* the elements of an output *)
Definition out_elems (l : list (nat * ev A)) : list A :=
  flat_map (fun pe => match snd pe with Next x => [x] | _ => [] end) l.

Lemma out_elems_app a b : out_elems (a ++ b) = out_elems a ++ out_elems b.
Proof. apply flat_map_app. Qed.

(* COLD inners: every notification of an inner arrives while that inner is subscribed
   (is among the running inners of the specification's state at that moment) *)
Definition cold (mapper : A -> nat -> res unit) (mc : nat) (st : mc_state) (ins : list (Z * inp A)) : Prop :=
  forall q now j e st', nth_error ins q = Some (now, ISrc (S j) e) ->
    mc_after mapper mc st (firstn q ins) = Some st' -> In (S j) (snd (fst st')).

Lemma cold_tail mapper mc st now i t st1 :
  cold mapper mc st ((now, i) :: t) -> fst (mc_step mapper mc st i) = Some st1 -> cold mapper mc st1 t.
Proof.
  intros H E q n j e st' Hn Ha. apply (H (S q) n j e st'); [exact Hn|].
  unfold mc_after in *. cbn [firstn fold_after]. rewrite E. exact Ha.
Qed.

(* an executable test for coldness (used for the non-vacuity examples) *)
Fixpoint coldb (mapper : A -> nat -> res unit) (mc : nat) (st : mc_state) (ins : list (Z * inp A)) : bool :=
  match ins with
  | [] => true
  | (_, i) :: t =>
      (match i with ISrc (S j) _ => mem (S j) (snd (fst st)) | _ => true end) &&
      match fst (mc_step mapper mc st i) with Some st1 => coldb mapper mc st1 t | None => true end
  end.

Lemma coldb_cold mapper mc (ins : list (Z * inp A)) : forall st, coldb mapper mc st ins = true -> cold mapper mc st ins.
Proof.
  induction ins as [|[now i] t IH]; intros st H q n j e st' Hn Ha; [destruct q; discriminate Hn|].
  cbn [coldb] in H. apply andb_prop in H. destruct H as [H1 H2].
  unfold mc_after in Ha. destruct q as [|q].
  - cbn [nth_error firstn fold_after] in *. injection Hn as <- ->. injection Ha as <-. now apply mem_in.
  - cbn [nth_error firstn fold_after] in *.
    destruct (fst (mc_step mapper mc st i)) as [st1|]; [|discriminate Ha].
    exact (IH st1 H2 q n j e st' Hn Ha).
Qed.

(* state of concat_map: nothing runs and nothing waits (the next inner to start is c =
   cnt+1), or inner c runs and c+1 .. cnt wait, in this order *)
Definition cm_inv (c : nat) (st : mc_state) : Prop :=
  let '(ol, cnt, running, queue) := st in
  (running = [] /\ queue = [] /\ c = S cnt) \/
  (running = [c] /\ queue = seq (S c) (cnt - c) /\ (1 <= c <= cnt)%nat).

Definition st_cnt (st : mc_state) : nat := snd (fst (fst st)).

(* one step: the current inner stays or moves to the next one; an element is emitted
   exactly for an element of the current inner *)
Lemma cm_step mapper (st : mc_state) (i : inp A) st1 c :
  cm_inv c st -> fst (mc_step mapper 1 st i) = Some st1 ->
  (forall j e, i = ISrc (S j) e -> In (S j) (snd (fst st))) ->
  exists c1, cm_inv c1 st1 /\ (st_cnt st <= st_cnt st1)%nat /\
    (c1 = c \/ (c1 = S c /\ (1 <= c <= st_cnt st)%nat)) /\
    match snd (mc_step mapper 1 st i) with
    | Some (Next x) => i = ISrc c (Next x) /\ c1 = c /\ (1 <= c <= st_cnt st)%nat
    | Some _ => False
    | None => forall k x, i = ISrc k (Next x) -> k = 0%nat
    end.
Proof.
  destruct st as [[[ol cnt] running] queue]. unfold st_cnt. cbn [fst snd]. intros Hinv E Hcold.
  destruct i as [[|j] e|tag|].
  - (* the outer *)
    cbn [mc_step] in *. destruct ol.
    + destruct e as [x|err|].
      * destruct (mapper x cnt) as [u|err]; [|discriminate E].
        destruct Hinv as [(-> & -> & ->)|(-> & -> & Hc)].
        -- cbn [length] in *. change (Nat.ltb 0 1) with true in *. cbn [fst snd] in *. injection E as <-.
           exists (S cnt). split; [|split; [cbn; lia|split; [auto|intros k y H; now injection H]]].
           right. cbn [app]. split; [reflexivity|]. rewrite Nat.sub_diag. split; [reflexivity|lia].
        -- cbn [length] in *. change (Nat.ltb 1 1) with false in *. cbn [fst snd] in *. injection E as <-.
           exists c. split; [|split; [cbn; lia|split; [auto|intros k y H; now injection H]]].
           right. split; [reflexivity|]. split; [|lia].
           replace (S cnt - c)%nat with (S (cnt - c)) by lia. rewrite seq_S. f_equal. f_equal. lia.
      * discriminate E.
      * destruct Hinv as [(-> & -> & ->)|(-> & -> & Hc)]; [discriminate E|].
        cbn [fst snd] in *. injection E as <-.
        exists c. split; [right; auto|]. split; [cbn; lia|]. split; [auto|intros k y H; discriminate H].
    + cbn [fst snd] in *. injection E as <-. exists c. split; [exact Hinv|]. split; [cbn; lia|].
      split; [auto|]. intros k y H. now injection H.
  - (* an inner: it is the current one *)
    pose proof (Hcold j e eq_refl) as Hrun.
    destruct Hinv as [(-> & -> & ->)|(-> & -> & Hc)]; [destruct Hrun|].
    destruct Hrun as [->|[]].
    cbn [mc_step mem existsb remove] in *. rewrite Nat.eqb_refl in *. cbn [orb] in *.
    destruct e as [x|err|].
    + cbn [fst snd] in *. injection E as <-. exists (S j). split; [right; auto|]. split; [cbn; lia|]. auto.
    + discriminate E.
    + destruct (cnt - S j)%nat as [|d] eqn:Hd; cbn [seq] in *.
      * destruct ol; [|discriminate E]. cbn [fst snd] in *. injection E as <-.
        exists (S (S j)). split; [left; repeat split; lia|]. split; [cbn; lia|]. split; [right; split; lia|].
        intros k y H. discriminate H.
      * cbn [fst snd app] in *. injection E as <-.
        exists (S (S j)). split; [|split; [cbn; lia|split; [right; split; lia|intros k y H; discriminate H]]].
        right. split; [reflexivity|]. split; [|lia]. f_equal. lia.
  - cbn [mc_step fst snd] in *. injection E as <-. exists c. split; [exact Hinv|]. split; [cbn; lia|].
    split; [auto|]. intros k y H. discriminate H.
  - discriminate E.
Qed.

Lemma concat_map_nil {X Y} (l : list X) : concat (map (fun _ => @nil Y) l) = [].
Proof. induction l; auto. Qed.

Lemma inner_elems_cons j now (i : inp A) t :
  inner_elems j ((now, i) :: t) = head_elems j i ++ inner_elems j t.
Proof. reflexivity. Qed.

(* the generalised statement: from any concat_map state, over an input sequence that keeps
   the output alive and whose inner notifications are cold *)
Lemma cm_ordered mapper (ins : list (Z * inp A)) : forall st c pos st',
  cm_inv c st -> mc_after mapper 1 st ins = Some st' -> cold mapper 1 st ins ->
  (st_cnt st <= st_cnt st')%nat
  /\ (forall j, (1 <= j < c)%nat -> inner_elems j ins = [])
  /\ out_elems (fold_spec (mc_step mapper 1) st pos ins)
     = concat (map (fun j => inner_elems j ins) (seq c (S (st_cnt st') - c))).
Proof.
  induction ins as [|[now i] t IH]; intros st c pos st' Hinv Ha Hcold.
  - cbn [mc_after fold_after] in Ha. unfold mc_after in Ha. cbn [fold_after] in Ha. injection Ha as <-.
    split; [lia|]. split; [reflexivity|]. cbn [fold_spec out_elems flat_map].
    symmetry. apply (concat_map_nil (seq c (S (st_cnt st) - c))).
  - unfold mc_after in Ha. cbn [fold_after] in Ha.
    destruct (fst (mc_step mapper 1 st i)) as [st1|] eqn:E; [|discriminate Ha].
    assert (Hhead : forall j e, i = ISrc (S j) e -> In (S j) (snd (fst st))).
    { intros j e ->. apply (Hcold 0%nat now j e st); reflexivity. }
    destruct (cm_step mapper st i st1 c Hinv E Hhead) as (c1 & Hinv1 & Hcnt & Hc1 & Hem).
    destruct (IH st1 c1 (S pos) st' Hinv1 Ha (cold_tail _ _ _ _ _ _ _ Hcold E)) as (IH1 & IH2 & IH3).
    split; [lia|].
    cbn [fold_spec]. rewrite E, out_elems_app, IH3.
    destruct (snd (mc_step mapper 1 st i)) as [[x|err|]|] eqn:Es; try contradiction.
    + (* an element of the current inner *)
      destruct Hem as (-> & -> & Hc). split.
      * intros j Hj. rewrite inner_elems_cons, (IH2 j Hj). cbn [head_elems].
        destruct (Nat.eqb_spec c j); [lia|reflexivity].
      * replace (S (st_cnt st') - c)%nat with (S (st_cnt st' - c)) by lia. cbn [seq map concat].
        rewrite inner_elems_cons. cbn [head_elems]. rewrite Nat.eqb_refl.
        cbn [out_elems flat_map snd app]. f_equal. f_equal. f_equal.
        apply map_ext_in. intros j Hj. apply in_seq in Hj.
        rewrite inner_elems_cons. cbn [head_elems]. destruct (Nat.eqb_spec c j); [lia|reflexivity].
    + (* nothing emitted: not an element of an inner *)
      assert (Hno : forall j, (1 <= j)%nat -> head_elems j i = []).
      { intros j Hj. destruct i as [k [y|y|]|tag|]; try reflexivity. cbn [head_elems].
        rewrite (Hem k y eq_refl). destruct (Nat.eqb_spec 0 j); [lia|reflexivity]. }
      split.
      * intros j Hj. rewrite inner_elems_cons, Hno by lia. cbn [app]. apply IH2.
        destruct Hc1 as [->|[-> _]]; lia.
      * cbn [out_elems flat_map app].
        assert (Hext : forall l, (forall j, In j l -> (1 <= j)%nat) ->
                  map (fun j => inner_elems j ((now, i) :: t)) l = map (fun j => inner_elems j t) l).
        { intros l Hl. apply map_ext_in. intros j Hj. now rewrite inner_elems_cons, Hno by (apply Hl; exact Hj). }
        destruct Hc1 as [->|[-> Hc]].
        -- rewrite Hext; [reflexivity|]. intros j Hj. apply in_seq in Hj.
           assert (1 <= c)%nat; [|lia].
           destruct st as [[[ol cnt] running] queue]. cbn in Hinv. destruct Hinv as [(_ & _ & ->)|(_ & _ & ?)]; lia.
        -- replace (S (st_cnt st') - c)%nat with (S (S (st_cnt st') - S c)) by lia. cbn [seq].
           rewrite Hext by (intros j Hj; destruct Hj as [<-|Hj]; [lia|apply in_seq in Hj; lia]).
           cbn [map concat]. rewrite (IH2 c) by lia. reflexivity.
Qed.

(* CONCAT_MAP EMITS THE ORDERED CONCATENATION: for every mapper and every input sequence --
   whatever the interleaving of the outer's notifications with the inners' -- during which
   the output has not ended and in which the inners are cold, the elements emitted are the
   elements of inner 1, then those of inner 2, ... up to the last inner created *)
Theorem concat_map_ordered mapper (ins : list (Z * inp A)) ol cnt running queue :
  mc_after mapper 1 (true, 0%nat, [], []) ins = Some (ol, cnt, running, queue) ->
  cold mapper 1 (true, 0%nat, [], []) ins ->
  out_elems (temitted (fst (run (x_merge_concurrent 1 mapper) ins)))
  = concat (map (fun j => inner_elems j ins) (seq 1 cnt)).
Proof.
  intros Ha Hcold. rewrite merge_concurrent_refines_spec, mc_spec_fold.
  destruct (cm_ordered mapper ins (true, 0%nat, [], []) 1 1 _ (or_introl (conj eq_refl (conj eq_refl eq_refl))) Ha Hcold)
    as (_ & _ & H).
  rewrite H. unfold st_cnt. cbn [fst snd]. replace (S cnt - 1)%nat with cnt by lia. reflexivity.
Qed.
End ConcatMap.

(* ---- (d) concat_map: closed form in one concrete environment, terminal included ---- *)
Section ConcatMapClosed.
Context {A : Type}.

(* the outer delivers its elements and completes (a synchronous outer such as of(..)),
   then the inners created for them (numbered 1, 2, ..) run one after the other, each
   producing only once it is subscribed *)
Definition cm_env (xs : list A) (srcs : list (list A * term)) : list (Z * inp A) :=
  map (fun x => (0, ISrc 0%nat (Next x))) xs ++ (0, ISrc 0%nat Done) :: seq_env_from 1 srcs.

Lemma emitted_temitted {B} (tr : list (nat * obs B)) : emitted tr = map snd (temitted tr).
Proof.
  unfold emitted, temitted. induction tr as [|[k o] t IH]; [reflexivity|].
  cbn [flat_map snd fst]. rewrite map_app, IH. destruct o; reflexivity.
Qed.

Variable mapper : A -> nat -> res unit.
Hypothesis Hm : forall x k, mapper x k = Ok tt.

Let stp := mc_step mapper 1.

(* further outer elements while inner c runs: they queue up behind it *)
Lemma cm_outer_running (xs : list A) : forall cnt c pos, (1 <= c <= cnt)%nat ->
  fold_spec stp (true, cnt, [c], seq (S c) (cnt - c)) pos (map (fun x => (0, ISrc 0%nat (Next x))) xs) = []
  /\ fold_after stp (true, cnt, [c], seq (S c) (cnt - c)) (map (fun x => (0, ISrc 0%nat (Next x))) xs)
     = Some (true, (cnt + length xs)%nat, [c], seq (S c) (cnt + length xs - c)).
Proof.
  induction xs as [|x t IH]; intros cnt c pos Hc.
  - cbn. rewrite Nat.add_0_r. auto.
  - cbn [map fold_spec fold_after length]. unfold stp at 1 2 3 4. cbn [mc_step]. rewrite Hm.
    cbn [length]. change (Nat.ltb 1 1) with false. cbn [fst snd app].
    assert (E : seq (S c) (cnt - c) ++ [S cnt] = seq (S c) (S cnt - c)).
    { replace (S cnt - c)%nat with (S (cnt - c)) by lia. rewrite seq_S. f_equal. f_equal. lia. }
    rewrite E. destruct (IH (S cnt) c (S pos)) as [H1 H2]; [lia|].
    fold stp. rewrite H1, H2. split; [reflexivity|]. replace (cnt + S (length t))%nat with (S cnt + length t)%nat by lia. reflexivity.
Qed.

(* the elements of the running inner pass *)
Lemma cm_inner_elems ol cnt c queue (ys : list A) : forall pos,
  map snd (fold_spec stp (ol, cnt, [S c], queue) pos (map (fun e => (0, ISrc (S c) e)) (map Next ys))) = map Next ys
  /\ fold_after stp (ol, cnt, [S c], queue) (map (fun e => (0, ISrc (S c) e)) (map Next ys))
     = Some (ol, cnt, [S c], queue).
Proof.
  induction ys as [|y t IH]; intros pos; [split; reflexivity|].
  cbn [map fold_spec fold_after]. unfold stp at 1 2 3 4.
  cbn [mc_step mem existsb]. rewrite Nat.eqb_refl. cbn [orb fst snd app map].
  fold stp. destruct (IH (S pos)) as [H1 H2]. rewrite H1, H2. split; reflexivity.
Qed.

(* notifications of inners that are not running change nothing *)
Lemma cm_not_running (st : mc_state) (ins : list (Z * inp A)) : forall pos,
  (forall now i, In (now, i) ins -> exists j e, i = ISrc (S j) e /\ mem (S j) (snd (fst st)) = false) ->
  fold_spec stp st pos ins = [].
Proof.
  induction ins as [|[now i] t IH]; intros pos H; [reflexivity|].
  destruct (H now i (or_introl eq_refl)) as (j & e & -> & Hmem).
  destruct st as [[[ol cnt] running] queue]. cbn [fst snd] in Hmem.
  cbn [fold_spec]. unfold stp at 1 2. cbn [mc_step]. rewrite Hmem. cbn [fst snd app].
  apply IH. intros n0 i0 Hin. apply (H n0 i0). right. exact Hin.
Qed.

Lemma in_seq_env' (srcs : list (list A * term)) : forall j now i,
  In (now, i) (seq_env_from j srcs) -> exists j' e, i = ISrc j' e /\ (j <= j')%nat.
Proof.
  induction srcs as [|s rest IH]; intros j now i H; [destruct H|].
  cbn [seq_env_from] in H. apply in_app_or in H. destruct H as [H|H].
  - unfold block in H. apply in_map_iff in H. destruct H as (e & He & _). injection He as <- <-.
    exists j, e. auto.
  - destruct (IH _ _ _ H) as (j' & e & -> & Hle). exists j', e. split; [reflexivity|lia].
Qed.

(* the inners one after the other, the outer having completed *)
Lemma cm_inners (srcs : list (list A * term)) : forall c n pos,
  (S c + length srcs = S n)%nat -> srcs <> [] ->
  map snd (fold_spec stp (false, n, [S c], seq (S (S c)) (n - S c)) pos (seq_env_from (S c) srcs))
  = concat_spec srcs.
Proof.
  induction srcs as [|[ys t] rest IH]; intros c n pos Hn Hne; [congruence|].
  cbn [seq_env_from concat_spec length] in *. unfold block, events. cbn [fst snd].
  rewrite map_app, <- app_assoc, fold_spec_app, map_app.
  destruct (cm_inner_elems false n c (seq (S (S c)) (n - S c)) ys pos) as [H1 H2].
  rewrite H1, H2. f_equal.
  destruct t as [|e|].
  - (* the inner completes: the next one starts, or the output completes *)
    cbn [map app fold_spec]. unfold stp at 1 2. cbn [mc_step mem existsb remove]. rewrite Nat.eqb_refl. cbn [orb].
    destruct rest as [|s2 rest2].
    + assert (n - S c = 0)%nat as -> by (cbn in Hn; lia). cbn. reflexivity.
    + destruct (n - S c)%nat as [|d] eqn:Hd; [cbn in Hn; lia|].
      cbn [seq fst snd app]. fold stp.
      replace d with (n - S (S c))%nat by lia.
      rewrite IH; [reflexivity|cbn in *; lia|discriminate].
  - cbn [map app fold_spec]. unfold stp at 1 2. cbn [mc_step mem existsb]. rewrite Nat.eqb_refl. reflexivity.
  - cbn [map app]. rewrite cm_not_running; [reflexivity|].
    intros now i Hin. destruct (in_seq_env' _ _ _ _ Hin) as (j' & e & -> & Hle).
    destruct j' as [|j]; [lia|]. exists j, e. split; [reflexivity|].
    cbn [fst snd mem existsb]. destruct (Nat.eqb_spec (S j) (S c)); [lia|reflexivity].
Qed.

(* CLOSED FORM: concat_map over a synchronous outer = concat of the inner sequences *)
Theorem concat_map_closed_form (xs : list A) (srcs : list (list A * term)) :
  length srcs = length xs ->
  emitted (fst (run (x_merge_concurrent 1 mapper) (cm_env xs srcs))) = concat_spec srcs.
Proof.
  intros Hlen. rewrite emitted_temitted, merge_concurrent_refines_spec, mc_spec_fold. fold stp.
  unfold cm_env. rewrite fold_spec_app.
  destruct xs as [|x xs'].
  - destruct srcs; [|discriminate Hlen]. cbn. reflexivity.
  - (* the first element starts inner 1, the others queue up *)
    cbn [map fold_spec fold_after]. unfold stp at 1 2 3 4. cbn [mc_step]. rewrite Hm.
    cbn [length]. change (Nat.ltb 0 1) with true. cbn [fst snd app]. fold stp.
    destruct (cm_outer_running xs' 1 1 2) as [H1 H2]; [lia|].
    change (seq 2 (1 - 1)) with (@nil nat) in H1, H2. rewrite H1, H2. cbn [app map].
    (* the outer completes while inner 1 runs *)
    unfold stp at 1 2. cbn [mc_step fst snd app]. fold stp.
    destruct srcs as [|s rest]; [discriminate Hlen|].
    apply cm_inners; [cbn [length] in *; lia|discriminate].
Qed.
End ConcatMapClosed.
