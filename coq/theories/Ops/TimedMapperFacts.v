From RxVerif Require Import Base.Prelude Ops.Machine Ops.Multi Ops.MultiFacts Ops.Timed.

(* ---- operators driven by observables a mapper makes: step-level theorems ---
   (for EVERY machine state, clock reading and input; the instants at which the
   delay / throttle / timeout observables notify are inputs, so "when its
   observable fires" is literally "at that input") *)
Section MapperSteps.
Context {A : Type}.

Definition emitted_cmds (cs : list (cmd A)) : list A :=
  flat_map (fun c => match c with CEmit b => [b] | _ => [] end) cs.
Definition opt_list (v : option A) : list A := match v with Some x => [x] | None => [] end.
Definition not_err (e : ev A) : Prop := forall c, e <> Err c.

Lemma emitted_emit_opt v : emitted_cmds (emit_opt v) = opt_list v.
Proof. destruct v; reflexivity. Qed.
Lemma emitted_app a b : emitted_cmds (a ++ b) = emitted_cmds a ++ emitted_cmds b.
Proof. unfold emitted_cmds. apply flat_map_app. Qed.
Lemma emitted_unsub_prev n : emitted_cmds (unsub_prev n) = [].
Proof. destruct n; reflexivity. Qed.
Lemma emitted_unsub_cur c : emitted_cmds (unsub_cur c) = [].
Proof. destruct c; reflexivity. Qed.

Definition dwm_special (has_sub : bool) (k : nat) : bool := Nat.eqb k 0 || (has_sub && Nat.eqb k 1).

Theorem delay_with_mapper_step_partial has_sub (mapper : A -> nat -> res unit) (s : dwm_st) now :
  let m := x_delay_with_mapper has_sub mapper in
  (* an element is delivered at the FIRST notification (on_next or on_completed) of its delay
     observable, which is then forgotten (a second notification finds nothing) *)
  (forall k e x, dwm_special has_sub k = false -> lookup k (dw_delays s) = Some x -> not_err e ->
     emitted_cmds (snd (fst (x_step m s now (ISrc k e)))) = [x]
     /\ dw_delays (fst (fst (x_step m s now (ISrc k e)))) = remove_key k (dw_delays s)
     /\ snd (x_step m s now (ISrc k e))
        = if dw_at_end s && Nat.eqb (length (remove_key k (dw_delays s))) 0 then Complete else Cont)
  (* and ONLY then *)
  /\ (forall i x, In x (emitted_cmds (snd (fst (x_step m s now i)))) ->
        exists k e, i = ISrc k e /\ dwm_special has_sub k = false /\ not_err e /\ lookup k (dw_delays s) = Some x)
  (* an element of the source registers its delay observable (the next source number) *)
  /\ (forall x u, mapper x (dw_cnt s) = Ok u ->
        x_step m s now (ISrc 0%nat (Next x))
        = (DwmSt (S (dw_cnt s)) (dw_at_end s)
                 (dw_delays s ++ [(((if has_sub then 2 else 1) + dw_cnt s)%nat, x)]),
           [CSub ((if has_sub then 2 else 1) + dw_cnt s)%nat], Cont))
  (* an error of any observable (source, subscription delay, delay observable) and a raising
     mapper end the sequence at once *)
  /\ (forall k c, snd (x_step m s now (ISrc k (Err c))) = Fail c
                  /\ emitted_cmds (snd (fst (x_step m s now (ISrc k (Err c))))) = [])
  /\ (forall x c, mapper x (dw_cnt s) = Raise c -> snd (x_step m s now (ISrc 0%nat (Next x))) = Fail c).
Proof.
  cbn zeta. split; [|split; [|split; [|split]]]; [intros k e x H H0 H1; split; [|split]| | |intros k c; split|].
  - destruct k as [|[|k]]; cbn in H; try discriminate; destruct has_sub; cbn in H; try discriminate;
      destruct e as [y|c|]; try (exfalso; exact (H1 c eq_refl)); cbn; rewrite H0; reflexivity.
  - destruct k as [|[|k]]; cbn in H; try discriminate; destruct has_sub; cbn in H; try discriminate;
      destruct e as [y|c|]; try (exfalso; exact (H1 c eq_refl)); cbn; rewrite H0; reflexivity.
  - destruct k as [|[|k]]; cbn in H; try discriminate; destruct has_sub; cbn in H; try discriminate;
      destruct e as [y|c|]; try (exfalso; exact (H1 c eq_refl)); cbn; rewrite H0; reflexivity.
  - intros i x Hin. destruct i as [k e| |]; [|destruct Hin|destruct Hin].
    destruct k as [|[|k]]; destruct has_sub; destruct e as [y|c|]; cbn in Hin;
      try (destruct (mapper y (dw_cnt s)); cbn in Hin); try contradiction;
      match type of Hin with
      | context [lookup ?k (dw_delays s)] =>
          destruct (lookup k (dw_delays s)) as [z|] eqn:El; cbn in Hin; [|contradiction];
          destruct Hin as [<-|[]];
          refine (ex_intro _ _ (ex_intro _ _ (conj eq_refl (conj eq_refl (conj _ El))))); intros c' Hc; discriminate
      end.
  - intros x u Hm. cbn. rewrite Hm. destruct has_sub; reflexivity.
  - destruct k as [|[|k]]; destruct has_sub; reflexivity.
  - destruct k as [|[|k]]; destruct has_sub; reflexivity.
  - intros x c Hm. cbn. rewrite Hm. reflexivity.
Qed.

Theorem throttle_with_mapper_step_partial (mapper : A -> nat -> res unit) (s : thm_st) now :
  let m := x_throttle_with_mapper mapper in
  (* the throttle observable of the LATEST element fires (on_next or on_completed): the pending
     element is emitted; a throttle observable of an older element (its id is stale) emits nothing *)
  (forall k e cid, k <> 0%nat -> lookup k (tm_subs s) = Some cid -> not_err e ->
     emitted_cmds (snd (fst (x_step m s now (ISrc k e))))
     = (if tm_has s && Nat.eqb (tm_id s) cid then opt_list (tm_value s) else [])
     /\ tm_has (fst (fst (x_step m s now (ISrc k e)))) = false
     /\ snd (x_step m s now (ISrc k e)) = Cont)
  (* a new element becomes the pending one, gets a fresh id (all earlier throttle observables are
     stale from now on) and replaces the previous throttle subscription *)
  /\ (forall x u, mapper x (tm_cnt s) = Ok u ->
        x_step m s now (ISrc 0%nat (Next x))
        = (ThmSt true (Some x) (S (tm_id s)) ((S (tm_cnt s), S (tm_id s)) :: tm_subs s) (S (tm_cnt s)),
           unsub_prev (tm_cnt s) ++ [CSub (S (tm_cnt s))], Cont))
  (* completion flushes the pending element; an error (source or throttle observable) drops it *)
  /\ (emitted_cmds (snd (fst (x_step m s now (ISrc 0%nat Done)))) = (if tm_has s then opt_list (tm_value s) else [])
      /\ snd (x_step m s now (ISrc 0%nat Done)) = Complete)
  /\ (forall k c, snd (x_step m s now (ISrc k (Err c))) = Fail c
                  /\ emitted_cmds (snd (fst (x_step m s now (ISrc k (Err c))))) = [])
  /\ (forall x c, mapper x (tm_cnt s) = Raise c -> snd (x_step m s now (ISrc 0%nat (Next x))) = Fail c).
Proof.
  cbn zeta. split; [|split; [|split; [|split]]].
  - intros k e cid Hk Hl Hne. destruct k as [|k]; [contradiction|].
    destruct e as [y|c|]; try (exfalso; exact (Hne c eq_refl)); cbn; rewrite Hl, emitted_app;
      cbn; rewrite app_nil_r; (destruct (tm_has s && Nat.eqb (tm_id s) cid); [rewrite emitted_emit_opt|]; auto).
  - intros x u Hm. cbn. rewrite Hm. reflexivity.
  - cbn. rewrite emitted_app, emitted_unsub_prev. destruct (tm_has s); [rewrite emitted_emit_opt|]; auto.
  - intros k c. destruct k as [|k]; cbn; [rewrite emitted_unsub_prev|]; auto.
  - intros x c Hm. cbn. rewrite Hm. reflexivity.
Qed.

(* timeout_with_mapper: sources 0 = main, 1 = first timeout, 2 = fallback, 3.. = timeouts made by the mapper *)
Theorem timeout_with_mapper_step_partial hf ho (mapper : option (A -> nat -> res unit)) (s : twm_st) now :
  let m := x_timeout_with_mapper hf ho mapper in
  (* the CURRENT timeout observable (its id is the latest) emits or completes: switch to the
     fallback (or fail with Timeout); nothing is emitted at that input when a fallback exists *)
  (forall k e, k <> 0%nat -> k <> 2%nat -> lookup k (tw_timers s) = Some (tw_id s) -> not_err e ->
     emitted_cmds (snd (fst (x_step m s now (ISrc k e)))) = []
     /\ (ho = true -> In (CSub 2%nat) (snd (fst (x_step m s now (ISrc k e))))
                      /\ In (CUnsub 0%nat) (snd (fst (x_step m s now (ISrc k e))))
                      /\ snd (x_step m s now (ISrc k e)) = Cont)
     /\ (ho = false -> e = Done -> snd (x_step m s now (ISrc k e)) = Fail TIMEOUT_ERR))
  (* a STALE timeout observable (the source notified since it was set) never switches *)
  /\ (forall k e my, k <> 0%nat -> k <> 2%nat -> lookup k (tw_timers s) = Some my -> my <> tw_id s ->
        emitted_cmds (snd (fst (x_step m s now (ISrc k e)))) = []
        /\ ~ In (CSub 2%nat) (snd (fst (x_step m s now (ISrc k e))))
        /\ snd (x_step m s now (ISrc k e)) = Cont)
  (* every notification of the source is forwarded and makes all earlier timeouts stale *)
  /\ (forall e, tw_id (fst (fst (x_step m s now (ISrc 0%nat e)))) = S (tw_id s))
  /\ (forall x, exists rest, snd (fst (x_step m s now (ISrc 0%nat (Next x)))) = CEmit x :: rest)
  /\ (snd (x_step m s now (ISrc 0%nat Done)) = Complete)
  /\ (forall c, snd (x_step m s now (ISrc 0%nat (Err c))) = Fail c).
Proof.
  cbn zeta. split; [|split; [|split; [|split; [|split]]]].
  - intros k e Hk0 Hk2 Hl Hne. destruct k as [|[|[|k]]]; try contradiction;
      destruct e as [y|c|]; try (exfalso; exact (Hne c eq_refl)); cbn; rewrite Hl, Nat.eqb_refl;
      destruct ho; cbn; repeat split; try discriminate; auto; try (intros; discriminate).
  - intros k e my Hk0 Hk2 Hl Hne. assert (E : Nat.eqb (tw_id s) my = false) by (apply Nat.eqb_neq; auto).
    destruct k as [|[|[|k]]]; try contradiction; destruct e as [y|c|]; cbn; rewrite Hl, E; cbn;
      repeat split; auto; intros [H|H]; try discriminate; try contradiction.
  - intros e. destruct e as [x|c|]; cbn; try reflexivity.
    destruct mapper as [f|]; [destruct (f x (tw_cnt s))|]; reflexivity.
  - intros x. cbn. destruct mapper as [f|]; [destruct (f x (tw_cnt s))|]; eexists; reflexivity.
  - reflexivity.
  - reflexivity.
Qed.
End MapperSteps.
