(* C38 -- facts about the value / timestamp model Ops/MarbleNumbers.v (untouched).
   [parse_int_render_Z]   : int(str(z)) = z for every integer z; [render_Z] is the
                            standard library's decimal printing (Z.to_int, then
                            DecimalString), "-" followed by the digits, no leading
                            zeros -- what Python's str(int) writes.
   [parse_int_uint]       : more generally every non-empty string of decimal digits
                            (leading zeros allowed) reads as its decimal value, also
                            behind a "+" or "-" sign.
   [valof_spec]           : lookup_.get(v, v) with v = try_number(element).
   [try_number_string]    : elements whose first character after an optional sign is
                            neither a digit nor "." and that are not inf/infinity/nan
                            stay strings.
   [try_number_foreign_char]: elements containing a character outside
                            0-9 _ . e E + - that are not inf/infinity/nan stay strings.
   [time_of_spec]         : the timestamp of a frame is frame * timespan + shift, in
                            Python's int/float arithmetic; integer case monotone.
   [cold_case_times], [cold_case_diagram], [hot_case_times]: the times delivered by
                            the cold / hot models are [time_of] of the parsed frames.
   No theorem here reasons about floating-point arithmetic (no FloatAxioms). *)
From Coq Require Import List Ascii String Bool Arith ZArith Lia.
From Coq Require Import Decimal DecimalString DecimalPos DecimalN DecimalZ.
From Coq Require Import PrimFloat.
From RxVerif Require Import Ops.Marbles Ops.MarblesFacts Ops.MarbleNumbers.
Import ListNotations.
Open Scope char_scope.
Open Scope list_scope.

(* ---- decimal rendering (standard library) -------------------------------------------------- *)
Definition uchars (d : uint) : str := list_ascii_of_string (NilEmpty.string_of_uint d).
Definition render_Z (z : Z) : str := list_ascii_of_string (NilZero.string_of_int (Z.to_int z)).

Lemma scan_step : forall c r acc cnt d, digit_val c = Some d ->
  scan_digits_aux (c :: r) acc cnt = scan_digits_aux r (acc * 10 + d)%Z (S cnt).
Proof. intros c r acc cnt d H. simpl. rewrite H. reflexivity. Qed.

Lemma scan_pos : forall d acc cnt, exists n,
  scan_digits_aux (uchars d) (Z.pos acc) cnt = (Z.pos (Pos.of_uint_acc d acc), n, []).
Proof.
  induction d as [|d IH|d IH|d IH|d IH|d IH|d IH|d IH|d IH|d IH|d IH]; intros acc cnt.
  - exists cnt. reflexivity.
  - destruct (IH (10 * acc)%positive (S cnt)) as [n Hn]. exists n.
    change (uchars (D0 d)) with ("0" :: uchars d). rewrite (scan_step _ _ _ _ 0%Z) by reflexivity.
    replace (Z.pos acc * 10 + 0)%Z with (Z.pos (10 * acc)) by lia. exact Hn.
  - destruct (IH (1 + 10 * acc)%positive (S cnt)) as [n Hn]. exists n.
    change (uchars (D1 d)) with ("1" :: uchars d). rewrite (scan_step _ _ _ _ 1%Z) by reflexivity.
    replace (Z.pos acc * 10 + 1)%Z with (Z.pos (1 + 10 * acc)) by lia. exact Hn.
  - destruct (IH (2 + 10 * acc)%positive (S cnt)) as [n Hn]. exists n.
    change (uchars (D2 d)) with ("2" :: uchars d). rewrite (scan_step _ _ _ _ 2%Z) by reflexivity.
    replace (Z.pos acc * 10 + 2)%Z with (Z.pos (2 + 10 * acc)) by lia. exact Hn.
  - destruct (IH (3 + 10 * acc)%positive (S cnt)) as [n Hn]. exists n.
    change (uchars (D3 d)) with ("3" :: uchars d). rewrite (scan_step _ _ _ _ 3%Z) by reflexivity.
    replace (Z.pos acc * 10 + 3)%Z with (Z.pos (3 + 10 * acc)) by lia. exact Hn.
  - destruct (IH (4 + 10 * acc)%positive (S cnt)) as [n Hn]. exists n.
    change (uchars (D4 d)) with ("4" :: uchars d). rewrite (scan_step _ _ _ _ 4%Z) by reflexivity.
    replace (Z.pos acc * 10 + 4)%Z with (Z.pos (4 + 10 * acc)) by lia. exact Hn.
  - destruct (IH (5 + 10 * acc)%positive (S cnt)) as [n Hn]. exists n.
    change (uchars (D5 d)) with ("5" :: uchars d). rewrite (scan_step _ _ _ _ 5%Z) by reflexivity.
    replace (Z.pos acc * 10 + 5)%Z with (Z.pos (5 + 10 * acc)) by lia. exact Hn.
  - destruct (IH (6 + 10 * acc)%positive (S cnt)) as [n Hn]. exists n.
    change (uchars (D6 d)) with ("6" :: uchars d). rewrite (scan_step _ _ _ _ 6%Z) by reflexivity.
    replace (Z.pos acc * 10 + 6)%Z with (Z.pos (6 + 10 * acc)) by lia. exact Hn.
  - destruct (IH (7 + 10 * acc)%positive (S cnt)) as [n Hn]. exists n.
    change (uchars (D7 d)) with ("7" :: uchars d). rewrite (scan_step _ _ _ _ 7%Z) by reflexivity.
    replace (Z.pos acc * 10 + 7)%Z with (Z.pos (7 + 10 * acc)) by lia. exact Hn.
  - destruct (IH (8 + 10 * acc)%positive (S cnt)) as [n Hn]. exists n.
    change (uchars (D8 d)) with ("8" :: uchars d). rewrite (scan_step _ _ _ _ 8%Z) by reflexivity.
    replace (Z.pos acc * 10 + 8)%Z with (Z.pos (8 + 10 * acc)) by lia. exact Hn.
  - destruct (IH (9 + 10 * acc)%positive (S cnt)) as [n Hn]. exists n.
    change (uchars (D9 d)) with ("9" :: uchars d). rewrite (scan_step _ _ _ _ 9%Z) by reflexivity.
    replace (Z.pos acc * 10 + 9)%Z with (Z.pos (9 + 10 * acc)) by lia. exact Hn.
Qed.

Lemma scan_zero : forall d cnt, exists n,
  scan_digits_aux (uchars d) 0%Z cnt = (Z.of_uint d, n, []).
Proof.
  unfold Z.of_uint.
  induction d as [|d IH|d IH|d IH|d IH|d IH|d IH|d IH|d IH|d IH|d IH]; intros cnt.
  - exists cnt. reflexivity.
  - destruct (IH (S cnt)) as [n Hn]. exists n.
    change (uchars (D0 d)) with ("0" :: uchars d). rewrite (scan_step _ _ _ _ 0%Z) by reflexivity. exact Hn.
  - destruct (scan_pos d 1 (S cnt)) as [n Hn]. exists n.
    change (uchars (D1 d)) with ("1" :: uchars d). rewrite (scan_step _ _ _ _ 1%Z) by reflexivity. exact Hn.
  - destruct (scan_pos d 2 (S cnt)) as [n Hn]. exists n.
    change (uchars (D2 d)) with ("2" :: uchars d). rewrite (scan_step _ _ _ _ 2%Z) by reflexivity. exact Hn.
  - destruct (scan_pos d 3 (S cnt)) as [n Hn]. exists n.
    change (uchars (D3 d)) with ("3" :: uchars d). rewrite (scan_step _ _ _ _ 3%Z) by reflexivity. exact Hn.
  - destruct (scan_pos d 4 (S cnt)) as [n Hn]. exists n.
    change (uchars (D4 d)) with ("4" :: uchars d). rewrite (scan_step _ _ _ _ 4%Z) by reflexivity. exact Hn.
  - destruct (scan_pos d 5 (S cnt)) as [n Hn]. exists n.
    change (uchars (D5 d)) with ("5" :: uchars d). rewrite (scan_step _ _ _ _ 5%Z) by reflexivity. exact Hn.
  - destruct (scan_pos d 6 (S cnt)) as [n Hn]. exists n.
    change (uchars (D6 d)) with ("6" :: uchars d). rewrite (scan_step _ _ _ _ 6%Z) by reflexivity. exact Hn.
  - destruct (scan_pos d 7 (S cnt)) as [n Hn]. exists n.
    change (uchars (D7 d)) with ("7" :: uchars d). rewrite (scan_step _ _ _ _ 7%Z) by reflexivity. exact Hn.
  - destruct (scan_pos d 8 (S cnt)) as [n Hn]. exists n.
    change (uchars (D8 d)) with ("8" :: uchars d). rewrite (scan_step _ _ _ _ 8%Z) by reflexivity. exact Hn.
  - destruct (scan_pos d 9 (S cnt)) as [n Hn]. exists n.
    change (uchars (D9 d)) with ("9" :: uchars d). rewrite (scan_step _ _ _ _ 9%Z) by reflexivity. exact Hn.
Qed.

(* the first character of a non-empty digit string is a digit *)
Lemma uchars_head : forall d, d <> Nil -> exists c r v, uchars d = c :: r /\ digit_val c = Some v.
Proof.
  intros [|d|d|d|d|d|d|d|d|d|d] H; [contradiction| | | | | | | | | | ];
    eexists; eexists; eexists; (split; [reflexivity | reflexivity]).
Qed.

Lemma scan_digits_uint : forall d, d <> Nil -> exists n, scan_digits (uchars d) = Some (Z.of_uint d, n, []).
Proof.
  intros d H. destruct (uchars_head d H) as [c [r [v [E Hv]]]].
  destruct (scan_zero d 0) as [n Hn]. exists n.
  unfold scan_digits. rewrite E, Hv. rewrite <- E, Hn. reflexivity.
Qed.

Lemma take_sign_digit : forall c r v, digit_val c = Some v -> take_sign (c :: r) = (false, c :: r).
Proof.
  intros c r v H. unfold take_sign.
  destruct (ch_eqb c "-") eqn:E1; [apply ch_eqb_eq in E1; subst; discriminate|].
  destruct (ch_eqb c "+") eqn:E2; [apply ch_eqb_eq in E2; subst; discriminate|]. reflexivity.
Qed.

(* int("0042") = 42, int("+7") = 7, int("-007") = -7 : any non-empty digit string *)
Theorem parse_int_uint : forall d, d <> Nil ->
  parse_int (uchars d) = Some (Z.of_uint d)
  /\ parse_int ("+" :: uchars d) = Some (Z.of_uint d)
  /\ parse_int ("-" :: uchars d) = Some (- Z.of_uint d)%Z.
Proof.
  intros d H. destruct (scan_digits_uint d H) as [n Hn].
  destruct (uchars_head d H) as [c [r [v [E Hv]]]].
  unfold parse_int. repeat split.
  - rewrite E, (take_sign_digit _ _ _ Hv), <- E, Hn. reflexivity.
  - cbn [take_sign]. change (ch_eqb "+" "-") with false. change (ch_eqb "+" "+") with true.
    cbn iota. rewrite Hn. reflexivity.
  - cbn [take_sign]. change (ch_eqb "-" "-") with true. cbn iota. rewrite Hn. reflexivity.
Qed.

(* int(str(z)) = z *)
Theorem parse_int_render_Z : forall z, parse_int (render_Z z) = Some z.
Proof.
  intros z. rewrite <- (DecimalZ.of_to z) at 2. unfold render_Z.
  destruct z as [|p|p]; cbn [Z.to_int NilZero.string_of_int Z.of_int].
  - reflexivity.
  - pose proof (Unsigned.to_uint_nonnil p) as Hn.
    replace (NilZero.string_of_uint (Pos.to_uint p)) with (NilEmpty.string_of_uint (Pos.to_uint p))
      by (destruct (Pos.to_uint p); [contradiction | reflexivity ..]).
    apply (parse_int_uint _ Hn).
  - pose proof (Unsigned.to_uint_nonnil p) as Hn.
    replace (NilZero.string_of_uint (Pos.to_uint p)) with (NilEmpty.string_of_uint (Pos.to_uint p))
      by (destruct (Pos.to_uint p); [contradiction | reflexivity ..]).
    apply (parse_int_uint _ Hn).
Qed.

Theorem try_number_render_Z : forall z, try_number (render_Z z) = PInt z.
Proof. intros z. unfold try_number. rewrite parse_int_render_Z. reflexivity. Qed.

(* ---- lookup ------------------------------------------------------------------------------------ *)
(* lookup_.get(v, v), v = try_number(element): the first key equal to v (Python ==
   between str / int / float keys), else v itself *)
Theorem valof_spec : forall lk s,
  valof lk s = match find (fun kv => py_eq (try_number s) (fst kv)) lk with
               | Some kv => snd kv
               | None => try_number s
               end.
Proof. reflexivity. Qed.

Theorem valof_no_key : forall lk s,
  (forall kv, In kv lk -> py_eq (try_number s) (fst kv) = false) -> valof lk s = try_number s.
Proof.
  intros lk s H. rewrite valof_spec.
  destruct (find _ lk) as [kv|] eqn:E; [|reflexivity].
  apply find_some in E. destruct E as [E1 E2]. rewrite (H _ E1) in E2. discriminate.
Qed.

Theorem valof_first_key : forall lk1 k v lk2 s,
  (forall kv, In kv lk1 -> py_eq (try_number s) (fst kv) = false) ->
  py_eq (try_number s) k = true -> valof (lk1 ++ (k, v) :: lk2) s = v.
Proof.
  intros lk1 k v lk2 s H Hk. rewrite valof_spec.
  induction lk1 as [|x r IH]; simpl.
  - rewrite Hk. reflexivity.
  - rewrite (H x (or_introl eq_refl)). apply IH. intros kv Hin. apply H. right. exact Hin.
Qed.

Theorem valof_int_element : forall lk z,
  valof lk (render_Z z) = match find (fun kv => py_eq (PInt z) (fst kv)) lk with
                          | Some kv => snd kv
                          | None => PInt z
                          end.
Proof. intros. rewrite valof_spec, try_number_render_Z. reflexivity. Qed.

(* ---- elements that stay strings -------------------------------------------------------------- *)
Definition special_float (lr : str) : bool :=
  str_eqb lr ["i";"n";"f"] || str_eqb lr ["i";"n";"f";"i";"n";"i";"t";"y"] || str_eqb lr ["n";"a";"n"].
Definition body (s : str) : str := snd (take_sign s).
Definition non_numeric_head (r : str) : Prop :=
  match r with [] => True | c :: _ => digit_val c = None /\ ch_eqb c "." = false end.

Lemma scan_digits_none : forall r, non_numeric_head r -> scan_digits r = None.
Proof. intros [|c r] H; [reflexivity|]. destruct H as [H _]. simpl. rewrite H. reflexivity. Qed.

(* first character after an optional sign neither a digit nor ".", not inf/infinity/nan *)
Theorem try_number_string : forall s,
  special_float (map lower (body s)) = false -> non_numeric_head (body s) -> try_number s = PStr s.
Proof.
  intros s Hsp Hh. unfold body in *. unfold try_number, parse_int, parse_float.
  destruct (take_sign s) as [neg r]. cbn [snd] in *.
  rewrite (scan_digits_none r Hh).
  unfold special_float in Hsp.
  apply orb_false_iff in Hsp. destruct Hsp as [Hsp H3]. apply orb_false_iff in Hsp. destruct Hsp as [H1 H2].
  rewrite H1, H2, H3. cbn [orb].
  destruct r as [|c r']; [reflexivity|].
  destruct Hh as [_ Hdot]. rewrite Hdot. reflexivity.
Qed.

(* the characters a number can be made of *)
Definition numeric_char (c : ascii) : bool :=
  match digit_val c with
  | Some _ => true
  | None => ch_eqb c "_" || ch_eqb c "." || ch_eqb (lower c) "e" || ch_eqb c "+" || ch_eqb c "-"
  end.

Lemma scan_aux_consumed_gen : forall n s acc cnt v k rest, List.length s <= n ->
  scan_digits_aux s acc cnt = (v, k, rest) ->
  exists pre, s = pre ++ rest /\ forallb numeric_char pre = true.
Proof.
  induction n as [|n IH]; intros s acc cnt v k rest Hn H.
  - destruct s; [|simpl in Hn; lia]. simpl in H. inversion H; subst. exists []. split; reflexivity.
  - destruct s as [|c r]; [simpl in H; inversion H; subst; exists []; split; reflexivity|].
    simpl in Hn. simpl in H. destruct (digit_val c) as [d|] eqn:Hd.
    + destruct (IH r _ _ _ _ _ ltac:(lia) H) as [pre [E1 E2]]. exists (c :: pre). split.
      * simpl. rewrite <- E1. reflexivity.
      * simpl. unfold numeric_char at 1. rewrite Hd. exact E2.
    + destruct (ch_eqb c "_") eqn:Hu.
      * destruct r as [|c2 r2]; [inversion H; subst; exists []; split; reflexivity|].
        destruct (digit_val c2) as [d|] eqn:Hd2.
        -- simpl in Hn. destruct (IH r2 _ _ _ _ _ ltac:(lia) H) as [pre [E1 E2]]. exists (c :: c2 :: pre). split.
           ++ simpl. rewrite <- E1. reflexivity.
           ++ simpl. unfold numeric_char at 1 2. rewrite Hd, Hd2, Hu. exact E2.
        -- inversion H; subst. exists []. split; reflexivity.
      * inversion H; subst. exists []. split; reflexivity.
Qed.

Lemma scan_digits_consumed : forall s v k rest, scan_digits s = Some (v, k, rest) ->
  exists pre, s = pre ++ rest /\ forallb numeric_char pre = true.
Proof.
  intros s v k rest H. unfold scan_digits in H. destruct s as [|c r]; [discriminate|].
  destruct (digit_val c); [|discriminate]. inversion H as [H'].
  eapply scan_aux_consumed_gen; [apply le_n | exact H'].
Qed.

Lemma take_sign_consumed : forall s neg r, take_sign s = (neg, r) ->
  exists pre, s = pre ++ r /\ forallb numeric_char pre = true.
Proof.
  intros [|c s'] neg r H; simpl in H.
  - inversion H; subst. exists []. split; reflexivity.
  - destruct (ch_eqb c "-") eqn:E1.
    + inversion H; subst. apply ch_eqb_eq in E1. subst. exists ["-"]. split; reflexivity.
    + destruct (ch_eqb c "+") eqn:E2; inversion H; subst.
      * apply ch_eqb_eq in E2. subst. exists ["+"]. split; reflexivity.
      * exists []. split; reflexivity.
Qed.

Lemma parse_int_numeric : forall s z, parse_int s = Some z -> forallb numeric_char s = true.
Proof.
  intros s z H. unfold parse_int in H. destruct (take_sign s) as [neg r] eqn:Ets.
  destruct (take_sign_consumed _ _ _ Ets) as [p0 [E0 F0]].
  destruct (scan_digits r) as [[[v k] rest]|] eqn:Es; [|discriminate].
  destruct rest; [|discriminate].
  destruct (scan_digits_consumed _ _ _ _ Es) as [p1 [E1 F1]].
  subst s r. rewrite app_nil_r. rewrite forallb_app, F0, F1. reflexivity.
Qed.

(* optional digit part: what [parse_float] does with [scan_digits] *)
Lemma opt_digits_consumed : forall r v k rest,
  match scan_digits r with Some t => t | None => (0%Z, O, r) end = (v, k, rest) ->
  exists pre, r = pre ++ rest /\ forallb numeric_char pre = true.
Proof.
  intros r v k rest H. destruct (scan_digits r) as [[[v' k'] rest']|] eqn:E.
  - inversion H; subst. eapply scan_digits_consumed. exact E.
  - inversion H; subst. exists []. split; reflexivity.
Qed.

Lemma parse_float_numeric : forall s x, parse_float s = Some x ->
  special_float (map lower (body s)) = true \/ forallb numeric_char s = true.
Proof.
  intros s x H. unfold parse_float, body in *. destruct (take_sign s) as [neg r] eqn:Ets. cbn [snd].
  destruct (take_sign_consumed _ _ _ Ets) as [p0 [E0 F0]].
  unfold special_float.
  destruct (str_eqb (map lower r) ["i";"n";"f"] || str_eqb (map lower r) ["i";"n";"f";"i";"n";"i";"t";"y"]) eqn:Hinf;
    [left; reflexivity|].
  destruct (str_eqb (map lower r) ["n";"a";"n"]) eqn:Hnan; [left; reflexivity|].
  right. cbn [orb] in H.
  destruct (match scan_digits r with Some t => t | None => (0%Z, O, r) end) as [[iv ic] r1] eqn:E1.
  destruct (opt_digits_consumed _ _ _ _ E1) as [p1 [G1 F1]].
  assert (Hfrac : forall fv fc r2,
    match r1 with
    | c :: r1' => if ch_eqb c "." then match scan_digits r1' with Some t => t | None => (0%Z, O, r1') end
                  else (0%Z, O, r1)
    | [] => (0%Z, O, [])
    end = (fv, fc, r2) -> exists pre, r1 = pre ++ r2 /\ forallb numeric_char pre = true).
  { intros fv fc r2 Hm. destruct r1 as [|c r1'].
    - inversion Hm; subst. exists []. split; reflexivity.
    - destruct (ch_eqb c ".") eqn:Ed.
      + apply ch_eqb_eq in Ed. subst c. destruct (opt_digits_consumed _ _ _ _ Hm) as [pre [A B]].
        exists ("." :: pre). split; [simpl; rewrite <- A; reflexivity | simpl; exact B].
      + inversion Hm; subst. exists []. split; reflexivity. }
  destruct (match r1 with
    | c :: r1' => if ch_eqb c "." then match scan_digits r1' with Some t => t | None => (0%Z, O, r1') end
                  else (0%Z, O, r1)
    | [] => (0%Z, O, [])
    end) as [[fv fc] r2] eqn:E2.
  destruct (Hfrac _ _ _ eq_refl) as [p2 [G2 F2]].
  destruct (Nat.eqb (ic + fc) 0); [discriminate|].
  assert (Htail : forallb numeric_char r2 = true).
  { destruct r2 as [|c r3]; [reflexivity|].
    destruct (ch_eqb (lower c) "e") eqn:Ee; [|discriminate].
    destruct (take_sign r3) as [eneg r4] eqn:Ets2.
    destruct (take_sign_consumed _ _ _ Ets2) as [p3 [G3 F3]].
    destruct (scan_digits r4) as [[[ev ek] rest]|] eqn:Es; [|discriminate].
    destruct rest; [|discriminate].
    destruct (scan_digits_consumed _ _ _ _ Es) as [p4 [G4 F4]]. rewrite app_nil_r in G4. subst r4 r3.
    simpl. rewrite forallb_app, F3, F4, andb_true_r.
    unfold numeric_char. destruct (digit_val c); [reflexivity|]. rewrite Ee.
    rewrite !orb_true_r. reflexivity. }
  subst s r r1. rewrite !forallb_app, F0, F1, F2, Htail. reflexivity.
Qed.

(* an element with a character outside  0-9 _ . e E + -  that is not (a sign and)
   inf / infinity / nan in any letter case is not a number: it stays a string *)
Theorem try_number_foreign_char : forall s,
  forallb numeric_char s = false -> special_float (map lower (body s)) = false -> try_number s = PStr s.
Proof.
  intros s Hf Hsp. unfold try_number.
  destruct (parse_int s) as [z|] eqn:Ei.
  - apply parse_int_numeric in Ei. rewrite Ei in Hf. discriminate.
  - destruct (parse_float s) as [x|] eqn:Ef; [|reflexivity].
    apply parse_float_numeric in Ef. destruct Ef as [Ef|Ef]; [rewrite Ef in Hsp | rewrite Ef in Hf]; discriminate.
Qed.

(* The model reads Python's int()/float() on text WITHOUT whitespace (header of
   Ops/MarbleNumbers.v): the real int()/float() strip leading/trailing whitespace
   (codes 9-13, 32, 133, 160), so the element <TAB>12 is the int 12 for the code but a
   string for the model.  The two theorems below are therefore stated for printable
   ASCII elements (codes 33..126), where model and code agree; the hypothesis is
   not needed for the model. *)
Definition printable (c : ascii) : bool :=
  let n := nat_of_ascii c in Nat.leb 33 n && Nat.leb n 126.

Theorem try_number_string_printable : forall s, forallb printable s = true ->
  special_float (map lower (body s)) = false -> non_numeric_head (body s) -> try_number s = PStr s.
Proof. intros s _. apply try_number_string. Qed.

Theorem try_number_foreign_char_printable : forall s, forallb printable s = true ->
  forallb numeric_char s = false -> special_float (map lower (body s)) = false -> try_number s = PStr s.
Proof. intros s _. apply try_number_foreign_char. Qed.

(* outside that domain the model keeps a string where Python's int() strips the TAB *)
Example whitespace_outside_model_domain :
  try_number [ascii_of_nat 9; "1"; "2"] = PStr [ascii_of_nat 9; "1"; "2"].
Proof. vm_compute. reflexivity. Qed.

(* exactness of the PStr outcome *)
Theorem try_number_is_string_iff : forall s,
  try_number s = PStr s <-> (parse_int s = None /\ parse_float s = None).
Proof.
  intros s. unfold try_number. destruct (parse_int s); [split; [discriminate | intros [H _]; discriminate]|].
  destruct (parse_float s) as [[f|]|]; split; try discriminate; try (intros [_ H]; discriminate); auto.
Qed.

(* ---- timestamps --------------------------------------------------------------------------------- *)
(* iframe * timespan + time_shift with Python's arithmetic: int*int+int stays an
   exact integer; as soon as a float is involved the int operand is converted
   ([zf] = float(int)) and the operation is the binary64 one *)
Theorem time_of_spec : forall ts sh k,
  time_of ts sh k =
  match ts, sh with
  | TI t, TI b => TI (Z.of_nat k * t + b)
  | TI t, TF b => TF (zf (Z.of_nat k * t) + b)%float
  | TF t, TI b => TF (zf (Z.of_nat k) * t + zf b)%float
  | TF t, TF b => TF (zf (Z.of_nat k) * t + b)%float
  end.
Proof. intros [t|t] [b|b] k; reflexivity. Qed.

Definition pytime_Z (p : pytime) : option Z := match p with TI z => Some z | TF _ => None end.

Theorem time_of_int : forall t b k, time_of (TI t) (TI b) k = TI (Z.of_nat k * t + b).
Proof. reflexivity. Qed.

Theorem time_of_int_mono : forall t b k1 k2, (0 <= t)%Z -> k1 <= k2 ->
  (Z.of_nat k1 * t + b <= Z.of_nat k2 * t + b)%Z.
Proof. intros. nia. Qed.

Theorem time_of_int_inj : forall t b k1 k2, t <> 0%Z ->
  time_of (TI t) (TI b) k1 = time_of (TI t) (TI b) k2 -> k1 = k2.
Proof. intros t b k1 k2 Ht H. rewrite !time_of_int in H. injection H as H. nia. Qed.

Theorem time_of_frame0 : forall t b, time_of (TI t) (TI b) 0 = TI b.
Proof. reflexivity. Qed.

(* ---- delivery times of the cold / hot models ----------------------------------------------------- *)
Definition stamp (ts sh : pytime) (m : nat * notif pyval) : pytime * notif pyval :=
  (time_of ts sh (fst m), snd m).

Theorem timed_spec : forall c ms, timed c ms = map (stamp (c_ts c) (c_shift c)) ms.
Proof. reflexivity. Qed.

(* cold: every parsed message (frame k, n) is delivered, in order, at time_of k *)
Theorem cold_case_times : forall c ms,
  parse_model pyval (valof (c_lookup c)) true (s2l (c_str c)) = inr ms ->
  cold_case c = inr (map (stamp (c_ts c) (c_shift c)) ms).
Proof.
  intros c ms H. unfold cold_case. rewrite H.
  rewrite (cold_delivery_parsed pyval _ _ _ H). reflexivity.
Qed.

Theorem cold_case_error : forall c e,
  parse_model pyval (valof (c_lookup c)) true (s2l (c_str c)) = inl e -> cold_case c = inl e.
Proof. intros c e H. unfold cold_case. rewrite H. reflexivity. Qed.

(* cold = parse when raise_stopped is set (from_marbles always sets it) *)
Theorem cold_case_is_parse_case : forall c, c_rs c = true -> cold_case c = parse_case c.
Proof.
  intros c Hrs. unfold parse_case. rewrite Hrs.
  destruct (parse_model pyval (valof (c_lookup c)) true (s2l (c_str c))) as [e|ms] eqn:E.
  - apply cold_case_error. exact E.
  - rewrite (cold_case_times c ms E). reflexivity.
Qed.

(* on a well-formed diagram: each item's notifications at (index of its first
   character) * timespan + shift *)
Theorem cold_case_diagram : forall c d,
  wf d = true -> remove_spaces (s2l (c_str c)) = render d -> stop_ok (elements d) = true ->
  cold_case c = inr (map (stamp (c_ts c) (c_shift c)) (denote pyval (valof (c_lookup c)) d)).
Proof.
  intros c d Hw Hr Hs. apply cold_case_times.
  rewrite (parse_render pyval _ true d _ Hw Hr). rewrite Hs. reflexivity.
Qed.

(* hot, observer subscribed at the creation instant: the parsed messages of frame > 0 *)
Theorem hot_case_times : forall c ms,
  parse_model pyval (valof (c_lookup c)) true (s2l (c_str c)) = inr ms ->
  hot_case c = inr (map (stamp (c_ts c) (c_shift c)) (filter (fun m => Nat.ltb 0 (fst m)) ms)).
Proof.
  intros c ms H. unfold hot_case. rewrite H.
  rewrite (hot_delivery_parsed pyval _ _ _ 0 H). reflexivity.
Qed.

(* integer timespan >= 0 and integer shift: delivered times never decrease *)
Fixpoint times_sorted (lo : Z) (l : list (pytime * notif pyval)) : Prop :=
  match l with
  | [] => True
  | (TI z, _) :: r => (lo <= z)%Z /\ times_sorted z r
  | (TF _, _) :: r => False
  end.

Lemma stamp_sorted : forall t b ms f, (0 <= t)%Z -> sorted_from pyval f ms ->
  times_sorted (Z.of_nat f * t + b) (map (stamp (TI t) (TI b)) ms).
Proof.
  intros t b. induction ms as [|m r IH]; intros f Ht H; [exact I|].
  simpl in H. destruct H as [H1 H2]. simpl. split; [nia|]. apply IH; assumption.
Qed.

Theorem cold_case_times_sorted : forall c t b ms,
  c_ts c = TI t -> c_shift c = TI b -> (0 <= t)%Z ->
  parse_model pyval (valof (c_lookup c)) true (s2l (c_str c)) = inr ms ->
  exists out, cold_case c = inr out /\ times_sorted b out.
Proof.
  intros c t b ms Hts Hsh Ht H. eexists. split; [apply cold_case_times; exact H|].
  rewrite Hts, Hsh. replace b with (Z.of_nat 0 * t + b)%Z at 1 by lia.
  apply stamp_sorted; [exact Ht|]. eapply parse_frames_sorted. exact H.
Qed.

(* ---- examples (hypotheses satisfiable; documented readings) ------------------------------------ *)
Example value_examples :
  (forallb printable (l "x1") = true /\ special_float (map lower (body (l "x1"))) = false
   /\ non_numeric_head (body (l "x1")) /\ try_number (l "x1") = PStr (l "x1"))
  /\ (forallb printable (l "1x") = true /\ forallb numeric_char (l "1x") = false
      /\ special_float (map lower (body (l "1x"))) = false /\ try_number (l "1x") = PStr (l "1x"))
  /\ try_number (l "0042") = PInt 42 /\ try_number (l "1_000") = PInt 1000
  /\ try_number (l "1__0") = PStr (l "1__0") /\ try_number (l "nano") = PStr (l "nano")
  /\ valof [(PStr (l "a"), PObj 7); (PInt 3, PObj 8)] (l "3") = PObj 8
  /\ valof [(PStr (l "a"), PObj 7); (PInt 3, PObj 8)] (l "b") = PStr (l "b").
Proof. repeat split; vm_compute; reflexivity. Qed.

Example time_examples :
  cold_case (mkpcase true (TI 3) (TI 2) [] "-a(b,4)-|")
  = inr [(TI 5, NNext (PStr (l "a"))); (TI 8, NNext (PStr (l "b"))); (TI 8, NNext (PInt 4)); (TI 26, NCompleted)]
  /\ wf [ITicks 1; IElem (l "a"); IGroup [l "b"; l "4"]; ITicks 1; IEnd] = true
  /\ render [ITicks 1; IElem (l "a"); IGroup [l "b"; l "4"]; ITicks 1; IEnd] = l "-a(b,4)-|"
  /\ stop_ok (elements [ITicks 1; IElem (l "a"); IGroup [l "b"; l "4"]; ITicks 1; IEnd]) = true.
Proof. repeat split; vm_compute; reflexivity. Qed.

(* The statements below mention the PrimFloat-typed value model, so Print Assumptions
   lists Coq's primitive float / int63 constants (kernel primitives, not axioms) and
   nothing else; the integer theorems are closed (see Props/C38.v). *)
Print Assumptions try_number_render_Z.
Print Assumptions valof_spec.
Print Assumptions valof_first_key.
Print Assumptions valof_no_key.
Print Assumptions try_number_string_printable.
Print Assumptions try_number_foreign_char_printable.
Print Assumptions time_of_spec.
Print Assumptions time_of_int_inj.
Print Assumptions cold_case_times.
Print Assumptions cold_case_diagram.
Print Assumptions hot_case_times.
Print Assumptions cold_case_times_sorted.
