(* C07 at STREAM level: the plan the translator regenerates from _slice.py, read as the pipeline of Mealy
   machines the code builds (ops.take / skip / take_last / skip_last / filter_indexed / map_indexed /
   filter / map of Ops/Elementwise.v, composed left to right as pipe() does), applied to an event stream.
   On a completing source it emits the list slice AND THEN COMPLETES; on a failing source the error passes
   through -- unless a take(n) stage had already completed the pipeline, in which case the output is the
   one of the completing source. *)
From RxVerif Require Import Base.Prelude Base.PreludeFacts Ops.Machine Ops.MachineFacts Ops.ComposeFacts
  Ops.Elementwise Ops.ElementwiseFacts Ops.ElementwiseMore Ops.Aggregates Ops.AggregatesFacts
  Ops.Slice Ops.SliceFacts Gen.SliceGen Ops.SliceProof.

Local Arguments Z.of_nat : simpl never.
Local Arguments Z.to_nat : simpl never.

Section Stream.
Context {A : Type}.
Notation E := (Z * A)%type.

(* pipe() of no operator: the source itself *)
Definition op_ident : mealy E E :=
  Mealy tt ([], Cont) (fun s x => (s, [x], Cont)) (fun _ e => ([], Fail e)) (fun _ => ([], Complete)).

(* one pipeline.append(ops.X(..)) of _slice.py as the machine of that operator *)
Definition pop_mealy (p : pop) : mealy E E :=
  match p with
  | PTake n => op_take n
  | PSkip n => op_skip n
  | PTakeLast n => op_take_last n
  | PSkipLast n => op_skip_last n
  | PEveryNth n => op_filter_indexed (pure2 (fun (_ : E) i => Z.of_nat i mod n =? 0))
  | PTagIndex => op_map_indexed (pure2 (fun (x : E) i => (Z.of_nat i, snd x)))
  | PFilterTagLt n => op_filter (pure (fun ix : E => fst ix <? n))
  | PUntag => op_map (pure (fun ix : E => (0, snd ix)))
  end.

Fixpoint plan_mealy (plan : list pop) : mealy E E :=
  match plan with
  | [] => op_ident
  | p :: r => compose (pop_mealy p) (plan_mealy r)
  end.

(* the whole operator on untagged elements (the tag 0 of an untagged element is the model's encoding) *)
Definition slice_mealy (plan : list pop) : mealy A A :=
  compose (op_map (pure (fun x : A => (0, x))))
          (compose (plan_mealy plan) (op_map (pure (fun ix : E => snd ix)))).

(* counts the machines are built with: take / skip raise on a negative count; the queue operators are
   only ever built with positive ones *)
Definition pop_sok (p : pop) : bool :=
  match p with PTake n | PSkip n | PTakeLast n | PSkipLast n => 0 <=? n | _ => true end.

(* one stage on (elements, termination): take(n) completes at its n-th element whatever the source does
   later; take_last holds everything back until completion, so a failing source loses it *)
Definition run_pop_ev (p : pop) (lt : list E * term) : list E * term :=
  let '(l, t) := lt in
  match p with
  | PTake n => if n <=? zlen l then (run_pop p l, TDone) else (l, t)
  | PTakeLast n => match t with TDone => (run_pop p l, TDone) | _ => ([], t) end
  | _ => (run_pop p l, t)
  end.
Definition run_plan_ev (plan : list pop) (lt : list E * term) : list E * term :=
  fold_left (fun acc p => run_pop_ev p acc) plan lt.

Lemma ident_stream (l : list E) t : untag (exec op_ident (events l t)) = events l t.
Proof.
  unfold exec. cbn -[exec_from].
  assert (G : forall (xs : list E) k, exec_from op_ident tt k (events xs t)
                                      = nexts (indexed k xs) ++ tterm (k + length xs) t).
  { induction xs as [|x r IH]; intros k.
    - term_case t.
    - step_cons. rewrite IH. now rewrite <- ?plus_n_Sm. }
  rewrite G. apply untag_std.
Qed.

Lemma every_nth_filteri n (l : list E) : forall (i k : nat),
  map snd (filteri_from i (fun (_ : E) j => Z.of_nat j mod n =? 0) (indexed k l))
  = every_nth_from (Z.of_nat i) n l.
Proof.
  induction l as [|x r IH]; intros i k; cbn [indexed filteri_from every_nth_from map]; [reflexivity|].
  replace (Z.of_nat i + 1) with (Z.of_nat (S i)) by lia.
  destruct (Z.of_nat i mod n =? 0); cbn [map snd]; now rewrite IH.
Qed.

Lemma tag_from_mapi (l : list E) : forall i : nat,
  mapi_from i (fun (x : E) j => (Z.of_nat j, snd x)) l = tag_from (Z.of_nat i) l.
Proof.
  induction l as [|[z x] r IH]; intros i; cbn [mapi_from tag_from snd]; [reflexivity|].
  replace (Z.of_nat i + 1) with (Z.of_nat (S i)) by lia. now rewrite IH.
Qed.

Lemma untag_skipn_indexed (l : list E) c k n t :
  untag (nexts (skipn c (indexed k l)) ++ tterm n t) = events (skipn c l) t.
Proof.
  rewrite untag_nexts_tterm. f_equal. rewrite <- skipn_map, map_snd_indexed. reflexivity.
Qed.

Lemma map_snd_combine_seq (l : list E) : forall k n, (n <= length l)%nat ->
  map snd (combine (seq k n) (firstn n l)) = firstn n l.
Proof.
  induction l as [|x r IH]; intros k n Hn.
  - cbn in Hn. assert (n = 0%nat) by lia. subst. reflexivity.
  - destruct n as [|n]; [reflexivity|]. cbn [seq firstn combine map snd]. rewrite IH by (cbn in Hn; lia).
    reflexivity.
Qed.

(* each stage, on a stream with ANY termination *)
Theorem pop_stream (p : pop) (l : list E) t : pop_sok p = true ->
  untag (exec (pop_mealy p) (events l t))
  = events (fst (run_pop_ev p (l, t))) (snd (run_pop_ev p (l, t))).
Proof.
  intros Hok. destruct p as [n|n|n|n|n| |n| ]; cbn [pop_mealy run_pop_ev pop_sok] in *.
  - (* take *)
    apply Z.leb_le in Hok. rewrite take_spec by exact Hok.
    destruct (Z.eqb_spec n 0) as [->|Hn].
    + assert (H0 : (0 <=? zlen l) = true) by (apply Z.leb_le; unfold zlen; lia). rewrite H0.
      cbn [fst snd run_pop]. destruct l; reflexivity.
    + destruct (n <=? zlen l); cbn [fst snd run_pop].
      * rewrite ztake_firstn.
        change [(Z.to_nat n, @Done E)] with (@tterm E (Z.to_nat n) TDone). apply untag_std.
      * apply untag_std.
  - (* skip *)
    rewrite skip_spec. cbn [fst snd run_pop]. rewrite zskip_skipn. apply untag_skipn_indexed.
  - (* take_last *)
    unfold exec. cbn -[exec_from]. rewrite take_last_from.
    destruct t as [|e|]; cbn [fst snd run_pop]; try reflexivity.
    rewrite map_app. unfold nexts. rewrite !map_map. cbn [fst snd map]. reflexivity.
  - (* skip_last *)
    apply Z.leb_le in Hok. cbn [fst snd run_pop].
    rewrite <- (Z2Nat.id n) at 1 by exact Hok. rewrite skip_last_spec_m, untag_nexts_tterm.
    rewrite skip_last_spec by exact Hok. f_equal. apply map_snd_combine_seq. lia.
  - (* filter_indexed(i % step == 0) *)
    rewrite filter_indexed_spec, untag_nexts_tterm. cbn [fst snd run_pop]. f_equal.
    apply (every_nth_filteri n l 0 1).
  - (* map_indexed((i, x)) *)
    rewrite map_indexed_untag. cbn [fst snd run_pop]. f_equal. apply (tag_from_mapi l 0).
  - (* filter(ix[0] < n) *)
    rewrite filter_untag. reflexivity.
  - (* map(ix[1]) *)
    rewrite map_untag'. reflexivity.
Qed.

(* the pipeline *)
Theorem plan_stream (plan : list pop) : forall (l : list E) t, forallb pop_sok plan = true ->
  untag (exec (plan_mealy plan) (events l t))
  = events (fst (run_plan_ev plan (l, t))) (snd (run_plan_ev plan (l, t))).
Proof.
  induction plan as [|p r IH]; intros l t Hok.
  - apply ident_stream.
  - cbn [forallb] in Hok. apply andb_prop in Hok. destruct Hok as [Hp Hr].
    cbn [plan_mealy]. rewrite compose_exec, (pop_stream p l t Hp).
    unfold run_plan_ev. cbn [fold_left].
    destruct (run_pop_ev p (l, t)) as [l' t']. cbn [fst snd]. apply (IH l' t' Hr).
Qed.

(* completing source: every stage is its list function, and the pipeline completes *)
Lemma run_plan_ev_done (plan : list pop) : forall l : list E,
  run_plan_ev plan (l, TDone) = (run_tagged plan l, TDone).
Proof.
  induction plan as [|p r IH]; intros l; [reflexivity|].
  unfold run_plan_ev, run_tagged in *. cbn [fold_left].
  assert (H : run_pop_ev p (l, TDone) = (run_pop p l, TDone)).
  { destruct p; cbn [run_pop_ev]; try reflexivity.
    destruct (Z.leb_spec n (zlen l)) as [H|H]; [reflexivity|].
    cbn [run_pop]. rewrite ztake_firstn, firstn_all2; [reflexivity|unfold zlen in H; lia]. }
  rewrite H. apply IH.
Qed.


(* failing source.  [no_take r]: no take stage in r. *)
Definition is_take (p : pop) : bool := match p with PTake _ => true | _ => false end.
Definition no_take (r : list pop) : bool := forallb (fun p => negb (is_take p)) r.

Lemma run_pop_nil (p : pop) : run_pop p (@nil E) = [].
Proof. destruct p; reflexivity. Qed.

Lemma no_take_nil_error (r : list pop) e : no_take r = true ->
  run_plan_ev r ([], TErr e) = ([], TErr e).
Proof.
  induction r as [|p r IH]; intros H; [reflexivity|].
  cbn [no_take forallb] in H. apply andb_prop in H. destruct H as [Hp Hr].
  unfold run_plan_ev in *. cbn [fold_left].
  replace (run_pop_ev p ([], TErr e)) with (@nil E, TErr e); [exact (IH Hr)|].
  destruct p; try discriminate; reflexivity.
Qed.

(* without a take stage the error always comes out; in front of it the list result, or nothing at all
   when a take_last stage was holding the elements back *)
Lemma no_take_error (r : list pop) e : no_take r = true -> forall l : list E,
  run_plan_ev r (l, TErr e) = (run_tagged r l, TErr e)
  \/ (run_plan_ev r (l, TErr e) = ([], TErr e) /\ exists n, In (PTakeLast n) r).
Proof.
  induction r as [|p r IH]; intros H l; [left; reflexivity|].
  cbn [no_take forallb] in H. apply andb_prop in H. destruct H as [Hp Hr].
  unfold run_plan_ev, run_tagged in *. cbn [fold_left].
  destruct p as [n|n|n|n|n| |n| ]; try discriminate; cbn [run_pop_ev].
  2: { right. split; [exact (no_take_nil_error r e Hr)|]. exists n. now left. }
  all: match goal with
       | |- context [fold_left _ _ (run_pop ?p ?l0, _)] =>
           destruct (IH Hr (run_pop p l0)) as [H|[H [k Hk]]];
           [left; exact H|right; split; [exact H|exists k; now right]]
       end.
Qed.

(* a leading take(n): completes the pipeline at its n-th element, else it is transparent *)
Lemma take_first_error n (r : list pop) e (l : list E) : no_take r = true ->
  (n <= zlen l /\ run_plan_ev (PTake n :: r) (l, TErr e) = (run_tagged (PTake n :: r) l, TDone))
  \/ (zlen l < n /\ run_tagged (PTake n :: r) l = run_tagged r l
      /\ run_plan_ev (PTake n :: r) (l, TErr e) = run_plan_ev r (l, TErr e)).
Proof.
  intros Hr. unfold run_plan_ev, run_tagged. cbn [fold_left run_pop_ev].
  destruct (Z.leb_spec n (zlen l)) as [H|H].
  - left. split; [exact H|]. fold (run_plan_ev r (run_pop (PTake n) l, TDone)).
    now rewrite run_plan_ev_done.
  - right. split; [exact H|]. split; [|reflexivity].
    cbn [run_pop]. rewrite ztake_firstn, firstn_all2; [reflexivity|unfold zlen in H; lia].
Qed.
End Stream.

(* ---- the generated plan ---------------------------------------------------------------------------- *)
Lemma slice_plan_shape (start stop step : option Z) plan :
  slice_plan start stop step = Some plan ->
  forallb pop_sok plan = true
  /\ (no_take plan = true \/ exists n r, plan = PTake n :: r /\ no_take r = true).
Proof.
  unfold slice_plan.
  set (s := match start with None => 0 | Some v => v end).
  set (e := match stop with None => maxsize | Some v => v end).
  set (k := match step with None => 1 | Some v => v end).
  cbv zeta.
  destruct (s <? 0) eqn:Hs0; destruct (e >? 0) eqn:He2; destruct (e >=? 0) eqn:He0; cbn [andb obind app];
    destruct (s >? 0) eqn:Hs1; destruct (e <? 0) eqn:He1; destruct (k >? 1) eqn:Hk1;
    destruct (k <? 0) eqn:Hk0; cbn [obind app]; intros H; try discriminate;
    injection H as <-; zbool;
    (split; [cbn [forallb pop_sok andb]; repeat (rewrite (proj2 (Z.leb_le 0 _)) by lia); reflexivity|]);
    first [left; reflexivity | right; eexists; eexists; split; reflexivity].
Qed.

Section Top.
Context {A : Type}.

Lemma slice_mealy_stream (plan : list pop) (l : list A) t : forallb pop_sok plan = true ->
  untag (exec (slice_mealy plan) (events l t))
  = events (map snd (fst (run_plan_ev plan (map (fun x => (0, x)) l, t))))
           (snd (run_plan_ev plan (map (fun x => (0, x)) l, t))).
Proof.
  intros Hok. unfold slice_mealy. rewrite compose_exec, map_untag', compose_exec.
  rewrite (plan_stream plan _ t Hok). apply map_untag'.
Qed.

(* completing source: the list slice, then completion *)
Theorem slice_stream_done (l : list A) (start stop step : option Z) :
  zlen l <= maxsize -> step_ok step ->
  exists plan, slice_plan start stop step = Some plan
    /\ untag (exec (slice_mealy plan) (events l TDone)) = events (py_slice l start stop step) TDone.
Proof.
  intros Hl Hs. destruct (slice_plan_correct l start stop step Hl Hs) as [plan [Hp [_ Hrun]]].
  exists plan. split; [exact Hp|].
  destruct (slice_plan_shape _ _ _ _ Hp) as [Hok _].
  rewrite (slice_mealy_stream plan l TDone Hok), run_plan_ev_done. cbn [fst snd].
  rewrite <- Hrun. reflexivity.
Qed.

(* failing source: the error passes through -- after the slice, or after nothing when a take_last stage
   (negative start) was holding the elements back -- unless the leading take(stop) had already completed
   the pipeline, and then the run is the one of the completing source *)
Theorem slice_stream_error (l : list A) (start stop step : option Z) e :
  zlen l <= maxsize -> step_ok step ->
  exists plan, slice_plan start stop step = Some plan
    /\ let out := untag (exec (slice_mealy plan) (events l (TErr e))) in
       out = events (py_slice l start stop step) (TErr e)
       \/ (out = [Err e] /\ exists n, In (PTakeLast n) plan)
       \/ (out = events (py_slice l start stop step) TDone
           /\ exists n r, plan = PTake n :: r /\ n <= zlen l).
Proof.
  intros Hl Hs. destruct (slice_plan_correct l start stop step Hl Hs) as [plan [Hp [_ Hrun]]].
  exists plan. split; [exact Hp|]. cbv zeta.
  destruct (slice_plan_shape _ _ _ _ Hp) as [Hok Hshape].
  rewrite (slice_mealy_stream plan l (TErr e) Hok). rewrite <- Hrun, run_plan_tagged.
  set (l0 := map (fun x : A => (0, x)) l).
  assert (Hz : zlen l0 = zlen l) by (unfold zlen, l0; now rewrite map_length).
  destruct Hshape as [Hnt|[n [r [-> Hnt]]]].
  - destruct (no_take_error plan e Hnt l0) as [->|[-> Hin]]; cbn [fst snd map]; auto.
  - destruct (take_first_error n r e l0 Hnt) as [[Hn ->]|[Hn [Heq ->]]]; cbn [fst snd].
    + right. right. split; [reflexivity|]. exists n, r. split; [reflexivity|lia].
    + rewrite Heq. destruct (no_take_error r e Hnt l0) as [->|[-> [k Hin]]]; cbn [fst snd map]; auto.
      right. left. split; [reflexivity|]. exists k. now right.
Qed.
End Top.
