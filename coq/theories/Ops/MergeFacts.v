(* C11/C12: merge and switch against abstract specifications over the
   interleaved input sequence, for EVERY input sequence. *)
From RxVerif Require Import Base.Prelude Ops.Machine Ops.MachineFacts Ops.Multi Ops.MultiFacts
  Ops.RunLemmas Ops.Combinators Ops.Lift.

Local Arguments Nat.ltb : simpl never.
Local Arguments Nat.leb : simpl never.
Ltac rs := repeat (cbn; rewrite ?Nat.eqb_refl).

Section Merge.
Context {A : Type}.

(* SPEC of merge over n sources: the output is the interleaving itself --
   every element of a still-running source passes at its own instant; the first
   error ends everything; completion when the last running source completes;
   notifications of sources that already terminated are ignored. *)
Fixpoint merge_spec (running : list nat) (pos : nat) (ins : list (Z * inp A)) : list (nat * ev A) :=
  match ins with
  | [] => []
  | (_, ISrc k e) :: t =>
      if mem k running then
        match e with
        | Next x => (pos, Next x) :: merge_spec running (S pos) t
        | Err x => [(pos, Err x)]
        | Done => match remove k running with
                  | [] => [(pos, Done)]
                  | rest => merge_spec rest (S pos) t
                  end
        end
      else merge_spec running (S pos) t
  | (_, ITick _) :: t => merge_spec running (S pos) t
  | (_, IDispose) :: _ => []
  end.

Lemma temitted_cons_emit {B} k (e : ev B) tr : temitted ((k, OEmit e) :: tr) = (k, e) :: temitted tr.
Proof. reflexivity. Qed.

Lemma temitted_map_unsub {B} k (l : list nat) (tr : list (nat * obs B)) :
  temitted (map (fun x => (k, x)) (map OUnsub l) ++ tr) = temitted tr.
Proof. induction l as [|j t IH]; [reflexivity|]. cbn. exact IH. Qed.

Lemma temitted_release {B} k (l1 l2 : list nat) (tr : list (nat * obs B)) :
  temitted (map (fun x => (k, x)) (map OUnsub l1 ++ map OCancel l2) ++ tr) = temitted tr.
Proof.
  rewrite map_app, <- app_assoc, temitted_map_unsub.
  induction l2 as [|j t IH]; [reflexivity|]. cbn. exact IH.
Qed.

Lemma temitted_cons_unsub {B} k j (tr : list (nat * obs B)) : temitted ((k, OUnsub j) :: tr) = temitted tr.
Proof. reflexivity. Qed.

Lemma mem_false_notin k l : mem k l = false -> ~ In k l.
Proof.
  unfold mem. intros H Hin. assert (E : existsb (Nat.eqb k) l = true).
  { apply existsb_exists. exists k. split; [exact Hin|apply Nat.eqb_refl]. }
  congruence.
Qed.

Lemma notin_mem_false k l : ~ In k l -> mem k l = false.
Proof.
  intros H. destruct (mem k l) eqn:E; [|reflexivity].
  exfalso. apply H. unfold mem in E. apply existsb_exists in E. destruct E as [x [Hx He]].
  apply Nat.eqb_eq in He. now subst.
Qed.

Lemma remove_in j k l : In j (remove k l) -> In j l.
Proof.
  induction l as [|x t IH]; [auto|]. cbn [remove]. destruct (Nat.eqb k x); cbn; intuition.
Qed.

Lemma remove_nodup k l : NoDup l -> NoDup (remove k l) /\ ~ In k (remove k l).
Proof.
  induction 1 as [|x t Hx Ht IH]; [split; [constructor|auto]|].
  cbn [remove]. destruct (Nat.eqb_spec k x) as [->|Hne].
  - split; assumption.
  - destruct IH as [IH1 IH2]. split.
    + constructor; [|exact IH1]. intros Hin. apply Hx. eapply remove_in; eassumption.
    + intros [H|H]; [congruence|auto].
Qed.

Lemma in_remove_other j k l : j <> k -> In k l -> In k (remove j l).
Proof.
  intros Hne. induction l as [|x t IHt]; intros Hk; [destruct Hk|].
  cbn [remove]. destruct (Nat.eqb_spec j x) as [->|Hx].
  - destruct Hk as [H|H]; [congruence|exact H].
  - destruct Hk as [H|H]; [left; exact H|right; auto].
Qed.

Local Arguments mem : simpl never.
Local Arguments remove : simpl never.
Local Arguments sort_nat : simpl never.

Lemma merge_from n (ins : list (Z * inp A)) : forall running pos,
  running <> [] -> NoDup running ->
  temitted (fst (run_from (x_merge n) running (RState running [] false) pos ins))
  = merge_spec running pos ins.
Proof.
  induction ins as [|[now i] rest IH]; intros running pos Hne Hnd; [reflexivity|].
  cbn [run_from merge_spec]. unfold rstep. cbn [r_stopped r_live r_timers].
  destruct i as [k e|tag|].
  - destruct (mem k running) eqn:Hm.
    + destruct e as [x|e|].
      * rs. rewrite ?Hm. rs.
        specialize (IH running (S pos) Hne Hnd).
        destruct (run_from (x_merge n) running (RState running [] false) (S pos) rest) as [tr rf].
        cbn [fst] in *. rewrite temitted_cons_emit. now rewrite IH.
      * rs. rewrite ?Hm. rs.
        rewrite run_from_stopped by reflexivity. cbn [fst].
        rewrite temitted_cons_unsub, temitted_cons_emit, temitted_release. reflexivity.
      * rs. rewrite ?Hm. rs.
        destruct (remove_nodup k running Hnd) as [Hnd2 Hnotin].
        rewrite (notin_mem_false _ _ Hnotin). rs.
        destruct (remove k running) as [|j rest2] eqn:Hrem.
        -- rs. rewrite run_from_stopped by reflexivity. reflexivity.
        -- rs. specialize (IH (j :: rest2) (S pos) ltac:(discriminate) Hnd2).
           destruct (run_from (x_merge n) (j :: rest2) (RState (j :: rest2) [] false) (S pos) rest) as [tr rf].
           cbn [fst] in *. exact IH.
    + specialize (IH running (S pos) Hne Hnd).
      destruct (run_from (x_merge n) running (RState running [] false) (S pos) rest) as [tr rf].
      cbn [fst] in *. exact IH.
  - change (mem tag (@nil nat)) with false. rs. specialize (IH running (S pos) Hne Hnd).
    destruct (run_from (x_merge n) running (RState running [] false) (S pos) rest) as [tr rf].
    cbn [fst] in *. exact IH.
  - rs. rewrite run_from_stopped by reflexivity. cbn [fst]. rewrite temitted_release. reflexivity.
Qed.

(* REFINEMENT: for every number of sources and EVERY input sequence, what the
   subscriber of merge(s_0 .. s_{n-1}) receives, and when, is merge_spec *)
Theorem merge_refines_spec n (ins : list (Z * inp A)) :
  temitted (fst (run (x_merge n) ins))
  = match n with O => [(0%nat, Done)] | _ => merge_spec (seq 0 n) 1 ins end.
Proof.
  rewrite run_unfold. cbn [fst]. rewrite temitted_app.
  destruct n as [|n'].
  - unfold start_state, start_obs. cbn. rewrite run_from_stopped by reflexivity. reflexivity.
  - unfold start_state, start_obs.
    assert (E : forall l r, apply_cmds (B:=A) r (map CSub l)
                = (RState (r_live r ++ l) (r_timers r) (r_stopped r), map OSub l)).
    { induction l as [|j t IHl]; intros r.
      - destruct r; cbn. now rewrite app_nil_r.
      - cbn [map apply_cmds]. rewrite IHl. cbn. now rewrite <- app_assoc. }
    cbn [x_merge x_start]. rewrite E. cbn [fst snd finish app r_live r_timers r_stopped].
    assert (T : temitted (map (fun x => (0%nat, x)) (map (@OSub A) (seq 0 (S n')) ++ [])) = []).
    { rewrite app_nil_r. generalize (seq 0 (S n')). induction l; [reflexivity|exact IHl]. }
    rewrite T. cbn [app].
    apply merge_from; [discriminate|apply seq_NoDup].
Qed.

(* corollaries of the specification *)
Lemma merge_spec_sound running pos (ins : list (Z * inp A)) :
  forall p x, In (p, Next x) (merge_spec running pos ins) ->
  exists k now, nth_error ins (p - pos) = Some (now, ISrc k (Next x)) /\ (pos <= p)%nat.
Proof.
  revert running pos. induction ins as [|[now i] rest IH]; intros running pos p x Hin; [destruct Hin|].
  cbn [merge_spec] in Hin.
  assert (Shift : forall running', In (p, Next x) (merge_spec running' (S pos) rest) ->
     exists k now0, nth_error ((now, i) :: rest) (p - pos) = Some (now0, ISrc k (Next x)) /\ (pos <= p)%nat).
  { intros running' H. destruct (IH running' (S pos) p x H) as (k & n0 & Hn & Hle).
    exists k, n0. split; [|lia]. replace (p - pos)%nat with (S (p - S pos)) by lia. exact Hn. }
  destruct i as [k e|tag|].
  - destruct (mem k running).
    + destruct e as [y|e|].
      * destruct Hin as [Heq|Hin].
        -- injection Heq as <- <-. exists k, now. rewrite Nat.sub_diag. split; [reflexivity|lia].
        -- eapply Shift; eassumption.
      * destruct Hin as [Heq|[]]. discriminate.
      * destruct (remove k running); [destruct Hin as [Heq|[]]; discriminate|].
        eapply Shift; eassumption.
    + eapply Shift; eassumption.
  - eapply Shift; eassumption.
  - destruct Hin.
Qed.

(* completion is emitted only when every source that was running has completed *)
Lemma merge_spec_complete (ins : list (Z * inp A)) : forall running pos p,
  In (p, Done) (merge_spec running pos ins) ->
  forall k, In k running ->
  exists q now, (q <= p - pos)%nat /\ nth_error ins q = Some (now, ISrc k Done).
Proof.
  induction ins as [|[now i] rest IH]; intros running pos p Hin k Hk; [destruct Hin|].
  cbn [merge_spec] in Hin.
  assert (Shift : forall running', In (p, Done) (merge_spec running' (S pos) rest) -> In k running' ->
     exists q now0, (q <= p - pos)%nat /\ nth_error ((now, i) :: rest) q = Some (now0, ISrc k Done)).
  { intros running' H Hk'. destruct (IH running' (S pos) p H k Hk') as (q & n0 & Hq & Hn).
    exists (S q), n0. split; [|exact Hn].
    assert (S pos <= p)%nat.
    { clear - H. revert running' H. generalize (S pos) as c. induction rest as [|[n1 i1] r IHr]; intros c running' H; [destruct H|].
      cbn [merge_spec] in H. destruct i1 as [k1 e1| |].
      - destruct (mem k1 running').
        + destruct e1.
          * destruct H as [E|H]; [discriminate|]. specialize (IHr _ _ H). lia.
          * destruct H as [E|[]]. discriminate.
          * destruct (remove k1 running'); [destruct H as [E|[]]; injection E as <-; lia|].
            specialize (IHr _ _ H). lia.
        + specialize (IHr _ _ H). lia.
      - specialize (IHr _ _ H). lia.
      - destruct H. }
    lia. }
  destruct i as [j e|tag|].
  - destruct (mem j running) eqn:Hm.
    + destruct e as [y|e|].
      * destruct Hin as [Heq|Hin]; [discriminate|]. eapply Shift; eassumption.
      * destruct Hin as [Heq|[]]. discriminate.
      * destruct (Nat.eq_dec j k) as [->|Hne].
        -- exists 0%nat, now. split; [lia|reflexivity].
        -- pose proof (in_remove_other j k running Hne Hk) as Hk2.
           destruct (remove j running) as [|r0 rs] eqn:Hr; [destruct Hk2|].
           eapply Shift; eassumption.
    + eapply Shift; eassumption.
  - eapply Shift; eassumption.
  - destruct Hin.
Qed.
End Merge.

Section Switch.
Context {A : Type}.

(* SPEC of switch_map / switch_latest over the interleaved inputs: only the
   LATEST inner sequence is listened to; a new inner replaces it; completion
   needs the outer and the latest inner to have completed *)
Fixpoint switch_spec (mapper : A -> nat -> res unit) (outer_live : bool) (latest : nat) (has : bool)
  (pos : nat) (ins : list (Z * inp A)) : list (nat * ev A) :=
  match ins with
  | [] => []
  | (_, ISrc O e) :: t =>
      if outer_live then
        match e with
        | Next x => match mapper x latest with
                    | Ok _ => switch_spec mapper true (S latest) true (S pos) t
                    | Raise err => [(pos, Err err)]
                    end
        | Err err => [(pos, Err err)]
        | Done => if has then switch_spec mapper false latest has (S pos) t else [(pos, Done)]
        end
      else switch_spec mapper outer_live latest has (S pos) t
  | (_, ISrc (S j) e) :: t =>
      if has && Nat.eqb (S j) latest then
        match e with
        | Next x => (pos, Next x) :: switch_spec mapper outer_live latest has (S pos) t
        | Err err => [(pos, Err err)]
        | Done => if outer_live then switch_spec mapper outer_live latest false (S pos) t
                  else [(pos, Done)]
        end
      else switch_spec mapper outer_live latest has (S pos) t
  | (_, ITick _) :: t => switch_spec mapper outer_live latest has (S pos) t
  | (_, IDispose) :: _ => []
  end.

Definition switch_live (outer_live : bool) (latest : nat) (has : bool) : list nat :=
  (if outer_live then [0%nat] else []) ++ (if has then [latest] else []).

Local Arguments mem : simpl nomatch.
Local Arguments remove : simpl nomatch.

(* one boundary input: compute the runner's step, then continue by IH *)
Ltac step_as st' r' o' :=
  match goal with
  | |- context [rstep ?m ?s ?r ?now ?i] =>
      let E := fresh "E" in
      assert (E : rstep m s r now i = (st', r', o'))
        by (unfold rstep, switch_live;
            repeat (cbn; try unfold remove; try unfold mem; cbn; rewrite ?Nat.eqb_refl;
                    try match goal with H : _ = Ok _ |- _ => rewrite H end);
            reflexivity);
      rewrite E; clear E; cbn [fst snd]
  end.

Ltac fin_case pos :=
  match goal with |- context [rstep ?m ?s ?r ?now ?i] =>
    let E1 := fresh "E" in let E2 := fresh "E" in
    destruct (rstep_fin m s r now i pos) as [E1 E2];
    [ reflexivity
    | unfold switch_live; repeat (cbn; try unfold mem; cbn; rewrite ?Nat.eqb_refl); reflexivity
    | repeat (cbn; rewrite ?Nat.eqb_refl; try match goal with H : _ = Raise _ |- _ => rewrite H end); discriminate
    | rewrite E1, (run_from_stopped _ _ _ _ _ E2);
      repeat (cbn; rewrite ?Nat.eqb_refl; try match goal with H : _ = Raise _ |- _ => rewrite H end);
      reflexivity ]
  end.

Lemma switch_from mapper (ins : list (Z * inp A)) : forall outer_live latest has pos,
  (has = true -> latest <> 0%nat) -> (outer_live = true \/ has = true) ->
  temitted (fst (run_from (x_switch_map mapper) (latest, has, negb outer_live)
                   (RState (switch_live outer_live latest has) [] false) pos ins))
  = switch_spec mapper outer_live latest has pos ins.
Proof.
  induction ins as [|[now i] rest IH]; intros ol latest has pos Hl Hsome; [reflexivity|].
  rewrite temitted_run_cons. cbn [switch_spec].
  destruct i as [k e|tag|].
  - destruct k as [|j].
    + destruct ol.
      * destruct e as [x|err|].
        -- destruct (mapper x latest) as [[]|err] eqn:Hmap.
           ++ destruct has.
              ** assert (Hl0 : latest <> 0%nat) by auto. destruct latest as [|l0]; [congruence|].
                 step_as (S (S l0), true, negb true) (RState (switch_live true (S (S l0)) true) [] false)
                         [@OUnsub A (S l0); OSub (S (S l0))].
                 rewrite IH by (auto; discriminate). reflexivity.
              ** destruct latest as [|l0].
                 --- step_as (1%nat, true, negb true) (RState (switch_live true 1 true) [] false) [@OSub A 1%nat].
                         rewrite IH by (auto; discriminate). reflexivity.
                 --- step_as (S (S l0), true, negb true) (RState (switch_live true (S (S l0)) true) [] false)
                             [@OSub A (S (S l0))].
                         rewrite IH by (auto; discriminate). reflexivity.
           ++ fin_case pos.
        -- fin_case pos.
        -- destruct has.
           ++ step_as (latest, true, negb false) (RState (switch_live false latest true) [] false) [@OUnsub A 0%nat].
              rewrite IH by auto. reflexivity.
           ++ fin_case pos.
      * destruct Hsome as [H|H]; [discriminate|]. subst has.
        assert (Hl0 : latest <> 0%nat) by auto. destruct latest as [|l0]; [congruence|].
        step_as (S l0, true, negb false) (RState (switch_live false (S l0) true) [] false) (@nil (obs A)).
        rewrite IH by auto. reflexivity.
    + destruct (has && Nat.eqb (S j) latest) eqn:Hcur.
      * apply andb_true_iff in Hcur. destruct Hcur as [-> Heq]. apply Nat.eqb_eq in Heq. subst latest.
        destruct e as [x|err|].
        -- destruct ol.
           ++ step_as (S j, true, negb true) (RState (switch_live true (S j) true) [] false) [OEmit (Next x)].
              rewrite IH by auto. reflexivity.
           ++ step_as (S j, true, negb false) (RState (switch_live false (S j) true) [] false) [OEmit (Next x)].
              rewrite IH by auto. reflexivity.
        -- destruct ol; fin_case pos.
        -- destruct ol.
           ++ step_as (S j, false, negb true) (RState (switch_live true (S j) false) [] false) [@OUnsub A (S j)].
              rewrite IH by (auto; discriminate). reflexivity.
           ++ fin_case pos.
      * assert (Hmem : mem (S j) (switch_live ol latest has) = false).
        { unfold switch_live, mem. destruct ol, has; cbn [app existsb orb andb] in *;
            rewrite ?Hcur; reflexivity. }
        assert (E : rstep (x_switch_map mapper) (latest, has, negb ol) (RState (switch_live ol latest has) [] false) now (ISrc (S j) e)
                    = ((latest, has, negb ol), RState (switch_live ol latest has) [] false, [])).
        { unfold rstep. cbn [r_stopped r_live]. now rewrite Hmem. }
        rewrite E. cbn [fst snd]. rewrite IH by auto. reflexivity.
  - assert (E : rstep (x_switch_map mapper) (latest, has, negb ol) (RState (switch_live ol latest has) [] false) now (ITick tag)
                = ((latest, has, negb ol), RState (switch_live ol latest has) [] false, [])) by reflexivity.
    rewrite E. cbn [fst snd]. rewrite IH by auto. reflexivity.
  - unfold rstep, switch_live. destruct ol, has; rs; rewrite run_from_stopped by reflexivity; reflexivity.
Qed.

(* REFINEMENT for EVERY mapper and EVERY input sequence *)
Theorem switch_refines_spec mapper (ins : list (Z * inp A)) :
  temitted (fst (run (x_switch_map mapper) ins)) = switch_spec mapper true 0 false 1 ins.
Proof.
  rewrite run_unfold. cbn [fst]. rewrite temitted_app.
  unfold start_state, start_obs. cbn -[run_from switch_spec temitted].
  change (RState [0%nat] [] false) with (RState (switch_live true 0 false) [] false).
  change (0%nat, false, false) with (0%nat, false, negb true).
  rewrite switch_from; [reflexivity|discriminate|auto].
Qed.
End Switch.
