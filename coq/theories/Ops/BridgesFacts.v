(* C41: theorems about the bridge outcome models, for all action sequences. *)
From RxVerif Require Import Base.Prelude Base.CaseLib Ops.Machine Ops.MachineFacts Ops.Bridges.

Local Open Scope nat_scope.

(* ---- from_future -------------------------------------------------------------- *)
Definition settled (fs : fstate) : Prop := fs <> FPending.

(* once the subscription has stopped and the future is settled nothing happens any more *)
Lemma ff_run_dead acts : forall fs k, settled fs -> ff_run (fs, true) k acts = ([], [], fs).
Proof.
  induction acts as [|a rest IH]; intros fs k Hs; [reflexivity|].
  cbn [ff_run]. assert (E : ff_step (fs, true) k a = ((fs, true), [], [])).
  { destruct a; cbn; destruct fs; try reflexivity; exfalso; apply Hs; reflexivity. }
  rewrite E, (IH fs (S k) Hs). reflexivity.
Qed.

Theorem from_future_result v rest :
  from_future FPending (ASetResult v :: rest) = ([(1, Next v); (1, Done)], [1], FResult v).
Proof. cbn [from_future ff_run ff_step]. rewrite ff_run_dead by discriminate. reflexivity. Qed.

Theorem from_future_exception e rest :
  from_future FPending (ASetExn e :: rest) = ([(1, Err e)], [1], FExn e).
Proof. cbn [from_future ff_run ff_step]. rewrite ff_run_dead by discriminate. reflexivity. Qed.

Theorem from_future_cancelled rest :
  from_future FPending (ACancel :: rest) = ([(1, Err CANCELLED)], [1], FCancelled).
Proof. cbn [from_future ff_run ff_step]. rewrite ff_run_dead by discriminate. reflexivity. Qed.

(* unsubscribed first: the future is cancelled, nothing is ever delivered *)
Theorem from_future_dispose_first rest :
  from_future FPending (ADispose :: rest) = ([], [1], FCancelled).
Proof. cbn [from_future ff_run ff_step]. rewrite ff_run_dead by discriminate. reflexivity. Qed.

(* a future that is already done when subscribed *)
Theorem from_future_already_done init acts : settled init ->
  from_future init acts = (settled_notes 0 init, [0], init).
Proof.
  intros Hs. unfold from_future. destruct init; try (exfalso; apply Hs; reflexivity);
    rewrite ff_run_dead by discriminate; cbn; rewrite ?app_nil_r; reflexivity.
Qed.

(* in general: the subscriber gets nothing, or exactly the notifications of the
   future's final state, at one position; the library calls cancel() at most once *)
Lemma ff_run_shape acts : forall fs k,
  (fs = FPending ->
   let '(ns, cs, fin) := ff_run (fs, false) k acts in
   (ns = [] /\ cs = [] /\ fin = FPending)
   \/ (exists j, (ns = [] \/ ns = settled_notes j fin) /\ cs = [j] /\ settled fin)).
Proof.
  induction acts as [|a rest IH]; intros fs k ->; [left; auto|].
  cbn [ff_run]. destruct a; cbn [ff_step].
  - rewrite ff_run_dead by discriminate. right. exists k. cbn. repeat split; auto; discriminate.
  - rewrite ff_run_dead by discriminate. right. exists k. cbn. repeat split; auto; discriminate.
  - rewrite ff_run_dead by discriminate. right. exists k. cbn. repeat split; auto; discriminate.
  - rewrite ff_run_dead by discriminate. right. exists k. cbn. repeat split; auto; discriminate.
Qed.

Theorem from_future_at_most_one_outcome acts :
  let '(ns, cs, fin) := from_future FPending acts in
  (ns = [] /\ cs = [] /\ fin = FPending)
  \/ (exists j, (ns = [] \/ ns = settled_notes j fin) /\ cs = [j] /\ settled fin).
Proof. exact (ff_run_shape acts FPending 1 eq_refl). Qed.

(* ---- to_future / await / run ---------------------------------------------------- *)
Definition last_opt (xs : list Z) (d : option Z) : option Z := fold_left (fun _ x => Some x) xs d.

Lemma tf_run_nexts xs : forall last k rest,
  tf_run (last, FPending, true) k (map TSrc (map Next xs) ++ rest)
  = tf_run (last_opt xs last, FPending, true) (k + length xs) rest.
Proof.
  induction xs as [|x t IH]; intros last k rest; cbn [map app length last_opt fold_left].
  - now rewrite Nat.add_0_r.
  - cbn [tf_run tf_step]. rewrite (IH (Some x) (S k) rest). unfold last_opt.
    replace (S k + length t) with (k + S (length t)) by lia.
    destruct (tf_run (fold_left (fun (_ : option Z) (x0 : Z) => Some x0) t (Some x), FPending, true) (k + S (length t)) rest). reflexivity.
Qed.

Lemma tf_run_dead junk : forall last fut k,
  tf_run (last, fut, false) k (map TSrc junk) = ([], fut).
Proof.
  induction junk as [|e t IH]; intros last fut k; [reflexivity|].
  cbn [map tf_run]. destruct e; cbn [tf_step]; rewrite IH; reflexivity.
Qed.

Definition expected_future (xs : list Z) (t : term) : fstate :=
  match t with
  | TDone => match last_opt xs None with Some v => FResult v | None => FExn NO_ELEMENTS end
  | TErr e => FExn e
  | TNever => FPending
  end.

(* to_future resolves with the LAST element of every finite sequence, fails with
   the sequence's error, or with SequenceContainsNoElementsError when empty;
   whatever a non-conforming source sends after its terminal notification is
   ignored; the source subscription is disposed exactly then *)
Theorem to_future_spec xs t junk : t <> TNever ->
  to_future (map TSrc (events xs t ++ junk)) = ([S (length xs)], expected_future xs t).
Proof.
  intros Ht. unfold to_future, events. rewrite <- app_assoc, map_app, tf_run_nexts.
  destruct t; try congruence; cbn [app map tf_run tf_step expected_future];
    rewrite tf_run_dead; cbn; destruct (last_opt xs None); reflexivity.
Qed.

Theorem to_future_pending xs : to_future (map TSrc (events xs TNever)) = ([], FPending).
Proof.
  unfold to_future, events. rewrite app_nil_r. rewrite <- (app_nil_r (map TSrc (map Next xs))), tf_run_nexts.
  reflexivity.
Qed.

(* the owner cancels the future first: the source is unsubscribed at that
   moment and nothing it sends later changes the future *)
Theorem to_future_cancelled_first xs junk :
  to_future (map TSrc (map Next xs) ++ TCancelFuture :: map TSrc junk) = ([S (length xs)], FCancelled).
Proof.
  unfold to_future. rewrite tf_run_nexts. cbn [tf_run tf_step]. rewrite tf_run_dead. reflexivity.
Qed.

Theorem run_spec xs t junk : t <> TNever ->
  run_outcome (events xs t ++ junk)
  = match t with
    | TDone => match last_opt xs None with Some v => Returns v | None => Raises NO_ELEMENTS end
    | TErr e => Raises e
    | TNever => Blocks
    end.
Proof.
  intros Ht. unfold run_outcome. rewrite (to_future_spec xs t junk Ht). cbn [snd].
  destruct t; try congruence; cbn; destruct (last_opt xs None); reflexivity.
Qed.

Theorem run_blocks xs : run_outcome (events xs TNever) = Blocks.
Proof. unfold run_outcome. now rewrite to_future_pending. Qed.

Lemma last_opt_app xs x d : last_opt (xs ++ [x]) d = Some x.
Proof. unfold last_opt. now rewrite fold_left_app. Qed.

(* ---- to_async / start --------------------------------------------------------------- *)
Theorem to_async_run_then_subscribe r : to_async r [ARun; ASubscribe] = result_notes 1 r.
Proof. cbn. now rewrite app_nil_r. Qed.

Theorem to_async_subscribe_then_run r : to_async r [ASubscribe; ARun] = result_notes 1 r.
Proof. cbn. now rewrite app_nil_r. Qed.

Lemma ta_run_stopped r acts : forall ran k, ta_run r (ran, Stopped) k acts = [].
Proof.
  induction acts as [|a t IH]; intros ran k; [reflexivity|]. cbn [ta_run].
  destruct a; cbn [ta_step]; try (destruct ran); cbn [app]; apply IH.
Qed.

Theorem to_async_unsubscribed_before_run r rest : to_async r (ASubscribe :: AUnsubscribe :: rest) = [].
Proof. unfold to_async. cbn [ta_run ta_step app]. apply ta_run_stopped. Qed.

(* the function's single result, once, or nothing: never twice, never anything else *)
Theorem to_async_single_result r acts : to_async r acts = [] \/ exists k, to_async r acts = result_notes k r.
Proof.
  unfold to_async.
  assert (G : forall acts ran sub k,
            ta_run r (ran, sub) k acts = [] \/ exists j, ta_run r (ran, sub) k acts = result_notes j r).
  { induction acts0 as [|a t IH]; intros ran sub k; [left; reflexivity|]. cbn [ta_run].
    destruct a; cbn [ta_step].
    - destruct ran; [apply IH|]. destruct sub; cbn [app]; try apply IH.
      rewrite ta_run_stopped, app_nil_r. right. exists k. reflexivity.
    - destruct sub; cbn [app]; try apply IH. destruct ran; cbn [app]; [|apply IH].
      rewrite ta_run_stopped, app_nil_r. right. exists k. reflexivity.
    - destruct sub; cbn [app]; apply IH. }
  apply G.
Qed.

(* ---- from_callback ------------------------------------------------------------------- *)
Lemma fc_run_stopped m invs : fc_run m true invs = [].
Proof. induction invs as [|[k a] t IH]; [reflexivity|exact IH]. Qed.

(* only the first invocation of the handler counts *)
Theorem from_callback_first_invocation m k args rest :
  from_callback m ((k, args) :: rest) = handler_notes m k args.
Proof. unfold from_callback. cbn [fc_run]. now rewrite fc_run_stopped, app_nil_r. Qed.

Definition arguments_value (args : list Z) : bval :=
  match args with [] => VNone | [x] => VOne x | _ => VList args end.

(* exactly one value -- the callback arguments, or the mapper's result -- and
   then completion, with or without a mapper *)
Theorem from_callback_spec_no_mapper k args rest :
  from_callback None ((k, args) :: rest) = [(k, Next (arguments_value args)); (k, Done)].
Proof. rewrite from_callback_first_invocation. reflexivity. Qed.

Theorem from_callback_spec_mapper mp k args rest v : apply_mapper mp args = Ok v ->
  from_callback (Some mp) ((k, args) :: rest) = [(k, Next (VOne v)); (k, Done)].
Proof. intros E. rewrite from_callback_first_invocation. cbn [handler_notes]. now rewrite E. Qed.

Theorem from_callback_mapper_raises mp k args rest e : apply_mapper mp args = Raise e ->
  from_callback (Some mp) ((k, args) :: rest) = [(k, Err e)].
Proof. intros E. rewrite from_callback_first_invocation. cbn [handler_notes]. now rewrite E. Qed.

Theorem from_callback_never_invoked m : from_callback m [] = [].
Proof. reflexivity. Qed.
