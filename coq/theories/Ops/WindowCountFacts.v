(* C18: window_with_count -- closed-form index arithmetic for ALL count >= 1,
   skip >= 1 (skip < count: overlapping, skip = count: tiling, skip > count:
   gapped), every finite source and every termination:
     window k is handed iff k*skip <= number of elements,
     window k receives exactly the elements k*skip .. k*skip+count-1, in order,
     it completes right after element k*skip+count-1, and the windows still
     open when the source terminates end with the source's terminal. *)
From RxVerif Require Import Base.Prelude Ops.Machine Ops.MachineFacts Ops.MultiWin Ops.MultiWinFacts Ops.Windows.

Local Arguments Z.of_nat : simpl never.
Local Arguments Z.mul : simpl never.
Local Arguments Z.add : simpl never.
Local Arguments Z.sub : simpl never.
Local Arguments Z.modulo : simpl never.

(* a conforming source on port 0 *)
Definition term_ev {A} (tm : term) : list (ev A) :=
  match tm with TDone => [Done] | TErr e => [Err e] | TNever => [] end.
Definition src_events {A} (xs : list A) (tm : term) : list (Z * inp A) :=
  map (fun x => (0, ISrc 0%nat (Next x))) xs ++ map (fun e => (0, ISrc 0%nat e)) (term_ev tm).

Section Count.
Context {A : Type}.
Variables count skip : Z.
Hypothesis Hcount : 0 < count.
Hypothesis Hskip : 0 < skip.

(* machine-level invariant after n elements: the open windows are lo .. nx-1 *)
Record wc_inv (s : wc_st) (n : Z) (lo nx : nat) : Prop := {
  wi_n : wc_n s = n;
  wi_n0 : 0 <= n;
  wi_next : wc_next s = nx;
  wi_q : wc_q s = seq lo (nx - lo);
  wi_nx1 : (1 <= nx)%nat;
  wi_nx_lo : (Z.of_nat nx - 1) * skip <= n;
  wi_nx_hi : n < Z.of_nat nx * skip;
  wi_lo_hi : n < Z.of_nat lo * skip + count;
  wi_lo_lo : lo = 0%nat \/ (Z.of_nat lo - 1) * skip + count <= n }.

Lemma wc_inv_lo_le s n lo nx : wc_inv s n lo nx -> (lo <= nx)%nat.
Proof. intros [? ? ? ? ? ? ? ? [->|H]]; [lia|]. nia. Qed.

Lemma wc_inv0 : wc_inv (WcSt 0 [0%nat] 1) 0 0 1.
Proof. constructor; cbn; try lia; auto. Qed.

(* the element with index n closes a window iff n = lo*skip + count - 1 *)
Lemma closing_iff n lo : 0 <= n ->
  n < Z.of_nat lo * skip + count -> (lo = 0%nat \/ (Z.of_nat lo - 1) * skip + count <= n) ->
  ((0 <=? n - count + 1) && ((n - count + 1) mod skip =? 0) = true <-> n = Z.of_nat lo * skip + count - 1).
Proof.
  intros Hn Hhi Hlo. split.
  - intros H. apply andb_true_iff in H. destruct H as [H1 H2]. apply Z.leb_le in H1. apply Z.eqb_eq in H2.
    apply Z.mod_divide in H2; [|lia]. destruct H2 as [q Hq].
    assert (q = Z.of_nat lo); [|subst; lia].
    destruct Hlo as [->|Hlo]; nia.
  - intros ->. apply andb_true_iff. split; [apply Z.leb_le; nia|]. apply Z.eqb_eq.
    replace (Z.of_nat lo * skip + count - 1 - count + 1) with (Z.of_nat lo * skip) by lia.
    apply Z.mod_mul. lia.
Qed.

Lemma opening_iff n nx : (Z.of_nat nx - 1) * skip <= n -> n < Z.of_nat nx * skip ->
  ((n + 1) mod skip =? 0 = true <-> n + 1 = Z.of_nat nx * skip).
Proof.
  intros Hlo Hhi. split.
  - intros H. apply Z.eqb_eq in H. apply Z.mod_divide in H; [|lia]. destruct H as [q Hq].
    assert (q = Z.of_nat nx); [nia|subst; lia].
  - intros ->. apply Z.eqb_eq. apply Z.mod_mul. lia.
Qed.

(* what on_next does, in terms of the invariant *)
Lemma wc_on_next_spec {B} s n lo nx (x : A) : wc_inv s n lo nx ->
  let closing := n =? Z.of_nat lo * skip + count - 1 in
  let opening := n + 1 =? Z.of_nat nx * skip in
  wc_inv (fst (wc_on_next (B:=B) count skip s x)) (n + 1)
         (if closing then S lo else lo) (if opening then S nx else nx)
  /\ snd (wc_on_next (B:=B) count skip s x)
     = wins_all (seq lo (nx - lo)) (Next x) ++ (if closing then [CWin lo Done] else [])
       ++ (if opening then [CHand nx 0] else [])
  /\ (closing = true -> (lo < nx)%nat).
Proof.
  intros I. pose proof (wc_inv_lo_le _ _ _ _ I) as Hle. destruct I as [Hn Hn0 Hnx Hq Hnx1 H1 H2 H3 H4].
  cbn zeta. unfold wc_on_next. rewrite Hn, Hq, Hnx.
  pose proof (closing_iff n lo Hn0 H3 H4) as Hc. pose proof (opening_iff n nx H1 H2) as Ho.
  destruct ((0 <=? n - count + 1) && ((n - count + 1) mod skip =? 0)) eqn:Ec.
  - assert (En : n = Z.of_nat lo * skip + count - 1) by (apply Hc; reflexivity).
    assert (Hlt : (lo < nx)%nat) by nia.
    rewrite (proj2 (Z.eqb_eq _ _) En).
    destruct (nx - lo)%nat as [|len] eqn:El; [lia|]. cbn [seq].
    destruct ((n + 1) mod skip =? 0) eqn:Eo.
    + assert (Eo' : n + 1 = Z.of_nat nx * skip) by (apply Ho; reflexivity).
      rewrite (proj2 (Z.eqb_eq _ _) Eo'). cbn [fst snd]. split; [|split; [|auto]].
      * constructor; cbn [wc_n wc_q wc_next]; try lia.
        replace (S nx - S lo)%nat with (len + 1)%nat by lia. rewrite seq_app. cbn [seq]. f_equal. f_equal. lia.
      * reflexivity.
    + assert (Eo' : n + 1 =? Z.of_nat nx * skip = false).
      { apply Z.eqb_neq. intros E. apply Ho in E. congruence. }
      rewrite Eo'. cbn [fst snd]. split; [|split; [|auto]].
      * apply Z.eqb_neq in Eo'. constructor; cbn [wc_n wc_q wc_next]; try lia.
        replace (nx - S lo)%nat with len by lia. reflexivity.
      * rewrite app_nil_r. reflexivity.
  - assert (En : n =? Z.of_nat lo * skip + count - 1 = false).
    { apply Z.eqb_neq. intros E. apply Hc in E. congruence. }
    rewrite En. apply Z.eqb_neq in En.
    destruct ((n + 1) mod skip =? 0) eqn:Eo.
    + assert (Eo' : n + 1 = Z.of_nat nx * skip) by (apply Ho; reflexivity).
      rewrite (proj2 (Z.eqb_eq _ _) Eo'). cbn [fst snd]. split; [|split; [|discriminate]].
      * constructor; cbn [wc_n wc_q wc_next]; try lia.
        replace (S nx - lo)%nat with ((nx - lo) + 1)%nat by lia. rewrite seq_app. cbn [seq]. f_equal. f_equal. lia.
      * reflexivity.
    + assert (Eo' : n + 1 =? Z.of_nat nx * skip = false).
      { apply Z.eqb_neq. intros E. apply Ho in E. congruence. }
      rewrite Eo'. cbn [fst snd]. split; [|split; [|discriminate]].
      * apply Z.eqb_neq in Eo'. constructor; cbn [wc_n wc_q wc_next]; try lia; try reflexivity.
      * rewrite !app_nil_r. reflexivity.
Qed.

(* q.pop(0) is never reached with an empty q *)
Theorem wcount_pop_safe s n lo nx : wc_inv s n lo nx ->
  (0 <=? wc_n s - count + 1) && ((wc_n s - count + 1) mod skip =? 0) = true -> wc_q s <> [].
Proof.
  intros I Hc. pose proof (wc_inv_lo_le _ _ _ _ I) as Hle. destruct I as [Hn Hn0 Hnx Hq Hnx1 H1 H2 H3 H4].
  rewrite Hn in Hc. apply (closing_iff n lo Hn0 H3 H4) in Hc.
  rewrite Hq. assert (lo < nx)%nat by nia. destruct (nx - lo)%nat eqn:E; [lia|discriminate].
Qed.

(* window k is open when element n arrives iff k*skip <= n < k*skip + count *)
Definition wopen (k : nat) (n : Z) : bool := (Z.of_nat k * skip <=? n) && (n <? Z.of_nat k * skip + count).

Lemma wc_open_iff s n lo nx k : wc_inv s n lo nx -> (In k (wc_q s) <-> wopen k n = true).
Proof.
  intros I. destruct I as [Hn Hn0 Hnx Hq Hnx1 H1 H2 H3 H4]. rewrite Hq, in_seq. unfold wopen.
  rewrite andb_true_iff, Z.leb_le, Z.ltb_lt. split.
  - intros [Ha Hb]. split; [nia|nia].
  - intros [Ha Hb]. split; [|nia]. destruct H4 as [->|H4]; [lia|nia].
Qed.

(* ------------------------------------------------------------ run level -- *)
Context {B : Type}.
Notation M := (x_window_count (A:=A) (B:=B) count skip).

(* runner state along a conforming run with every window subscribed when handed *)
Definition wc_rstate (lo nx : nat) : rstate A :=
  RState [0%nat] [] true (seq lo (nx - lo)) (map (fun k => (k, Done)) (seq 0 lo)) (seq 0 nx) false.

Lemma wterm_done_seq g lo :
  wterm_of (W:=A) g (map (fun k => (k, Done)) (seq 0 lo)) = if (g <? lo)%nat then Some Done else None.
Proof.
  induction lo as [|lo IH]; [reflexivity|].
  rewrite seq_S, map_app. cbn [map Nat.add].
  assert (E : forall l1 l2, wterm_of (W:=A) g (l1 ++ l2)
                = match wterm_of g l1 with Some e => Some e | None => wterm_of g l2 end).
  { induction l1 as [|[j e] t IHt]; intros l2; [reflexivity|]. cbn. destruct (Nat.eqb g j); auto. }
  rewrite E, IH. cbn [wterm_of].
  destruct (Nat.ltb_spec g lo), (Nat.ltb_spec g (S lo)), (Nat.eqb_spec g lo); try lia; reflexivity.
Qed.

Lemma count_of_seq g lo len :
  count_of g (seq lo len) = if ((lo <=? g) && (g <? lo + len))%nat then 1%nat else 0%nat.
Proof.
  unfold count_of. revert lo. induction len as [|len IH]; intros lo.
  - cbn [seq filter length]. destruct (Nat.leb_spec lo g), (Nat.ltb_spec g (lo + 0)); cbn [andb]; try lia; reflexivity.
  - cbn [seq filter]. destruct (Nat.eqb_spec g lo); cbn [length]; rewrite IH;
    destruct (Nat.leb_spec lo g), (Nat.ltb_spec g (lo + S len)),
             (Nat.leb_spec (S lo) g), (Nat.ltb_spec g (S lo + len)); cbn [andb]; try lia; reflexivity.
Qed.

Lemma filter_neq_seq lo len :
  filter (fun j => negb (Nat.eqb lo j)) (seq lo (S len)) = seq (S lo) len.
Proof.
  cbn [seq filter]. rewrite Nat.eqb_refl. cbn [negb].
  assert (E : forall a n, (lo < a)%nat -> filter (fun j => negb (Nat.eqb lo j)) (seq a n) = seq a n).
  { intros a n. revert a. induction n as [|n IHn]; intros a Ha; [reflexivity|]. cbn [seq filter].
    destruct (Nat.eqb_spec lo a); [lia|]. cbn [negb]. f_equal. apply IHn. lia. }
  apply E. lia.
Qed.

Lemma mem_seq g a n : mem g (seq a n) = ((a <=? g) && (g <? a + n))%nat.
Proof.
  unfold Multi.mem. revert a. induction n as [|n IH]; intros a.
  - cbn [seq existsb]. destruct (Nat.leb_spec a g), (Nat.ltb_spec g (a + 0)); cbn [andb]; try lia; reflexivity.
  - cbn [seq existsb]. rewrite IH.
    destruct (Nat.eqb_spec g a), (Nat.leb_spec a g), (Nat.ltb_spec g (a + S n)),
             (Nat.leb_spec (S a) g), (Nat.ltb_spec g (S a + n)); cbn [andb orb]; try lia; reflexivity.
Qed.

Ltac rs := cbn [r_live r_timers r_outer r_wsubs r_wterm r_handed r_released fst snd app apply_cmds apply_cmd
                finish is_terminal all_imm negb andb repeat].

(* one source element *)
Lemma wc_step s n lo nx (x : A) now : wc_inv s n lo nx ->
  let closing := n =? Z.of_nat lo * skip + count - 1 in
  let opening := n + 1 =? Z.of_nat nx * skip in
  rstep all_imm M s (wc_rstate lo nx) now (ISrc 0%nat (Next x))
  = (fst (wc_on_next (B:=B) count skip s x),
     wc_rstate (if closing then S lo else lo) (if opening then S nx else nx),
     map (fun g => OWin g (Next x)) (seq lo (nx - lo)) ++ (if closing then [OWin lo Done] else [])
       ++ (if opening then [OHand nx 0] else [])).
Proof.
  intros I. pose proof (wc_inv_lo_le _ _ _ _ I) as Hle.
  destruct (wc_on_next_spec (B:=B) s n lo nx x I) as (I' & Hcs & Hlt). cbn zeta in *.
  unfold wc_rstate. unfold rstep. cbn [r_live]. change (mem 0%nat [0%nat]) with true. cbn iota.
  unfold deliver. cbn [x_step x_window_count].
  destruct (wc_on_next (B:=B) count skip s x) as [s' cs] eqn:Ewc. cbn [fst snd] in *. subst cs.
  rewrite !apply_cmds_app.
  assert (E1 : apply_cmds (B:=B) all_imm (wc_rstate lo nx) (wins_all (seq lo (nx - lo)) (Next x))
               = (wc_rstate lo nx, map (fun g => OWin g (Next x)) (seq lo (nx - lo)))).
  { apply apply_cmds_wins_next. intros g Hg. apply in_seq in Hg. unfold wc_rstate. cbn [r_wterm r_wsubs].
    rewrite wterm_done_seq, count_of_seq.
    destruct (Nat.ltb_spec g lo); [lia|].
    destruct (Nat.leb_spec lo g), (Nat.ltb_spec g (lo + (nx - lo))); try lia. auto. }
  unfold wc_rstate in E1. rewrite E1. cbn [fst snd].
  assert (Em : mem nx (seq 0 nx ++ [nx]) = true).
  { change [nx] with (seq (0 + nx) 1). rewrite <- seq_app, mem_seq.
    destruct (Nat.leb_spec 0 nx), (Nat.ltb_spec nx (0 + (nx + 1))); try lia; reflexivity. }
  destruct (n =? Z.of_nat lo * skip + count - 1) eqn:Ec.
  - specialize (Hlt eq_refl). destruct (nx - lo)%nat as [|len] eqn:El; [lia|].
    rs. rewrite wterm_done_seq, Nat.ltb_irrefl, count_of_seq.
    destruct (Nat.leb_spec lo lo), (Nat.ltb_spec lo (lo + S len)); try lia.
    rs. rewrite filter_neq_seq. unfold maybe_release. rs.
    destruct (n + 1 =? Z.of_nat nx * skip) eqn:Eo.
    + rs. unfold sub_win. rs.
      assert (Ew : wterm_of (W:=A) nx (map (fun k => (k, Done)) (seq 0 lo) ++ [(lo, Done)]) = None).
      { change [(lo, @Done A)] with (map (fun k => (k, @Done A)) [lo]). rewrite <- map_app.
        change [lo] with (seq (0 + lo) 1). rewrite <- seq_app. rewrite wterm_done_seq.
        destruct (Nat.ltb_spec nx (lo + 1)); [lia|reflexivity]. }
      rewrite Ew, Em. rs.
      f_equal; [|rewrite ?app_nil_r; reflexivity]. f_equal. f_equal.
      * replace (S nx - S lo)%nat with (len + 1)%nat by lia. rewrite seq_app. cbn [seq]. f_equal. f_equal. lia.
      * rewrite seq_S, map_app. reflexivity.
      * rewrite seq_S. reflexivity.
    + rs. f_equal; [|rewrite ?app_nil_r; reflexivity]. f_equal. f_equal.
      * f_equal. lia.
      * rewrite seq_S, map_app. reflexivity.
  - rs.
    destruct (n + 1 =? Z.of_nat nx * skip) eqn:Eo.
    + rs. unfold sub_win. rs.
      rewrite wterm_done_seq. destruct (Nat.ltb_spec nx lo); [lia|].
      rewrite Em. rs.
      f_equal; [|rewrite ?app_nil_r; reflexivity]. f_equal. f_equal.
      * replace (S nx - lo)%nat with ((nx - lo) + 1)%nat by lia. rewrite seq_app. cbn [seq]. f_equal. f_equal. lia.
      * rewrite seq_S. reflexivity.
    + rs. rewrite ?app_nil_r. reflexivity.
Qed.

(* the source's terminal: every open window sees it *)
Lemma wc_term_step s n lo nx (e : ev A) now k : wc_inv s n lo nx -> is_terminal e = true ->
  wobs k (snd (rstep all_imm M s (wc_rstate lo nx) now (ISrc 0%nat e)))
  = if wopen k n then [e] else [].
Proof.
  intros I He. pose proof (wc_inv_lo_le _ _ _ _ I) as Hle.
  assert (Hopen : mem k (seq lo (nx - lo)) = wopen k n).
  { pose proof (wc_open_iff s n lo nx k I) as Hiff. rewrite (wi_q _ _ _ _ I), in_seq in Hiff.
    rewrite mem_seq. destruct (wopen k n).
    - destruct (proj2 Hiff eq_refl). destruct (Nat.leb_spec lo k), (Nat.ltb_spec k (lo + (nx - lo))); try lia; reflexivity.
    - destruct (Nat.leb_spec lo k), (Nat.ltb_spec k (lo + (nx - lo))); try reflexivity.
      assert (false = true) by (apply Hiff; lia). discriminate. }
  unfold rstep, wc_rstate. cbn [r_live]. change (mem 0%nat [0%nat]) with true. cbn iota.
  unfold deliver.
  assert (Ex : exists f, x_step M s now (ISrc 0%nat e)
                = (WcSt (wc_n s) [] (wc_next s), wins_all (wc_q s) e, f)).
  { destruct e; [discriminate| |]; cbn [x_step x_window_count]; eauto. }
  destruct Ex as [f Ex]. rewrite Ex. rewrite (wi_q _ _ _ _ I).
  match goal with |- context [apply_cmds all_imm ?r0 (wins_all ?q e)] =>
    destruct (apply_cmds_wins_term (B:=B) all_imm k e q He (seq_NoDup _ _) r0 eq_refl) as [H1 H2] end.
  { intros g Hg. apply in_seq in Hg. cbn [r_wterm r_wsubs]. rewrite wterm_done_seq, count_of_seq.
    destruct (Nat.ltb_spec g lo); [lia|].
    destruct (Nat.leb_spec lo g), (Nat.ltb_spec g (lo + (nx - lo))); try lia. auto. }
  unfold wins_all in *.
  match goal with |- context [apply_cmds all_imm ?r0 ?cs] => destruct (apply_cmds all_imm r0 cs) as [r1 o1] end.
  cbn [fst snd] in *.
  pose proof (wobs_finish (B:=B) k r1 f) as Hf. destruct (finish r1 f) as [r2 o2]. cbn [snd] in Hf.
  destruct (is_terminal e && mem 0%nat (r_live r2)); cbn [fst snd]; rewrite !wobs_app, H1, Hf, Hopen;
    cbn [wobs flat_map app]; rewrite ?app_nil_r; reflexivity.
Qed.

(* events on window k from the elements with indices n, n+1, ... *)
Fixpoint wc_events (k : nat) (n : Z) (ys : list A) (tm : term) : list (ev A) :=
  match ys with
  | [] => if wopen k n then term_ev tm else []
  | y :: t => (if wopen k n then [Next y] else [])
              ++ (if n =? Z.of_nat k * skip + count - 1 then [Done] else [])
              ++ wc_events k (n + 1) t tm
  end.

Lemma wc_run_from k tm (ys : list A) : forall s n lo nx pos, wc_inv s n lo nx ->
  wevents k (fst (run_from all_imm M s (wc_rstate lo nx) pos (src_events ys tm))) = wc_events k n ys tm.
Proof.
  induction ys as [|y t IH]; intros s n lo nx pos I.
  - unfold src_events. cbn [map app wc_events]. destruct tm as [|e|]; cbn [term_ev map].
    + rewrite run_from_cons. cbn [run_from fst]. rewrite app_nil_r, wevents_tag.
      apply (wc_term_step s n lo nx Done 0 k I eq_refl).
    + rewrite run_from_cons. cbn [run_from fst]. rewrite app_nil_r, wevents_tag.
      apply (wc_term_step s n lo nx (Err e) 0 k I eq_refl).
    + cbn. destruct (wopen k n); reflexivity.
  - unfold src_events. cbn [map app]. fold (src_events t tm). rewrite run_from_cons.
    pose proof (wc_inv_lo_le _ _ _ _ I) as Hle.
    rewrite (wc_step s n lo nx y 0 I). cbn [fst snd].
    destruct (wc_on_next_spec (B:=B) s n lo nx y I) as (I' & _ & _). cbn zeta in I'.
    rewrite wevents_app, wevents_tag, (IH _ _ _ _ _ I'). cbn [wc_events]. rewrite !wobs_app, <- !app_assoc.
    assert (E1 : wobs k (map (fun g => @OWin A B g (Next y)) (seq lo (nx - lo))) = if wopen k n then [Next y] else []).
    { rewrite wobs_map_win by apply seq_NoDup.
      pose proof (wc_open_iff s n lo nx k I) as Hiff. rewrite (wi_q _ _ _ _ I), in_seq in Hiff.
      rewrite mem_seq. destruct (wopen k n).
      * destruct (proj2 Hiff eq_refl). destruct (Nat.leb_spec lo k), (Nat.ltb_spec k (lo + (nx - lo))); try lia; reflexivity.
      * destruct (Nat.leb_spec lo k), (Nat.ltb_spec k (lo + (nx - lo))); try reflexivity.
        assert (false = true) by (apply Hiff; lia). discriminate. }
    assert (E2 : wobs k (if n =? Z.of_nat lo * skip + count - 1 then [@OWin A B lo Done] else [])
                 = if n =? Z.of_nat k * skip + count - 1 then [Done] else []).
    { destruct I as [Hn Hn0 Hnx Hq Hnx1 H1 H2 H3 H4].
      destruct (n =? Z.of_nat lo * skip + count - 1) eqn:Ec.
      * apply Z.eqb_eq in Ec. cbn [wobs flat_map app].
        destruct (Nat.eqb_spec k lo) as [->|Hne].
        -- rewrite (proj2 (Z.eqb_eq _ _) Ec). reflexivity.
        -- destruct (n =? Z.of_nat k * skip + count - 1) eqn:Ek; [|reflexivity].
           apply Z.eqb_eq in Ek. assert (k = lo) by nia. contradiction.
      * apply Z.eqb_neq in Ec. cbn [wobs flat_map].
        destruct (n =? Z.of_nat k * skip + count - 1) eqn:Ek; [|reflexivity].
        apply Z.eqb_eq in Ek. assert (k = lo); [|subst; lia].
        destruct H4 as [->|H4]; nia. }
    assert (E3 : wobs k (if n + 1 =? Z.of_nat nx * skip then [@OHand A B nx 0] else []) = [])
      by (destruct (n + 1 =? Z.of_nat nx * skip); reflexivity).
    rewrite E1, E2, E3. reflexivity.
Qed.

(* closed form of the event list *)
Lemma zskip_nil {X} n : zskip n (@nil X) = [].
Proof. reflexivity. Qed.
Lemma ztake_nil {X} n : ztake n (@nil X) = [].
Proof. reflexivity. Qed.

Lemma wc_events_closed k tm (ys : list A) : forall n, 0 <= n ->
  wc_events k n ys tm
  = if Z.of_nat k * skip + count <=? n then []
    else map Next (ztake (Z.of_nat k * skip + count - Z.max (Z.of_nat k * skip) n)
                         (zskip (Z.max (Z.of_nat k * skip) n - n) ys))
         ++ (if Z.of_nat k * skip + count <=? n + zlen ys then [Done]
             else if Z.of_nat k * skip <=? n + zlen ys then term_ev tm else []).
Proof.
  set (a := Z.of_nat k * skip). set (b := a + count).
  induction ys as [|y t IH]; intros n Hn.
  - cbn [wc_events]. unfold wopen. fold a. fold b. unfold zlen. cbn [length]. rewrite zskip_nil, ztake_nil.
    cbn [map app]. replace (n + Z.of_nat 0) with n by lia.
    destruct (Z.leb_spec b n), (Z.leb_spec a n), (Z.ltb_spec n b); cbn [andb]; try lia; reflexivity.
  - cbn [wc_events]. rewrite IH by lia. unfold wopen. fold a. fold b.
    assert (Hl : zlen (y :: t) = zlen t + 1) by (unfold zlen; cbn [length]; lia). rewrite Hl.
    replace (n + 1 + zlen t) with (n + (zlen t + 1)) by lia.
    destruct (Z.leb_spec b n) as [Hbn|Hbn].
    + destruct (Z.leb_spec b (n + 1)); [|lia].
      destruct (Z.leb_spec a n), (Z.ltb_spec n b), (Z.eqb_spec n (b - 1)); cbn [andb app]; try lia; reflexivity.
    + destruct (Z.leb_spec a n) as [Han|Han].
      * (* a <= n < b: y belongs to the window *)
        destruct (Z.ltb_spec n b); [|lia]. cbn [andb].
        replace (Z.max a n) with n by lia. replace (n - n) with 0 by lia.
        cbn [zskip]. replace (0 <=? 0) with true by reflexivity.
        cbn [ztake]. destruct (Z.leb_spec (b - n) 0); [lia|]. cbn [map app].
        destruct (Z.eqb_spec n (b - 1)) as [E|E].
        -- destruct (Z.leb_spec b (n + 1)); [|lia]. cbn [app].
           replace (b - n - 1) with 0 by lia.
           assert (Ez : forall l : list A, ztake 0 l = []) by (destruct l; reflexivity). rewrite Ez. cbn [map app].
           destruct (Z.leb_spec b (n + (zlen t + 1))); [reflexivity|]. unfold zlen in *. lia.
        -- destruct (Z.leb_spec b (n + 1)); [lia|]. cbn [app].
           replace (Z.max a (n + 1)) with (n + 1) by lia. replace (n + 1 - (n + 1)) with 0 by lia.
           assert (Ez : forall l : list A, zskip 0 l = l) by (destruct l; reflexivity). rewrite Ez.
           replace (b - (n + 1)) with (b - n - 1) by lia. reflexivity.
      * (* n < a: y is before the window *)
        destruct (Z.eqb_spec n (b - 1)); [lia|]. cbn [andb app].
        destruct (Z.leb_spec b (n + 1)); [lia|].
        replace (Z.max a n) with a by lia. replace (Z.max a (n + 1)) with a by lia.
        cbn [zskip]. destruct (Z.leb_spec (a - n) 0); [lia|].
        replace (a - n - 1) with (a - (n + 1)) by lia. reflexivity.
Qed.

(* THEOREM (C18, count-based windows): for all count >= 1, skip >= 1, every
   finite source and every termination, with every window subscribed when it
   is handed: window k holds exactly elements k*skip .. k*skip+count-1, ends
   with Done right after the last of them, or with the source's terminal if
   that comes first *)
Theorem window_count_index (xs : list A) (tm : term) (k : nat) :
  wevents k (fst (run all_imm M (src_events xs tm)))
  = map Next (ztake count (zskip (Z.of_nat k * skip) xs))
    ++ (if Z.of_nat k * skip + count <=? zlen xs then [Done]
        else if Z.of_nat k * skip <=? zlen xs then term_ev tm else []).
Proof.
  rewrite run_unfold. cbn [fst]. rewrite wevents_app.
  assert (Es : start_state all_imm M = (WcSt 0 [0%nat] 1, wc_rstate 0 1)) by reflexivity.
  assert (Eo : start_obs all_imm M = [OHand 0%nat 0; OSub 0%nat]) by reflexivity.
  rewrite Es, Eo. cbn [fst snd]. rewrite (wc_run_from k tm xs _ 0 0%nat 1%nat 1%nat wc_inv0).
  rewrite wc_events_closed by lia. cbn [wevents flat_map map snd app].
  destruct (Z.leb_spec (Z.of_nat k * skip + count) 0); [nia|].
  replace (Z.max (Z.of_nat k * skip) 0) with (Z.of_nat k * skip) by nia.
  replace (Z.of_nat k * skip + count - Z.of_nat k * skip) with count by lia.
  replace (Z.of_nat k * skip - 0) with (Z.of_nat k * skip) by lia.
  replace (0 + zlen xs) with (zlen xs) by lia. reflexivity.
Qed.

(* which windows are handed: window k iff k*skip <= number of elements *)
Lemma wc_term_hands s lo nx (e : ev A) now : is_terminal e = true ->
  hobs (snd (rstep all_imm M s (wc_rstate lo nx) now (ISrc 0%nat e))) = [].
Proof.
  intros He. unfold rstep, wc_rstate. cbn [r_live]. change (mem 0%nat [0%nat]) with true. cbn iota.
  unfold deliver.
  assert (Ex : exists f, x_step M s now (ISrc 0%nat e)
                = (WcSt (wc_n s) [] (wc_next s), wins_all (wc_q s) e, f)).
  { destruct e; [discriminate| |]; cbn [x_step x_window_count]; eauto. }
  destruct Ex as [f Ex]. rewrite Ex. unfold wins_all.
  match goal with |- context [apply_cmds all_imm ?r0 (map ?ff ?q)] =>
    pose proof (hobs_wins (B:=B) all_imm e q r0) as H1; destruct (apply_cmds all_imm r0 (map ff q)) as [r1 o1] end.
  cbn [fst snd] in *.
  pose proof (hobs_finish (B:=B) r1 f) as Hf. destruct (finish r1 f) as [r2 o2]. cbn [snd] in Hf.
  destruct (is_terminal e && mem 0%nat (r_live r2)); cbn [fst snd]; rewrite !hobs_app, H1, Hf; reflexivity.
Qed.

Lemma wc_hands_from tm (ys : list A) : forall s n lo nx pos, wc_inv s n lo nx ->
  map fst (hands (fst (run_from all_imm M s (wc_rstate lo nx) pos (src_events ys tm))))
  = seq nx (Z.to_nat ((n + zlen ys) / skip) + 1 - nx).
Proof.
  induction ys as [|y t IH]; intros s n lo nx pos I.
  - assert (Hd : (n + zlen (@nil A)) / skip = Z.of_nat nx - 1).
    { destruct I. unfold zlen. cbn [length]. replace (n + Z.of_nat 0) with n by lia.
      symmetry. apply Z.div_unique with (r := n - (Z.of_nat nx - 1) * skip); lia. }
    rewrite Hd. pose proof (wi_nx1 _ _ _ _ I) as Hnx1.
    replace (Z.to_nat (Z.of_nat nx - 1) + 1 - nx)%nat with 0%nat by lia. cbn [seq].
    unfold src_events. cbn [map app]. destruct tm as [|e|]; cbn [term_ev map]; [| |reflexivity];
      rewrite run_from_cons; cbn [run_from fst]; rewrite app_nil_r, hands_tag, wc_term_hands; reflexivity.
  - unfold src_events. cbn [map app]. fold (src_events t tm). rewrite run_from_cons.
    rewrite (wc_step s n lo nx y 0 I). cbn [fst snd].
    destruct (wc_on_next_spec (B:=B) s n lo nx y I) as (I' & _ & _). cbn zeta in I'.
    rewrite hands_app, map_app, (IH _ _ _ _ _ I'), hands_tag.
    assert (Hl : zlen (y :: t) = zlen t + 1) by (unfold zlen; cbn [length]; lia). rewrite Hl.
    replace (n + (zlen t + 1)) with (n + 1 + zlen t) by lia.
    assert (Hw : forall q, hobs (map (fun g => @OWin A B g (Next y)) q) = []) by (induction q; auto).
    rewrite !hobs_app, Hw. cbn [app].
    assert (Hge : Z.of_nat nx - 1 <= (n + 1 + zlen t) / skip).
    { destruct I. apply Z.div_le_lower_bound; [lia|]. unfold zlen. nia. }
    destruct (n + 1 =? Z.of_nat nx * skip) eqn:Eo.
    + apply Z.eqb_eq in Eo.
      assert (Hge2 : Z.of_nat nx <= (n + 1 + zlen t) / skip).
      { apply Z.div_le_lower_bound; [lia|]. unfold zlen. nia. }
      destruct (n =? Z.of_nat lo * skip + count - 1); cbn [map hobs flat_map snd fst app];
        replace (Z.to_nat ((n + 1 + zlen t) / skip) + 1 - nx)%nat
          with (S (Z.to_nat ((n + 1 + zlen t) / skip) + 1 - S nx))%nat by lia; reflexivity.
    + destruct (n =? Z.of_nat lo * skip + count - 1); cbn [map hobs flat_map snd fst app]; reflexivity.
Qed.

(* THEOREM: the windows handed are 0 .. floor(len/skip), in order: window k is
   handed iff k*skip <= number of source elements *)
Theorem window_count_hands (xs : list A) (tm : term) :
  map fst (hands (fst (run all_imm M (src_events xs tm)))) = seq 0 (Z.to_nat (zlen xs / skip) + 1).
Proof.
  rewrite run_unfold. cbn [fst]. rewrite hands_app, map_app.
  assert (Es : start_state all_imm M = (WcSt 0 [0%nat] 1, wc_rstate 0 1)) by reflexivity.
  assert (Eo : start_obs all_imm M = [OHand 0%nat 0; OSub 0%nat]) by reflexivity.
  rewrite Es, Eo. cbn [fst snd]. rewrite (wc_hands_from tm xs _ 0 0%nat 1%nat 1%nat wc_inv0).
  cbn [map hands flat_map snd fst app]. replace (0 + zlen xs) with (zlen xs) by lia.
  replace (Z.to_nat (zlen xs / skip) + 1)%nat with (S (Z.to_nat (zlen xs / skip) + 1 - 1))%nat at 2 by lia.
  reflexivity.
Qed.
End Count.
