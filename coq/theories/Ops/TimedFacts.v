(* C15-C17: what the timed machines (Ops/Timed.v) do in the closed world of
   Ops/TimedSim.v -- for ALL timelines.  Part 1: operators that only read the
   clock (no timers): timestamp, time_interval, throttle_first,
   take_last_with_time, skip_last_with_time.  The theorems hold for arbitrary
   (also non-conforming, also non-monotone) event sequences on port 0 unless a
   hypothesis says otherwise. *)
From RxVerif Require Import Base.Prelude Ops.Machine Ops.Multi Ops.MultiFacts Ops.Timed Ops.TimedSim.

(* events of the main source at their instants *)
Definition ext_of {A} (es : list (Z * ev A)) : list (Z * inp A) :=
  map (fun te => (fst te, ISrc 0%nat (snd te))) es.
Lemma ext_of_cons {A} t (e : ev A) es : ext_of ((t, e) :: es) = (t, ISrc 0%nat e) :: ext_of es.
Proof. reflexivity. Qed.
Lemma ext_of_nil {A} : @ext_of A [] = [].
Proof. reflexivity. Qed.
Lemma ext_of_length {A} (es : list (Z * ev A)) : length (ext_of es) = length es.
Proof. apply map_length. Qed.
Arguments ext_of : simpl never.
Arguments sim_emits : simpl never.

(* a conforming source: elements, then a terminal (or none) *)
Definition tevents {A} (tl : list (Z * A)) (tm : tterm) : list (Z * ev A) :=
  map (fun tx => (fst tx, Next (snd tx))) tl ++
  match tm with
  | TTDone t => [(t, Done)]
  | TTErr t e => [(t, Err e)]
  | TTNever => []
  end.
Lemma tevents_cons {A} t (x : A) tl tm : tevents ((t, x) :: tl) tm = (t, Next x) :: tevents tl tm.
Proof. reflexivity. Qed.

Definition R0 := RState [0%nat] [] false.

Ltac sim_step :=
  rewrite sim_S; rewrite ?ext_of_cons; cbn [next_event earliest fst snd];
  unfold rstep; cbn; rewrite ?sim_emits_cons; cbn [emits flat_map map app].
Ltac sim_fin := cbn; rewrite ?sim_emits_cons; cbn [emits flat_map map app].

Lemma sim_nil {A B} (m : machine A B) fuel s r : sim m fuel s r [] [] = [].
Proof. destruct fuel; reflexivity. Qed.


Lemma filter_false {X} (l : list X) : filter (fun _ => false) l = [].
Proof. induction l; auto. Qed.
Lemma apply_cmds_map_emit {B X} (r : rstate) (g : X -> B) (l : list X) :
  apply_cmds r (map (fun x => CEmit (g x)) l) = (r, map (fun x => OEmit (Next (g x))) l).
Proof.
  induction l as [|x l IH]; [reflexivity|]. cbn [map apply_cmds]. rewrite IH. reflexivity.
Qed.
Lemma apply_cmds_emit_list {B} (r : rstate) (l : list B) :
  apply_cmds r (map CEmit l) = (r, map (fun x => OEmit (Next x)) l).
Proof. exact (apply_cmds_map_emit r (fun x => x) l). Qed.
Lemma emits_map_emit {B X} (g : X -> B) (l : list X) :
  emits (map (fun x => OEmit (Next (g x))) l) = map (fun x => Next (g x)) l.
Proof. induction l as [|x l IH]; [reflexivity|]. cbn. now rewrite <- IH. Qed.
Lemma emits_emit_list {B} (l : list B) : emits (map (fun x => OEmit (Next x)) l) = map Next l.
Proof. exact (emits_map_emit (fun x => x) l). Qed.

(* ------------------------------------------------------------------ C15 -- *)
Section Stamp.
Context {A : Type}.

(* elements are relabelled with a function of the clock and a running state;
   the first terminal ends the sequence *)
Fixpoint tmap {S B} (f : S -> Z -> A -> S * B) (s : S) (es : list (Z * ev A)) : list (Z * ev B) :=
  match es with
  | [] => []
  | (t, Next x) :: rest => let '(s', b) := f s t x in (t, Next b) :: tmap f s' rest
  | (t, Err e) :: _ => [(t, Err e)]
  | (t, Done) :: _ => [(t, Done)]
  end.

Lemma timestamp_sim : forall (es : list (Z * ev A)) fuel, (length es <= fuel)%nat ->
  sim_emits (sim x_timestamp fuel tt R0 [] (ext_of es)) = tmap (fun _ t x => (tt, (x, t))) tt es.
Proof.
  induction es as [|[t e] rest IH]; intros fuel Hf.
  - now rewrite ext_of_nil, sim_nil.
  - destruct fuel as [|f]; [cbn in Hf; lia|]. cbn [length] in Hf.
    destruct e as [x|e|]; sim_step.
    + f_equal. apply IH. lia.
    + f_equal. apply sim_stopped. reflexivity.
    + f_equal. apply sim_stopped. reflexivity.
Qed.

Lemma time_interval_sim t0 : forall (es : list (Z * ev A)) fuel last, (length es <= fuel)%nat ->
  sim_emits (sim (x_time_interval t0) fuel last R0 [] (ext_of es))
  = tmap (fun last t x => (t, (x, t - last))) last es.
Proof.
  induction es as [|[t e] rest IH]; intros fuel last Hf.
  - now rewrite ext_of_nil, sim_nil.
  - destruct fuel as [|f]; [cbn in Hf; lia|]. cbn [length] in Hf.
    destruct e as [x|e|]; sim_step.
    + f_equal. apply IH. lia.
    + f_equal. apply sim_stopped. reflexivity.
    + f_equal. apply sim_stopped. reflexivity.
Qed.

(* closed forms on a conforming source *)
Definition term_ev {B} (tm : tterm) : list (Z * ev B) :=
  match tm with TTDone t => [(t, Done)] | TTErr t e => [(t, Err e)] | TTNever => [] end.

Lemma tmap_tevents {S B} (f : S -> Z -> A -> S * B) : forall tl s tm,
  tmap f s (tevents tl tm) =
  (fix go s tl := match tl with
                  | [] => []
                  | (t, x) :: r => let '(s', b) := f s t x in (t, Next b) :: go s' r
                  end) s tl ++ term_ev tm.
Proof.
  induction tl as [|[t x] r IH]; intros s tm.
  - destruct tm; reflexivity.
  - rewrite tevents_cons. cbn [tmap]. destruct (f s t x) as [s' b]. rewrite IH. reflexivity.
Qed.
End Stamp.

(* the subscription itself: what [simulate] does before the first input *)
Lemma simulate_unfold {A B} (m : machine A B) t0 ext :
  simulate m t0 ext = simulate_fuel m (3 * length ext + 4) t0 ext.
Proof. reflexivity. Qed.

Section StampTop.
Context {A : Type}.

Theorem timestamp_spec t0 (tl : list (Z * A)) tm :
  timed_emits t0 (simulate x_timestamp t0 (ext_of (tevents tl tm)))
  = map (fun tx => (fst tx, Next (snd tx, fst tx))) tl ++ term_ev tm.
Proof.
  unfold simulate, simulate_fuel, timed_emits. cbn [x_start x_timestamp apply_cmds finish fst snd app emits flat_map map].
  change (upd [] t0 [OSub 0%nat] (RState [0%nat] [] false)) with (@nil (nat * Z)).
  rewrite timestamp_sim by (rewrite ext_of_length; lia).
  rewrite tmap_tevents. f_equal.
  induction tl as [|[t x] r IH]; [reflexivity|]. cbn [map fst snd]. now rewrite IH.
Qed.

(* time since the previous element, or since the subscription (t0) *)
Fixpoint intervals (last : Z) (tl : list (Z * A)) : list (Z * ev (A * Z)) :=
  match tl with
  | [] => []
  | (t, x) :: r => (t, Next (x, t - last)) :: intervals t r
  end.

Theorem time_interval_spec t0 (tl : list (Z * A)) tm :
  timed_emits t0 (simulate (x_time_interval t0) t0 (ext_of (tevents tl tm)))
  = intervals t0 tl ++ term_ev tm.
Proof.
  unfold simulate, simulate_fuel, timed_emits.
  cbn [x_start x_time_interval apply_cmds finish fst snd app emits flat_map map].
  change (upd [] t0 [OSub 0%nat] (RState [0%nat] [] false)) with (@nil (nat * Z)).
  rewrite time_interval_sim by (rewrite ext_of_length; lia).
  rewrite tmap_tevents. reflexivity.
Qed.
End StampTop.

(* strongly sorted by instant *)
Fixpoint tsorted {X} (l : list (Z * X)) : Prop :=
  match l with
  | [] => True
  | (t, _) :: r => Forall (fun y => t <= fst y) r /\ tsorted r
  end.

Lemma tsorted_app_r {X} (p s : list (Z * X)) : tsorted (p ++ s) -> tsorted s.
Proof. induction p as [|[t x] p IH]; [auto|]. cbn. intros [_ H]. auto. Qed.

(* ------------------------------------------------------------------ C16 -- *)
Section ThrottleFirst.
Context {A : Type}.

(* the greedy subsequence: an element passes iff it is the first one or at
   least [w] after the last one that PASSED *)
Fixpoint tf_spec (w : Z) (last : option Z) (es : list (Z * ev A)) : list (Z * ev A) :=
  match es with
  | [] => []
  | (t, Next x) :: rest =>
      if match last with None => true | Some l => w <=? t - l end
      then (t, Next x) :: tf_spec w (Some t) rest else tf_spec w last rest
  | (t, e) :: _ => [(t, e)]
  end.

Lemma tf_sim w : forall es fuel last, (length es <= fuel)%nat ->
  sim_emits (sim (x_throttle_first w) fuel last R0 [] (ext_of es)) = tf_spec w last es.
Proof.
  induction es as [|[t e] rest IH]; intros fuel last Hf.
  - now rewrite ext_of_nil, sim_nil.
  - destruct fuel as [|f]; [cbn in Hf; lia|]. cbn [length] in Hf.
    destruct e as [x|e|]; sim_step.
    + destruct (match last with None => true | Some l => w <=? t - l end) eqn:E; sim_fin.
      * f_equal. apply IH. lia.
      * apply IH. lia.
    + f_equal. apply sim_stopped. reflexivity.
    + f_equal. apply sim_stopped. reflexivity.
Qed.

Theorem throttle_first_spec t0 w (es : list (Z * ev A)) :
  timed_emits t0 (simulate (x_throttle_first w) t0 (ext_of es)) = tf_spec w None es.
Proof.
  unfold simulate, simulate_fuel, timed_emits.
  cbn [x_start x_throttle_first apply_cmds finish fst snd app emits flat_map map].
  change (upd [] t0 [OSub 0%nat] (RState [0%nat] [] false)) with (@nil (nat * Z)).
  apply tf_sim. rewrite ext_of_length. lia.
Qed.

(* consecutive emitted elements are at least [w] apart *)
Fixpoint gaps_ok (w : Z) (last : option Z) (out : list (Z * ev A)) : Prop :=
  match out with
  | [] => True
  | (t, Next _) :: rest => match last with None => True | Some l => w <= t - l end /\ gaps_ok w (Some t) rest
  | _ :: rest => gaps_ok w last rest
  end.

Lemma tf_spec_gaps w : forall es last, gaps_ok w last (tf_spec w last es).
Proof.
  induction es as [|[t e] rest IH]; intros last; [exact I|].
  destruct e as [x|e|]; cbn [tf_spec]; [|cbn; auto|cbn; auto].
  destruct (match last with None => true | Some l => w <=? t - l end) eqn:E; [|apply IH].
  cbn [gaps_ok]. split; [|apply IH]. destruct last; [lia|exact I].
Qed.

(* an element that does not pass arrived less than [w] after the last one that passed:
   (statement on the spec function, one step) *)
Lemma tf_spec_dropped w l t (x : A) rest :
  t - l < w -> tf_spec w (Some l) ((t, Next x) :: rest) = tf_spec w (Some l) rest.
Proof. intros H. cbn [tf_spec]. destruct (w <=? t - l) eqn:E; [lia|reflexivity]. Qed.
End ThrottleFirst.

(* ------------------------------------------------------------------ C17 -- *)
Section LastWithTime.
Context {A : Type}.

Definition aged (T d : Z) (tx : Z * A) : bool := d <=? T - fst tx.
Definition young (T d : Z) (tx : Z * A) : bool := T - fst tx <? d.

Lemma young_aged T d tx : young T d tx = negb (aged T d tx).
Proof. unfold young, aged. destruct (T - fst tx <? d) eqn:E1, (d <=? T - fst tx) eqn:E2; try reflexivity; lia. Qed.

(* trim_head keeps a suffix; everything dropped was aged *)
Lemma trim_head_split now d : forall q : list (Z * A),
  exists p, q = p ++ trim_head now d q /\ Forall (fun tx => aged now d tx = true) p.
Proof.
  induction q as [|[t x] r IH]; [exists []; split; [reflexivity|constructor]|].
  cbn [trim_head]. destruct (d <=? now - t) eqn:E.
  - destruct IH as [p [Hq Hp]]. exists ((t, x) :: p). split; [cbn; now rewrite <- Hq|].
    constructor; [exact E|exact Hp].
  - exists []. split; [reflexivity|constructor].
Qed.

Lemma filter_none {X} (f : X -> bool) l : Forall (fun x => f x = false) l -> filter f l = [].
Proof. induction 1 as [|x l Hx _ IH]; [reflexivity|]. cbn. now rewrite Hx. Qed.
Lemma filter_all {X} (f : X -> bool) l : Forall (fun x => f x = true) l -> filter f l = l.
Proof. induction 1 as [|x l Hx _ IH]; [reflexivity|]. cbn. now rewrite Hx, IH. Qed.

Lemma aged_mono T u d (tx : Z * A) : u <= T -> aged u d tx = true -> aged T d tx = true.
Proof. unfold aged. intros. destruct (d <=? u - fst tx) eqn:E1; [|discriminate]. destruct (d <=? T - fst tx) eqn:E2; [reflexivity|lia]. Qed.

Definition at_time (T : Z) (l : list (Z * A)) : list (Z * ev A) := map (fun tx => (T, Next (snd tx))) l.

Definition tlast_out (keep : Z -> Z -> bool) (d : Z) (q : list (Z * A)) (tm : tterm) : list (Z * ev A) :=
  match tm with
  | TTDone T => at_time T (filter (fun tx => keep (T - fst tx) d) q) ++ [(T, Done)]
  | TTErr t e => [(t, Err e)]
  | TTNever => []
  end.

Definition tm_time (tm : tterm) (dflt : Z) : Z :=
  match tm with TTDone t | TTErr t _ => t | TTNever => dflt end.

(* from any queue state; all remaining elements arrive not after the completion *)
Lemma take_last_sim d : forall (tl : list (Z * A)) tm fuel q,
  (length tl + 1 <= fuel)%nat ->
  (forall T, tm = TTDone T -> Forall (fun tx => fst tx <= T) tl) ->
  sim_emits (sim (x_take_last_with_time d) fuel q R0 [] (ext_of (tevents tl tm)))
  = tlast_out Z.ltb d (q ++ tl) tm.
Proof.
  induction tl as [|[u x] rest IH]; intros tm fuel q Hf Hle.
  - destruct fuel as [|f]; [cbn in Hf; lia|]. rewrite app_nil_r.
    destruct tm as [T|t e|]; cbn [tevents map app].
    + sim_step. rewrite apply_cmds_map_emit. sim_fin. rewrite sim_stopped by reflexivity.
      rewrite app_nil_r, emits_app, emits_map_emit, map_app. unfold at_time. rewrite map_map. reflexivity.
    + sim_step. rewrite sim_stopped by reflexivity. reflexivity.
    + now rewrite ext_of_nil, sim_nil.
  - destruct fuel as [|f]; [cbn in Hf; lia|]. cbn [length] in Hf.
    rewrite tevents_cons. sim_step.
    rewrite IH; [|lia|intros T HT; specialize (Hle T HT); now inversion Hle].
    destruct tm as [T|t e|]; cbn [tlast_out]; [|reflexivity|reflexivity].
    f_equal. f_equal.
    destruct (trim_head_split u d (q ++ [(u, x)])) as [p [Hq Hp]].
    replace (q ++ (u, x) :: rest) with ((q ++ [(u, x)]) ++ rest) by (rewrite <- app_assoc; reflexivity).
    rewrite Hq at 2. rewrite <- app_assoc. rewrite (filter_app _ p).
    rewrite (filter_none _ p); [reflexivity|].
    specialize (Hle T eq_refl). inversion Hle as [|? ? HuT _]; subst. cbn [fst] in HuT.
    eapply Forall_impl; [|exact Hp]. intros tx Ha. cbn beta.
    pose proof (aged_mono T u d tx HuT Ha) as H2. unfold aged in H2.
    destruct (T - fst tx <? d) eqn:E; [|reflexivity]. destruct (d <=? T - fst tx) eqn:E2; [lia|discriminate].
Qed.

Theorem take_last_with_time_spec t0 d (tl : list (Z * A)) tm :
  (forall T, tm = TTDone T -> Forall (fun tx => fst tx <= T) tl) ->
  timed_emits t0 (simulate (x_take_last_with_time d) t0 (ext_of (tevents tl tm)))
  = tlast_out Z.ltb d tl tm.
Proof.
  intros H. unfold simulate, simulate_fuel, timed_emits.
  cbn [x_start x_take_last_with_time x_take_last_with_time_gen apply_cmds finish fst snd app emits flat_map map].
  change (upd [] t0 [OSub 0%nat] (RState [0%nat] [] false)) with (@nil (nat * Z)).
  change (@nil (Z * A)) with (@nil (Z * A)).
  rewrite (take_last_sim d tl tm _ []); [reflexivity| |exact H].
  rewrite ext_of_length. unfold tevents. rewrite app_length, map_length. lia.
Qed.

(* the fate of an element is a function of (its instant, completion instant, duration) only *)
Corollary take_last_with_time_boundary_independent t0 d (tl : list (Z * A)) T x :
  Forall (fun tx => fst tx <= T) tl ->
  (In (T, Next x) (timed_emits t0 (simulate (x_take_last_with_time d) t0 (ext_of (tevents tl (TTDone T)))))
   <-> exists t, In (t, x) tl /\ T - t < d).
Proof.
  intros H. rewrite take_last_with_time_spec by (intros T' HT; injection HT as <-; exact H).
  cbn [tlast_out]. rewrite in_app_iff. unfold at_time. rewrite in_map_iff. split.
  - intros [[[t y] [Heq Hin]]|[Heq|[]]]; [|discriminate].
    injection Heq as <-. apply filter_In in Hin. destruct Hin as [Hin Hy]. cbn [fst snd] in *.
    exists t. split; [exact Hin|lia].
  - intros [t [Hin Hlt]]. left. exists (t, x). split; [reflexivity|].
    apply filter_In. split; [exact Hin|]. cbn [fst]. lia.
Qed.

(* pop_aged: the maximal aged prefix *)
Lemma pop_aged_split now d : forall q : list (Z * A),
  exists p s, q = p ++ s /\ pop_aged now d q = (map snd p, s)
              /\ Forall (fun tx => aged now d tx = true) p
              /\ match s with [] => True | tx :: _ => aged now d tx = false end.
Proof.
  induction q as [|[t x] r IH]; [exists [], []; repeat split; constructor|].
  cbn [pop_aged]. destruct (d <=? now - t) eqn:E.
  - destruct IH as [p [s [Hq [Hp [Ha Hs]]]]]. exists ((t, x) :: p), s. rewrite Hp. subst r.
    repeat split; [constructor; [exact E|exact Ha]|exact Hs].
  - exists [], ((t, x) :: r). repeat split; [constructor|exact E].
Qed.

Definition vals (l : list (Z * ev A)) : list (ev A) := map snd l.

Lemma young_tail T d t (x : A) s : aged T d (t, x) = false -> Forall (fun y => t <= fst y) s ->
  Forall (fun y => aged T d y = false) s.
Proof.
  intros H Hs. eapply Forall_impl; [|exact Hs]. intros y Hy. unfold aged in *. cbn [fst] in *.
  destruct (d <=? T - t) eqn:E1; [discriminate|]. destruct (d <=? T - fst y) eqn:E2; [lia|reflexivity].
Qed.

(* sorted timeline, completion not before the last element: by the completion
   exactly the elements aged >= d have been emitted, in order *)
Lemma skip_last_sim d : forall (tl : list (Z * A)) T fuel q,
  (length tl + 1 <= fuel)%nat -> tsorted (q ++ tl) -> Forall (fun tx => fst tx <= T) tl ->
  vals (sim_emits (sim (x_skip_last_with_time d) fuel q R0 [] (ext_of (tevents tl (TTDone T)))))
  = map (fun tx => Next (snd tx)) (filter (aged T d) (q ++ tl)) ++ [Done].
Proof.
  induction tl as [|[u x] rest IH]; intros T fuel q Hf Hs Hle.
  - destruct fuel as [|f]; [cbn in Hf; lia|]. rewrite app_nil_r in *. cbn [tevents map app].
    rewrite sim_S, ext_of_cons. cbn [next_event earliest fst snd]. unfold rstep. cbn.
    destruct (pop_aged_split T d q) as [p [s [Hq [Hp [Ha Hy]]]]]. rewrite Hp.
    rewrite apply_cmds_emit_list. sim_fin.
    rewrite sim_stopped by reflexivity. rewrite app_nil_r. unfold vals.
    subst q. rewrite filter_app, (filter_all _ p Ha).
    assert (Hn : filter (aged T d) s = []).
    { destruct s as [|[t y] s']; [reflexivity|]. apply filter_none. constructor; [exact Hy|].
      apply tsorted_app_r in Hs. cbn in Hs. destruct Hs as [Hs _]. exact (young_tail T d t y s' Hy Hs). }
    rewrite Hn, app_nil_r.
    rewrite emits_app, emits_emit_list, !map_app, !map_map. reflexivity.
  - destruct fuel as [|f]; [cbn in Hf; lia|]. cbn [length] in Hf.
    rewrite tevents_cons, sim_S, ext_of_cons. cbn [next_event earliest fst snd]. unfold rstep. cbn.
    destruct (pop_aged_split u d (q ++ [(u, x)])) as [p [s [Hq [Hp [Ha Hy]]]]]. rewrite Hp.
    rewrite apply_cmds_emit_list. sim_fin. rewrite app_nil_r.
    unfold vals in *. rewrite map_app, filter_false.
    assert (Hsort : tsorted (s ++ rest)).
    { replace (q ++ (u, x) :: rest) with ((q ++ [(u, x)]) ++ rest) in Hs by (rewrite <- app_assoc; reflexivity).
      rewrite Hq, <- app_assoc in Hs. exact (tsorted_app_r _ _ Hs). }
    inversion Hle as [|? ? HuT Hrest]; subst. cbn [fst] in HuT.
    rewrite IH; [|lia|exact Hsort|exact Hrest].
    replace (q ++ (u, x) :: rest) with ((q ++ [(u, x)]) ++ rest) by (rewrite <- app_assoc; reflexivity).
    rewrite Hq, <- app_assoc, (filter_app _ p), map_app, <- app_assoc. f_equal.
    rewrite filter_all; [|eapply Forall_impl; [|exact Ha]; intros tx; apply aged_mono; exact HuT].
    rewrite emits_emit_list, !map_map. reflexivity.
Qed.

Theorem skip_last_with_time_spec t0 d (tl : list (Z * A)) T :
  tsorted tl -> Forall (fun tx => fst tx <= T) tl ->
  vals (timed_emits t0 (simulate (x_skip_last_with_time d) t0 (ext_of (tevents tl (TTDone T)))))
  = map (fun tx => Next (snd tx)) (filter (aged T d) tl) ++ [Done].
Proof.
  intros Hs H. unfold simulate, simulate_fuel, timed_emits.
  cbn [x_start x_skip_last_with_time apply_cmds finish fst snd app emits flat_map map].
  change (upd [] t0 [OSub 0%nat] (RState [0%nat] [] false)) with (@nil (nat * Z)).
  rewrite (skip_last_sim d tl T _ []); [reflexivity| |exact Hs|exact H].
  rewrite ext_of_length. unfold tevents. rewrite app_length, map_length. cbn. lia.
Qed.
End LastWithTime.

(* the code before proposed_fixes/C17-take-last-with-time-boundary.diff (`<=` at
   completion, `>=` when trimming): the element aged exactly the duration at
   completion is emitted when it is alone and dropped when an unrelated element
   arrives at the completion instant *)
Theorem take_last_with_time_orig_boundary_refuted :
  In (10, Next 1) (timed_emits 0 (simulate (x_take_last_with_time_orig 10) 0
                                   (ext_of (tevents [(0, 1)] (TTDone 10)))))
  /\ ~ In (10, Next 1) (timed_emits 0 (simulate (x_take_last_with_time_orig 10) 0
                                        (ext_of (tevents [(0, 1); (10, 2)] (TTDone 10))))).
Proof.
  split.
  - vm_compute. left. reflexivity.
  - vm_compute. intros [H|[H|[]]]; discriminate.
Qed.
