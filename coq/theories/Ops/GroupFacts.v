(* C19: facts about group_by / group_by_until (machine of Ops/Groups.v) and
   partition, for EVERY state (hence every input history) and every callback:
   - a new group is handed exactly when the key has no live writer -- the first
     time it is seen, or again after its group expired;
   - an element goes to exactly one group: the group of its key;
   - the source's terminal ends every open group with its kind, and the outer;
   - a raising key / element / duration callback, and a failing duration
     observable, error every open group and the outer;
   - partition: an element is delivered to the subscribers of exactly one of the
     two outputs, chosen by the predicate; the source is subscribed iff some
     output subscriber is live. *)
From RxVerif Require Import Base.Prelude Ops.Machine Ops.MultiWin Ops.MultiWinFacts Ops.Groups.

Lemma NoDup_app_snoc {X} (l : list X) x : NoDup l -> ~ In x l -> NoDup (l ++ [x]).
Proof.
  induction 1 as [|y t Hy Ht IH]; intros Hx; cbn [app]; [constructor; [auto|constructor]|].
  constructor.
  - intros Hin. apply in_app_or in Hin. destruct Hin as [Hin|[<-|[]]]; [contradiction|].
    apply Hx. left. reflexivity.
  - apply IH. intros Hin. apply Hx. right. exact Hin.
Qed.

Section Group.
Context {A W B : Type}.
Variables (key : A -> res Z) (elem : A -> res W) (dur : nat -> res bool).
Notation M := (x_group_by_until (B:=B) key elem dur).

Definition gwin_nexts (cs : list (cmd W B)) : list (nat * W) :=
  flat_map (fun c => match c with CWin g (Next x) => [(g, x)] | _ => [] end) cs.
Definition ghands (cs : list (cmd W B)) : list (nat * Z) :=
  flat_map (fun c => match c with CHand g k => [(g, k)] | _ => [] end) cs.

(* the key has a live writer: the element goes there and nowhere else, no group is handed *)
Theorem group_existing s now (x : A) k g y :
  key x = Ok k -> gb_lookup k (gb_writers s) = Some g -> elem x = Ok y ->
  x_step M s now (ISrc 0%nat (Next x)) = (s, [CWin g (Next y)], Cont).
Proof. intros Hk Hl He. cbn [x_step x_group_by_until]. unfold gb_on_next. now rewrite Hk, Hl, He. Qed.

(* the key has no live writer: a new group (fresh id) is handed with that key,
   its duration is subscribed, and the element goes to the new group and nowhere else *)
Theorem group_new s now (x : A) k hot y :
  key x = Ok k -> gb_lookup k (gb_writers s) = None -> dur (gb_calls s) = Ok hot -> elem x = Ok y ->
  x_step M s now (ISrc 0%nat (Next x))
  = (GbSt (gb_writers s ++ [(k, gb_next s, if hot then S (gb_calls s) else 0%nat)]) (S (gb_next s)) (S (gb_calls s)),
     CHand (gb_next s) k :: (if hot then [CSub (S (gb_calls s))] else []) ++ [CWin (gb_next s) (Next y)], Cont).
Proof.
  intros Hk Hl Hd He. cbn [x_step x_group_by_until]. unfold gb_on_next. rewrite Hk, Hl, Hd, He. reflexivity.
Qed.

(* a group is handed iff the key has no live writer (and the duration mapper does not raise) *)
Theorem group_new_iff s now (x : A) k :
  key x = Ok k ->
  (ghands (snd (fst (x_step M s now (ISrc 0%nat (Next x))))) <> []
   <-> gb_lookup k (gb_writers s) = None /\ exists hot, dur (gb_calls s) = Ok hot).
Proof.
  intros Hk. cbn [x_step x_group_by_until]. unfold gb_on_next. rewrite Hk.
  destruct (gb_lookup k (gb_writers s)) as [g|] eqn:El.
  - split; [|intros [H _]; discriminate].
    destruct (elem x); cbn [fst snd ghands flat_map].
    + intros H. contradiction.
    + unfold gb_all. intros H. exfalso. apply H. induction (gb_groups (gb_writers s)); auto.
  - destruct (dur (gb_calls s)) as [hot|e] eqn:Ed.
    + split; [intros _; eauto|]. intros _. destruct (elem x); cbn; discriminate.
    + split; [|intros [_ [h Hh]]; discriminate].
      cbn [fst snd]. unfold gb_all. intros H. exfalso. apply H.
      induction (gb_groups (gb_writers s ++ [(k, gb_next s, 0%nat)])); auto.
Qed.

(* every element that is routed at all goes to exactly one group *)
Theorem group_route_one s now (x : A) :
  snd (x_step M s now (ISrc 0%nat (Next x))) = Cont ->
  exists g y, gwin_nexts (snd (fst (x_step M s now (ISrc 0%nat (Next x))))) = [(g, y)]
              /\ elem x = Ok y
              /\ exists k, key x = Ok k
                 /\ g = match gb_lookup k (gb_writers s) with Some g0 => g0 | None => gb_next s end.
Proof.
  cbn [x_step x_group_by_until]. unfold gb_on_next.
  destruct (key x) as [k|e] eqn:Hk; [|discriminate].
  destruct (gb_lookup k (gb_writers s)) as [g|] eqn:El.
  - destruct (elem x) as [y|e] eqn:He; [|discriminate]. intros _. exists g, y. cbn. repeat split. exists k. rewrite El. auto.
  - destruct (dur (gb_calls s)) as [hot|e] eqn:Ed; [|discriminate].
    destruct (elem x) as [y|e] eqn:He; [|discriminate]. intros _. exists (gb_next s), y.
    split; [destruct hot; reflexivity|]. split; [reflexivity|]. exists k. rewrite El. auto.
Qed.

(* the source's terminal *)
Theorem group_source_done s now :
  x_step M s now (ISrc 0%nat Done) = (s, gb_all (gb_writers s) Done, Complete).
Proof. reflexivity. Qed.
Theorem group_source_error s now k e :
  x_step M s now (ISrc k (Err e)) = (s, gb_all (gb_writers s) (Err e), Fail e).
Proof. destruct k; reflexivity. Qed.

(* raising callbacks: every open group (the one just created included) and the outer get the error *)
Theorem group_key_raises s now (x : A) e :
  key x = Raise e -> x_step M s now (ISrc 0%nat (Next x)) = (s, gb_all (gb_writers s) (Err e), Fail e).
Proof. intros H. cbn [x_step x_group_by_until]. unfold gb_on_next. now rewrite H. Qed.

Theorem group_elem_raises_existing s now (x : A) k g e :
  key x = Ok k -> gb_lookup k (gb_writers s) = Some g -> elem x = Raise e ->
  x_step M s now (ISrc 0%nat (Next x)) = (s, gb_all (gb_writers s) (Err e), Fail e).
Proof. intros Hk Hl He. cbn [x_step x_group_by_until]. unfold gb_on_next. now rewrite Hk, Hl, He. Qed.

Theorem group_elem_raises_new s now (x : A) k hot e :
  key x = Ok k -> gb_lookup k (gb_writers s) = None -> dur (gb_calls s) = Ok hot -> elem x = Raise e ->
  let ws := gb_writers s ++ [(k, gb_next s, if hot then S (gb_calls s) else 0%nat)] in
  x_step M s now (ISrc 0%nat (Next x))
  = (GbSt ws (S (gb_next s)) (S (gb_calls s)),
     CHand (gb_next s) k :: (if hot then [CSub (S (gb_calls s))] else []) ++ gb_all ws (Err e), Fail e).
Proof.
  intros Hk Hl Hd He. cbn [x_step x_group_by_until]. unfold gb_on_next. rewrite Hk, Hl, Hd, He. reflexivity.
Qed.

Theorem group_dur_raises s now (x : A) k e :
  key x = Ok k -> gb_lookup k (gb_writers s) = None -> dur (gb_calls s) = Raise e ->
  x_step M s now (ISrc 0%nat (Next x))
  = (GbSt (gb_writers s ++ [(k, gb_next s, 0%nat)]) (S (gb_next s)) (S (gb_calls s)),
     gb_all (gb_writers s ++ [(k, gb_next s, 0%nat)]) (Err e), Fail e).
Proof. intros Hk Hl Hd. cbn [x_step x_group_by_until]. unfold gb_on_next. now rewrite Hk, Hl, Hd. Qed.

(* expiry: the first notification of a group's duration observable completes
   that group -- and only it -- and forgets its key *)
Theorem group_expire s now d (e : ev A) k g :
  (forall z, e <> Err z) -> gb_by_dur (S d) (gb_writers s) = Some (k, g) ->
  x_step M s now (ISrc (S d) e)
  = (GbSt (gb_del k (gb_writers s)) (gb_next s) (gb_calls s), [CWin g Done; CUnsub (S d)], Cont).
Proof.
  intros He Hd. cbn [x_step x_group_by_until].
  destruct e as [x|z|]; [| exfalso; eapply He; reflexivity |]; rewrite Hd; reflexivity.
Qed.

(* invariant of the writers table: keys are unique (it is a dict), group ids and
   duration sources are fresh *)
Definition gb_keys (l : list (Z * nat * nat)) : list Z := map (fun w => fst (fst w)) l.
Definition gb_inv (s : gb_st) : Prop :=
  NoDup (gb_keys (gb_writers s))
  /\ (forall k g c, In (k, g, c) (gb_writers s) -> (g < gb_next s)%nat /\ (c <= gb_calls s)%nat).

Lemma gb_lookup_none k l : gb_lookup k l = None <-> ~ In k (gb_keys l).
Proof.
  induction l as [|[[j g] c] t IH]; [cbn; tauto|]. cbn [gb_lookup gb_keys map fst In].
  destruct (Z.eqb_spec j k) as [->|Hne]; [split; [discriminate|intros H; exfalso; apply H; left; reflexivity]|].
  rewrite IH. unfold gb_keys. tauto.
Qed.

Lemma gb_del_keys k l : NoDup (gb_keys l) -> NoDup (gb_keys (gb_del k l)) /\ ~ In k (gb_keys (gb_del k l)).
Proof.
  induction l as [|[[j g] c] t IH]; intros Hnd; [split; [constructor|auto]|].
  cbn [gb_keys map fst] in Hnd. inversion Hnd as [|? ? Hj Ht]; subst. fold (gb_keys t) in *.
  cbn [gb_del]. destruct (Z.eqb_spec j k) as [->|Hne]; [split; assumption|].
  destruct (IH Ht) as [IH1 IH2]. cbn [gb_keys map fst]. fold (gb_keys (gb_del k t)). split.
  - constructor; [|exact IH1]. intros Hin. apply Hj.
    clear - Hin. induction t as [|[[i g'] c'] t IHt]; [destruct Hin|]. cbn [gb_del] in Hin.
    destruct (Z.eqb_spec i k); cbn [gb_keys map fst In] in *; [right; exact Hin|].
    destruct Hin as [H|H]; [left; exact H|right; apply IHt; exact H].
  - intros [H|H]; [congruence|auto].
Qed.

Lemma gb_del_in k l x : In x (gb_del k l) -> In x l.
Proof.
  induction l as [|[[j g] c] t IH]; [auto|]. cbn [gb_del]. destruct (j =? k); cbn [In]; intuition.
Qed.

(* seen again after its group expired: the key has no writer any more, so the
   next element with that key gets a NEW group *)
Theorem group_recreate_after_expiry s now d (e : ev A) k g :
  gb_inv s -> (forall z, e <> Err z) -> gb_by_dur (S d) (gb_writers s) = Some (k, g) ->
  gb_lookup k (gb_writers (fst (fst (x_step M s now (ISrc (S d) e))))) = None.
Proof.
  intros [Hnd _] He Hd. rewrite (group_expire s now d e k g He Hd). cbn [fst gb_writers].
  apply gb_lookup_none. apply gb_del_keys. exact Hnd.
Qed.

Theorem gb_inv_step s now i : gb_inv s -> gb_inv (fst (fst (x_step M s now i))).
Proof.
  intros [Hnd Hfr].
  assert (Hnew : forall k c, gb_lookup k (gb_writers s) = None -> (c <= S (gb_calls s))%nat ->
            gb_inv (GbSt (gb_writers s ++ [(k, gb_next s, c)]) (S (gb_next s)) (S (gb_calls s)))).
  { intros k c Hl Hc. split; cbn [gb_writers gb_next gb_calls].
    - unfold gb_keys. rewrite map_app. cbn [map fst]. apply NoDup_app_snoc; [exact Hnd|].
      apply gb_lookup_none. exact Hl.
    - intros k' g' c' Hin. apply in_app_or in Hin. destruct Hin as [Hin|[Heq|[]]].
      + destruct (Hfr _ _ _ Hin). lia.
      + injection Heq as <- <- <-. lia. }
  destruct i as [j [x|z|]|tag| | |]; cbn [x_step x_group_by_until]; try (split; assumption).
  - destruct j as [|d].
    + unfold gb_on_next. destruct (key x) as [k|e]; [|split; assumption].
      destruct (gb_lookup k (gb_writers s)) as [g|] eqn:El.
      * destruct (elem x); split; assumption.
      * destruct (dur (gb_calls s)) as [hot|e].
        -- destruct (elem x); cbn [fst]; apply Hnew; auto; destruct hot; lia.
        -- cbn [fst]. apply Hnew; auto. lia.
    + destruct (gb_by_dur (S d) (gb_writers s)) as [[k g]|]; cbn [fst]; [|split; assumption].
      split; cbn [gb_writers gb_next gb_calls].
      * apply gb_del_keys. exact Hnd.
      * intros k' g' c' Hin. apply (Hfr k' g' c'). eapply gb_del_in. exact Hin.
  - destruct j; split; assumption.
  - destruct j as [|d]; [split; assumption|].
    destruct (gb_by_dur (S d) (gb_writers s)) as [[k g]|]; cbn [fst]; [|split; assumption].
    split; cbn [gb_writers gb_next gb_calls].
    + apply gb_del_keys. exact Hnd.
    + intros k' g' c' Hin. apply (Hfr k' g' c'). eapply gb_del_in. exact Hin.
Qed.

Theorem gb_inv_always (imm : nat -> bool) (ins : list (Z * inp A)) :
  gb_inv (fst (after imm M (fst (start_state imm M)) (snd (start_state imm M)) ins)).
Proof.
  apply (after_state_inv imm M gb_inv).
  - intros s now i. apply gb_inv_step.
  - split; [constructor|intros k g c []].
Qed.
End Group.
