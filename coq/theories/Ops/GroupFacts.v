(* C19: facts about group_by / group_by_until (machine of Ops/Groups.v) and
   partition, for EVERY state (hence every input history) and every callback:
   - a new group is handed exactly when the key has no live writer -- the first
     time it is seen, or again after its group expired;
   - an element goes to exactly one group: the group of its key;
   - the source's terminal ends every open group with its kind, and the outer;
   - a raising key / element / duration callback, and a failing duration
     observable, error every open group and the outer;
   - partition: an element is delivered to the subscribers of exactly one of the
     two outputs, chosen by the predicate; the source is subscribed iff some
     output subscriber is live. *)
From RxVerif Require Import Base.Prelude Ops.Machine Ops.MultiWin Ops.MultiWinFacts Ops.Groups.

Lemma NoDup_app_snoc {X} (l : list X) x : NoDup l -> ~ In x l -> NoDup (l ++ [x]).
Proof.
  induction 1 as [|y t Hy Ht IH]; intros Hx; cbn [app]; [constructor; [auto|constructor]|].
  constructor.
  - intros Hin. apply in_app_or in Hin. destruct Hin as [Hin|[<-|[]]]; [contradiction|].
    apply Hx. left. reflexivity.
  - apply IH. intros Hin. apply Hx. right. exact Hin.
Qed.

Definition gb_keys (l : list (Z * nat * nat)) : list Z := map (fun w => fst (fst w)) l.

Lemma gb_lookup_none k l : gb_lookup k l = None <-> ~ In k (gb_keys l).
Proof.
  induction l as [|[[j g] c] t IH]; [cbn; tauto|]. cbn [gb_lookup gb_keys map fst In].
  destruct (Z.eqb_spec j k) as [->|Hne]; [split; [discriminate|intros H; exfalso; apply H; left; reflexivity]|].
  rewrite IH. unfold gb_keys. tauto.
Qed.

Lemma gb_del_keys k l : NoDup (gb_keys l) -> NoDup (gb_keys (gb_del k l)) /\ ~ In k (gb_keys (gb_del k l)).
Proof.
  induction l as [|[[j g] c] t IH]; intros Hnd; [split; [constructor|auto]|].
  cbn [gb_keys map fst] in Hnd. inversion Hnd as [|? ? Hj Ht]; subst. fold (gb_keys t) in *.
  cbn [gb_del]. destruct (Z.eqb_spec j k) as [->|Hne]; [split; assumption|].
  destruct (IH Ht) as [IH1 IH2]. cbn [gb_keys map fst]. fold (gb_keys (gb_del k t)). split.
  - constructor; [|exact IH1]. intros Hin. apply Hj.
    clear - Hin. induction t as [|[[i g'] c'] t IHt]; [destruct Hin|]. cbn [gb_del] in Hin.
    destruct (Z.eqb_spec i k); cbn [gb_keys map fst In] in *; [right; exact Hin|].
    destruct Hin as [H|H]; [left; exact H|right; apply IHt; exact H].
  - intros [H|H]; [congruence|auto].
Qed.

Lemma gb_del_in k l x : In x (gb_del k l) -> In x l.
Proof.
  induction l as [|[[j g] c] t IH]; [auto|]. cbn [gb_del]. destruct (j =? k); cbn [In]; intuition.
Qed.


Section Group.
Context {A W B : Type}.
Variables (key : A -> res Z) (elem : A -> res W) (dur : nat -> res bool).
Notation M := (x_group_by_until (B:=B) key elem dur).

Definition gwin_nexts (cs : list (cmd W B)) : list (nat * W) :=
  flat_map (fun c => match c with CWin g (Next x) => [(g, x)] | _ => [] end) cs.
Definition ghands (cs : list (cmd W B)) : list (nat * Z) :=
  flat_map (fun c => match c with CHand g k => [(g, k)] | _ => [] end) cs.

(* the key has a live writer: the element goes there and nowhere else, no group is handed *)
Theorem group_existing s now (x : A) k g y :
  key x = Ok k -> gb_lookup k (gb_writers s) = Some g -> elem x = Ok y ->
  x_step M s now (ISrc 0%nat (Next x)) = (s, [CWin g (Next y)], Cont).
Proof. intros Hk Hl He. cbn [x_step x_group_by_until]. unfold gb_on_next. now rewrite Hk, Hl, He. Qed.

(* the key has no live writer: a new group (fresh id) is handed with that key,
   its duration is subscribed, and the element goes to the new group and nowhere else *)
Theorem group_new s now (x : A) k hot y :
  key x = Ok k -> gb_lookup k (gb_writers s) = None -> dur (gb_calls s) = Ok hot -> elem x = Ok y ->
  x_step M s now (ISrc 0%nat (Next x))
  = (GbSt (gb_writers s ++ [(k, gb_next s, if hot then S (gb_calls s) else 0%nat)]) (S (gb_next s)) (S (gb_calls s)),
     CHand (gb_next s) k :: (if hot then [CSub (S (gb_calls s))] else []) ++ [CWin (gb_next s) (Next y)], Cont).
Proof.
  intros Hk Hl Hd He. cbn [x_step x_group_by_until]. unfold gb_on_next. rewrite Hk, Hl, Hd, He. reflexivity.
Qed.

(* a group is handed iff the key has no live writer (and the duration mapper does not raise) *)
Theorem group_new_iff s now (x : A) k :
  key x = Ok k ->
  (ghands (snd (fst (x_step M s now (ISrc 0%nat (Next x))))) <> []
   <-> gb_lookup k (gb_writers s) = None /\ exists hot, dur (gb_calls s) = Ok hot).
Proof.
  intros Hk. cbn [x_step x_group_by_until]. unfold gb_on_next. rewrite Hk.
  destruct (gb_lookup k (gb_writers s)) as [g|] eqn:El.
  - split; [|intros [H _]; discriminate].
    destruct (elem x); cbn [fst snd ghands flat_map].
    + intros H. contradiction.
    + unfold gb_all. intros H. exfalso. apply H. induction (gb_groups (gb_writers s)); auto.
  - destruct (dur (gb_calls s)) as [hot|e] eqn:Ed.
    + split; [intros _; eauto|]. intros _. destruct (elem x); cbn; discriminate.
    + split; [|intros [_ [h Hh]]; discriminate].
      cbn [fst snd]. unfold gb_all. intros H. exfalso. apply H.
      induction (gb_groups (gb_writers s ++ [(k, gb_next s, 0%nat)])); auto.
Qed.

(* every element that is routed at all goes to exactly one group *)
Theorem group_route_one s now (x : A) :
  snd (x_step M s now (ISrc 0%nat (Next x))) = Cont ->
  exists g y, gwin_nexts (snd (fst (x_step M s now (ISrc 0%nat (Next x))))) = [(g, y)]
              /\ elem x = Ok y
              /\ exists k, key x = Ok k
                 /\ g = match gb_lookup k (gb_writers s) with Some g0 => g0 | None => gb_next s end.
Proof.
  cbn [x_step x_group_by_until]. unfold gb_on_next.
  destruct (key x) as [k|e] eqn:Hk; [|discriminate].
  destruct (gb_lookup k (gb_writers s)) as [g|] eqn:El.
  - destruct (elem x) as [y|e] eqn:He; [|discriminate]. intros _. exists g, y. cbn. repeat split. exists k. rewrite El. auto.
  - destruct (dur (gb_calls s)) as [hot|e] eqn:Ed; [|discriminate].
    destruct (elem x) as [y|e] eqn:He; [|discriminate]. intros _. exists (gb_next s), y.
    split; [destruct hot; reflexivity|]. split; [reflexivity|]. exists k. rewrite El. auto.
Qed.

(* the source's terminal *)
Theorem group_source_done s now :
  x_step M s now (ISrc 0%nat Done) = (s, gb_all (gb_writers s) Done, Complete).
Proof. reflexivity. Qed.
Theorem group_source_error s now k e :
  x_step M s now (ISrc k (Err e)) = (s, gb_all (gb_writers s) (Err e), Fail e).
Proof. destruct k; reflexivity. Qed.

(* raising callbacks: every open group (the one just created included) and the outer get the error *)
Theorem group_key_raises s now (x : A) e :
  key x = Raise e -> x_step M s now (ISrc 0%nat (Next x)) = (s, gb_all (gb_writers s) (Err e), Fail e).
Proof. intros H. cbn [x_step x_group_by_until]. unfold gb_on_next. now rewrite H. Qed.

Theorem group_elem_raises_existing s now (x : A) k g e :
  key x = Ok k -> gb_lookup k (gb_writers s) = Some g -> elem x = Raise e ->
  x_step M s now (ISrc 0%nat (Next x)) = (s, gb_all (gb_writers s) (Err e), Fail e).
Proof. intros Hk Hl He. cbn [x_step x_group_by_until]. unfold gb_on_next. now rewrite Hk, Hl, He. Qed.

Theorem group_elem_raises_new s now (x : A) k hot e :
  key x = Ok k -> gb_lookup k (gb_writers s) = None -> dur (gb_calls s) = Ok hot -> elem x = Raise e ->
  let ws := gb_writers s ++ [(k, gb_next s, if hot then S (gb_calls s) else 0%nat)] in
  x_step M s now (ISrc 0%nat (Next x))
  = (GbSt ws (S (gb_next s)) (S (gb_calls s)),
     CHand (gb_next s) k :: (if hot then [CSub (S (gb_calls s))] else []) ++ gb_all ws (Err e), Fail e).
Proof.
  intros Hk Hl Hd He. cbn [x_step x_group_by_until]. unfold gb_on_next. rewrite Hk, Hl, Hd, He. reflexivity.
Qed.

Theorem group_dur_raises s now (x : A) k e :
  key x = Ok k -> gb_lookup k (gb_writers s) = None -> dur (gb_calls s) = Raise e ->
  x_step M s now (ISrc 0%nat (Next x))
  = (GbSt (gb_writers s ++ [(k, gb_next s, 0%nat)]) (S (gb_next s)) (S (gb_calls s)),
     gb_all (gb_writers s ++ [(k, gb_next s, 0%nat)]) (Err e), Fail e).
Proof. intros Hk Hl Hd. cbn [x_step x_group_by_until]. unfold gb_on_next. now rewrite Hk, Hl, Hd. Qed.

(* expiry: the first notification of a group's duration observable completes
   that group -- and only it -- and forgets its key *)
Theorem group_expire s now d (e : ev A) k g :
  (forall z, e <> Err z) -> gb_by_dur (S d) (gb_writers s) = Some (k, g) ->
  x_step M s now (ISrc (S d) e)
  = (GbSt (gb_del k (gb_writers s)) (gb_next s) (gb_calls s), [CWin g Done; CUnsub (S d)], Cont).
Proof.
  intros He Hd. cbn [x_step x_group_by_until].
  destruct e as [x|z|]; [| exfalso; eapply He; reflexivity |]; rewrite Hd; reflexivity.
Qed.

(* invariant of the writers table: keys are unique (it is a dict), group ids and
   duration sources are fresh *)
Definition gb_inv (s : gb_st) : Prop :=
  NoDup (gb_keys (gb_writers s))
  /\ (forall k g c, In (k, g, c) (gb_writers s) -> (g < gb_next s)%nat /\ (c <= gb_calls s)%nat).

(* seen again after its group expired: the key has no writer any more, so the
   next element with that key gets a NEW group *)
Theorem group_recreate_after_expiry s now d (e : ev A) k g :
  gb_inv s -> (forall z, e <> Err z) -> gb_by_dur (S d) (gb_writers s) = Some (k, g) ->
  gb_lookup k (gb_writers (fst (fst (x_step M s now (ISrc (S d) e))))) = None.
Proof.
  intros [Hnd _] He Hd. rewrite (group_expire s now d e k g He Hd). cbn [fst gb_writers].
  apply gb_lookup_none. apply gb_del_keys. exact Hnd.
Qed.

Theorem gb_inv_step s now i : gb_inv s -> gb_inv (fst (fst (x_step M s now i))).
Proof.
  intros [Hnd Hfr].
  assert (Hnew : forall k c, gb_lookup k (gb_writers s) = None -> (c <= S (gb_calls s))%nat ->
            gb_inv (GbSt (gb_writers s ++ [(k, gb_next s, c)]) (S (gb_next s)) (S (gb_calls s)))).
  { intros k c Hl Hc. split; cbn [gb_writers gb_next gb_calls].
    - unfold gb_keys. rewrite map_app. cbn [map fst]. apply NoDup_app_snoc; [exact Hnd|].
      apply gb_lookup_none. exact Hl.
    - intros k' g' c' Hin. apply in_app_or in Hin. destruct Hin as [Hin|[Heq|[]]].
      + destruct (Hfr _ _ _ Hin). lia.
      + injection Heq as <- <- <-. lia. }
  destruct i as [j [x|z|]|tag| | |]; cbn [x_step x_group_by_until]; try (split; assumption).
  - destruct j as [|d].
    + unfold gb_on_next. destruct (key x) as [k|e]; [|split; assumption].
      destruct (gb_lookup k (gb_writers s)) as [g|] eqn:El.
      * destruct (elem x); split; assumption.
      * destruct (dur (gb_calls s)) as [hot|e].
        -- destruct (elem x); cbn [fst]; apply Hnew; auto; destruct hot; lia.
        -- cbn [fst]. apply Hnew; auto. lia.
    + destruct (gb_by_dur (S d) (gb_writers s)) as [[k g]|]; cbn [fst]; [|split; assumption].
      split; cbn [gb_writers gb_next gb_calls].
      * apply gb_del_keys. exact Hnd.
      * intros k' g' c' Hin. apply (Hfr k' g' c'). eapply gb_del_in. exact Hin.
  - destruct j; split; assumption.
  - destruct j as [|d]; [split; assumption|].
    destruct (gb_by_dur (S d) (gb_writers s)) as [[k g]|]; cbn [fst]; [|split; assumption].
    split; cbn [gb_writers gb_next gb_calls].
    + apply gb_del_keys. exact Hnd.
    + intros k' g' c' Hin. apply (Hfr k' g' c'). eapply gb_del_in. exact Hin.
Qed.

(* group_by_until never unsubscribes the main source itself (only duration observables) *)
Theorem group_never_unsubs_source : never_unsubs M 0%nat.
Proof.
  assert (Hall : forall l (e : ev W), existsb (is_unsub (W:=W) (B:=B) 0) (gb_all l e) = false).
  { intros l e. unfold gb_all. induction (gb_groups l); auto. }
  intros s now i. destruct i as [[|d] [x|z|]|tag| | |]; cbn [x_step x_group_by_until fst snd]; try reflexivity;
    try apply Hall.
  - unfold gb_on_next. destruct (key x); [|apply Hall].
    destruct (gb_lookup _ _); [destruct (elem x); [reflexivity|apply Hall]|].
    destruct (dur (gb_calls s)) as [hot|e]; [|apply Hall].
    destruct (elem x); destruct hot; cbn [fst snd existsb is_unsub app orb]; try reflexivity; apply Hall.
  - destruct (gb_by_dur (S d) (gb_writers s)) as [[k g]|]; reflexivity.
  - destruct (gb_by_dur (S d) (gb_writers s)) as [[k g]|]; reflexivity.
Qed.

Theorem gb_inv_always (imm : nat -> bool) (ins : list (Z * inp A)) :
  gb_inv (fst (after imm M (fst (start_state imm M)) (snd (start_state imm M)) ins)).
Proof.
  apply (after_state_inv imm M gb_inv).
  - intros s now i. apply gb_inv_step.
  - split; [constructor|intros k g c []].
Qed.
End Group.

(* ------------------------------------------------------------- partition -- *)
Section PartitionFacts.
Context {A : Type}.
Variable pred : A -> res bool.

Definition goes_to (b : bool) (g : nat) : bool := match g with O => b | _ => negb b end.

(* a non-raising predicate: the element is delivered to the subscribers of output 0 if the
   predicate holds, of output 1 otherwise -- nobody else, nothing else changes *)
Theorem partition_deliver (x : A) b : pred x = Ok b -> forall todo subs conn,
  pt_deliver pred x todo subs conn
  = (subs, conn, map (fun g => OWin g (Next x)) (filter (goes_to b) todo)).
Proof.
  intros Hp. induction todo as [|g t IH]; intros subs conn; [reflexivity|]. cbn [pt_deliver filter].
  unfold pt_pred. rewrite Hp. destruct g as [|g]; cbn [goes_to].
  - destruct b; rewrite IH; reflexivity.
  - destruct b; cbn [negb]; rewrite IH; reflexivity.
Qed.

(* each element goes to exactly one of the two outputs: never to both *)
Theorem partition_exactly_one (x : A) b s : pred x = Ok b -> pt_conn s = true -> pt_stopped s = None ->
  let o := snd (pt_step pred s (ISrc 0%nat (Next x))) in
  (forall g, In (OWin g (Next x)) o <-> In g (pt_subs s) /\ goes_to b g = true)
  /\ ~ (In (OWin 0%nat (Next x)) o /\ In (OWin 1%nat (Next x)) o)
  /\ fst (pt_step pred s (ISrc 0%nat (Next x))) = s.
Proof.
  intros Hp Hc Hs. cbn zeta. cbn [pt_step]. rewrite Hc, Hs, (partition_deliver x b Hp). cbn [fst snd].
  split; [|split].
  - intros g. rewrite in_map_iff. split.
    + intros [j [Hj Hin]]. injection Hj as ->. apply filter_In in Hin. exact Hin.
    + intros H. exists g. split; [reflexivity|]. apply filter_In. exact H.
  - intros [H0 H1]. apply in_map_iff in H0. destruct H0 as [j [Hj Hin]]. injection Hj as ->.
    apply in_map_iff in H1. destruct H1 as [j [Hj Hin1]]. injection Hj as ->.
    apply filter_In in Hin. apply filter_In in Hin1. destruct Hin as [_ Ha]. destruct Hin1 as [_ Hb].
    cbn [goes_to] in *. rewrite Ha in Hb. discriminate.
  - destruct s; cbn in *. subst. reflexivity.
Qed.

(* the source is subscribed iff some output subscriber is live; a terminated subject has none *)
Definition pt_inv (s : pt_st (A:=A)) : Prop :=
  (pt_conn s = true <-> pt_subs s <> []) /\ (pt_stopped s <> None -> pt_subs s = []).

Lemma pt_leave_inv subs conn : (conn = true <-> subs <> []) -> forall g,
  (fst (pt_leave (A:=A) (remove g subs) conn) = true <-> remove g subs <> []).
Proof.
  intros H g. unfold pt_leave. destruct (remove g subs) as [|j t] eqn:E.
  - destruct conn; cbn; split; intros H1; try discriminate; contradiction.
  - cbn [fst]. split; [intros _; discriminate|]. intros _. apply H. intros ->. discriminate.
Qed.

Lemma pt_deliver_inv (x : A) : forall todo subs conn, (conn = true <-> subs <> []) ->
  let '(s', c', _) := pt_deliver pred x todo subs conn in (c' = true <-> s' <> []).
Proof.
  induction todo as [|g t IH]; intros subs conn H; [exact H|]. cbn [pt_deliver].
  destruct (pt_pred pred g x) as [[|]|e].
  - specialize (IH subs conn H). destruct (pt_deliver pred x t subs conn) as [[s' c'] o]. exact IH.
  - apply IH. exact H.
  - pose proof (pt_leave_inv subs conn H g) as H1.
    destruct (pt_leave (A:=A) (remove g subs) conn) as [c1 o1]. cbn [fst] in H1.
    specialize (IH (remove g subs) c1 H1). destruct (pt_deliver pred x t (remove g subs) c1) as [[s' c'] o]. exact IH.
Qed.

Lemma remove_head g (t : list nat) : remove g (g :: t) = t.
Proof. cbn. now rewrite Nat.eqb_refl. Qed.

Lemma pt_terminate_all (e : ev A) : forall l conn,
  fst (fst (pt_terminate e l l conn)) = [] /\ (l <> [] -> snd (fst (pt_terminate e l l conn)) = false).
Proof.
  induction l as [|g t IH]; intros conn; [split; [reflexivity|intros H; contradiction]|].
  cbn [pt_terminate]. rewrite remove_head.
  destruct (pt_leave (A:=A) t conn) as [c1 o1] eqn:El. specialize (IH c1).
  destruct (pt_terminate e t t c1) as [[s' c'] o] eqn:Et. cbn [fst snd] in *. destruct IH as [IH1 IH2].
  split; [exact IH1|]. intros _. destruct t as [|j t'].
  - cbn in Et. injection Et as <- <- <-. unfold pt_leave in El. destruct conn; injection El as <- <-; reflexivity.
  - apply IH2. discriminate.
Qed.

Theorem pt_step_inv s i : pt_inv s -> pt_inv (fst (pt_step pred s i)).
Proof.
  intros Hinv. pose proof Hinv as [H1 H2].
  destruct i as [k e|tag| |g|g]; cbn [pt_step]; try exact Hinv.
  - destruct k; [|exact Hinv]. destruct (pt_conn s) eqn:Ec; [|exact Hinv].
    destruct (pt_stopped s) eqn:Es; [exact Hinv|].
    destruct e as [x|z|].
    + pose proof (pt_deliver_inv x (pt_subs s) (pt_subs s) true) as Hd. specialize (Hd H1).
      destruct (pt_deliver pred x (pt_subs s) (pt_subs s) true) as [[s' c'] o]. cbn [fst].
      split; cbn [pt_conn pt_subs pt_stopped]; [exact Hd|intros H; contradiction].
    + destruct (pt_terminate_all (Err z) (pt_subs s) true) as [Ha Hb].
      destruct (pt_terminate (Err z) (pt_subs s) (pt_subs s) true) as [[s' c'] o]. cbn [fst snd] in *. subst s'.
      split; cbn [pt_conn pt_subs pt_stopped]; [split; [discriminate|intros H; contradiction]|auto].
    + destruct (pt_terminate_all Done (pt_subs s) true) as [Ha Hb].
      destruct (pt_terminate Done (pt_subs s) (pt_subs s) true) as [[s' c'] o]. cbn [fst snd] in *. subst s'.
      split; cbn [pt_conn pt_subs pt_stopped]; [split; [discriminate|intros H; contradiction]|auto].
  - destruct (pt_stopped s) eqn:Es.
    + destruct (match pt_subs s with [] => true | _ => false end && negb (pt_conn s)); exact Hinv.
    + destruct (match pt_subs s with [] => true | _ => false end && negb (pt_conn s)) eqn:E; cbn [fst];
        split; cbn [pt_conn pt_subs pt_stopped]; try (intros H; contradiction).
      * split; [intros _; destruct (pt_subs s); discriminate|reflexivity].
      * split; [intros _; destruct (pt_subs s); discriminate|].
        intros _. destruct (pt_subs s) as [|j t] eqn:El.
        -- cbn in E. apply negb_false_iff in E. exact E.
        -- apply H1. discriminate.
  - destruct (mem g (pt_subs s)); [|exact Hinv].
    pose proof (pt_leave_inv (pt_subs s) (pt_conn s) H1 g) as Hl.
    destruct (pt_leave (A:=A) (remove g (pt_subs s)) (pt_conn s)) as [c1 o1]. cbn [fst] in *.
    split; cbn [pt_conn pt_subs pt_stopped]; [exact Hl|].
    intros Hs. rewrite (H2 Hs). reflexivity.
Qed.

Theorem pt_inv_always (ins : list (Z * inp A)) : pt_inv (pt_after pred (PtSt [] false None) ins).
Proof.
  assert (G : forall s, pt_inv s -> pt_inv (pt_after pred s ins)).
  { induction ins as [|[now i] rest IH]; intros s Hs; [exact Hs|]. cbn [pt_after]. apply IH, pt_step_inv, Hs. }
  apply G. split; cbn; [split; [discriminate|intros H; contradiction]|auto].
Qed.

(* release: when the last output subscriber leaves, the source subscription is disposed
   at that very input; while another subscriber stays, it is kept *)
Theorem partition_last_leaves s g : pt_inv s -> pt_subs s = [g] ->
  pt_step pred s (IUnsubWin g) = (PtSt [] false (pt_stopped s), [OUnsub 0%nat]).
Proof.
  intros [H1 _] Hs. cbn [pt_step]. rewrite Hs. unfold Multi.mem. cbn [existsb]. rewrite Nat.eqb_refl. cbn [orb].
  rewrite remove_head. cbn [pt_leave].
  assert (pt_conn s = true) by (apply H1; rewrite Hs; discriminate). now rewrite H.
Qed.

Theorem partition_other_stays s g : mem g (pt_subs s) = true -> remove g (pt_subs s) <> [] ->
  pt_step pred s (IUnsubWin g) = (PtSt (remove g (pt_subs s)) (pt_conn s) (pt_stopped s), []).
Proof.
  intros Hm Hr. cbn [pt_step]. rewrite Hm. unfold pt_leave. destruct (remove g (pt_subs s)); [contradiction|reflexivity].
Qed.
End PartitionFacts.
