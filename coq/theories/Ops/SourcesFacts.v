(* C37: source machines are "timer chains": at any moment at most one pending
   timer, each firing emits something and schedules the next.  The runner's
   trace on the firings is computed by a plain recursion ([chain_trace]); the
   specifications (Python range, iterable, while-loop, accumulated delays) are
   proved about that recursion. *)
From RxVerif Require Import Base.Prelude Ops.Machine Ops.MachineFacts Ops.Multi Ops.MultiFacts Ops.Sources.

Local Open Scope nat_scope.

(* ------------------------------------------------------------------------ *)
Section Chain.
Context {A B : Type}.

Definition simple (c : cmd B) : bool :=
  match c with CEmit _ | CTimer _ _ | CEffect _ => true | _ => false end.
Definition obs_of (c : cmd B) : list (obs B) :=
  match c with
  | CEmit b => [OEmit (Next b)] | CTimer t d => [OTimer t d] | CEffect n => [OEffect n] | _ => []
  end.
Definition ctimers (cs : list (cmd B)) : list nat :=
  flat_map (fun c => match c with CTimer t _ => [t] | _ => [] end) cs.
Definition fin_obs (f : fin) : list (obs B) :=
  match f with Cont => [] | Complete => [OEmit Done] | Fail e => [OEmit (Err e)] end.

Lemma apply_simple (cs : list (cmd B)) : forall r, forallb simple cs = true ->
  apply_cmds r cs = (RState (r_live r) (r_timers r ++ ctimers cs) (r_stopped r), flat_map obs_of cs).
Proof.
  induction cs as [|c t IH]; intros r Hs.
  - cbn. rewrite app_nil_r. destruct r; reflexivity.
  - cbn [forallb] in Hs. apply andb_true_iff in Hs. destruct Hs as [Hc Ht].
    destruct c; try discriminate; cbn [apply_cmds]; rewrite (IH _ Ht); cbn [r_live r_timers r_stopped];
      cbn [flat_map obs_of ctimers app]; rewrite <- ?app_assoc; reflexivity.
Qed.

Context (m : machine A B) (tag_of : x_state m -> nat).

(* every firing: only emissions / effects / timers; if the subscription goes on
   exactly one new timer, numbered next; none at a terminating firing *)
Definition chain_ok : Prop := forall s now t,
  forallb simple (snd (fst (x_step m s now (ITick t)))) = true
  /\ match snd (x_step m s now (ITick t)) with
     | Cont => ctimers (snd (fst (x_step m s now (ITick t)))) = [S (tag_of s)]
               /\ tag_of (fst (fst (x_step m s now (ITick t)))) = S (tag_of s)
     | _ => ctimers (snd (fst (x_step m s now (ITick t)))) = []
     end.

Fixpoint tick_ins (t : nat) (nows : list Z) : list (Z * inp A) :=
  match nows with [] => [] | now :: rest => (now, ITick t) :: tick_ins (S t) rest end.

Fixpoint chain_trace (s : x_state m) (k : nat) (nows : list Z) : list (nat * obs B) :=
  match nows with
  | [] => []
  | now :: rest =>
      let '(s', cs, f) := x_step m s now (ITick (tag_of s)) in
      map (fun o => (k, o)) (flat_map obs_of cs ++ fin_obs f)
      ++ match f with Cont => chain_trace s' (S k) rest | _ => [] end
  end.

Lemma rstep_tick s t now :
  rstep m s (RState [] [t] false) now (ITick t)
  = (let '(s', cs, f) := x_step m s now (ITick t) in
     let '(r1, o1) := apply_cmds (RState [] [] false) cs in
     let '(r3, o3) := finish r1 f in (s', r3, o1 ++ [] ++ o3)).
Proof.
  unfold rstep. cbn [r_stopped r_timers r_live mem existsb remove]. rewrite Nat.eqb_refl. cbn [orb].
  destruct (x_step m s now (ITick t)) as [[s' cs] f]. destruct (apply_cmds (RState [] [] false) cs). reflexivity.
Qed.

Theorem chain_run : chain_ok -> forall nows s k,
  fst (run_from m s (RState [] [tag_of s] false) k (tick_ins (tag_of s) nows)) = chain_trace s k nows.
Proof.
  intros H. induction nows as [|now rest IH]; intros s k; [reflexivity|].
  cbn [tick_ins run_from chain_trace]. rewrite rstep_tick.
  destruct (H s now (tag_of s)) as [Hs Hf].
  destruct (x_step m s now (ITick (tag_of s))) as [[s' cs] f]. cbn [fst snd] in *.
  rewrite (apply_simple cs _ Hs). cbn [r_live r_timers r_stopped app].
  destruct f.
  - destruct Hf as [Ht Htag]. rewrite Ht. cbn [finish]. rewrite <- Htag.
    specialize (IH s' (S k)). rewrite <- IH.
    destruct (run_from m s' (RState [] [tag_of s'] false) (S k) (tick_ins (tag_of s') rest)) as [tr rf].
    cbn [fst fin_obs]. now rewrite !app_nil_r.
  - rewrite Hf. cbn [finish release r_live r_timers sort_nat fold_right map app fst snd].
    rewrite run_from_stopped by reflexivity. cbn [fst fin_obs]. now rewrite !app_nil_r.
  - rewrite Hf. cbn [finish release r_live r_timers sort_nat fold_right map app fst snd].
    rewrite run_from_stopped by reflexivity. cbn [fst fin_obs]. now rewrite !app_nil_r.
Qed.

(* from subscription: the factory schedules its first timer inside subscribe() *)
Theorem chain_run0 : chain_ok -> forall s0 cs0 nows,
  x_start m = (s0, cs0, Cont) -> forallb simple cs0 = true -> ctimers cs0 = [tag_of s0] ->
  fst (run m (tick_ins (tag_of s0) nows))
  = map (fun o => (0, o)) (flat_map obs_of cs0) ++ chain_trace s0 1 nows.
Proof.
  intros H s0 cs0 nows E Hs Ht. unfold run. rewrite E, (apply_simple cs0 _ Hs). cbn [finish r_live r_timers r_stopped app].
  rewrite Ht. pose proof (chain_run H nows s0 1) as C.
  destruct (run_from m s0 (RState [] [tag_of s0] false) 1 (tick_ins (tag_of s0) nows)) as [tr rf].
  cbn [fst] in *. now rewrite C, app_nil_r.
Qed.
End Chain.

Lemma temitted_app2 {B} (a b : list (nat * obs B)) : temitted (a ++ b) = temitted a ++ temitted b.
Proof. apply flat_map_app. Qed.

Definition zeros (n : nat) : list Z := repeat 0%Z n.

Lemma zeros_S n : zeros (S n) = 0%Z :: zeros n.
Proof. reflexivity. Qed.

(* ------------------------------------------------------------------------ *)
(* range                                                                      *)
Local Open Scope Z_scope.

Definition py_range (start stop step : Z) : list Z :=
  map (fun i => start + Z.of_nat i * step) (seq 0 (Z.to_nat (range_len start stop step))).

(* Python's meaning of range(start, stop, step) as the loop
     x = start; while (x < stop if step > 0 else x > stop): yield x; x += step *)
Fixpoint range_loop (fuel : nat) (x stop step : Z) : list Z :=
  match fuel with
  | O => []
  | S f => if (if 0 <? step then x <? stop else stop <? x)
           then x :: range_loop f (x + step) stop step else []
  end.

Lemma range_len_nonneg a b s : 0 <= range_len a b s.
Proof.
  unfold range_len. destruct (0 <? s) eqn:H1; [|destruct (s <? 0) eqn:H2; [|lia]].
  - apply Z.ltb_lt in H1. destruct (a <? b) eqn:H3; [|lia]. apply Z.ltb_lt in H3.
    assert (0 <= (b - a - 1) / s) by (apply Z.div_pos; lia). lia.
  - apply Z.ltb_lt in H2. destruct (b <? a) eqn:H3; [|lia]. apply Z.ltb_lt in H3.
    assert (0 <= (a - b - 1) / (- s)) by (apply Z.div_pos; lia). lia.
Qed.

Lemma range_len_step a b s : s <> 0 ->
  (if 0 <? s then a <? b else b <? a) = true -> range_len a b s = 1 + range_len (a + s) b s.
Proof.
  intros Hs Hc. unfold range_len. destruct (0 <? s) eqn:H1.
  - apply Z.ltb_lt in H1. rewrite Hc. apply Z.ltb_lt in Hc.
    destruct (a + s <? b) eqn:H3.
    + apply Z.ltb_lt in H3. replace (b - a - 1) with ((b - (a + s) - 1) + 1 * s) by lia.
      rewrite Z.div_add by lia. lia.
    + apply Z.ltb_ge in H3. rewrite Z.div_small by lia. lia.
  - apply Z.ltb_ge in H1. assert (H2 : s < 0) by lia. apply Z.ltb_lt in H2. rewrite H2, Hc.
    apply Z.ltb_lt in H2. apply Z.ltb_lt in Hc.
    destruct (b <? a + s) eqn:H3.
    + apply Z.ltb_lt in H3. replace (a - b - 1) with ((a + s - b - 1) + 1 * (- s)) by lia.
      rewrite Z.div_add by lia. lia.
    + apply Z.ltb_ge in H3. rewrite Z.div_small by lia. lia.
Qed.

Lemma range_len_stop a b s : (if 0 <? s then a <? b else b <? a) = false -> range_len a b s = 0.
Proof.
  intros Hc. unfold range_len. destruct (0 <? s); [now rewrite Hc|]. destruct (s <? 0); [now rewrite Hc|reflexivity].
Qed.

Lemma py_range_cons a b s : s <> 0 -> (if 0 <? s then a <? b else b <? a) = true ->
  py_range a b s = a :: py_range (a + s) b s.
Proof.
  intros Hs Hc. unfold py_range. rewrite (range_len_step a b s Hs Hc).
  pose proof (range_len_nonneg (a + s) b s) as Hn.
  rewrite Z2Nat.inj_add by lia. change (Z.to_nat 1) with 1%nat. cbn [Nat.add seq map].
  f_equal; [cbn; lia|]. rewrite <- seq_shift, map_map. apply map_ext. intros i. lia.
Qed.

Lemma py_range_nil a b s : (if 0 <? s then a <? b else b <? a) = false -> py_range a b s = [].
Proof. intros Hc. unfold py_range. now rewrite (range_len_stop a b s Hc). Qed.

(* the length formula computes exactly the elements of the loop *)
Theorem py_range_is_loop s b : s <> 0 -> forall fuel a,
  (Z.to_nat (range_len a b s) <= fuel)%nat -> range_loop fuel a b s = py_range a b s.
Proof.
  intros Hs. induction fuel as [|f IH]; intros a Hf.
  - cbn. unfold py_range. assert (E : Z.to_nat (range_len a b s) = 0%nat) by lia. now rewrite E.
  - cbn [range_loop]. destruct (if 0 <? s then a <? b else b <? a) eqn:Hc.
    + rewrite (py_range_cons a b s Hs Hc). f_equal. apply IH.
      rewrite (range_len_step a b s Hs Hc) in Hf. pose proof (range_len_nonneg (a + s) b s). lia.
    + now rewrite (py_range_nil a b s Hc).
Qed.

(* direct characterisation: i-th element, bound, maximality *)
Theorem py_range_nth a b s i : (i < length (py_range a b s))%nat ->
  nth i (py_range a b s) 0 = a + Z.of_nat i * s.
Proof.
  unfold py_range. rewrite map_length, seq_length. intros Hi.
  rewrite (nth_indep _ 0 ((fun i => a + Z.of_nat i * s) 0%nat)) by now rewrite map_length, seq_length.
  rewrite map_nth, seq_nth by exact Hi. reflexivity.
Qed.

Theorem py_range_bound a b s x : s <> 0 -> In x (py_range a b s) -> if 0 <? s then x < b else b < x.
Proof.
  intros Hs. unfold py_range. rewrite in_map_iff. intros [i [<- Hi]]. apply in_seq in Hi.
  pose proof (range_len_nonneg a b s) as Hn. assert (Hi' : Z.of_nat i < range_len a b s) by lia. clear Hi.
  unfold range_len in *. destruct (0 <? s) eqn:H1.
  - apply Z.ltb_lt in H1. destruct (a <? b) eqn:H3; [|lia]. apply Z.ltb_lt in H3.
    assert (Z.of_nat i <= (b - a - 1) / s) by lia.
    assert (s * ((b - a - 1) / s) <= b - a - 1) by (apply Z.mul_div_le; lia). nia.
  - apply Z.ltb_ge in H1. assert (H2 : s < 0) by lia. apply Z.ltb_lt in H2. rewrite H2 in *. apply Z.ltb_lt in H2.
    destruct (b <? a) eqn:H3; [|lia]. apply Z.ltb_lt in H3.
    assert (Z.of_nat i <= (a - b - 1) / (- s)) by lia.
    assert ((- s) * ((a - b - 1) / (- s)) <= a - b - 1) by (apply Z.mul_div_le; lia). nia.
Qed.

Local Open Scope nat_scope.

(* the machine *)
Definition range_tag (s : Z * Z * nat) : nat := snd s.

Lemma range_chain a b s : chain_ok (x_range a b s) range_tag.
Proof.
  intros [[cur rem] tag] now t. cbn. destruct (0 <? rem)%Z; cbn; auto.
Qed.

Lemma range_chain_trace step : forall n cur tag k,
  temitted (chain_trace (x_range 0 0 step) range_tag (cur, Z.of_nat n, tag) k (zeros (S n)))
  = nexts (indexed k (map (fun i => (cur + Z.of_nat i * step)%Z) (seq 0 n))) ++ [(k + n, Done)].
Proof.
  induction n as [|n IH]; intros cur tag k.
  - cbn. now rewrite Nat.add_0_r.
  - rewrite zeros_S. cbn [chain_trace x_range x_step range_tag snd].
    assert (E : (0 <? Z.of_nat (S n))%Z = true) by (apply Z.ltb_lt; lia). rewrite E.
    cbn [flat_map obs_of app fin_obs map]. rewrite temitted_app2.
    replace (Z.of_nat (S n) - 1)%Z with (Z.of_nat n) by lia. rewrite (IH (cur + step)%Z (S tag) (S k)).
    cbn [temitted flat_map snd fst app seq map indexed nexts].
    rewrite <- seq_shift, map_map. f_equal; [f_equal; f_equal; lia|].
    f_equal; [|f_equal; f_equal; lia].
    unfold nexts. f_equal. f_equal. apply map_ext. intros i. lia.
Qed.

(* range(start, stop, step) subscribed with a scheduler: the i-th firing emits
   the i-th element of Python's range, the firing after the last completes *)
Theorem range_spec a b s :
  let n := Z.to_nat (range_len a b s) in
  temitted (fst (run (x_range a b s) (tick_ins 0 (zeros (S n)))))
  = nexts (indexed 1 (py_range a b s)) ++ [(S n, Done)].
Proof.
  intros n. rewrite (chain_run0 (x_range a b s) range_tag (range_chain a b s) (a, range_len a b s, 0) [CTimer 0 0%Z]);
    try reflexivity.
  rewrite temitted_app2. cbn [flat_map obs_of app map temitted snd].
  pose proof (range_len_nonneg a b s) as Hn.
  assert (E : range_len a b s = Z.of_nat n) by (subst n; lia). rewrite E.
  change (chain_trace (x_range a b s)) with (chain_trace (x_range 0 0 s)).
  rewrite range_chain_trace. unfold py_range. fold n. reflexivity.
Qed.
