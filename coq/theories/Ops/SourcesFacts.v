(* C37: source machines are "timer chains": at any moment at most one pending
   timer, each firing emits something and schedules the next.  The runner's
   trace on the firings is computed by a plain recursion ([chain_trace]); the
   specifications (Python range, iterable, while-loop, accumulated delays) are
   proved about that recursion. *)
From RxVerif Require Import Base.Prelude Ops.Machine Ops.MachineFacts Ops.Multi Ops.MultiFacts Ops.Sources.

Local Open Scope nat_scope.

(* ------------------------------------------------------------------------ *)
Section Chain.
Context {A B : Type}.

Definition simple (c : cmd B) : bool :=
  match c with CEmit _ | CTimer _ _ | CEffect _ => true | _ => false end.
Definition obs_of (c : cmd B) : list (obs B) :=
  match c with
  | CEmit b => [OEmit (Next b)] | CTimer t d => [OTimer t d] | CEffect n => [OEffect n] | _ => []
  end.
Definition ctimers (cs : list (cmd B)) : list nat :=
  flat_map (fun c => match c with CTimer t _ => [t] | _ => [] end) cs.
Definition fin_obs (f : fin) : list (obs B) :=
  match f with Cont => [] | Complete => [OEmit Done] | Fail e => [OEmit (Err e)] end.

Lemma apply_simple (cs : list (cmd B)) : forall r, forallb simple cs = true ->
  apply_cmds r cs = (RState (r_live r) (r_timers r ++ ctimers cs) (r_stopped r), flat_map obs_of cs).
Proof.
  induction cs as [|c t IH]; intros r Hs.
  - cbn. rewrite app_nil_r. destruct r; reflexivity.
  - cbn [forallb] in Hs. apply andb_true_iff in Hs. destruct Hs as [Hc Ht].
    destruct c; try discriminate; cbn [apply_cmds]; rewrite (IH _ Ht); cbn [r_live r_timers r_stopped];
      cbn [flat_map obs_of ctimers app]; rewrite <- ?app_assoc; reflexivity.
Qed.

Context (m : machine A B) (tag_of : x_state m -> nat).

(* every firing: only emissions / effects / timers; if the subscription goes on
   exactly one new timer, numbered next; none at a terminating firing *)
Definition chain_ok : Prop := forall s now t,
  forallb simple (snd (fst (x_step m s now (ITick t)))) = true
  /\ match snd (x_step m s now (ITick t)) with
     | Cont => ctimers (snd (fst (x_step m s now (ITick t)))) = [S (tag_of s)]
               /\ tag_of (fst (fst (x_step m s now (ITick t)))) = S (tag_of s)
     | _ => ctimers (snd (fst (x_step m s now (ITick t)))) = []
     end.

Fixpoint tick_ins (t : nat) (nows : list Z) : list (Z * inp A) :=
  match nows with [] => [] | now :: rest => (now, ITick t) :: tick_ins (S t) rest end.

Fixpoint chain_trace (s : x_state m) (k : nat) (nows : list Z) : list (nat * obs B) :=
  match nows with
  | [] => []
  | now :: rest =>
      let '(s', cs, f) := x_step m s now (ITick (tag_of s)) in
      map (fun o => (k, o)) (flat_map obs_of cs ++ fin_obs f)
      ++ match f with Cont => chain_trace s' (S k) rest | _ => [] end
  end.

Lemma rstep_tick s t now :
  rstep m s (RState [] [t] false) now (ITick t)
  = (let '(s', cs, f) := x_step m s now (ITick t) in
     let '(r1, o1) := apply_cmds (RState [] [] false) cs in
     let '(r3, o3) := finish r1 f in (s', r3, o1 ++ [] ++ o3)).
Proof.
  unfold rstep. cbn [r_stopped r_timers r_live mem existsb remove]. rewrite Nat.eqb_refl. cbn [orb].
  destruct (x_step m s now (ITick t)) as [[s' cs] f]. destruct (apply_cmds (RState [] [] false) cs). reflexivity.
Qed.

Theorem chain_run : chain_ok -> forall nows s k,
  fst (run_from m s (RState [] [tag_of s] false) k (tick_ins (tag_of s) nows)) = chain_trace s k nows.
Proof.
  intros H. induction nows as [|now rest IH]; intros s k; [reflexivity|].
  cbn [tick_ins run_from chain_trace]. rewrite rstep_tick.
  destruct (H s now (tag_of s)) as [Hs Hf].
  destruct (x_step m s now (ITick (tag_of s))) as [[s' cs] f]. cbn [fst snd] in *.
  rewrite (apply_simple cs _ Hs). cbn [r_live r_timers r_stopped app].
  destruct f.
  - destruct Hf as [Ht Htag]. rewrite Ht. cbn [finish]. rewrite <- Htag.
    specialize (IH s' (S k)). rewrite <- IH.
    destruct (run_from m s' (RState [] [tag_of s'] false) (S k) (tick_ins (tag_of s') rest)) as [tr rf].
    cbn [fst fin_obs]. now rewrite !app_nil_r.
  - rewrite Hf. cbn [finish release r_live r_timers sort_nat fold_right map app fst snd].
    rewrite run_from_stopped by reflexivity. cbn [fst fin_obs]. now rewrite !app_nil_r.
  - rewrite Hf. cbn [finish release r_live r_timers sort_nat fold_right map app fst snd].
    rewrite run_from_stopped by reflexivity. cbn [fst fin_obs]. now rewrite !app_nil_r.
Qed.

(* from subscription: the factory schedules its first timer inside subscribe() *)
Theorem chain_run0 : chain_ok -> forall s0 cs0 nows,
  x_start m = (s0, cs0, Cont) -> forallb simple cs0 = true -> ctimers cs0 = [tag_of s0] ->
  fst (run m (tick_ins (tag_of s0) nows))
  = map (fun o => (0, o)) (flat_map obs_of cs0) ++ chain_trace s0 1 nows.
Proof.
  intros H s0 cs0 nows E Hs Ht. unfold run. rewrite E, (apply_simple cs0 _ Hs). cbn [finish r_live r_timers r_stopped app].
  rewrite Ht. pose proof (chain_run H nows s0 1) as C.
  destruct (run_from m s0 (RState [] [tag_of s0] false) 1 (tick_ins (tag_of s0) nows)) as [tr rf].
  cbn [fst] in *. now rewrite C, app_nil_r.
Qed.
End Chain.

Lemma temitted_app2 {B} (a b : list (nat * obs B)) : temitted (a ++ b) = temitted a ++ temitted b.
Proof. apply flat_map_app. Qed.

Definition zeros (n : nat) : list Z := repeat 0%Z n.

Lemma zeros_S n : zeros (S n) = 0%Z :: zeros n.
Proof. reflexivity. Qed.

(* ------------------------------------------------------------------------ *)
(* range                                                                      *)
Local Open Scope Z_scope.

Definition py_range (start stop step : Z) : list Z :=
  map (fun i => start + Z.of_nat i * step) (seq 0 (Z.to_nat (range_len start stop step))).

(* Python's meaning of range(start, stop, step) as the loop
     x = start; while (x < stop if step > 0 else x > stop): yield x; x += step *)
Fixpoint range_loop (fuel : nat) (x stop step : Z) : list Z :=
  match fuel with
  | O => []
  | S f => if (if 0 <? step then x <? stop else stop <? x)
           then x :: range_loop f (x + step) stop step else []
  end.

Lemma range_len_nonneg a b s : 0 <= range_len a b s.
Proof.
  unfold range_len. destruct (0 <? s) eqn:H1; [|destruct (s <? 0) eqn:H2; [|lia]].
  - apply Z.ltb_lt in H1. destruct (a <? b) eqn:H3; [|lia]. apply Z.ltb_lt in H3.
    assert (0 <= (b - a - 1) / s) by (apply Z.div_pos; lia). lia.
  - apply Z.ltb_lt in H2. destruct (b <? a) eqn:H3; [|lia]. apply Z.ltb_lt in H3.
    assert (0 <= (a - b - 1) / (- s)) by (apply Z.div_pos; lia). lia.
Qed.

Lemma range_len_step a b s : s <> 0 ->
  (if 0 <? s then a <? b else b <? a) = true -> range_len a b s = 1 + range_len (a + s) b s.
Proof.
  intros Hs Hc. unfold range_len. destruct (0 <? s) eqn:H1.
  - apply Z.ltb_lt in H1. rewrite Hc. apply Z.ltb_lt in Hc.
    destruct (a + s <? b) eqn:H3.
    + apply Z.ltb_lt in H3. replace (b - a - 1) with ((b - (a + s) - 1) + 1 * s) by lia.
      rewrite Z.div_add by lia. lia.
    + apply Z.ltb_ge in H3. rewrite Z.div_small by lia. lia.
  - apply Z.ltb_ge in H1. assert (H2 : s < 0) by lia. apply Z.ltb_lt in H2. rewrite H2, Hc.
    apply Z.ltb_lt in H2. apply Z.ltb_lt in Hc.
    destruct (b <? a + s) eqn:H3.
    + apply Z.ltb_lt in H3. replace (a - b - 1) with ((a + s - b - 1) + 1 * (- s)) by lia.
      rewrite Z.div_add by lia. lia.
    + apply Z.ltb_ge in H3. rewrite Z.div_small by lia. lia.
Qed.

Lemma range_len_stop a b s : (if 0 <? s then a <? b else b <? a) = false -> range_len a b s = 0.
Proof.
  intros Hc. unfold range_len. destruct (0 <? s); [now rewrite Hc|]. destruct (s <? 0); [now rewrite Hc|reflexivity].
Qed.

Lemma py_range_cons a b s : s <> 0 -> (if 0 <? s then a <? b else b <? a) = true ->
  py_range a b s = a :: py_range (a + s) b s.
Proof.
  intros Hs Hc. unfold py_range. rewrite (range_len_step a b s Hs Hc).
  pose proof (range_len_nonneg (a + s) b s) as Hn.
  rewrite Z2Nat.inj_add by lia. change (Z.to_nat 1) with 1%nat. cbn [Nat.add seq map].
  f_equal; [cbn; lia|]. rewrite <- seq_shift, map_map. apply map_ext. intros i. lia.
Qed.

Lemma py_range_nil a b s : (if 0 <? s then a <? b else b <? a) = false -> py_range a b s = [].
Proof. intros Hc. unfold py_range. now rewrite (range_len_stop a b s Hc). Qed.

(* the length formula computes exactly the elements of the loop *)
Theorem py_range_is_loop s b : s <> 0 -> forall fuel a,
  (Z.to_nat (range_len a b s) <= fuel)%nat -> range_loop fuel a b s = py_range a b s.
Proof.
  intros Hs. induction fuel as [|f IH]; intros a Hf.
  - cbn. unfold py_range. assert (E : Z.to_nat (range_len a b s) = 0%nat) by lia. now rewrite E.
  - cbn [range_loop]. destruct (if 0 <? s then a <? b else b <? a) eqn:Hc.
    + rewrite (py_range_cons a b s Hs Hc). f_equal. apply IH.
      rewrite (range_len_step a b s Hs Hc) in Hf. pose proof (range_len_nonneg (a + s) b s). lia.
    + now rewrite (py_range_nil a b s Hc).
Qed.

(* direct characterisation: i-th element, bound, maximality *)
Theorem py_range_nth a b s i : (i < length (py_range a b s))%nat ->
  nth i (py_range a b s) 0 = a + Z.of_nat i * s.
Proof.
  unfold py_range. rewrite map_length, seq_length. intros Hi.
  set (f := fun i : nat => a + Z.of_nat i * s).
  rewrite (nth_indep _ 0 (f 0%nat)) by now rewrite map_length, seq_length.
  rewrite map_nth, seq_nth by exact Hi. reflexivity.
Qed.

Theorem py_range_bound a b s x : s <> 0 -> In x (py_range a b s) -> if 0 <? s then x < b else b < x.
Proof.
  intros Hs. unfold py_range. rewrite in_map_iff. intros [i [<- Hi]]. apply in_seq in Hi.
  pose proof (range_len_nonneg a b s) as Hn. assert (Hi' : Z.of_nat i < range_len a b s) by lia. clear Hi.
  unfold range_len in *. destruct (0 <? s) eqn:H1.
  - apply Z.ltb_lt in H1. destruct (a <? b) eqn:H3; [|lia]. apply Z.ltb_lt in H3.
    assert (Z.of_nat i <= (b - a - 1) / s) by lia.
    assert (s * ((b - a - 1) / s) <= b - a - 1) by (apply Z.mul_div_le; lia). nia.
  - apply Z.ltb_ge in H1. assert (H2 : s < 0) by lia. apply Z.ltb_lt in H2. rewrite H2 in *. apply Z.ltb_lt in H2.
    destruct (b <? a) eqn:H3; [|lia]. apply Z.ltb_lt in H3.
    assert (Z.of_nat i <= (a - b - 1) / (- s)) by lia.
    assert ((- s) * ((a - b - 1) / (- s)) <= a - b - 1) by (apply Z.mul_div_le; lia). nia.
Qed.

Local Open Scope nat_scope.

(* the machine *)
Definition range_tag (s : Z * Z * nat) : nat := snd s.

Lemma range_chain a b s : chain_ok (x_range a b s) range_tag.
Proof.
  intros [[cur rem] tag] now t. cbn. destruct (0 <? rem)%Z; cbn; auto.
Qed.

Lemma range_chain_trace step : forall n cur tag k,
  temitted (chain_trace (x_range 0 0 step) range_tag (cur, Z.of_nat n, tag) k (zeros (S n)))
  = nexts (indexed k (map (fun i => (cur + Z.of_nat i * step)%Z) (seq 0 n))) ++ [(k + n, Done)].
Proof.
  induction n as [|n IH]; intros cur tag k.
  - cbn. now rewrite Nat.add_0_r.
  - rewrite zeros_S. cbn [chain_trace x_range x_step range_tag snd].
    assert (E : (0 <? Z.of_nat (S n))%Z = true) by (apply Z.ltb_lt; lia). rewrite E.
    rewrite temitted_app2. cbn [flat_map obs_of app fin_obs map].
    replace (Z.of_nat (S n) - 1)%Z with (Z.of_nat n) by lia. rewrite (IH (cur + step)%Z (S tag) (S k)).
    cbn [temitted flat_map snd fst app seq map indexed nexts].
    rewrite <- seq_shift, map_map. f_equal; [f_equal; f_equal; lia|].
    f_equal; [|f_equal; f_equal; lia].
    unfold nexts. f_equal. f_equal. apply map_ext. intros i. lia.
Qed.

(* range(start, stop, step) subscribed with a scheduler: the i-th firing emits
   the i-th element of Python's range, the firing after the last completes *)
Theorem range_spec a b s :
  let n := Z.to_nat (range_len a b s) in
  temitted (fst (run (x_range a b s) (tick_ins 0 (zeros (S n)))))
  = nexts (indexed 1 (py_range a b s)) ++ [(S n, Done)].
Proof.
  intros n. rewrite (chain_run0 (x_range a b s) range_tag (range_chain a b s) (a, range_len a b s, 0) [CTimer 0 0%Z]);
    try reflexivity.
  rewrite temitted_app2. cbn [flat_map obs_of app map temitted snd].
  pose proof (range_len_nonneg a b s) as Hn.
  assert (E : range_len a b s = Z.of_nat n) by (subst n; lia). rewrite E.
  change (chain_trace (x_range a b s)) with (chain_trace (x_range 0 0 s)).
  rewrite range_chain_trace. unfold py_range. fold n. reflexivity.
Qed.

(* ------------------------------------------------------------------------ *)
(* projections of a trace                                                     *)
Definition ttimers {B} (tr : list (nat * obs B)) : list (nat * (nat * Z)) :=
  flat_map (fun x => match snd x with OTimer t d => [(fst x, (t, d))] | _ => [] end) tr.
Definition cvals {B} (cs : list (cmd B)) : list B :=
  flat_map (fun c => match c with CEmit b => [b] | _ => [] end) cs.
Definition tfin {B} (k : nat) (f : fin) : list (nat * ev B) :=
  match f with Cont => [] | Complete => [(k, Done)] | Fail e => [(k, Err e)] end.

Lemma ttimers_app {B} (a b : list (nat * obs B)) : ttimers (a ++ b) = ttimers a ++ ttimers b.
Proof. apply flat_map_app. Qed.

Lemma temitted_group {B} k (cs : list (cmd B)) f :
  temitted (map (fun o => (k, o)) (flat_map obs_of cs ++ fin_obs f))
  = map (fun b => (k, Next b)) (cvals cs) ++ tfin k f.
Proof.
  rewrite map_app, temitted_app2. f_equal.
  - unfold temitted, cvals in *. induction cs as [|c t IH]; [reflexivity|].
    destruct c; cbn [flat_map obs_of map app fst snd]; rewrite ?IH; reflexivity.
  - destruct f; reflexivity.
Qed.

(* ------------------------------------------------------------------------ *)
(* from_iterable / of                                                         *)
Lemma simple_app {B} (a b : list (cmd B)) : forallb simple (a ++ b) = forallb simple a && forallb simple b.
Proof. apply forallb_app. Qed.
Lemma ctimers_app {B} (a b : list (cmd B)) : ctimers (a ++ b) = ctimers a ++ ctimers b.
Proof. apply flat_map_app. Qed.

Lemma iter_cmds_simple spy items : forall i b,
  forallb simple (fst (iter_cmds spy items i b)) = true /\ ctimers (fst (iter_cmds spy items i b)) = [].
Proof.
  assert (P : forall i, forallb simple (if spy then [CEffect (e_pull i)] else [] : list (cmd Z)) = true
                        /\ ctimers (if spy then [CEffect (e_pull i)] else [] : list (cmd Z)) = [])
    by (intros i; destruct spy; auto).
  induction items as [|[v|e] t IH]; intros i b; destruct b as [[|k]|]; cbn [iter_cmds option_map fst]; auto;
    try apply P.
  - destruct (IH (i + 1)%Z (Some (pred (S k)))) as [H1 H2].
    destruct (iter_cmds spy t (i + 1) (Some (pred (S k)))) as [cs f]. cbn [fst snd] in *.
    change (CEmit v :: cs) with ([CEmit v] ++ cs). rewrite !simple_app, !ctimers_app, H1, H2.
    destruct (P i) as [P1 P2]. rewrite P1, P2. auto.
  - destruct (IH (i + 1)%Z None) as [H1 H2].
    destruct (iter_cmds spy t (i + 1) None) as [cs f]. cbn [fst snd] in *.
    change (CEmit v :: cs) with ([CEmit v] ++ cs). rewrite !simple_app, !ctimers_app, H1, H2.
    destruct (P i) as [P1 P2]. rewrite P1, P2. auto.
Qed.

Lemma iter_cmds_none spy items : forall i, snd (iter_cmds spy items i None) <> Cont.
Proof.
  induction items as [|[v|e] t IH]; intros i; cbn [iter_cmds option_map]; try discriminate.
  specialize (IH (i + 1)%Z). destruct (iter_cmds spy t (i + 1) None) as [cs f]. exact IH.
Qed.

Lemma from_iterable_chain spy items : chain_ok (x_from_iterable spy items None) (fun _ => 0).
Proof.
  intros s now t. cbn [x_from_iterable x_step fst snd].
  destruct (iter_cmds_simple spy items 0%Z None) as [H1 H2]. pose proof (iter_cmds_none spy items 0%Z) as H3.
  split; [exact H1|]. destruct (snd (iter_cmds spy items 0 None)); [congruence|exact H2|exact H2].
Qed.

Lemma iter_cmds_values spy vs tl : (tl = [] \/ exists e r, tl = Raise e :: r) -> forall i,
  cvals (fst (iter_cmds spy (map Ok vs ++ tl) i None)) = vs
  /\ snd (iter_cmds spy (map Ok vs ++ tl) i None)
     = match tl with Raise e :: _ => Fail e | _ => Complete end.
Proof.
  intros Htl. induction vs as [|v t IH]; intros i; cbn [map app iter_cmds option_map].
  - destruct Htl as [->|[e [r ->]]]; destruct spy; cbn; auto.
  - destruct (IH (i + 1)%Z) as [H1 H2]. destruct (iter_cmds spy (map Ok t ++ tl) (i + 1) None) as [cs f].
    cbn [fst snd] in *. subst t. destruct spy; cbn [app cvals flat_map]; auto.
Qed.

(* one scheduled action emits every item, in order, then completes -- or
   on_error at the position where the iterator raises *)
Theorem from_iterable_spec spy vs tl now : (tl = [] \/ exists e r, tl = Raise e :: r) ->
  temitted (fst (run (x_from_iterable spy (map Ok vs ++ tl) None) [(now, ITick 0)]))
  = map (fun v => (1, Next v)) vs ++ [(1, match tl with Raise e :: _ => Err e | _ => Done end)].
Proof.
  intros Htl.
  pose proof (chain_run0 _ _ (from_iterable_chain spy (map Ok vs ++ tl)) tt [CTimer 0 0%Z] [now] eq_refl eq_refl eq_refl) as C.
  cbn [tick_ins] in C. rewrite C. clear C.
  rewrite temitted_app2.
  replace (temitted (map (fun o : obs Z => (0, o)) (flat_map obs_of [CTimer 0 0%Z]))) with (@nil (nat * ev Z)) by reflexivity.
  cbn [app chain_trace x_from_iterable x_step].
  destruct (iter_cmds_values spy vs tl Htl 0%Z) as [H1 H2].
  destruct (iter_cmds spy (map Ok vs ++ tl) 0 None) as [cs f]. cbn [fst snd] in *.
  assert (E : temitted (map (fun o => (1, o)) (flat_map obs_of cs ++ fin_obs f) ++ match f with Cont => [] | _ => [] end)
              = map (fun b => (1, Next b)) (cvals cs) ++ tfin 1 f).
  { rewrite temitted_app2, temitted_group. destruct f; cbn; now rewrite app_nil_r. }
  rewrite E, H1, H2. destruct Htl as [->|[e [r ->]]]; reflexivity.
Qed.

(* the `disposed` flag: a subscriber disposing inside its k-th on_next gets k
   elements, no terminal notification, and the iterator is pulled k times *)
Definition cpulls {B} (cs : list (cmd B)) : list Z :=
  flat_map (fun c => match c with CEffect n => [n] | _ => [] end) cs.

Lemma iter_cmds_zero spy items i : iter_cmds spy items i (Some 0) = ([], Cont).
Proof. destruct items; reflexivity. Qed.

Local Arguments e_pull : simpl never.

Lemma iter_cmds_budget : forall vs k tl i, (0 < k <= length vs)%nat ->
  cvals (fst (iter_cmds true (map Ok vs ++ tl) i (Some k))) = firstn k vs
  /\ cpulls (fst (iter_cmds true (map Ok vs ++ tl) i (Some k)))
     = map (fun j => e_pull (i + Z.of_nat j)) (seq 0 k)
  /\ snd (iter_cmds true (map Ok vs ++ tl) i (Some k)) = Cont.
Proof.
  induction vs as [|v t IH]; intros k tl i Hk; [cbn in Hk; lia|].
  destruct k as [|k]; [lia|]. cbn [map app iter_cmds option_map pred].
  destruct k as [|k].
  - rewrite iter_cmds_zero. cbn. replace (i + 0)%Z with i by lia. auto.
  - cbn [length] in Hk. destruct (IH (S k) tl (i + 1)%Z ltac:(lia)) as [H1 [H2 H3]].
    destruct (iter_cmds true (map Ok t ++ tl) (i + 1) (Some (S k))) as [cs f]. cbn [fst snd] in *.
    split; [|split]; [unfold cvals in *; cbn [app flat_map firstn]; now rewrite H1| |exact H3].
    unfold cpulls in *. cbn [app flat_map]. rewrite H2.
    change (seq 0 (S (S k))) with (0 :: seq 1 (S k)). rewrite <- (seq_shift (S k) 0).
    cbn [map]. f_equal; [f_equal; lia|]. rewrite map_map. apply map_ext. intros j. f_equal. lia.
Qed.

Theorem from_iterable_disposed_flag vs k tl now : (0 < k <= length vs)%nat ->
  let tr := fst (run (x_from_iterable true (map Ok vs ++ tl) (Some k)) [(now, ITick 0)]) in
  temitted tr = map (fun v => (1, Next v)) (firstn k vs)
  /\ flat_map (fun x => match snd x with OEffect n => [n] | _ => [] end) tr
     = map (fun j => e_pull (Z.of_nat j)) (seq 0 k).
Proof.
  intros Hk. destruct (iter_cmds_budget vs k tl 0%Z Hk) as [H1 [H2 H3]].
  destruct (iter_cmds_simple true (map Ok vs ++ tl) 0%Z (Some k)) as [S1 S2].
  unfold run. cbn [x_from_iterable x_start apply_cmds finish fst snd app map r_live r_timers r_stopped].
  cbn [run_from]. rewrite rstep_tick. cbn [x_from_iterable x_step].
  destruct (iter_cmds true (map Ok vs ++ tl) 0 (Some k)) as [cs f]. cbn [fst snd] in *. subst f.
  rewrite (apply_simple cs _ S1). cbn [finish fst snd r_live r_timers r_stopped app].
  rewrite !app_nil_r. split.
  - change (temitted ((0, OTimer 0 0%Z) :: map (fun x => (1, x)) (flat_map obs_of cs))
            = map (fun v => (1, Next v)) (firstn k vs)).
    cbn [temitted flat_map snd app]. fold (temitted (map (fun x : obs Z => (1, x)) (flat_map obs_of cs))).
    pose proof (temitted_group 1 cs Cont) as G. cbn [fin_obs tfin] in G. rewrite !app_nil_r in G.
    rewrite G, H1. reflexivity.
  - cbn [flat_map snd app]. change (fun j : nat => e_pull (Z.of_nat j)) with (fun j : nat => e_pull (0 + Z.of_nat j)).
    rewrite <- H2. clear. unfold cpulls.
    induction cs as [|c t IH]; [reflexivity|]. destruct c; cbn [flat_map obs_of map app snd]; rewrite ?IH; reflexivity.
Qed.

(* ------------------------------------------------------------------------ *)
(* return_value, empty, throw, never, timer(d): the whole trace                *)
Theorem return_value_spec v now :
  fst (run (x_return_value v) [(now, ITick 0)])
  = [(0, OTimer 0 0%Z); (1, OEmit (Next v)); (1, OEmit Done)].
Proof. reflexivity. Qed.

Theorem empty_spec now : fst (run x_empty [(now, ITick 0)]) = [(0, OTimer 0 0%Z); (1, OEmit Done)].
Proof. reflexivity. Qed.

Theorem throw_spec e now : fst (run (x_throw e) [(now, ITick 0)]) = [(0, OTimer 0 0%Z); (1, OEmit (Err e))].
Proof. reflexivity. Qed.

(* timer(d): one timer with delay max(d, 0); when it fires: 0, then completion *)
Theorem timer_spec d now :
  fst (run (x_timer d) [(now, ITick 0)])
  = [(0, OTimer 0 (Z.max d 0)); (1, OEmit (Next 0%Z)); (1, OEmit Done)].
Proof. reflexivity. Qed.

(* never: nothing at all, whatever happens at its boundary *)
Lemma never_step r now i : r_live r = [] -> r_timers r = [] ->
  exists r', rstep x_never tt r now i = (tt, r', []) /\ r_live r' = [] /\ r_timers r' = [].
Proof.
  intros Hl Ht. unfold rstep. destruct (r_stopped r); [exists r; auto|].
  destruct i as [j e|tag|].
  - rewrite Hl. exists r. auto.
  - rewrite Ht. exists r. auto.
  - exists (RState [] [] true). cbn [x_never x_step idle apply_cmds release fst snd filter app]. rewrite Hl, Ht. auto.
Qed.

Lemma never_from ins : forall r k, r_live r = [] -> r_timers r = [] ->
  fst (run_from x_never tt r k ins) = [].
Proof.
  induction ins as [|[now i] rest IH]; intros r k Hl Ht; [reflexivity|].
  cbn [run_from]. destruct (never_step r now i Hl Ht) as [r' [E [Hl' Ht']]]. rewrite E.
  specialize (IH r' (S k) Hl' Ht'). destruct (run_from x_never tt r' (S k) rest) as [tr rf].
  cbn [fst] in *. now subst tr.
Qed.

Theorem never_spec ins : fst (run x_never ins) = [].
Proof.
  unfold run. cbn [x_never x_start apply_cmds finish fst snd app map].
  pose proof (never_from ins (RState [] [] false) 1 eq_refl eq_refl) as N.
  destruct (run_from x_never tt (RState [] [] false) 1 ins) as [tr rf]. cbn [fst] in *. now subst tr.
Qed.

(* ------------------------------------------------------------------------ *)
(* generate: the states of the while-loop                                      *)
Fixpoint while_states (fuel : nat) (c : Z -> bool) (f : Z -> Z) (s : Z) : list Z :=
  match fuel with
  | O => []
  | S k => if c s then s :: while_states k c f (f s) else []
  end.

Definition gen_tag (s : bool * Z * nat) : nat := snd s.

Lemma generate_chain init cond iter : chain_ok (x_generate init cond iter) gen_tag.
Proof.
  intros [[first st] tag] now t. cbn [x_generate x_step].
  destruct first; [destruct (cond st) as [[|]|e]; cbn; auto|].
  destruct (iter st) as [st'|e]; [|cbn; auto]. destruct (cond st') as [[|]|e]; cbn; auto.
Qed.

Section Generate.
Context (c : Z -> bool) (f : Z -> Z).
Let cond := fun x : Z => @Ok bool (c x).
Let iter := fun x : Z => @Ok Z (f x).

Lemma generate_chain_trace init0 : forall fuel (first : bool) st tag k,
  let s := if first then st else f st in
  let ws := while_states fuel c f s in
  length ws < fuel ->
  temitted (chain_trace (x_generate init0 cond iter) gen_tag (first, st, tag) k (zeros (S (length ws))))
  = nexts (indexed k ws) ++ [(k + length ws, Done)].
Proof.
  induction fuel as [|fuel IH]; intros first st tag k s ws Hlt; [cbn in Hlt; lia|].
  subst ws. cbn [while_states] in *. destruct (c s) eqn:Hc.
  - cbn [length] in *. rewrite zeros_S. cbn [chain_trace x_generate x_step gen_tag snd].
    assert (E : (if first then @Ok Z st else iter st) = Ok s) by (subst s; destruct first; reflexivity).
    rewrite E. unfold cond at 1. rewrite Hc. rewrite temitted_app2.
    cbn [flat_map obs_of app fin_obs map].
    specialize (IH false s (S tag) (S k)). cbn zeta in IH. cbn [length] in IH.
    rewrite IH by lia. cbn [temitted flat_map snd fst app indexed nexts map].
    f_equal. f_equal. f_equal. f_equal. lia.
  - cbn [length zeros repeat chain_trace x_generate x_step gen_tag snd].
    assert (E : (if first then @Ok Z st else iter st) = Ok s) by (subst s; destruct first; reflexivity).
    rewrite E. unfold cond at 1. rewrite Hc. cbn. now rewrite Nat.add_0_r.
Qed.

(* generate(init, condition, iterate) emits the states of
     s = init; while condition(s): yield s; s = iterate(s)
   one per firing, and completes at the firing after the last (the loop is
   assumed to exit: it uses fewer than [fuel] iterations) *)
Theorem generate_spec init fuel :
  let ws := while_states fuel c f init in
  length ws < fuel ->
  temitted (fst (run (x_generate init cond iter) (tick_ins 0 (zeros (S (length ws))))))
  = nexts (indexed 1 ws) ++ [(S (length ws), Done)].
Proof.
  intros ws Hlt.
  rewrite (chain_run0 _ _ (generate_chain init cond iter) (true, init, 0) [CTimer 0 0%Z]); try reflexivity.
  rewrite temitted_app2.
  replace (temitted (map (fun o : obs Z => (0, o)) (flat_map obs_of [CTimer 0 0%Z]))) with (@nil (nat * ev Z)) by reflexivity.
  cbn [app]. apply (generate_chain_trace init fuel true init 0 1). exact Hlt.
Qed.
End Generate.

(* with raising callbacks: the machine run equals the fuelled reference loop *)
Fixpoint gen_ref (cond : Z -> res bool) (iter : Z -> res Z) (n : nat) (first : bool) (st : Z) (k : nat)
  : list (nat * ev Z) :=
  match n with
  | O => []
  | S n' =>
      match (if first then Ok st else iter st) with
      | Raise e => [(k, Err e)]
      | Ok st' =>
          match cond st' with
          | Raise e => [(k, Err e)]
          | Ok false => [(k, Done)]
          | Ok true => (k, Next st') :: gen_ref cond iter n' false st' (S k)
          end
      end
  end.

Lemma generate_ref_trace init0 cond iter : forall n first st tag k,
  temitted (chain_trace (x_generate init0 cond iter) gen_tag (first, st, tag) k (zeros n))
  = gen_ref cond iter n first st k.
Proof.
  induction n as [|n IH]; intros first st tag k; [reflexivity|].
  rewrite zeros_S. cbn [chain_trace x_generate x_step gen_tag snd gen_ref].
  destruct (if first then @Ok Z st else iter st) as [st'|e]; [|reflexivity].
  destruct (cond st') as [[|]|e]; try reflexivity.
  rewrite temitted_app2, IH. reflexivity.
Qed.

Theorem generate_ref_spec init cond iter n :
  temitted (fst (run (x_generate init cond iter) (tick_ins 0 (zeros n)))) = gen_ref cond iter n true init 1.
Proof.
  rewrite (chain_run0 _ _ (generate_chain init cond iter) (true, init, 0) [CTimer 0 0%Z]); try reflexivity.
  rewrite temitted_app2.
  replace (temitted (map (fun o : obs Z => (0, o)) (flat_map obs_of [CTimer 0 0%Z]))) with (@nil (nat * ev Z)) by reflexivity.
  apply generate_ref_trace.
Qed.

(* ------------------------------------------------------------------------ *)
(* generate_with_relative_time                                                 *)
Definition gwrt_tag (s : bool * Z * option Z * nat) : nat := snd s.

Lemma gwrt_chain init cond iter tm : chain_ok (x_gwrt init cond iter tm) gwrt_tag.
Proof.
  intros [[[first st] result] tag] now t. cbn [x_gwrt x_step].
  assert (Ho : forallb simple (match result with Some r => [CEmit r] | None => [] end : list (cmd Z)) = true
               /\ ctimers (match result with Some r => [CEmit r] | None => [] end : list (cmd Z)) = [])
    by (destruct result; auto).
  destruct Ho as [Ho1 Ho2].
  assert (K : forall st', 
    forallb simple (snd (fst (match cond st' with
       | Raise e => ((false, st', result, tag), match result with Some r => [CEmit r] | None => [] end, Fail e)
       | Ok false => ((false, st', None, tag), match result with Some r => [CEmit r] | None => [] end, Complete)
       | Ok true => match tm st' with
                    | Raise e => ((false, st', Some st', tag), match result with Some r => [CEmit r] | None => [] end, Fail e)
                    | Ok d => ((false, st', Some st', S tag), match result with Some r => [CEmit r] | None => [] end ++ [CTimer (S tag) d], Cont)
                    end
       end))) = true
    /\ match snd (match cond st' with
       | Raise e => ((false, st', result, tag), match result with Some r => [CEmit r] | None => [] end, Fail e)
       | Ok false => ((false, st', None, tag), match result with Some r => [CEmit r] | None => [] end, Complete)
       | Ok true => match tm st' with
                    | Raise e => ((false, st', Some st', tag), match result with Some r => [CEmit r] | None => [] end, Fail e)
                    | Ok d => ((false, st', Some st', S tag), match result with Some r => [CEmit r] | None => [] end ++ [CTimer (S tag) d], Cont)
                    end
       end) with
       | Cont => ctimers (snd (fst (match cond st' with
           | Raise e => ((false, st', result, tag), match result with Some r => [CEmit r] | None => [] end, Fail e)
           | Ok false => ((false, st', None, tag), match result with Some r => [CEmit r] | None => [] end, Complete)
           | Ok true => match tm st' with
                        | Raise e => ((false, st', Some st', tag), match result with Some r => [CEmit r] | None => [] end, Fail e)
                        | Ok d => ((false, st', Some st', S tag), match result with Some r => [CEmit r] | None => [] end ++ [CTimer (S tag) d], Cont)
                        end
           end))) = [S tag]
           /\ gwrt_tag (fst (fst (match cond st' with
           | Raise e => ((false, st', result, tag), match result with Some r => [CEmit r] | None => [] end, Fail e)
           | Ok false => ((false, st', None, tag), match result with Some r => [CEmit r] | None => [] end, Complete)
           | Ok true => match tm st' with
                        | Raise e => ((false, st', Some st', tag), match result with Some r => [CEmit r] | None => [] end, Fail e)
                        | Ok d => ((false, st', Some st', S tag), match result with Some r => [CEmit r] | None => [] end ++ [CTimer (S tag) d], Cont)
                        end
           end))) = S tag
       | _ => ctimers (snd (fst (match cond st' with
           | Raise e => ((false, st', result, tag), match result with Some r => [CEmit r] | None => [] end, Fail e)
           | Ok false => ((false, st', None, tag), match result with Some r => [CEmit r] | None => [] end, Complete)
           | Ok true => match tm st' with
                        | Raise e => ((false, st', Some st', tag), match result with Some r => [CEmit r] | None => [] end, Fail e)
                        | Ok d => ((false, st', Some st', S tag), match result with Some r => [CEmit r] | None => [] end ++ [CTimer (S tag) d], Cont)
                        end
           end))) = []
       end).
  { intros st'. destruct (cond st') as [[|]|e]; cbn [fst snd]; auto.
    destruct (tm st') as [d|e]; cbn [fst snd gwrt_tag]; auto.
    rewrite simple_app, ctimers_app, Ho1, Ho2. auto. }
  destruct first; [apply K|]. destruct (iter st) as [st'|e]; [apply K|cbn [fst snd]; auto].
Qed.

Lemma ttimers_group {B} k (cs : list (cmd B)) f :
  ttimers (map (fun o => (k, o)) (flat_map obs_of cs ++ fin_obs f))
  = flat_map (fun c => match c with CTimer t d => [(k, (t, d))] | _ => [] end) cs.
Proof.
  rewrite map_app, ttimers_app.
  assert (E : ttimers (map (fun o : obs B => (k, o)) (fin_obs f)) = []) by (destruct f; reflexivity).
  rewrite E, app_nil_r. unfold ttimers.
  induction cs as [|c t IH]; [reflexivity|]. destruct c; cbn [flat_map obs_of map app fst snd]; rewrite ?IH; reflexivity.
Qed.

Section Gwrt.
Context (c : Z -> bool) (f : Z -> Z) (d : Z -> Z).
Let cond := fun x : Z => @Ok bool (c x).
Let iter := fun x : Z => @Ok Z (f x).
Let tm := fun x : Z => @Ok Z (d x).

Lemma gwrt_chain_trace init0 : forall fuel (first : bool) st result tag k nows,
  let s := if first then st else f st in
  let ws := while_states fuel c f s in
  length ws < fuel -> length nows = S (length ws) ->
  let tr := chain_trace (x_gwrt init0 cond iter tm) gwrt_tag (first, st, result, tag) k nows in
  temitted tr = (match result with Some r => [(k, Next r)] | None => [] end)
                ++ nexts (indexed (S k) ws) ++ [(k + length ws, Done)]
  /\ ttimers tr = map (fun p => (k + fst p, (S (tag + fst p), d (snd p)))) (indexed 0 ws).
Proof.
  induction fuel as [|fuel IH]; intros first st result tag k nows s ws Hlt Hn tr; [cbn in Hlt; lia|].
  subst tr ws. cbn [while_states] in *.
  assert (E : (if first then @Ok Z st else iter st) = Ok s) by (subst s; destruct first; reflexivity).
  destruct nows as [|now rest]; [cbn in Hn; lia|].
  destruct (c s) eqn:Hc.
  - cbn [length] in *. cbn [chain_trace x_gwrt x_step gwrt_tag snd]. rewrite E.
    assert (Ec : cond s = Ok true) by (unfold cond; now rewrite Hc). assert (Et : tm s = Ok (d s)) by reflexivity.
    rewrite Ec, Et. rewrite temitted_app2, ttimers_app, temitted_group, ttimers_group.
    specialize (IH false s (Some s) (S tag) (S k) rest). cbn zeta in IH.
    destruct IH as [I1 I2]; [lia|lia|]. rewrite I1, I2. split.
    + destruct result; cbn [cvals flat_map app map tfin indexed nexts fst snd]; rewrite ?app_nil_r;
        repeat (f_equal; try lia).
    + cbn [indexed map fst snd]. rewrite flat_map_app.
      assert (Z0 : flat_map (fun c0 : cmd Z => match c0 with CTimer t d0 => [(k, (t, d0))] | _ => [] end)
                     (match result with Some r => [CEmit r] | None => [] end) = []) by (destruct result; reflexivity).
      rewrite Z0. cbn [flat_map app]. f_equal; [repeat (f_equal; try lia)|].
      assert (G : forall (l : list Z) j,
                map (fun p : nat * Z => (S k + fst p, (S (S tag + fst p), d (snd p)))) (indexed j l)
                = map (fun p : nat * Z => (k + fst p, (S (tag + fst p), d (snd p)))) (indexed (S j) l)).
      { induction l as [|x l IHl]; intros j; [reflexivity|]. cbn [indexed map fst snd].
        f_equal; [repeat (f_equal; try lia)|]. apply (IHl (S j)). }
      apply G.
  - cbn [length] in *. destruct rest; [|cbn in Hn; lia].
    cbn [chain_trace x_gwrt x_step gwrt_tag snd]. rewrite E.
    assert (Ec : cond s = Ok false) by (unfold cond; now rewrite Hc). rewrite Ec.
    rewrite app_nil_r, temitted_group, ttimers_group. split.
    + destruct result; cbn; now rewrite Nat.add_0_r.
    + destruct result; reflexivity.
Qed.

(* generate_with_relative_time(init, condition, iterate, time_mapper): the
   first timer (tag 0, delay 0) only computes; for the i-th state x_i of the
   while-loop, the timer scheduled at firing i+1 carries delay d(x_i) -- zero
   included -- and x_i is emitted when THAT timer fires (firing i+2); the
   completion comes with the last emission *)
Theorem gwrt_spec init fuel nows :
  let ws := while_states fuel c f init in
  length ws < fuel -> length nows = S (length ws) ->
  let tr := fst (run (x_gwrt init cond iter tm) (tick_ins 0 nows)) in
  temitted tr = nexts (indexed 2 ws) ++ [(S (length ws), Done)]
  /\ ttimers tr = (0, (0, 0%Z)) :: map (fun p => (S (fst p), (S (fst p), d (snd p)))) (indexed 0 ws).
Proof.
  intros ws Hlt Hn tr. subst tr.
  rewrite (chain_run0 _ _ (gwrt_chain init cond iter tm) (true, init, None, 0) [CTimer 0 0%Z]); try reflexivity.
  rewrite temitted_app2, ttimers_app.
  destruct (gwrt_chain_trace init fuel true init None 0 1 nows Hlt Hn) as [I1 I2].
  cbn zeta in I1, I2. rewrite I1, I2. split; reflexivity.
Qed.
End Gwrt.

(* ------------------------------------------------------------------------ *)
(* timer(d, p)                                                                *)
Definition tp_tag (s : Z * nat) : nat := snd s.
Definition tdp_tag (s : Z * Z * nat) : nat := snd s.

Lemma timer_periodic_chain p : chain_ok (x_timer_periodic p) tp_tag.
Proof. intros [count tag] now t. cbn. auto. Qed.

Lemma timer_period_chain d p : chain_ok (x_timer_period d p) tdp_tag.
Proof. intros [[dt count] tag] now t. cbn. auto. Qed.

Lemma timer_periodic_trace p : forall nows count tag k,
  let tr := chain_trace (x_timer_periodic p) tp_tag (count, tag) k nows in
  temitted tr = nexts (indexed k (map (fun j => (count + Z.of_nat j)%Z) (seq 0 (length nows))))
  /\ ttimers tr = map (fun j => (k + j, (S (tag + j), Z.max p 0))) (seq 0 (length nows)).
Proof.
  induction nows as [|now rest IH]; intros count tag k tr; subst tr; [split; reflexivity|].
  cbn [chain_trace x_timer_periodic x_step tp_tag snd].
  rewrite temitted_app2, ttimers_app, temitted_group, ttimers_group.
  destruct (IH (count + 1)%Z (S tag) (S k)) as [I1 I2]. cbn zeta in I1, I2. rewrite I1, I2.
  cbn [length seq map cvals flat_map app tfin indexed nexts fst snd]. split.
  - f_equal; [repeat (f_equal; try lia)|]. rewrite <- seq_shift, map_map. unfold nexts. f_equal. f_equal.
    apply map_ext. intros j. lia.
  - f_equal; [repeat (f_equal; try lia)|]. rewrite <- seq_shift, map_map. apply map_ext. intros j.
    repeat (f_equal; try lia).
Qed.

(* timer(p, p): k-th firing emits k; every timer has delay p *)
Theorem timer_periodic_spec p nows :
  let tr := fst (run (x_timer_periodic p) (tick_ins 0 nows)) in
  temitted tr = nexts (indexed 1 (map Z.of_nat (seq 0 (length nows))))
  /\ ttimers tr = (0, (0, Z.max p 0)) :: map (fun j => (S j, (S j, Z.max p 0))) (seq 0 (length nows)).
Proof.
  intros tr. subst tr.
  rewrite (chain_run0 _ _ (timer_periodic_chain p) (0%Z, 0) [CTimer 0 (Z.max p 0)]); try reflexivity.
  rewrite temitted_app2, ttimers_app. destruct (timer_periodic_trace p nows 0%Z 0 1) as [I1 I2].
  cbn zeta in I1, I2. rewrite I1, I2. split; reflexivity.
Qed.

(* timer(d, p), d <> p, 0 <= d, 0 < p, firings on time (at d, d+p, d+2p, ...):
   k-th firing emits k, first delay d, then always p *)
Lemma timer_period_trace d p : (0 < p)%Z -> forall n dt count tag k,
  let nows := map (fun j => (dt + Z.of_nat j * p)%Z) (seq 0 n) in
  let tr := chain_trace (x_timer_period d p) tdp_tag (dt, count, tag) k nows in
  temitted tr = nexts (indexed k (map (fun j => (count + Z.of_nat j)%Z) (seq 0 n)))
  /\ ttimers tr = map (fun j => (k + j, (S (tag + j), p))) (seq 0 n).
Proof.
  intros Hp. induction n as [|n IH]; intros dt count tag k nows tr; subst tr nows; [split; reflexivity|].
  cbn [seq map chain_trace x_timer_period x_step tdp_tag snd].
  assert (E1 : Z.max p 0 = p) by lia. rewrite !E1.
  assert (E2 : (0 <? p)%Z = true) by (apply Z.ltb_lt; lia). rewrite E2.
  replace (dt + Z.of_nat 0 * p)%Z with dt by lia.
  assert (E3 : (dt + p <=? dt)%Z = false) by (apply Z.leb_gt; lia). rewrite E3.
  replace (Z.max (dt + p - dt) 0) with p by lia.
  rewrite temitted_app2, ttimers_app, temitted_group, ttimers_group.
  destruct (IH (dt + p)%Z (count + 1)%Z (S tag) (S k)) as [I1 I2]. cbn zeta in I1, I2.
  assert (EN : map (fun j : nat => (dt + Z.of_nat j * p)%Z) (seq 1 n)
               = map (fun j : nat => (dt + p + Z.of_nat j * p)%Z) (seq 0 n))
    by (rewrite <- seq_shift, map_map; apply map_ext; intros j; lia).
  rewrite EN, I1, I2. cbn [cvals flat_map app tfin indexed nexts fst snd map]. split.
  - f_equal; [repeat (f_equal; try lia)|]. rewrite <- seq_shift, map_map. unfold nexts. f_equal. f_equal.
    apply map_ext. intros j. lia.
  - f_equal; [repeat (f_equal; try lia)|]. rewrite <- seq_shift, map_map. apply map_ext. intros j.
    repeat (f_equal; try lia).
Qed.

Theorem timer_period_spec d p n : (0 <= d)%Z -> (0 < p)%Z ->
  let nows := map (fun j => (d + Z.of_nat j * p)%Z) (seq 0 n) in
  let tr := fst (run (x_timer_period d p) (tick_ins 0 nows)) in
  temitted tr = nexts (indexed 1 (map Z.of_nat (seq 0 n)))
  /\ ttimers tr = (0, (0, d)) :: map (fun j => (S j, (S j, p))) (seq 0 n).
Proof.
  intros Hd Hp nows tr. subst tr nows.
  rewrite (chain_run0 _ _ (timer_period_chain d p) (d, 0%Z, 0) [CTimer 0 (Z.max d 0)]); try reflexivity.
  rewrite temitted_app2, ttimers_app. destruct (timer_period_trace d p Hp n d 0%Z 0 1) as [I1 I2].
  cbn zeta in I1, I2. rewrite I1, I2. replace (Z.max d 0) with d by lia. split; reflexivity.
Qed.

(* ------------------------------------------------------------------------ *)
(* repeat_value                                                               *)
Definition rv_tag (s : bool * option nat * nat) : nat := snd s.

Lemma repeat_value_chain v rc : chain_ok (x_repeat_value v rc) rv_tag.
Proof.
  intros [[phase remaining] tag] now t. cbn [x_repeat_value x_step].
  destruct phase; [|cbn; auto]. destruct remaining as [[|r]|]; cbn; auto.
Qed.

Lemma repeat_value_trace v rc : forall r tag k,
  temitted (chain_trace (x_repeat_value v rc) rv_tag (true, Some r, tag) k (zeros (S (2 * r))))
  = map (fun j => (k + 2 * j + 1, Next v)) (seq 0 r) ++ [(k + 2 * r, Done)].
Proof.
  induction r as [|r IH]; intros tag k.
  - cbn. now rewrite Nat.add_0_r.
  - replace (S (2 * S r)) with (S (S (S (2 * r)))) by lia.
    change (zeros (S (S (S (2 * r))))) with (0%Z :: 0%Z :: zeros (S (2 * r))).
    cbn [chain_trace x_repeat_value x_step rv_tag snd option_map pred].
    rewrite !temitted_app2, !temitted_group, (IH (S (S tag)) (S (S k))).
    cbn [cvals flat_map app tfin map seq]. f_equal; [f_equal; lia|].
    rewrite <- seq_shift, map_map. f_equal; [|f_equal; f_equal; lia].
    apply map_ext. intros j. f_equal. lia.
Qed.

(* repeat_value(v, n), n >= 0: v at the firings 2, 4, ..., 2n (concat's action
   and return_value's action alternate), completion at firing 2n + 1 *)
Theorem repeat_value_spec v c : (0 <= c)%Z ->
  let n := Z.to_nat c in
  temitted (fst (run (x_repeat_value v (Some c)) (tick_ins 0 (zeros (S (2 * n))))))
  = map (fun j => (2 * j + 2, Next v)) (seq 0 n) ++ [(S (2 * n), Done)].
Proof.
  intros Hc n.
  assert (E : repeat_count (Some c) = Some n).
  { unfold repeat_count. destruct (Z.eqb_spec c (-1)); [lia|reflexivity]. }
  rewrite (chain_run0 _ _ (repeat_value_chain v (Some c)) (true, Some n, 0) [CTimer 0 0%Z]);
    try reflexivity; [|cbn [x_repeat_value x_start]; now rewrite E].
  rewrite temitted_app2.
  replace (temitted (map (fun o : obs Z => (0, o)) (flat_map obs_of [CTimer 0 0%Z]))) with (@nil (nat * ev Z)) by reflexivity.
  cbn [app]. rewrite repeat_value_trace. f_equal. apply map_ext. intros j. f_equal. lia.
Qed.

Lemma emitted_of_temitted {B} (tr : list (nat * obs B)) : emitted tr = map snd (temitted tr).
Proof.
  unfold emitted, temitted. induction tr as [|[k o] t IH]; [reflexivity|].
  destruct o; cbn [flat_map snd fst app map]; rewrite ?IH; reflexivity.
Qed.
