(* C18: buffer_with_count -- closed form of the whole run, for ALL count >= 1,
   skip >= 1, every finite source and every termination:
     buffer k is the slice  xs[k*skip .. k*skip+count-1]  (shorter at the end),
     buffers are emitted in the order of k,
     a completing source flushes the non-empty partial buffers (those with
       k*skip < length) and then completes,
     a failing source emits only the buffers that were full before the error,
       then the error; the partial ones are lost.
   The machine is [x_buffer_count] = [buffered false (x_window_count ...)]
   (Ops/Windows.v) under the window runner of Ops/MultiWin.v. *)
From RxVerif Require Import Base.Prelude Ops.Machine Ops.MachineFacts Ops.MultiWin Ops.MultiWinFacts
  Ops.Windows Ops.WindowCountFacts Ops.BufferFacts.

Local Arguments Z.of_nat : simpl never.
Local Arguments Z.mul : simpl never.
Local Arguments Z.add : simpl never.
Local Arguments Z.sub : simpl never.
Local Arguments Z.modulo : simpl never.
Local Arguments Z.div : simpl never.
Local Arguments Multi.mem : simpl never.
Local Arguments Multi.remove : simpl never.
Local Arguments Multi.sort_nat : simpl never.

(* ------------------------------------------------------- list arithmetic -- *)
Lemma zlen_app {X} (a b : list X) : zlen (a ++ b) = zlen a + zlen b.
Proof. unfold zlen. rewrite app_length. lia. Qed.
Lemma zlen_nonneg {X} (a : list X) : 0 <= zlen a.
Proof. unfold zlen. lia. Qed.

Lemma zskip_app_le {X} (p : list X) : forall a q, a <= zlen p -> zskip a (p ++ q) = zskip a p ++ q.
Proof.
  induction p as [|x t IH]; intros a q Ha.
  - unfold zlen in Ha. cbn [length] in Ha. cbn [app zskip].
    destruct q as [|y q]; [reflexivity|]. cbn [zskip]. destruct (Z.leb_spec a 0); [reflexivity|lia].
  - cbn [app zskip]. destruct (Z.leb_spec a 0); [reflexivity|].
    apply IH. unfold zlen in *. cbn [length] in Ha. lia.
Qed.

Lemma zskip_all {X} (l : list X) : forall a, zlen l <= a -> zskip a l = [].
Proof.
  induction l as [|x t IH]; intros a Ha; [reflexivity|]. cbn [zskip].
  unfold zlen in *. cbn [length] in Ha. destruct (Z.leb_spec a 0); [lia|]. apply IH. lia.
Qed.

Lemma zlen_zskip {X} (l : list X) : forall a, 0 <= a -> a <= zlen l -> zlen (zskip a l) = zlen l - a.
Proof.
  induction l as [|x t IH]; intros a H0 Ha.
  - unfold zlen in *. cbn [length] in *. cbn. lia.
  - cbn [zskip]. destruct (Z.leb_spec a 0).
    + replace a with 0 by lia. lia.
    + rewrite IH; unfold zlen in *; cbn [length] in *; lia.
Qed.

Lemma ztake_all {X} (l : list X) : forall c, zlen l <= c -> ztake c l = l.
Proof.
  induction l as [|x t IH]; intros c Hc; [reflexivity|]. cbn [ztake].
  unfold zlen in *. cbn [length] in Hc. destruct (Z.leb_spec c 0); [lia|]. f_equal. apply IH. lia.
Qed.

Lemma ztake_app_exact {X} (p : list X) : forall c q, zlen p = c -> ztake c (p ++ q) = p.
Proof.
  induction p as [|x t IH]; intros c q Hc.
  - unfold zlen in Hc. cbn [length] in Hc. subst c. destruct q; reflexivity.
  - cbn [app ztake]. unfold zlen in *. cbn [length] in Hc. destruct (Z.leb_spec c 0); [lia|].
    f_equal. apply IH. lia.
Qed.

Section BufCount.
Context {A : Type}.
Variables count skip : Z.
Hypothesis Hcount : 0 < count.
Hypothesis Hskip : 0 < skip.

Notation MW := (x_window_count (A:=A) (B:=unit) count skip).
Notation M := (x_buffer_count (A:=A) count skip).
Notation bc := (buf_cmds (A:=A) (B0:=unit)).
Notation inv := (wc_inv count skip).

(* number of buffers of a source of n elements: a completing source also
   flushes the partial ones *)
Definition nbuffers (n : Z) (tm : term) : nat :=
  match tm with
  | TDone => Z.to_nat ((n + skip - 1) / skip)
  | _ => Z.to_nat (if n <? count then 0 else (n - count) / skip + 1)
  end.

Lemma nbuffers_done n k : 0 <= n -> ((k < nbuffers n TDone)%nat <-> Z.of_nat k * skip < n).
Proof.
  intros Hn. cbn [nbuffers].
  assert (H0 : 0 <= (n + skip - 1) / skip) by (apply Z.div_pos; lia).
  split.
  - intros H. assert (H1 : Z.of_nat k + 1 <= (n + skip - 1) / skip) by lia.
    destruct (Z.lt_ge_cases (Z.of_nat k * skip) n) as [|Hge]; [assumption|exfalso].
    assert ((n + skip - 1) / skip < Z.of_nat k + 1) by (apply Z.div_lt_upper_bound; nia). lia.
  - intros H. assert (Z.of_nat k + 1 <= (n + skip - 1) / skip) by (apply Z.div_le_lower_bound; nia). lia.
Qed.

Lemma nbuffers_full n tm k : tm <> TDone -> 0 <= n ->
  ((k < nbuffers n tm)%nat <-> Z.of_nat k * skip + count <= n).
Proof.
  intros Htm Hn.
  assert (E : nbuffers n tm = Z.to_nat (if n <? count then 0 else (n - count) / skip + 1))
    by (destruct tm; [congruence|reflexivity|reflexivity]).
  rewrite E. destruct (Z.ltb_spec n count) as [Hlt|Hge].
  - cbn. split; [lia|nia].
  - assert (H0 : 0 <= (n - count) / skip) by (apply Z.div_pos; lia).
    split.
    + intros H. assert (H1 : Z.of_nat k <= (n - count) / skip) by lia.
      destruct (Z.le_gt_cases (Z.of_nat k * skip + count) n) as [|Hgt]; [assumption|exfalso].
      assert ((n - count) / skip < Z.of_nat k) by (apply Z.div_lt_upper_bound; nia). lia.
    + intros H. assert (Z.of_nat k <= (n - count) / skip) by (apply Z.div_le_lower_bound; nia). lia.
Qed.

(* ---------------------------------------------- flat_map(to_list) side -- *)
Definition okeys (open : list (nat * list A)) : list nat := map fst open.

Lemma buf_add_skip g x (head tail : list (nat * list A)) b :
  ~ In g (okeys head) -> buf_add g x (head ++ (g, b) :: tail) = head ++ (g, b ++ [x]) :: tail.
Proof.
  induction head as [|[j c] t IH]; intros Hn; cbn [app buf_add].
  - now rewrite Nat.eqb_refl.
  - cbn [okeys map fst] in Hn. destruct (Nat.eqb_spec g j) as [->|Hne]; [exfalso; apply Hn; left; reflexivity|].
    f_equal. apply IH. intros H. apply Hn. right. exact H.
Qed.

(* `for s in q: s.on_next(x)`: every open buffer gets x *)
Lemma bc_wins_next keep x (open : list (nat * list A)) : forall head,
  NoDup (okeys head ++ okeys open) ->
  bc keep (head ++ open) false (wins_all (okeys open) (Next x))
  = (head ++ map (fun kb => (fst kb, snd kb ++ [x])) open, [], Cont).
Proof.
  induction open as [|[g b] t IH]; intros head Hnd; [reflexivity|].
  cbn [okeys map fst wins_all buf_cmds].
  assert (Hg : ~ In g (okeys head)).
  { intros Hin. apply NoDup_remove_2 in Hnd. apply Hnd. apply in_or_app. left. exact Hin. }
  rewrite buf_add_skip by exact Hg.
  change (head ++ (g, b ++ [x]) :: t) with (head ++ [(g, b ++ [x])] ++ t). rewrite app_assoc.
  fold (okeys t). fold (wins_all (B:=unit) (okeys t) (Next x)). rewrite IH.
  - cbn [map fst snd]. now rewrite <- app_assoc.
  - unfold okeys in *. rewrite map_app. cbn [map fst]. rewrite <- app_assoc. exact Hnd.
Qed.

(* `for s in q: s.on_completed()` at the source's completion: every open
   buffer is emitted unless empty, in order *)
Lemma bc_wins_done (open : list (nat * list A)) :
  NoDup (okeys open) ->
  bc false open false (wins_all (okeys open) Done)
  = ([], map CEmit (filter (fun b => negb (match b with [] => true | _ => false end)) (map snd open)), Cont).
Proof.
  induction open as [|[g b] t IH]; intros Hnd; [reflexivity|].
  cbn [okeys map fst snd wins_all buf_cmds buf_get buf_del filter]. rewrite Nat.eqb_refl.
  cbn [andb orb]. fold (okeys t). fold (wins_all (A:=A) (B:=unit) (okeys t) Done).
  rewrite IH by (inversion Hnd; assumption).
  destruct b; reflexivity.
Qed.

(* an erroring source: out is empty, the result fails *)
Lemma bc_wins_err e (open : list (nat * list A)) :
  let r := bc false open false (wins_all (okeys open) (Err e)) in
  snd (fst r) = [] /\ (snd r = Cont \/ snd r = Fail e).
Proof.
  destruct open as [|[g b] t]; cbn; [auto|]. rewrite Nat.eqb_refl. cbn. auto.
Qed.

(* the open buffers after the prefix [done] of the source *)
Definition bopen (done : list A) (lo nx : nat) : list (nat * list A) :=
  map (fun k => (k, zskip (Z.of_nat k * skip) done)) (seq lo (nx - lo)).

Lemma okeys_bopen done lo nx : okeys (bopen done lo nx) = seq lo (nx - lo).
Proof. unfold okeys, bopen. rewrite map_map. cbn [fst]. apply map_id. Qed.

(* one source element through the buffered machine *)
Lemma bstep_next s n lo nx (done : list A) (x : A) now :
  inv s n lo nx -> n = zlen done ->
  let closing := n =? Z.of_nat lo * skip + count - 1 in
  let opening := n + 1 =? Z.of_nat nx * skip in
  x_step M (BufSt s (bopen done lo nx) false) now (ISrc 0%nat (Next x))
  = (BufSt (fst (wc_on_next (B:=unit) count skip s x))
           (bopen (done ++ [x]) (if closing then S lo else lo) (if opening then S nx else nx)) false,
     map CEmit (if closing then [zskip (Z.of_nat lo * skip) (done ++ [x])] else []), Cont).
Proof.
  intros I Hn. pose proof (wc_inv_lo_le count skip Hcount Hskip _ _ _ _ I) as Hle.
  destruct (wc_on_next_spec count skip Hcount Hskip (B:=unit) s n lo nx x I) as (I' & Hcs & Hlt).
  cbn zeta in *.
  unfold x_buffer_count, buffered. cbn [x_step b_inner b_open b_outer_done x_window_count].
  destruct (wc_on_next (B:=unit) count skip s x) as [s' cs] eqn:Ewc. cbn [fst snd] in *. subst cs.
  (* every open buffer gets x *)
  assert (E1 : bc false (bopen done lo nx) false (wins_all (seq lo (nx - lo)) (Next x))
               = (bopen (done ++ [x]) lo nx, [], Cont)).
  { pose proof (bc_wins_next false x (bopen done lo nx) []) as H. cbn [app okeys map] in H.
    rewrite okeys_bopen in H. rewrite H by apply seq_NoDup. f_equal. f_equal.
    unfold bopen. rewrite map_map. cbn [fst snd]. apply map_ext_in. intros k Hk. apply in_seq in Hk.
    f_equal. symmetry. apply zskip_app_le. destruct I. nia. }
  rewrite buf_cmds_app, E1. cbn [fst snd app].
  destruct (n =? Z.of_nat lo * skip + count - 1) eqn:Ec.
  - specialize (Hlt eq_refl). apply Z.eqb_eq in Ec.
    unfold bopen at 1. destruct (nx - lo)%nat as [|len] eqn:El; [lia|]. cbn [seq map app buf_cmds buf_get buf_del].
    rewrite Nat.eqb_refl. cbn [andb orb].
    assert (Hne : zskip (Z.of_nat lo * skip) (done ++ [x]) <> []).
    { intros E.
      assert (HL : zlen (zskip (Z.of_nat lo * skip) (done ++ [x])) = zlen (done ++ [x]) - Z.of_nat lo * skip)
        by (apply zlen_zskip; rewrite ?zlen_app; change (zlen [x]) with 1; nia).
      rewrite E, zlen_app in HL. change (zlen [x]) with 1 in HL. change (zlen (@nil A)) with 0 in HL. lia. }
    destruct (zskip (Z.of_nat lo * skip) (done ++ [x])) as [|z0 zs] eqn:Ez; [congruence|]. cbn [negb].
    destruct (n + 1 =? Z.of_nat nx * skip) eqn:Eo.
    + apply Z.eqb_eq in Eo. cbn [buf_cmds buf_finish fst snd app map].
      f_equal. f_equal. unfold bopen.
      replace (S nx - S lo)%nat with (len + 1)%nat by lia. rewrite seq_app, map_app. cbn [seq map].
      replace (S lo + len)%nat with nx by lia. f_equal. f_equal. f_equal. f_equal.
      symmetry. apply zskip_all. rewrite zlen_app. unfold zlen. cbn [length]. unfold zlen in *. lia.
    + cbn [buf_cmds buf_finish fst snd app map]. f_equal. f_equal. unfold bopen.
      replace (nx - S lo)%nat with len by lia. reflexivity.
  - destruct (n + 1 =? Z.of_nat nx * skip) eqn:Eo.
    + apply Z.eqb_eq in Eo. cbn [buf_cmds buf_finish fst snd app map].
      f_equal. f_equal. unfold bopen.
      replace (S nx - lo)%nat with ((nx - lo) + 1)%nat by lia. rewrite seq_app, map_app. cbn [seq map].
      replace (lo + (nx - lo))%nat with nx by lia. f_equal. f_equal. f_equal. f_equal.
      symmetry. apply zskip_all. rewrite zlen_app. unfold zlen. cbn [length]. unfold zlen in *. lia.
    + cbn [buf_cmds buf_finish fst snd app map]. reflexivity.
Qed.

(* ------------------------------------------------------------ runner side -- *)
(* the runner's state during the run: the source is subscribed, nothing else *)
Definition R0 : rstate A := RState [0%nat] [] true [] [] [] false.

Lemma apply_emits (r : rstate A) (l : list (list A)) : r_outer r = true ->
  apply_cmds (W:=A) all_imm r (map CEmit l) = (r, map (fun b => OEmit (Next b)) l).
Proof.
  intros Hr. induction l as [|b t IH]; [reflexivity|]. cbn [map apply_cmds apply_cmd]. rewrite Hr, IH.
  reflexivity.
Qed.

Lemma emitted_tag_emits k (l : list (list A)) (rest : list (nat * obs A (list A))) :
  emitted (map (fun x => (k, x)) (map (fun b => OEmit (Next b)) l) ++ rest) = map Next l ++ emitted rest.
Proof. induction l as [|b t IH]; [reflexivity|]. cbn. now rewrite <- IH. Qed.

Lemma emitted_term_release k (e : ev (list A)) (l1 l2 : list nat) :
  emitted (map (fun x => (k, x)) (OEmit (W:=A) e :: map OUnsub l1 ++ map OCancel l2)) = [e].
Proof.
  cbn [map emitted flat_map snd app]. f_equal. rewrite map_app. unfold emitted. rewrite flat_map_app.
  assert (H1 : forall l, flat_map (fun x : nat * obs A (list A) => match snd x with OEmit e0 => [e0] | _ => [] end)
                           (map (fun x => (k, x)) (map OUnsub l)) = []) by (induction l; auto).
  assert (H2 : forall l, flat_map (fun x : nat * obs A (list A) => match snd x with OEmit e0 => [e0] | _ => [] end)
                           (map (fun x => (k, x)) (map OCancel l)) = []) by (induction l; auto).
  now rewrite H1, H2.
Qed.

Lemma brstep_next s n lo nx (done : list A) (x : A) now :
  inv s n lo nx -> n = zlen done ->
  let closing := n =? Z.of_nat lo * skip + count - 1 in
  let opening := n + 1 =? Z.of_nat nx * skip in
  rstep all_imm M (BufSt s (bopen done lo nx) false) R0 now (ISrc 0%nat (Next x))
  = (BufSt (fst (wc_on_next (B:=unit) count skip s x))
           (bopen (done ++ [x]) (if closing then S lo else lo) (if opening then S nx else nx)) false,
     R0,
     map (fun b => OEmit (Next b)) (if closing then [zskip (Z.of_nat lo * skip) (done ++ [x])] else [])).
Proof.
  intros I Hn. cbn zeta. unfold rstep, R0. cbn [r_live]. change (mem 0%nat [0%nat]) with true. cbn iota.
  unfold deliver. rewrite (bstep_next s n lo nx done x now I Hn). cbn zeta.
  rewrite apply_emits by reflexivity. cbn [finish fst snd is_terminal andb app].
  now rewrite app_nil_r.
Qed.

Definition slice (xs : list A) (k : nat) : list A := ztake count (zskip (Z.of_nat k * skip) xs).

(* the non-empty partial buffers are their slices *)
Lemma flush_slices (xs : list A) (l : list nat) :
  (forall k, In k l -> Z.of_nat k * skip < zlen xs /\ zlen xs < Z.of_nat k * skip + count) ->
  filter (fun b : list A => negb match b with [] => true | _ => false end)
         (map (fun k => zskip (Z.of_nat k * skip) xs) l) = map (slice xs) l.
Proof.
  induction l as [|k l IHl]; intros Hl; [reflexivity|]. cbn [map filter].
  destruct (Hl k (or_introl eq_refl)) as [Hk1 Hk2].
  assert (Hk0 : 0 <= Z.of_nat k * skip) by nia.
  assert (HL : zlen (zskip (Z.of_nat k * skip) xs) = zlen xs - Z.of_nat k * skip)
    by (apply zlen_zskip; lia).
  assert (Hs : zskip (Z.of_nat k * skip) xs = slice xs k).
  { unfold slice. symmetry. apply ztake_all. lia. }
  rewrite <- Hs. destruct (zskip (Z.of_nat k * skip) xs) eqn:Ez.
  - change (zlen (@nil A)) with 0 in HL. lia.
  - cbn [negb]. f_equal. apply IHl. intros j Hj. apply Hl. right. exact Hj.
Qed.

Lemma bc_run_from (xs : list A) tm (ys : list A) : forall done s n lo nx pos,
  inv s n lo nx -> n = zlen done -> xs = done ++ ys ->
  emitted (fst (run_from all_imm M (BufSt s (bopen done lo nx) false) R0 pos (src_events ys tm)))
  = map Next (map (slice xs) (seq lo (nbuffers (zlen xs) tm - lo))) ++ term_ev tm.
Proof.
  induction ys as [|y t IH]; intros done s n lo nx pos I Hn Hxs.
  - (* the terminal *)
    rewrite app_nil_r in Hxs. subst done. pose proof (wc_inv_lo_le count skip Hcount Hskip _ _ _ _ I) as Hle.
    pose proof (zlen_nonneg xs) as Hx0.
    unfold src_events. cbn [map app]. destruct tm as [|e|]; cbn [term_ev map].
    + (* completion: flush *)
      rewrite run_from_cons. cbn [run_from fst]. rewrite app_nil_r.
      unfold rstep, R0. cbn [r_live]. change (mem 0%nat [0%nat]) with true. cbn iota.
      unfold deliver. unfold x_buffer_count, buffered. cbn [x_step b_inner b_open b_outer_done x_window_count].
      rewrite (wi_q _ _ _ _ _ _ I), <- (okeys_bopen xs lo nx).
      rewrite bc_wins_done by (rewrite okeys_bopen; apply seq_NoDup).
      cbn [buf_finish]. rewrite apply_emits by reflexivity. cbn [fst snd finish r_outer].
      unfold end_outer, maybe_release.
      cbn [r_live r_timers r_outer r_wsubs r_wterm r_handed r_released negb andb fst snd is_terminal].
      change (mem 0%nat []) with false. cbn iota. rewrite app_nil_r.
      cbn [snd]. rewrite map_app, emitted_tag_emits, emitted_term_release. f_equal.
      (* the flushed buffers are the remaining slices *)
      f_equal. unfold bopen. rewrite map_map. cbn [snd].
      destruct I as [_ Hn0 _ _ Hnx1 H1 H2 H3 H4].
      set (K := nbuffers (zlen xs) TDone).
      assert (HK : forall k, (k < K)%nat <-> Z.of_nat k * skip < zlen xs) by (intros k; apply nbuffers_done; lia).
      destruct (Z.eq_dec ((Z.of_nat nx - 1) * skip) (zlen xs)) as [Eeq|Eneq].
      * (* the newest window is empty *)
        assert (EK : K = (nx - 1)%nat).
        { assert (~ (nx - 1 < K)%nat) by (rewrite HK; nia).
          destruct (Nat.eq_dec nx 1) as [->|]; [lia|].
          assert ((nx - 2 < K)%nat) by (apply HK; nia). lia. }
        rewrite EK. destruct (nx - lo)%nat as [|len] eqn:El.
        -- replace (nx - 1 - lo)%nat with 0%nat by lia. reflexivity.
        -- replace (nx - 1 - lo)%nat with len by lia. rewrite seq_S, map_app, filter_app. cbn [map filter].
           rewrite (zskip_all xs (Z.of_nat (lo + len) * skip)) by nia. cbn [negb app]. rewrite app_nil_r.
           apply flush_slices. intros k Hk. apply in_seq in Hk. split; nia.
      * assert (EK : K = nx).
        { assert ((nx - 1 < K)%nat) by (apply HK; nia).
          assert (~ (nx < K)%nat) by (rewrite HK; nia). lia. }
        rewrite EK.
        apply flush_slices. intros k Hk. apply in_seq in Hk. split; nia.
    + (* error: partial buffers are lost *)
      rewrite run_from_cons. cbn [run_from fst]. rewrite app_nil_r.
      unfold rstep, R0. cbn [r_live]. change (mem 0%nat [0%nat]) with true. cbn iota.
      unfold deliver. unfold x_buffer_count, buffered. cbn [x_step b_inner b_open b_outer_done x_window_count].
      rewrite (wi_q _ _ _ _ _ _ I), <- (okeys_bopen xs lo nx).
      destruct (bc_wins_err e (bopen xs lo nx)) as [Ho Hf]. cbn zeta in *.
      destruct (bc false (bopen xs lo nx) false (wins_all (okeys (bopen xs lo nx)) (Err e))) as [[op out] f1].
      cbn [fst snd] in *. subst out.
      assert (Ef : snd (buf_finish op false f1 (Fail e)) = Fail e) by (destruct Hf as [->| ->]; reflexivity).
      destruct (buf_finish op false f1 (Fail e)) as [od f2]. cbn [snd] in Ef. subst f2.
      cbn [apply_cmds fst snd finish r_outer app].
      unfold end_outer, maybe_release.
      cbn [r_live r_timers r_outer r_wsubs r_wterm r_handed r_released negb andb fst snd is_terminal].
      change (mem 0%nat []) with false. cbn iota.
      assert (EK : (nbuffers (zlen xs) (TErr e) - lo = 0)%nat).
      { assert (~ (lo < nbuffers (zlen xs) (TErr e))%nat); [|lia].
        rewrite nbuffers_full by (try discriminate; lia). destruct I. lia. }
      rewrite EK. reflexivity.
    + (* the source never ends *)
      assert (EK : (nbuffers (zlen xs) TNever - lo = 0)%nat).
      { assert (~ (lo < nbuffers (zlen xs) TNever)%nat); [|lia].
        rewrite nbuffers_full by (try discriminate; lia). destruct I. lia. }
      rewrite EK. reflexivity.
  - (* one element *)
    unfold src_events. cbn [map app]. fold (src_events t tm). rewrite run_from_cons.
    rewrite (brstep_next s n lo nx done y 0 I Hn). cbn [fst snd].
    destruct (wc_on_next_spec count skip Hcount Hskip (B:=unit) s n lo nx y I) as (I' & _ & Hlt). cbn zeta in *.
    cbn [fst]. rewrite emitted_tag_emits.
    rewrite (IH (done ++ [y]) _ (n + 1) _ _ _ I')
      by (rewrite ?zlen_app, <- ?app_assoc; unfold zlen; cbn [length app]; unfold zlen in Hn; auto; lia).
    destruct (n =? Z.of_nat lo * skip + count - 1) eqn:Ec; [|reflexivity].
    apply Z.eqb_eq in Ec. cbn [map app].
    (* the buffer that just filled up is slice lo, and lo is below the count of buffers *)
    assert (Hlen : zlen xs = n + 1 + zlen t).
    { rewrite Hxs, zlen_app. unfold zlen. cbn [length]. unfold zlen in Hn. lia. }
    pose proof (zlen_nonneg t) as Ht0.
    assert (Hlo : (lo < nbuffers (zlen xs) tm)%nat).
    { destruct tm as [|e|].
      - apply nbuffers_done; [lia|]. nia.
      - apply nbuffers_full; [discriminate|lia|]. nia.
      - apply nbuffers_full; [discriminate|lia|]. nia. }
    replace (nbuffers (zlen xs) tm - lo)%nat with (S (nbuffers (zlen xs) tm - S lo))%nat by lia.
    cbn [seq map app].
    assert (Hd : Z.of_nat lo * skip <= zlen (done ++ [y])).
    { rewrite zlen_app. change (zlen [y]) with 1. destruct I. nia. }
    assert (E : zskip (Z.of_nat lo * skip) (done ++ [y]) = slice xs lo).
    { unfold slice. rewrite Hxs.
      replace (done ++ y :: t) with ((done ++ [y]) ++ t) by (rewrite <- app_assoc; reflexivity).
      rewrite (zskip_app_le (done ++ [y]) _ t Hd). symmetry. apply ztake_app_exact.
      rewrite zlen_zskip by (try exact Hd; nia). rewrite zlen_app. change (zlen [y]) with 1. lia. }
    rewrite E. reflexivity.
Qed.

(* THEOREM (C18, buffer_with_count) *)
Theorem buffer_count_closed_form (xs : list A) (tm : term) :
  emitted (fst (run all_imm M (src_events xs tm)))
  = map Next (map (fun k => ztake count (zskip (Z.of_nat k * skip) xs)) (seq 0 (nbuffers (zlen xs) tm)))
    ++ term_ev tm.
Proof.
  rewrite run_unfold. cbn [fst].
  assert (Es : start_state all_imm M = (BufSt (WcSt 0 [0%nat] 1) (bopen [] 0 1) false, R0)) by reflexivity.
  assert (Eo : start_obs all_imm M = [OSub 0%nat]) by reflexivity.
  rewrite Es, Eo. cbn [fst snd map app].
  change (emitted ((0%nat, OSub 0%nat) :: ?l)) with (emitted l).
  rewrite (bc_run_from xs tm xs [] _ 0 0%nat 1%nat 1%nat (wc_inv0 count skip Hcount Hskip) eq_refl eq_refl).
  rewrite Nat.sub_0_r. reflexivity.
Qed.

Corollary buffer_count_completing (xs : list A) :
  emitted (fst (run all_imm M (src_events xs TDone)))
  = map Next (map (fun k => ztake count (zskip (Z.of_nat k * skip) xs))
                  (seq 0 (Z.to_nat ((zlen xs + skip - 1) / skip))))
    ++ [Done].
Proof. exact (buffer_count_closed_form xs TDone). Qed.

Corollary buffer_count_failing (xs : list A) tm : tm <> TDone ->
  emitted (fst (run all_imm M (src_events xs tm)))
  = map Next (map (fun k => ztake count (zskip (Z.of_nat k * skip) xs))
                  (seq 0 (Z.to_nat (if zlen xs <? count then 0 else (zlen xs - count) / skip + 1))))
    ++ term_ev tm.
Proof.
  intros Htm. rewrite (buffer_count_closed_form xs tm).
  destruct tm; [congruence|reflexivity|reflexivity].
Qed.
End BufCount.
