(* C38 -- the lexer is total for the right reason, and the well-formed diagrams
   cover exactly the "clean" strings.
   [lex_fuel]       : the fuel of [lex] (= the length of the string) is never
                      exhausted: any larger fuel gives the same tokens, and [lex]
                      satisfies the fuel-free recursive equation [lex_cons].
   [clean_str]      : a direct, lexer-free reading of "no comma outside a group,
                      every ( closed by a ) on the same line, no ) outside a group".
   [clean_iff_tokens]: that is exactly "the token list has no TComma and the tokens,
                      written back, give the string" (no character was skipped).
   [cover]          : every clean string without spaces is the rendering of a
                      well-formed diagram, whose items are the tokens of the string;
   [wf_render_clean]: conversely every rendering of a well-formed diagram is clean.
   [parse_comma_rejected]: a comma token always makes parse raise.
   Models are untouched (Ops/Marbles.v). *)
From Coq Require Import List Ascii String Bool Arith Lia.
From RxVerif Require Import Ops.Marbles Ops.MarblesFacts.
Import ListNotations.
Open Scope char_scope.
Open Scope list_scope.

(* ---- span / find_close: what they return ------------------------------------------- *)
Lemma span_spec : forall p s a b, span p s = (a, b) ->
  s = a ++ b /\ forallb p a = true /\ head_is p b.
Proof.
  intros p. induction s as [|c r IH]; intros a b H; simpl in H.
  - inversion H; subst. repeat split.
  - destruct (p c) eqn:Hc.
    + destruct (span p r) as [a' b'] eqn:E. inversion H; subst.
      destruct (IH _ _ eq_refl) as [E1 [E2 E3]]. rewrite E1 at 1.
      repeat split; [simpl; rewrite Hc, E2; reflexivity | exact E3].
    + inversion H; subst. repeat split. simpl. exact Hc.
Qed.

Lemma find_close_spec : forall s a b, find_close s = Some (a, b) ->
  s = a ++ ")" :: b /\ forallb close_free a = true.
Proof.
  induction s as [|c r IH]; intros a b H; simpl in H; [discriminate|].
  destruct (ch_eqb c ")") eqn:E1.
  - inversion H; subst. apply ch_eqb_eq in E1. subst. split; reflexivity.
  - destruct (ch_eqb c newline) eqn:E2; [discriminate|].
    destruct (find_close r) as [[a' b']|] eqn:E; [|discriminate]. inversion H; subst.
    destruct (IH _ _ eq_refl) as [E3 E4]. rewrite E3 at 1. split; [reflexivity|].
    simpl. unfold close_free at 1. rewrite E1, E2, E4. reflexivity.
Qed.

(* ---- (1) fuel adequacy ---------------------------------------------------------------- *)
Lemma lex_aux_fuel : forall f1 f2 s, List.length s <= f1 -> List.length s <= f2 ->
  lex_aux f1 s = lex_aux f2 s.
Proof.
  induction f1 as [|f1 IH]; intros f2 s H1 H2.
  - destruct s; [|simpl in H1; lia]. destruct f2; reflexivity.
  - destruct s as [|c r]; [destruct f2; reflexivity|].
    destruct f2 as [|f2]; [simpl in H2; lia|]. simpl in H1, H2.
    cbn [lex_aux].
    destruct (ch_eqb c "(").
    { destruct (find_close r) as [[a b]|] eqn:E.
      - apply find_close_spec in E. destruct E as [E _].
        rewrite E, app_length in H1, H2. simpl in H1, H2. f_equal. apply IH; lia.
      - apply IH; lia. }
    destruct (ch_eqb c "-").
    { destruct (span is_dash r) as [a b] eqn:E. apply span_spec in E. destruct E as [E _].
      rewrite E, app_length in H1, H2. f_equal. apply IH; lia. }
    destruct (ch_eqb c ","); [f_equal; apply IH; lia|].
    destruct (ch_eqb c "#"); [f_equal; apply IH; lia|].
    destruct (ch_eqb c "|"); [f_equal; apply IH; lia|].
    destruct (ch_eqb c ")"); [apply IH; lia|].
    destruct (span elem_char r) as [a b] eqn:E. apply span_spec in E. destruct E as [E _].
    rewrite E, app_length in H1, H2. f_equal. apply IH; lia.
Qed.

(* any fuel at least the length of the string gives the tokens of [lex] *)
Theorem lex_fuel : forall s k, lex_aux (List.length s + k) s = lex s.
Proof. intros s k. unfold lex. apply lex_aux_fuel; lia. Qed.

(* hence [lex] satisfies the recursive equation of the regular expression, without fuel *)
Theorem lex_nil : lex [] = [].
Proof. reflexivity. Qed.

Theorem lex_cons : forall c r, lex (c :: r) =
  if ch_eqb c "(" then
    match find_close r with
    | Some (content, rest) => TGroup content :: lex rest
    | None => lex r
    end
  else if ch_eqb c "-" then
    let (t, rest) := span is_dash r in TTicks (S (List.length t)) :: lex rest
  else if ch_eqb c "," then TComma :: lex r
  else if ch_eqb c "#" then TElem [c] :: lex r
  else if ch_eqb c "|" then TElem [c] :: lex r
  else if ch_eqb c ")" then lex r
  else let (t, rest) := span elem_char r in TElem (c :: t) :: lex rest.
Proof.
  intros c r. unfold lex. cbn [List.length lex_aux].
  destruct (ch_eqb c "(").
  { destruct (find_close r) as [[a b]|] eqn:E; [|reflexivity].
    apply find_close_spec in E. destruct E as [E _]. f_equal.
    apply lex_aux_fuel; [|lia]. rewrite E, app_length. simpl. lia. }
  destruct (ch_eqb c "-").
  { destruct (span is_dash r) as [a b] eqn:E. apply span_spec in E. destruct E as [E _]. f_equal.
    apply lex_aux_fuel; [|lia]. rewrite E, app_length. lia. }
  destruct (ch_eqb c ","); [reflexivity|].
  destruct (ch_eqb c "#"); [reflexivity|].
  destruct (ch_eqb c "|"); [reflexivity|].
  destruct (ch_eqb c ")"); [reflexivity|].
  destruct (span elem_char r) as [a b] eqn:E. apply span_spec in E. destruct E as [E _]. f_equal.
  apply lex_aux_fuel; [|lia]. rewrite E, app_length. lia.
Qed.

(* ---- clean strings ------------------------------------------------------------------------ *)
(* direct reading, no tokens: outside a group a "," or a ")" is an error and "("
   opens a group; inside a group ")" closes it and a newline (which the regular
   expression's "." does not cross) or the end of the string is an error *)
Fixpoint scan_clean (inside : bool) (s : str) : bool :=
  match s with
  | [] => negb inside
  | c :: r =>
    if inside then
      if ch_eqb c ")" then scan_clean false r
      else if ch_eqb c newline then false
      else scan_clean true r
    else
      if ch_eqb c "(" then scan_clean true r
      else if ch_eqb c ")" || ch_eqb c "," then false
      else scan_clean false r
  end.
Definition clean_str (s : str) : bool := scan_clean false s.

(* token reading: no comma token, and the tokens written back give the string *)
Definition tok_str (t : token) : str :=
  match t with
  | TGroup c => "(" :: c ++ [")"]
  | TTicks n => repeat "-" n
  | TComma => [","]
  | TElem e => e
  end.
Definition untok (toks : list token) : str := flat_map tok_str toks.
Definition no_comma (toks : list token) : bool :=
  forallb (fun t => match t with TComma => false | _ => true end) toks.
Definition clean (s : str) (toks : list token) : bool := no_comma toks && str_eqb (untok toks) s.

Definition nospace (s : str) : bool := forallb (fun c => negb (ch_eqb c " ")) s.
Definition plain (c : ascii) : bool := negb (ch_eqb c "(" || ch_eqb c ")" || ch_eqb c ",").

Lemma scan_skip : forall a b, forallb plain a = true -> scan_clean false (a ++ b) = scan_clean false b.
Proof.
  induction a as [|c r IH]; intros b H; [reflexivity|].
  simpl in H. apply andb_true_iff in H. destruct H as [Hc Hr].
  unfold plain in Hc. apply negb_true_iff in Hc.
  apply orb_false_iff in Hc. destruct Hc as [Hc H3]. apply orb_false_iff in Hc. destruct Hc as [H1 H2].
  simpl. rewrite H1, H2, H3. simpl. apply IH. exact Hr.
Qed.

Lemma scan_inside_app : forall a b, forallb close_free a = true ->
  scan_clean true (a ++ ")" :: b) = scan_clean false b.
Proof.
  induction a as [|c r IH]; intros b H; [reflexivity|].
  simpl in H. apply andb_true_iff in H. destruct H as [Hc Hr].
  unfold close_free in Hc. apply andb_true_iff in Hc. destruct Hc as [H1 H2].
  apply negb_true_iff in H1. apply negb_true_iff in H2.
  simpl. rewrite H1, H2. apply IH. exact Hr.
Qed.

Lemma scan_inside : forall r, scan_clean true r = true ->
  exists a b, find_close r = Some (a, b) /\ scan_clean false b = true.
Proof.
  induction r as [|c r IH]; intros H; simpl in H; [discriminate|].
  simpl. destruct (ch_eqb c ")").
  - exists [], r. split; [reflexivity | exact H].
  - destruct (ch_eqb c newline); [discriminate|].
    destruct (IH H) as [a [b [E1 E2]]]. rewrite E1. exists (c :: a), b. split; [reflexivity | exact E2].
Qed.

Lemma is_dash_plain : forall c, is_dash c = true -> plain c = true.
Proof. intros c H. unfold is_dash in H. apply ch_eqb_eq in H. subst. reflexivity. Qed.

Lemma elem_char_plain : forall c, elem_char c = true -> plain c = true.
Proof.
  intros c H. destruct (elem_char_inv _ H) as [_ [E2 [E3 [E4 _]]]].
  unfold plain. rewrite E2, E3, E4. reflexivity.
Qed.

Lemma dashes_repeat : forall a, forallb is_dash a = true -> a = repeat "-" (List.length a).
Proof.
  induction a as [|c r IH]; intros H; [reflexivity|].
  simpl in H. apply andb_true_iff in H. destruct H as [Hc Hr].
  unfold is_dash in Hc. apply ch_eqb_eq in Hc. subst. simpl. f_equal. apply IH. exact Hr.
Qed.

(* ---- split / join, the other way round ----------------------------------------------------- *)
Lemma join_split : forall a, join_comma (split_comma a) = a.
Proof.
  induction a as [|c r IH]; [reflexivity|].
  simpl. destruct (ch_eqb c ",") eqn:Hc.
  - apply ch_eqb_eq in Hc. subst.
    pose proof (split_comma_nonempty r) as Hne.
    destruct (split_comma r) as [|h t] eqn:E; [contradiction|].
    change (join_comma ([] :: h :: t)) with ([] ++ "," :: join_comma (h :: t)).
    rewrite IH. reflexivity.
  - pose proof (split_comma_nonempty r) as Hne.
    destruct (split_comma r) as [|h t] eqn:E; [contradiction|].
    destruct t as [|e t'].
    + simpl in *. rewrite IH. reflexivity.
    + change (join_comma ((c :: h) :: e :: t')) with ((c :: h) ++ "," :: join_comma (e :: t')).
      change (join_comma (h :: e :: t')) with (h ++ "," :: join_comma (e :: t')) in IH.
      rewrite <- IH. reflexivity.
Qed.

Lemma split_forall : forall (q : ascii -> bool) a, forallb q a = true ->
  forallb (forallb (fun c => q c && comma_free c)) (split_comma a) = true.
Proof.
  intros q. induction a as [|c r IH]; intros H; [reflexivity|].
  simpl in H. apply andb_true_iff in H. destruct H as [Hc Hr]. specialize (IH Hr).
  simpl. destruct (ch_eqb c ",") eqn:E.
  - simpl. exact IH.
  - destruct (split_comma r) as [|h t]; simpl in *.
    + rewrite Hc. unfold comma_free. rewrite E. reflexivity.
    + rewrite Hc. unfold comma_free at 1. rewrite E. simpl. exact IH.
Qed.

Lemma group_char_of : forall c, (close_free c && negb (ch_eqb c " ")) && comma_free c = true -> group_char c = true.
Proof.
  intros c. unfold close_free, comma_free, group_char.
  destruct (ch_eqb c ","), (ch_eqb c ")"), (ch_eqb c newline), (ch_eqb c " "); simpl; auto.
Qed.

(* ---- heads of renderings ------------------------------------------------------------------- *)
Lemma adj_after_ticks : forall m d, wf d = true -> head_is is_dash (render d) ->
  match d with [] => true | j :: _ => adj_ok (ITicks m) j end = true.
Proof.
  intros m [|j d'] Hw Hh; [reflexivity|]. destruct j as [k|s| | |es]; try reflexivity.
  exfalso. destruct (wf_tail _ _ Hw) as [Hi _]. simpl in Hi. destruct k as [|k]; [discriminate|].
  simpl in Hh. discriminate.
Qed.

Lemma adj_after_elem : forall s d, wf d = true -> head_is elem_char (render d) ->
  match d with [] => true | j :: _ => adj_ok (IElem s) j end = true.
Proof.
  intros s [|j d'] Hw Hh; [reflexivity|]. destruct j as [k|e| | |es]; try reflexivity.
  exfalso. destruct (wf_tail _ _ Hw) as [Hi _]. simpl in Hi.
  apply andb_true_iff in Hi. destruct Hi as [Hne Hv]. destruct e as [|c t]; [discriminate|].
  simpl in Hv. apply andb_true_iff in Hv. destruct Hv as [Hc _].
  unfold value_char in Hc. apply andb_true_iff in Hc. destruct Hc as [Hc _].
  simpl in Hh. rewrite Hc in Hh. discriminate.
Qed.

Lemma wf_cons_intro : forall i d, wf_item i = true ->
  match d with [] => true | j :: _ => adj_ok i j end = true -> wf d = true -> wf (i :: d) = true.
Proof. intros i d H1 H2 H3. simpl. rewrite H1, H2, H3. reflexivity. Qed.

Lemma nospace_app : forall a b, nospace (a ++ b) = nospace a && nospace b.
Proof. intros. unfold nospace. apply forallb_app. Qed.

(* ---- (2) coverage ------------------------------------------------------------------------- *)
Lemma cover_gen : forall n t, List.length t <= n -> clean_str t = true -> nospace t = true ->
  exists d, wf d = true /\ render d = t /\ lex t = map tok_of d.
Proof.
  induction n as [|n IH]; intros t Hn Hc Hs.
  - destruct t; [|simpl in Hn; lia]. exists []. repeat split.
  - destruct t as [|c r]; [exists []; repeat split|].
    simpl in Hn. rewrite lex_cons. unfold clean_str in Hc. cbn [scan_clean] in Hc.
    change (nospace (c :: r)) with (negb (ch_eqb c " ") && nospace r) in Hs.
    apply andb_true_iff in Hs. destruct Hs as [Hsc Hsr].
    destruct (ch_eqb c "(") eqn:E1.
    { (* group *)
      apply ch_eqb_eq in E1. subst c.
      destruct (scan_inside _ Hc) as [a [b [Ef Hb]]]. rewrite Ef.
      destruct (find_close_spec _ _ _ Ef) as [Er Ha]. subst r.
      rewrite nospace_app in Hsr. apply andb_true_iff in Hsr. destruct Hsr as [Hsa Hsb].
      change (nospace (")" :: b)) with (true && nospace b) in Hsb. simpl in Hsb.
      rewrite app_length in Hn. simpl in Hn.
      destruct (IH b ltac:(lia) Hb Hsb) as [d [Hw [Hr Hl]]].
      exists (IGroup (split_comma a) :: d). split; [|split].
      - apply wf_cons_intro; [|destruct d; reflexivity|exact Hw].
        simpl. apply andb_true_iff. split.
        + pose proof (split_comma_nonempty a). destruct (split_comma a); [contradiction | reflexivity].
        + eapply forallb_impl; [|apply (split_forall (fun c => close_free c && negb (ch_eqb c " ")))].
          * intros e He. eapply forallb_impl; [|exact He]. intros c Hc'. apply group_char_of. exact Hc'.
          * clear - Ha Hsa. unfold nospace in Hsa. induction a as [|x a IHa]; [reflexivity|].
            simpl in *. apply andb_true_iff in Ha. destruct Ha as [H1 H2].
            apply andb_true_iff in Hsa. destruct Hsa as [H3 H4]. rewrite H1, H3. simpl. apply IHa; assumption.
      - rewrite render_cons. simpl render_item. rewrite join_split, Hr.
        simpl. rewrite <- app_assoc. reflexivity.
      - simpl. rewrite join_split, Hl. reflexivity. }
    destruct (ch_eqb c "-") eqn:E2.
    { (* ticks *)
      apply ch_eqb_eq in E2. subst c. simpl in Hc.
      destruct (span is_dash r) as [a b] eqn:Esp.
      destruct (span_spec _ _ _ _ Esp) as [Er [Ha Hh]]. subst r.
      rewrite scan_skip in Hc by (eapply forallb_impl; [apply is_dash_plain | exact Ha]).
      rewrite nospace_app in Hsr. apply andb_true_iff in Hsr. destruct Hsr as [Hsa Hsb].
      rewrite app_length in Hn.
      destruct (IH b ltac:(lia) Hc Hsb) as [d [Hw [Hr Hl]]].
      exists (ITicks (S (List.length a)) :: d). split; [|split].
      - apply wf_cons_intro; [reflexivity | | exact Hw].
        apply adj_after_ticks; [exact Hw | rewrite Hr; exact Hh].
      - rewrite render_cons. simpl render_item. rewrite Hr. rewrite <- (dashes_repeat a Ha). reflexivity.
      - simpl. rewrite Hl. reflexivity. }
    destruct (ch_eqb c ",") eqn:E3; [rewrite orb_true_r in Hc; discriminate|].
    destruct (ch_eqb c "#") eqn:E4.
    { apply ch_eqb_eq in E4. subst c. simpl in Hc.
      destruct (IH r ltac:(lia) Hc Hsr) as [d [Hw [Hr Hl]]].
      exists (IErr :: d). split; [|split].
      - apply wf_cons_intro; [reflexivity | destruct d; reflexivity | exact Hw].
      - rewrite render_cons, Hr. reflexivity.
      - simpl. rewrite Hl. reflexivity. }
    destruct (ch_eqb c "|") eqn:E5.
    { apply ch_eqb_eq in E5. subst c. simpl in Hc.
      destruct (IH r ltac:(lia) Hc Hsr) as [d [Hw [Hr Hl]]].
      exists (IEnd :: d). split; [|split].
      - apply wf_cons_intro; [reflexivity | destruct d; reflexivity | exact Hw].
      - rewrite render_cons, Hr. reflexivity.
      - simpl. rewrite Hl. reflexivity. }
    destruct (ch_eqb c ")") eqn:E6; [simpl in Hc; discriminate|].
    (* value *)
    simpl in Hc.
    destruct (span elem_char r) as [a b] eqn:Esp.
    destruct (span_spec _ _ _ _ Esp) as [Er [Ha Hh]]. subst r.
    rewrite scan_skip in Hc by (eapply forallb_impl; [apply elem_char_plain | exact Ha]).
    rewrite nospace_app in Hsr. apply andb_true_iff in Hsr. destruct Hsr as [Hsa Hsb].
    rewrite app_length in Hn.
    destruct (IH b ltac:(lia) Hc Hsb) as [d [Hw [Hr Hl]]].
    assert (Hec : elem_char c = true) by (unfold elem_char; rewrite E1, E2, E3, E4, E5, E6; reflexivity).
    exists (IElem (c :: a) :: d). split; [|split].
    + apply wf_cons_intro; [| |exact Hw].
      * simpl. unfold value_char at 1. rewrite Hec, Hsc. simpl.
        clear - Ha Hsa. unfold nospace in Hsa. induction a as [|x a IHa]; [reflexivity|].
        simpl in *. apply andb_true_iff in Ha. destruct Ha as [H1 H2].
        apply andb_true_iff in Hsa. destruct Hsa as [H3 H4].
        unfold value_char at 1. rewrite H1, H3. simpl. apply IHa; assumption.
      * apply adj_after_elem; [exact Hw | rewrite Hr; exact Hh].
    + rewrite render_cons. simpl render_item. rewrite Hr. reflexivity.
    + simpl. rewrite Hl. reflexivity.
Qed.

Lemma remove_spaces_nospace : forall s, nospace (remove_spaces s) = true.
Proof.
  induction s as [|c r IH]; [reflexivity|]. unfold remove_spaces. simpl.
  destruct (negb (ch_eqb c " ")) eqn:E; [|exact IH]. simpl. rewrite E. exact IH.
Qed.

(* every clean string without spaces is the rendering of a well-formed diagram,
   and the items of the diagram are the tokens of the string *)
Theorem cover : forall t, clean_str t = true -> nospace t = true ->
  exists d, wf d = true /\ render d = t /\ lex t = map tok_of d.
Proof. intros t. apply (cover_gen (List.length t)). lia. Qed.

(* the form used by the parser: any string, after its spaces are removed *)
Theorem cover_string : forall s, clean_str (remove_spaces s) = true ->
  exists d, wf d = true /\ render d = remove_spaces s.
Proof.
  intros s H. destruct (cover _ H (remove_spaces_nospace s)) as [d [H1 [H2 _]]].
  exists d. split; assumption.
Qed.

(* ---- clean_str is the token condition -------------------------------------------------------- *)
Lemma untok_length_gen : forall n s, List.length s <= n -> List.length (untok (lex s)) <= List.length s.
Proof.
  induction n as [|n IH]; intros s Hn.
  - destruct s; [simpl; lia | simpl in Hn; lia].
  - destruct s as [|c r]; [simpl; lia|]. simpl in Hn. rewrite lex_cons.
    destruct (ch_eqb c "(").
    { destruct (find_close r) as [[a b]|] eqn:E.
      - destruct (find_close_spec _ _ _ E) as [Er _]. subst r. rewrite app_length in Hn. simpl in Hn.
        specialize (IH b ltac:(lia)). unfold untok in *. simpl. rewrite !app_length in *. simpl. lia.
      - specialize (IH r ltac:(lia)). simpl. lia. }
    destruct (ch_eqb c "-").
    { destruct (span is_dash r) as [a b] eqn:E. destruct (span_spec _ _ _ _ E) as [Er _]. subst r.
      rewrite app_length in Hn. specialize (IH b ltac:(lia)).
      unfold untok in *. simpl. rewrite !app_length, repeat_length in *. lia. }
    destruct (ch_eqb c ","); [specialize (IH r ltac:(lia)); unfold untok in *; simpl; lia|].
    destruct (ch_eqb c "#"); [specialize (IH r ltac:(lia)); unfold untok in *; simpl; lia|].
    destruct (ch_eqb c "|"); [specialize (IH r ltac:(lia)); unfold untok in *; simpl; lia|].
    destruct (ch_eqb c ")"); [specialize (IH r ltac:(lia)); simpl; lia|].
    destruct (span elem_char r) as [a b] eqn:E. destruct (span_spec _ _ _ _ E) as [Er _]. subst r.
    rewrite app_length in Hn. specialize (IH b ltac:(lia)).
    unfold untok in *. simpl. rewrite !app_length in *. lia.
Qed.

(* the lexer only ever drops characters *)
Lemma untok_length : forall s, List.length (untok (lex s)) <= List.length s.
Proof. intros s. apply (untok_length_gen (List.length s)). lia. Qed.

Lemma untok_cons : forall t r, untok (t :: r) = tok_str t ++ untok r.
Proof. reflexivity. Qed.

Lemma tokens_clean_gen : forall n t, List.length t <= n ->
  no_comma (lex t) = true -> untok (lex t) = t -> clean_str t = true.
Proof.
  induction n as [|n IH]; intros t Hn Hc Hu.
  - destruct t; [reflexivity | simpl in Hn; lia].
  - destruct t as [|c r]; [reflexivity|]. simpl in Hn. rewrite lex_cons in Hc, Hu.
    unfold clean_str. cbn [scan_clean].
    destruct (ch_eqb c "(") eqn:E1.
    { apply ch_eqb_eq in E1. subst c.
      destruct (find_close r) as [[a b]|] eqn:E.
      - destruct (find_close_spec _ _ _ E) as [Er Ha]. subst r.
        rewrite untok_cons in Hu. simpl in Hu. injection Hu as Hu.
        rewrite <- app_assoc in Hu. apply app_inv_head in Hu. simpl in Hu. injection Hu as Hu.
        rewrite app_length in Hn. simpl in Hn. simpl in Hc.
        rewrite scan_inside_app by exact Ha. apply (IH b); [lia | exact Hc | exact Hu].
      - exfalso. pose proof (untok_length r) as Hl. rewrite Hu in Hl. simpl in Hl. lia. }
    destruct (ch_eqb c "-") eqn:E2.
    { apply ch_eqb_eq in E2. subst c. simpl.
      destruct (span is_dash r) as [a b] eqn:Esp.
      destruct (span_spec _ _ _ _ Esp) as [Er [Ha Hh]]. subst r.
      rewrite untok_cons in Hu. simpl in Hu. injection Hu as Hu.
      rewrite <- (dashes_repeat a Ha) in Hu. apply app_inv_head in Hu.
      rewrite app_length in Hn. simpl in Hc.
      rewrite scan_skip by (eapply forallb_impl; [apply is_dash_plain | exact Ha]).
      apply (IH b); [lia | exact Hc | exact Hu]. }
    destruct (ch_eqb c ",") eqn:E3; [simpl in Hc; discriminate|].
    destruct (ch_eqb c "#") eqn:E4.
    { apply ch_eqb_eq in E4. subst c. simpl. rewrite untok_cons in Hu. simpl in Hu. injection Hu as Hu.
      simpl in Hc. apply (IH r); [lia | exact Hc | exact Hu]. }
    destruct (ch_eqb c "|") eqn:E5.
    { apply ch_eqb_eq in E5. subst c. simpl. rewrite untok_cons in Hu. simpl in Hu. injection Hu as Hu.
      simpl in Hc. apply (IH r); [lia | exact Hc | exact Hu]. }
    destruct (ch_eqb c ")") eqn:E6.
    { exfalso. pose proof (untok_length r) as Hl. rewrite Hu in Hl. simpl in Hl. lia. }
    simpl.
    destruct (span elem_char r) as [a b] eqn:Esp.
    destruct (span_spec _ _ _ _ Esp) as [Er [Ha Hh]]. subst r.
    rewrite untok_cons in Hu. simpl in Hu. injection Hu as Hu. apply app_inv_head in Hu.
    rewrite app_length in Hn. simpl in Hc.
    rewrite scan_skip by (eapply forallb_impl; [apply elem_char_plain | exact Ha]).
    apply (IH b); [lia | exact Hc | exact Hu].
Qed.

Lemma clean_tokens_gen : forall n t, List.length t <= n -> clean_str t = true ->
  no_comma (lex t) = true /\ untok (lex t) = t.
Proof.
  induction n as [|n IH]; intros t Hn Hc.
  - destruct t; [split; reflexivity | simpl in Hn; lia].
  - destruct t as [|c r]; [split; reflexivity|]. simpl in Hn. rewrite lex_cons.
    unfold clean_str in Hc. cbn [scan_clean] in Hc.
    destruct (ch_eqb c "(") eqn:E1.
    { apply ch_eqb_eq in E1. subst c.
      destruct (scan_inside _ Hc) as [a [b [Ef Hb]]]. rewrite Ef.
      destruct (find_close_spec _ _ _ Ef) as [Er Ha]. subst r.
      rewrite app_length in Hn. simpl in Hn.
      destruct (IH b ltac:(lia) Hb) as [H1 H2]. split; [exact H1|].
      rewrite untok_cons, H2. simpl. rewrite <- app_assoc. reflexivity. }
    destruct (ch_eqb c "-") eqn:E2.
    { apply ch_eqb_eq in E2. subst c. simpl in Hc.
      destruct (span is_dash r) as [a b] eqn:Esp.
      destruct (span_spec _ _ _ _ Esp) as [Er [Ha Hh]]. subst r.
      rewrite scan_skip in Hc by (eapply forallb_impl; [apply is_dash_plain | exact Ha]).
      rewrite app_length in Hn.
      destruct (IH b ltac:(lia) Hc) as [H1 H2]. split; [exact H1|].
      rewrite untok_cons, H2. simpl. rewrite <- (dashes_repeat a Ha). reflexivity. }
    destruct (ch_eqb c ",") eqn:E3; [rewrite orb_true_r in Hc; discriminate|].
    destruct (ch_eqb c "#") eqn:E4.
    { apply ch_eqb_eq in E4. subst c. simpl in Hc.
      destruct (IH r ltac:(lia) Hc) as [H1 H2]. split; [exact H1|]. rewrite untok_cons, H2. reflexivity. }
    destruct (ch_eqb c "|") eqn:E5.
    { apply ch_eqb_eq in E5. subst c. simpl in Hc.
      destruct (IH r ltac:(lia) Hc) as [H1 H2]. split; [exact H1|]. rewrite untok_cons, H2. reflexivity. }
    destruct (ch_eqb c ")") eqn:E6; [simpl in Hc; discriminate|].
    simpl in Hc.
    destruct (span elem_char r) as [a b] eqn:Esp.
    destruct (span_spec _ _ _ _ Esp) as [Er [Ha Hh]]. subst r.
    rewrite scan_skip in Hc by (eapply forallb_impl; [apply elem_char_plain | exact Ha]).
    rewrite app_length in Hn.
    destruct (IH b ltac:(lia) Hc) as [H1 H2]. split; [exact H1|].
    rewrite untok_cons, H2. reflexivity.
Qed.

(* "clean" read off the string = "clean" read off the tokens: no comma token, and
   no character skipped by the lexer (the tokens written back give the string) *)
Theorem clean_iff_tokens : forall t, clean_str t = true <-> clean t (lex t) = true.
Proof.
  intros t. unfold clean. rewrite andb_true_iff, str_eqb_eq. split.
  - apply (clean_tokens_gen (List.length t)). lia.
  - intros [H1 H2]. apply (tokens_clean_gen (List.length t)); [lia | exact H1 | exact H2].
Qed.

(* the task's form: the token list of the string is clean *)
Theorem cover_tokens : forall s, clean (remove_spaces s) (lex (remove_spaces s)) = true ->
  exists d, wf d = true /\ render d = remove_spaces s.
Proof. intros s H. apply cover_string. apply clean_iff_tokens. exact H. Qed.

(* conversely the rendering of a well-formed diagram is clean *)
Lemma tok_str_tok_of : forall i, tok_str (tok_of i) = render_item i.
Proof. intros [n|s| | |es]; reflexivity. Qed.

Theorem wf_render_clean : forall d, wf d = true -> clean_str (render d) = true /\ nospace (render d) = true.
Proof.
  intros d H. split; [|apply render_no_space; exact H].
  apply clean_iff_tokens. unfold clean, lex. rewrite lex_render by (auto; lia).
  apply andb_true_iff. split.
  - clear. induction d as [|i d IH]; [reflexivity|]. simpl. rewrite IH. destruct i; reflexivity.
  - apply str_eqb_eq. clear. induction d as [|i d IH]; [reflexivity|].
    simpl map. rewrite untok_cons, render_cons, IH, tok_str_tok_of. reflexivity.
Qed.

(* the renderings of well-formed diagrams are exactly the clean strings without spaces *)
Theorem wf_renderings_are_the_clean_strings : forall t,
  (exists d, wf d = true /\ render d = t) <-> (clean_str t = true /\ nospace t = true).
Proof.
  intros t. split.
  - intros [d [H1 H2]]. subst t. apply wf_render_clean. exact H1.
  - intros [H1 H2]. destruct (cover t H1 H2) as [d [A [B _]]]. exists d. split; assumption.
Qed.

(* ---- a comma token: parse always raises ---------------------------------------------------- *)
Section Comma.
  Variable V : Type.
  Variable valof : str -> V.

  Lemma parse_tokens_comma : forall rs toks f st, no_comma toks = false ->
    exists e, parse_tokens V valof rs toks f st = inl e.
  Proof.
    intros rs. induction toks as [|t r IH]; intros f st H; [discriminate|].
    destruct t as [content|n| |e]; cbn [no_comma forallb andb] in H; cbn [parse_tokens].
    - destruct (check_all rs st (split_comma content)) as [st'|]; [|eexists; reflexivity].
      destruct (IH (f + (2 + List.length content)) st' H) as [e He]. rewrite He. eexists; reflexivity.
    - apply IH. exact H.
    - eexists; reflexivity.
    - destruct (check rs st e) as [st'|]; [|eexists; reflexivity].
      destruct (IH (f + List.length e) st' H) as [e' He]. rewrite He. eexists; reflexivity.
  Qed.

  Lemma parse_tokens_comma_norule : forall toks f st, no_comma toks = false ->
    parse_tokens V valof false toks f st = inl ErrComma.
  Proof.
    induction toks as [|t r IH]; intros f st H; [discriminate|].
    destruct t as [content|n| |e]; cbn [no_comma forallb andb] in H; cbn [parse_tokens].
    - rewrite check_all_norule. rewrite IH by exact H. reflexivity.
    - apply IH. exact H.
    - reflexivity.
    - cbn [check]. rewrite IH by exact H. reflexivity.
  Qed.

  (* a comma outside a group: ValueError whatever else the string contains; without
     raise_stopped it is the comma error *)
  Theorem parse_comma_rejected : forall rs s, no_comma (lex (remove_spaces s)) = false ->
    (exists e, parse_model V valof rs s = inl e) /\ parse_model V valof false s = inl ErrComma.
  Proof.
    intros rs s H. split; [apply parse_tokens_comma | apply parse_tokens_comma_norule]; exact H.
  Qed.

  (* every string with balanced parentheses and no stray comma is covered by the
     diagram theorem [parse_render]: it parses to the meaning of a well-formed diagram *)
  Theorem parse_clean : forall rs s, clean_str (remove_spaces s) = true ->
    exists d, wf d = true /\ remove_spaces s = render d /\
      parse_model V valof rs s =
      if negb rs || stop_ok (elements d) then inr (denote V valof d) else inl ErrStopped.
  Proof.
    intros rs s H. destruct (cover_string s H) as [d [Hw Hr]]. exists d.
    split; [exact Hw|]. split; [symmetry; exact Hr|].
    apply (parse_render V valof rs d s Hw (eq_sym Hr)).
  Qed.
End Comma.
