(* C13: fork_join, combine_latest and with_latest_from under the RUNNER against abstract
   specifications over the FULL input alphabet (elements, completions, errors, timer ticks,
   dispose; also notifications of sources that already completed or do not exist), for every
   number of sources and EVERY input sequence.  Each specification keeps the list [seen] of
   the element deliveries accepted so far (source, element) and the completed flags; the
   tuples are the snapshots of LatestFacts ([snapshot] / [child_snapshot], [strip]).
   Plus: the bridge run = fj_feed for fork_join, completions included. *)
From RxVerif Require Import Base.Prelude Ops.Machine Ops.MachineFacts Ops.Multi Ops.MultiFacts
  Ops.RunLemmas Ops.Combinators Ops.MergeFacts Ops.FlatMapFacts Ops.CombineFacts Ops.LatestFacts
  Ops.ZipRunFacts Ops.ZipSpecFacts.

Local Arguments Nat.ltb : simpl never.
Local Arguments Nat.leb : simpl never.
Local Arguments mem : simpl never.
Local Arguments remove : simpl never.
Local Arguments sort_nat : simpl never.

(* ---- a generic engine: operators whose handlers only emit, keep one subscription per
   source until that source terminates, and never use timers ------------------------------ *)
Section Engine.
Context {A B : Type} (m : machine A B) (St : Type).
Variable acc : St -> nat -> bool.                            (* source k is subscribed *)
Variable sstep : St -> nat -> ev A -> St * list B * fin.     (* abstract handler *)
Variable P : St -> x_state m -> Prop.                        (* abstraction relation *)

Fixpoint gspec (a : St) (pos : nat) (ins : list (Z * inp A)) : list (nat * ev B) :=
  match ins with
  | [] => []
  | (_, ISrc k e) :: t =>
      if acc a k then
        let '(a', bs, f) := sstep a k e in
        map (fun b => (pos, Next b)) bs ++
        match f with
        | Cont => gspec a' (S pos) t
        | Complete => [(pos, Done)]
        | Fail er => [(pos, Err er)]
        end
      else gspec a (S pos) t
  | (_, ITick _) :: t => gspec a (S pos) t
  | (_, IDispose) :: _ => []
  end.

Hypothesis Hstep : forall a s now k e a' bs f,
  P a s -> acc a k = true -> sstep a k e = (a', bs, f) ->
  exists s', x_step m s now (ISrc k e) = (s', map CEmit bs, f)
    /\ (f = Cont -> P a' s'
        /\ forall j, acc a' j = (if is_terminal e then negb (Nat.eqb j k) else true) && acc a j).
Hypothesis Hdisp : forall s now, snd (fst (x_step m s now IDispose)) = [].

Lemma temitted_emit_only pos (bs : list B) :
  temitted (map (fun x => (pos, x)) (map (fun b => OEmit (Next b)) bs))
  = map (fun b => (pos, Next b)) bs.
Proof.
  induction bs as [|b t IH]; [reflexivity|].
  cbn [map]. rewrite temitted_cons_emit. f_equal. exact IH.
Qed.

Lemma engine_from (ins : list (Z * inp A)) : forall a s live pos,
  P a s -> NoDup live -> (forall j, mem j live = acc a j) ->
  temitted (fst (run_from m s (RState live [] false) pos ins)) = gspec a pos ins.
Proof.
  induction ins as [|[now i] rest IH]; intros a s live pos HP Hnd Hlive; [reflexivity|].
  rewrite temitted_run_cons. cbn [gspec].
  destruct i as [k e|tag|].
  - rewrite <- (Hlive k). destruct (mem k live) eqn:Hmem.
    + assert (Hacc : acc a k = true) by (now rewrite <- Hlive).
      destruct (sstep a k e) as [[a' bs] f] eqn:Es.
      destruct (Hstep a s now k e a' bs f HP Hacc Es) as (s' & Ex & Hc).
      destruct f as [| |er].
      * (* the subscription goes on *)
        destruct (Hc eq_refl) as [HP' Hacc'].
        assert (E : rstep m s (RState live [] false) now (ISrc k e)
                    = (s', RState (if is_terminal e then remove k live else live) [] false,
                       map (fun b => OEmit (Next b)) bs ++ (if is_terminal e then [OUnsub k] else []))).
        { unfold rstep. cbn [r_stopped r_live]. rewrite Hmem, Ex, apply_cmds_emit_only.
          cbn [r_live r_timers r_stopped]. rewrite Hmem.
          destruct (is_terminal e); cbn [andb finish app]; rewrite ?app_nil_r; reflexivity. }
        assert (T : temitted (map (fun x : obs B => (pos, x)) (if is_terminal e then [OUnsub k] else [])) = [])
          by (destruct (is_terminal e); reflexivity).
        rewrite E. cbn [fst snd]. rewrite map_app, temitted_app', T, app_nil_r, temitted_emit_only. f_equal.
        apply IH; [exact HP'| |].
        -- destruct (is_terminal e); [apply remove_nodup; exact Hnd|exact Hnd].
        -- intros j. rewrite Hacc', <- Hlive. destruct (is_terminal e); [|reflexivity].
           apply mem_remove_nodup. exact Hnd.
      * destruct (rstep_fin m s (RState live [] false) now (ISrc k e) pos) as [E1 E2];
          [reflexivity|exact Hmem|rewrite Ex; discriminate|].
        rewrite E1, (run_from_stopped _ _ _ _ _ E2), Ex. cbn [fst snd].
        rewrite cemits_emit_only, app_nil_r. reflexivity.
      * destruct (rstep_fin m s (RState live [] false) now (ISrc k e) pos) as [E1 E2];
          [reflexivity|exact Hmem|rewrite Ex; discriminate|].
        rewrite E1, (run_from_stopped _ _ _ _ _ E2), Ex. cbn [fst snd].
        rewrite cemits_emit_only, app_nil_r. reflexivity.
    + assert (E : rstep m s (RState live [] false) now (ISrc k e) = (s, RState live [] false, [])).
      { unfold rstep. cbn [r_stopped r_live]. now rewrite Hmem. }
      rewrite E. cbn [fst snd map app].
      change (temitted (@nil (nat * obs B))) with (@nil (nat * ev B)). cbn [app].
      apply IH; assumption.
  - assert (E : rstep m s (RState live [] false) now (ITick tag) = (s, RState live [] false, [])) by reflexivity.
    rewrite E. cbn [fst snd map app].
    change (temitted (@nil (nat * obs B))) with (@nil (nat * ev B)). cbn [app].
    apply IH; assumption.
  - unfold rstep. cbn [r_stopped]. pose proof (Hdisp s now) as Hd.
    destruct (x_step m s now IDispose) as [[s' cs] f]. cbn [fst snd] in Hd. subst cs.
    cbn [apply_cmds fst snd]. rewrite run_from_stopped by reflexivity. cbn [fst]. rewrite app_nil_r.
    cbn [filter app]. apply release_temitted.
Qed.

Lemma engine_run a0 s0 live0 (ins : list (Z * inp A)) :
  x_start m = (s0, map CSub live0, Cont) ->
  P a0 s0 -> NoDup live0 -> (forall j, mem j live0 = acc a0 j) ->
  temitted (fst (run m ins)) = gspec a0 1 ins.
Proof.
  intros Hstart HP Hnd Hlive.
  rewrite run_unfold. cbn [fst]. rewrite temitted_app'.
  unfold start_state, start_obs. rewrite Hstart.
  rewrite apply_cmds_sub_only. cbn [fst snd finish app r_live r_timers r_stopped].
  assert (T : temitted (map (fun x => (0%nat, x)) (map (@OSub B) live0 ++ [])) = []).
  { rewrite app_nil_r. clear. induction live0 as [|j t IHl]; [reflexivity|exact IHl]. }
  rewrite T. cbn [app]. now apply engine_from.
Qed.
End Engine.
Arguments gspec {A B St} acc sstep a pos ins.

(* the live subscriptions described by completed flags *)
Lemma nth_set_true_cases k j (done : list bool) : (k < length done)%nat ->
  nth j (nth_set k true done) true = Nat.eqb j k || nth j done true.
Proof.
  intros Hk. destruct (Nat.eqb_spec j k) as [->|Hne]; cbn [orb].
  - now apply nth_nth_set_same.
  - now apply nth_nth_set_other.
Qed.

Lemma acc_after_done (bound : nat -> bool) k (done : list bool) j : (k < length done)%nat ->
  bound j && negb (nth j (nth_set k true done) true)
  = negb (Nat.eqb j k) && (bound j && negb (nth j done true)).
Proof.
  intros Hk. rewrite nth_set_true_cases by exact Hk.
  destruct (Nat.eqb j k), (bound j), (nth j done true); reflexivity.
Qed.

Lemma mem_seq0_ltb j n : mem j (seq 0 n) = Nat.ltb j n.
Proof.
  destruct (Nat.ltb_spec j n) as [H|H].
  - now apply mem_seq0.
  - apply notin_mem_false. intros Hin. apply in_seq in Hin. lia.
Qed.

Lemma emitted_temitted {B} (tr : list (nat * obs B)) : emitted tr = map snd (temitted tr).
Proof.
  unfold emitted, temitted. induction tr as [|[p o] t IH]; [reflexivity|].
  cbn [flat_map snd fst]. rewrite map_app, IH. destruct o; reflexivity.
Qed.

(* ================================ fork_join ================================== *)
Section ForkJoinSpec.
Context {A : Type}.

(* SPEC of fork_join over n sources: nothing is emitted until every source has completed, then
   ONE tuple made of the last element of every source, and the completion, at the same
   moment; a source completing WITHOUT having delivered anything completes the output at
   once (no tuple); the first error of a subscribed source ends the output; what a source
   sends after its own completion, and what sources the operator does not have send, is
   ignored; dispose truncates *)
Fixpoint fj_full_spec (n : nat) (seen : list (nat * A)) (done : list bool) (pos : nat)
  (ins : list (Z * inp A)) : list (nat * ev (list A)) :=
  match ins with
  | [] => []
  | (_, ISrc k e) :: t =>
      if Nat.ltb k n && negb (nth k done true) then
        match e with
        | Next x => fj_full_spec n (seen ++ [(k, x)]) done (S pos) t
        | Err er => [(pos, Err er)]
        | Done =>
            match latest k seen with
            | None => [(pos, Done)]
            | Some _ =>
                if forallb (fun d => d) (nth_set k true done)
                then [(pos, Next (strip (snapshot n seen))); (pos, Done)]
                else fj_full_spec n seen (nth_set k true done) (S pos) t
            end
        end
      else fj_full_spec n seen done (S pos) t
  | (_, ITick _) :: t => fj_full_spec n seen done (S pos) t
  | (_, IDispose) :: _ => []
  end.

Definition fj_acc (n : nat) (a : list (nat * A) * list bool) (k : nat) : bool :=
  Nat.ltb k n && negb (nth k (snd a) true).

Definition fj_sstep (n : nat) (a : list (nat * A) * list bool) (k : nat) (e : ev A)
  : (list (nat * A) * list bool) * list (list A) * fin :=
  let '(seen, done) := a in
  match e with
  | Next x => ((seen ++ [(k, x)], done), [], Cont)
  | Err er => ((seen, done), [], Fail er)
  | Done =>
      match latest k seen with
      | None => ((seen, nth_set k true done), [], Complete)
      | Some _ =>
          if forallb (fun d => d) (nth_set k true done)
          then ((seen, nth_set k true done), [strip (snapshot n seen)], Complete)
          else ((seen, nth_set k true done), [], Cont)
      end
  end.

Definition fj_P (n : nat) (a : list (nat * A) * list bool) (s : x_state (x_fork_join (A:=A) n)) : Prop :=
  s = (snapshot n (fst a), snd a) /\ length (snd a) = n.

Lemma fj_gspec n (ins : list (Z * inp A)) : forall seen done pos,
  gspec (fj_acc n) (fj_sstep n) (seen, done) pos ins = fj_full_spec n seen done pos ins.
Proof.
  induction ins as [|[now i] rest IH]; intros seen done pos; [reflexivity|].
  cbn [gspec fj_full_spec]. destruct i as [k e|tag|]; [|apply IH|reflexivity].
  unfold fj_acc at 1. cbn [snd].
  destruct (Nat.ltb k n && negb (nth k done true)); [|apply IH].
  destruct e as [x|er|]; cbn [fj_sstep map app]; [apply IH|reflexivity|].
  destruct (latest k seen); [|reflexivity].
  destruct (forallb (fun d : bool => d) (nth_set k true done)); [reflexivity|]. cbn [map app]. apply IH.
Qed.

Lemma fj_step_ok n a s now k e a' bs f :
  fj_P n a s -> fj_acc n a k = true -> fj_sstep n a k e = (a', bs, f) ->
  exists s', x_step (x_fork_join n) s now (ISrc k e) = (s', map CEmit bs, f)
    /\ (f = Cont -> fj_P n a' s'
        /\ forall j, fj_acc n a' j = (if is_terminal e then negb (Nat.eqb j k) else true) && fj_acc n a j).
Proof.
  destruct a as [seen done]. unfold fj_P, fj_acc. cbn [fst snd]. intros [-> Hlen] Hacc Es.
  apply andb_true_iff in Hacc. destruct Hacc as [Hk _]. apply Nat.ltb_lt in Hk.
  cbn [x_fork_join x_step]. destruct e as [x|er|]; cbn [fj_sstep] in Es.
  - injection Es as <- <- <-. eexists. split; [reflexivity|]. intros _. cbn [fst snd is_terminal].
    rewrite (snapshot_snoc n seen k x Hk). repeat split. exact Hlen.
  - injection Es as <- <- <-. eexists. split; [reflexivity|]. discriminate.
  - rewrite (snapshot_nth n seen k Hk).
    destruct (latest k seen) as [y|].
    + change (flat_map (fun v : option A => match v with Some y => [y] | None => [] end)) with (@strip A).
      destruct (forallb (fun d : bool => d) (nth_set k true done)).
      * injection Es as <- <- <-. eexists. split; [reflexivity|]. discriminate.
      * injection Es as <- <- <-. eexists. split; [reflexivity|]. intros _. cbn [fst snd is_terminal].
        repeat split.
        -- rewrite nth_set_length; lia.
        -- intros j. apply (acc_after_done (fun i => Nat.ltb i n)). lia.
    + injection Es as <- <- <-. eexists. split; [reflexivity|]. discriminate.
Qed.

(* REFINEMENT: every number of sources, EVERY input sequence *)
Theorem fork_join_refines_spec n (ins : list (Z * inp A)) :
  temitted (fst (run (x_fork_join n) ins)) = fj_full_spec n [] (repeat false n) 1 ins.
Proof.
  rewrite <- fj_gspec.
  apply (engine_run (x_fork_join n) _ (fj_acc n) (fj_sstep n) (fj_P n)) with (s0 := (repeat None n, repeat false n))
                                                                           (live0 := seq 0 n).
  - intros. eapply fj_step_ok; eassumption.
  - intros [values done] now. reflexivity.
  - reflexivity.
  - split; cbn [fst snd]; [now rewrite snapshot_nil|apply repeat_length].
  - apply seq_NoDup.
  - intros j. unfold fj_acc. cbn [snd]. rewrite nth_repeat_false, negb_involutive, andb_diag.
    apply mem_seq0_ltb.
Qed.
End ForkJoinSpec.

(* ---- the bridge run = fj_feed, completions included ----------------------------- *)
Section ForkJoinBridge.
Context {A : Type}.

(* input sequences made of element deliveries (source, Some x) and completions (source, None) *)
Definition fj_inputs (tins : list (Z * (nat * option A))) : list (Z * inp A) :=
  map (fun tp => (fst tp, ISrc (fst (snd tp))
                            (match snd (snd tp) with Some x => Next x | None => Done end))) tins.

(* the Rx grammar per source: every delivery comes from a source (one of the [length done])
   that has not completed before *)
Fixpoint fj_wfb (done : list bool) (ins : list (nat * option A)) : bool :=
  match ins with
  | [] => true
  | (k, o) :: t =>
      negb (nth k done true)
      && fj_wfb (match o with None => nth_set k true done | Some _ => done end) t
  end.

Lemma nth_false_lt k (done : list bool) : nth k done true = false -> (k < length done)%nat.
Proof.
  intros H. destruct (Nat.lt_ge_cases k (length done)) as [Hlt|Hge]; [exact Hlt|].
  rewrite nth_overflow in H by exact Hge. discriminate.
Qed.

Lemma fj_wfb_bound (ins : list (nat * option A)) : forall done,
  fj_wfb done ins = true -> Forall (fun p => (fst p < length done)%nat) ins.
Proof.
  induction ins as [|[k o] t IH]; intros done H; [constructor|].
  cbn [fj_wfb] in H. apply andb_true_iff in H. destruct H as [Hk Ht].
  apply negb_true_iff in Hk. apply nth_false_lt in Hk.
  constructor; [exact Hk|].
  destruct o as [x|]; [now apply IH|].
  specialize (IH _ Ht). rewrite nth_set_length in IH by exact Hk. exact IH.
Qed.

Lemma fj_full_spec_feed n (tins : list (Z * (nat * option A))) : forall seen done pos,
  length done = n -> fj_wfb done (map snd tins) = true ->
  map snd (fj_full_spec n seen done pos (fj_inputs tins))
  = map Next (fst (fj_spec n seen done (map snd tins)))
    ++ (if snd (fj_spec n seen done (map snd tins)) then [Done] else []).
Proof.
  induction tins as [|[now [k o]] rest IH]; intros seen done pos Hlen Hwf; [reflexivity|].
  cbn [map snd fst fj_wfb] in Hwf. apply andb_true_iff in Hwf. destruct Hwf as [Hk Ht].
  apply negb_true_iff in Hk. pose proof (nth_false_lt k done Hk) as Hlt. rewrite Hlen in Hlt.
  cbn [fj_inputs map fst snd fj_full_spec fj_spec]. fold (fj_inputs rest).
  rewrite Hk. apply Nat.ltb_lt in Hlt. rewrite Hlt. cbn [negb andb].
  destruct o as [x|].
  - apply IH; assumption.
  - destruct (latest k seen) as [y|]; [|reflexivity].
    destruct (forallb (fun d : bool => d) (nth_set k true done)); [reflexivity|].
    apply IH; [|exact Ht]. apply Nat.ltb_lt in Hlt. rewrite nth_set_length; lia.
Qed.

(* the RUNNER on element deliveries and completions that respect the grammar: exactly the tuple
   of fj_feed, followed by the completion iff fj_feed reports the termination *)
Theorem fj_run_is_feed n (tins : list (Z * (nat * option A))) :
  fj_wfb (repeat false n) (map snd tins) = true ->
  emitted (fst (run (x_fork_join n) (fj_inputs tins)))
  = map Next (fst (fj_feed n (repeat None n, repeat false n) (map snd tins) []))
    ++ (if snd (fj_feed n (repeat None n, repeat false n) (map snd tins) []) then [Done] else []).
Proof.
  intros Hwf. rewrite emitted_temitted, fork_join_refines_spec.
  rewrite (fj_full_spec_feed n tins [] (repeat false n) 1 (repeat_length _ _) Hwf).
  rewrite fork_join_closed_form; [reflexivity|].
  pose proof (fj_wfb_bound _ _ Hwf) as H. now rewrite repeat_length in H.
Qed.

Corollary fj_run_closed_form n (tins : list (Z * (nat * option A))) :
  fj_wfb (repeat false n) (map snd tins) = true ->
  emitted (fst (run (x_fork_join n) (fj_inputs tins)))
  = map Next (fst (fj_spec n [] (repeat false n) (map snd tins)))
    ++ (if snd (fj_spec n [] (repeat false n) (map snd tins)) then [Done] else []).
Proof.
  intros Hwf. rewrite emitted_temitted, fork_join_refines_spec.
  exact (fj_full_spec_feed n tins [] (repeat false n) 1 (repeat_length _ _) Hwf).
Qed.
End ForkJoinBridge.

(* ================================ combine_latest ================================== *)
Section CombineLatestSpec.
Context {A : Type}.

(* every source other than k has completed *)
Definition others_done (n k : nat) (done : list bool) : bool :=
  forallb (fun j => Nat.eqb j k || nth j done true) (seq 0 n).

(* SPEC of combine_latest over n sources.  An element of a subscribed source: the tuple of
   the latest elements is emitted iff every source has delivered by now (as in cl_spec).
   The output completes when the LAST source completes -- a source completing without ever
   having delivered does NOT complete the output by itself -- and also at an element that
   leaves the snapshot incomplete while every OTHER source has completed (then some
   completed source never delivered and no tuple can ever be formed; the element is
   swallowed and the output completes at that moment).  The first error of a subscribed
   source ends the output; dispose truncates. *)
Fixpoint cl_full_spec (n : nat) (seen : list (nat * A)) (done : list bool) (pos : nat)
  (ins : list (Z * inp A)) : list (nat * ev (list A)) :=
  match ins with
  | [] => []
  | (_, ISrc k e) :: t =>
      if Nat.ltb k n && negb (nth k done true) then
        match e with
        | Next x =>
            let seen' := seen ++ [(k, x)] in
            if full (snapshot n seen')
            then (pos, Next (strip (snapshot n seen'))) :: cl_full_spec n seen' done (S pos) t
            else if others_done n k done then [(pos, Done)]
            else cl_full_spec n seen' done (S pos) t
        | Err er => [(pos, Err er)]
        | Done =>
            if forallb (fun d => d) (nth_set k true done) then [(pos, Done)]
            else cl_full_spec n seen (nth_set k true done) (S pos) t
        end
      else cl_full_spec n seen done (S pos) t
  | (_, ITick _) :: t => cl_full_spec n seen done (S pos) t
  | (_, IDispose) :: _ => []
  end.

Lemma forallb_ext_in {X} (f g : X -> bool) (l : list X) :
  (forall x, In x l -> f x = g x) -> forallb f l = forallb g l.
Proof.
  induction l as [|a t IH]; intros H; [reflexivity|].
  cbn [forallb]. rewrite (H a (or_introl eq_refl)), IH; [reflexivity|].
  intros x Hx. apply H. now right.
Qed.

Lemma forallb_combine_seq (f : nat -> bool) : forall (done : list bool) s,
  forallb (fun jd : nat * bool => f (fst jd) || snd jd) (combine (seq s (length done)) done)
  = forallb (fun j => f j || nth (j - s) done true) (seq s (length done)).
Proof.
  induction done as [|d ds IH]; intros s; [reflexivity|].
  cbn [length seq combine forallb fst snd]. rewrite Nat.sub_diag. cbn [nth]. f_equal.
  rewrite IH. apply forallb_ext_in. intros j Hj. apply in_seq in Hj.
  replace (j - s)%nat with (S (j - S s)) by lia. reflexivity.
Qed.

Lemma others_done_machine n k (done : list bool) : length done = n ->
  forallb (fun jd : nat * bool => Nat.eqb (fst jd) k || snd jd) (combine (seq 0 n) done)
  = others_done n k done.
Proof.
  intros <-. rewrite (forallb_combine_seq (fun j => Nat.eqb j k)). unfold others_done.
  apply forallb_ext_in. intros j _. now rewrite Nat.sub_0_r.
Qed.

Definition cl_sstep (n : nat) (a : list (nat * A) * list bool) (k : nat) (e : ev A)
  : (list (nat * A) * list bool) * list (list A) * fin :=
  let '(seen, done) := a in
  match e with
  | Next x =>
      let seen' := seen ++ [(k, x)] in
      if full (snapshot n seen') then ((seen', done), [strip (snapshot n seen')], Cont)
      else if others_done n k done then ((seen', done), [], Complete)
      else ((seen', done), [], Cont)
  | Err er => ((seen, done), [], Fail er)
  | Done =>
      if forallb (fun d => d) (nth_set k true done) then ((seen, nth_set k true done), [], Complete)
      else ((seen, nth_set k true done), [], Cont)
  end.

Definition cl_P (n : nat) (a : list (nat * A) * list bool) (s : x_state (x_combine_latest (A:=A) n)) : Prop :=
  length (snd a) = n /\ fst (fst s) = snapshot n (fst a) /\ snd s = snd a
  /\ ((0 < n)%nat -> snd (fst s) = full (snapshot n (fst a))).

Lemma cl_gspec n (ins : list (Z * inp A)) : forall seen done pos,
  gspec (fj_acc n) (cl_sstep n) (seen, done) pos ins = cl_full_spec n seen done pos ins.
Proof.
  induction ins as [|[now i] rest IH]; intros seen done pos; [reflexivity|].
  cbn [gspec cl_full_spec]. destruct i as [k e|tag|]; [|apply IH|reflexivity].
  unfold fj_acc at 1. cbn [snd].
  destruct (Nat.ltb k n && negb (nth k done true)); [|apply IH].
  destruct e as [x|er|]; cbn [cl_sstep map app]; [|reflexivity|].
  - cbv zeta. destruct (full (snapshot n (seen ++ [(k, x)]))).
    + cbn [map app]. f_equal. apply IH.
    + destruct (others_done n k done); [reflexivity|]. cbn [map app]. apply IH.
  - destruct (forallb (fun d : bool => d) (nth_set k true done)); [reflexivity|]. cbn [map app]. apply IH.
Qed.

Lemma cl_step_ok n a s now k e a' bs f :
  cl_P n a s -> fj_acc n a k = true -> cl_sstep n a k e = (a', bs, f) ->
  exists s', x_step (x_combine_latest n) s now (ISrc k e) = (s', map CEmit bs, f)
    /\ (f = Cont -> cl_P n a' s'
        /\ forall j, fj_acc n a' j = (if is_terminal e then negb (Nat.eqb j k) else true) && fj_acc n a j).
Proof.
  destruct a as [seen done]. destruct s as [[values hva] done']. unfold cl_P, fj_acc. cbn [fst snd].
  intros (Hlen & -> & -> & Hhva) Hacc Es.
  apply andb_true_iff in Hacc. destruct Hacc as [Hk _]. apply Nat.ltb_lt in Hk.
  rewrite Hhva by lia. clear Hhva.
  cbn [x_combine_latest x_step]. destruct e as [x|er|]; cbn [cl_sstep] in Es.
  - rewrite (snapshot_snoc n seen k x Hk).
    change (forallb (fun v : option A => match v with Some _ => true | None => false end)) with (@full A).
    change (flat_map (fun v : option A => match v with Some y => [y] | None => [] end)) with (@strip A).
    assert (Hor : full (snapshot n seen) || full (snapshot n (seen ++ [(k, x)]))
                  = full (snapshot n (seen ++ [(k, x)]))).
    { destruct (full (snapshot n seen)) eqn:E; [|reflexivity]. cbn. symmetry. now apply full_mono. }
    rewrite Hor, (others_done_machine n k done Hlen). cbv zeta in Es.
    destruct (full (snapshot n (seen ++ [(k, x)]))) eqn:Hfull.
    + injection Es as <- <- <-. eexists. split; [reflexivity|]. intros _. cbn [fst snd is_terminal].
      repeat split; [exact Hlen|]. intros _. now rewrite Hfull.
    + destruct (others_done n k done).
      * injection Es as <- <- <-. eexists. split; [reflexivity|]. discriminate.
      * injection Es as <- <- <-. eexists. split; [reflexivity|]. intros _. cbn [fst snd is_terminal].
        repeat split; [exact Hlen|]. intros _. now rewrite Hfull.
  - injection Es as <- <- <-. eexists. split; [reflexivity|]. discriminate.
  - destruct (forallb (fun d : bool => d) (nth_set k true done)).
    + injection Es as <- <- <-. eexists. split; [reflexivity|]. discriminate.
    + injection Es as <- <- <-. eexists. split; [reflexivity|]. intros _. cbn [fst snd is_terminal].
      repeat split.
      * rewrite nth_set_length; lia.
      * intros j. apply (acc_after_done (fun i => Nat.ltb i n)). lia.
Qed.

(* REFINEMENT: every number of sources, EVERY input sequence *)
Theorem combine_latest_refines_spec n (ins : list (Z * inp A)) :
  temitted (fst (run (x_combine_latest n) ins)) = cl_full_spec n [] (repeat false n) 1 ins.
Proof.
  rewrite <- cl_gspec.
  apply (engine_run (x_combine_latest n) _ (fj_acc n) (cl_sstep n) (cl_P n))
    with (s0 := (repeat None n, false, repeat false n)) (live0 := seq 0 n).
  - intros. eapply cl_step_ok; eassumption.
  - intros [[values hva] done] now. reflexivity.
  - reflexivity.
  - unfold cl_P. cbn [fst snd]. repeat split; [apply repeat_length|now rewrite snapshot_nil|].
    intros Hn. rewrite snapshot_nil. destruct n; [lia|reflexivity].
  - apply seq_NoDup.
  - intros j. unfold fj_acc. cbn [snd]. rewrite nth_repeat_false, negb_involutive, andb_diag.
    apply mem_seq0_ltb.
Qed.
End CombineLatestSpec.

(* ================================ with_latest_from ================================== *)
Section WithLatestFromSpec.
Context {A : Type}.

(* SPEC of with_latest_from: parent = source 0, children = sources 1..n; [done] has one
   flag per source 0..n.  Only elements of the parent produce tuples, and only once every
   child has delivered (as in wlf_spec); the output completes exactly when the PARENT
   completes -- a child's completion only ends that child's deliveries; the first error of
   ANY subscribed source ends the output; dispose truncates. *)
Fixpoint wlf_full_spec (n : nat) (seen : list (nat * A)) (done : list bool) (pos : nat)
  (ins : list (Z * inp A)) : list (nat * ev (list A)) :=
  match ins with
  | [] => []
  | (_, ISrc k e) :: t =>
      if Nat.leb k n && negb (nth k done true) then
        match e with
        | Next x =>
            (match k with
             | O => if full (child_snapshot n seen)
                    then [(pos, Next (x :: strip (child_snapshot n seen)))] else []
             | S _ => []
             end) ++ wlf_full_spec n (seen ++ [(k, x)]) done (S pos) t
        | Err er => [(pos, Err er)]
        | Done =>
            match k with
            | O => [(pos, Done)]
            | S _ => wlf_full_spec n seen (nth_set k true done) (S pos) t
            end
        end
      else wlf_full_spec n seen done (S pos) t
  | (_, ITick _) :: t => wlf_full_spec n seen done (S pos) t
  | (_, IDispose) :: _ => []
  end.

Definition wlf_acc (n : nat) (a : list (nat * A) * list bool) (k : nat) : bool :=
  Nat.leb k n && negb (nth k (snd a) true).

Definition wlf_sstep (n : nat) (a : list (nat * A) * list bool) (k : nat) (e : ev A)
  : (list (nat * A) * list bool) * list (list A) * fin :=
  let '(seen, done) := a in
  match e with
  | Next x =>
      ((seen ++ [(k, x)], done),
       match k with
       | O => if full (child_snapshot n seen) then [x :: strip (child_snapshot n seen)] else []
       | S _ => []
       end, Cont)
  | Err er => ((seen, done), [], Fail er)
  | Done => ((seen, nth_set k true done), [], match k with O => Complete | S _ => Cont end)
  end.

Definition wlf_P (n : nat) (a : list (nat * A) * list bool) (s : x_state (x_with_latest_from (A:=A) n)) : Prop :=
  s = child_snapshot n (fst a) /\ length (snd a) = S n.

Lemma wlf_gspec n (ins : list (Z * inp A)) : forall seen done pos,
  gspec (wlf_acc n) (wlf_sstep n) (seen, done) pos ins = wlf_full_spec n seen done pos ins.
Proof.
  induction ins as [|[now i] rest IH]; intros seen done pos; [reflexivity|].
  cbn [gspec wlf_full_spec]. destruct i as [k e|tag|]; [|apply IH|reflexivity].
  unfold wlf_acc at 1. cbn [snd].
  destruct (Nat.leb k n && negb (nth k done true)); [|apply IH].
  destruct e as [x|er|]; cbn [wlf_sstep map app]; [|reflexivity|].
  - rewrite IH. f_equal. destruct k; [|reflexivity].
    destruct (full (child_snapshot n seen)); reflexivity.
  - destruct k; [reflexivity|]. cbn [map app]. apply IH.
Qed.

Lemma wlf_step_ok n a s now k e a' bs f :
  wlf_P n a s -> wlf_acc n a k = true -> wlf_sstep n a k e = (a', bs, f) ->
  exists s', x_step (x_with_latest_from n) s now (ISrc k e) = (s', map CEmit bs, f)
    /\ (f = Cont -> wlf_P n a' s'
        /\ forall j, wlf_acc n a' j = (if is_terminal e then negb (Nat.eqb j k) else true) && wlf_acc n a j).
Proof.
  destruct a as [seen done]. unfold wlf_P, wlf_acc. cbn [fst snd]. intros [-> Hlen] Hacc Es.
  apply andb_true_iff in Hacc. destruct Hacc as [Hk _]. apply Nat.leb_le in Hk.
  cbn [x_with_latest_from x_step]. destruct e as [x|er|]; cbn [wlf_sstep] in Es.
  - injection Es as <- <- <-. destruct k as [|j].
    + change (forallb (fun v : option A => match v with Some _ => true | None => false end)) with (@full A).
      change (flat_map (fun v : option A => match v with Some y => [y] | None => [] end)) with (@strip A).
      eexists. split.
      * destruct (full (child_snapshot n seen)); reflexivity.
      * intros _. cbn [fst snd is_terminal]. rewrite child_snapshot_parent. repeat split. exact Hlen.
    + eexists. split; [reflexivity|]. intros _. cbn [fst snd is_terminal].
      rewrite (child_snapshot_child n seen j x) by lia. repeat split. exact Hlen.
  - injection Es as <- <- <-. eexists. split; [destruct k; reflexivity|]. discriminate.
  - injection Es as <- <- <-. destruct k as [|j].
    + eexists. split; [reflexivity|]. discriminate.
    + eexists. split; [reflexivity|]. intros _. cbn [fst snd is_terminal]. repeat split.
      * rewrite nth_set_length; lia.
      * intros i. apply (acc_after_done (fun i => Nat.leb i n)). lia.
Qed.

Lemma wlf_live_nodup n : NoDup (seq 1 n ++ [0%nat]).
Proof.
  apply (Permutation.Permutation_NoDup (l := 0%nat :: seq 1 n)).
  - apply Permutation.Permutation_cons_append.
  - exact (seq_NoDup (S n) 0).
Qed.

Lemma wlf_live_mem j n : mem j (seq 1 n ++ [0%nat]) = Nat.leb j n.
Proof.
  destruct (Nat.leb_spec j n) as [H|H].
  - now apply mem_wlf_live.
  - apply notin_mem_false. intros Hin. apply in_app_or in Hin. destruct Hin as [Hin|[<-|[]]]; [|lia].
    apply in_seq in Hin. lia.
Qed.

(* REFINEMENT: every number of children, EVERY input sequence *)
Theorem with_latest_from_refines_spec n (ins : list (Z * inp A)) :
  temitted (fst (run (x_with_latest_from n) ins)) = wlf_full_spec n [] (repeat false (S n)) 1 ins.
Proof.
  rewrite <- wlf_gspec.
  apply (engine_run (x_with_latest_from n) _ (wlf_acc n) (wlf_sstep n) (wlf_P n))
    with (s0 := repeat None n) (live0 := seq 1 n ++ [0%nat]).
  - intros. eapply wlf_step_ok; eassumption.
  - intros values now. reflexivity.
  - cbn [x_with_latest_from x_start]. now rewrite map_app.
  - split; cbn [fst snd]; [now rewrite child_snapshot_nil|apply repeat_length].
  - apply wlf_live_nodup.
  - intros j. unfold wlf_acc. cbn [snd]. rewrite nth_repeat_false, negb_involutive, wlf_live_mem.
    destruct (Nat.leb_spec j n), (Nat.ltb_spec j (S n)); try reflexivity; lia.
Qed.
End WithLatestFromSpec.

(* ---- fork_join: the tuple really is "the last element of every source" ---------------- *)
Section ForkJoinTuple.
Context {A : Type}.

(* the elements the n sources deliver before their own termination, in order of arrival *)
Fixpoint fj_accepted (n : nat) (done : list bool) (ins : list (Z * inp A)) : list (nat * A) :=
  match ins with
  | [] => []
  | (_, ISrc k e) :: t =>
      if Nat.ltb k n && negb (nth k done true) then
        match e with
        | Next x => (k, x) :: fj_accepted n done t
        | _ => fj_accepted n (nth_set k true done) t
        end
      else fj_accepted n done t
  | _ :: t => fj_accepted n done t
  end.

Lemma all_done_nth (done : list bool) j :
  forallb (fun d : bool => d) done = true -> nth j done true = true.
Proof.
  intros H. destruct (Nat.lt_ge_cases j (length done)) as [Hlt|Hge].
  - rewrite forallb_forall in H. apply H. now apply nth_In.
  - now apply nth_overflow.
Qed.

Lemma fj_accepted_all_done n (ins : list (Z * inp A)) : forall done,
  forallb (fun d : bool => d) done = true -> fj_accepted n done ins = [].
Proof.
  induction ins as [|[now i] rest IH]; intros done H; [reflexivity|].
  cbn [fj_accepted]. destruct i as [k e|tag|]; try (now apply IH).
  rewrite (all_done_nth done k H). cbn [negb]. rewrite andb_false_r. now apply IH.
Qed.

(* a completed source has delivered something (otherwise the output would have ended) *)
Definition fj_inv (n : nat) (seen : list (nat * A)) (done : list bool) : Prop :=
  forall j, (j < n)%nat -> nth j done true = true -> is_some (latest j seen) = true.

Lemma fj_full_spec_tuple n (ins : list (Z * inp A)) : forall seen done pos p tup,
  length done = n -> fj_inv n seen done ->
  In (p, Next tup) (fj_full_spec n seen done pos ins) ->
  length tup = n /\
  forall j d, (j < n)%nat -> latest j (seen ++ fj_accepted n done ins) = Some (nth j tup d).
Proof.
  induction ins as [|[now i] rest IH]; intros seen done pos p tup Hlen Hinv Hin; [destruct Hin|].
  cbn [fj_full_spec fj_accepted] in *. destruct i as [k e|tag|]; [|eapply IH; eassumption|destruct Hin].
  destruct (Nat.ltb k n && negb (nth k done true)) eqn:Hacc; [|eapply IH; eassumption].
  apply andb_true_iff in Hacc. destruct Hacc as [Hk _]. apply Nat.ltb_lt in Hk.
  destruct e as [x|er|].
  - destruct (IH (seen ++ [(k, x)]) done (S pos) p tup Hlen) as [H1 H2]; [|exact Hin|].
    + intros j Hj Hd. apply latest_some_mono. now apply Hinv.
    + split; [exact H1|]. intros j d Hj. rewrite <- (H2 j d Hj), <- app_assoc. reflexivity.
  - destruct Hin as [Hin|[]]. discriminate.
  - destruct (latest k seen) as [y|] eqn:Hy; [|destruct Hin as [Hin|[]]; discriminate].
    assert (Hinv1 : fj_inv n seen (nth_set k true done)).
    { intros j Hj Hd. rewrite nth_set_true_cases in Hd by lia.
      destruct (Nat.eqb_spec j k) as [->|Hne]; [now rewrite Hy|]. now apply Hinv. }
    destruct (forallb (fun d : bool => d) (nth_set k true done)) eqn:Hall.
    + destruct Hin as [Hin|[Hin|[]]]; [|discriminate]. injection Hin as _ <-.
      assert (Hfull : full (snapshot n seen) = true).
      { unfold full, snapshot. apply forallb_forall. intros v Hv. apply in_map_iff in Hv.
        destruct Hv as [j [<- Hj]]. apply in_seq in Hj. apply Hinv1; [lia|]. now apply all_done_nth. }
      rewrite (fj_accepted_all_done n rest _ Hall), app_nil_r.
      split; [rewrite strip_full_length by exact Hfull; apply snapshot_length|].
      intros j d Hj. rewrite <- (snapshot_nth n seen j Hj).
      apply strip_full_nth; [exact Hfull|now rewrite snapshot_length].
    + eapply IH; [|exact Hinv1|exact Hin]. rewrite nth_set_length; lia.
Qed.

(* RUN-LEVEL, every number of sources, EVERY input sequence: a tuple the subscriber receives
   has one component per source, component j being the LAST element source j delivered
   before its own completion *)
Theorem fork_join_run_tuple n (ins : list (Z * inp A)) p tup :
  In (p, Next tup) (temitted (fst (run (x_fork_join n) ins))) ->
  length tup = n /\
  forall j d, (j < n)%nat -> latest j (fj_accepted n (repeat false n) ins) = Some (nth j tup d).
Proof.
  rewrite fork_join_refines_spec. intros H.
  apply (fj_full_spec_tuple n ins [] (repeat false n) 1 p tup (repeat_length _ _)); [|exact H].
  intros j Hj Hd. rewrite nth_repeat_false in Hd. apply Nat.ltb_lt in Hj. rewrite Hj in Hd. discriminate.
Qed.

(* ... and the output is: at most that one tuple, then nothing but the termination *)
Lemma fj_full_spec_shape n (ins : list (Z * inp A)) : forall seen done pos,
  fj_full_spec n seen done pos ins = []
  \/ (exists p e, is_terminal e = true /\ fj_full_spec n seen done pos ins = [(p, e)])
  \/ (exists p tup, fj_full_spec n seen done pos ins = [(p, Next tup); (p, Done)]).
Proof.
  induction ins as [|[now i] rest IH]; intros seen done pos; [left; reflexivity|].
  cbn [fj_full_spec]. destruct i as [k e|tag|]; [|apply IH|left; reflexivity].
  destruct (Nat.ltb k n && negb (nth k done true)); [|apply IH].
  destruct e as [x|er|]; [apply IH|right; left; exists pos, (Err er); split; reflexivity|].
  destruct (latest k seen); [|right; left; exists pos, Done; split; reflexivity].
  destruct (forallb (fun d : bool => d) (nth_set k true done)); [|apply IH].
  right; right. eexists. eexists. reflexivity.
Qed.

Theorem fork_join_run_shape n (ins : list (Z * inp A)) :
  temitted (fst (run (x_fork_join n) ins)) = []
  \/ (exists p e, is_terminal e = true /\ temitted (fst (run (x_fork_join n) ins)) = [(p, e)])
  \/ (exists p tup, temitted (fst (run (x_fork_join n) ins)) = [(p, Next tup); (p, Done)]).
Proof. rewrite fork_join_refines_spec. apply fj_full_spec_shape. Qed.
End ForkJoinTuple.
