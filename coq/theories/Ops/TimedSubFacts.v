(* C15/C16, part 4: sample (observable sampler: all interleavings of the two
   ports; periodic sampler: closed world), delay_subscription (subscription
   instant), and step-level theorems for the operators driven by observables
   made by a mapper (delay_with_mapper, throttle_with_mapper,
   timeout_with_mapper). *)
From RxVerif Require Import Base.Prelude Ops.Machine Ops.Multi Ops.MultiFacts Ops.Timed Ops.TimedSim
  Ops.TimedFacts Ops.TimedWindowFacts.

(* notifications of several ports at their instants *)
Definition ext2_of {A} (ins : list (Z * nat * ev A)) : list (Z * inp A) :=
  map (fun x => (fst (fst x), ISrc (snd (fst x)) (snd x))) ins.
Lemma ext2_of_cons {A} t k (e : ev A) ins : ext2_of ((t, k, e) :: ins) = (t, ISrc k e) :: ext2_of ins.
Proof. reflexivity. Qed.
Lemma ext2_of_nil {A} : @ext2_of A [] = [].
Proof. reflexivity. Qed.
Arguments ext2_of : simpl never.

Section Sample.
Context {A : Type}.

(* port 0 = source, port 1 = sampler.  [l0]/[l1]: the port is still subscribed
   (a port that terminated is not listened to any more); [pend] = the latest
   element not sampled yet *)
Fixpoint smp_spec (l0 l1 at_end : bool) (pend : option A) (ins : list (Z * nat * ev A)) : list (Z * ev A) :=
  match ins with
  | [] => []
  | (t, O, e) :: rest =>
      if l0 then
        match e with
        | Next x => smp_spec l0 l1 at_end (Some x) rest
        | Err c => [(t, Err c)]
        | Done => smp_spec false l1 true pend rest
        end
      else smp_spec l0 l1 at_end pend rest
  | (t, S O, e) :: rest =>
      if l1 then
        match e with
        | Err c => [(t, Err c)]
        | _ =>                                          (* a sampler tick: its on_next AND its on_completed *)
            match pend with Some v => [(t, Next v)] | None => [] end ++
            if at_end then [(t, Done)]
            else smp_spec l0 (match e with Done => false | _ => l1 end) at_end None rest
        end
      else smp_spec l0 l1 at_end pend rest
  | _ :: rest => smp_spec l0 l1 at_end pend rest
  end.

Definition lv2 (l0 l1 : bool) : list nat := (if l0 then [0%nat] else @nil nat) ++ (if l1 then [1%nat] else []).
Definition pend_of (s : @smp_st A) : option A := if sm_has s then sm_value s else None.

Ltac smp_IH IH f Hv :=
  match goal with
  | |- sim_emits (sim _ _ ?s' (RState ?lv _ _) _ _) = smp_spec ?a ?b _ _ _ =>
      etransitivity; [apply (IH f s' a b); [lia|cbn; first [discriminate|exact Hv|intros _; discriminate]]
                     |unfold pend_of; cbn; reflexivity]
  end.

Lemma smp_sim : forall ins fuel s l0 l1, (length ins <= fuel)%nat ->
  (sm_has s = true -> sm_value s <> None) ->
  sim_emits (sim x_sample_observable fuel s (RState (lv2 l0 l1) [] false) [] (ext2_of ins))
  = smp_spec l0 l1 (sm_at_end s) (pend_of s) ins.
Proof.
  induction ins as [|[[t k] e] rest IH]; intros fuel s l0 l1 Hf Hv.
  - now rewrite ext2_of_nil, sim_nil.
  - destruct fuel as [|f]; [cbn in Hf; lia|]. cbn [length] in Hf.
    rewrite sim_S, ext2_of_cons. cbn [next_event earliest fst snd]. unfold rstep. cbn [smp_spec].
    destruct k as [|[|k]].
    + destruct l0.
      2: { destruct l1; cbn; rewrite sim_emits_cons; cbn;
             [apply (IH f s false true)|apply (IH f s false false)]; (lia || exact Hv). }
      destruct l1; cbn; destruct e as [x|c|]; cbn; rewrite sim_emits_cons; cbn;
        try (rewrite sim_stopped by reflexivity; reflexivity); smp_IH IH f Hv.
    + destruct l1.
      2: { destruct l0; cbn; rewrite sim_emits_cons; cbn;
             [apply (IH f s true false)|apply (IH f s false false)]; (lia || exact Hv). }
      destruct l0; cbn; destruct e as [x|c|]; cbn;
        try (rewrite sim_emits_cons; cbn; rewrite sim_stopped by reflexivity; reflexivity).
      all: unfold pend_of; destruct (sm_has s) eqn:Eh; [destruct (sm_value s) as [v|] eqn:Ev; [|exfalso; apply (Hv eq_refl); reflexivity]|];
        destruct (sm_at_end s) eqn:Ea; cbn; rewrite sim_emits_cons; cbn;
        try (rewrite sim_stopped by reflexivity; reflexivity).
      all: try (f_equal).
      all: match goal with
           | |- sim_emits (sim _ _ ?s' (RState ?lv _ _) _ _) = smp_spec ?a ?b _ _ _ =>
               etransitivity; [apply (IH f s' a b); [lia|cbn; intros; discriminate]
                              |unfold pend_of; cbn; rewrite ?Ea; reflexivity]
           end.
    + destruct l0, l1; cbn; rewrite sim_emits_cons; cbn;
        [apply (IH f s true true)|apply (IH f s true false)|apply (IH f s false true)|apply (IH f s false false)];
        (lia || exact Hv).
Qed.

Theorem sample_observable_spec t0 (ins : list (Z * nat * ev A)) :
  timed_emits t0 (simulate x_sample_observable t0 (ext2_of ins)) = smp_spec true true false None ins.
Proof.
  unfold simulate, simulate_fuel, timed_emits.
  cbn [x_start x_sample_observable apply_cmds finish fst snd app emits flat_map map r_live r_timers r_stopped].
  change (upd [] t0 [OSub 0%nat; OSub 1%nat] (RState [0%nat; 1%nat] [] false)) with (@nil (nat * Z)).
  apply (smp_sim ins _ (SmpSt false false None 0) true true).
  - unfold ext2_of. rewrite map_length. lia.
  - cbn. discriminate.
Qed.

(* sample(period): the sampler is the periodic action (interval): it fires at
   due, due + p, due + 2p, ...; a notification of the source arriving up to and
   AT a firing instant is seen by that firing.  The periodic timer never stops
   by itself, so the statement is for every horizon [fuel] (number of inputs
   delivered). *)
Fixpoint smpt_spec (fuel : nat) (p due : Z) (l0 at_end : bool) (pend : option A) (es : list (Z * ev A))
  : list (Z * ev A) :=
  match fuel with
  | O => []
  | S f =>
      let tick := match pend with Some v => [(due, Next v)] | None => [] end ++
                  if at_end then [(due, Done)] else smpt_spec f p (due + p) l0 at_end None es in
      match es with
      | [] => tick
      | (t, e) :: rest =>
          if t <=? due then
            if l0 then
              match e with
              | Next x => smpt_spec f p due l0 at_end (Some x) rest
              | Err c => [(t, Err c)]
              | Done => smpt_spec f p due false true pend rest
              end
            else smpt_spec f p due l0 at_end pend rest
          else tick
      end
  end.

Lemma smpt_sim p : forall fuel s tg due (l0 : bool) (es : list (Z * ev A)), sm_ntag s = S tg ->
  (sm_has s = true -> sm_value s <> None) ->
  sim_emits (sim (x_sample_time p) fuel s (RState (if l0 then [0%nat] else @nil nat) [tg] false) [(tg, due)] (ext_of es))
  = smpt_spec fuel (clamp p) due l0 (sm_at_end s) (pend_of s) es.
Proof.
  induction fuel as [|f IH]; intros s tg due l0 es Hn Hv; [reflexivity|].
  assert (Tick : forall ext (es' : list (Z * ev A)), ext = ext_of es' ->
            next_event [(tg, due)] ext = Some (due, ITick tg, ext) ->
            sim_emits (sim (x_sample_time p) (S f) s (RState (if l0 then [0%nat] else @nil nat) [tg] false) [(tg, due)] ext)
            = match pend_of s with Some v => [(due, Next v)] | None => [] end ++
              if sm_at_end s then [(due, Done)]
              else smpt_spec f (clamp p) (due + clamp p) l0 (sm_at_end s) None es').
  { intros ext es' -> Hnext. rewrite sim_S, Hnext. unfold rstep. cbn [r_stopped r_timers mem existsb]. nat_eqb.
    cbn [orb remove]. nat_eqb. cbn [x_step x_sample_time sample_tick]. rewrite Hn.
    unfold pend_of. destruct (sm_has s) eqn:Eh; [destruct (sm_value s) as [v|] eqn:Ev; [|exfalso; apply (Hv eq_refl); reflexivity]|];
      destruct (sm_at_end s) eqn:Ea; destruct l0; cbn; nat_eqb; cbn; rewrite sim_emits_cons; cbn;
      try (rewrite sim_stopped by reflexivity; reflexivity).
    all: try f_equal.
    all: nat_eqb; cbn; nat_eqb.
    all: match goal with
         | |- sim_emits (sim _ _ ?s' _ _ _) = _ =>
             etransitivity; [first [apply (IH s' (S tg) (due + clamp p) true es')|apply (IH s' (S tg) (due + clamp p) false es')]; [reflexivity|cbn; intros; discriminate]
                            |unfold pend_of; cbn; rewrite ?Ea; reflexivity]
         end. }
  destruct es as [|[t e] rest].
  - rewrite (Tick (ext_of []) []); [reflexivity|reflexivity|reflexivity].
  - cbn [smpt_spec]. destruct (t <=? due) eqn:E.
    + rewrite ext_of_cons, sim_S. cbn [next_event earliest fst snd]. rewrite E.
      assert (Hne : (match e with Next _ | _ => t <=? due end) = true) by (destruct e; exact E).
      destruct l0.
      * destruct e as [x|c|]; unfold rstep; cbn; nat_eqb; cbn; nat_eqb; rewrite sim_emits_cons; cbn;
          try (rewrite sim_stopped by reflexivity; reflexivity).
        -- etransitivity; [apply (IH _ tg due true rest); [exact Hn|cbn; intros; discriminate]|unfold pend_of; cbn; reflexivity].
        -- etransitivity; [apply (IH _ tg due false rest); [exact Hn|exact Hv]|unfold pend_of; cbn; reflexivity].
      * destruct e as [x|c|]; unfold rstep; cbn; nat_eqb; cbn; rewrite sim_emits_cons; cbn;
          (etransitivity; [apply (IH s tg due false rest); [exact Hn|exact Hv]|reflexivity]).
    + rewrite (Tick (ext_of ((t, e) :: rest)) ((t, e) :: rest)); [reflexivity|reflexivity|].
      rewrite ext_of_cons. cbn [next_event earliest fst snd]. destruct e; rewrite E; reflexivity.
Qed.

Theorem sample_time_spec p t0 fuel (es : list (Z * ev A)) :
  sim_emits (snd (simulate_fuel (x_sample_time p) fuel t0 (ext_of es)))
  = smpt_spec fuel (clamp p) (t0 + clamp p) true false None es.
Proof.
  unfold simulate_fuel.
  cbn [x_start x_sample_time apply_cmds finish fst snd app emits flat_map map r_live r_timers r_stopped].
  cbn [upd new_timers flat_map app filter fst r_timers mem existsb Nat.eqb orb].
  apply (smpt_sim p fuel (SmpSt false false None 1) 0 (t0 + clamp p) true es); [reflexivity|cbn; discriminate].
Qed.
End Sample.

(* ------------------------------------------------------------------ C15 -- *)
Section DelaySubscription.
Context {A : Type}.

Lemma mem_In k l : mem k l = true <-> In k l.
Proof.
  unfold mem. rewrite existsb_exists. split.
  - intros [x [Hx He]]. apply Nat.eqb_eq in He. now subst.
  - intros H. exists k. split; [exact H|apply Nat.eqb_refl].
Qed.
Lemma mem_notIn k l : ~ In k l -> mem k l = false.
Proof. intros H. destruct (mem k l) eqn:E; [|reflexivity]. apply mem_In in E. contradiction. Qed.

Definition due_all (now : Z) (tags : list nat) : pend := map (fun tg => (tg, now)) tags.

Lemma earliest_due_all now tg tags : earliest (due_all now (tg :: tags)) = Some (tg, now).
Proof.
  revert tg. induction tags as [|t2 tags IH]; intros tg; [reflexivity|].
  change (due_all now (tg :: t2 :: tags)) with ((tg, now) :: due_all now (t2 :: tags)).
  cbn [earliest]. rewrite IH. rewrite Z.ltb_irrefl. reflexivity.
Qed.

Lemma filter_due_all now tags extra :
  filter (fun td : nat * Z => mem (fst td) (tags ++ extra)) (due_all now tags) = due_all now tags.
Proof.
  apply filter_all. unfold due_all. rewrite Forall_forall. intros td Hin. apply in_map_iff in Hin.
  destruct Hin as [tg [<- Hin]]. cbn [fst]. apply mem_In. apply in_or_app. now left.
Qed.

Lemma filter_due_all0 now tags :
  filter (fun td : nat * Z => mem (fst td) tags) (due_all now tags) = due_all now tags.
Proof.
  apply filter_all. unfold due_all. rewrite Forall_forall. intros td Hin. apply in_map_iff in Hin.
  destruct Hin as [tg [<- Hin]]. cbn [fst]. now apply mem_In.
Qed.

(* after the subscription.  [now] = the instant of the pending zero-delay
   completions (one per element that arrived at [now]); they run as soon as no
   further notification arrives at the same instant *)
Fixpoint ds2_spec (now : Z) (pl : list A) (es : list (Z * ev A)) : list (Z * ev A) :=
  match es with
  | [] => map (fun x => (now, Next x)) pl
  | (t, e) :: rest =>
      let later := negb (t <=? now) in
      (if later then map (fun x => (now, Next x)) pl else []) ++
      let pl' := if later then [] else pl in
      match e with
      | Next x => ds2_spec t (pl' ++ [x]) rest
      | Done => map (fun x => (t, Next x)) pl' ++ [(t, Done)]
      | Err c => [(t, Err c)]
      end
  end.

Definition tags_ok (plt : list (nat * A)) (n : nat) : Prop :=
  NoDup (map fst plt) /\ Forall (fun e => (0 < fst e < n)%nat) plt.

Lemma tags_ok_tail tg x plt n : tags_ok ((tg, x) :: plt) n -> tags_ok plt n /\ ~ In tg (map fst plt) /\ (0 < tg)%nat.
Proof.
  intros [Hnd Hall]. cbn in Hnd. inversion Hnd; subst. inversion Hall; subst. cbn in *. repeat split; auto; lia.
Qed.

Lemma NoDup_snoc (l : list nat) n : NoDup l -> ~ In n l -> NoDup (l ++ [n]).
Proof.
  induction l as [|a l IH]; intros Hnd Hn; [repeat constructor; auto|].
  inversion Hnd; subst. cbn. constructor.
  - rewrite in_app_iff. cbn. intros [H|[H|[]]]; [contradiction|subst; apply Hn; now left].
  - apply IH; [assumption|]. intros H. apply Hn. now right.
Qed.

Lemma tags_ok_snoc plt n x : (0 < n)%nat -> tags_ok plt n -> tags_ok (plt ++ [(n, x)]) (S n).
Proof.
  intros Hpos [Hnd Hall]. split.
  - rewrite map_app. cbn. apply NoDup_snoc; [exact Hnd|].
    intros Hin. apply in_map_iff in Hin. destruct Hin as [[tg y] [Heq Hin]]. cbn in Heq. subst.
    rewrite Forall_forall in Hall. specialize (Hall _ Hin). cbn in Hall. lia.
  - apply Forall_app. split.
    + eapply Forall_impl; [|exact Hall]. intros e He. cbn beta in *. lia.
    + repeat constructor; cbn; lia.
Qed.

Lemma ds2_spec_pop now x pl t e (rest : list (Z * ev A)) : (t <=? now) = false ->
  ds2_spec now (x :: pl) ((t, e) :: rest) = (now, Next x) :: ds2_spec now pl ((t, e) :: rest).
Proof. intros E. cbn [ds2_spec]. rewrite E. reflexivity. Qed.

Lemma release_no_emits (lv tms : list nat) :
  flat_map (fun x : obs A => match x with OEmit e => [e] | _ => [] end) (map OUnsub lv ++ map OCancel tms) = [].
Proof.
  rewrite flat_map_app.
  assert (H1 : forall l, flat_map (fun x : obs A => match x with OEmit e => [e] | _ => [] end) (map OUnsub l) = []) by (induction l; auto).
  assert (H2 : forall l, flat_map (fun x : obs A => match x with OEmit e => [e] | _ => [] end) (map OCancel l) = []) by (induction l; auto).
  now rewrite H1, H2.
Qed.

Local Arguments upd : simpl never.
Local Arguments due_all : simpl never.

Lemma cancels_no_emits (tms : list nat) :
  flat_map (fun x : obs A => match x with OEmit e => [e] | _ => [] end) (map OCancel tms) = [].
Proof. induction tms; auto. Qed.

(* one zero-delay completion runs: its element is delivered *)
Lemma dsub_tick ts t0 fuel ae tg x plt n now ext :
  tags_ok ((tg, x) :: plt) n ->
  next_event (due_all now (map fst ((tg, x) :: plt))) ext = Some (now, ITick tg, ext) ->
  forall lv,
  sim_emits (sim (x_delay_subscription ts t0) (S fuel) (DSubSt ae ((tg, x) :: plt) n)
                 (RState lv (map fst ((tg, x) :: plt)) false) (due_all now (map fst ((tg, x) :: plt))) ext)
  = (now, Next x) ::
    if ae && Nat.eqb (length plt) 0 then [(now, Done)]
    else sim_emits (sim (x_delay_subscription ts t0) fuel (DSubSt ae plt n)
                        (RState lv (map fst plt) false) (due_all now (map fst plt)) ext).
Proof.
  intros Hok Hnext lv. destruct (tags_ok_tail _ _ _ _ Hok) as (Hok' & Hnin & Hpos).
  destruct tg as [|tg]; [lia|].
  rewrite sim_S, Hnext. unfold rstep. cbn [r_stopped r_timers mem existsb map fst]. nat_eqb. cbn [orb remove]. nat_eqb.
  cbn [x_step x_delay_subscription ds_delays ds_at_end ds_ntag lookup remove_key]. nat_eqb.
  destruct (ae && Nat.eqb (length plt) 0) eqn:E.
  - cbn. rewrite sim_emits_cons. cbn. rewrite sim_stopped by reflexivity. rewrite release_no_emits. reflexivity.
  - cbn. rewrite sim_emits_cons. cbn. f_equal.
    unfold upd. cbn [new_timers flat_map app r_timers]. rewrite app_nil_r.
    change (due_all now (S tg :: map fst plt)) with ((S tg, now) :: due_all now (map fst plt)).
    cbn [filter fst]. rewrite (mem_notIn _ _ Hnin).
    rewrite filter_due_all0. reflexivity.
Qed.

Lemma next_tick now tg tags (ext : list (Z * inp A)) :
  match ext with
  | [] => True
  | (t, i) :: _ => (match i with IDispose => t <? now | _ => t <=? now end) = false
  end ->
  next_event (due_all now (tg :: tags)) ext = Some (now, ITick tg, ext).
Proof.
  intros H. unfold next_event. rewrite earliest_due_all. destruct ext as [|[t i] ext']; [reflexivity|].
  now rewrite H.
Qed.

Lemma next_src now tg tags t k (e : ev A) ext : (t <=? now) = true ->
  next_event (due_all now (tg :: tags)) ((t, ISrc k e) :: ext) = Some (t, ISrc k e, ext).
Proof. intros H. unfold next_event. rewrite earliest_due_all. now rewrite H. Qed.

(* the source completed while completions were still pending: they run (all at
   the same instant), then the sequence completes *)
Lemma dsub_flush ts t0 : forall n0 (es : list (Z * ev A)) fuel plt n now,
  (length es + length plt <= n0)%nat -> (length es + length plt + 1 <= fuel)%nat ->
  plt <> [] -> tags_ok plt n ->
  sim_emits (sim (x_delay_subscription ts t0) fuel (DSubSt true plt n)
                 (RState [] (map fst plt) false) (due_all now (map fst plt)) (ext_of es))
  = map (fun e => (now, Next (snd e))) plt ++ [(now, Done)].
Proof.
  induction n0 as [|n0 IH]; intros es fuel plt n now Hn Hf Hne Hok.
  - destruct plt; [contradiction|cbn in Hn; lia].
  - destruct plt as [|[tg x] plt]; [contradiction|]. destruct fuel as [|f]; [cbn in Hf; lia|].
    assert (Tick : forall es' : list (Z * ev A), (length es' + length plt <= n0)%nat -> (length es' + length plt + 1 <= f)%nat ->
              next_event (due_all now (map fst ((tg, x) :: plt))) (ext_of es') = Some (now, ITick tg, ext_of es') ->
              sim_emits (sim (x_delay_subscription ts t0) (S f) (DSubSt true ((tg, x) :: plt) n)
                             (RState [] (map fst ((tg, x) :: plt)) false) (due_all now (map fst ((tg, x) :: plt))) (ext_of es'))
              = map (fun e => (now, Next (snd e))) ((tg, x) :: plt) ++ [(now, Done)]).
    { intros es' Hn' Hf' Hnext. rewrite (dsub_tick ts t0 f true tg x plt n now _ Hok Hnext []).
      cbn [map snd app andb]. f_equal. destruct plt as [|e2 plt2]; [reflexivity|].
      cbn [length Nat.eqb]. apply (IH es' f (e2 :: plt2) n now); cbn [length] in *; try lia; [discriminate|].
      exact (proj1 (tags_ok_tail _ _ _ _ Hok)). }
    destruct es as [|[t e] rest].
    + apply Tick; cbn [length] in *; try lia. rewrite ext_of_nil. cbn [map fst]. apply next_tick. exact I.
    + destruct (t <=? now) eqn:E.
      * rewrite ext_of_cons, sim_S. cbn [map fst]. rewrite next_src by exact E.
        unfold rstep. cbn [r_stopped r_live mem existsb]. rewrite sim_emits_cons. cbn [emits flat_map map app].
        unfold upd. cbn [new_timers flat_map r_timers]. rewrite app_nil_r.
        change (tg :: map fst plt) with (map fst ((tg, x) :: plt)). rewrite filter_due_all0.
        apply (IH rest f ((tg, x) :: plt) n now); cbn [length] in *; try lia; [discriminate|exact Hok].
      * apply Tick; cbn [length] in *; try lia. rewrite ext_of_cons. cbn [map fst]. apply next_tick.
        destruct e; exact E.
Qed.

Lemma due_all_snoc now tags n : due_all now (tags ++ [n]) = due_all now tags ++ [(n, now)].
Proof. unfold due_all. now rewrite map_app. Qed.

(* subscribed, source not completed *)
Lemma dsub_live ts t0 : forall n0 (es : list (Z * ev A)) fuel plt n now,
  (2 * length es + length plt <= n0)%nat -> (2 * length es + length plt + 1 <= fuel)%nat ->
  (0 < n)%nat -> tags_ok plt n -> tsorted es -> (plt <> [] -> Forall (fun e => now <= fst e) es) ->
  sim_emits (sim (x_delay_subscription ts t0) fuel (DSubSt false plt n)
                 (RState [0%nat] (map fst plt) false) (due_all now (map fst plt)) (ext_of es))
  = ds2_spec now (map snd plt) es.
Proof.
  induction n0 as [|n0 IH]; intros es fuel plt n now Hn Hf Hpos Hok Hs Hlo.
  - destruct es; [|cbn in Hn; lia]. destruct plt; [|cbn in Hn; lia]. rewrite ext_of_nil. cbn [map].
    change (due_all now []) with (@nil (nat * Z)). now rewrite sim_nil.
  - destruct fuel as [|f]; [cbn in Hf; lia|].
    destruct plt as [|[tg x] plt].
    + (* nothing pending *)
      cbn [map]. change (due_all now []) with (@nil (nat * Z)).
      destruct es as [|[t e] rest]; [now rewrite ext_of_nil, sim_nil|].
      rewrite ext_of_cons, sim_S. cbn [map due_all next_event earliest fst snd]. cbn [length] in *.
      destruct Hs as [Hall Hs]. cbn [ds2_spec map].
      assert (Hpl : (if negb (t <=? now) then @nil A else []) = []) by (destruct (t <=? now); reflexivity).
      rewrite Hpl. assert (Hfl : (if negb (t <=? now) then @nil (Z * ev A) else []) = []) by (destruct (t <=? now); reflexivity).
      rewrite Hfl. cbn [app].
      destruct e as [y|c|]; unfold rstep; cbn; rewrite sim_emits_cons; cbn.
      * unfold upd. cbn [new_timers flat_map app filter fst r_timers mem existsb]. nat_eqb. cbn [orb].
        rewrite Z.add_0_r.
        apply (IH rest f [(n, y)] (S n) t); cbn [length]; try lia.
        -- apply (tags_ok_snoc [] n y Hpos). split; constructor.
        -- exact Hs.
        -- intros _. exact Hall.
      * rewrite sim_stopped by reflexivity. reflexivity.
      * rewrite sim_stopped by reflexivity. reflexivity.
    + (* completions pending at [now] *)
      assert (Tick : forall es' : list (Z * ev A), (2 * length es' + length plt <= n0)%nat -> (2 * length es' + length plt + 1 <= f)%nat ->
                tsorted es' -> Forall (fun e => now <= fst e) es' ->
                next_event (due_all now (map fst ((tg, x) :: plt))) (ext_of es') = Some (now, ITick tg, ext_of es') ->
                sim_emits (sim (x_delay_subscription ts t0) (S f) (DSubSt false ((tg, x) :: plt) n)
                               (RState [0%nat] (map fst ((tg, x) :: plt)) false) (due_all now (map fst ((tg, x) :: plt))) (ext_of es'))
                = (now, Next x) :: ds2_spec now (map snd plt) es').
      { intros es' Hn' Hf' Hs' Hlo' Hnext. rewrite (dsub_tick ts t0 f false tg x plt n now _ Hok Hnext [0%nat]).
        cbn [andb]. f_equal. apply (IH es' f plt n now); try lia; try assumption.
        - exact (proj1 (tags_ok_tail _ _ _ _ Hok)).
        - intros _. exact Hlo'. }
      specialize (Hlo ltac:(discriminate)).
      destruct es as [|[t e] rest].
      * rewrite Tick; cbn [length] in *; try lia; try assumption; [reflexivity|].
        rewrite ext_of_nil. cbn [map fst]. apply next_tick. exact I.
      * destruct Hs as [Hall Hs]. inversion Hlo as [|? ? Hlt _]; subst. cbn [fst] in Hlt.
        destruct (t <=? now) eqn:E.
        -- assert (t = now) by lia. subst t.
           rewrite ext_of_cons, sim_S. cbn [map fst]. rewrite next_src by exact E.
           cbn [ds2_spec]. rewrite E. cbn [negb app]. cbn [length] in *.
           destruct e as [y|c|]; unfold rstep; cbn [r_stopped r_live mem existsb Nat.eqb orb];
             cbn [x_step x_delay_subscription ds_delays ds_at_end ds_ntag].
           ++ cbn [apply_cmds r_live r_timers r_stopped is_terminal andb finish app].
              rewrite sim_emits_cons. cbn [emits flat_map map app].
              unfold upd. cbn [new_timers flat_map app r_timers]. rewrite Z.add_0_r.
              change (tg :: map fst plt) with (map fst ((tg, x) :: plt)).
              rewrite <- due_all_snoc.
              replace (map fst ((tg, x) :: plt) ++ [n]) with (map fst (((tg, x) :: plt) ++ [(n, y)])) by (rewrite map_app; reflexivity).
              assert (Ht : tg :: map fst plt ++ [n] = map fst (((tg, x) :: plt) ++ [(n, y)])) by (rewrite map_app; reflexivity).
              rewrite !Ht. rewrite filter_due_all0.
              assert (Hv : snd (tg, x) :: map snd plt ++ [y] = map snd (((tg, x) :: plt) ++ [(n, y)])) by (rewrite map_app; reflexivity).
              rewrite Hv.
              apply (IH rest f (((tg, x) :: plt) ++ [(n, y)]) (S n) now); rewrite ?app_length; cbn [length app] in *; try lia.
              ** apply (tags_ok_snoc ((tg, x) :: plt) n y); assumption.
              ** exact Hs.
              ** intros _. exact Hall.
           ++ cbn. rewrite sim_emits_cons. cbn. rewrite cancels_no_emits.
              rewrite sim_stopped by reflexivity. reflexivity.
           ++ cbn [length Nat.eqb apply_cmds mem existsb Nat.eqb orb remove r_live r_timers r_stopped is_terminal andb finish app].
              rewrite sim_emits_cons. cbn [emits flat_map map app].
              unfold upd. cbn [new_timers flat_map app r_timers]. rewrite app_nil_r.
              change (tg :: map fst plt) with (map fst ((tg, x) :: plt)). rewrite filter_due_all0.
              rewrite (dsub_flush ts t0 (length rest + length ((tg, x) :: plt)) rest f ((tg, x) :: plt) n now);
                cbn [length] in *; try lia; [|discriminate|exact Hok].
              rewrite map_map. reflexivity.
        -- rewrite Tick; cbn [length] in *; try lia.
           ++ cbn [map snd]. rewrite ds2_spec_pop by exact E. reflexivity.
           ++ split; assumption.
           ++ exact Hlo.
           ++ rewrite ext_of_cons. cbn [map fst]. apply next_tick. destruct e; exact E.
Qed.

(* ---- before the subscription -------------------------------------------- *)
Fixpoint take_upto (D : Z) (es : list (Z * ev A)) : list (Z * ev A) :=
  match es with (t, e) :: rest => if t <=? D then (t, e) :: take_upto D rest else [] | [] => [] end.
Fixpoint drop_upto (D : Z) (es : list (Z * ev A)) : list (Z * ev A) :=
  match es with (t, e) :: rest => if t <=? D then drop_upto D rest else es | [] => [] end.

Lemma drop_upto_length D es : (length (take_upto D es) + length (drop_upto D es) = length es)%nat.
Proof. induction es as [|[t e] rest IH]; [reflexivity|]. cbn. destruct (t <=? D); cbn; lia. Qed.

(* the source is subscribed exactly when the timer fires at D; whatever it sent
   up to and AT that instant is lost, nothing is observed before *)
Lemma dsub_phase1 ts t0 D : forall es fuel',
  sim (x_delay_subscription ts t0) (length (take_upto D es) + S fuel') (DSubSt false [] 1)
      (RState [] [0%nat] false) [(0%nat, D)] (ext_of es)
  = map (fun te => (fst te, ISrc 0%nat (snd te), @nil (obs A))) (take_upto D es)
    ++ (D, ITick 0%nat, [@OSub A 0%nat])
       :: sim (x_delay_subscription ts t0) fuel' (DSubSt false [] 1) (RState [0%nat] [] false) []
              (ext_of (drop_upto D es)).
Proof.
  assert (Tick : forall ext fuel', next_event [(0%nat, D)] ext = Some (D, ITick 0%nat, ext) ->
            sim (x_delay_subscription ts t0) (S fuel') (DSubSt false [] 1) (RState [] [0%nat] false) [(0%nat, D)] ext
            = (D, ITick 0%nat, [@OSub A 0%nat])
              :: sim (x_delay_subscription ts t0) fuel' (DSubSt false [] 1) (RState [0%nat] [] false) [] ext).
  { intros ext fuel' Hnext. rewrite sim_S, Hnext. unfold rstep. cbn. unfold upd. cbn. reflexivity. }
  induction es as [|[t e] rest IH]; intros fuel'.
  - cbn [take_upto drop_upto length map app plus]. rewrite ext_of_nil. apply Tick. reflexivity.
  - cbn [take_upto drop_upto]. destruct (t <=? D) eqn:E.
    + cbn [length map app plus fst snd]. rewrite ext_of_cons, sim_S. cbn [next_event earliest fst snd].
      assert (Hc : (match e with Next _ | _ => t <=? D end) = true) by (destruct e; exact E).
      destruct e; rewrite E; unfold rstep; cbn; unfold upd; cbn; f_equal; apply IH.
    + cbn [length map app plus]. rewrite ext_of_cons. apply Tick.
      cbn [next_event earliest fst snd]. destruct e; rewrite E; reflexivity.
Qed.

Lemma sim_emits_app (l1 l2 : list (Z * inp A * list (obs A))) : sim_emits (l1 ++ l2) = sim_emits l1 ++ sim_emits l2.
Proof. unfold sim_emits. apply flat_map_app. Qed.

Lemma tsorted_drop_upto D : forall es : list (Z * ev A), tsorted es -> tsorted (drop_upto D es).
Proof.
  induction es as [|[t e] rest IH]; intros Hs; [exact I|]. cbn [drop_upto].
  destruct (t <=? D); [apply IH; exact (proj2 Hs)|exact Hs].
Qed.

Theorem delay_subscription_sim_spec ts t0 (es : list (Z * ev A)) : tsorted es ->
  timed_emits t0 (simulate (x_delay_subscription ts t0) t0 (ext_of es))
  = ds2_spec (due_at ts t0) [] (drop_upto (due_at ts t0) es).
Proof.
  intros Hs. unfold simulate, simulate_fuel, timed_emits.
  cbn [x_start x_delay_subscription apply_cmds finish fst snd app emits flat_map map r_live r_timers r_stopped].
  unfold upd. cbn [new_timers flat_map app filter fst r_timers mem existsb Nat.eqb orb].
  fold (due_at ts t0). set (D := due_at ts t0).
  pose proof (drop_upto_length D es) as Hlen. rewrite ext_of_length.
  replace (3 * length es + 4)%nat
    with (length (take_upto D es) + S (3 * length es + 3 - length (take_upto D es)))%nat by lia.
  rewrite dsub_phase1, sim_emits_app, sim_emits_cons.
  assert (Hnil : sim_emits (map (fun te : Z * ev A => (fst te, @ISrc A 0%nat (snd te), @nil (obs A))) (take_upto D es)) = []).
  { clear Hlen. induction (take_upto D es) as [|x l IHl]; [reflexivity|]. cbn [map]. rewrite sim_emits_cons. exact IHl. }
  rewrite Hnil. cbn [emits flat_map map app].
  change (@nil (nat * Z)) with (due_all D (map fst (@nil (nat * A)))).
  change (@nil nat) with (map fst (@nil (nat * A))) at 2.
  apply (dsub_live ts t0 (2 * length (drop_upto D es)) (drop_upto D es) _ [] 1 D); cbn [length]; try lia.
  - split; constructor.
  - apply tsorted_drop_upto. exact Hs.
  - intros H. contradiction.
Qed.

(* "subscribes d later": the first thing observed is the subscription of the
   source, at the due instant; every earlier notification found nobody listening *)
Theorem delay_subscription_subscribes_at ts t0 (es : list (Z * ev A)) :
  exists rest,
    snd (simulate (x_delay_subscription ts t0) t0 (ext_of es))
    = map (fun te => (fst te, ISrc 0%nat (snd te), @nil (obs A))) (take_upto (due_at ts t0) es)
      ++ (due_at ts t0, ITick 0%nat, [@OSub A 0%nat]) :: rest.
Proof.
  unfold simulate, simulate_fuel.
  cbn [x_start x_delay_subscription apply_cmds finish fst snd app emits flat_map map r_live r_timers r_stopped].
  unfold upd. cbn [new_timers flat_map app filter fst r_timers mem existsb Nat.eqb orb].
  fold (due_at ts t0). set (D := due_at ts t0).
  pose proof (drop_upto_length D es) as Hlen. rewrite ext_of_length.
  replace (3 * length es + 4)%nat
    with (length (take_upto D es) + S (3 * length es + 3 - length (take_upto D es)))%nat by lia.
  rewrite dsub_phase1. eexists. reflexivity.
Qed.

(* ---- closed form ---------------------------------------------------------- *)
Definition own (tl : list (Z * A)) : list (Z * ev A) := map (fun tx => (fst tx, Next (snd tx))) tl.
Definition at_now (now : Z) (pl : list A) : list (Z * ev A) := map (fun x => (now, Next x)) pl.

Definition ds_outq (l : list (Z * ev A)) (tm : tterm) : list (Z * ev A) :=
  match tm with
  | TTDone T => l ++ [(T, Done)]
  | TTErr T c => filter (fun n => fst n <? T) l ++ [(T, Err c)]
  | TTNever => l
  end.

Lemma filter_at_now_lt now T pl : now < T -> filter (fun n : Z * ev A => fst n <? T) (at_now now pl) = at_now now pl.
Proof. intros H. apply filter_all. unfold at_now. rewrite Forall_forall. intros n Hn. apply in_map_iff in Hn. destruct Hn as [x [<- _]]. cbn. lia. Qed.
Lemma filter_at_now_ge now T pl : T <= now -> filter (fun n : Z * ev A => fst n <? T) (at_now now pl) = [].
Proof. intros H. apply filter_none. unfold at_now. rewrite Forall_forall. intros n Hn. apply in_map_iff in Hn. destruct Hn as [x [<- _]]. cbn. lia. Qed.

Lemma ds2_closed : forall (tl : list (Z * A)) tm now pl,
  tsorted (tevents tl tm) -> Forall (fun e => now <= fst e) (tevents tl tm) ->
  ds2_spec now pl (tevents tl tm) = ds_outq (at_now now pl ++ own tl) tm.
Proof.
  induction tl as [|[t x] rest IH]; intros tm now pl Hs Hlo.
  - cbn [own map]. rewrite app_nil_r. destruct tm as [T|T c|]; cbn [tevents map app ds2_spec ds_outq].
    + inversion Hlo as [|? ? HT _]; subst. cbn [fst] in HT. destruct (T <=? now) eqn:E; cbn [negb app].
      * assert (T = now) by lia. subst. reflexivity.
      * reflexivity.
    + inversion Hlo as [|? ? HT _]; subst. cbn [fst] in HT. destruct (T <=? now) eqn:E; cbn [negb app].
      * rewrite filter_at_now_ge by lia. reflexivity.
      * rewrite filter_at_now_lt by lia. reflexivity.
    + reflexivity.
  - rewrite tevents_cons in *. destruct Hs as [Hall Hs]. inversion Hlo as [|? ? Hlt _]; subst. cbn [fst] in Hlt.
    cbn [ds2_spec]. rewrite (IH tm t _ Hs Hall). cbn [own map fst snd]. fold (own rest).
    destruct (t <=? now) eqn:E; cbn [negb app].
    + assert (t = now) by lia. subst t. unfold at_now. rewrite map_app, <- app_assoc. reflexivity.
    + change (at_now t ([] ++ [x])) with [(t, Next x)].
      destruct tm as [T|T c|]; cbn [ds_outq app]; rewrite <- ?app_assoc; try reflexivity.
      assert (HtT : t <= T).
      { rewrite Forall_forall in Hall. apply (Hall (T, Err c)). unfold tevents. apply in_or_app. right. left. reflexivity. }
      rewrite (filter_app _ (at_now now pl)), filter_at_now_lt by lia. rewrite <- app_assoc. reflexivity.
Qed.

(* what the (hot) source sent before the subscription is lost, terminal included *)
Definition after (D : Z) (tl : list (Z * A)) : list (Z * A) := filter (fun tx => D <? fst tx) tl.
Definition term_after (D : Z) (tm : tterm) : tterm :=
  match tm with
  | TTDone T => if D <? T then tm else TTNever
  | TTErr T _ => if D <? T then tm else TTNever
  | TTNever => TTNever
  end.

Lemma drop_upto_tevents D : forall (tl : list (Z * A)) tm, tsorted (tevents tl tm) ->
  drop_upto D (tevents tl tm) = tevents (after D tl) (term_after D tm).
Proof.
  induction tl as [|[t x] rest IH]; intros tm Hs.
  - destruct tm as [T|T c|]; cbn [tevents map app drop_upto after filter term_after]; try reflexivity;
      destruct (T <=? D) eqn:E; [assert (E2 : (D <? T) = false) by lia|assert (E2 : (D <? T) = true) by lia| |];
      try (assert (E2 : (D <? T) = false) by lia); try (assert (E2' : (D <? T) = true) by lia); rewrite ?E2, ?E2'; reflexivity.
  - rewrite tevents_cons in *. destruct Hs as [Hall Hs]. cbn [drop_upto after filter fst].
    destruct (t <=? D) eqn:E.
    + assert (E2 : (D <? t) = false) by lia. rewrite E2. apply IH, Hs.
    + assert (E2 : (D <? t) = true) by lia. rewrite E2. rewrite tevents_cons. f_equal.
      assert (Hf : after D rest = rest).
      { apply filter_all. rewrite Forall_forall in *. intros [t' x'] Hin. cbn [fst].
        assert (t <= t'). { apply (Hall (t', Next x')). unfold tevents. apply in_or_app. left. apply in_map_iff. exists (t', x'). auto. }
        lia. }
      assert (Ht : term_after D tm = tm).
      { destruct tm as [T|T c|]; cbn [term_after]; try reflexivity.
        - assert (t <= T). { rewrite Forall_forall in Hall. apply (Hall (T, Done)). unfold tevents. apply in_or_app. right. left. reflexivity. }
          assert (E3 : (D <? T) = true) by lia. now rewrite E3.
        - assert (t <= T). { rewrite Forall_forall in Hall. apply (Hall (T, Err c)). unfold tevents. apply in_or_app. right. left. reflexivity. }
          assert (E3 : (D <? T) = true) by lia. now rewrite E3. }
      fold (after D rest). now rewrite Hf, Ht.
Qed.

Lemma tsorted_lo (es : list (Z * ev A)) : tsorted es ->
  match es with [] => True | (t, _) :: _ => Forall (fun e => t <= fst e) es end.
Proof. destruct es as [|[t e] rest]; [auto|]. intros [H _]. constructor; [cbn; lia|exact H]. Qed.

(* the elements after the subscription instant, each at its own instant, then
   the source's terminal; elements arriving at the very instant of an error are dropped *)
Theorem delay_subscription_spec ts t0 (tl : list (Z * A)) tm : tsorted (tevents tl tm) ->
  timed_emits t0 (simulate (x_delay_subscription ts t0) t0 (ext_of (tevents tl tm)))
  = ds_outq (own (after (due_at ts t0) tl)) (term_after (due_at ts t0) tm).
Proof.
  intros Hs. rewrite delay_subscription_sim_spec by exact Hs. set (D := due_at ts t0).
  rewrite drop_upto_tevents by exact Hs.
  assert (Hs2 : tsorted (tevents (after D tl) (term_after D tm))).
  { rewrite <- drop_upto_tevents by exact Hs. apply tsorted_drop_upto. exact Hs. }
  pose proof (tsorted_lo _ Hs2) as Hlo.
  destruct (tevents (after D tl) (term_after D tm)) as [|[t e] rest] eqn:Ee.
  - (* nothing after the subscription *)
    destruct (after D tl) as [|[t x] r]; [|discriminate]. destruct (term_after D tm); try discriminate. reflexivity.
  - rewrite <- Ee in *. 
    assert (H : forall now, ds2_spec now [] (tevents (after D tl) (term_after D tm)) = ds2_spec t [] (tevents (after D tl) (term_after D tm))).
    { intros now. rewrite Ee. cbn [ds2_spec]. destruct (negb (t <=? now)), (negb (t <=? t)); reflexivity. }
    rewrite (H D). rewrite ds2_closed; [reflexivity|exact Hs2|exact Hlo].
Qed.
End DelaySubscription.
