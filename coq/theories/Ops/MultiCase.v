(* Helpers for generated correspondence cases of multi-source machines:
   canonical per-tag ordering of the observable trace and decidable equality. *)
From RxVerif Require Import Base.Prelude Base.CaseLib Ops.Machine Ops.Multi.

Section Canon.
Context {B : Type}.

Definition obs_key (o : obs B) : Z * Z * Z :=
  match o with
  | OEmit _ => (0, 0, 0)
  | OSub k => (1, Z.of_nat k, 0)
  | OUnsub k => (2, Z.of_nat k, 0)
  | OTimer t d => (3, Z.of_nat t, d)
  | OCancel t => (4, Z.of_nat t, 0)
  | OEffect n => (5, n, 0)
  end.

Definition key_leb (a b : Z * Z * Z) : bool :=
  let '(a1, a2, a3) := a in let '(b1, b2, b3) := b in
  (a1 <? b1) || ((a1 =? b1) && ((a2 <? b2) || ((a2 =? b2) && (a3 <=? b3)))).

Fixpoint ins_obs (o : obs B) (l : list (obs B)) : list (obs B) :=
  match l with
  | [] => [o]
  | x :: t => if key_leb (obs_key o) (obs_key x) then o :: l else x :: ins_obs o t
  end.

Definition is_emit (o : obs B) : bool := match o with OEmit _ => true | _ => false end.

Definition canon_group (g : list (obs B)) : list (obs B) :=
  filter is_emit g ++ fold_right ins_obs [] (filter (fun o => negb (is_emit o)) g).

(* split off the leading run of entries with tag [k] *)
Fixpoint take_tag (k : nat) (l : list (nat * obs B)) : list (obs B) * list (nat * obs B) :=
  match l with
  | (j, o) :: t => if Nat.eqb j k then let '(g, rest) := take_tag k t in (o :: g, rest) else ([], l)
  | [] => ([], [])
  end.

Fixpoint canon_fuel (fuel : nat) (l : list (nat * obs B)) : list (nat * obs B) :=
  match fuel, l with
  | S f, (k, _) :: _ =>
      let '(g, rest) := take_tag k l in
      map (fun o => (k, o)) (canon_group g) ++ canon_fuel f rest
  | _, _ => []
  end.
Definition canon (l : list (nat * obs B)) : list (nat * obs B) := canon_fuel (length l) l.

Definition obs_eqb (eqb : B -> B -> bool) (a b : obs B) : bool :=
  match a, b with
  | OEmit x, OEmit y => ev_eqb eqb x y
  | OSub x, OSub y => Nat.eqb x y
  | OUnsub x, OUnsub y => Nat.eqb x y
  | OTimer x d, OTimer y e => Nat.eqb x y && (d =? e)
  | OCancel x, OCancel y => Nat.eqb x y
  | OEffect x, OEffect y => x =? y
  | _, _ => false
  end.

Definition trace_eqb (eqb : B -> B -> bool) (a b : list (nat * obs B)) : bool :=
  list_eqb (pair_eqb Nat.eqb (obs_eqb eqb)) a b.
End Canon.

Definition run_canon {A B} (m : machine A B) (ins : list (Z * inp A)) : list (nat * obs B) :=
  canon (fst (run m ins)).
