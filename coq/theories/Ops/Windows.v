(* C18: window and buffer operators as machines of Ops/MultiWin.v, following the
   code of the files named above each definition, AS IT IS.

   Windows are numbered 0,1,2,... in creation order (each machine keeps the
   counter [.._next]); the harness numbers them in the order the subscriber
   receives them, which is the same as long as the outer subscription is live.
   Sources: 0 = the main source; boundary / openings source = 1; closing
   observables made by a closing mapper are numbered after the static sources
   in creation order.  Timers: tags 0,1,2,... in scheduling order, time in
   integer milliseconds (as in Ops/Timed.v). *)
From RxVerif Require Import Base.Prelude Ops.Machine Ops.MultiWin.

Section Windows.
Context {A B : Type}.

(* `for s in queue: s.on_xxx(..)` *)
Definition wins_all (q : list nat) (e : ev A) : list (cmd A B) := map (fun g => CWin g e) q.

(* ---------------------------------------------------------------- count -- *)
(* operators/_windowwithcount.py: n (elements seen), q (FIFO of open subjects).
   on_next: every open window gets x; c = n - count + 1, `if c >= 0 and c %
   skip == 0: q.pop(0).on_completed()`; n += 1; `if n % skip == 0:
   create_window()`.  (q.pop(0) on an empty q would raise IndexError out of
   on_next; Windows facts: [wcount_pop_safe] shows it is unreachable.) *)
Record wc_st := WcSt { wc_n : Z; wc_q : list nat; wc_next : nat }.

Definition wc_on_next (count skip : Z) (s : wc_st) (x : A) : wc_st * list (cmd A B) :=
  let c1 := wins_all (wc_q s) (Next x) in
  let c := wc_n s - count + 1 in
  let '(q1, c2) :=
    if (0 <=? c) && (c mod skip =? 0)
    then match wc_q s with g :: t => (t, [CWin g Done]) | [] => ([], []) end
    else (wc_q s, []) in
  let n1 := wc_n s + 1 in
  if n1 mod skip =? 0
  then (WcSt n1 (q1 ++ [wc_next s]) (S (wc_next s)), c1 ++ c2 ++ [CHand (wc_next s) 0])
  else (WcSt n1 q1 (wc_next s), c1 ++ c2).

Definition x_window_count (count skip : Z) : machine A A B :=
  Machine (WcSt 0 [0%nat] 1, [CHand 0%nat 0; CSub 0%nat], Cont)
    (fun s _ i =>
       match i with
       | ISrc _ (Next x) => let '(s', cs) := wc_on_next count skip s x in (s', cs, Cont)
       | ISrc _ (Err e) => (WcSt (wc_n s) [] (wc_next s), wins_all (wc_q s) (Err e), Fail e)
       | ISrc _ Done => (WcSt (wc_n s) [] (wc_next s), wins_all (wc_q s) Done, Complete)
       | _ => (s, [], Cont)
       end).

(* ----------------------------------------------------------------- time -- *)
(* operators/_windowwithtime.py: next_shift / next_span / total_time timer chain;
   [wt_is_span]/[wt_is_shift] are the flags captured by the pending action. *)
Record wt_st := WtSt {
  wt_nshift : Z; wt_nspan : Z; wt_total : Z; wt_q : list nat; wt_next : nat; wt_ntag : nat;
  wt_is_span : bool; wt_is_shift : bool }.

(* create_timer(): `if next_span == next_shift: both elif next_span < next_shift:
   span else: shift` *)
Definition wt_create_timer (shift : Z) (s : wt_st) : wt_st * list (cmd A B) :=
  let is_span := wt_nspan s <=? wt_nshift s in
  let is_shift := wt_nshift s <=? wt_nspan s in
  let new_total := if is_span then wt_nspan s else wt_nshift s in
  let ts := new_total - wt_total s in
  (WtSt (if is_shift then wt_nshift s + shift else wt_nshift s)
        (if is_span then wt_nspan s + shift else wt_nspan s)
        new_total (wt_q s) (wt_next s) (S (wt_ntag s)) is_span is_shift,
   [CTimer (wt_ntag s) (Z.max 0 ts)]).

Definition wt_action (shift : Z) (s : wt_st) : wt_st * list (cmd A B) :=
  let '(q1, nx, c1) :=
    if wt_is_shift s then (wt_q s ++ [wt_next s], S (wt_next s), [CHand (wt_next s) 0])
    else (wt_q s, wt_next s, []) in
  let '(q2, c2) :=
    if wt_is_span s then match q1 with g :: t => (t, [CWin g Done]) | [] => ([], []) end
    else (q1, []) in
  let '(s', c3) := wt_create_timer shift
                     (WtSt (wt_nshift s) (wt_nspan s) (wt_total s) q2 nx (wt_ntag s) (wt_is_span s) (wt_is_shift s)) in
  (s', c1 ++ c2 ++ c3).

Definition x_window_time (span shift : Z) : machine A A B :=
  Machine (let '(s, c) := wt_create_timer shift (WtSt shift span 0 [0%nat] 1 0 false false) in
           (s, [CHand 0%nat 0] ++ c ++ [CSub 0%nat], Cont))
    (fun s _ i =>
       match i with
       | ISrc _ (Next x) => (s, wins_all (wt_q s) (Next x), Cont)
       | ISrc _ (Err e) => (s, wins_all (wt_q s) (Err e), Fail e)
       | ISrc _ Done => (s, wins_all (wt_q s) Done, Complete)
       | ITick _ => let '(s', cs) := wt_action shift s in (s', cs, Cont)
       | _ => (s, [], Cont)
       end).

(* -------------------------------------------------------- time or count -- *)
(* operators/_windowwithtimeorcount.py: n, s (current subject), window_id;
   create_timer(_id) replaces timer_d (the previous timer is cancelled if it is
   still pending); the action of a stale timer (`_id != window_id`) returns. *)
Record wtc_st := WtcSt {
  wtc_n : Z; wtc_cur : nat; wtc_wid : Z; wtc_next : nat; wtc_ntag : nat;
  wtc_tid : Z; wtc_ttag : option nat }.

Definition wtc_create_timer (span : Z) (s : wtc_st) (id : Z) : wtc_st * list (cmd A B) :=
  (WtcSt (wtc_n s) (wtc_cur s) (wtc_wid s) (wtc_next s) (S (wtc_ntag s)) id (Some (wtc_ntag s)),
   match wtc_ttag s with Some t => [CCancel t] | None => [] end ++ [CTimer (wtc_ntag s) (Z.max 0 span)]).

(* n = 0; window_id += 1; s.on_completed(); s = Subject(); observer.on_next(..); create_timer(new_id) *)
Definition wtc_roll (span : Z) (s : wtc_st) : wtc_st * list (cmd A B) :=
  let '(s', c) := wtc_create_timer span
      (WtcSt 0 (wtc_next s) (wtc_wid s + 1) (S (wtc_next s)) (wtc_ntag s) (wtc_tid s) (wtc_ttag s))
      (wtc_wid s + 1) in
  (s', [CWin (wtc_cur s) Done; CHand (wtc_next s) 0] ++ c).

Definition x_window_time_or_count (span count : Z) : machine A A B :=
  Machine (let '(s, c) := wtc_create_timer span (WtcSt 0 0 0 1 0 0 None) 0 in
           (s, [CHand 0%nat 0] ++ c ++ [CSub 0%nat], Cont))
    (fun s _ i =>
       match i with
       | ISrc _ (Next x) =>
           if wtc_n s + 1 =? count
           then let '(s', c) := wtc_roll span s in (s', CWin (wtc_cur s) (Next x) :: c, Cont)
           else (WtcSt (wtc_n s + 1) (wtc_cur s) (wtc_wid s) (wtc_next s) (wtc_ntag s) (wtc_tid s) (wtc_ttag s),
                 [CWin (wtc_cur s) (Next x)], Cont)
       | ISrc _ (Err e) => (s, [CWin (wtc_cur s) (Err e)], Fail e)
       | ISrc _ Done => (s, [CWin (wtc_cur s) Done], Complete)
       | ITick _ =>
           if wtc_tid s =? wtc_wid s
           then let '(s', c) := wtc_roll span s in (s', c, Cont)
           else (s, [], Cont)
       | _ => (s, [], Cont)
       end).

(* ----------------------------------------------------------- boundaries -- *)
(* operators/_window.py: window_(boundaries).  source = 0, boundaries = 1; both
   share on_error / on_completed. *)
Definition x_window_boundaries : machine A A B :=
  Machine ((0%nat, 1%nat), [CHand 0%nat 0; CSub 0%nat; CSub 1%nat], Cont)
    (fun '(cur, next) _ i =>
       match i with
       | ISrc O (Next x) => ((cur, next), [CWin cur (Next x)], Cont)
       | ISrc (S _) (Next _) => ((next, S next), [CWin cur Done; CHand next 0], Cont)
       | ISrc _ (Err e) => ((cur, next), [CWin cur (Err e)], Fail e)
       | ISrc _ Done => ((cur, next), [CWin cur Done], Complete)
       | _ => ((cur, next), [], Cont)
       end).

(* ------------------------------------------------------ closing selector -- *)
(* operators/_window.py: window_when_(closing_mapper).  [mapper j] = outcome of
   the j-th call of closing_mapper(); the closing observable it returns is
   source [S j], subscribed through take(1): its first element (or its
   completion) closes the window and re-arms.  m.disposable = m1 disposes the
   previous closing subscription (the one that just fired).  [ww_closing]: the
   closing source currently subscribed (informative).
   A raising closing_mapper() (create_window_on_completed: `except Exception as
   exception: window.on_error(exception); observer.on_error(exception); return`):
   the CURRENT window -- at the first call, inside subscribe(), window 0, already
   handed and the source already subscribed; at a later call the window just
   handed -- gets the error first, then the outer sequence.  Every earlier
   window has completed, so no reference of the RefCountDisposable is left and
   the runner releases the source at the outer's terminal. *)
Record ww_st := WwSt { ww_cur : nat; ww_next : nat; ww_calls : nat; ww_closing : option nat }.

(* After a closing observable fired (on_completed of the closing subscription):
   `window.on_completed(); window = Subject(); observer.on_next(add_ref(window,
   r)); if d.is_disposed: return; create_window_on_completed()` -- when the
   completion of the old window released the last reference (the outer
   subscription being gone already), the mapper is not called and no closing
   observable is subscribed: the subscription is a [CSubLive] ([guarded] =
   true); once released no input reaches the machine any more, so the rest of
   what it computes then (call counter, a raising call's error) is unobservable.
   The first call, inside subscribe(), is unguarded. *)
Definition ww_arm (guarded : bool) (mapper : nat -> res unit) (s : ww_st) : ww_st * list (cmd A B) * fin :=
  match mapper (ww_calls s) with
  | Raise e => (WwSt (ww_cur s) (ww_next s) (S (ww_calls s)) (ww_closing s), [CWin (ww_cur s) (Err e)], Fail e)
  | Ok _ => (WwSt (ww_cur s) (ww_next s) (S (ww_calls s)) (Some (S (ww_calls s))),
             [if guarded then CSubLive (S (ww_calls s)) else CSub (S (ww_calls s))], Cont)
  end.

Definition x_window_when (mapper : nat -> res unit) : machine A A B :=
  Machine (let '(s, c, f) := ww_arm false mapper (WwSt 0 1 0 None) in (s, [CHand 0%nat 0; CSub 0%nat] ++ c, f))
    (fun s _ i =>
       match i with
       | ISrc O (Next x) => (s, [CWin (ww_cur s) (Next x)], Cont)
       | ISrc O (Err e) => (s, [CWin (ww_cur s) (Err e)], Fail e)
       | ISrc O Done => (s, [CWin (ww_cur s) Done], Complete)
       | ISrc (S _) (Err e) => (s, [CWin (ww_cur s) (Err e)], Fail e)
       | ISrc (S j) _ =>
           (* take(1) / m.disposable = m1: the closing subscription that fired is disposed *)
           let '(s', c, f) := ww_arm true mapper (WwSt (ww_next s) (S (ww_next s)) (ww_calls s) (ww_closing s)) in
           (s', [CWin (ww_cur s) Done; CHand (ww_next s) 0; CUnsub (S j)] ++ c, f)
       | _ => (s, [], Cont)
       end).

(* ---------------------------------------------------------------- toggle -- *)
(* operators/_window.py: window_toggle_ = openings.pipe(group_join(source,
   closing_mapper, lambda _: empty()), map(window)) over operators/_groupjoin.py.
   left = openings (source 1), right = the windowed source (source 0); the right
   durations are empty(): each right value leaves right_map before anything else
   happens, so a new window replays nothing.  [wg_open]: left_map in id order
   as (window, its closing source).  The j-th closing observable is source
   [2 + j].  window_toggle_ asks group_join_ for complete_groups_with_right: the
   windows open when the source completes are completed and forgotten
   (on_completed_right); the left's completion only completes the outer
   observer (windows stay open until their closings fire). *)
Record wg_st := WgSt { wg_open : list (nat * nat); wg_next : nat; wg_calls : nat }.

Definition wg_windows (s : wg_st) : list nat := map fst (wg_open s).
Fixpoint wg_find (k : nat) (l : list (nat * nat)) : option nat :=
  match l with [] => None | (g, c) :: t => if Nat.eqb k c then Some g else wg_find k t end.

Definition x_window_toggle (mapper : nat -> res unit) : machine A A B :=
  Machine (WgSt [] 0 0, [CSub 1%nat; CSub 0%nat], Cont)
    (fun s _ i =>
       match i with
       | ISrc O (Next x) => (s, wins_all (wg_windows s) (Next x), Cont)
       | ISrc O (Err e) => (s, wins_all (wg_windows s) (Err e), Fail e)
       | ISrc O Done => (WgSt [] (wg_next s) (wg_calls s), wins_all (wg_windows s) Done, Cont)
       | ISrc (S O) (Next _) =>
           let g := wg_next s in
           match mapper (wg_calls s) with
           | Raise e =>
               let s' := WgSt (wg_open s ++ [(g, 0%nat)]) (S g) (S (wg_calls s)) in
               (s', CHand g 0 :: wins_all (wg_windows s') (Err e), Fail e)
           | Ok _ =>
               (WgSt (wg_open s ++ [(g, (2 + wg_calls s)%nat)]) (S g) (S (wg_calls s)),
                [CHand g 0; CSub (2 + wg_calls s)%nat], Cont)
           end
       | ISrc (S O) (Err e) => (s, wins_all (wg_windows s) (Err e), Fail e)
       | ISrc (S O) Done => (s, [], Complete)
       | ISrc k (Err e) => (s, wins_all (wg_windows s) (Err e), Fail e)
       | ISrc k _ =>
           match wg_find k (wg_open s) with
           | Some g => (WgSt (filter (fun gc => negb (Nat.eqb k (snd gc))) (wg_open s)) (wg_next s) (wg_calls s),
                        [CWin g Done; CUnsub k], Cont)
           | None => (s, [CUnsub k], Cont)
           end
       | _ => (s, [], Cont)
       end).
End Windows.

(* --------------------------------------------------------------- buffers -- *)
(* operators/_buffer.py, _bufferwithtime.py, _bufferwithtimeorcount.py:
   buffer* = window* |> flat_map(to_list) [|> filter(len > 0) for
   buffer_with_count].  flat_map (operators/_merge.py merge_all) subscribes to
   every window inside the on_next that hands it; to_list collects and emits
   the list at the window's completion; a window's error is the result's
   error; the result completes when the window operator completed the outer
   AND every window completed.  After the result's terminal everything is
   disposed: the rest of the window operator's handler reaches nobody. *)
Section Buffered.
Context {A B0 : Type}.

Record buf_st (S : Type) := BufSt { b_inner : S; b_open : list (nat * list A); b_outer_done : bool }.
Arguments BufSt {S}. Arguments b_inner {S}. Arguments b_open {S}. Arguments b_outer_done {S}.

Fixpoint buf_get (g : nat) (l : list (nat * list A)) : option (list A) :=
  match l with [] => None | (j, b) :: t => if Nat.eqb g j then Some b else buf_get g t end.
Fixpoint buf_add (g : nat) (x : A) (l : list (nat * list A)) : list (nat * list A) :=
  match l with [] => [] | (j, b) :: t => if Nat.eqb g j then (j, b ++ [x]) :: t else (j, b) :: buf_add g x t end.
Fixpoint buf_del (g : nat) (l : list (nat * list A)) : list (nat * list A) :=
  match l with [] => [] | (j, b) :: t => if Nat.eqb g j then t else (j, b) :: buf_del g t end.

(* feed the window operator's commands to flat_map(to_list); stops at the
   result's terminal *)
Fixpoint buf_cmds (keep_empty : bool) (open : list (nat * list A)) (outer_done : bool)
  (cs : list (cmd A B0)) : list (nat * list A) * list (cmd A (list A)) * fin :=
  match cs with
  | [] => (open, [], Cont)
  | c :: t =>
      match c with
      | CHand g _ =>
          let '(o, out, f) := buf_cmds keep_empty (open ++ [(g, [])]) outer_done t in (o, out, f)
      | CWin g (Next x) =>
          let '(o, out, f) := buf_cmds keep_empty (buf_add g x open) outer_done t in (o, out, f)
      | CWin g Done =>
          match buf_get g open with
          | Some b =>
              let emit := if keep_empty || negb (match b with [] => true | _ => false end) then [CEmit b] else [] in
              let open' := buf_del g open in
              if outer_done && match open' with [] => true | _ => false end
              then (open', emit, Complete)
              else let '(o, out, f) := buf_cmds keep_empty open' outer_done t in (o, emit ++ out, f)
          | None => buf_cmds keep_empty open outer_done t
          end
      | CWin g (Err e) =>
          match buf_get g open with
          | Some _ => (open, [], Fail e)
          | None => buf_cmds keep_empty open outer_done t
          end
      | CEmit _ => buf_cmds keep_empty open outer_done t
      | CSub k => let '(o, out, f) := buf_cmds keep_empty open outer_done t in (o, CSub k :: out, f)
      | CUnsub k => let '(o, out, f) := buf_cmds keep_empty open outer_done t in (o, CUnsub k :: out, f)
      | CTimer tg d => let '(o, out, f) := buf_cmds keep_empty open outer_done t in (o, CTimer tg d :: out, f)
      | CCancel tg => let '(o, out, f) := buf_cmds keep_empty open outer_done t in (o, CCancel tg :: out, f)
      | CEffect n => let '(o, out, f) := buf_cmds keep_empty open outer_done t in (o, CEffect n :: out, f)
      | CSubLive k => let '(o, out, f) := buf_cmds keep_empty open outer_done t in (o, CSubLive k :: out, f)
      end
  end.

Definition buf_finish (open : list (nat * list A)) (outer_done : bool) (f1 f : fin) : bool * fin :=
  match f1 with
  | Cont =>
      match f with
      | Cont => (outer_done, Cont)
      | Complete => (true, match open with [] => Complete | _ => Cont end)
      | Fail e => (outer_done, Fail e)
      end
  | _ => (outer_done, f1)
  end.

Definition buffered (keep_empty : bool) (m : machine A A B0) : machine A A (list A) :=
  Machine (let '(s0, cs, f) := x_start m in
           let '(open, out, f1) := buf_cmds keep_empty [] false cs in
           let '(od, f2) := buf_finish open false f1 f in
           (BufSt s0 open od, out, f2))
    (fun st now i =>
       let '(s', cs, f) := x_step m (b_inner st) now i in
       let '(open, out, f1) := buf_cmds keep_empty (b_open st) (b_outer_done st) cs in
       let '(od, f2) := buf_finish open (b_outer_done st) f1 f in
       (BufSt s' open od, out, f2)).
End Buffered.
Arguments BufSt {A S}. Arguments b_inner {A S}. Arguments b_open {A S}. Arguments b_outer_done {A S}.

Section BufferOps.
Context {A : Type}.
Definition x_buffer_count (count skip : Z) : machine A A (list A) :=
  buffered false (x_window_count (B:=unit) count skip).
Definition x_buffer_time (span shift : Z) : machine A A (list A) :=
  buffered true (x_window_time (B:=unit) span shift).
Definition x_buffer_time_or_count (span count : Z) : machine A A (list A) :=
  buffered true (x_window_time_or_count (B:=unit) span count).
Definition x_buffer_boundaries : machine A A (list A) := buffered true (x_window_boundaries (B:=unit)).
Definition x_buffer_when (mapper : nat -> res unit) : machine A A (list A) :=
  buffered true (x_window_when (B:=unit) mapper).
Definition x_buffer_toggle (mapper : nat -> res unit) : machine A A (list A) :=
  buffered true (x_window_toggle (B:=unit) mapper).
End BufferOps.
