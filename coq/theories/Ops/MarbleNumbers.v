(* C38 -- the value of a marble element as marbles.py computes it:
     try int(element), then float(element), else the string; then lookup_.get(v, v).
   Python's int()/float() grammar on ASCII text without whitespace (sign, digits
   with single underscores, fraction, exponent, inf/infinity/nan in any case).
   float(): decimal -> binary64 is computed exactly when the decimal significand
   is below 2^53 and the decimal exponent within +-22 (one correctly rounded
   IEEE operation on exact operands); outside that range the model answers
   [PUnsupported] and the harness does not generate such elements.
   Used by the correspondence and by Examples only (no theorem depends on it). *)
From Coq Require Import List Ascii String Bool Arith ZArith.
From Coq Require Import PrimFloat Uint63.
From RxVerif Require Import Ops.Marbles Core.FloatBits.
Import ListNotations.
Open Scope char_scope.
Open Scope list_scope.

Inductive pyval :=
| PInt (z : Z) | PFloat (f : float) | PStr (s : str) | PObj (id : Z) | PUnsupported.

Definition digit_val (c : ascii) : option Z :=
  let n := nat_of_ascii c in
  if Nat.leb 48 n && Nat.leb n 57 then Some (Z.of_nat (n - 48)) else None.

(* digit ("_"? digit)*  from the front: value, number of digits, rest *)
Fixpoint scan_digits_aux (s : str) (acc : Z) (cnt : nat) : Z * nat * str :=
  match s with
  | [] => (acc, cnt, [])
  | c :: r =>
    match digit_val c with
    | Some d => scan_digits_aux r (acc * 10 + d)%Z (S cnt)
    | None =>
      if ch_eqb c "_" then
        match r with
        | c2 :: r2 =>
          match digit_val c2 with
          | Some d => scan_digits_aux r2 (acc * 10 + d)%Z (S cnt)
          | None => (acc, cnt, s)
          end
        | [] => (acc, cnt, s)
        end
      else (acc, cnt, s)
    end
  end.
Definition scan_digits (s : str) : option (Z * nat * str) :=
  match s with
  | c :: _ => match digit_val c with Some _ => Some (scan_digits_aux s 0%Z 0) | None => None end
  | [] => None
  end.

Definition take_sign (s : str) : bool * str :=
  match s with
  | c :: r => if ch_eqb c "-" then (true, r) else if ch_eqb c "+" then (false, r) else (false, s)
  | [] => (false, [])
  end.

(* int(element) *)
Definition parse_int (s : str) : option Z :=
  let (neg, r) := take_sign s in
  match scan_digits r with
  | Some (v, _, []) => Some (if neg then (- v)%Z else v)
  | _ => None
  end.

Definition lower (c : ascii) : ascii :=
  let n := nat_of_ascii c in if Nat.leb 65 n && Nat.leb n 90 then ascii_of_nat (n + 32) else c.

Definition fz (z : Z) : float := of_uint63 (Uint63.of_Z z).
(* 10^e as a float, exact for 0 <= e <= 22 (10^15 and 10^(e-15) fit in 63 bits, the product is representable) *)
Definition pow10f (e : Z) : float :=
  if (e <=? 15)%Z then fz (10 ^ e) else (fz (10 ^ 15) * fz (10 ^ (e - 15)))%float.

(* significand m (>= 0), decimal exponent e *)
Definition dec_to_float (m e : Z) : option float :=
  if (m <? 9007199254740992)%Z then
    if (0 <=? e)%Z then (if (e <=? 22)%Z then Some (fz m * pow10f e)%float else None)
    else (if (-22 <=? e)%Z then Some (fz m / pow10f (- e))%float else None)
  else None.

(* float(element): Some None = a float outside the exactly modelled range *)
Definition parse_float (s : str) : option (option float) :=
  let (neg, r) := take_sign s in
  let sg := fun f : float => if neg then PrimFloat.opp f else f in
  let lr := map lower r in
  if str_eqb lr ["i";"n";"f"] || str_eqb lr ["i";"n";"f";"i";"n";"i";"t";"y"] then Some (Some (sg infinity))
  else if str_eqb lr ["n";"a";"n"] then Some (Some nan)
  else
    let '(iv, ic, r1) := match scan_digits r with Some t => t | None => (0%Z, O, r) end in
    let '(fv, fc, r2) :=
      match r1 with
      | c :: r1' => if ch_eqb c "." then
                      match scan_digits r1' with Some t => t | None => (0%Z, O, r1') end
                    else (0%Z, O, r1)
      | [] => (0%Z, O, [])
      end in
    if Nat.eqb (ic + fc) 0 then None
    else
      let finish (ex : Z) :=
        let m := (iv * 10 ^ Z.of_nat fc + fv)%Z in
        let e := (ex - Z.of_nat fc)%Z in
        match dec_to_float m e with Some f => Some (Some (sg f)) | None => Some None end in
      match r2 with
      | [] => finish 0%Z
      | c :: r3 =>
        if ch_eqb (lower c) "e" then
          let (eneg, r4) := take_sign r3 in
          match scan_digits r4 with
          | Some (ev, _, []) => finish (if eneg then (- ev)%Z else ev)
          | _ => None
          end
        else None
      end.

Definition try_number (s : str) : pyval :=
  match parse_int s with
  | Some z => PInt z
  | None =>
    match parse_float s with
    | Some (Some f) => PFloat f
    | Some None => PUnsupported
    | None => PStr s
    end
  end.

(* equality as a dict lookup sees it (keys of the lookup are str, int or float) *)
Definition py_eq (a b : pyval) : bool :=
  match a, b with
  | PInt x, PInt y => Z.eqb x y
  | PInt x, PFloat f | PFloat f, PInt x =>
    (Z.abs x <? 9007199254740992)%Z && PrimFloat.eqb f (if (x <? 0)%Z then PrimFloat.opp (fz (- x)) else fz x)
  | PFloat f, PFloat g => PrimFloat.eqb f g
  | PStr s, PStr t => str_eqb s t
  | _, _ => false
  end.

Definition valof (lk : list (pyval * pyval)) (s : str) : pyval :=
  let v := try_number s in
  match find (fun kv => py_eq v (fst kv)) lk with
  | Some kv => snd kv
  | None => v
  end.

(* identity of observed values *)
Definition pyval_same (a b : pyval) : bool :=
  match a, b with
  | PInt x, PInt y => Z.eqb x y
  | PFloat f, PFloat g => float_same f g
  | PStr s, PStr t => str_eqb s t
  | PObj i, PObj j => Z.eqb i j
  | _, _ => false
  end.

(* ---- timestamps as Python computes them:  iframe * timespan + time_shift ------------- *)
Inductive pytime := TI (z : Z) | TF (f : float).
Definition zf (z : Z) : float := if (z <? 0)%Z then PrimFloat.opp (fz (- z)) else fz z.   (* float(int), |z| < 2^63 *)
Definition time_of (timespan shift : pytime) (frame : nat) : pytime :=
  let fr := Z.of_nat frame in
  let prod := match timespan with TI t => TI (fr * t) | TF t => TF (zf fr * t)%float end in
  match prod, shift with
  | TI a, TI b => TI (a + b)
  | TI a, TF b => TF (zf a + b)%float
  | TF a, TI b => TF (a + zf b)%float
  | TF a, TF b => TF (a + b)%float
  end.
Definition pytime_same (a b : pytime) : bool :=
  match a, b with TI x, TI y => Z.eqb x y | TF x, TF y => float_same x y | _, _ => false end.

(* ---- the cases of the correspondence ---------------------------------------------------- *)
Definition s2l (s : string) : str := list_ascii_of_string s.
Record pcase := mkpcase { c_rs : bool; c_ts : pytime; c_shift : pytime;
                          c_lookup : list (pyval * pyval); c_str : string }.
Definition timed (c : pcase) (ms : list (nat * notif pyval)) : list (pytime * notif pyval) :=
  map (fun m => (time_of (c_ts c) (c_shift c) (fst m), snd m)) ms.
(* parse(...) *)
Definition parse_case (c : pcase) : perr + list (pytime * notif pyval) :=
  match parse_model pyval (valof (c_lookup c)) (c_rs c) (s2l (c_str c)) with
  | inl e => inl e
  | inr ms => inr (timed c ms)
  end.
(* from_marbles / cold on a virtual-time scheduler (c_shift = subscription time), and hot
   (c_shift = the duetime = the observer's subscription time): parse + scheduler order *)
Definition cold_case (c : pcase) : perr + list (pytime * notif pyval) :=
  match parse_model pyval (valof (c_lookup c)) true (s2l (c_str c)) with
  | inl e => inl e
  | inr ms => inr (timed c (cold_delivery pyval ms))
  end.
Definition hot_case (c : pcase) : perr + list (pytime * notif pyval) :=
  match parse_model pyval (valof (c_lookup c)) true (s2l (c_str c)) with
  | inl e => inl e
  | inr ms => inr (timed c (hot_delivery pyval 0 ms))
  end.

Definition notif_same (a b : notif pyval) : bool :=
  match a, b with
  | NNext x, NNext y => pyval_same x y
  | NError, NError | NCompleted, NCompleted => true
  | _, _ => false
  end.
Fixpoint msgs_same (a b : list (pytime * notif pyval)) : bool :=
  match a, b with
  | [], [] => true
  | (t, n) :: r, (t', n') :: r' => pytime_same t t' && notif_same n n' && msgs_same r r'
  | _, _ => false
  end.
Definition res_same (a b : perr + list (pytime * notif pyval)) : bool :=
  match a, b with
  | inl ErrComma, inl ErrComma | inl ErrStopped, inl ErrStopped => true
  | inr x, inr y => msgs_same x y
  | _, _ => false
  end.
(* does the model cover every element of the string (no float outside the exact range)? *)
Definition supported (r : perr + list (pytime * notif pyval)) : bool :=
  match r with
  | inl _ => true
  | inr ms => forallb (fun m => match snd m with NNext PUnsupported => false | _ => true end) ms
  end.
